/-
  Lemmas for C12, part 12: a strictly valid tree (no adjacent text nodes anywhere: every forest
  in which consolidation was never switched off) is a fixed point of `mergeAdjacentText`, so the
  clone is literally equal to the source.
-/
import XotModel.Lemmas.FcloneMain

namespace XotModel
open HTree

theorem erase_value (t : HTree) : (erase t).value = t.value := by
  cases t; rfl

/-- Adding `t` after `A` does not merge when the last of `A` and `t` are not both text. -/
theorem snocMerge_plain (A : List Tree) (t : Tree)
    (h : ∀ A' x, A = A' ++ [x] → (x.value.isText && t.value.isText) = false) :
    snocMerge A t = A ++ [t] := by
  rcases List.eq_nil_or_concat A with rfl | ⟨A', x, rfl⟩
  · exact snocMerge_nil t
  · rw [List.concat_eq_append]
    have := h A' x (by rw [List.concat_eq_append])
    by_cases hx : x.value.isText = true
    · have ht : t.value.isText = false := by simpa [hx] using this
      exact snocMerge_nontext _ _ ht
    · have hx' : x.value.isText = false := by simpa using hx
      rw [snocMerge_last_nontext _ _ _ hx']
      simp

mutual
  theorem mergeAdjacentText_strict : ∀ t : HTree, validTree true t = true →
      mergeAdjacentText (erase t) = erase t
    | .node h v ks => by
      intro hv
      have hk := validTree_kids true h v ks hv
      have hna : noAdjacentText ks = true := by
        simp only [validTree, Bool.and_eq_true] at hv
        simpa using hv.1.2
      simp only [erase, mergeAdjacentText]
      rw [mergeInto_strict ks [] hk hna (by intro A' x k ks' h; simp at h)]
      rfl
  theorem mergeInto_strict : ∀ (ks : List HTree) (A : List Tree), validList true ks = true →
      noAdjacentText ks = true →
      (∀ A' x k ks', A = A' ++ [x] → ks = k :: ks' → (x.value.isText && k.value.isText) = false) →
      mergeInto A (eraseList ks) = A ++ eraseList ks
    | [], A, _, _, _ => by simp [eraseList, mergeInto]
    | k :: ks, A, hv, hna, hj => by
      obtain ⟨h1, h2⟩ := fc_validList_cons true k ks hv
      simp only [eraseList, mergeInto]
      rw [mergeAdjacentText_strict k h1]
      rw [snocMerge_plain A (erase k) (by
        intro A' x hA
        rw [erase_value]
        exact hj A' x k ks hA rfl)]
      have hna' : noAdjacentText ks = true := by
        cases ks with
        | nil => rfl
        | cons b rest =>
          simp only [noAdjacentText, Bool.and_eq_true] at hna
          exact hna.2
      rw [mergeInto_strict ks (A ++ [erase k]) h2 hna' (by
        intro A' x k' ks' hA hks
        have hx : x = erase k := by
          have := List.append_inj_right' hA rfl
          simpa using this.symm
        subst hx
        subst hks
        rw [erase_value]
        simp only [noAdjacentText, Bool.and_eq_true, Bool.not_eq_true'] at hna
        exact hna.1)]
      simp
end

/-- With consolidation never switched off the expected clone is the source itself. -/
theorem expectedClone_strict (cons : Bool) (t : HTree) (hv : validTree true t = true) :
    expectedClone cons (erase t) = erase t := by
  unfold expectedClone
  cases cons
  · rfl
  · simp [mergeAdjacentText_strict t hv]

end XotModel
