/-
  FspecRepl1 — C05 for `replace`, part 1: list algebra of `mergeRuns`.

  A survivor rule is *associative* when merging a run in stages gives the same node as merging it
  in one sweep (`Keep.earlier` and `Keep.resident n` are).  For such a rule
  `mergeRuns (U ++ mergeRuns V) = mergeRuns (U ++ V)`; merging never crosses a node that is not
  text; hence "merge, drop a non-text child, merge again" = "drop it, merge".
-/
import XotModel.Lemmas.FspecNew

namespace XotModel
open HTree Spec

/-- Merging in stages picks the same survivor as merging in one sweep. -/
structure Keep.Assoc (keep : Keep) : Prop where
  tt : ∀ a b c, keep a b = true → keep b c = true → keep a c = true
  ff : ∀ a b c, keep a b = false → keep b c = false → keep a c = false

theorem Keep.assoc_earlier : Keep.Assoc Keep.earlier := ⟨fun _ _ _ _ _ => rfl, fun _ _ _ h _ => by cases h⟩

theorem Keep.assoc_resident (n : Nat) : Keep.Assoc (Keep.resident n) := by
  constructor
  · intro a b c h _; exact h
  · intro a b c h _; exact h

namespace Spec

theorem join_handle (keep : Keep) (a b : HTree) (x y : Str) :
    (join keep a b x y).handle = if keep a.handle b.handle then a.handle else b.handle := by
  unfold join
  split <;> simp [setValue_handle]

theorem setValue_setValue (t : HTree) (v w : Value) : (t.setValue v).setValue w = t.setValue w := by
  cases t; rfl

theorem join_assoc {keep : Keep} (hk : keep.Assoc) (A B C : HTree) (x y z : Str) :
    join keep (join keep A B x y) C (x ++ y) z = join keep A (join keep B C y z) x (y ++ z) := by
  rcases Bool.eq_false_or_eq_true (keep A.handle B.handle) with h1 | h1 <;>
  rcases Bool.eq_false_or_eq_true (keep B.handle C.handle) with h2 | h2
  · have h3 := hk.tt _ _ _ h1 h2
    simp [join, setValue_handle, h1, h2, h3, setValue_setValue]
  · rcases Bool.eq_false_or_eq_true (keep A.handle C.handle) with h3 | h3 <;>
      simp [join, setValue_handle, h1, h2, h3, setValue_setValue]
  · simp [join, setValue_handle, h1, h2, setValue_setValue]
  · have h3 := hk.ff _ _ _ h1 h2
    simp [join, setValue_handle, h1, h2, h3, setValue_setValue]

/-- A finished prefix can be merged first. -/
theorem mergeInto_mergeInto {keep : Keep} (hk : keep.Assoc) : ∀ (rest : List HTree) (cur b : HTree),
    mergeInto keep cur (mergeInto keep b rest) = mergeInto keep cur (b :: rest)
  | [], cur, b => rfl
  | c :: rest, cur, b => by
    by_cases hbc : b.value.isText = true ∧ c.value.isText = true
    · obtain ⟨y, hy⟩ := isText_iff_textData.1 hbc.1
      obtain ⟨z, hz⟩ := isText_iff_textData.1 hbc.2
      have hy' := textData_some hy
      have hz' := textData_some hz
      rw [mergeInto_cons_text hy' hz', mergeInto_mergeInto hk rest cur (join keep b c y z)]
      by_cases hcur : cur.value.isText = true
      · obtain ⟨x, hx⟩ := isText_iff_textData.1 hcur
        have hx' := textData_some hx
        rw [mergeInto_cons_text hx' (join_value keep b c y z), mergeInto_cons_text hx' hy',
          mergeInto_cons_text (join_value keep cur b x y) hz', join_assoc hk]
      · have n1 : ¬ (cur.value.isText = true ∧ (join keep b c y z).value.isText = true) := fun h => hcur h.1
        have n2 : ¬ (cur.value.isText = true ∧ b.value.isText = true) := fun h => hcur h.1
        rw [mergeInto_cons_other n1, mergeInto_cons_other n2, mergeInto_cons_text hy' hz']
    · rw [mergeInto_cons_other hbc]
      by_cases hcb : cur.value.isText = true ∧ b.value.isText = true
      · obtain ⟨x, hx⟩ := isText_iff_textData.1 hcb.1
        obtain ⟨y, hy⟩ := isText_iff_textData.1 hcb.2
        have hx' := textData_some hx
        have hy' := textData_some hy
        rw [mergeInto_cons_text hx' hy', mergeInto_cons_text hx' hy',
          mergeInto_mergeInto hk rest (join keep cur b x y) c]
      · rw [mergeInto_cons_other hcb, mergeInto_cons_other hcb, mergeInto_mergeInto hk rest b c,
          mergeInto_cons_other hbc]

theorem mergeInto_mergeRuns {keep : Keep} (hk : keep.Assoc) (cur : HTree) (V : List HTree) :
    mergeInto keep cur (mergeRuns keep V) = mergeInto keep cur V := by
  cases V with
  | nil => rfl
  | cons b rest => exact mergeInto_mergeInto hk rest cur b

theorem mergeInto_append_mergeRuns {keep : Keep} (hk : keep.Assoc) (V : List HTree) :
    ∀ (U : List HTree) (cur : HTree),
    mergeInto keep cur (U ++ mergeRuns keep V) = mergeInto keep cur (U ++ V)
  | [], cur => mergeInto_mergeRuns hk cur V
  | b :: U, cur => by
    simp only [List.cons_append]
    by_cases h : cur.value.isText = true ∧ b.value.isText = true
    · obtain ⟨x, hx⟩ := isText_iff_textData.1 h.1
      obtain ⟨y, hy⟩ := isText_iff_textData.1 h.2
      rw [mergeInto_cons_text (textData_some hx) (textData_some hy),
        mergeInto_cons_text (textData_some hx) (textData_some hy),
        mergeInto_append_mergeRuns hk V U _]
    · rw [mergeInto_cons_other h, mergeInto_cons_other h, mergeInto_append_mergeRuns hk V U b]

/-- Right stage. -/
theorem mergeRuns_append_mergeRuns {keep : Keep} (hk : keep.Assoc) (U V : List HTree) :
    mergeRuns keep (U ++ mergeRuns keep V) = mergeRuns keep (U ++ V) := by
  cases U with
  | nil => simp only [List.nil_append]; exact mergeRuns_idem keep V
  | cons a U => exact mergeInto_append_mergeRuns hk V U a

/-- A node that is not text starts afresh. -/
theorem mergeInto_nontext {keep : Keep} {A : HTree} (hA : A.value.isText = false) (V : List HTree) :
    mergeInto keep A V = A :: mergeRuns keep V := by
  cases V with
  | nil => rfl
  | cons b r =>
    rw [mergeInto_cons_other (by intro h; rw [hA] at h; cases h.1)]
    rfl

theorem mergeInto_head_nontext {keep : Keep} {b : HTree} (hb : b.value.isText = false) (r : List HTree) :
    ∃ T, mergeInto keep b r = b :: T := ⟨_, mergeInto_nontext hb r⟩

/-- Left stage, with the run under construction. -/
theorem mergeRuns_mergeInto_append (keep : Keep) (V : List HTree) : ∀ (U : List HTree) (cur : HTree),
    mergeRuns keep (mergeInto keep cur U ++ V) = mergeInto keep cur (U ++ V)
  | [], cur => rfl
  | b :: U, cur => by
    simp only [List.cons_append]
    by_cases h : cur.value.isText = true ∧ b.value.isText = true
    · obtain ⟨x, hx⟩ := isText_iff_textData.1 h.1
      obtain ⟨y, hy⟩ := isText_iff_textData.1 h.2
      rw [mergeInto_cons_text (textData_some hx) (textData_some hy),
        mergeInto_cons_text (textData_some hx) (textData_some hy)]
      exact mergeRuns_mergeInto_append keep V U _
    · rw [mergeInto_cons_other h, mergeInto_cons_other h]
      have ih := mergeRuns_mergeInto_append keep V U b
      -- the head of `mergeInto b U` is text iff `b` is
      by_cases hb : b.value.isText = true
      · have hc : ¬ cur.value.isText = true := fun hc => h ⟨hc, hb⟩
        have hc' : cur.value.isText = false := by simpa using hc
        show mergeInto keep cur (mergeInto keep b U ++ V) = _
        rw [mergeInto_nontext hc', ih]
      · have hb' : b.value.isText = false := by simpa using hb
        rw [mergeInto_nontext hb' U] at ih ⊢
        show mergeInto keep cur (b :: (mergeRuns keep U ++ V)) = _
        rw [mergeInto_cons_other h]
        exact congrArg (cur :: ·) ih

/-- Left stage. -/
theorem mergeRuns_mergeRuns_append (keep : Keep) (U V : List HTree) :
    mergeRuns keep (mergeRuns keep U ++ V) = mergeRuns keep (U ++ V) := by
  cases U with
  | nil => rfl
  | cons a U => exact mergeRuns_mergeInto_append keep V U a

/-- Merging does not cross a node that is not text. -/
theorem mergeInto_barrier {keep : Keep} {A : HTree} (hA : A.value.isText = false) (V : List HTree) :
    ∀ (U : List HTree) (cur : HTree),
    mergeInto keep cur (U ++ A :: V) = mergeInto keep cur U ++ A :: mergeRuns keep V
  | [], cur => by
    simp only [List.nil_append]
    rw [mergeInto_cons_other (by intro h; rw [hA] at h; cases h.2), mergeInto_nontext hA]
    rfl
  | b :: U, cur => by
    simp only [List.cons_append]
    by_cases h : cur.value.isText = true ∧ b.value.isText = true
    · obtain ⟨x, hx⟩ := isText_iff_textData.1 h.1
      obtain ⟨y, hy⟩ := isText_iff_textData.1 h.2
      rw [mergeInto_cons_text (textData_some hx) (textData_some hy),
        mergeInto_cons_text (textData_some hx) (textData_some hy), mergeInto_barrier hA V U _]
    · rw [mergeInto_cons_other h, mergeInto_cons_other h, mergeInto_barrier hA V U b]
      rfl

theorem mergeRuns_barrier {keep : Keep} {A : HTree} (hA : A.value.isText = false) (U V : List HTree) :
    mergeRuns keep (U ++ A :: V) = mergeRuns keep U ++ A :: mergeRuns keep V := by
  cases U with
  | nil =>
    simp only [List.nil_append]
    show mergeInto keep A V = _
    rw [mergeInto_nontext hA]; rfl
  | cons a U => exact mergeInto_barrier hA V U a

/-- The top-level handles after merging are among those before. -/
theorem mergeInto_tops (keep : Keep) : ∀ (rest : List HTree) (cur : HTree) (k : HTree),
    k ∈ mergeInto keep cur rest → k.handle = cur.handle ∨ ∃ k' ∈ rest, k.handle = k'.handle
  | [], cur, k => by
    intro h
    rw [mergeInto_nil] at h
    left; rw [List.mem_singleton.1 h]
  | b :: rest, cur, k => by
    intro h
    by_cases hcb : cur.value.isText = true ∧ b.value.isText = true
    · obtain ⟨x, hx⟩ := isText_iff_textData.1 hcb.1
      obtain ⟨y, hy⟩ := isText_iff_textData.1 hcb.2
      rw [mergeInto_cons_text (textData_some hx) (textData_some hy)] at h
      rcases mergeInto_tops keep rest _ k h with e | ⟨k', hk', e⟩
      · rw [join_handle] at e
        split at e
        · exact Or.inl e
        · exact Or.inr ⟨b, List.mem_cons_self, e⟩
      · exact Or.inr ⟨k', List.mem_cons_of_mem _ hk', e⟩
    · rw [mergeInto_cons_other hcb] at h
      rcases List.mem_cons.1 h with e | h'
      · left; rw [e]
      · rcases mergeInto_tops keep rest b k h' with e | ⟨k', hk', e⟩
        · exact Or.inr ⟨b, List.mem_cons_self, e⟩
        · exact Or.inr ⟨k', List.mem_cons_of_mem _ hk', e⟩

theorem mergeRuns_tops (keep : Keep) {L : List HTree} {k : HTree} (h : k ∈ mergeRuns keep L) :
    ∃ k' ∈ L, k.handle = k'.handle := by
  cases L with
  | nil => cases h
  | cons a rest =>
    rcases mergeInto_tops keep rest a k h with e | ⟨k', hk', e⟩
    · exact ⟨a, List.mem_cons_self, e⟩
    · exact ⟨k', List.mem_cons_of_mem _ hk', e⟩

/-- **Merge, drop a child that is not text, merge again = drop it, merge.** -/
theorem mergeRuns_drop_mergeRuns {keep : Keep} (hk : keep.Assoc) {A : HTree} (hA : A.value.isText = false)
    {U V : List HTree} (hU : ∀ k ∈ U, k.handle ≠ A.handle) (hV : ∀ k ∈ V, k.handle ≠ A.handle) :
    mergeRuns keep (dropTop A.handle (mergeRuns keep (U ++ A :: V))) = mergeRuns keep (U ++ V) := by
  rw [mergeRuns_barrier hA]
  have hU' : ∀ k ∈ mergeRuns keep U, k.handle ≠ A.handle := by
    intro k hk'
    obtain ⟨k', hk'', e⟩ := mergeRuns_tops keep hk'
    rw [e]; exact hU k' hk''
  have hV' : ∀ k ∈ mergeRuns keep V, k.handle ≠ A.handle := by
    intro k hk'
    obtain ⟨k', hk'', e⟩ := mergeRuns_tops keep hk'
    rw [e]; exact hV k' hk''
  rw [dropTop_mid rfl hU' hV', mergeRuns_mergeRuns_append, mergeRuns_append_mergeRuns hk]

/-- Two rules that agree whenever the left node is one of the list's text nodes merge alike. -/
theorem mergeInto_keep_congr {keep keep' : Keep} : ∀ (rest : List HTree) (cur : HTree),
    (cur.value.isText = true → ∀ y, keep cur.handle y = keep' cur.handle y) →
    (∀ k ∈ rest, k.value.isText = true → ∀ y, keep k.handle y = keep' k.handle y) →
    mergeInto keep cur rest = mergeInto keep' cur rest
  | [], _, _, _ => rfl
  | b :: rest, cur, hc, hr => by
    by_cases hcb : cur.value.isText = true ∧ b.value.isText = true
    · obtain ⟨x, hx⟩ := isText_iff_textData.1 hcb.1
      obtain ⟨y, hy⟩ := isText_iff_textData.1 hcb.2
      rw [mergeInto_cons_text (textData_some hx) (textData_some hy),
        mergeInto_cons_text (textData_some hx) (textData_some hy)]
      have hj : join keep cur b x y = join keep' cur b x y := by
        unfold join; rw [hc hcb.1]
      rw [hj]
      apply mergeInto_keep_congr rest
      · intro _ z
        rw [join_handle]
        split
        · exact hc hcb.1 z
        · exact hr b List.mem_cons_self hcb.2 z
      · exact fun k hk => hr k (List.mem_cons_of_mem _ hk)
    · rw [mergeInto_cons_other hcb, mergeInto_cons_other hcb,
        mergeInto_keep_congr rest b (hr b List.mem_cons_self) (fun k hk => hr k (List.mem_cons_of_mem _ hk))]

theorem mergeRuns_keep_congr {keep keep' : Keep} {L : List HTree}
    (h : ∀ k ∈ L, k.value.isText = true → ∀ y, keep k.handle y = keep' k.handle y) :
    mergeRuns keep L = mergeRuns keep' L := by
  cases L with
  | nil => rfl
  | cons a rest =>
    exact mergeInto_keep_congr rest a (h a List.mem_cons_self) (fun k hk => h k (List.mem_cons_of_mem _ hk))

end Spec
end XotModel
