/-
  XotModel.Lemmas.AcceptedStep — the builder invariant behind "accepted ⇒ representable", part 1:
  the open frames in their scopes (`ChainAcc`), the pending start tag (`EbAcc`), name resolution
  (`elementNameId_acc`, `attributeNameId_acc`), the attribute loop and `open_element`.
-/
import XotModel.Lemmas.AcceptedDefs
import XotModel.Lemmas.AcceptedContent
import XotModel.Lemmas.ParseScope

namespace XotModel.Accepted

open XotModel

/-! ### Interning: what the id stands for afterwards -/

theorem getD_of_get {α : Type} {l : List α} {i : Nat} {x : α} (d : α) (h : l[i]? = some x) : l.getD i d = x := by
  simp [List.getD_eq_getElem?_getD, h]

theorem lt_of_get {α : Type} {l : List α} {i : Nat} {x : α} (h : l[i]? = some x) : i < l.length := by
  rcases Nat.lt_or_ge i l.length with h' | h'
  · exact h'
  · rw [List.getElem?_eq_none h'] at h; cases h

theorem internName_facts (e : Env) (a : Str) (ns : Nat) :
    (e.internName a ns).2 < (e.internName a ns).1.names.length ∧
      (e.internName a ns).1.localName (e.internName a ns).2 = a ∧
      (e.internName a ns).1.nsOfName (e.internName a ns).2 = ns := by
  have h : (e.internName a ns).1.names[(e.internName a ns).2]? = some (a, ns) := internIn_get e.names (a, ns)
  exact ⟨lt_of_get h, by simp only [Env.localName, getD_of_get _ h], by simp only [Env.nsOfName, getD_of_get _ h]⟩

theorem internPrefix_facts (e : Env) (p : Str) :
    (e.internPrefix p).2 < (e.internPrefix p).1.prefixes.length ∧
      (e.internPrefix p).1.prefixStr (e.internPrefix p).2 = p := by
  have h := internPrefix_get e p
  exact ⟨lt_of_get h, by simp only [Env.prefixStr, getD_of_get _ h]⟩

theorem internNamespace_facts (e : Env) (u : Str) :
    (e.internNamespace u).2 < (e.internNamespace u).1.namespaces.length ∧
      (e.internNamespace u).1.namespaceStr (e.internNamespace u).2 = u := by
  have h := internNamespace_get e u
  exact ⟨lt_of_get h, by simp only [Env.namespaceStr, getD_of_get _ h]⟩

/-- `element_name_id`: the new id names (`name`, the namespace some prefix in scope is bound to). -/
theorem elementNameId_acc {env env1 : Env} {stack : NsStack} {pfx name : Str} {sp : Span} {id : Nat}
    (h : elementNameId env stack pfx name sp = .ok (env1, id)) :
    EnvReach env env1 ∧ id < env1.names.length ∧ env1.localName id = name ∧
      ∃ q, lookupPrefix stack q = some (env1.nsOfName id) := by
  unfold elementNameId at h
  dsimp only at h
  split at h
  · next ns hl =>
    simp only [Step.ok.injEq] at h
    obtain ⟨h1, h2, h3⟩ := internName_facts (env.internPrefix pfx).1 name ns
    rw [h] at h1 h2 h3
    have hr : EnvReach env env1 := by
      have := EnvReach.name name ns (EnvReach.pfx pfx (EnvReach.refl env))
      rw [h] at this; exact this
    exact ⟨hr, h1, h2, (env.internPrefix pfx).2, by rw [h3]; exact hl⟩
  · cases h

/-- `attribute_name_id`. -/
theorem attributeNameId_acc {env env1 : Env} (hf : EnvFacts env) {stack : NsStack} {pfx name : Str} {sp : Span}
    {id : Nat} (h : attributeNameId env stack pfx name sp = .ok (env1, id)) :
    EnvReach env env1 ∧ id < env1.names.length ∧ env1.localName id = name ∧
      ((pfx = [] ∧ env1.nsOfName id = Env.noNamespace) ∨
        ∃ q, q ≠ Env.emptyPrefix ∧ lookupPrefix stack q = some (env1.nsOfName id)) := by
  unfold attributeNameId at h
  dsimp only at h
  have hreach : ∀ ns, EnvReach env ((env.internPrefix pfx).1.internName name ns).1 := fun ns =>
    EnvReach.name name ns (EnvReach.pfx pfx (EnvReach.refl env))
  split at h
  · next h0 =>
    simp only [Step.ok.injEq] at h
    obtain ⟨h1, h2, h3⟩ := internName_facts (env.internPrefix pfx).1 name Env.noNamespace
    rw [h] at h1 h2 h3
    have hr := hreach Env.noNamespace
    rw [h] at hr
    refine ⟨hr, h1, h2, .inl ⟨?_, h3⟩⟩
    have hp := (internPrefix_facts env pfx).2
    have h0' : (env.internPrefix pfx).2 = Env.emptyPrefix := by simpa using h0
    rw [h0'] at hp
    have hf1 : EnvFacts (env.internPrefix pfx).1 := (EnvReach.pfx pfx (EnvReach.refl env)).facts hf
    rw [hf1.p0] at hp
    exact hp.symm
  · next h0 =>
    split at h
    · next ns hl =>
      simp only [Step.ok.injEq] at h
      obtain ⟨h1, h2, h3⟩ := internName_facts (env.internPrefix pfx).1 name ns
      rw [h] at h1 h2 h3
      have hr := hreach ns
      rw [h] at hr
      exact ⟨hr, h1, h2, .inr ⟨(env.internPrefix pfx).2, by simpa using h0, by rw [h3]; exact hl⟩⟩
    · cases h

/-! ### Frames in their scopes -/

/-- The declarations among the children of a frame (kept last first). -/
def rdecls (rk : List Tree) : List (Nat × Nat) := kidDecls rk.reverse

theorem rdecls_cons {k : Tree} (rk : List Tree) (h : nsPair k.value = none) : rdecls (k :: rk) = rdecls rk := by
  simp [rdecls, kidDecls, List.filterMap_append, h]

/-- An open node in the scope `st` (for an element: its own declarations on top). -/
structure FrameAcc (env : Env) (f : Frame) (st : NsStack) : Prop where
  val : ValAcc env st f.value
  kids : ∀ k ∈ f.rkids, TreeAcc env st k
  top : f.value.isElement = true → ∃ st', st = rdecls f.rkids :: st'
  kind : f.value.isElement = true ∨ f.value = .document

theorem kind_nsPair {v : Value} (h : v.isElement = true ∨ v = .document) : nsPair v = none := by
  rcases h with h | h
  · cases v <;> simp_all [Value.isElement, nsPair]
  · subst h; rfl

/-- The scope of the parent of an open node. -/
def parentStack (f : Frame) (st : NsStack) : NsStack := if f.value.isElement then st.tail else st

/-- The chain of open nodes, innermost first, against the builder's namespace stack. -/
def ChainAcc (env : Env) : List Frame → NsStack → Prop
  | [], st => st = base2
  | f :: rest, st => FrameAcc env f st ∧ ChainAcc env rest (parentStack f st)

theorem FrameAcc.mono {e e' : Env} (h : EnvApp e e') {f : Frame} {st : NsStack} (hf : FrameAcc e f st) :
    FrameAcc e' f st :=
  ⟨ValAcc.mono h hf.val, fun k hk => TreeAcc.mono h k (hf.kids k hk), hf.top, hf.kind⟩

theorem ChainAcc.mono {e e' : Env} (h : EnvApp e e') : ∀ {fs : List Frame} {st : NsStack},
    ChainAcc e fs st → ChainAcc e' fs st
  | [], _, hc => hc
  | _ :: _, _, hc => ⟨hc.1.mono h, ChainAcc.mono h hc.2⟩

/-- The finished node of a frame, in the scope of its parent. -/
theorem FrameAcc.close {env : Env} {f : Frame} {st : NsStack} (h : FrameAcc env f st) :
    TreeAcc env (parentStack f st) f.close := by
  unfold Frame.close
  rw [treeAcc_node]
  have hctx : ctx f.value f.rkids.reverse (parentStack f st) = st := by
    unfold ctx parentStack
    by_cases he : f.value.isElement = true
    · obtain ⟨st', hst⟩ := h.top he
      simp only [he, if_true]
      rw [hst]; rfl
    · simp [he]
  rw [hctx]
  exact ⟨h.val, fun k hk => h.kids k (List.mem_reverse.mp hk)⟩

/-- A finished normal child is added to the current frame. -/
theorem FrameAcc.addKid {env : Env} {f : Frame} {st : NsStack} (h : FrameAcc env f st) {k : Tree}
    (hk : TreeAcc env st k) (hn : nsPair k.value = none) :
    FrameAcc env { f with rkids := k :: f.rkids } st := by
  refine ⟨h.val, fun k' hk' => ?_, fun he => ?_, h.kind⟩
  · rcases List.mem_cons.mp hk' with rfl | hk'
    · exact hk
    · exact h.kids k' hk'
  · obtain ⟨st', hst⟩ := h.top he
    exact ⟨st', by rw [rdecls_cons _ hn]; exact hst⟩

/-! ### The pending start tag -/

def AbAcc (ab : AttributeBuilder) : Prop :=
  ncNameNE ab.name = true ∧ ab.value.all isXmlChar = true ∧ ¬ (ab.pfx = [] ∧ ab.name = xmlnsName)

structure EbAcc (env : Env) (eb : ElementBuilder) : Prop where
  name : ncNameNE eb.name = true
  decls : ∀ d ∈ eb.namespaces, ValAcc env [] (.namespace d.1 d.2)
  attrs : ∀ ab ∈ eb.attributes, AbAcc ab

theorem EbAcc.mono {e e' : Env} (h : EnvApp e e') {eb : ElementBuilder} (hb : EbAcc e eb) : EbAcc e' eb :=
  ⟨hb.name, fun d hd => ValAcc.mono h (hb.decls d hd), hb.attrs⟩

theorem valAcc_namespace_any {env : Env} {st st' : NsStack} {p ns : Nat} (h : ValAcc env st (.namespace p ns)) :
    ValAcc env st' (.namespace p ns) := h

/-! ### The attribute loop of `open_element` -/

theorem addAttributes_acc (stack : NsStack) (node : Path) : ∀ (abs : List AttributeBuilder) (st st' : AttrLoop),
    EnvFacts st.env → (∀ ab ∈ abs, AbAcc ab) → (∀ k ∈ st.rkids, TreeAcc st.env stack k) →
    addAttributes stack node st abs = .ok st' →
      EnvReach st.env st'.env ∧ (∀ k ∈ st'.rkids, TreeAcc st'.env stack k) ∧ rdecls st'.rkids = rdecls st.rkids := by
  intro abs
  induction abs with
  | nil =>
    intro st st' _ _ hk h
    simp only [addAttributes, Step.ok.injEq] at h
    subst h
    exact ⟨EnvReach.refl _, hk, rfl⟩
  | cons ab rest ih =>
    intro st st' hf hab hk h
    simp only [addAttributes] at h
    cases hn : attributeNameId st.env stack ab.pfx ab.name ab.prefixSpan with
    | panic => rw [hn] at h; cases h
    | err e env => rw [hn] at h; cases h
    | ok r =>
      obtain ⟨env1, nameId⟩ := r
      rw [hn] at h
      simp only at h
      obtain ⟨hr, hlt, hloc, hscope⟩ := attributeNameId_acc hf hn
      obtain ⟨ha1, ha2, ha3⟩ := hab ab (by simp)
      split at h
      · cases h
      · split at h
        · cases h
        · have hval : (xmlIdValue nameId ab.value).all isXmlChar = true := by
            unfold xmlIdValue
            split
            · exact normalizeXmlId_all _ ha2
            · exact ha2
          have hnew : TreeAcc env1 stack (.node (.attribute nameId (xmlIdValue nameId ab.value)) []) := by
            refine treeAcc_leaf rfl ⟨hlt, by rw [hloc]; exact ha1, hval, ?_, ?_⟩
            · intro hid
              simp only [xmlIdValue, hid, beq_self_eq_true, if_true]
              exact normalizeXmlId_idem _
            · rcases hscope with ⟨hp, hns⟩ | hq
              · exact .inl ⟨hns, by rw [hloc]; exact fun hx => ha3 ⟨hp, hx⟩⟩
              · exact .inr hq
          obtain ⟨r1, r2, r3⟩ := ih _ st' (hr.facts hf) (fun ab' hab' => hab ab' (by simp [hab']))
            (fun k hk' => by
              rcases List.mem_cons.mp hk' with rfl | hk'
              · exact hnew
              · exact TreeAcc.mono hr.app k (hk k hk')) h
          exact ⟨hr.trans r1, r2, by rw [r3]; exact rdecls_cons _ rfl⟩

theorem rdecls_namespaceKids (decls : List (Nat × Nat)) : rdecls (namespaceKids decls) = decls := by
  simp only [rdecls, namespaceKids, List.reverse_reverse, kidDecls, List.filterMap_map]
  induction decls with
  | nil => rfl
  | cons d ds ih =>
    rw [List.filterMap_cons]
    have : ((fun k : Tree => nsPair k.value) ∘ fun d : Nat × Nat => Tree.node (Value.namespace d.fst d.snd) []) d = some d := rfl
    rw [this, ih]

/-! ### `open_element` -/

/-- What `open_element` establishes. -/
theorem openElement_acc {b b' : Builder} (hf : EnvFacts b.env) (hc : ChainAcc b.env (b.cur :: b.parents) b.nsStack)
    (heb : ∀ e, b.eb = some e → EbAcc b.env e) (hr : b.openElement = .ok b') :
    EnvReach b.env b'.env ∧ ChainAcc b'.env (b'.cur :: b'.parents) b'.nsStack ∧ b'.eb = none := by
  unfold Builder.openElement at hr
  split at hr
  · cases hr
  · rename_i eb hebs
    have hE := heb eb hebs
    dsimp only at hr
    cases hn : elementNameId b.env (eb.namespaces :: b.nsStack) eb.pfx eb.name eb.prefixSpan with
    | panic => rw [hn] at hr; cases hr
    | err e env => rw [hn] at hr; cases hr
    | ok r =>
      obtain ⟨env1, nameId⟩ := r
      rw [hn] at hr
      simp only at hr
      obtain ⟨hr1, hlt, hloc, hq⟩ := elementNameId_acc hn
      split at hr
      · cases hr
      · cases hr
      · rename_i st hst
        simp only [Step.ok.injEq] at hr
        subst hr
        have hkids0 : ∀ k ∈ namespaceKids eb.namespaces, TreeAcc env1 (eb.namespaces :: b.nsStack) k := by
          intro k hk
          simp only [namespaceKids, List.mem_reverse, List.mem_map] at hk
          obtain ⟨d, hd, rfl⟩ := hk
          exact treeAcc_leaf rfl (ValAcc.mono hr1.app (valAcc_namespace_any (hE.decls d hd)))
        obtain ⟨r1, r2, r3⟩ := addAttributes_acc (eb.namespaces :: b.nsStack) _ eb.attributes
          { env := env1, seenIds := b.seenIds, idNodes := b.idNodes, seenNames := [],
            rkids := namespaceKids eb.namespaces, aspans := [] } st (hr1.facts hf) hE.attrs hkids0 hst
        simp only at r1 r3
        refine ⟨hr1.trans r1, ⟨⟨?_, r2, fun _ => ⟨b.nsStack, ?_⟩, .inl rfl⟩, ?_⟩, rfl⟩
        · refine ValAcc.mono r1.app ⟨hlt, ?_, hq⟩
          rw [hloc]; exact hE.name
        · rw [r3, rdecls_namespaceKids]
        · exact ChainAcc.mono (hr1.trans r1).app hc

end XotModel.Accepted
