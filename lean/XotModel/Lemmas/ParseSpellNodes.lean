/-
  C02_spelled, part 2: what the builder does on the tokens of one spelled node, given what it
  does on the node's children — start tag, empty-element tag, end tag, character-data runs,
  comments and PIs.
-/
import XotModel.Lemmas.ParseQName
import XotModel.Lemmas.ParseSpellStart

namespace XotModel

/-- The builder after some finished nodes `trees` (in document order) were added to the current
    frame, with the interning tables `env'` and some span map. -/
def Builder.emit (b : Builder) (env' : Env) (trees : List Tree) (sp : SpanMap) : Builder :=
  { b with env := env', cur := { b.cur with rkids := trees.reverse ++ b.cur.rkids }, spans := sp }

theorem emit_emit (b : Builder) (e1 e2 : Env) (t1 t2 : List Tree) (s1 s2 : SpanMap) :
    (b.emit e1 t1 s1).emit e2 t2 s2 = b.emit e2 (t1 ++ t2) s2 := by
  simp [Builder.emit, List.reverse_append, List.append_assoc]

/-- The last child of the current frame is not a text node. -/
def HeadOk (b : Builder) : Prop := ∀ s ks more, b.cur.rkids ≠ .node (.text s) ks :: more

theorem Ready.emit {b : Builder} (h : Ready b) {e' : Env} (hx : EnvExt b.env e') (trees : List Tree) (sp : SpanMap) :
    Ready (b.emit e' trees sp) := by
  have hp := hx.1
  refine ⟨h.eb, ?_, h.look, ?_⟩
  · simp only [Builder.emit]; rw [hp]; exact h.pfx0
  · obtain ⟨x, ns, hx1, hns⟩ := h.xmlId
    exact ⟨x, ns, EnvExt.names_get hx hx1, hns⟩

/-! ### `encode` only extends the name table -/

theorem encodeAttrs_ext : ∀ (attrs : List (Str × Str)) (env : Env), EnvExt env (encodeAttrs env attrs).1
  | [], env => EnvExt.refl env
  | (a, v) :: rest, env => by
    simp only [encodeAttrs]
    exact (internName_ext env a Env.noNamespace).trans (encodeAttrs_ext rest _)

mutual
theorem encode_ext : ∀ (n : PNode) (env : Env), EnvExt env (n.encode env).1
  | .elem name attrs kids, env => by
    simp only [PNode.encode]
    exact ((internName_ext env name Env.noNamespace).trans (encodeAttrs_ext attrs _)).trans (encodeList_ext kids _)
  | .text s, env => EnvExt.refl env
  | .comment s, env => EnvExt.refl env
  | .pi t d, env => by simp only [PNode.encode]; exact internName_ext env t Env.noNamespace
theorem encodeList_ext : ∀ (ns : List PNode) (env : Env), EnvExt env (PNode.encode.encodeList env ns).1
  | [], env => EnvExt.refl env
  | k :: ks, env => by
    simp only [PNode.encode.encodeList]
    exact (encode_ext k env).trans (encodeList_ext ks _)
end

theorem encodeList_append (env : Env) : ∀ (l1 l2 : List PNode),
    PNode.encode.encodeList env (l1 ++ l2) =
      ((PNode.encode.encodeList (PNode.encode.encodeList env l1).1 l2).1,
       (PNode.encode.encodeList env l1).2 ++ (PNode.encode.encodeList (PNode.encode.encodeList env l1).1 l2).2) := by
  intro l1
  induction l1 generalizing env with
  | nil => intro l2; simp [PNode.encode.encodeList]
  | cons k ks ih =>
    intro l2
    simp only [List.cons_append, PNode.encode.encodeList]
    rw [ih]

theorem encodeList_single (env : Env) (n : PNode) :
    PNode.encode.encodeList env [n] = ((n.encode env).1, [(n.encode env).2]) := by
  simp [PNode.encode.encodeList]

/-! ### Start tag -/

theorem lookup_push_empty (st : NsStack) (p : Nat) : lookupPrefix ([] :: st) p = lookupPrefix st p := by
  rw [lookupPrefix_cons]; rfl

/-- The builder right after the start tag `<name attrs>`. -/
def Builder.opened (b : Builder) (name : Str) (attrs : List (Str × Str)) (sp : SpanMap) : Builder :=
  { env := (encodeAttrs (b.env.internName name Env.noNamespace).1 attrs).1,
    cur := ⟨.element (b.env.internName name Env.noNamespace).2,
            (encodeAttrs (b.env.internName name Env.noNamespace).1 attrs).2.reverse⟩,
    parents := b.cur :: b.parents, nsStack := [] :: b.nsStack, eb := none,
    seenIds := b.seenIds, idNodes := b.idNodes, spans := sp, openPrefixes := [] :: b.openPrefixes }

theorem run_start (b : Builder) (hr : Ready b) (name : StrSpan) (pstart : Nat) (junk : StrSpan) (attrs : List SAttr)
    (hw : attrsWell attrs) (hps : pstart = 0) (tail : List Token) (lexErr : Option Nat) :
    ∃ b2 : Builder, b2.eb = some { (ElementBuilder.new ⟨[], pstart⟩ name) with attributes := attrs.map SAttr.builder } ∧
      b2.env = b.env ∧ b2.cur = b.cur ∧ b2.parents = b.parents ∧ b2.nsStack = b.nsStack ∧
      b2.seenIds = b.seenIds ∧ b2.idNodes = b.idNodes ∧ b2.spans = b.spans ∧ b2.openPrefixes = b.openPrefixes ∧
      b.run (.elementStart ⟨[], pstart⟩ name junk :: (attrs.map SAttr.token ++ tail)) lexErr = b2.run tail lexErr := by
  refine ⟨{ b with eb := some { (ElementBuilder.new ⟨[], pstart⟩ name) with attributes := attrs.map SAttr.builder } },
    rfl, rfl, rfl, rfl, rfl, rfl, rfl, rfl, rfl, ?_⟩
  have hbc : (⟨[], pstart⟩ : StrSpan).bareColon = false := by rw [hps]; rfl
  simp only [Builder.run, Builder.step, hbc, Bool.false_eq_true, if_false]
  have := run_attrs tail lexErr attrs (b.element ⟨[], pstart⟩ name) (ElementBuilder.new ⟨[], pstart⟩ name) rfl hw.1
    (fun ab hab => by simp [ElementBuilder.new] at hab) (by simpa [ElementBuilder.new] using hw.2)
  rw [this]
  simp [Builder.element, ElementBuilder.new]

theorem openElement_plain (b b2 : Builder) (hr : Ready b) (name : StrSpan) (pstart : Nat) (attrs : List SAttr)
    (hw : attrsWell attrs)
    (heb : b2.eb = some { (ElementBuilder.new ⟨[], pstart⟩ name) with attributes := attrs.map SAttr.builder })
    (henv : b2.env = b.env) (hcur : b2.cur = b.cur) (hpar : b2.parents = b.parents) (hns : b2.nsStack = b.nsStack)
    (hsi : b2.seenIds = b.seenIds) (hid : b2.idNodes = b.idNodes) (hop : b2.openPrefixes = b.openPrefixes) :
    ∃ sp, b2.openElement = .ok (b.opened name.text (attrs.map SAttr.denote) sp) := by
  have hname : elementNameId b2.env ([] :: b2.nsStack) [] name.text (⟨[], pstart⟩ : StrSpan).span =
      .ok (b.env.internName name.text 0) := by
    rw [henv, hns]
    exact elementNameId_plain name.text _ hr.pfx0 (by rw [lookup_push_empty]; exact hr.look)
  have hext := internName_ext b.env name.text 0
  obtain ⟨st', hst, he, hk, hs, hi⟩ := addAttributes_plain ([] :: b2.nsStack) (b2.curPath ++ [b2.cur.rkids.length])
    (attrs.map SAttr.builder)
    { env := (b.env.internName name.text 0).1, seenIds := b2.seenIds, idNodes := b2.idNodes, seenNames := [],
      rkids := namespaceKids [], aspans := [] }
    (by intro ab hab; simp only [List.mem_map] at hab; obtain ⟨a, _, rfl⟩ := hab; rfl)
    (by simp only; rw [hext.1]; exact hr.pfx0)
    (by obtain ⟨x, ns, hx1, hns'⟩ := hr.xmlId; exact ⟨x, ns, hext.names_get hx1, hns'⟩)
    (by intro n hn; simp at hn)
    (by rw [List.map_map]; exact hw.2)
  have hmap : (attrs.map SAttr.builder).map (fun ab => (ab.name, ab.value)) = attrs.map SAttr.denote := by
    simp [List.map_map, SAttr.builder, SAttr.denote, Function.comp]
  rw [hmap] at he hk
  dsimp only at he hk hs hi
  refine ⟨(b2.spans.add ⟨b2.curPath ++ [b2.cur.rkids.length], .elementStart⟩
      (Span.fromPrefixName ⟨[], pstart⟩ name)).addAttributeSpans (b2.curPath ++ [b2.cur.rkids.length]) st'.aspans, ?_⟩
  unfold Builder.openElement
  rw [heb]
  dsimp only [ElementBuilder.new] at hname ⊢
  rw [hname]
  dsimp only
  rw [hst]
  dsimp only
  simp only [Builder.opened, he, hk, hs, hi, hcur, hpar, hns, hsi, hid, hop, namespaceKids, List.map_nil,
    List.reverse_nil, List.append_nil]
  rfl

/-! ### Leaves -/

theorem headOk_of_head {b : Builder} {k : Tree} {more : List Tree} (hk : k.value.isText = false)
    (h : b.cur.rkids = k :: more) : HeadOk b := by
  intro s ks more' heq
  rw [h] at heq
  simp only [List.cons.injEq] at heq
  rw [heq.1] at hk
  simp [Tree.value, Value.isText] at hk

theorem run_comment (b : Builder) (text junk : StrSpan) (rest : List Token) (lexErr : Option Nat) :
    ∃ sp, b.run (.comment text junk :: rest) lexErr =
      (b.emit b.env [.node (.comment (normalizeLineEnds text.text)) []] sp).run rest lexErr := by
  refine ⟨b.spans.add ⟨b.curPath ++ [b.cur.rkids.length], .comment⟩ text.span, ?_⟩
  simp only [Builder.run, Builder.step, Builder.comment, Builder.addLeaf, Builder.emit, List.reverse_cons,
    List.reverse_nil, List.nil_append, List.singleton_append]

theorem run_pi (b : Builder) (target : StrSpan) (content : Option StrSpan) (junk : StrSpan) (rest : List Token)
    (lexErr : Option Nat) (ht : isReservedPiTarget target.text = false) :
    ∃ sp, b.run (.pi target content junk :: rest) lexErr =
      (b.emit (b.env.internName target.text Env.noNamespace).1
        [.node (.pi (b.env.internName target.text Env.noNamespace).2
          (content.map fun c => normalizeLineEnds c.text)) []] sp).run
        rest lexErr := by
  refine ⟨(Builder.processingInstruction b target content).spans, ?_⟩
  simp only [Builder.run, Builder.step, ht, Bool.false_eq_true, if_false, Builder.processingInstruction, Builder.addLeaf, Builder.emit,
    List.reverse_cons, List.reverse_nil, List.nil_append, List.singleton_append]

/-! ### Character data -/

theorem pieceValue_isSome_of_ok (attr : Bool) : ∀ (p : Piece), (p.ok ∨ p = .cr) → (pieceValue attr p).isSome = true
  | .lit c, _ => rfl
  | .named n, h => by rcases h with h | h; exact h.2.2; cases h
  | .dec ds, h => by rcases h with h | h; exact h.2.2; cases h
  | .hex ds, h => by rcases h with h | h; exact h.2.2; cases h
  | .cr, _ => rfl
  | .crlf, _ => rfl

theorem valueOf_ne_nil (attr : Bool) {ps : List Piece} (hne : ps ≠ []) (hw : WellSpelled ps) : valueOf attr ps ≠ [] := by
  cases ps with
  | nil => exact absurd rfl hne
  | cons p rest =>
    have hsome : (pieceValue attr p).isSome = true := by
      apply pieceValue_isSome_of_ok
      cases p with
      | cr => exact Or.inr rfl
      | lit c => exact Or.inl hw.1
      | named n => exact Or.inl hw.1
      | dec ds => exact Or.inl hw.1
      | hex ds => exact Or.inl hw.1
      | crlf => exact Or.inl hw.1
    obtain ⟨c, hc⟩ := Option.isSome_iff_exists.mp hsome
    rw [valueOf_cons rest hc]
    simp

theorem replaceCrLf_ne_nil : ∀ (s : Str), s ≠ [] → replaceCrLf s ≠ []
  | [], h => absurd rfl h
  | [c], _ => by simp [replaceCrLf]
  | c :: d :: rest, _ => by
    simp only [replaceCrLf]
    split <;> simp

theorem cdataValue_ne_nil {s : Str} (h : s ≠ []) : replaceCr (replaceCrLf s) ≠ [] := by
  have := replaceCrLf_ne_nil s h
  unfold replaceCr
  intro hn
  exact this (List.map_eq_nil_iff.mp hn)

/-- The state after character data `acc` was fed to `b` (nothing when `acc` is empty). -/
def Builder.fed (b : Builder) (acc : Str) (sp : SpanMap) : Builder :=
  if acc = [] then { b with spans := sp } else { (b.addText acc).1 with spans := sp }

theorem addText_spans_comm (x : Builder) (sp : SpanMap) (w : Str) :
    (({ x with spans := sp } : Builder).addText w).1 = { (x.addText w).1 with spans := sp } := by
  unfold Builder.addText
  dsimp only
  cases x.cur.rkids with
  | nil => rfl
  | cons k more =>
    cases k with
    | node v ks => cases v <;> rfl

theorem addText_headOk {b : Builder} (h : HeadOk b) (w : Str) :
    (b.addText w).1 = { b with cur := { b.cur with rkids := .node (.text w) [] :: b.cur.rkids } } := by
  unfold Builder.addText
  split
  · rename_i s ks more hr; exact absurd hr (h s ks more)
  · rfl

/-- Feeding one more non-empty piece of character data. -/
theorem fed_addText {b : Builder} (hh : HeadOk b) (acc w : Str) (sp sp' : SpanMap) :
    { ((b.fed acc sp).addText w).1 with spans := sp' } = b.fed (acc ++ w) sp' ∨ w = [] := by
  by_cases hw : w = []
  · exact Or.inr hw
  · left
    unfold Builder.fed
    by_cases ha : acc = []
    · subst ha
      simp only [if_true, List.nil_append, hw, if_false]
      rw [addText_spans_comm]
    · have : acc ++ w ≠ [] := by simp [ha]
      simp only [ha, this, if_false]
      rw [addText_spans_comm, addText_addText]

theorem run_parts (b : Builder) (hr : Ready b) (hh : HeadOk b) (rest : List Token) (lexErr : Option Nat) :
    ∀ (parts : List SPart) (acc : Str) (sp : SpanMap), (∀ p ∈ parts, p.Well) →
      ∃ sp', (b.fed acc sp).run (parts.map SPart.token ++ rest) lexErr =
        (b.fed (acc ++ partsValue parts) sp').run rest lexErr := by
  intro parts
  induction parts with
  | nil => intro acc sp _; exact ⟨sp, by simp [partsValue]⟩
  | cons p ps ih =>
    intro acc sp hw
    have hwp := hw p (by simp)
    have hws : ∀ q ∈ ps, q.Well := fun q hq => hw q (by simp [hq])
    simp only [List.map_cons, List.cons_append, Builder.run]
    have hval : partsValue (p :: ps) = p.value ++ partsValue ps := by simp [partsValue]
    cases p with
    | txt pcs start =>
      obtain ⟨hne, hwell⟩ := hwp
      have hparse := parse_pieces false start pcs 0 hwell
      have hv := valueOf_ne_nil false hne hwell
      simp only [SPart.token, Builder.step, Builder.text, hparse]
      rcases fed_addText hh acc (valueOf false pcs) sp
          (((b.fed acc sp).addText (valueOf false pcs)).1.spans.extendText ((b.fed acc sp).addText (valueOf false pcs)).2
            (⟨renderPieces pcs, start⟩ : StrSpan).span) with h | h
      · rw [h]
        obtain ⟨sp', h'⟩ := ih (acc ++ valueOf false pcs) _ hws
        exact ⟨sp', by rw [h', hval, List.append_assoc]; rfl⟩
      · exact absurd h hv
    | cd t junk =>
      simp only [SPart.token, Builder.step, Builder.cdata]
      by_cases ht : t.text = []
      · simp only [ht, List.isEmpty_nil, if_true]
        obtain ⟨sp', h'⟩ := ih acc sp hws
        refine ⟨sp', ?_⟩
        rw [h', hval]
        simp [SPart.value, ht, replaceCrLf, replaceCr]
      · have hemp : t.text.isEmpty = false := by cases h : t.text <;> simp_all
        simp only [hemp, Bool.false_eq_true, if_false]
        rcases fed_addText hh acc (replaceCr (replaceCrLf t.text)) sp
            (((b.fed acc sp).addText (replaceCr (replaceCrLf t.text))).1.spans.extendText
              ((b.fed acc sp).addText (replaceCr (replaceCrLf t.text))).2 t.span) with h | h
        · rw [h]
          obtain ⟨sp', h'⟩ := ih (acc ++ replaceCr (replaceCrLf t.text)) _ hws
          exact ⟨sp', by rw [h', hval, List.append_assoc]; rfl⟩
        · exact absurd h (cdataValue_ne_nil ht)

/-- A run of character data: one text node with the concatenated value, or nothing. -/
theorem run_chars (b : Builder) (hr : Ready b) (hh : HeadOk b) (parts : List SPart) (hw : ∀ p ∈ parts, p.Well)
    (rest : List Token) (lexErr : Option Nat) :
    ∃ sp, b.run (parts.map SPart.token ++ rest) lexErr =
      (b.emit b.env (if partsValue parts = [] then [] else [.node (.text (partsValue parts)) []]) sp).run rest lexErr := by
  obtain ⟨sp', h⟩ := run_parts b hr hh rest lexErr parts [] b.spans hw
  have h0 : b.fed [] b.spans = b := by simp [Builder.fed]
  rw [h0, List.nil_append] at h
  refine ⟨sp', ?_⟩
  rw [h]
  congr 1
  unfold Builder.fed Builder.emit
  by_cases hv : partsValue parts = []
  · simp [hv]
  · simp only [hv, if_false, List.reverse_cons, List.reverse_nil, List.nil_append, List.singleton_append]
    rw [addText_headOk hh]

end XotModel
