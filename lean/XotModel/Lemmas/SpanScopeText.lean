/-
  C17, scoping at string level, the frames read off the TEXT.

  `scopeStrAt p q` (Lemmas/SpanScopeStr.lean) reads the frames off the namespace NODES of the accepted tree.
  When the content of the document node reads back (`decodeNs`) as the document a spelling `sns` denotes
  (C03_string_accepted_is_denoted: true of every accepted text, `sns` having the text's tokens), the frames
  are those of the spelling: there is a chain of spelled elements `e₁ ∋ e₂ ∋ … ∋ e_k` (`NsPath`: `e₁` a
  top-level node of the spelling, each next one a child of the one before) such that the frames at `q` are,
  innermost first, `declsOf` of the start-tag items of `e_k, …, e₁` — for every `xmlns:p="…"` / `xmlns="…"`
  item of that start tag, in the order written, (`p`, the value decoded as an attribute value).
-/
import XotModel.Lemmas.SpanScopeStr
import XotModel.Lemmas.ParseNsTop

namespace XotModel

/-! ### Chains of spelled elements -/

def NSNode.startAttrs : NSNode → List NSAttr
  | .elem _ _ _ attrs _ _ _ _ _ => attrs
  | .empty _ _ _ attrs _ => attrs
  | _ => []

def NSNode.content : NSNode → List NSNode
  | .elem _ _ _ _ _ kids _ _ _ => kids
  | _ => []

/-- The local name and the prefix a start tag writes. -/
def NSNode.nameLoc : NSNode → Str
  | .elem _ loc _ _ _ _ _ _ _ => loc.text
  | .empty _ loc _ _ _ => loc.text
  | _ => []

def NSNode.namePfx : NSNode → Str
  | .elem pfx _ _ _ _ _ _ _ _ => pfx.text
  | .empty pfx _ _ _ _ => pfx.text
  | _ => []

def NSNode.isElement : NSNode → Bool
  | .elem _ _ _ _ _ _ _ _ _ => true
  | .empty _ _ _ _ _ => true
  | _ => false

/-- `chain` (outermost first) descends through the spelling: its head is an element among `cands`, the next
    one an element among the head's children, and so on. -/
def NsPath : List NSNode → List NSNode → Prop
  | _, [] => True
  | cands, e :: rest => e ∈ cands ∧ e.isElement = true ∧ NsPath e.content rest

/-- The frames a chain contributes, innermost first: the declarations each start tag writes, decoded. -/
def chainFrames (chain : List NSNode) : List (List (Str × Str)) :=
  chain.reverse.map fun e => declsOf e.startAttrs

/-! ### Reading an id tree back, piecewise -/

theorem decodeItems_get {env : Env} : ∀ (ks : List Tree) (items : List NItem) (i : Nat) (k : Tree),
    decodeNsTree.decodeItems env ks = some items → ks[i]? = some k →
    ∃ a, decodeNsTree env k = some a ∧ a ∈ items := by
  intro ks
  induction ks with
  | nil => intro items i k _ hk; simp at hk
  | cons x xs ih =>
    intro items i k h hk
    simp only [decodeNsTree.decodeItems] at h
    cases hx : decodeNsTree env x with
    | none => simp [hx] at h
    | some a =>
      cases hxs : decodeNsTree.decodeItems env xs with
      | none => simp [hx, hxs] at h
      | some as =>
        simp only [hx, hxs, Option.some.injEq] at h
        subst h
        cases i with
        | zero =>
          simp only [List.getElem?_cons_zero, Option.some.injEq] at hk
          subst hk
          exact ⟨a, hx, by simp⟩
        | succ j =>
          simp only [List.getElem?_cons_succ] at hk
          obtain ⟨b, hb, hm⟩ := ih as j k hxs hk
          exact ⟨b, hb, by simp [hm]⟩

theorem decodeNsTree_element {env : Env} {n : Nat} {ks : List Tree} {x : NItem}
    (h : decodeNsTree env (.node (.element n) ks) = some x) :
    ∃ items, decodeNsTree.decodeItems env ks = some items ∧
      x = .node (.elem (env.expanded n).1 (env.expanded n).2 (items.filterMap NItem.decl?)
        (items.filterMap NItem.attr?) (items.filterMap NItem.node?)) := by
  simp only [decodeNsTree] at h
  cases hi : decodeNsTree.decodeItems env ks with
  | none => simp [hi] at h
  | some items =>
    simp only [hi, Option.some.injEq] at h
    exact ⟨items, rfl, h.symm⟩

/-- Only an element has children in a tree that reads back. -/
theorem decodeNsTree_kids {env : Env} {v : Value} {ks : List Tree} {x : NItem}
    (h : decodeNsTree env (.node v ks) = some x) (hne : ks ≠ []) : ∃ n, v = .element n := by
  cases v with
  | element n => exact ⟨n, rfl⟩
  | document => simp [decodeNsTree] at h
  | text s => cases ks with
    | nil => exact absurd rfl hne
    | cons _ _ => simp [decodeNsTree] at h
  | comment s => cases ks with
    | nil => exact absurd rfl hne
    | cons _ _ => simp [decodeNsTree] at h
  | pi t d => cases ks with
    | nil => exact absurd rfl hne
    | cons _ _ => simp [decodeNsTree] at h
  | «attribute» n w => cases ks with
    | nil => exact absurd rfl hne
    | cons _ _ => simp [decodeNsTree] at h
  | «namespace» p n => cases ks with
    | nil => exact absurd rfl hne
    | cons _ _ => simp [decodeNsTree] at h

/-- What a child reads back as, as a declaration: exactly the namespace nodes do. -/
theorem decodeNsTree_decl {env : Env} {k : Tree} {a : NItem} (h : decodeNsTree env k = some a) :
    a.decl? = (match k.value with
      | .namespace p n => some (env.prefixStr p, env.namespaceStr n)
      | _ => none) := by
  cases k with
  | node v ks =>
    cases v with
    | element n =>
      obtain ⟨items, _, rfl⟩ := decodeNsTree_element h
      rfl
    | document => simp [decodeNsTree] at h
    | text s => cases ks with
      | nil => simp only [decodeNsTree, Option.some.injEq] at h; subst h; rfl
      | cons _ _ => simp [decodeNsTree] at h
    | comment s => cases ks with
      | nil => simp only [decodeNsTree, Option.some.injEq] at h; subst h; rfl
      | cons _ _ => simp [decodeNsTree] at h
    | pi t d => cases ks with
      | nil => simp only [decodeNsTree, Option.some.injEq] at h; subst h; rfl
      | cons _ _ => simp [decodeNsTree] at h
    | «attribute» n w => cases ks with
      | nil => simp only [decodeNsTree, Option.some.injEq] at h; subst h; rfl
      | cons _ _ => simp [decodeNsTree] at h
    | «namespace» p n => cases ks with
      | nil => simp only [decodeNsTree, Option.some.injEq] at h; subst h; rfl
      | cons _ _ => simp [decodeNsTree] at h

/-- The declarations an element reads back with are the frame `scopeAt` pushes for it. -/
theorem decodeItems_decls {env : Env} : ∀ (ks : List Tree) (items : List NItem),
    decodeNsTree.decodeItems env ks = some items →
    items.filterMap NItem.decl? = strFrame env (sdDeclsOf ks) := by
  intro ks
  induction ks with
  | nil =>
    intro items h
    simp only [decodeNsTree.decodeItems, Option.some.injEq] at h
    subst h; rfl
  | cons x xs ih =>
    intro items h
    simp only [decodeNsTree.decodeItems] at h
    cases hx : decodeNsTree env x with
    | none => simp [hx] at h
    | some a =>
      cases hxs : decodeNsTree.decodeItems env xs with
      | none => simp [hx, hxs] at h
      | some as =>
        simp only [hx, hxs, Option.some.injEq] at h
        subst h
        have hd := decodeNsTree_decl hx
        have ihx := ih as hxs
        simp only [strFrame, sdDeclsOf] at ihx ⊢
        simp only [List.filterMap_cons, hd]
        cases hv : x.value <;> simp only [hv] <;> try exact ihx
        simp only [List.map_cons, ihx]

/-! ### What a spelling denotes, piecewise -/

theorem mem_denoteList {scope : Scope} {d : NPNode} : ∀ (cands : List NSNode),
    d ∈ NSNode.denote.denoteList scope cands → ∃ e ∈ cands, d ∈ NSNode.denote scope e
  | [], h => by simp [NSNode.denote.denoteList] at h
  | c :: cs, h => by
    simp only [NSNode.denote.denoteList, List.mem_append] at h
    rcases h with h | h
    · exact ⟨c, by simp, h⟩
    · obtain ⟨e, he, hd⟩ := mem_denoteList cs h
      exact ⟨e, by simp [he], hd⟩

theorem denote_elem {scope : Scope} {e : NSNode} {ns loc : Str} {decls : List (Str × Str)}
    {attrs : List ((Str × Str) × Str)} {kids : List NPNode}
    (h : NPNode.elem ns loc decls attrs kids ∈ NSNode.denote scope e) :
    e.isElement = true ∧ decls = declsOf e.startAttrs ∧
      kids = NSNode.denote.denoteList (scope.push (declsOf e.startAttrs)) e.content ∧ loc = e.nameLoc := by
  cases e with
  | elem pfx l junk as openSp ks cpfx cloc closeSp =>
    simp only [NSNode.denote, List.mem_singleton, NPNode.elem.injEq] at h
    exact ⟨rfl, h.2.2.1, h.2.2.2.2, h.2.1⟩
  | empty pfx l junk as endSp =>
    simp only [NSNode.denote, List.mem_singleton, NPNode.elem.injEq] at h
    exact ⟨rfl, h.2.2.1, by rw [h.2.2.2.2]; rfl, h.2.1⟩
  | chars parts =>
    simp only [NSNode.denote] at h
    split at h <;> simp at h
  | comment t j => simp [NSNode.denote] at h
  | pi t c j => simp [NSNode.denote] at h

theorem mapM_node_mem : ∀ (items : List NItem) (ds : List NPNode), items.mapM NItem.node? = some ds →
    ∀ a ∈ items, ∃ d, a = .node d ∧ d ∈ ds := by
  intro items
  induction items with
  | nil => intro ds _ a ha; simp at ha
  | cons x xs ih =>
    intro ds h a ha
    rw [List.mapM_cons] at h
    cases hx : NItem.node? x with
    | none => simp [hx] at h
    | some d0 =>
      cases hxs : xs.mapM NItem.node? with
      | none => simp [hx, hxs] at h
      | some ds0 =>
        simp only [hx, hxs, Option.bind_eq_bind, Option.bind_some, Option.pure_def, Option.some.injEq] at h
        subst h
        rcases List.mem_cons.mp ha with rfl | ha'
        · cases a with
          | node d => simp only [NItem.node?, Option.some.injEq] at hx; subst hx; exact ⟨d, rfl, by simp⟩
          | decl _ => simp [NItem.node?] at hx
          | attr _ => simp [NItem.node?] at hx
        · obtain ⟨d, hd, hm⟩ := ih ds0 hxs a ha'
          exact ⟨d, hd, by simp [hm]⟩

/-! ### The frames along a path -/

theorem scope_frames_node {env : Env} : ∀ (q : Path) (t : Tree) (stack : NsStack) (scope : Scope)
    (cands : List NSNode) (d : NPNode) (id : Nat) (ks' : List Tree),
    decodeNsTree env t = some (.node d) → d ∈ NSNode.denote.denoteList scope cands →
    t.at? q = some (.node (.element id) ks') →
    ∃ chain, chain ≠ [] ∧ NsPath cands chain ∧
      strStack env (scopeAt t stack q) = chainFrames chain ++ strStack env stack ∧
      ∃ e, chain.getLast? = some e ∧ e.nameLoc = (env.expanded id).2 := by
  intro q
  induction q with
  | nil =>
    intro t stack scope cands d id ks' hdec hd hat
    simp only [Tree.at?, Option.some.injEq] at hat
    subst hat
    obtain ⟨items, hitems, hx⟩ := decodeNsTree_element hdec
    simp only [NItem.node.injEq] at hx
    subst hx
    obtain ⟨e, he, hde⟩ := mem_denoteList cands hd
    obtain ⟨h1, h2, _, h4⟩ := denote_elem hde
    refine ⟨[e], by simp, ⟨he, h1, trivial⟩, ?_, e, rfl, h4.symm⟩
    simp only [scopeAt, innerStack, strStack, List.map_cons, chainFrames, List.reverse_singleton,
      List.map_nil, List.singleton_append]
    rw [← h2, decodeItems_decls ks' items hitems]
  | cons i rest ih =>
    intro t stack scope cands d id ks' hdec hd hat
    cases t with
    | node v ks =>
      cases hk : ks[i]? with
      | none => simp [Tree.at?, hk] at hat
      | some k =>
        have hat' : k.at? rest = some (.node (.element id) ks') := by simpa [Tree.at?, hk] using hat
        have hne : ks ≠ [] := by intro e; rw [e] at hk; simp at hk
        obtain ⟨n, rfl⟩ := decodeNsTree_kids hdec hne
        obtain ⟨items, hitems, hx⟩ := decodeNsTree_element hdec
        simp only [NItem.node.injEq] at hx
        subst hx
        obtain ⟨e, he, hde⟩ := mem_denoteList cands hd
        obtain ⟨h1, h2, h3, _⟩ := denote_elem hde
        obtain ⟨a, ha, ham⟩ := decodeItems_get ks items i k hitems hk
        -- the child on the path is an element, so it reads back as a node
        have hkel : ∃ n' ks'', k = .node (.element n') ks'' := by
          cases rest with
          | nil => simp only [Tree.at?, Option.some.injEq] at hat'; exact ⟨id, ks', hat'⟩
          | cons j r =>
            cases k with
            | node kv kks =>
              have : kks ≠ [] := by
                intro e0; subst e0; simp [Tree.at?] at hat'
              obtain ⟨n', rfl⟩ := decodeNsTree_kids ha this
              exact ⟨n', kks, rfl⟩
        obtain ⟨n', ks'', rfl⟩ := hkel
        obtain ⟨items', _, ha'⟩ := decodeNsTree_element ha
        subst ha'
        have hmem : NPNode.elem (env.expanded n').1 (env.expanded n').2 (items'.filterMap NItem.decl?)
            (items'.filterMap NItem.attr?) (items'.filterMap NItem.node?) ∈ items.filterMap NItem.node? := by
          rw [List.mem_filterMap]
          exact ⟨_, ham, rfl⟩
        rw [h3] at hmem
        obtain ⟨chain, hcne, hpath, hfr, el, hlast, hloc⟩ := ih (.node (.element n') ks'')
          (innerStack (.element n) ks stack) _ e.content _ id ks' ha hmem hat'
        have hlast' : (e :: chain).getLast? = some el := by
          cases chain with
          | nil => exact absurd rfl hcne
          | cons c cs => rw [List.getLast?_cons_cons]; exact hlast
        refine ⟨e :: chain, by simp, ⟨he, h1, hpath⟩, ?_, el, hlast', hloc⟩
        simp only [scopeAt, hk]
        rw [hfr]
        simp only [innerStack, strStack, List.map_cons, chainFrames, List.reverse_cons, List.map_append,
          List.map_nil, List.append_assoc, List.singleton_append]
        rw [← h2, decodeItems_decls ks items hitems]

/-- From the document node: the content reads back as the document `sns` denotes. -/
theorem scope_frames_document {env : Env} {kids : List Tree} {sns : List NSNode}
    (hdec : decodeNs env kids = some (NSNode.denote.denoteList baseScope sns))
    {q : Path} {id : Nat} {ks' : List Tree}
    (hat : (Tree.node .document kids).at? q = some (.node (.element id) ks')) (stack : NsStack) :
    ∃ chain, chain ≠ [] ∧ NsPath sns chain ∧
      strStack env (scopeAt (.node .document kids) stack q) = chainFrames chain ++ strStack env stack ∧
      ∃ e, chain.getLast? = some e ∧ e.nameLoc = (env.expanded id).2 := by
  cases q with
  | nil => simp [Tree.at?] at hat
  | cons i rest =>
    cases hk : kids[i]? with
    | none => simp [Tree.at?, hk] at hat
    | some k =>
      have hat' : k.at? rest = some (.node (.element id) ks') := by simpa [Tree.at?, hk] using hat
      unfold decodeNs at hdec
      cases hitems : decodeNsTree.decodeItems env kids with
      | none => simp [hitems] at hdec
      | some items =>
        simp only [hitems] at hdec
        obtain ⟨a, ha, ham⟩ := decodeItems_get kids items i k hitems hk
        obtain ⟨d, rfl, hd⟩ := mapM_node_mem items _ hdec a ham
        obtain ⟨chain, h1, h2, h3, h4⟩ := scope_frames_node rest k (innerStack .document kids stack) baseScope sns d
          id ks' ha hd hat'
        refine ⟨chain, h1, h2, ?_, h4⟩
        simp only [scopeAt, hk]
        exact h3

/-! ### Every reachable interner meets `EnvBaseNs` -/

theorem EnvBaseNs.grow {e e' : Env} (h : EnvBaseNs e) (hp : e.prefixes <+: e'.prefixes)
    (hn : e.namespaces <+: e'.namespaces) (hm : e.names <+: e'.names) : EnvBaseNs e' := by
  obtain ⟨x, hx⟩ := hp
  obtain ⟨y, hy⟩ := hn
  obtain ⟨z, hz⟩ := hm
  obtain ⟨r1, h1⟩ := h.pfx
  obtain ⟨r2, h2⟩ := h.ns
  obtain ⟨n0, r3, h3, h4⟩ := h.names
  exact ⟨⟨r1 ++ x, by rw [← hx, h1]; rfl⟩, ⟨r2 ++ y, by rw [← hy, h2]; rfl⟩,
    ⟨n0, r3 ++ z, by rw [← hz, h3]; rfl, h4⟩⟩

open Witness in
theorem Interner.Reachable.envBaseNs {x : Interner} (h : Interner.Reachable x) : EnvBaseNs x.env := by
  induction h with
  | new =>
    rw [interner_new_env]
    exact ⟨⟨[], rfl⟩, ⟨[], rfl⟩, ⟨(['s', 'p', 'a', 'c', 'e'], 1), [], rfl, by decide⟩⟩
  | addNameNs x l ns _ ih =>
    obtain ⟨t, ht, _⟩ := IdMap.getIdMut_prefix Gen.nameIdBits x.nameLookup (l, ns)
    exact ih.grow List.prefix_rfl List.prefix_rfl ⟨t, ht.symm⟩
  | addNamespace x s _ ih =>
    obtain ⟨t, ht, _⟩ := IdMap.getIdMut_prefix Gen.namespaceIdBits x.namespaceLookup s
    exact ih.grow List.prefix_rfl ⟨t, ht.symm⟩ List.prefix_rfl
  | addPrefix x s _ ih =>
    obtain ⟨t, ht, _⟩ := IdMap.getIdMut_prefix Gen.prefixIdBits x.prefixLookup s
    exact ih.grow ⟨t, ht.symm⟩ List.prefix_rfl List.prefix_rfl
  | clone x _ ih => exact ih

/-- The two frames at the bottom, as strings, in tables that meet `EnvBaseNs`. -/
theorem strStack_base {e : Env} (h : EnvBaseNs e) :
    strStack e baseStack = [[([], [])], [(['x', 'm', 'l'], xmlNsUri)]] := by
  obtain ⟨r1, h1⟩ := h.pfx
  obtain ⟨r2, h2⟩ := h.ns
  simp [strStack, strFrame, baseStack, Env.prefixStr, Env.namespaceStr, h1, h2, Env.emptyPrefix, Env.noNamespace,
    Env.xmlPrefix, Env.xmlNamespace]

theorem build_envBaseNs {x : Interner} (hx : Interner.Reachable x) {m : Mode} {len : Nat} {ts : List Token}
    {lexErr : Option Nat} {p : Parsed} (hb : build m len x.env ts lexErr = .ok p) : EnvBaseNs p.env := by
  have he : (x.parse ts).env = p.env := (Interner.parse_build hx.inv m len ts lexErr).1 p hb
  have hm := (Interner.regAll_mono (buildRegs x.env ts) x).prefixOf
  rw [← he]
  exact hx.envBaseNs.grow hm.prefixes hm.namespaces hm.names

end XotModel
