/-
  The `ReversePreorder` iterator machine of access.rs equals its document-order specification.
-/
import XotModel.Lemmas.AxesPartition

namespace XotModel.Axes

/-! ### `rightmost`: the `while let Some(last_child)` descent -/

theorem rightmostList_eq : ∀ (ks : List Tree) (i : Nat), ks ≠ [] →
    ∃ k, ks[ks.length - 1]? = some k ∧ rightmostList i ks = (i + ks.length - 1) :: rightmost k
  | [], _, h => absurd rfl h
  | [k], i, _ => ⟨k, by simp, by simp [rightmostList]⟩
  | k :: k' :: ks, i, _ => by
    obtain ⟨kl, h1, h2⟩ := rightmostList_eq (k' :: ks) (i + 1) (by simp)
    refine ⟨kl, ?_, ?_⟩
    · simpa using h1
    · simp only [rightmostList, List.isEmpty_cons, Bool.false_eq_true, if_false] at h2 ⊢
      rw [h2]; simp; omega

theorem rightmost_node_nil (v : Value) : rightmost (.node v []) = [] := by simp [rightmost, rightmostList]

theorem rightmost_node {v : Value} {ks : List Tree} (h : ks ≠ []) :
    ∃ k, ks[ks.length - 1]? = some k ∧ rightmost (.node v ks) = (ks.length - 1) :: rightmost k := by
  obtain ⟨k, h1, h2⟩ := rightmostList_eq ks 0 h
  exact ⟨k, h1, by simp [rightmost, h2]⟩

@[simp] theorem revPreStep_nil (t : Tree) : revPreStep t [] = none := by
  simp [revPreStep, internalPreviousSibling]

theorem revPreStep_snoc (t : Tree) (π : Path) (i : Nat) :
    revPreStep t (π ++ [i]) =
      if i = 0 then some π else some ((π ++ [i - 1]) ++ rightmost (subAt t (π ++ [i - 1]))) := by
  unfold revPreStep
  rw [internalPreviousSibling_snoc]
  by_cases hi : i = 0 <;> simp [hi]

@[simp] theorem revPreIter_none (t : Tree) (flt : Path → Bool) (n : Nat) :
    revPreIter t flt n none = [] := by
  cases n <;> rfl

theorem revPreIter_step (t : Tree) (n : Nat) (cur : Path) :
    revPreIter t allF (n + 1) (some cur) = cur :: revPreIter t allF n (revPreStep t cur) := by
  simp [revPreIter, allF]

theorem sizeList_append (a b : List Tree) :
    Tree.size.sizeList (a ++ b) = Tree.size.sizeList a + Tree.size.sizeList b := by
  induction a with
  | nil => simp [Tree.size.sizeList]
  | cons k a ih => simp [Tree.size.sizeList, ih]; omega

/-- What the machine does from the rightmost deepest node of the subtree at `π`. -/
def RevSub (t : Tree) (s : Tree) : Prop :=
  ∀ (π : Path) (f : Nat), t.at? π = some s →
    revPreIter t allF (s.size + f) (some (π ++ rightmost s)) =
      ((allPre s).map (π ++ ·)).reverse ++ revPreIter t allF f (revPreStep t π)

/-- From the rightmost deepest node below child `m` of `π`, back through the children `m..0`
    and `π` itself. -/
theorem revPreIter_kids {t : Tree} {π : Path} {v : Value} {ks : List Tree}
    (h : t.at? π = some (.node v ks)) (hsub : ∀ k ∈ ks, RevSub t k) :
    ∀ (m : Nat) (hm : m < ks.length) (f : Nat),
    revPreIter t allF (Tree.size.sizeList (ks.take (m + 1)) + 1 + f)
        (some ((π ++ [m]) ++ rightmost ks[m])) =
      ((allPreList 0 (ks.take (m + 1))).map (π ++ ·)).reverse ++ π :: revPreIter t allF f (revPreStep t π)
  | 0, hm, f => by
    have hk : ks[0]? = some ks[0] := List.getElem?_eq_getElem hm
    have hat : t.at? (π ++ [0]) = some ks[0] := by rw [at?_snoc h, hk]
    have := hsub ks[0] (List.getElem_mem hm) (π ++ [0]) (1 + f) hat
    rw [take_succ_allPreList ks 0 _ hk, List.take_add_one, hk]
    simp only [List.take_zero, List.nil_append, Option.toList_some, Tree.size.sizeList, Nat.add_zero,
      allPreList, List.map_map, Function.comp_def]
    rw [Nat.add_assoc, this, revPreStep_snoc, if_pos rfl, Nat.add_comm 1 f, revPreIter_step]
    simp
  | m + 1, hm, f => by
    have hm' : m < ks.length := by omega
    have hk : ks[m + 1]? = some ks[m + 1] := List.getElem?_eq_getElem hm
    have hk' : ks[m]? = some ks[m] := List.getElem?_eq_getElem hm'
    have hat : t.at? (π ++ [m + 1]) = some ks[m + 1] := by rw [at?_snoc h, hk]
    have hsubm : subAt t (π ++ [m]) = ks[m] := by simp [subAt, at?_snoc h, hk']
    have ih := revPreIter_kids h hsub m hm' f
    have := hsub ks[m + 1] (List.getElem_mem hm) (π ++ [m + 1])
      (Tree.size.sizeList (ks.take (m + 1)) + 1 + f) hat
    rw [take_succ_allPreList ks (m + 1) _ hk, List.take_add_one (i := m + 1), hk, sizeList_append]
    simp only [Option.toList_some, Tree.size.sizeList, Nat.add_zero]
    have e : Tree.size.sizeList (ks.take (m + 1)) + ks[m + 1].size + 1 + f =
        ks[m + 1].size + (Tree.size.sizeList (ks.take (m + 1)) + 1 + f) := by omega
    rw [e, this, revPreStep_snoc, if_neg (by omega), Nat.add_sub_cancel, hsubm, ih]
    simp [List.map_append, List.reverse_append, Function.comp_def]

theorem take_length_sub_one_succ (ks : List Tree) (h : ks ≠ []) : ks.take (ks.length - 1 + 1) = ks := by
  have : 0 < ks.length := List.length_pos_iff.mpr h
  rw [Nat.sub_add_cancel this]; simp

theorem revSub_all (t : Tree) : ∀ (n : Nat) (s : Tree), s.size ≤ n → RevSub t s
  | 0, s, hs => by cases s; simp [Tree.size] at hs
  | n + 1, .node v ks, hs => by
    intro π f h
    by_cases hks : ks = []
    · subst hks
      have : (Tree.node v []).size + f = f + 1 := by simp [Tree.size, Tree.size.sizeList]; omega
      rw [this, rightmost_node_nil, List.append_nil, revPreIter_step]
      simp [allPre, allPreList]
    · obtain ⟨kl, hkl, hr⟩ := rightmost_node (v := v) hks
      have hlen : ks.length - 1 < ks.length := by
        have : 0 < ks.length := List.length_pos_iff.mpr hks
        omega
      have hkl' : ks[ks.length - 1] = kl := by
        have := List.getElem?_eq_getElem hlen
        rw [this] at hkl; exact Option.some.inj hkl
      have hsub : ∀ k ∈ ks, RevSub t k := by
        intro k hk
        apply revSub_all t n k
        obtain ⟨i, hi, rfl⟩ := List.getElem_of_mem hk
        have := size_getElem?_le ks i _ (List.getElem?_eq_getElem hi)
        simp [Tree.size] at hs; omega
      have := revPreIter_kids h hsub (ks.length - 1) hlen f
      rw [take_length_sub_one_succ ks hks, hkl'] at this
      have e : (Tree.node v ks).size + f = Tree.size.sizeList ks + 1 + f := by simp [Tree.size]; omega
      rw [e, hr, show π ++ (ks.length - 1) :: rightmost kl = (π ++ [ks.length - 1]) ++ rightmost kl by simp,
        this]
      simp [allPre]

theorem revSub (t s : Tree) : RevSub t s := revSub_all t s.size s (Nat.le_refl _)

/-- After a node, the machine yields everything before the node, last first. -/
theorem revPreIter_before (t : Tree) : ∀ (r : List Nat) (f : Nat), Valid t r.reverse →
    revPreIter t allF ((beforeRel t r.reverse).length + f) (revPreStep t r.reverse) =
      (beforeRel t r.reverse).reverse
  | [], f, _ => by simp [beforeRel]
  | i :: r, f, h => by
    simp only [List.reverse_cons] at h ⊢
    have hπ : Valid t r.reverse := valid_prefix h
    have hat := hπ.at?
    rw [tree_eta (subAt t r.reverse)] at hat
    have hi : i < (subAt t r.reverse).kids.length := (valid_snoc_iff hπ i).mp h
    have ih := revPreIter_before t r f hπ
    rw [beforeRel_snoc t _ _ _ i hat hi, revPreStep_snoc]
    by_cases h0 : i = 0
    · subst h0
      simp only [if_true, List.take_zero, allPreList, List.map_nil, List.length_append,
        List.length_cons, List.length_nil]
      rw [show (beforeRel t r.reverse).length + (0 + 1) + f = ((beforeRel t r.reverse).length + f) + 1 by omega,
        revPreIter_step, ih]
      simp
    · have hm : i - 1 < (subAt t r.reverse).kids.length := by omega
      have hk' : (subAt t r.reverse).kids[i - 1]? = some (subAt t r.reverse).kids[i - 1] :=
        List.getElem?_eq_getElem hm
      have hsubm : subAt t (r.reverse ++ [i - 1]) = (subAt t r.reverse).kids[i - 1] :=
        subAt_snoc hπ hm
      have hkids := revPreIter_kids hat (fun k _ => revSub t k) (i - 1) hm
        ((beforeRel t r.reverse).length + f)
      rw [Nat.sub_add_cancel (by omega)] at hkids
      simp only [if_neg h0, hsubm, List.length_append, List.length_cons, List.length_map,
        length_allPreList]
      rw [show (beforeRel t r.reverse).length + (Tree.size.sizeList ((subAt t r.reverse).kids.take i) + 1) + f =
        Tree.size.sizeList ((subAt t r.reverse).kids.take i) + 1 + ((beforeRel t r.reverse).length + f) by omega,
        hkids, ih]
      simp [List.reverse_append]

/-- The filter only filters. -/
theorem revPreIter_filter (t : Tree) (flt : Path → Bool) : ∀ (n : Nat) (cur : Option Path),
    revPreIter t flt n cur = (revPreIter t allF n cur).filter flt
  | 0, _ => by simp [revPreIter]
  | n + 1, none => by simp
  | n + 1, some node => by
    simp only [revPreIter, allF, Bool.not_true, Bool.false_eq_true, if_false]
    rw [revPreIter_filter t flt n, show revPreIter t (fun _ => true) = revPreIter t allF from rfl]
    cases hf : flt node <;> simp [hf]

/-- Everything up to and including `p`. -/
theorem filter_upto_allPre {t : Tree} {p : Path} (h : Valid t p) :
    (allPre t).filter (fun q => docLt q p || q == p) = beforeRel t p ++ [p] := by
  rw [allPre_split t p h, List.filter_append, List.filter_append]
  have e1 : (beforeRel t p).filter (fun q => docLt q p || q == p) = beforeRel t p := by
    apply List.filter_eq_self.mpr
    intro x hx; simp [mem_beforeRel t p x hx]
  have e3 : (afterRel t p).filter (fun q => docLt q p || q == p) = [] := by
    apply List.filter_eq_nil_iff.mpr
    intro x hx
    have := mem_afterRel t p x hx
    have hne : x ≠ p := by intro e; subst e; rw [docLt_irrefl] at this; cases this.1
    simp [docLt_asymm this.1, hne]
  have e2 : ((allPre (subAt t p)).map (p ++ ·)).filter (fun q => docLt q p || q == p) = [p] := by
    cases subAt t p with
    | node v ks =>
      simp only [allPre, List.map_cons, List.append_nil, List.filter_cons, docLt_irrefl, beq_self_eq_true,
        Bool.or_true, if_true]
      congr 1
      apply List.filter_eq_nil_iff.mpr
      intro x hx
      obtain ⟨y, hy, rfl⟩ := List.mem_map.mp hx
      obtain ⟨j, q', rfl, _⟩ := mem_allPreList hy
      have hne : p ++ j :: q' ≠ p := by simp
      have : docLt (p ++ j :: q') p = false :=
        docLt_asymm (docLt_of_prefix (by simp) (Ne.symm hne))
      simp [this]
  rw [e1, e2, e3]; simp

/-- `all_reverse_preorder` = all nodes up to and including `p`, last first. -/
theorem allReversePreorder_eq {t : Tree} {p : Path} (h : Valid t p) :
    allReversePreorder t p = ((allPre t).filter (fun q => docLt q p || q == p)).reverse := by
  rw [filter_upto_allPre h]
  have hlen : (beforeRel t p).length + 1 ≤ t.size := by
    have := congrArg List.length (allPre_split t p h)
    rw [length_allPre] at this
    have h1 : 1 ≤ (allPre (subAt t p)).length := by rw [length_allPre]; cases subAt t p; simp [Tree.size]
    simp at this; omega
  unfold allReversePreorder
  obtain ⟨f, hf⟩ : ∃ f, t.size = ((beforeRel t p).length + f) + 1 := ⟨t.size - (beforeRel t p).length - 1, by omega⟩
  rw [hf, show revPreIter t (fun _ => true) = revPreIter t allF from rfl, revPreIter_step]
  have := revPreIter_before t p.reverse f (by simpa using h)
  simp only [List.reverse_reverse] at this
  rw [this]; simp

/-- `reverse_preorder` = the normal nodes up to and including `p`, last first. -/
theorem reversePreorder_eq {t : Tree} {p : Path} (h : Valid t p) :
    reversePreorder t p = ((pre t).filter (fun q => docLt q p || q == p)).reverse := by
  unfold reversePreorder pre
  rw [revPreIter_filter]
  have := allReversePreorder_eq h
  unfold allReversePreorder at this
  rw [show revPreIter t (fun _ => true) = revPreIter t allF from rfl] at this
  rw [this, ← List.filter_reverse, List.filter_filter, List.filter_filter, List.filter_reverse]
  congr 2; funext q; exact Bool.and_comm _ _

end XotModel.Axes
