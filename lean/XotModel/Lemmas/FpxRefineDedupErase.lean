/-
  FpxRefineDedup, part 2: a list of `namespaces_mut(h).remove(p)` calls addressed by HANDLE erases to
  `eraseWithout`: the erased tree in which every element `h` has lost, in the order of the list, exactly
  the prefixes addressed to it.  (Removals on different nodes touch disjoint child lists, so only the
  relative order of the calls on one node is observable.)
-/
import XotModel.Lemmas.FpxRefineDedupRem

namespace XotModel
open HTree
open Forest (MapKind entryKey entryUpdate)

/-- `namespaces_mut(node).remove(prefix)` for each prefix, in order, on a tree node. -/
def removeNsAll (pfxs : List Nat) (t : Tree) : Tree := pfxs.foldl (fun t p => removeNsKidsOf p t) t

theorem removeNsAll_nil (t : Tree) : removeNsAll [] t = t := rfl

theorem removeNsAll_cons (p : Nat) (ps : List Nat) (t : Tree) :
    removeNsAll (p :: ps) t = removeNsAll ps (removeNsKidsOf p t) := rfl

theorem removeNsAll_append (a b : List Nat) (t : Tree) :
    removeNsAll (a ++ b) t = removeNsAll b (removeNsAll a t) := by
  simp [removeNsAll, List.foldl_append]

theorem removeNsKidsOf_value (p : Nat) (t : Tree) : (removeNsKidsOf p t).value = t.value := by
  cases t; rfl

theorem removeNsAll_value (ps : List Nat) : ∀ t : Tree, (removeNsAll ps t).value = t.value := by
  induction ps with
  | nil => intro t; rfl
  | cons p ps ih => intro t; rw [removeNsAll_cons, ih, removeNsKidsOf_value]

/-- On a node: the removals act on the child list. -/
def removeNsAllKids (pfxs : List Nat) (ks : List Tree) : List Tree := pfxs.foldl (fun ks p => removeNsKid p ks) ks

theorem removeNsAll_node (ps : List Nat) : ∀ (v : Value) (ks : List Tree),
    removeNsAll ps (.node v ks) = .node v (removeNsAllKids ps ks) := by
  induction ps with
  | nil => intro v ks; rfl
  | cons p ps ih =>
    intro v ks
    rw [removeNsAll_cons]
    show removeNsAll ps (.node v (removeNsKid p ks)) = _
    rw [ih]; rfl

namespace HTree

/-- The removals addressed to the node `h` (only elements take any). -/
def pfxsFor (cs : List (Nat × Nat)) (h : Nat) (v : Value) : List Nat :=
  if v.isElement then (cs.filter (fun c => c.1 == h)).map (·.2) else []

mutual
  /-- Forget the handles, taking from every element the prefixes `(handle, prefix)` of `cs` addressed
      to it. -/
  def eraseWithout (cs : List (Nat × Nat)) : HTree → Tree
    | node h v ks => removeNsAll (pfxsFor cs h v) (.node v (eraseWithoutList cs ks))
  def eraseWithoutList (cs : List (Nat × Nat)) : List HTree → List Tree
    | [] => []
    | k :: ks => eraseWithout cs k :: eraseWithoutList cs ks
end

theorem pfxsFor_nil (h : Nat) (v : Value) : pfxsFor [] h v = [] := by
  unfold pfxsFor; split <;> rfl

theorem pfxsFor_append (a b : List (Nat × Nat)) (h : Nat) (v : Value) :
    pfxsFor (a ++ b) h v = pfxsFor a h v ++ pfxsFor b h v := by
  unfold pfxsFor; split <;> simp

theorem pfxsFor_not_mem (cs : List (Nat × Nat)) (h : Nat) (v : Value) (hn : ∀ c ∈ cs, c.1 ≠ h) :
    pfxsFor cs h v = [] := by
  unfold pfxsFor
  split
  · have : cs.filter (fun c => c.1 == h) = [] :=
      List.filter_eq_nil_iff.mpr (fun c hc => by simpa using hn c hc)
    rw [this]; rfl
  · rfl

mutual
  theorem eraseWithout_nil : ∀ r : HTree, eraseWithout [] r = erase r
    | node h v ks => by simp only [eraseWithout, pfxsFor_nil, removeNsAll_nil, erase, eraseWithoutList_nil ks]
  theorem eraseWithoutList_nil : ∀ ks : List HTree, eraseWithoutList [] ks = eraseList ks
    | [] => rfl
    | k :: ks => by simp only [eraseWithoutList, eraseList, eraseWithout_nil k, eraseWithoutList_nil ks]
end

theorem eraseWithout_value (cs : List (Nat × Nat)) (k : HTree) : (eraseWithout cs k).value = k.value := by
  cases k with
  | node h v ks => simp only [eraseWithout, removeNsAll_value]; rfl

theorem eraseWithout_nonElement (cs : List (Nat × Nat)) (h : Nat) (v : Value) (ks : List HTree)
    (hv : v.isElement = false) : eraseWithout cs (node h v ks) = .node v (eraseWithoutList cs ks) := by
  simp [eraseWithout, pfxsFor, hv, removeNsAll_nil]

/-- `removeNsKidH` under `eraseWithoutList` is the tree-level `removeNsKid`. -/
theorem eraseWithoutList_removeNsKidH (cs : List (Nat × Nat)) (p : Nat) : ∀ ks : List HTree,
    eraseWithoutList cs (removeNsKidH p ks) = removeNsKid p (eraseWithoutList cs ks)
  | [] => rfl
  | k :: ks => by
    have ih := eraseWithoutList_removeNsKidH cs p ks
    have h2 : (eraseWithout cs k).value = k.value := eraseWithout_value cs k
    cases k with
    | node h v kk =>
      simp only [HTree.value] at h2
      by_cases hv : ∃ q x, v = .namespace q x
      · obtain ⟨q, x, rfl⟩ := hv
        by_cases hq : (q == p) = true
        · simp only [removeNsKidH, removeNsKid, eraseWithoutList, HTree.value, h2, hq, if_true]
        · simp only [removeNsKidH, removeNsKid, eraseWithoutList, HTree.value, h2, hq, Bool.false_eq_true,
            if_false, ih]
      · have h1 : removeNsKidH p (node h v kk :: ks) = node h v kk :: ks := by
          cases v <;> first | (exfalso; exact hv ⟨_, _, rfl⟩) | rfl
        rw [h1]
        simp only [eraseWithoutList]
        generalize eraseWithout cs (node h v kk) = t at h2
        cases t with
        | node tv tk =>
          simp only [Tree.value] at h2
          subst h2
          cases tv <;> first | (exfalso; exact hv ⟨_, _, rfl⟩) | rfl

mutual
  /-- Only the calls addressed to handles of the tree matter. -/
  theorem eraseWithout_congr (cs cs' : List (Nat × Nat)) : ∀ r : HTree,
      (∀ x ∈ handles r, ∀ v, pfxsFor cs x v = pfxsFor cs' x v) → eraseWithout cs r = eraseWithout cs' r
    | node h v ks => by
      intro hc
      simp only [eraseWithout, hc h (by simp [fi_handles_node]) v,
        eraseWithoutList_congr cs cs' ks (fun x hx => hc x (by simp [fi_handles_node, hx]))]
  theorem eraseWithoutList_congr (cs cs' : List (Nat × Nat)) : ∀ ks : List HTree,
      (∀ x ∈ handlesList ks, ∀ v, pfxsFor cs x v = pfxsFor cs' x v) →
      eraseWithoutList cs ks = eraseWithoutList cs' ks
    | [] => fun _ => rfl
    | k :: ks => by
      intro hc
      simp only [eraseWithoutList,
        eraseWithout_congr cs cs' k (fun x hx => hc x (by simp [fi_handlesList_cons, hx])),
        eraseWithoutList_congr cs cs' ks (fun x hx => hc x (by simp [fi_handlesList_cons, hx]))]
end

/-- Calls addressed to handles that are not in the tree do nothing to it. -/
theorem eraseWithout_cons_not_mem (c : Nat × Nat) (cs : List (Nat × Nat)) (r : HTree)
    (hn : c.1 ∉ handles r) : eraseWithout (c :: cs) r = eraseWithout cs r := by
  apply eraseWithout_congr
  intro x hx v
  have : (c.1 == x) = false := by simpa using fun e : c.1 = x => hn (e ▸ hx)
  unfold pfxsFor
  simp [this]

theorem eraseWithoutList_cons_not_mem (c : Nat × Nat) (cs : List (Nat × Nat)) (ks : List HTree)
    (hn : c.1 ∉ handlesList ks) : eraseWithoutList (c :: cs) ks = eraseWithoutList cs ks := by
  apply eraseWithoutList_congr
  intro x hx v
  have : (c.1 == x) = false := by simpa using fun e : c.1 = x => hn (e ▸ hx)
  unfold pfxsFor
  simp [this]

/-- The edit one removal call makes at its target, were it asked of a non-element too (it is not:
    `Forest.mapRemove` panics there). -/
def rmEdit (p : Nat) (n : HTree) : HTree :=
  if n.value.isElement then Fmap.atKids (removeNsKidH p) n else n

theorem rmEdit_handle (p : Nat) (n : HTree) : (rmEdit p n).handle = n.handle := by
  unfold rmEdit; split
  · exact Fmap.atKids_handle _ _
  · rfl

mutual
  /-- **One call, erased**: editing the child list of `e` by `removeNsKidH` and then taking from every
      node the calls `cs` is taking from every node the calls `(e, p) :: cs`. -/
  theorem eraseWithout_rmEdit (cs : List (Nat × Nat)) (e p : Nat) : ∀ r : HTree, (handles r).Nodup →
      eraseWithout cs (mapAt e (rmEdit p) r) = eraseWithout ((e, p) :: cs) r
    | node h v ks => by
      intro hnd
      simp only [fi_handles_node, List.nodup_cons] at hnd
      unfold mapAt
      by_cases hh : h = e
      · subst hh
        rw [if_pos rfl]
        have hks : eraseWithoutList ((h, p) :: cs) ks = eraseWithoutList cs ks :=
          eraseWithoutList_cons_not_mem (h, p) cs ks hnd.1
        by_cases hv : v.isElement = true
        · have hd : pfxsFor ((h, p) :: cs) h v = p :: pfxsFor cs h v := by
            simp [pfxsFor, hv]
          simp only [rmEdit, HTree.value, hv, if_true, Fmap.atKids, HTree.setKids, HTree.kids, eraseWithout,
            eraseWithoutList_removeNsKidH, hd, removeNsAll_cons, removeNsKidsOf, hks]
        · have hd : pfxsFor ((h, p) :: cs) h v = pfxsFor cs h v := by
            simp [pfxsFor, hv]
          simp only [rmEdit, HTree.value, hv, Bool.false_eq_true, if_false, eraseWithout, hd, hks]
      · have hd : pfxsFor ((e, p) :: cs) h v = pfxsFor cs h v := by
          unfold pfxsFor
          have : (e == h) = false := by simpa using fun x : e = h => hh x.symm
          simp [this]
        rw [if_neg hh]
        simp only [eraseWithout, hd, eraseWithoutList_rmEdit cs e p ks hnd.2]
  theorem eraseWithoutList_rmEdit (cs : List (Nat × Nat)) (e p : Nat) : ∀ ks : List HTree,
      (handlesList ks).Nodup →
      eraseWithoutList cs (mapAtList e (rmEdit p) ks) = eraseWithoutList ((e, p) :: cs) ks
    | [] => fun _ => rfl
    | k :: ks => by
      intro hnd
      simp only [fi_handlesList_cons, List.nodup_append] at hnd
      simp only [mapAtList, eraseWithoutList, eraseWithout_rmEdit cs e p k hnd.1,
        eraseWithoutList_rmEdit cs e p ks hnd.2.1]
end

/-! ### Handles and values under the edit -/

mutual
  theorem handles_rmEdit_sublist (e p : Nat) : ∀ r : HTree,
      (handles (mapAt e (rmEdit p) r)).Sublist (handles r)
    | node h v ks => by
      unfold mapAt
      by_cases hh : h = e
      · rw [if_pos hh]
        unfold rmEdit
        by_cases hv : v.isElement = true
        · simp only [HTree.value, hv, if_true, Fmap.atKids, HTree.setKids, HTree.kids, fi_handles_node]
          exact List.Sublist.cons_cons _ (handlesList_removeNsKidH_sublist p ks)
        · simp only [HTree.value, hv, Bool.false_eq_true, if_false]
          exact List.Sublist.refl _
      · rw [if_neg hh]
        simp only [fi_handles_node]
        exact List.Sublist.cons_cons _ (handlesList_rmEdit_sublist e p ks)
  theorem handlesList_rmEdit_sublist (e p : Nat) : ∀ ks : List HTree,
      (handlesList (mapAtList e (rmEdit p) ks)).Sublist (handlesList ks)
    | [] => List.Sublist.refl _
    | k :: ks => by
      simp only [mapAtList, fi_handlesList_cons]
      exact List.Sublist.append (handles_rmEdit_sublist e p k) (handlesList_rmEdit_sublist e p ks)
end

mutual
  /-- In a structurally valid tree (namespace nodes are leaves) only pairs of namespace nodes go. -/
  theorem hv_rmEdit (b : Bool) (e p : Nat) : ∀ r : HTree, validTree b r = true →
      (hv (mapAt e (rmEdit p) r)).filter notNsPair = (hv r).filter notNsPair
    | node h v ks => by
      intro hval
      have hvk : validList b ks = true := by
        simp only [validTree, Bool.and_eq_true] at hval
        exact hval.2
      unfold mapAt
      by_cases hh : h = e
      · rw [if_pos hh]
        unfold rmEdit
        by_cases hv' : v.isElement = true
        · simp only [HTree.value, hv', if_true, Fmap.atKids, HTree.setKids, HTree.kids, hv_node,
            List.filter_cons]
          rw [hvList_removeNsKidH p ks (fun k hk hc =>
            Fmap.entry_leaf b k (Fmap.validList_mem' b ks hvk k hk) (by rw [hc]; decide))]
        · simp only [HTree.value, hv', Bool.false_eq_true, if_false]
      · rw [if_neg hh]
        simp only [hv_node, List.filter_cons, hvList_rmEdit b e p ks hvk]
  theorem hvList_rmEdit (b : Bool) (e p : Nat) : ∀ ks : List HTree, validList b ks = true →
      (hvList (mapAtList e (rmEdit p) ks)).filter notNsPair = (hvList ks).filter notNsPair
    | [], _ => rfl
    | k :: ks, hval => by
      simp only [validList, Bool.and_eq_true] at hval
      simp only [mapAtList, hvList_cons, List.filter_append, hv_rmEdit b e p k hval.1,
        hvList_rmEdit b e p ks hval.2]
end

end HTree
end XotModel
