/-
  C08 and parsing, part 6: every name the parser registers names a namespace id the namespace
  table already holds (`Env.RegsInRange` of the trace) — the ids come off the namespace stack, which
  only ever holds ids returned by earlier `add_namespace` calls (`ScopeOk`, Lemmas/ParseScope) —,
  hence `Env.DupFree` is kept by a parse; and issued ids are ids of the tables reached
  (`Tree.idsIn`).
-/
import XotModel.Lemmas.IdMapParseTree2

namespace XotModel
namespace IdParse

theorem Reg.NsInRange.mono {e e' : Env} (h : e.PrefixOf e') {r : Reg} (hr : r.NsInRange e) : r.NsInRange e' := by
  cases r with
  | pfx p => trivial
  | ns u => trivial
  | name l n => exact Nat.lt_of_lt_of_le hr h.namespaces.length_le

theorem regsInRange_of_forall (rs : List Reg) : ∀ (e : Env), (∀ r ∈ rs, r.NsInRange e) → e.RegsInRange rs := by
  induction rs with
  | nil => intro e _; trivial
  | cons r rs ih =>
    intro e h
    exact ⟨h r List.mem_cons_self, ih _ (fun r' hr' =>
      Reg.NsInRange.mono (e.reg_prefixOf r) (h r' (List.mem_cons_of_mem _ hr')))⟩

/-- The name registration (if it is one) names a namespace id below `N`. -/
def RegBelow (N : Nat) : Reg → Prop
  | .name _ n => n < N
  | _ => True

theorem RegBelow.inRange {N : Nat} {e : Env} (hN : N ≤ e.namespaces.length) {r : Reg} (h : RegBelow N r) :
    r.NsInRange e := by
  cases r with
  | pfx p => trivial
  | ns u => trivial
  | name l n => exact Nat.lt_of_lt_of_le h hN

/-- Every namespace id on the stack is below `N`. -/
def NsBelow (N : Nat) (stack : NsStack) : Prop := ∀ d ∈ stack, ∀ x ∈ d, x.2 < N

theorem lookupPrefix_lt {N : Nat} : ∀ {stack : NsStack}, NsBelow N stack → ∀ {p ns : Nat},
    lookupPrefix stack p = some ns → ns < N := by
  intro stack
  induction stack with
  | nil => intro _ p ns h; simp [lookupPrefix] at h
  | cons d rest ih =>
    intro hs p ns h
    simp only [lookupPrefix, List.findSome?_cons] at h
    split at h
    · rename_i v hv
      simp only [Option.some.injEq] at h
      subst h
      simp only [findInDecls, Option.map_eq_some_iff] at hv
      obtain ⟨x, hx, rfl⟩ := hv
      have hm := List.mem_of_find?_eq_some hx
      exact hs d List.mem_cons_self x (List.mem_reverse.mp hm)
    · exact ih (fun d' hd' => hs d' (List.mem_cons_of_mem _ hd')) h

theorem elementNameRegs_below {N : Nat} {stack : NsStack} (hs : NsBelow N stack) (env : Env) (p n : Str) :
    ∀ r ∈ elementNameRegs env stack p n, RegBelow N r := by
  intro r hr
  unfold elementNameRegs at hr
  simp only [List.mem_cons] at hr
  rcases hr with rfl | hr
  · trivial
  · split at hr
    · rename_i ns hns
      simp only [List.mem_singleton] at hr
      subst hr
      exact lookupPrefix_lt hs hns
    · cases hr

theorem attributeNameRegs_below {N : Nat} (h0 : 0 < N) {stack : NsStack} (hs : NsBelow N stack) (env : Env)
    (p n : Str) : ∀ r ∈ attributeNameRegs env stack p n, RegBelow N r := by
  intro r hr
  unfold attributeNameRegs at hr
  simp only [List.mem_cons] at hr
  rcases hr with rfl | hr
  · trivial
  · split at hr
    · simp only [List.mem_singleton] at hr
      subst hr
      exact h0
    · split at hr
      · rename_i ns hns
        simp only [List.mem_singleton] at hr
        subst hr
        exact lookupPrefix_lt hs hns
      · cases hr

theorem attrsRegs_below {N : Nat} (h0 : 0 < N) {stack : NsStack} (hs : NsBelow N stack) (node : Path)
    (abs : List AttributeBuilder) : ∀ (st : AttrLoop), ∀ r ∈ attrsRegs stack node st abs, RegBelow N r := by
  induction abs with
  | nil => intro st r hr; cases hr
  | cons ab rest ih =>
    intro st r hr
    simp only [attrsRegs, List.mem_append] at hr
    rcases hr with hr | hr
    · exact attributeNameRegs_below h0 hs _ _ _ r hr
    · split at hr
      · exact ih _ r hr
      · cases hr

theorem nsBelow_of_stackValid {env : Env} {stack : NsStack} (h : StackValid env stack) :
    NsBelow env.namespaces.length stack := fun d hd x hx => (h d hd x hx).2

/-- One token: every name it registers names a namespace id already in the table. -/
theorem stepRegs_inRange {b : Builder} (h : ScopeOk b) (h0 : 0 < b.env.namespaces.length) (t : Token) :
    ∀ r ∈ b.stepRegs t, r.NsInRange b.env := by
  have hst : NsBelow b.env.namespaces.length b.nsStack := nsBelow_of_stackValid h.stack
  have hopen : ∀ r ∈ b.openRegs, r.NsInRange b.env := by
    intro r hr
    unfold Builder.openRegs at hr
    split at hr
    · cases hr
    · rename_i eb heb
      have hs : NsBelow b.env.namespaces.length (eb.namespaces :: b.nsStack) := by
        intro d hd
        simp only [List.mem_cons] at hd
        rcases hd with rfl | hd
        · exact fun x hx => (h.eb eb heb x hx).2
        · exact hst d hd
      simp only [List.mem_append] at hr
      rcases hr with hr | hr
      · exact (elementNameRegs_below hs _ _ _ r hr).inRange (Nat.le_refl _)
      · split at hr
        · exact (attrsRegs_below h0 hs _ _ _ r hr).inRange (Nat.le_refl _)
        · cases hr
  have hpre : ∀ p u, ∀ r ∈ prefixRegs p u, r.NsInRange b.env := by
    intro p u r hr
    unfold prefixRegs at hr
    split at hr
    · cases hr
    · split at hr
      · cases hr
      simp only [List.mem_cons, List.not_mem_nil, or_false] at hr
      rcases hr with rfl | rfl <;> trivial
  intro r hr
  cases t with
  | «attribute» pfx loc value sp =>
    simp only [Builder.stepRegs] at hr
    split at hr
    · cases hr
    split at hr
    · exact hpre _ _ r hr
    · split at hr
      · exact hpre _ _ r hr
      · cases hr
  | elementEnd ee sp =>
    cases ee with
    | «open» => exact hopen r hr
    | close pfx loc =>
      simp only [Builder.stepRegs] at hr
      split at hr
      · cases hr
      exact (elementNameRegs_below hst _ _ _ r hr).inRange (Nat.le_refl _)
    | empty => exact hopen r hr
  | pi target content sp =>
    simp only [Builder.stepRegs] at hr
    split at hr
    · cases hr
    simp only [List.mem_singleton] at hr
    subst hr
    exact h0
  | text t => cases hr
  | cdata t sp => cases hr
  | elementStart pfx loc sp => cases hr
  | comment t sp => cases hr
  | declaration version enc sa sp => cases hr
  | dtdStart sp => cases hr
  | dtdEnd sp => cases hr
  | emptyDtd sp => cases hr
  | entityDecl sp => cases hr

theorem runRegs_inRange (ts : List Token) : ∀ (b : Builder), ScopeOk b → 0 < b.env.namespaces.length →
    b.env.RegsInRange (b.runRegs ts) := by
  induction ts with
  | nil => intro b _ _; trivial
  | cons t ts ih =>
    intro b h h0
    simp only [Builder.runRegs]
    rw [Env.regsInRange_append]
    refine ⟨regsInRange_of_forall _ _ (stepRegs_inRange h h0 t), ?_⟩
    cases hs : b.step t with
    | panic => trivial
    | err e env => trivial
    | ok b1 =>
      simp only
      have he := (step_trace b t).1 b1 hs
      rw [← he]
      refine ih b1 (step_scopeOk t h hs) ?_
      have hp : b.env.PrefixOf b1.env := by rw [he]; exact Env.regAll_prefixOf _ _
      exact Nat.lt_of_lt_of_le h0 hp.namespaces.length_le

/-- The whole parse, from duplicate-free tables that hold the built-ins. -/
theorem buildRegs_inRange {env : Env} (hp : env.prefixes.Nodup) (hn : env.namespaces.Nodup)
    (h2p : 2 ≤ env.prefixes.length) (h2n : 2 ≤ env.namespaces.length) (ts : List Token) :
    env.RegsInRange (buildRegs env ts) :=
  runRegs_inRange ts (Builder.new env) (scopeOk_new hp hn h2p h2n) (by show 0 < env.namespaces.length; omega)

/-! ### Issued ids are in range of the tables reached -/

theorem IssuedBy.idsIn {e : Env} {rs : List Reg} {v : Value} (h : IssuedBy e rs v) :
    v.idsIn (e.regAll rs).1 = true := by
  cases v with
  | element n =>
    obtain ⟨i, loc, ns, h1, h2⟩ := h
    have := (Env.regAll_holds rs e i _ n h1 h2).lt
    simpa [Value.idsIn] using this
  | «attribute» n s =>
    obtain ⟨i, loc, ns, h1, h2⟩ := h
    have := (Env.regAll_holds rs e i _ n h1 h2).lt
    simpa [Value.idsIn] using this
  | pi n s =>
    obtain ⟨i, loc, ns, h1, h2⟩ := h
    have := (Env.regAll_holds rs e i _ n h1 h2).lt
    simpa [Value.idsIn] using this
  | «namespace» p ns =>
    obtain ⟨i, s, u, h1, h2, h3, h4⟩ := h
    have a := (Env.regAll_holds rs e i _ p h1 h3).lt
    have b := (Env.regAll_holds rs e (i + 1) _ ns h2 h4).lt
    simp only [Value.idsIn, Bool.and_eq_true, decide_eq_true_eq]
    exact ⟨a, b⟩
  | document => rfl
  | text s => rfl
  | comment s => rfl

mutual
theorem idsIn_of_allV (e : Env) : ∀ (t : Tree), AllV (fun v => v.idsIn e = true) t → t.idsIn e = true
  | .node v ks, h => by
    rw [AllV, Tree.Forall] at h
    rw [Tree.idsIn, Bool.and_eq_true]
    exact ⟨h.1, idsInList_of_allV e ks h.2⟩
theorem idsInList_of_allV (e : Env) : ∀ (ks : List Tree),
    Tree.Forall.forallList (fun v _ => v.idsIn e = true) ks → Tree.idsIn.idsInList e ks = true
  | [], _ => rfl
  | k :: ks, h => by
    rw [Tree.idsIn.idsInList, Bool.and_eq_true]
    exact ⟨idsIn_of_allV e k h.1, idsInList_of_allV e ks h.2⟩
end

end IdParse
end XotModel
