/-
  Lemmas for C11, part 6: placing a parentless entry node (a fresh one, or a detached one) at the
  insertion point of a view: `checked_insert_after` next to a direct child, `checked_prepend`.
-/
import XotModel.Lemmas.FmapPrims

namespace XotModel
namespace Fmap
open HTree
open Forest (MapKind entryKey mapChildren)

/-- The roots other than the parentless node `nd`. -/
def rootsWithout (f : Forest) (nd : Nat) : List HTree := f.roots.filter (fun r => r.handle != nd)

theorem cut_leafRoot (f : Forest) (hnd : f.allHandles.Nodup) (nd : Nat) (v : Value)
    (hroot : HTree.node nd v [] ∈ f.roots) :
    f.cut nd = ({ f with roots := rootsWithout f nd }, some (.node nd v [])) := by
  unfold Forest.cut
  have hg : f.get? nd = some (.node nd v []) := findList?_direct f.roots hnd _ hroot
  have hr : f.isRoot nd = true := by
    unfold Forest.isRoot
    exact List.any_eq_true.mpr ⟨_, hroot, by simp [HTree.handle]⟩
  rw [hg, hr]
  rfl

theorem located_without {f : Forest} {e : Nat} {ev : Value} {ks : List HTree}
    (h : Located f e ev ks) (nd : Nat) (v : Value) (hroot : HTree.node nd v [] ∈ f.roots)
    (hne : e ≠ nd) : Located { f with roots := rootsWithout f nd } e ev ks := by
  constructor
  · exact List.Nodup.sublist (handlesList_filter_sublist _ _) h.nodup
  · show findList? e (rootsWithout f nd) = _
    unfold rootsWithout
    rw [find?_leafRoot_filter f.roots h.nodup nd e v hroot hne]
    exact h.get

theorem checkedInsertAfter_child {f : Forest} {e : Nat} {ev : Value} {l r : List HTree} {n : HTree}
    (h : Located f e ev (l ++ n :: r)) (nd : Nat) (v : Value)
    (hroot : HTree.node nd v [] ∈ f.roots) (hne : e ≠ nd) :
    f.checkedInsertAfter n.handle nd =
      ({ f with roots := withKids (rootsWithout f nd) e (l ++ n :: .node nd v [] :: r) }, true) := by
  have hn : n.handle ≠ nd := by
    intro hh
    exact not_root_of_child f.roots h.nodup e n.handle _ h.get h.child_mem _ hroot hh.symm
  unfold Forest.checkedInsertAfter
  rw [if_neg hn, ancestors_not_leafRoot f h.nodup nd n.handle v hroot hn, h.isRoot_child]
  simp only [Bool.or_self, Bool.false_eq_true, if_false]
  rw [cut_leafRoot f h.nodup nd v hroot]
  simp only
  have h0 := located_without h nd v hroot hne
  unfold Forest.placeAfter
  simp only
  congr 2
  rw [map_replaceBelow_inside e n.handle _ _ _ h0.nodup h0.get h0.child_mem,
    withKids_of _ e _ _ h0.nodup h0.get]
  congr 1
  have hs := nodup_split l r n h.kidsNodup.1
  simp only [HTree.kids]
  rw [replaceKids_direct n.handle _ l r n rfl hs.1]
  simp

theorem checkedPrepend_leafRoot {f : Forest} {e : Nat} {ev : Value} {ks : List HTree}
    (h : Located f e ev ks) (nd : Nat) (v : Value)
    (hroot : HTree.node nd v [] ∈ f.roots) (hne : e ≠ nd) :
    f.checkedPrepend e nd =
      ({ f with roots := withKids (rootsWithout f nd) e (.node nd v [] :: ks) }, true) := by
  unfold Forest.checkedPrepend
  rw [ancestors_not_leafRoot f h.nodup nd e v hroot hne]
  simp only [Bool.or_false, decide_eq_true_eq, if_neg hne]
  rw [cut_leafRoot f h.nodup nd v hroot]
  simp only
  have h0 := located_without h nd v hroot hne
  unfold Forest.placeFirst
  simp only
  congr 2
  rw [← mapAtList_eq_map]
  have : (fun n : HTree => n.setKids (HTree.node nd v [] :: n.kids)) =
      atKids (fun ks => HTree.node nd v [] :: ks) := rfl
  rw [this, withKids_of _ e _ _ h0.nodup h0.get]
  rfl

/-- After the placement: `e` is located with the new child list, given that the new node's
    handle is new to the element's tree. -/
theorem located_placed {f : Forest} {e : Nat} {ev : Value} {ks : List HTree}
    (h : Located f e ev ks) (nd : Nat) (v : Value) (hroot : HTree.node nd v [] ∈ f.roots)
    (hne : e ≠ nd) (a b : List HTree) (hks : ks = a ++ b) :
    Located { f with roots := withKids (rootsWithout f nd) e (a ++ .node nd v [] :: b) } e ev
      (a ++ .node nd v [] :: b) := by
  have h0 := located_without h nd v hroot hne
  have hk := h.kidsNodup.1
  subst hks
  rw [handlesList_append] at hk
  have hnd0 : nd ∉ handlesList (rootsWithout f nd) :=
    not_mem_handlesList_filter_leafRoot f.roots h.nodup nd v hroot
  have hndk : nd ∉ handlesList (a ++ b) := by
    intro hx
    apply hnd0
    have : nd ∈ handles (HTree.node e ev (a ++ b)) := by
      simp only [handles, List.mem_cons]; exact Or.inr hx
    exact findList?_sub e _ _ h0.get nd this
  rw [handlesList_append] at hndk
  simp only [List.mem_append, not_or] at hndk
  constructor
  · show (handlesList (withKids (rootsWithout f nd) e _)).Nodup
    apply nodup_withKids _ e _ ev _ h0.nodup h0.get
    · rw [handlesList_append]
      simp only [handlesList, handles, List.cons_append, List.nil_append]
      have hk' := List.nodup_append.mp hk
      apply List.nodup_append.mpr
      refine ⟨hk'.1, List.nodup_cons.mpr ⟨hndk.2, hk'.2.1⟩, ?_⟩
      intro x hx y hy hxy
      subst hxy
      rcases List.mem_cons.mp hy with hy | hy
      · exact hndk.1 (hy ▸ hx)
      · exact hk'.2.2 _ hx _ hy rfl
    · intro x hx
      rw [handlesList_append] at hx ⊢
      simp only [handlesList, handles, List.cons_append, List.nil_append, List.mem_append, List.mem_cons] at hx ⊢
      rcases hx with hx | hx | hx
      · exact Or.inl (Or.inl hx)
      · right; rw [hx]; exact hnd0
      · exact Or.inl (Or.inr hx)
  · exact get_withKids _ e _ e ev _ h0.get

end Fmap
end XotModel
