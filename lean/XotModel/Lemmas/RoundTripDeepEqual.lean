/-
  Round trip: a `nodeOK` tree satisfies the structural hypothesis `Tree.valid` of the `deep_equal`
  theorems (C13), so the reparsed tree — which IS the original tree — is `deep_equal` to it.
-/
import XotModel.Lemmas.RoundTripEncode
import XotModel.Lemmas.CompareCanon

namespace XotModel

variable {env : Env}

theorem attrPairs_eq_kidAttrs (ks : List Tree) : attrPairs ks = kidAttrs ks := by
  induction ks with
  | nil => rfl
  | cons k ks ih =>
    simp only [attrPairs, kidAttrs, List.filterMap_cons] at ih ⊢
    cases hv : k.value <;> simp [attrPair, ih]

theorem orderedKids_of_ordered (ks : List Tree) (hord : OrderedKids ks) : orderedKids ks = true := by
  have hpw : ks.Pairwise (fun a b => (b.value.category == .namespace) = true →
      (a.value.category == .namespace) = true) :=
    hord.imp (fun {a b} hab hb => by
      rw [category_namespace_iff] at hb ⊢
      omega)
  have hpw2 : (ks.filter (fun k => !(k.value.category == .namespace))).Pairwise
      (fun a b => (b.value.category == .attribute) = true → (a.value.category == .attribute) = true) := by
    have h1 : (ks.filter (fun k => !(k.value.category == .namespace))).Pairwise
        (fun a b => a.value.phase ≤ b.value.phase) := List.Pairwise.filter _ hord
    refine List.Pairwise.imp_of_mem (fun {a b} ha _ hab hb => ?_) h1
    have hna := (List.mem_filter.mp ha).2
    have hna' : ¬ a.value.phase = 0 := by
      rw [← category_namespace_iff]; simpa using hna
    rw [category_attribute_iff] at hb ⊢
    omega
  unfold orderedKids
  rw [dropWhile_eq_filter_of_pairwise _ ks hpw, dropWhile_eq_filter_of_pairwise _ _ hpw2, List.all_eq_true]
  intro k hk
  have h1 := (List.mem_filter.mp hk).2
  have h2 := (List.mem_filter.mp (List.mem_filter.mp hk).1).2
  cases hv : k.value <;> simp [hv, Value.category, Value.isNormal] at h1 h2 ⊢

theorem valid_of_nodeOK : ∀ (n : Tree), n.allNodes (nodeOK env) = true → n.valid = true
  | .node v ks, hn => by
    have hnode : nodeOK env v ks = true := by
      rw [allNodes_node, Bool.and_eq_true] at hn; exact hn.1
    obtain ⟨hord, hkinds, huniq, _, _⟩ := (nodeOK_iff env v ks).mp hnode
    have hlist : ∀ (l : List Tree), (∀ k ∈ l, k ∈ ks) → Tree.valid.validList l = true := by
      intro l
      induction l with
      | nil => intro _; rfl
      | cons k l ih =>
        intro hsub
        simp only [Tree.valid.validList, Bool.and_eq_true]
        exact ⟨valid_of_nodeOK k (allNodes_kid hn (hsub k (by simp))), ih (fun k' hk' => hsub k' (by simp [hk']))⟩
    simp only [Tree.valid, Bool.and_eq_true, Bool.or_eq_true]
    refine ⟨⟨⟨orderedKids_of_ordered ks hord, ?_⟩, ?_⟩, hlist ks (fun k hk => hk)⟩
    · simp only [attrNamesNodup, decide_eq_true_eq, attrPairs_eq_kidAttrs]
      have := kidAttrs_fst ks
      simp only [attrNames] at this
      rw [show (kidAttrs ks).map (fun x => x.1) = (kidAttrs ks).map Prod.fst from rfl, kidAttrs_fst]
      exact huniq.1
    · by_cases hnorm : v.isNormal = true
      · exact Or.inl hnorm
      · right
        have := hkinds.1 (abnormal_leafKind (by simpa using hnorm))
        simp [this]
termination_by n => sizeOf n
decreasing_by
  simp_wf
  have := List.sizeOf_lt_of_mem (hsub k (by simp))
  omega

end XotModel
