/-
  Finv (C04), part 9: the invariant under node creation, the value setters, `detach`, `remove`,
  and what is built from `remove` alone (`mapRemove`, `mapClear`).
-/
import XotModel.Lemmas.FinvMerge

namespace XotModel
open HTree

namespace Forest

/-! ### Creation -/

theorem newNode_inv {f : Forest} (hi : f.Inv) (v : Value) : (f.newNode v).1.Inv := by
  obtain ⟨h1, h2, h3, h4, h5⟩ := hi
  refine ⟨h1, ?_, ?_, ?_, h5⟩
  · rw [allHandles_newNode]
    rw [List.nodup_append]
    refine ⟨h2, by simp, ?_⟩
    intro a ha b hb
    simp only [List.mem_singleton] at hb
    subst hb
    exact Nat.ne_of_lt (h3 a ha)
  · intro h hh
    rw [allHandles_newNode, List.mem_append, List.mem_singleton] at hh
    show h < f.next + 1
    cases hh with
    | inl hh => exact Nat.lt_succ_of_lt (h3 h hh)
    | inr hh => subst hh; exact Nat.lt_succ_self _
  · show validList (!f.everOff) (f.roots ++ [.node f.next v []]) = true
    rw [validList_append, h4]
    simp [fi_validTree_node, kidsOK, kidsOrdered, keysUnique, noAdjacentText]

/-! ### Setters -/

theorem value?_of_isElement {f : Forest} {h : Nat} (he : f.isElement h = true) :
    ∃ n, f.value? h = some (.element n) := by
  unfold isElement at he
  cases hv : f.value? h with
  | none => rw [hv] at he; simp at he
  | some v => rw [hv] at he; cases v <;> simp [Value.isElement] at he; exact ⟨_, rfl⟩

theorem value?_of_isText {f : Forest} {h : Nat} (he : f.isText h = true) :
    ∃ s, f.value? h = some (.text s) := by
  unfold isText at he
  cases hv : f.value? h with
  | none => rw [hv] at he; simp at he
  | some v => rw [hv] at he; cases v <;> simp [Value.isText] at he; exact ⟨_, rfl⟩

theorem setElementName_inv {f : Forest} (hi : f.Inv) (node name : Nat) : (f.setElementName node name).1.Inv := by
  unfold setElementName
  split
  · rename_i he
    obtain ⟨n, hv⟩ := value?_of_isElement he
    exact setValue_inv hi hv ⟨rfl, rfl, rfl, rfl⟩ (fun x => rfl)
  · exact hi

theorem setText_inv {f : Forest} (hi : f.Inv) (node : Nat) (s : Str) : (f.setText node s).1.Inv := by
  unfold setText
  split
  · rename_i he
    obtain ⟨n, hv⟩ := value?_of_isText he
    exact setValue_inv hi hv ⟨rfl, rfl, rfl, rfl⟩ (fun x => rfl)
  · exact hi

theorem setComment_inv {f : Forest} (hi : f.Inv) (node : Nat) (s : Str) : (f.setComment node s).1.Inv := by
  unfold setComment
  split
  · rename_i c hv
    split
    · exact hi
    · exact setValue_inv hi hv ⟨rfl, rfl, rfl, rfl⟩ (fun x => rfl)
  · exact hi

theorem setPiData_inv {f : Forest} (hi : f.Inv) (node : Nat) (d : Option Str) : (f.setPiData node d).1.Inv := by
  unfold setPiData
  split
  · rename_i t d0 hv
    exact setValue_inv hi hv ⟨rfl, rfl, rfl, rfl⟩ (fun x => rfl)
  · exact hi

/-! ### `detach`, `remove` -/

theorem cut_of_not_mem {f : Forest} {h : Nat} (hn : h ∉ f.allHandles) : f.cut h = (f, none) := by
  unfold cut get?
  rw [findList?_of_not_mem h _ hn]

theorem detach_inv {f : Forest} (hi : f.Inv) (node : Nat) : (f.detach node).1.Inv := by
  unfold detach detachRaw
  by_cases hm : node ∈ f.allHandles
  · obtain ⟨path, l, k, r, lc⟩ := exists_loc hm
    rw [cut_of_loc lc hi.nodup]
    have := cut_then_consolidate_inv hi lc [k] [] (by simp)
      (by simp [hi.validTree_of_loc lc])
    exact this
  · rw [cut_of_not_mem hm]
    exact removeConsolidate_inv hi _ _

theorem remove_inv {f : Forest} (hi : f.Inv) (node : Nat) : (f.remove node).1.Inv := by
  unfold remove dropSubtree
  by_cases hm : node ∈ f.allHandles
  · obtain ⟨path, l, k, r, lc⟩ := exists_loc hm
    rw [cut_of_loc lc hi.nodup]
    have := cut_then_consolidate_inv hi lc [] (handles k) (by simp) (by simp)
    simpa using this
  · rw [cut_of_not_mem hm]
    exact removeConsolidate_inv hi _ _

theorem mapRemove_inv {f : Forest} (hi : f.Inv) (k : MapKind) (parent key : Nat) :
    (f.mapRemove k parent key).1.Inv := by
  unfold mapRemove
  split
  · exact hi
  · split
    · exact remove_inv hi _
    · exact hi

theorem foldl_remove_inv {α : Type} (g : α → Nat) (xs : List α) {f : Forest} (hi : f.Inv) :
    (xs.foldl (fun acc c => (acc.remove (g c)).1) f).Inv := by
  induction xs generalizing f with
  | nil => exact hi
  | cons x xs ih => exact ih (remove_inv hi _)

theorem mapClear_inv {f : Forest} (hi : f.Inv) (k : MapKind) (parent : Nat) :
    (f.mapClear k parent).1.Inv := by
  unfold mapClear
  split
  · exact hi
  · split
    · exact hi
    · exact foldl_remove_inv (fun c : HTree => c.handle) _ hi

end Forest
end XotModel
