/-
  Finv (C04), part 16: `checked_insert_after` and `checked_prepend` for a node of any category
  (attribute / namespace entries placed by the node maps), with the local conditions stated on
  the reference's context before the cut.
-/
import XotModel.Lemmas.FinvOps4

namespace XotModel
open HTree

namespace Forest

/-- Local conditions for placing a node with value `cv` right after the node of context `ctx`
    under a parent with value `pv`. -/
structure AfterOK (g : Forest) (c : Nat) (cv sv pv : Value) (ctx : Ctx) : Prop where
  allowed : kidAllowed pv cv = true
  rankL : ∀ y ∈ ctx.left ++ [ctx.self], y.value.category.rank ≤ cv.category.rank
  rankR : ∀ y ∈ ctx.right, cv.category.rank ≤ y.value.category.rank
  keys : cv.category = .normal ∨ ∀ y ∈ ctx.left ++ ctx.self :: ctx.right,
    y.value.category = cv.category → entryKey y.value ≠ entryKey cv
  text : g.everOff = false → cv.isText = true → sv.isText = false ∧
    ∀ n rest, ctx.right = n :: rest → n.handle ≠ c ∧ n.value.isText = false

theorem checkedInsertAfter_gen {g : Forest} (hi : g.Inv) {ref c : Nat} {cv sv : Value}
    (hcv : g.value? c = some cv) (hsv : g.value? ref = some sv)
    (hroot : g.isRoot ref = false) (hanc : (g.ancestors ref).contains c = false)
    (hcut : g.CutOK c)
    (hloc : ∀ ctx pv, g.ctx? ref = some ctx → g.value? ctx.parent = some pv → AfterOK g c cv sv pv ctx) :
    (g.checkedInsertAfter ref c).1.Inv := by
  unfold checkedInsertAfter
  split
  · exact hi
  · simp only [hanc, hroot, Bool.or_self, Bool.false_eq_true, if_false]
    obtain ⟨path, lr, S, rr, locr⟩ := exists_loc (mem_allHandles_of_isLive (isLive_of_value? hsv))
    rcases List.eq_nil_or_concat path with hp0 | ⟨init, fr, hp0⟩
    · subst hp0; rw [isRoot_of_loc_nil locr] at hroot; cases hroot
    rw [List.concat_eq_append] at hp0
    subst hp0
    have hne : init ++ [fr] ≠ [] := by simp
    have hctx := ctx?_of_loc_snoc locr hi.nodup
    have lcp : Loc g.roots fr.h init fr.l (.node fr.h fr.v (lr ++ S :: rr)) fr.r :=
      ⟨by rw [locr.eq, plug_append]; rfl, rfl⟩
    have hpv : g.value? fr.h = some fr.v := value?_of_loc lcp hi.nodup
    have A := hloc _ _ hctx hpv
    obtain ⟨g', t, hcutEq, hi', htv, htvalid, hperm, hroots, h1, h2, h3, h4⟩ :=
      place_after_cut hi hcv hcut locr hanc
    rw [hcutEq]
    simp only
    have locr' : Loc g'.roots ref (cutPath c (init ++ [fr])) (rk c lr) (rb c S) (rk c rr) :=
      ⟨hroots, by simp [locr.hk]⟩
    have hne' : cutPath c (init ++ [fr]) ≠ [] := by simp [cutPath]
    rw [placeAfter_of_loc_ne t locr' hne' hi'.nodup]
    have hSv : S.value = sv := by
      have := value?_of_loc locr hi.nodup; rw [hsv] at this; exact (Option.some.inj this).symm
    obtain ⟨k1, k2⟩ := hi'.kids_at hroots
    rw [h3] at k1 k2
    have hfin : rk c lr ++ rb c S :: t :: rk c rr = (rk c lr ++ [rb c S]) ++ t :: rk c rr := by simp
    rw [hfin]
    have hiv : innerValue (cutPath c (init ++ [fr])) = some fr.v := by
      simp [cutPath, innerValue_map_mapKids]
    apply hi.place hi' hperm h1 h2 h3 h4 hroots
    · simp only [fi_handlesList_append, fi_handlesList_cons, fi_handlesList_nil, List.append_nil, List.append_assoc]
      refine List.Perm.append_left _ (List.Perm.append_left _ ?_)
      exact List.perm_append_comm
    · rw [hiv] at k1 ⊢
      refine (kidsOK_iff _ _ _).mpr ?_
      have K0 := (kidsOK_iff _ _ _).mp k1
      have K1 : KidsOK (!g.everOff) fr.v ((rk c lr ++ [rb c S]) ++ rk c rr) := by simpa using K0
      refine K1.insert (by rw [htv]; exact A.allowed) ?_ ?_ ?_ ?_
      · intro y hy
        rw [List.mem_append, List.mem_singleton] at hy
        simp only [rankOf, htv]
        rcases hy with hy | hy
        · obtain ⟨z, hz, e1, _⟩ := mem_rk hy
          rw [e1]; exact A.rankL z (by simp [hz])
        · subst hy; rw [rb_value]; exact A.rankL S (by simp)
      · intro y hy
        obtain ⟨z, hz, e1, _⟩ := mem_rk hy
        simp only [rankOf, htv, e1]
        exact A.rankR z hz
      · cases A.keys with
        | inl h => exact Or.inl (by rw [htv]; exact h)
        | inr h =>
          refine Or.inr ?_
          intro y hy hcat
          rw [htv] at hcat ⊢
          simp only [List.append_assoc, List.mem_append, List.mem_singleton, List.cons_append,
            List.nil_append, List.mem_cons] at hy
          rcases hy with hy | hy | hy
          · obtain ⟨z, hz, e1, _⟩ := mem_rk hy
            rw [e1] at hcat ⊢; exact h z (by simp [hz]) hcat
          · subst hy; rw [rb_value] at hcat ⊢; exact h S (by simp) hcat
          · obtain ⟨z, hz, e1, _⟩ := mem_rk hy
            rw [e1] at hcat ⊢; exact h z (by simp [hz]) hcat
      · intro hs htt
        obtain ⟨e1, e2⟩ := A.text (by simpa using hs) (by rw [← htv]; exact htt)
        refine ⟨by simp [hSv, e1], ?_⟩
        apply headText_rk
        exact e2
    · simp only [validList_append, validList_cons, validList_nil, Bool.and_true, Bool.and_eq_true] at k2 ⊢
      exact ⟨⟨k2.1, k2.2.1⟩, htvalid, k2.2.2⟩

/-- Local conditions for making a node with value `cv` the first child of `K`. -/
structure FirstOK (g : Forest) (c : Nat) (cv : Value) (K : HTree) : Prop where
  allowed : kidAllowed K.value cv = true
  rankR : ∀ y ∈ K.kids, cv.category.rank ≤ y.value.category.rank
  keys : cv.category = .normal ∨ ∀ y ∈ K.kids,
    y.value.category = cv.category → entryKey y.value ≠ entryKey cv
  text : g.everOff = false → cv.isText = true →
    ∀ n rest, K.kids = n :: rest → n.handle ≠ c ∧ n.value.isText = false

theorem checkedPrepend_gen {g : Forest} (hi : g.Inv) {p c : Nat} {cv : Value}
    (hcv : g.value? c = some cv) (hp : p ∈ g.allHandles) (hcut : g.CutOK c)
    (hloc : ∀ K, g.get? p = some K → FirstOK g c cv K) :
    (g.checkedPrepend p c).1.Inv := by
  unfold checkedPrepend
  split
  · exact hi
  · rename_i hcond
    have hanc : (g.ancestors p).contains c = false := by
      simp only [Bool.or_eq_true, decide_eq_true_eq, not_or, Bool.not_eq_true] at hcond
      exact hcond.2
    obtain ⟨path, lp, K, rp, locp⟩ := exists_loc hp
    have A := hloc K (get?_of_loc locp hi.nodup)
    obtain ⟨g', t, hcutEq, hi', htv, htvalid, hperm, hroots, h1, h2, h3, h4⟩ :=
      place_after_cut hi hcv hcut locp hanc
    rw [hcutEq]
    simp only
    have locp' : Loc g'.roots p (cutPath c path) (rk c lp) (rb c K) (rk c rp) :=
      ⟨hroots, by simp [locp.hk]⟩
    rw [placeFirst_of_loc t locp' hi'.nodup]
    have hroots2 : g'.roots = plug (cutPath c path ++ [⟨rk c lp, p, K.value, rk c rp⟩]) (rk c K.kids) := by
      rw [hroots, plug_append, rb_eq, locp.hk]; rfl
    have hfin : plug (cutPath c path) (rk c lp ++ (rb c K).setKids (t :: (rb c K).kids) :: rk c rp)
        = plug (cutPath c path ++ [⟨rk c lp, p, K.value, rk c rp⟩]) ([] ++ t :: rk c K.kids) := by
      rw [plug_append, rb_eq, locp.hk]; rfl
    rw [hfin]
    obtain ⟨k1, k2⟩ := hi'.kids_at hroots2
    rw [h3] at k1 k2
    apply hi.place hi' hperm h1 h2 h3 h4 hroots2
    · simp only [List.nil_append, fi_handlesList_cons]
      exact List.perm_append_comm
    · rw [innerValue_snoc] at k1 ⊢
      refine (kidsOK_iff _ _ _).mpr ?_
      have K0 : KidsOK (!g.everOff) K.value ([] ++ rk c K.kids) := by simpa using (kidsOK_iff _ _ _).mp k1
      refine K0.insert (by rw [htv]; exact A.allowed) (by simp) ?_ ?_ ?_
      · intro y hy
        obtain ⟨z, hz, e1, _⟩ := mem_rk hy
        simp only [rankOf, htv, e1]
        exact A.rankR z hz
      · cases A.keys with
        | inl h => exact Or.inl (by rw [htv]; exact h)
        | inr h =>
          refine Or.inr ?_
          intro y hy hcat
          rw [htv] at hcat ⊢
          rw [List.nil_append] at hy
          obtain ⟨z, hz, e1, _⟩ := mem_rk hy
          rw [e1] at hcat ⊢; exact h z hz hcat
      · intro hs htt
        refine ⟨rfl, ?_⟩
        apply headText_rk
        exact A.text (by simpa using hs) (by rw [← htv]; exact htt)
    · simp [k2, htvalid]

end Forest
end XotModel
