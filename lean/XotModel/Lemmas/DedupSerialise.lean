/-
  XotModel.Lemmas.DedupSerialise — `deduplicate_namespaces(node)` keeps `to_string(start)` from
  failing with `MissingPrefix`, for every start node `start` that is not strictly inside the call's
  subtree (the root, every ancestor of `node`, `node` itself, every node beside it): such a node has
  the same path of raw child indices before and after, the declarations on its ancestor-or-self
  chain are untouched (the call node itself never loses one), and the subtree it serialises changes
  only by `dpWalk` at `node` (`keep_from_empty`).

  Start nodes strictly inside the subtree are treated in Lemmas/DedupInside.lean (their raw paths
  shift when namespace nodes in front of them are removed).
-/
import XotModel.Lemmas.DedupKeep

namespace XotModel

/-! ### Values and declarations below a path -/

theorem scopeModifyAt_value (f : Tree → Tree) (hf : ∀ s, (f s).value = s.value) :
    ∀ (q : Path) (x : Tree), (scopeModifyAt f x q).value = x.value
  | [], x => by simp [scopeModifyAt, hf]
  | _ :: _, .node _ _ => rfl

theorem modify_map_value (g : Tree → Tree) (hg : ∀ k, (g k).value = k.value) :
    ∀ (l : List Tree) (i : Nat), (l.modify i g).map Tree.value = l.map Tree.value
  | [], _ => by simp
  | a :: l, 0 => by simp [hg]
  | a :: l, i + 1 => by simp [modify_map_value g hg l i]

/-- The declarations of the node a path starts from are the same after a change below the path that
    keeps values, provided the change keeps the declarations of the node it is applied to. -/
theorem nsDecls_scopeModifyAt (f : Tree → Tree) (hfv : ∀ s, (f s).value = s.value) :
    ∀ (q : Path) (x sub : Tree), x.at? q = some sub → (f sub).nsDecls = sub.nsDecls →
      (scopeModifyAt f x q).nsDecls = x.nsDecls
  | [], x, sub, h, hd => by
    simp only [Tree.at?, Option.some.injEq] at h
    subst h
    simpa [scopeModifyAt] using hd
  | i :: q, .node v l, _, _, _ => by
    simp only [scopeModifyAt, nsDecls_node]
    exact ddDeclsOfKids_congr _ _
      (modify_map_value _ (fun k => scopeModifyAt_value f hfv q k) l i)

theorem attrs_scopeModifyAt_cons (f : Tree → Tree) (hfv : ∀ s, (f s).value = s.value) (i : Nat)
    (q : Path) (v : Value) (l : List Tree) :
    (scopeModifyAt f (.node v l) (i :: q)).attrs = (Tree.node v l).attrs := by
  simp only [scopeModifyAt]
  exact ddAttrs_congr _ _ _ _ (modify_map_value _ (fun k => scopeModifyAt_value f hfv q k) l i)

theorem wrList_modify (env : Env) (top : List (Nat × Nat)) (g : Tree → Tree) :
    ∀ (l : List Tree) (i : Nat) (k : Tree), l[i]? = some k →
    (wr env top k = true → wr env top (g k) = true) →
    wr.wrList env top l = true → wr.wrList env top (l.modify i g) = true
  | [], _, _, h, _, _ => by simp at h
  | a :: l, 0, k, h, hk, hw => by
    simp only [List.getElem?_cons_zero, Option.some.injEq] at h
    subst h
    simp only [wr.wrList, Bool.and_eq_true] at hw
    simp only [List.modify_zero_cons, wr.wrList, Bool.and_eq_true]
    exact ⟨hk hw.1, hw.2⟩
  | a :: l, i + 1, k, h, hk, hw => by
    simp only [List.getElem?_cons_succ] at h
    simp only [wr.wrList, Bool.and_eq_true] at hw
    simp only [List.modify_succ_cons, wr.wrList, Bool.and_eq_true]
    exact ⟨hw.1, wrList_modify env top g l i k h hk hw.2⟩

/-- A change at `q` that keeps values and, at `q`, writability in every frame, keeps the whole tree
    writable in every frame. -/
theorem wr_modifyAt (env : Env) (f : Tree → Tree) (hfv : ∀ s, (f s).value = s.value) :
    ∀ (q : Path) (x sub : Tree) (W : List (Nat × Nat)), x.at? q = some sub →
    (∀ W, wr env W sub = true → wr env W (f sub) = true) →
    wr env W x = true → wr env W (scopeModifyAt f x q) = true
  | [], x, sub, W, h, hf, hw => by
    simp only [Tree.at?, Option.some.injEq] at h
    subst h
    exact hf W hw
  | i :: q, .node v l, sub, W, h, hf, hw => by
    simp only [Tree.at?] at h
    cases hk : l[i]? with
    | none => simp [hk] at h
    | some k =>
      simp only [hk] at h
      have hvals : (l.modify i (fun k => scopeModifyAt f k q)).map Tree.value = l.map Tree.value :=
        modify_map_value _ (fun k => scopeModifyAt_value f hfv q k) l i
      have hkid : ∀ W, wr env W k = true → wr env W (scopeModifyAt f k q) = true :=
        fun W => wr_modifyAt env f hfv q k sub W h hf
      by_cases he : v.isElement = true
      · obtain ⟨name, rfl⟩ := (isElement_iff_ex v).1 he
        have hd : (scopeModifyAt f (.node (.element name) l) (i :: q)).nsDecls =
            (Tree.node (.element name) l).nsDecls := by
          simp only [scopeModifyAt, nsDecls_node]
          exact ddDeclsOfKids_congr _ _ hvals
        have ha := attrs_scopeModifyAt_cons f hfv i q (.element name) l
        simp only [scopeModifyAt] at hd ha ⊢
        rw [wr_element, Bool.and_eq_true] at hw ⊢
        rw [hd]
        refine ⟨?_, wrList_modify env _ _ l i k hk (hkid _) hw.2⟩
        simpa only [elementOk, ha] using hw.1
      · have he' : v.isElement = false := by simpa using he
        simp only [scopeModifyAt]
        rw [wr_nonElement env W v _ he'] at hw ⊢
        exact wrList_modify env _ _ l i k hk (hkid _) hw

/-! ### `namespaces_in_scope` reads the chain through its declaration lists only -/

theorem ddTraverseChain_congr : ∀ (c c' : List Tree) (seen : List Nat),
    c.map Tree.nsDecls = c'.map Tree.nsDecls → traverseChain seen c = traverseChain seen c'
  | [], [], _, _ => rfl
  | [], _ :: _, _, h => by simp at h
  | _ :: _, [], _, h => by simp at h
  | a :: c, a' :: c', seen, h => by
    simp only [List.map_cons, List.cons.injEq] at h
    simp only [traverseChain, h.1]
    rw [ddTraverseChain_congr c c' _ h.2]

theorem ddNamespacesInScopeChain_congr (c c' : List Tree)
    (h : c.map Tree.nsDecls = c'.map Tree.nsDecls) :
    namespacesInScopeChain c = namespacesInScopeChain c' := by
  simp only [namespacesInScopeChain, ddTraverseChain_congr c c' [] h]

/-! ### Start nodes that are not strictly inside the modified subtree -/

theorem getElem?_modify_ne' {α : Type} (f : α → α) (l : List α) {i j : Nat} (h : i ≠ j) :
    (l.modify i f)[j]? = l[j]? := by
  rw [List.getElem?_modify]
  simp [h]

/-- The serialiser's input for start node `q` — the declaration lists on the ancestor-or-self
    chain and the subtree — before and after a change at `path`, for `q` not strictly below `path`. -/
theorem start_modifyAt (env : Env) (f : Tree → Tree) (hfv : ∀ s, (f s).value = s.value) :
    ∀ (q path : Path) (x sub : Tree), x.at? path = some sub → (f sub).nsDecls = sub.nsDecls →
    (∀ W, wr env W sub = true → wr env W (f sub) = true) →
    (∀ r, q = path ++ r → r = []) →
    ∀ chain subq, x.ancestorsOrSelf q = some chain → x.at? q = some subq →
      ∃ chain' subq', (scopeModifyAt f x path).ancestorsOrSelf q = some chain' ∧
        (scopeModifyAt f x path).at? q = some subq' ∧
        chain'.map Tree.nsDecls = chain.map Tree.nsDecls ∧
        ∀ W, wr env W subq = true → wr env W subq' = true
  | [], path, x, sub, hs, hd, hf, _, chain, subq, hc, hq => by
    simp only [Tree.ancestorsOrSelf, Option.some.injEq] at hc
    simp only [Tree.at?, Option.some.injEq] at hq
    subst hc hq
    refine ⟨[scopeModifyAt f x path], scopeModifyAt f x path, rfl, rfl, ?_, ?_⟩
    · simp only [List.map_cons, List.map_nil, nsDecls_scopeModifyAt f hfv path x sub hs hd]
    · exact fun W => wr_modifyAt env f hfv path x sub W hs hf
  | j :: q, [], x, sub, _, _, _, hr, _, _, _, _ => by
    have := hr (j :: q) rfl
    cases this
  | j :: q, i :: p, .node v l, sub, hs, hd, hf, hr, chain, subq, hc, hq => by
    have hx' : (scopeModifyAt f (.node v l) (i :: p)).nsDecls = (Tree.node v l).nsDecls :=
      nsDecls_scopeModifyAt f hfv (i :: p) (.node v l) sub hs hd
    simp only [Tree.ancestorsOrSelf, Tree.kids] at hc
    simp only [Tree.at?] at hq hs
    cases hkj : l[j]? with
    | none => simp [hkj] at hq
    | some kj =>
      simp only [hkj] at hq hc
      cases hck : kj.ancestorsOrSelf q with
      | none => simp [hck] at hc
      | some ck =>
        simp only [hck, Option.map_some, Option.some.injEq] at hc
        subst hc
        by_cases hij : i = j
        · subst hij
          simp only [hkj] at hs
          obtain ⟨ck', subq', h1, h2, h3, h4⟩ := start_modifyAt env f hfv q p kj sub hs hd hf
            (fun r hr' => hr r (by rw [hr']; rfl)) ck subq hck hq
          refine ⟨ck' ++ [scopeModifyAt f (.node v l) (i :: p)], subq', ?_, ?_, ?_, h4⟩
          · simp only [scopeModifyAt, Tree.ancestorsOrSelf, Tree.kids, List.getElem?_modify_eq, hkj,
              Option.map_eq_map, Option.map_some, h1]
          · simp only [scopeModifyAt, Tree.at?, List.getElem?_modify_eq, hkj, Option.map_eq_map,
              Option.map_some, h2]
          · simp only [List.map_append, List.map_cons, List.map_nil, h3, hx']
        · refine ⟨ck ++ [scopeModifyAt f (.node v l) (i :: p)], subq, ?_, ?_, ?_, fun _ h => h⟩
          · simp only [scopeModifyAt, Tree.ancestorsOrSelf, Tree.kids, getElem?_modify_ne' _ l hij, hkj,
              hck, Option.map_some]
          · simp only [scopeModifyAt, Tree.at?, getElem?_modify_ne' _ l hij, hkj, hq]
          · simp only [List.map_append, List.map_cons, List.map_nil, hx']

theorem namesWritable_eq_some_true (env : Env) (t : Tree) (q : Path) :
    namesWritable env t q = some true ↔
      ∃ chain sub, t.ancestorsOrSelf q = some chain ∧ t.at? q = some sub ∧
        wr env (namespacesInScopeChain chain) sub = true := by
  unfold namesWritable
  constructor
  · intro h
    split at h
    · rename_i chain sub hc hs
      simp only [Option.some.injEq, namesWritableChain_eq] at h
      exact ⟨chain, sub, hc, hs, h⟩
    · cases h
  · rintro ⟨chain, sub, hc, hs, h⟩
    simp only [hc, hs, namesWritableChain_eq, h]

/-- One pass, every start node `q` that is not strictly below the call node. -/
theorem dedupPass_writable (env : Env) (t : Tree) (path : Path) (sub : Tree)
    (hs : t.at? path = some sub) (hu : UniqueDeclsBelow sub) (q : Path)
    (hq : ∀ r, q = path ++ r → r = []) (hw : namesWritable env t q = some true) :
    namesWritable env (dedupPass env t path sub).1 q = some true := by
  rw [dedupPass_eq env t path sub hs]
  obtain ⟨chain, subq, hc, hsq, hwr⟩ := (namesWritable_eq_some_true env t q).1 hw
  obtain ⟨chain', subq', h1, h2, h3, h4⟩ := start_modifyAt env (dpWalk env [])
    (fun s => dpWalk_value env s []) q path t sub hs (nsDecls_dpWalk_nil env sub)
    (fun W => keep_from_empty env sub W hu) hq chain subq hc hsq
  refine (namesWritable_eq_some_true env _ q).2 ⟨chain', subq', h1, h2, ?_⟩
  rw [ddNamespacesInScopeChain_congr chain' chain h3]
  exact h4 _ hwr

/-- `deduplicate_namespaces(node)`, every start node `q` that is not strictly below `node`. -/
theorem namesWritable_dedup (env : Env) (t t' : Tree) (path : Path) (sub : Tree)
    (hs : t.at? path = some sub) (hu : UniqueDeclsBelow sub)
    (hd : deduplicateNamespaces env t path = some t') (q : Path)
    (hq : ∀ r, q = path ++ r → r = []) (hw : namesWritable env t q = some true) :
    namesWritable env t' q = some true := by
  simp only [deduplicateNamespaces, hs, Option.some.injEq] at hd
  subst hd
  exact dedupLoop_induction env path
    (fun a b => namesWritable env b q = some true → namesWritable env a q = some true)
    (fun t sub hs hu => dedupPass_writable env t path sub hs hu q hq)
    (fun _ h => h) (fun _ _ _ h1 h2 h => h1 (h2 h)) _ t sub hs hu hw

end XotModel
