/-
  FspecPrepend — C05 for `prepend` (the node becomes the first NORMAL child: it goes behind the
  namespace and attribute nodes).
-/
import XotModel.Lemmas.FspecInsertBefore

namespace XotModel
open HTree Spec

/-- namespace and attribute nodes -/
def abn (k : HTree) : Bool := !k.value.isNormal

theorem insertFirstNormal_eq (t : HTree) : ∀ L : List HTree,
    insertFirstNormal t L = L.takeWhile abn ++ t :: L.dropWhile abn
  | [] => rfl
  | k :: ks => by
    rw [List.takeWhile_cons, List.dropWhile_cons]
    cases h : k.value.isNormal with
    | true => simp [insertFirstNormal, abn, h]
    | false =>
      simp only [insertFirstNormal, abn, h, Bool.false_eq_true, if_false, Bool.not_false, if_true, List.cons_append]
      rw [insertFirstNormal_eq t ks]

theorem abn_map {φ : HTree → HTree} (hφ : KidMap φ) (k : HTree) : abn (φ k) = abn k := by
  simp [abn, hφ.value]

theorem takeWhile_abn_map {φ : HTree → HTree} (hφ : KidMap φ) : ∀ L : List HTree,
    (L.map φ).takeWhile abn = (L.takeWhile abn).map φ
  | [] => rfl
  | k :: ks => by
    rw [List.map_cons, List.takeWhile_cons, List.takeWhile_cons, abn_map hφ]
    cases abn k
    · rfl
    · simp only [if_true, List.map_cons]; rw [takeWhile_abn_map hφ ks]

theorem dropWhile_abn_map {φ : HTree → HTree} (hφ : KidMap φ) : ∀ L : List HTree,
    (L.map φ).dropWhile abn = (L.dropWhile abn).map φ
  | [] => rfl
  | k :: ks => by
    rw [List.map_cons, List.dropWhile_cons, List.dropWhile_cons, abn_map hφ]
    cases abn k
    · rfl
    · simp only [if_true]; rw [dropWhile_abn_map hφ ks]

theorem abn_of_mem_takeWhile : ∀ {L : List HTree} {k : HTree}, k ∈ L.takeWhile abn → abn k = true
  | [], _, h => by simp at h
  | a :: L, k, h => by
    rw [List.takeWhile_cons] at h
    cases ha : abn a with
    | false => rw [ha] at h; simp at h
    | true =>
      rw [ha] at h
      simp only [if_true, List.mem_cons] at h
      cases h with
      | inl e => rw [e]; exact ha
      | inr e => exact abn_of_mem_takeWhile e

theorem not_text_of_abn {k : HTree} (h : abn k = true) : ¬ k.value.isText = true := by
  intro ht
  have := isNormal_of_text ht
  simp [abn, this] at h

namespace Forest

theorem firstChild_of_get {f : Forest} {p : Nat} {v : Value} {L : List HTree}
    (e : f.get? p = some (.node p v L)) : f.firstChild p = ((L.dropWhile abn).head?).map (·.handle) := by
  unfold firstChild
  rw [e]
  rfl

theorem prependPoint_of_get {f : Forest} {p : Nat} {v : Value} {L : List HTree}
    (e : f.get? p = some (.node p v L)) : f.prependPoint p = ((L.takeWhile abn).getLast?).map (·.handle) := by
  unfold prependPoint
  rw [e]
  rfl

theorem checkedPrepend_ok {f : Forest} {p c : Nat} {t : HTree} (nd : f.allHandles.Nodup)
    (hg : f.get? c = some t) (hok : (f.checkedPrepend p c).2 = true) :
    (f.checkedPrepend p c).1 = (f.editAt (f.parent? c) (dropTop c)).editAt (some p) (fun ks => t :: ks) := by
  unfold checkedPrepend at hok ⊢
  split
  · rename_i h; rw [if_pos h] at hok; cases hok
  · rw [cut_any nd hg]
    rfl

end Forest

def prependTail (X : Forest) (p c : Nat) : Forest × Res :=
  let r2 := X.addConsolidate c none (X.firstChild p)
  if r2.2 then (r2.1, .ok) else
  let r3 := match r2.1.prependPoint p with
    | some ip => r2.1.checkedInsertAfter ip c
    | none => r2.1.checkedPrepend p c
  if r3.2 then (r3.1, .ok) else (r3.1, .err .nodeError)

theorem prepend_unfold (f : Forest) (p c : Nat) :
    f.prepend p c =
      if !f.structureCheck (some p) c then (f, .err .invalidOperation) else
      if f.firstChild p == some c then (f, .ok) else
      prependTail (f.removeConsolidate (f.prevSibling c) (f.nextSibling c)).1 p c := rfl

/-- The second half of `prepend` against the specification, given the package `Far`, what the
    model reads off the destination list (`View`) and the outcome of the indextree insertion. -/
theorem prependTail_core {f : Forest} {p c : Nat} {t : HTree} {vp : Value} {Lp : List HTree} {X Y : Forest}
    {φ : HTree → HTree} (inv : f.Inv)
    (F : Far f (Keep.resident c) c t p vp Lp X Y φ) (V : View f Lp) (hlive : f.isLive p = true)
    (hfirstV : X = f → f.firstChild p = ((Lp.dropWhile abn).head?).map (·.handle))
    (hplace : (prependTail X p c).2 = .ok → X.addConsolidate c none (X.firstChild p) = (X, false) →
      (prependTail X p c).1 = Y.editAt (some p) (insertFirstNormal t))
    (hgc : f.get? c = some t)
    (hX : X = f ∨ textData t = none)
    (hsame : ¬ ((Lp.dropWhile abn).head?).map (·.handle) = some c)
    (hocc : Dest.occupiedBy f c (.firstNormalChildOf p) = false)
    (hok : (prependTail X p c).2 = .ok) :
    (prependTail X p c).1 = specMove (Keep.resident c) (.firstNormalChildOf p) c f := by
  have htc : t.handle = c := (findList?_some f.roots t hgc).1
  have hsite : Dest.site f (.firstNormalChildOf p) = some p := by
    simp [Dest.site, hlive]
  have hspec := F.spec (.firstNormalChildOf p) hocc hsite (fun ψ hk hψ => natFor_insertFirstNormal hk hψ)
  simp only [Dest.insert] at hspec
  rw [hspec]
  have hYc : (Y.editAt (some p) (insertFirstNormal t)).consolidation = f.consolidation := by
    rw [Forest.editAt_consolidation, F.ycons]
  have hXtext : X.textOf c = textData t := Forest.textOf_of_get F.xget
  have sY := F.ysite
  -- the destination list in `Y`, split behind the namespace and attribute nodes
  have hsplit : Lp.map φ = (Lp.takeWhile abn).map φ ++ (Lp.dropWhile abn).map φ := by
    rw [← List.map_append, List.takeWhile_append_dropWhile]
  have hI : insertFirstNormal t (Lp.map φ) = (Lp.takeWhile abn).map φ ++ t :: (Lp.dropWhile abn).map φ := by
    rw [insertFirstNormal_eq, takeWhile_abn_map F.kid, dropWhile_abn_map F.kid]
  have hstrictY : f.consolidation = true →
      noAdjacentText ((Lp.takeWhile abn).map φ ++ (Lp.dropWhile abn).map φ) = true := by
    intro hc
    rw [← hsplit, noAdj_map F.kid]
    exact V.noadj hc
  have hAbLast : ∀ a, ((Lp.takeWhile abn).map φ).getLast? = some a → ¬ a.value.isText = true := by
    intro a ha
    rw [List.getLast?_map] at ha
    cases hl : (Lp.takeWhile abn).getLast? with
    | none => rw [hl] at ha; cases ha
    | some k =>
      rw [hl] at ha
      simp only [Option.map_some, Option.some.injEq] at ha
      subst ha
      rw [F.kid.value]
      exact not_text_of_abn (abn_of_mem_takeWhile (List.mem_of_getLast? hl))
  -- Flow 1
  have flow1 : X.addConsolidate c none (X.firstChild p) = (X, false) →
      (f.consolidation = true → ∀ kb, (Lp.dropWhile abn).head? = some kb →
        ¬ (t.value.isText = true ∧ kb.value.isText = true)) →
      (prependTail X p c).1 = (Y.editAt (some p) (insertFirstNormal t)).mergeAt (Keep.resident c) (some p) := by
    intro hr2 hs
    rw [hplace hok hr2]
    rcases Bool.eq_false_or_eq_true f.consolidation with hc | hc
    · rw [mergeAt_on (hYc.trans hc), Forest.editAt_editAt]
      apply sY.congr
      simp only [Function.comp]
      rw [hI]
      symm
      apply mergeRuns_id
      apply noAdj_insert (hstrictY hc)
      · intro a ha ⟨h1, _⟩
        exact hAbLast a ha h1
      · intro b hb
        rw [List.head?_map] at hb
        cases hN : (Lp.dropWhile abn).head? with
        | none => rw [hN] at hb; cases hb
        | some kb =>
          rw [hN] at hb
          simp only [Option.map_some, Option.some.injEq] at hb
          subst hb
          rw [F.kid.value]; exact hs hc kb hN
    · rw [mergeAt_off (hYc.trans hc)]
  rcases Bool.eq_false_or_eq_true f.consolidation with hc | hc
  case inr =>
    exact flow1 (Forest.addConsolidate_off (F.xcons.trans hc) _ _ _) (fun h => by rw [hc] at h; cases h)
  cases htd : textData t with
  | none =>
    have hnt : ¬ t.value.isText = true := by
      intro h
      obtain ⟨z, hz⟩ := isText_iff_textData.1 h
      rw [htd] at hz; cases hz
    exact flow1 (Forest.addConsolidate_not_text (hXtext.trans htd) _ _) (fun _ _ _ h => hnt h.1)
  | some tc =>
    have hXf : X = f := by
      cases hX with
      | inl h => exact h
      | inr h => rw [htd] at h; cases h
    subst hXf
    have htt : t.value.isText = true := isText_iff_textData.2 ⟨tc, htd⟩
    have hleaf_t : t.kids = [] := leaf_of_text inv.valid hgc htt
    have hfirst : X.firstChild p = ((Lp.dropWhile abn).head?).map (·.handle) := hfirstV rfl
    have hleafL := V.leaf
    cases hN : (Lp.dropWhile abn).head? with
    | none =>
      refine flow1 (by rw [hfirst, hN]; exact Forest.addConsolidate_none (fun a h => by cases h) (fun b h => by cases h)) ?_
      intro _ kb hkb; rw [hN] at hkb; cases hkb
    | some kb =>
      obtain ⟨Nm2, eN⟩ := List.head?_eq_some_iff.1 hN
      have hLp : Lp = Lp.takeWhile abn ++ kb :: Nm2 := by
        have := List.takeWhile_append_dropWhile (p := abn) (l := Lp)
        rw [eN] at this
        exact this.symm
      have hkb_get : X.get? kb.handle = some kb := V.get kb (by rw [hLp]; simp)
      cases htb : textData kb with
      | none =>
        refine flow1 (by
          rw [hfirst, hN]
          exact Forest.addConsolidate_none (fun a h => by cases h)
            (fun b h => by cases h; exact (Forest.textOf_of_get hkb_get).trans htb)) ?_
        intro _ kb' hkb' ⟨_, h2⟩
        rw [hN] at hkb'
        cases hkb'
        obtain ⟨z, hz⟩ := isText_iff_textData.1 h2
        rw [htb] at hz; cases hz
      | some tb =>
        -- merged into the first normal child: the LATER node survives
        have hkbt : kb.value.isText = true := isText_iff_textData.2 ⟨tb, htb⟩
        have hkbc : kb.handle ≠ c := fun e => hsame (by rw [hN]; simp [e])
        have hr2 : X.addConsolidate c none (X.firstChild p) =
            ((X.setValue kb.handle (.text (tc ++ tb))).spliceOut c, true) := by
          rw [hfirst, hN]
          exact Forest.addConsolidate_next hc (hXtext.trans htd) (fun a h => by cases h)
            ((Forest.textOf_of_get hkb_get).trans htb) hkbc
        have hflow := F.flow2 rfl kb.handle (.text (tc ++ tb))
          ⟨kb, by rw [hLp]; simp, rfl⟩ hkbc hleaf_t (by
          intro k' hk' e
          have ndL : (handlesList (Lp.takeWhile abn ++ kb :: Nm2)).Nodup := hLp ▸ V.nd
          obtain ⟨tA, tB⟩ := tops_ne_of_nodup ndL
          have : k' = kb := by
            rw [hLp] at hk'
            cases List.mem_append.1 hk' with
            | inl h => exact absurd e (tA k' h)
            | inr h =>
              cases List.mem_cons.1 h with
              | inl h' => exact h'
              | inr h' => exact absurd e (tB k' h')
          rw [this]
          exact hleafL kb (by rw [hLp]; simp) hkbt)
        unfold prependTail
        rw [hr2]
        simp only [if_true]
        rw [hflow, mergeAt_on (hYc.trans hc), Forest.editAt_editAt]
        apply sY.congr
        simp only [Function.comp]
        rw [hI, eN]
        simp only [List.map_cons]
        have hLpm : Lp.map φ = (Lp.takeWhile abn).map φ ++ φ kb :: Nm2.map φ := by
          conv => lhs; rw [hLp]
          simp
        rw [hLpm]
        have sY' : SiteAt Y p vp ((Lp.takeWhile abn).map φ ++ φ kb :: Nm2.map φ) := hLpm ▸ sY
        obtain ⟨ndLY, _⟩ := sY'.nodupKids
        have htops := (tops_ne_of_nodup ndLY).1
        rw [replaceTop_mid (F.kid.handle kb) (by rw [F.kid.handle] at htops; exact htops)]
        have hstr := hstrictY hc
        rw [eN] at hstr
        simp only [List.map_cons] at hstr
        obtain ⟨hAb, hkbN, _⟩ := noAdj_append.1 hstr
        have hvkb : (φ kb).value = .text tb := by rw [F.kid.value]; exact textData_some htb
        have hAbt : noAdjacentText ((Lp.takeWhile abn).map φ ++ [t]) = true := by
          apply noAdj_append.2
          refine ⟨hAb, rfl, ?_⟩
          intro a b ha _ ⟨h1, _⟩
          exact hAbLast a ha h1
        rw [mergeRuns_seam _ (textData_some htd) hvkb hAbt hkbN]
        simp [join, Keep.resident, htc]


/-- The far geometry. -/
theorem prependTail_far {f : Forest} {p c : Nat} {t : HTree} {vp : Value} {Lp : List HTree} {X Y : Forest}
    {φ : HTree → HTree} (inv : f.Inv) (norm : f.Normal)
    (F : Far f (Keep.resident c) c t p vp Lp X Y φ) (sp : SiteAt f p vp Lp)
    (hxs : ∃ φ', KidMap φ' ∧ SiteAt X p vp (Lp.map φ')) (hgc : f.get? c = some t)
    (hX : X = f ∨ textData t = none) (hpt : p ∉ handles t) (hnorm : t.value.isNormal = true)
    (hsame : ¬ ((Lp.dropWhile abn).head?).map (·.handle) = some c)
    (hocc : Dest.occupiedBy f c (.firstNormalChildOf p) = false)
    (hok : (prependTail X p c).2 = .ok) :
    (prependTail X p c).1 = specMove (Keep.resident c) (.firstNormalChildOf p) c f := by
  have sY := F.ysite
  have hI : insertFirstNormal t (Lp.map φ) = (Lp.takeWhile abn).map φ ++ t :: (Lp.dropWhile abn).map φ := by
    rw [insertFirstNormal_eq, takeWhile_abn_map F.kid, dropWhile_abn_map F.kid]
  have hplace : (prependTail X p c).2 = .ok → X.addConsolidate c none (X.firstChild p) = (X, false) →
      (prependTail X p c).1 = Y.editAt (some p) (insertFirstNormal t) := by
    intro hok' hr2
    unfold prependTail at hok' ⊢
    rw [hr2] at hok' ⊢
    simp only [Bool.false_eq_true, if_false] at hok' ⊢
    obtain ⟨φ', hk', sXq⟩ := hxs
    have hpp : X.prependPoint p = ((Lp.takeWhile abn).getLast?).map (·.handle) := by
      rw [Forest.prependPoint_of_get sXq.kids, takeWhile_abn_map hk', List.getLast?_map, Option.map_map]
      congr 1
      funext k
      exact hk'.handle k
    rw [hpp] at hok' ⊢
    cases hl : (Lp.takeWhile abn).getLast? with
    | none =>
      rw [hl] at hok'
      simp only [Option.map_none] at hok' ⊢
      have hr3 : (X.checkedPrepend p c).2 = true := by
        cases h : (X.checkedPrepend p c).2 with
        | true => rfl
        | false => rw [h] at hok'; simp at hok'
      rw [hr3]
      simp only [if_true]
      rw [Forest.checkedPrepend_ok F.xnd F.xget hr3, F.xcut]
      apply sY.congr
      have hnil : Lp.takeWhile abn = [] := List.getLast?_eq_none_iff.1 hl
      rw [hI, hnil]
      simp only [List.map_nil, List.nil_append]
      have : Lp.dropWhile abn = Lp := by
        have := List.takeWhile_append_dropWhile (p := abn) (l := Lp)
        rw [hnil] at this
        simpa using this
      rw [this]
    | some kip =>
      rw [hl] at hok'
      simp only [Option.map_some] at hok' ⊢
      obtain ⟨Ab2, eAb⟩ := List.getLast?_eq_some_iff.1 hl
      -- the list of `X`, split at the insertion point
      have hLp : Lp = Ab2 ++ kip :: Lp.dropWhile abn := by
        calc Lp = Lp.takeWhile abn ++ Lp.dropWhile abn := (List.takeWhile_append_dropWhile).symm
          _ = Ab2 ++ kip :: Lp.dropWhile abn := by rw [eAb]; simp
      have sXq' : SiteAt X p vp (Ab2.map φ' ++ φ' kip :: (Lp.dropWhile abn).map φ') := by
        have : Lp.map φ' = Ab2.map φ' ++ φ' kip :: (Lp.dropWhile abn).map φ' := by
          conv => lhs; rw [hLp]
          simp
        rw [← this]; exact sXq
      have hkipc : kip.handle ≠ c := by
        intro e
        -- `c` is a normal node, `kip` is not
        have hkab : abn kip = true := abn_of_mem_takeWhile (List.mem_of_getLast? hl)
        have skip : SiteAt f p vp (Ab2 ++ kip :: Lp.dropWhile abn) := hLp ▸ sp
        have := skip.getKid
        rw [e, hgc] at this
        have := Option.some.inj this
        subst this
        simp [abn, hnorm] at hkab
      have := Forest.checkedInsertAfter_ok F.xget sXq' hpt (by rw [hk'.handle]; exact hkipc)
      rw [hk'.handle] at this
      rw [this]
      simp only [if_true]
      rw [F.xcut]
      have sY' : SiteAt Y p vp (Ab2.map φ ++ φ kip :: (Lp.dropWhile abn).map φ) := by
        have : Lp.map φ = Ab2.map φ ++ φ kip :: (Lp.dropWhile abn).map φ := by
          conv => lhs; rw [hLp]
          simp
        rw [← this]; exact sY
      have hctx := sY'.ctx
      rw [F.kid.handle] at hctx
      rw [Forest.placeAfter_of_ctx t sY'.nd hctx]
      apply sY.congr
      rw [hI, eAb]
      have : Lp.map φ = Ab2.map φ ++ φ kip :: (Lp.dropWhile abn).map φ := by
        conv => lhs; rw [hLp]
        simp
      rw [this]
      obtain ⟨ndLY, _⟩ := sY'.nodupKids
      have htops := (tops_ne_of_nodup ndLY).1
      have := insertAfterTop_mid (A := Ab2.map φ) (w := φ kip) (B := (Lp.dropWhile abn).map φ) t htops
      rw [F.kid.handle] at this
      rw [this]
      simp
  exact prependTail_core inv F (View.of_site inv norm sp) (Forest.isLive_of_get sp.kids)
    (fun _ => Forest.firstChild_of_get sp.kids) hplace hgc hX hsame hocc hok

end XotModel

namespace XotModel
open HTree Spec

theorem occupied_firstNormal {f : Forest} {p c : Nat} {vp : Value} {Lp : List HTree} (sp : SiteAt f p vp Lp) :
    Dest.occupiedBy f c (.firstNormalChildOf p) = (((Lp.dropWhile abn).head?).map (·.handle) == some c) := by
  simp only [Dest.occupiedBy, Forest.kidsOf_of_get sp.kids]
  rfl

/-- **prepend**, when the moved node is not already a child of `p`. -/
theorem prepend_spec_far {f : Forest} {p c : Nat} (inv : f.Inv) (norm : f.Normal)
    (hfar : f.parent? c ≠ some p) (hok : (f.prepend p c).2 = .ok) :
    (f.prepend p c).1 = specMove (Keep.resident c) (.firstNormalChildOf p) c f := by
  have nd := inv.nodup
  have hsc : f.structureCheck (some p) c = true := by
    cases h : f.structureCheck (some p) c with
    | true => rfl
    | false => rw [prepend_unfold] at hok; simp [h] at hok
  obtain ⟨vp, Lp, t, hgp, hgc, hpt, hnorm, hndoc, hvp⟩ := Forest.structureCheck_unpack nd hsc
  have sp : SiteAt f p vp Lp := ⟨nd, hgp⟩
  have htc : t.handle = c := (findList?_some f.roots t hgc).1
  have hfirst : f.firstChild p = ((Lp.dropWhile abn).head?).map (·.handle) := Forest.firstChild_of_get hgp
  have hoccEq := occupied_firstNormal (c := c) sp
  by_cases hsame : ((Lp.dropWhile abn).head?).map (·.handle) = some c
  · rw [prepend_unfold]
    unfold specMove
    simp [hsc, hfirst, hsame, hoccEq]
  · have hocc : Dest.occupiedBy f c (.firstNormalChildOf p) = false := by
      rw [hoccEq]; simpa using hsame
    rw [prepend_unfold] at hok ⊢
    simp only [hsc, hfirst, Bool.not_true, Bool.false_eq_true, if_false, beq_iff_eq, hsame] at hok ⊢
    rcases Forest.root_or_ctx hgc with hroot | ⟨cx, hctx⟩
    · have hno := Forest.ctx_none_of_root nd hroot
      rw [Forest.prevSibling_of_no_ctx hno, Forest.removeConsolidate_none_left] at hok ⊢
      exact prependTail_far inv norm (far_root hgc hno sp hpt) sp ⟨id, kidMap_id, by rw [List.map_id]; exact sp⟩
        hgc (Or.inl rfl) hpt hnorm hsame hocc hok
    · obtain ⟨e0, vo, so⟩ := SiteAt.of_ctx nd hctx
      have hself : cx.self = t := by
        have := Forest.get?_of_ctx nd hctx
        rw [hgc] at this
        exact (Option.some.inj this).symm
      obtain ⟨po, l, k, r⟩ := cx
      simp only at e0 so hself
      subst hself
      subst htc
      have hpo : po ≠ p := by
        intro e
        apply hfar
        rw [Forest.parent?_of_ctx hctx, e]
      rw [Forest.prevSibling_of_ctx hctx, Forest.nextSibling_of_ctx hctx] at hok ⊢
      simp only at hok ⊢
      have hvq : vp.isText = false := by
        cases hvp with
        | inl h => cases vp <;> simp_all [Value.isElement, Value.isText]
        | inr h => cases vp <;> simp_all [Value.isDocument, Value.isText]
      obtain ⟨⟨φ, F⟩, hxs⟩ := far_kid (keep := Keep.resident k.handle) inv norm (Keep.resident_spec k.handle)
        so sp hpo hpt hvq
      exact prependTail_far inv norm F sp hxs hgc (old_stage inv norm so).same_or_not_text hpt hnorm hsame hocc hok

end XotModel
