/-
  Lemmas for C12, part 1: the indextree-level primitives are the identity / find nothing on trees
  that do not contain the handle they are given.
-/
import XotModel.Lemmas.ForestBasic

namespace XotModel
open HTree

theorem handlesList_append (A B : List HTree) :
    handlesList (A ++ B) = handlesList A ++ handlesList B := by
  induction A with
  | nil => simp [handlesList]
  | cons a A ih => simp [handlesList, ih, List.append_assoc]

theorem handlesList_singleton (t : HTree) : handlesList [t] = handles t := by
  simp [handlesList]

theorem fc_handle_mem_handles (t : HTree) : t.handle ∈ handles t := by
  cases t with
  | node h v ks => simp [HTree.handle, handles]

theorem handles_subset_handlesList {t : HTree} {L : List HTree} (ht : t ∈ L) :
    ∀ h ∈ handles t, h ∈ handlesList L := by
  induction L with
  | nil => cases ht
  | cons a L ih =>
    intro h hh
    simp only [handlesList, List.mem_append]
    cases ht with
    | head => exact Or.inl hh
    | tail _ ht' => exact Or.inr (ih ht' h hh)

theorem rootHandle_mem_handlesList {t : HTree} {L : List HTree} (ht : t ∈ L) :
    t.handle ∈ handlesList L :=
  handles_subset_handlesList ht _ (fc_handle_mem_handles t)

/-! ### find? -/

mutual
  theorem find?_none_of_not_mem (h : Nat) : ∀ t : HTree, h ∉ handles t → find? h t = none
    | .node h' v ks => by
      intro hn
      simp only [handles, List.mem_cons, not_or] at hn
      unfold find?
      rw [if_neg (fun e => hn.1 e.symm)]
      exact findList?_none_of_not_mem h ks hn.2
  theorem findList?_none_of_not_mem (h : Nat) : ∀ ks : List HTree, h ∉ handlesList ks → findList? h ks = none
    | [] => by intro _; simp [findList?]
    | k :: ks => by
      intro hn
      simp only [handlesList, List.mem_append, not_or] at hn
      unfold findList?
      rw [find?_none_of_not_mem h k hn.1]
      exact findList?_none_of_not_mem h ks hn.2
end

theorem findList?_append_of_not_mem (h : Nat) (A B : List HTree) (hn : h ∉ handlesList A) :
    findList? h (A ++ B) = findList? h B := by
  induction A with
  | nil => rfl
  | cons a A ih =>
    simp only [handlesList, List.mem_append, not_or] at hn
    simp only [List.cons_append, findList?]
    rw [find?_none_of_not_mem h a hn.1]
    exact ih hn.2

theorem findList?_cons_of_not_mem (h : Nat) (a : HTree) (B : List HTree) (hn : h ∉ handles a) :
    findList? h (a :: B) = findList? h B := by
  simp only [findList?]
  rw [find?_none_of_not_mem h a hn]

theorem fc_find?_self (h : Nat) (v : Value) (ks : List HTree) :
    find? h (.node h v ks) = some (.node h v ks) := by
  simp [find?]

theorem fc_findList?_cons_self (h : Nat) (v : Value) (ks : List HTree) (B : List HTree) :
    findList? h (.node h v ks :: B) = some (.node h v ks) := by
  simp [findList?, find?]

/-! ### mapAt -/

mutual
  theorem fc_mapAt_of_not_mem (h : Nat) (g : HTree → HTree) : ∀ t : HTree, h ∉ handles t → mapAt h g t = t
    | .node h' v ks => by
      intro hn
      simp only [handles, List.mem_cons, not_or] at hn
      unfold mapAt
      rw [if_neg (fun e => hn.1 e.symm), fc_mapAtList_of_not_mem h g ks hn.2]
  theorem fc_mapAtList_of_not_mem (h : Nat) (g : HTree → HTree) : ∀ ks : List HTree,
      h ∉ handlesList ks → mapAtList h g ks = ks
    | [] => by intro _; rfl
    | k :: ks => by
      intro hn
      simp only [handlesList, List.mem_append, not_or] at hn
      simp only [mapAtList]
      rw [fc_mapAt_of_not_mem h g k hn.1, fc_mapAtList_of_not_mem h g ks hn.2]
end

theorem map_mapAt_of_not_mem (h : Nat) (g : HTree → HTree) (L : List HTree) (hn : h ∉ handlesList L) :
    L.map (mapAt h g) = L := by
  rw [← mapAtList_eq_map]
  exact fc_mapAtList_of_not_mem h g L hn

theorem fc_mapAtList_append (h : Nat) (g : HTree → HTree) (A B : List HTree) :
    mapAtList h g (A ++ B) = mapAtList h g A ++ mapAtList h g B := by
  simp [mapAtList_eq_map]

/-! ### replaceBelow -/

mutual
  theorem replaceBelow_of_not_mem (h : Nat) (f : HTree → List HTree) : ∀ t : HTree,
      h ∉ handles t → replaceBelow h f t = t
    | .node h' v ks => by
      intro hn
      simp only [handles, List.mem_cons, not_or] at hn
      unfold replaceBelow
      rw [fc_replaceKids_of_not_mem h f ks hn.2]
  theorem fc_replaceKids_of_not_mem (h : Nat) (f : HTree → List HTree) : ∀ ks : List HTree,
      h ∉ handlesList ks → replaceKids h f ks = ks
    | [] => by intro _; rfl
    | k :: ks => by
      intro hn
      simp only [handlesList, List.mem_append, not_or] at hn
      have hk : k.handle ≠ h := fun e => hn.1 (e ▸ fc_handle_mem_handles k)
      simp only [replaceKids]
      rw [if_neg hk, replaceBelow_of_not_mem h f k hn.1, fc_replaceKids_of_not_mem h f ks hn.2]
end

theorem map_replaceBelow_of_not_mem (h : Nat) (f : HTree → List HTree) (L : List HTree)
    (hn : h ∉ handlesList L) : L.map (replaceBelow h f) = L := by
  induction L with
  | nil => rfl
  | cons a L ih =>
    simp only [handlesList, List.mem_append, not_or] at hn
    simp only [List.map_cons]
    rw [replaceBelow_of_not_mem h f a hn.1, ih hn.2]

theorem replaceKids_append_of_not_mem (h : Nat) (f : HTree → List HTree) (A B : List HTree)
    (hn : h ∉ handlesList A) : replaceKids h f (A ++ B) = A ++ replaceKids h f B := by
  induction A with
  | nil => rfl
  | cons a A ih =>
    simp only [handlesList, List.mem_append, not_or] at hn
    have hk : a.handle ≠ h := fun e => hn.1 (e ▸ fc_handle_mem_handles a)
    simp only [List.cons_append, replaceKids]
    rw [if_neg hk, replaceBelow_of_not_mem h f a hn.1, ih hn.2]

/-! ### ctxBelow -/

mutual
  theorem ctxBelow_none_of_not_mem (h : Nat) : ∀ t : HTree, h ∉ handles t → ctxBelow h t = none
    | .node p v ks => by
      intro hn
      simp only [handles, List.mem_cons, not_or] at hn
      unfold ctxBelow
      exact ctxKids_none_of_not_mem h p ks [] hn.2
  theorem ctxKids_none_of_not_mem (h p : Nat) : ∀ (ks left : List HTree),
      h ∉ handlesList ks → ctxKids h p left ks = none
    | [], left => by intro _; simp [ctxKids]
    | k :: ks, left => by
      intro hn
      simp only [handlesList, List.mem_append, not_or] at hn
      have hk : k.handle ≠ h := fun e => hn.1 (e ▸ fc_handle_mem_handles k)
      unfold ctxKids
      rw [if_neg hk, ctxBelow_none_of_not_mem h k hn.1]
      exact ctxKids_none_of_not_mem h p ks (left ++ [k]) hn.2
end

theorem fc_findSome?_ctxBelow_none (h : Nat) (L : List HTree) (hn : h ∉ handlesList L) :
    L.findSome? (ctxBelow h) = none := by
  induction L with
  | nil => rfl
  | cons a L ih =>
    simp only [handlesList, List.mem_append, not_or] at hn
    simp [List.findSome?_cons, ctxBelow_none_of_not_mem h a hn.1, ih hn.2]

/-! ### ancestorsOf -/

mutual
  theorem ancestorsOf_none_of_not_mem (h : Nat) : ∀ t : HTree, h ∉ handles t → ancestorsOf h t = none
    | .node h' v ks => by
      intro hn
      simp only [handles, List.mem_cons, not_or] at hn
      unfold ancestorsOf
      rw [if_neg (fun e => hn.1 e.symm), ancestorsOfList_none_of_not_mem h ks hn.2]
  theorem ancestorsOfList_none_of_not_mem (h : Nat) : ∀ ks : List HTree,
      h ∉ handlesList ks → ancestorsOfList h ks = none
    | [] => by intro _; simp [ancestorsOfList]
    | k :: ks => by
      intro hn
      simp only [handlesList, List.mem_append, not_or] at hn
      unfold ancestorsOfList
      rw [ancestorsOf_none_of_not_mem h k hn.1]
      exact ancestorsOfList_none_of_not_mem h ks hn.2
end

theorem findSome?_ancestorsOf_none (h : Nat) (L : List HTree) (hn : h ∉ handlesList L) :
    L.findSome? (ancestorsOf h) = none := by
  induction L with
  | nil => rfl
  | cons a L ih =>
    simp only [handlesList, List.mem_append, not_or] at hn
    simp [List.findSome?_cons, ancestorsOf_none_of_not_mem h a hn.1, ih hn.2]

theorem fc_ancestorsOfList_append_of_not_mem (h : Nat) (A B : List HTree) (hn : h ∉ handlesList A) :
    ancestorsOfList h (A ++ B) = ancestorsOfList h B := by
  induction A with
  | nil => rfl
  | cons a A ih =>
    simp only [handlesList, List.mem_append, not_or] at hn
    simp only [List.cons_append, ancestorsOfList]
    rw [ancestorsOf_none_of_not_mem h a hn.1]
    exact ih hn.2

/-! ### root filters -/

theorem filter_handle_ne_of_not_mem (n : Nat) (L : List HTree) (hn : n ∉ handlesList L) :
    L.filter (fun r => r.handle != n) = L := by
  apply List.filter_eq_self.mpr
  intro a ha
  have : a.handle ≠ n := fun e => hn (e ▸ rootHandle_mem_handlesList ha)
  simp [this]

theorem any_handle_eq_false_of_not_mem (n : Nat) (L : List HTree) (hn : n ∉ handlesList L) :
    L.any (fun r => decide (r.handle = n)) = false := by
  simp only [List.any_eq_false, decide_eq_true_eq]
  intro a ha e
  exact hn (e ▸ rootHandle_mem_handlesList ha)

end XotModel
