/-
  `next_sibling` / `previous_sibling` of any node (attribute and namespace nodes included) under
  the `StructValid` ordering; the start edges of `traverse` are `descendants`.
-/
import XotModel.Lemmas.AxesMisc

namespace XotModel.Axes

theorem catRank_inj {a b : Category} (h : catRank a = catRank b) : a = b := by
  cases a <;> cases b <;> simp [catRank] at h <;> rfl

theorem kidsSorted_le {ks : List Tree} (hs : kidsSorted ks) {i j : Nat} (hij : i < j) (hj : j < ks.length) :
    catRank ks[i].value.category ≤ catRank ks[j].value.category := by
  unfold kidsSorted at hs
  have := List.pairwise_iff_getElem.mp hs i j (by simp; omega) (by simpa using hj) hij
  simpa using this

theorem categoryAt_child {t : Tree} {π : Path} (h : Valid t π) {i : Nat} (hi : i < (subAt t π).kids.length) :
    categoryAt t (π ++ [i]) = (subAt t π).kids[i].value.category := by
  simp [categoryAt, valueAt, subAt_snoc h hi]

/-- `next_sibling` of any node: the first of its following siblings (of its category). -/
theorem nextSibling_sorted {t : Tree} {π : Path} {i : Nat} (h : Valid t (π ++ [i]))
    (hs : kidsSorted (subAt t π).kids) :
    nextSibling t (π ++ [i]) = (axis t .followingSibling (π ++ [i])).head? := by
  have hπ := valid_prefix h
  have hi := (valid_snoc_iff hπ i).mp h
  have hat := hπ.at?
  rw [tree_eta (subAt t π)] at hat
  rw [(followingSiblings_snoc h).2]
  unfold nextSibling
  rw [internalNextSibling_snoc hat]
  by_cases hlt : i + 1 < (subAt t π).kids.length
  · simp only [hlt, if_true]
    rw [List.drop_eq_getElem_cons (by simpa [rawChildPaths] using hlt)]
    have hget : (rawChildPaths t π)[i + 1]'(by simpa [rawChildPaths] using hlt) = π ++ [i + 1] := by
      simp [rawChildPaths]
    rw [hget, List.filter_cons]
    by_cases hc : categoryAt t (π ++ [i]) = categoryAt t (π ++ [i + 1])
    · simp [hc]
    · have hne : ¬ categoryAt t (π ++ [i + 1]) = categoryAt t (π ++ [i]) := fun e => hc e.symm
      simp only [bne_iff_ne, ne_eq, hc, not_false_eq_true, if_true, beq_iff_eq, hne, if_false]
      -- every later sibling has a strictly larger rank
      symm
      rw [List.head?_eq_none_iff]
      apply List.filter_eq_nil_iff.mpr
      intro x hx
      obtain ⟨n, hn, rfl⟩ := List.getElem_of_mem hx
      have hn' : i + 1 + 1 + n < (subAt t π).kids.length := by
        simp [rawChildPaths] at hn; omega
      have hx' : ((rawChildPaths t π).drop (i + 1 + 1))[n] = π ++ [i + 1 + 1 + n] := by
        simp [rawChildPaths]
      rw [hx', categoryAt_child hπ hn', categoryAt_child hπ hi]
      rw [categoryAt_child hπ hi, categoryAt_child hπ hlt] at hc
      have h1 := kidsSorted_le hs (show i < i + 1 by omega) hlt
      have h2 := kidsSorted_le hs (show i + 1 < i + 1 + 1 + n by omega) hn'
      have h3 : catRank (subAt t π).kids[i].value.category ≠ catRank (subAt t π).kids[i + 1].value.category :=
        fun e => hc (catRank_inj e)
      simp only [beq_iff_eq]
      intro e
      rw [e] at h2; omega
  · have : (rawChildPaths t π).drop (i + 1) = [] := by
      apply List.drop_eq_nil_of_le; simp [rawChildPaths]; omega
    simp [hlt, this]

/-- `previous_sibling` of any node: the first of its preceding siblings (of its category). -/
theorem previousSibling_sorted {t : Tree} {π : Path} {i : Nat} (h : Valid t (π ++ [i]))
    (hs : kidsSorted (subAt t π).kids) :
    previousSibling t (π ++ [i]) = (axis t .precedingSibling (π ++ [i])).head? := by
  have hπ := valid_prefix h
  have hi := (valid_snoc_iff hπ i).mp h
  rw [(precedingSiblings_snoc h).2, previousSibling_snoc]
  cases i with
  | zero => simp
  | succ i =>
    have hi' : i < (subAt t π).kids.length := by omega
    simp only [Nat.add_one_ne_zero, if_false, Nat.add_sub_cancel]
    rw [List.take_add_one, rawChildPaths_getElem? t π i hi']
    simp only [Option.toList_some, List.filter_append, List.filter_cons, List.filter_nil,
      List.reverse_append]
    by_cases hc : categoryAt t (π ++ [i]) = categoryAt t (π ++ [i + 1])
    · simp [hc]
    · simp only [beq_iff_eq, hc, if_false, List.reverse_nil, List.nil_append]
      symm
      rw [List.head?_eq_none_iff, List.reverse_eq_nil_iff]
      apply List.filter_eq_nil_iff.mpr
      intro x hx
      obtain ⟨n, hn, rfl⟩ := List.getElem_of_mem hx
      have hn' : n < i := by simp [rawChildPaths] at hn; omega
      have hx' : ((rawChildPaths t π).take i)[n] = π ++ [n] := by simp [rawChildPaths]
      have hnk : n < (subAt t π).kids.length := by omega
      rw [hx', categoryAt_child hπ hnk, categoryAt_child hπ hi]
      rw [categoryAt_child hπ hi', categoryAt_child hπ hi] at hc
      have h1 := kidsSorted_le hs (show i < i + 1 by omega) hi
      have h2 := kidsSorted_le hs hn' hi'
      have h3 : catRank (subAt t π).kids[i].value.category ≠ catRank (subAt t π).kids[i + 1].value.category :=
        fun e => hc (catRank_inj e)
      simp only [beq_iff_eq]
      intro e
      rw [e] at h2; omega

/-! ### The start edges of `traverse` -/

def Edge.start? : Edge → Option Path
  | .start p => some p
  | .stop _ => none

mutual
  theorem starts_rawEdges : ∀ s : Tree, (rawEdges s).filterMap Edge.start? = allPre s
    | .node v ks => by
      simp [rawEdges, allPre, List.filterMap_cons, List.filterMap_append, Edge.start?,
        starts_rawEdgesList ks 0]
  theorem starts_rawEdgesList : ∀ (ks : List Tree) (i : Nat),
      (rawEdgesList i ks).filterMap Edge.start? = allPreList i ks
    | [], _ => by simp [rawEdgesList, allPreList]
    | k :: ks, i => by
      simp only [rawEdgesList, allPreList, List.filterMap_append, starts_rawEdgesList ks (i + 1)]
      congr 1
      rw [← starts_rawEdges k, List.filterMap_map, List.map_filterMap]
      congr 1; funext e; cases e <;> rfl
end

/-- The nodes whose `Start` edge `traverse` (`all_traverse`) yields are `descendants`
    (`all_descendants`), in the same order. -/
theorem traverse_starts (t : Tree) (p : Path) :
    (traverse t p).filterMap Edge.start? = descendants t p ∧
    (allTraverse t p).filterMap Edge.start? = allDescendants t p := by
  have hall : (allTraverse t p).filterMap Edge.start? = allDescendants t p := by
    unfold allTraverse arenaTraverse allDescendants arenaDescendants
    rw [← starts_rawEdges, List.filterMap_map, List.map_filterMap]
    congr 1; funext e; cases e <;> rfl
  refine ⟨?_, hall⟩
  unfold traverse descendants
  rw [← show allDescendants t p = arenaDescendants t p from rfl, ← hall,
    show arenaTraverse t p = allTraverse t p from rfl]
  generalize allTraverse t p = l
  induction l with
  | nil => rfl
  | cons e l ih =>
    have hstop : ∀ (q : Path) (l' : List Edge),
        (Edge.stop q :: l').filterMap Edge.start? = l'.filterMap Edge.start? := by
      intro q l'; rw [List.filterMap_cons]; rfl
    have hstart : ∀ (q : Path) (l' : List Edge),
        (Edge.start q :: l').filterMap Edge.start? = q :: l'.filterMap Edge.start? := by
      intro q l'; rw [List.filterMap_cons]; rfl
    cases e with
    | start q =>
      rw [hstart, List.filter_cons, List.filter_cons]
      by_cases hq : isNormalAt t q = true
      · simp only [edgeNormal, Edge.node, hq, if_true, hstart, ih]
      · simp only [edgeNormal, Edge.node, hq, Bool.false_eq_true, if_false, ih]
    | stop q =>
      rw [hstop, List.filter_cons]
      by_cases hq : isNormalAt t q = true
      · simp only [edgeNormal, Edge.node, hq, if_true, hstop, ih]
      · simp only [edgeNormal, Edge.node, hq, Bool.false_eq_true, if_false, ih]

end XotModel.Axes
