/-
  Lemmas for C12, part 7: what structural validity of the source gives the edge replay —
  each child is admissible after the copies of its left siblings.
-/
import XotModel.Lemmas.FcloneAppend3

namespace XotModel
open HTree

/-- What ordering and key uniqueness look at: rank of the category, key of an entry node. -/
def Value.sig (v : Value) : Nat × Nat :=
  (v.category.rank, if v.category = .normal then 0 else Forest.entryKey v)

/-- Two children in this order are compatible. -/
def sigRel (a b : Nat × Nat) : Prop := a.1 ≤ b.1 ∧ (a.1 = b.1 → a.1 ≠ 2 → a.2 ≠ b.2)

/-- The children copied so far followed by the source children still to come form an ordered
    list without duplicate keys, and what is to come may sit under `vc`. -/
def Pending (vc : Value) (K ks : List HTree) : Prop :=
  ((K ++ ks).map (fun t => t.value.sig)).Pairwise sigRel ∧ ∀ k ∈ ks, kidAllowed vc k.value = true

theorem rank_eq_iff (a b : Category) : a.rank = b.rank ↔ a = b := by
  cases a <;> cases b <;> simp [Category.rank]

theorem kidsOrdered_pairwise : ∀ ks : List HTree, kidsOrdered ks = true →
    ks.Pairwise (fun a b => a.value.category.rank ≤ b.value.category.rank)
  | [] => by intro _; exact List.Pairwise.nil
  | [a] => by intro _; simp
  | a :: b :: rest => by
    intro h
    simp only [kidsOrdered, Bool.and_eq_true, decide_eq_true_eq] at h
    have ih := kidsOrdered_pairwise (b :: rest) h.2
    rw [List.pairwise_cons] at ih ⊢
    refine ⟨?_, List.pairwise_cons.mpr ih⟩
    intro x hx
    cases hx with
    | head => exact h.1
    | tail _ hx' => exact Nat.le_trans h.1 (ih.1 x hx')

theorem keysUnique_pairwise (c : Category) (ks : List HTree) (h : keysUnique c ks = true) :
    ks.Pairwise (fun a b => a.value.category = c → b.value.category = c →
      Forest.entryKey a.value ≠ Forest.entryKey b.value) := by
  unfold keysUnique at h
  simp only [decide_eq_true_eq] at h
  rw [List.nodup_iff_pairwise_ne, List.pairwise_map, List.pairwise_filter] at h
  refine h.imp ?_
  intro a b hab ha hb
  exact hab (by simp [ha]) (by simp [hb])

/-- The children of a valid node are pending under it. -/
theorem pending_init (b : Bool) (h : Nat) (v : Value) (ks : List HTree)
    (hv : validTree b (.node h v ks) = true) : Pending v [] ks := by
  simp only [validTree, Bool.and_eq_true, List.all_eq_true] at hv
  obtain ⟨⟨⟨⟨⟨h1, h2⟩, h3⟩, h4⟩, _⟩, _⟩ := hv
  refine ⟨?_, h1⟩
  simp only [List.nil_append]
  rw [List.pairwise_map]
  have p1 := kidsOrdered_pairwise ks h2
  have p2 := keysUnique_pairwise .attribute ks h3
  have p3 := keysUnique_pairwise .namespace ks h4
  refine (p1.and (p2.and p3)).imp ?_
  intro a b ⟨q1, q2, q3⟩
  refine ⟨q1, ?_⟩
  intro e ne
  simp only [Value.sig] at e ne ⊢
  have ec : a.value.category = b.value.category := (rank_eq_iff _ _).mp e
  cases hc : a.value.category with
  | normal => simp [hc, Category.rank] at ne
  | «attribute» =>
    have hb : b.value.category = .attribute := by rw [← ec, hc]
    simp only [hc, hb, reduceCtorEq, if_false]
    exact q2 hc hb
  | «namespace» =>
    have hb : b.value.category = .namespace := by rw [← ec, hc]
    simp only [hc, hb, reduceCtorEq, if_false]
    exact q3 hc hb

theorem validTree_kids (b : Bool) (h : Nat) (v : Value) (ks : List HTree)
    (hv : validTree b (.node h v ks) = true) : validList b ks = true := by
  simp only [validTree, Bool.and_eq_true] at hv
  exact hv.2

theorem fc_validList_cons (b : Bool) (k : HTree) (ks : List HTree) (h : validList b (k :: ks) = true) :
    validTree b k = true ∧ validList b ks = true := by
  simpa [validList] using h

/-- Leaves are leaves. -/
theorem valid_leaf (b : Bool) (h : Nat) (v : Value) (ks : List HTree)
    (hv : validTree b (.node h v ks) = true) (hne : v.isElement = false) (hnd : v.isDocument = false) :
    ks = [] := by
  simp only [validTree, Bool.and_eq_true, List.all_eq_true] at hv
  obtain ⟨⟨⟨⟨⟨h1, _⟩, _⟩, _⟩, _⟩, _⟩ := hv
  cases ks with
  | nil => rfl
  | cons k ks =>
    have := h1 k (by simp)
    cases v <;> simp_all [kidAllowed, Value.isElement, Value.isDocument]

/-- Ordered entries split into namespaces then attributes. -/
theorem sorted_decomp : ∀ K : List HTree,
    K.Pairwise (fun a b => a.value.category.rank ≤ b.value.category.rank) →
    (∀ x ∈ K, x.value.category.rank ≤ 1) →
    ∃ Kn Ka, K = Kn ++ Ka ∧ (∀ k ∈ Kn, k.value.category = .namespace) ∧
      (∀ k ∈ Ka, k.value.category = .attribute)
  | [], _, _ => ⟨[], [], rfl, by simp, by simp⟩
  | x :: K, hp, hr => by
    rw [List.pairwise_cons] at hp
    obtain ⟨Kn, Ka, rfl, hn, ha⟩ := sorted_decomp K hp.2 (fun y hy => hr y (by simp [hy]))
    cases hx : x.value.category with
    | «namespace» =>
      refine ⟨x :: Kn, Ka, rfl, ?_, ha⟩
      intro k hk
      cases hk with
      | head => exact hx
      | tail _ hk' => exact hn k hk'
    | «attribute» =>
      refine ⟨[], x :: (Kn ++ Ka), rfl, by simp, ?_⟩
      intro k hk
      cases hk with
      | head => exact hx
      | tail _ hk' =>
        have h1 := hp.1 k hk'
        have h2 := hr k (List.mem_cons_of_mem _ hk')
        rw [hx] at h1
        cases hk : k.value.category <;> simp_all [Category.rank]
    | normal =>
      have := hr x (by simp)
      simp [hx, Category.rank] at this

/-- A pending child is admissible. -/
theorem Pending.admissible {vc : Value} {K : List HTree} {k : HTree} {ks : List HTree}
    (p : Pending vc K (k :: ks)) : Admissible vc K k.value := by
  obtain ⟨pw, al⟩ := p
  have hk := al k (by simp)
  rw [List.map_append, List.pairwise_append] at pw
  obtain ⟨pK, _, cross⟩ := pw
  have crossk : ∀ x ∈ K, sigRel x.value.sig k.value.sig := by
    intro x hx
    exact cross _ (List.mem_map.mpr ⟨x, hx, rfl⟩) _ (by simp)
  cases hv : k.value with
  | document => cases vc <;> simp_all [kidAllowed, Value.isDocument, Value.isNormal, Value.category]
  | element e => cases vc <;> simp_all [kidAllowed, Admissible, Value.isElement, Value.isDocument]
  | text s => cases vc <;> simp_all [kidAllowed, Admissible, Value.isElement, Value.isDocument]
  | pi t d => cases vc <;> simp_all [kidAllowed, Admissible, Value.isElement, Value.isDocument]
  | comment s => cases vc <;> simp_all [kidAllowed, Admissible, Value.isElement, Value.isDocument]
  | «namespace» p ns =>
    have hel : vc.isElement = true := by
      cases vc <;> simp_all [kidAllowed, Value.isElement, Value.isNormal, Value.category]
    have ksig : k.value.sig = (0, p) := by rw [hv]; rfl
    have cat0 : ∀ x ∈ K, x.value.category = .namespace := by
      intro x hx
      have := (crossk x hx).1
      rw [ksig] at this
      have h0 : x.value.category.rank = 0 := Nat.le_zero.mp this
      exact (rank_eq_iff _ .namespace).mp h0
    refine ⟨hel, cat0, ?_⟩
    intro x hx e
    have r := crossk x hx
    rw [ksig] at r
    have hs : x.value.sig = (0, Forest.entryKey x.value) := by
      simp [Value.sig, cat0 x hx, Category.rank]
    rw [hs] at r
    exact r.2 rfl (by simp) e
  | «attribute» a s =>
    have hel : vc.isElement = true := by
      cases vc <;> simp_all [kidAllowed, Value.isElement, Value.isNormal, Value.category]
    have ksig : k.value.sig = (1, a) := by rw [hv]; rfl
    have hr : ∀ x ∈ K, x.value.category.rank ≤ 1 := by
      intro x hx
      have := (crossk x hx).1
      rw [ksig] at this
      exact this
    have pK' : K.Pairwise (fun a b => a.value.category.rank ≤ b.value.category.rank) := by
      rw [List.pairwise_map] at pK
      exact pK.imp (fun r => r.1)
    obtain ⟨Kn, Ka, rfl, hn, ha⟩ := sorted_decomp K pK' hr
    refine ⟨hel, Kn, Ka, rfl, hn, ?_⟩
    intro x hx
    refine ⟨ha x hx, ?_⟩
    intro e
    have r := crossk x (by simp [hx])
    rw [ksig] at r
    have hs : x.value.sig = (1, Forest.entryKey x.value) := by
      simp [Value.sig, ha x hx, Category.rank]
    rw [hs] at r
    exact r.2 rfl (by simp) e

/-- After the step the rest is still pending. -/
theorem Pending.step {vc : Value} {K : List HTree} {k : HTree} {ks : List HTree} (cons : Bool) (n : Nat)
    (p : Pending vc K (k :: ks)) (kids : List HTree) :
    Pending vc (snocClone cons K (.node n k.value [])) ks ∧
    Pending vc (K ++ [.node n k.value kids]) ks := by
  obtain ⟨pw, al⟩ := p
  have al' : ∀ x ∈ ks, kidAllowed vc x.value = true := fun x hx => al x (by simp [hx])
  have e1 : ((K ++ [HTree.node n k.value kids]) ++ ks).map (fun t => t.value.sig) =
      (K ++ k :: ks).map (fun t => t.value.sig) := by
    simp [HTree.value]
  refine ⟨⟨?_, al'⟩, ⟨by rw [e1]; exact pw, al'⟩⟩
  -- snocClone: either the plain snoc or a text absorbed by a text
  have e2 : ((K ++ [HTree.node n k.value []]) ++ ks).map (fun t => t.value.sig) =
      (K ++ k :: ks).map (fun t => t.value.sig) := by
    simp [HTree.value]
  by_cases hm : ∃ s K' m ps mk, cons = true ∧ k.value = .text s ∧ K = K' ++ [.node m (.text ps) mk]
  · obtain ⟨s, K', m, ps, mk, rfl, hk, rfl⟩ := hm
    rw [hk, snocClone_merge]
    refine List.Pairwise.sublist ?_ pw
    simp only [List.map_append, List.map_cons, HTree.value, List.append_assoc,
      List.cons_append, List.nil_append]
    refine List.Sublist.append (List.Sublist.refl _) ?_
    have : (Value.text (ps ++ s)).sig = (Value.text ps).sig := rfl
    rw [this]
    exact List.Sublist.cons₂ _ (List.sublist_cons_self _ _)
  · have : snocClone cons K (.node n k.value []) = K ++ [.node n k.value []] := by
      cases cons with
      | false => exact snocClone_off _ _
      | true =>
        by_cases ht : k.value.isText = true
        · apply snocClone_nomerge
          intro K' x hK
          cases x with
          | node m vm mk =>
            cases vm <;> try rfl
            rename_i ps
            exfalso
            apply hm
            cases hkv : k.value <;> simp_all [Value.isText]
        · exact snocClone_nontext _ _ _ (by simpa [HTree.value] using ht)
    rw [this, e2]; exact pw

end XotModel
