/-
  What `render_output` writes for each kind of event of a node, as `runEvent` equations, and the
  runs of declaration and attribute events of one start tag as token renderings.
-/
import XotModel.Lemmas.SerTokensRun
import XotModel.Lemmas.FStack
import XotModel.Lemmas.Scope10

namespace XotModel
open Gen

variable (env : Env) (pr : TokenParams) (t : Tree)

/-! ### Rendering of token lists -/

theorem renderTokens_nil : renderTokens [] = [] := rfl

theorem renderTokens_cons (k : Token) (ts : List Token) :
    renderTokens (k :: ts) = renderToken k ++ renderTokens ts := by
  simp [renderTokens]

theorem renderTokens_append (a b : List Token) :
    renderTokens (a ++ b) = renderTokens a ++ renderTokens b := by
  simp [renderTokens]

theorem renderTokens_single (k : Token) : renderTokens [k] = renderToken k := by
  simp [renderTokens]

/-! ### Prefixes with a spelling -/

/-- Every prefix the top frame binds (other than the empty one) satisfies `P`, and so does `xml`. -/
def TopAll (P : Nat → Prop) (s : FStack) : Prop :=
  P Env.xmlPrefix ∧ ∀ d ∈ s.top, d.1 ≠ Env.emptyPrefix → P d.1

theorem TopAll.push {P : Nat → Prop} {s : FStack} (h : TopAll P s) {decls : List (Nat × Nat)}
    (hd : ∀ d ∈ decls, d.1 ≠ Env.emptyPrefix → P d.1) : TopAll P (s.push decls) := by
  refine ⟨h.1, ?_⟩
  unfold FStack.push
  split
  · exact h.2
  · intro d hd' hne
    simp only [FStack.top, List.headD_cons] at hd'
    obtain ⟨p, n⟩ := d
    rcases (mem_fullnameInfoNew decls s.top p n).mp hd' with h1 | h1
    · exact h.2 (p, n) h1.1 hne
    · exact hd (p, n) h1 hne

theorem elementPrefix_some {P : Nat → Prop} {s : FStack} (h : TopAll P s) {name p : Nat}
    (hp : s.elementPrefix env name = .ok (some p)) : P p := by
  unfold FStack.elementPrefix at hp
  simp only at hp
  split at hp
  · cases hp
  · split at hp
    · cases hp; exact h.1
    · split at hp
      · rename_i q hq
        split at hp
        · cases hp
        · rename_i hne
          cases hp
          exact h.2 _ (elementPrefixByNamespace_mem hq) (by simpa using hne)
      · cases hp

theorem attributePrefix_some {P : Nat → Prop} {s : FStack} (h : TopAll P s) {name p : Nat}
    (hp : s.attributePrefix env name = .ok (some p)) : P p := by
  unfold FStack.attributePrefix at hp
  simp only at hp
  split at hp
  · cases hp
  · split at hp
    · cases hp; exact h.1
    · split at hp
      · rename_i q hq
        cases hp
        obtain ⟨h1, h2⟩ := attributePrefixByNamespace_mem hq
        exact h.2 _ h1 h2
      · cases hp

theorem tokQName_ne (x loc : Str) (h : x ≠ []) : tokQName x loc = x ++ [':'] ++ loc := by
  cases x with
  | nil => exact absurd rfl h
  | cons c cs => simp [tokQName]

/-- The qualified name the serialiser writes is the token spelling of (prefix text, local name)
    once the chosen prefix has a non-empty spelling. -/
theorem qname_tokQName (p : Option Nat) (name : Nat)
    (h : ∀ q, p = some q → env.prefixStr q ≠ []) :
    qname env p name = tokQName (prefixText env p) (env.localName name) := by
  cases p with
  | none => simp [qname, tokQName, prefixText]
  | some q =>
    simp only [qname, prefixText, tokQName_ne _ _ (h q rfl)]

/-! ### Single events -/

theorem xmlEscapers_attr : xmlEscapers.attr = serializeAttribute := rfl
theorem xmlEscapers_txt : xmlEscapers.txt = serializeText := rfl

theorem runEvent_open (s : FStack) (path : Path) (n : Tree) (hat : t.at? path = some n) (name : Nat) :
    runEvent xmlEscapers env pr t s path (.startTagOpen name) =
      (if env.nsOfName name == Env.noNamespace && (s.push n.nsDecls).hasDefaultNamespace then
        .err (.missingPrefix Env.noNamespace)
       else match (s.push n.nsDecls).elementPrefix env name with
        | .ok p => .ok (s.push n.nsDecls, '<' :: qname env p name)
        | .error e => .err e) := by
  rw [runEvent_at _ _ _ _ _ _ _ _ hat]
  simp only [renderXmlWith, FStack.elementFullname]
  by_cases hc : (env.nsOfName name == Env.noNamespace && (s.push n.nsDecls).hasDefaultNamespace) = true
  · simp only [hc, if_true]
  · simp only [hc, if_false]
    cases (s.push n.nsDecls).elementPrefix env name with
    | ok p => simp [tokenBytes, fmt, fmtStartTagOpen]
    | error e => rfl

theorem runEvent_close (s : FStack) (path : Path) (n : Tree) (hat : t.at? path = some n) :
    runEvent xmlEscapers env pr t s path .startTagClose =
      .ok (s, if n.firstChild?.isNone then ['/', '>'] else ['>']) := by
  rw [runEvent_at _ _ _ _ _ _ _ _ hat]
  simp only [renderXmlWith]
  by_cases hc : n.firstChild?.isNone = true <;>
    simp [hc, tokenBytes, litEmptyTagClose, litTagClose]

theorem runEvent_end (s : FStack) (path : Path) (n : Tree) (hat : t.at? path = some n) (name : Nat) :
    runEvent xmlEscapers env pr t s path (.endTag name) =
      (if n.firstChild?.isSome then
        match s.elementPrefix env name with
        | .ok p => .ok (s.pop n.hasNsDecls, '<' :: '/' :: (qname env p name ++ ['>']))
        | .error e => .err e
       else .ok (s.pop n.hasNsDecls, [])) := by
  rw [runEvent_at _ _ _ _ _ _ _ _ hat]
  simp only [renderXmlWith, FStack.elementFullname]
  by_cases hc : n.firstChild?.isSome = true
  · simp only [hc, if_true]
    cases s.elementPrefix env name with
    | ok p => simp [tokenBytes, fmt, fmtEndTag]
    | error e => rfl
  · simp [hc, tokenBytes, litEmptyEndTag]

theorem runEvent_text (hcd : pr.cdataSectionElements = []) (s : FStack) (path : Path) (n : Tree)
    (hat : t.at? path = some n) (str : Str) :
    runEvent xmlEscapers env pr t s path (.text str) =
      .ok (s, renderTokens [.text (sp0 (serializeText pr.unescapedGt str))]) := by
  rw [runEvent_at _ _ _ _ _ _ _ _ hat]
  have hno : isCdataElement pr (t.parentAt? path) = false := by
    unfold isCdataElement
    cases t.parentAt? path with
    | none => rfl
    | some par => simp only; split <;> simp [hcd]
  simp [renderXmlWith, hno, tokenBytes, xmlEscapers_txt, renderTokens, renderToken, sp0]

theorem runEvent_comment (s : FStack) (path : Path) (n : Tree) (hat : t.at? path = some n) (str : Str) :
    runEvent xmlEscapers env pr t s path (.comment str) =
      .ok (s, renderTokens [.comment (sp0 str) noSpan]) := by
  rw [runEvent_at _ _ _ _ _ _ _ _ hat]
  simp [renderXmlWith, tokenBytes, renderTokens, renderToken, sp0, fmt, fmtComment]

theorem runEvent_pi (s : FStack) (path : Path) (n : Tree) (hat : t.at? path = some n) (target : Nat)
    (data : Option Str) :
    runEvent xmlEscapers env pr t s path (.pi target data) =
      (if !(env.namespaceStr (env.nsOfName target)).isEmpty then .err .namespaceInProcessingInstruction
       else .ok (s, renderTokens [.pi (sp0 (env.localName target)) (data.map sp0) noSpan])) := by
  rw [runEvent_at _ _ _ _ _ _ _ _ hat]
  simp only [renderXmlWith]
  by_cases hc : (!(env.namespaceStr (env.nsOfName target)).isEmpty) = true
  · simp only [hc, if_true]
  · cases data <;>
      simp [hc, tokenBytes, renderTokens, renderToken, sp0, fmt, fmtPi, fmtPiData]

/-! ### Declarations and attributes of one start tag -/

theorem runEvents_pfx (s : FStack) (path : Path) (n : Tree) (hat : t.at? path = some n)
    (ds : List (Nat × Nat)) :
    runEvents xmlEscapers env pr t s (ds.map (fun d => (path, Output.pfx d.1 d.2))) =
      .ok (s, renderTokens (ds.flatMap (declTokens env))) := by
  induction ds with
  | nil => rfl
  | cons d ds ih =>
    simp only [List.map_cons, runEvents_cons, List.flatMap_cons, renderTokens_append]
    rw [runEvent_at _ _ _ _ _ _ _ _ hat]
    simp only [renderXmlWith, declTokens]
    by_cases h1 : (d.2 == Env.xmlNamespace) = true
    · simp [h1, runThen, ih, tokenBytes, litXmlPrefix, renderTokens]
    · by_cases h2 : (d.1 == Env.emptyPrefix) = true
      · simp [h1, h2, runThen, ih, tokenBytes, tokenSpace, fmt, fmtXmlnsDefault, xmlEscapers_attr, renderTokens,
          renderToken, tokQName, sp0, xmlnsName]
      · simp [h1, h2, runThen, ih, tokenBytes, tokenSpace, fmt, fmtXmlnsPrefix, xmlEscapers_attr, renderTokens,
          renderToken, tokQName, sp0, xmlnsName]

theorem runEvents_attrs (s : FStack) (hs : TopAll (fun p => env.prefixStr p ≠ []) s) (path : Path)
    (n : Tree) (hat : t.at? path = some n) (as : List (Nat × Str)) :
    runEvents xmlEscapers env pr t s (as.map (fun a => (path, Output.attribute a.1 a.2))) =
      (match attrTokens env s as with
       | .ok ts => .ok (s, renderTokens ts)
       | .error e => .err e) := by
  induction as with
  | nil => rfl
  | cons a as ih =>
    obtain ⟨name, v⟩ := a
    simp only [List.map_cons, runEvents_cons, attrTokens]
    rw [runEvent_at _ _ _ _ _ _ _ _ hat]
    simp only [renderXmlWith, FStack.attributeFullname]
    cases hp : s.attributePrefix env name with
    | error e => simp [runThen]
    | ok p =>
      have hq := qname_tokQName env p name (fun q hq => attributePrefix_some env hs (hq ▸ hp))
      simp only [runThen, ih]
      cases attrTokens env s as with
      | error e => rfl
      | ok ts =>
        simp [tokenBytes, tokenSpace, fmt, fmtAttribute, xmlEscapers_attr, renderTokens_cons, renderToken,
          sp0, hq]

end XotModel
