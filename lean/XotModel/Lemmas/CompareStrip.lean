/-
  Lemmas for C13, part 8: removing comments and processing instructions.
  `Tree.stripCommentsPis` deletes every comment / PI node below the root (nothing is merged: two
  text nodes separated by a comment become two adjacent text nodes).  On trees whose discarded
  nodes are leaves the stripped tree is structurally valid, and the XPath-filtered comparison of
  two trees is the unfiltered comparison of the stripped trees.
-/
import XotModel.Lemmas.CompareRel
import XotModel.Lemmas.CompareText
import XotModel.Model.ValidDoc

namespace XotModel

-- `Value.isCommentOrPi` is the one of `Model/ValidDoc.lean`.

mutual
/-- Delete every comment and processing instruction below the root (with whatever hangs under
    it); every other node stays where it is.  Adjacent text nodes are NOT merged. -/
def Tree.stripCommentsPis : Tree → Tree
  | .node v ks => .node v (stripCommentsPisList ks)
def stripCommentsPisList : List Tree → List Tree
  | [] => []
  | k :: ks =>
    if k.value.isCommentOrPi then stripCommentsPisList ks
    else Tree.stripCommentsPis k :: stripCommentsPisList ks
end

/-- No document node below the root (a document node is only ever a root). -/
def Tree.noInnerDocument : Tree → Bool
  | .node _ ks => noDocList ks
where
  noDocList : List Tree → Bool
    | [] => true
    | k :: ks => !k.value.isDocument && Tree.noInnerDocument k && noDocList ks

/-! ### `stripCommentsPis` is `discard xpathKeep` when no document node sits below the root -/

theorem xpathKeep_iff_not_commentOrPi {v : Value} (h : v.isDocument = false) :
    (v.isNormal && !xpathKeep v) = v.isCommentOrPi := by
  cases v <;> simp_all [Value.isNormal, Value.category, xpathKeep, Value.isElement, Value.isText,
    Value.isCommentOrPi, Value.isDocument]

mutual
theorem strip_eq_discard : ∀ t : Tree, t.noInnerDocument = true → t.stripCommentsPis = discard xpathKeep t
  | .node v ks => by
    intro h
    simp only [Tree.noInnerDocument] at h
    simp only [Tree.stripCommentsPis, discard, stripList_eq_discardList ks h]
theorem stripList_eq_discardList : ∀ ks : List Tree, Tree.noInnerDocument.noDocList ks = true →
    stripCommentsPisList ks = discardList xpathKeep ks
  | [] => fun _ => rfl
  | k :: ks => by
    intro h
    simp only [Tree.noInnerDocument.noDocList, Bool.and_eq_true, Bool.not_eq_true'] at h
    obtain ⟨⟨hd, hk⟩, hks⟩ := h
    simp only [stripCommentsPisList, discardList, xpathKeep_iff_not_commentOrPi hd,
      strip_eq_discard k hk, stripList_eq_discardList ks hks]
end

/-! ### The tree with the dropped leaves discarded is structurally valid -/

theorem mem_discardList {g : Value → Bool} {ks : List Tree} {x : Tree} (h : x ∈ discardList g ks) :
    ∃ k ∈ ks, x = discard g k := by
  induction ks with
  | nil => simp [discardList] at h
  | cons k ks ih =>
    simp only [discardList] at h
    split at h
    · obtain ⟨k', hk', e⟩ := ih h
      exact ⟨k', List.mem_cons_of_mem _ hk', e⟩
    · rcases List.mem_cons.mp h with e | h'
      · exact ⟨k, List.mem_cons_self, e⟩
      · obtain ⟨k', hk', e⟩ := ih h'
        exact ⟨k', List.mem_cons_of_mem _ hk', e⟩

theorem all_discardList {g : Value → Bool} (q : Value → Bool) {ks : List Tree}
    (h : ks.all (fun k => q k.value) = true) : (discardList g ks).all (fun k => q k.value) = true := by
  rw [List.all_eq_true] at h ⊢
  intro x hx
  obtain ⟨k, hk, e⟩ := mem_discardList hx
  rw [e, discard_value]; exact h k hk

theorem all_dropWhile {α} (p q : α → Bool) {l : List α} (h : l.all q = true) : (l.dropWhile p).all q = true := by
  rw [List.all_eq_true] at h ⊢
  exact fun x hx => h x (List.dropWhile_subset _ hx)

/-- After the attribute nodes only normal nodes: preserved. -/
theorem ordered2_discardList (g : Value → Bool) (ks : List Tree)
    (h : (ks.dropWhile (fun k => k.value.category == .attribute)).all (fun k => k.value.isNormal) = true) :
    ((discardList g ks).dropWhile (fun k => k.value.category == .attribute)).all (fun k => k.value.isNormal) = true := by
  induction ks with
  | nil => simp [discardList]
  | cons k ks ih =>
    by_cases hc : k.value.category = .attribute
    · have hn : k.value.isNormal = false := by simp [Value.isNormal, hc]
      have hd : discardList g (k :: ks) = discard g k :: discardList g ks := by simp [discardList, hn]
      rw [hd, List.dropWhile_cons]
      rw [List.dropWhile_cons] at h
      simp only [discard_value, hc, beq_self_eq_true, ↓reduceIte] at h ⊢
      exact ih h
    · have hb : (k.value.category == Category.attribute) = false := by simpa using hc
      rw [List.dropWhile_cons] at h
      simp only [hb, Bool.false_eq_true, ↓reduceIte] at h
      exact all_dropWhile _ _ (all_discardList (g := g) Value.isNormal h)

theorem orderedKids_discardList (g : Value → Bool) (ks : List Tree) (h : orderedKids ks = true) :
    orderedKids (discardList g ks) = true := by
  unfold orderedKids at h ⊢
  induction ks with
  | nil => simp [discardList]
  | cons k ks ih =>
    by_cases hc : k.value.category = .namespace
    · have hn : k.value.isNormal = false := by simp [Value.isNormal, hc]
      have hd : discardList g (k :: ks) = discard g k :: discardList g ks := by simp [discardList, hn]
      rw [hd, List.dropWhile_cons]
      rw [List.dropWhile_cons] at h
      simp only [discard_value, hc, beq_self_eq_true, ↓reduceIte] at h ⊢
      exact ih h
    · have hb : (k.value.category == Category.namespace) = false := by simpa using hc
      rw [List.dropWhile_cons] at h
      simp only [hb, Bool.false_eq_true, ↓reduceIte] at h
      have h2 := ordered2_discardList g (k :: ks) h
      -- dropping leading namespace nodes of a list that already satisfies the rest
      generalize discardList g (k :: ks) = l at h2
      clear h ih hb hc
      induction l with
      | nil => simp
      | cons x xs ihx =>
        rw [List.dropWhile_cons]
        split
        · rename_i hx
          have hx' : x.value.category = .namespace := by simpa using hx
          have : (x.value.category == Category.attribute) = false := by simp [hx']
          rw [List.dropWhile_cons] at h2
          simp only [this, Bool.false_eq_true, ↓reduceIte, List.all_cons, Bool.and_eq_true] at h2
          have hxn : x.value.isNormal = false := by simp [Value.isNormal, hx']
          rw [hxn] at h2; exact absurd h2.1 (by simp)
        · exact h2

theorem valid_discard_of_validFor (g : Value → Bool) (t : Tree) :
    t.validFor g = true → (discard g t).valid = true := by
  induction t using Tree.induct_mem with
  | h v ks ih =>
    intro hv
    obtain ⟨ho, hn, hl, hk⟩ := validFor_node hv
    simp only [discard, Tree.valid, Bool.and_eq_true, Bool.or_eq_true, List.isEmpty_iff, validList_iff]
    refine ⟨⟨⟨orderedKids_discardList g ks ho, ?_⟩, ?_⟩, ?_⟩
    · simpa [attrNamesNodup, attrPairs_discardList] using hn
    · rcases hl with hl | hl
      · simp only [keptBy, Tree.value, Bool.and_eq_true] at hl; exact Or.inl hl.1
      · subst hl; exact Or.inr rfl
    · intro x hx
      obtain ⟨k, hk', e⟩ := mem_discardList hx
      rw [e]; exact ih k hk' (hk k hk')

/-- Root version: the root itself is kept whatever its value, provided it is a normal node. -/
theorem valid_discard_of_validRootFor (g : Value → Bool) (t : Tree) (hn : t.value.isNormal = true)
    (hv : t.validRootFor g = true) : (discard g t).valid = true := by
  obtain ⟨v, ks⟩ := t
  simp only [Tree.validRootFor, Tree.kids, Bool.and_eq_true, List.all_eq_true] at hv
  simp only [Tree.value] at hn
  simp only [discard, Tree.valid, Bool.and_eq_true, Bool.or_eq_true, List.isEmpty_iff, validList_iff]
  refine ⟨⟨⟨orderedKids_discardList g ks hv.1.1, ?_⟩, Or.inl hn⟩, ?_⟩
  · simpa [attrNamesNodup, attrPairs_discardList] using hv.1.2
  · intro x hx
    obtain ⟨k, hk', e⟩ := mem_discardList hx
    rw [e]; exact valid_discard_of_validFor g k (hv.2 k hk')

/-- `deep_equal_xpath` on two elements / two documents whose comments and PIs are leaves: the
    plain (unfiltered) comparison, with the same text comparison, of the discarded trees. -/
theorem xpath_eq_advanced_discard (cmp : TextCmp) (a b : Tree) (va : a.validRootFor xpathKeep = true)
    (vb : b.validRootFor xpathKeep = true)
    (h : (a.value.isElement = true ∧ b.value.isElement = true) ∨ (a.value = .document ∧ b.value = .document)) :
    advancedDeepEqual xpathFilter cmp a b =
      advancedDeepEqual (fun _ => true) cmp (discard xpathKeep a) (discard xpathKeep b) := by
  have na : a.value.isNormal = true := by
    rcases h with ⟨ea, _⟩ | ⟨da, _⟩
    · cases a with | node v ks => cases v <;> simp_all [Tree.value, Value.isElement, Value.isNormal, Value.category]
    · simp [da, Value.isNormal, Value.category]
  have nb : b.value.isNormal = true := by
    rcases h with ⟨_, eb⟩ | ⟨_, db⟩
    · cases b with | node v ks => cases v <;> simp_all [Tree.value, Value.isElement, Value.isNormal, Value.category]
    · simp [db, Value.isNormal, Value.category]
  rw [advancedDeepEqual_all_rel cmp _ _ (valid_discard_of_validRootFor _ a na va)
    (valid_discard_of_validRootFor _ b nb vb)]
  rcases h with ⟨ea, eb⟩ | ⟨da, db⟩
  · exact xpath_elements_rel cmp a b va vb ea eb
  · exact xpath_documents_rel cmp a b va vb da db

/-! ### Stripping any structurally valid tree gives a structurally valid tree -/

mutual
theorem strip_eq_discard_all : ∀ t : Tree, t.stripCommentsPis = discard (fun v => !v.isCommentOrPi) t
  | .node v ks => by simp only [Tree.stripCommentsPis, discard, stripList_eq_discardList_all ks]
theorem stripList_eq_discardList_all : ∀ ks : List Tree,
    stripCommentsPisList ks = discardList (fun v => !v.isCommentOrPi) ks
  | [] => rfl
  | k :: ks => by
    have hc : (k.value.isNormal && !(!k.value.isCommentOrPi)) = k.value.isCommentOrPi := by
      cases h : k.value <;> simp [Value.isNormal, Value.category, Value.isCommentOrPi]
    simp only [stripCommentsPisList, discardList, hc, strip_eq_discard_all k, stripList_eq_discardList_all ks]
end

theorem valid_discard_of_valid (g : Value → Bool) (t : Tree) : t.valid = true → (discard g t).valid = true := by
  induction t using Tree.induct_mem with
  | h v ks ih =>
    intro hv
    obtain ⟨ho, hn, hl, hk⟩ := valid_node hv
    simp only [discard, Tree.valid, Bool.and_eq_true, Bool.or_eq_true, List.isEmpty_iff, validList_iff]
    refine ⟨⟨⟨orderedKids_discardList g ks ho, ?_⟩, ?_⟩, ?_⟩
    · simpa [attrNamesNodup, attrPairs_discardList] using hn
    · rcases hl with hl | hl
      · exact Or.inl hl
      · subst hl; exact Or.inr rfl
    · intro x hx
      obtain ⟨k, hk', e⟩ := mem_discardList hx
      rw [e]; exact ih k hk' (hk k hk')

theorem valid_stripCommentsPis (t : Tree) (hv : t.valid = true) : t.stripCommentsPis.valid = true := by
  rw [strip_eq_discard_all]; exact valid_discard_of_valid _ t hv

/-! ### The hypothesis of the XPath theorems from the usual ones -/

theorem noDocList_iff (ks : List Tree) : Tree.noInnerDocument.noDocList ks = true ↔
    ∀ k ∈ ks, k.value.isDocument = false ∧ k.noInnerDocument = true := by
  induction ks with
  | nil => simp [Tree.noInnerDocument.noDocList]
  | cons k ks ih => simp [Tree.noInnerDocument.noDocList, ih, and_assoc]

theorem validFor_xpathKeep_of_valid (t : Tree) : t.valid = true → t.contentLeaves = true →
    t.noInnerDocument = true → t.value.isDocument = false → t.validFor xpathKeep = true := by
  induction t using Tree.induct_mem with
  | h v ks ih =>
    intro hv hl hd hnd
    obtain ⟨ho, hn, hleaf, hk⟩ := valid_node hv
    obtain ⟨hcl, hlk⟩ := contentLeaves_node hl
    simp only [Tree.noInnerDocument, noDocList_iff] at hd
    simp only [Tree.value] at hnd
    simp only [Tree.validFor, Bool.and_eq_true, Bool.or_eq_true, List.isEmpty_iff, validForList_iff]
    refine ⟨⟨⟨ho, hn⟩, ?_⟩, fun k hk' => ih k hk' (hk k hk') (hlk k hk') (hd k hk').2 (hd k hk').1⟩
    cases v
    case document => simp [Value.isDocument] at hnd
    case element n => exact Or.inl (by simp [Value.isNormal, Value.category, xpathKeep, Value.isElement])
    case text s => exact Or.inl (by simp [Value.isNormal, Value.category, xpathKeep, Value.isElement, Value.isText])
    case comment s => exact Or.inr (hcl (Or.inr (Or.inl ⟨s, rfl⟩)))
    case pi t d => exact Or.inr (hcl (Or.inr (Or.inr ⟨t, d, rfl⟩)))
    case «attribute» n s => exact Or.inr (hleaf.resolve_left (by simp [Value.isNormal, Value.category]))
    case «namespace» p n => exact Or.inr (hleaf.resolve_left (by simp [Value.isNormal, Value.category]))

/-- Structurally valid, text / comment / PI nodes are leaves, no document node below the root:
    the hypothesis `validRootFor xpathKeep` of the XPath theorems. -/
theorem validRootFor_xpathKeep_of_valid (t : Tree) (hv : t.valid = true) (hl : t.contentLeaves = true)
    (hd : t.noInnerDocument = true) : t.validRootFor xpathKeep = true := by
  obtain ⟨v, ks⟩ := t
  obtain ⟨ho, hn, _, hk⟩ := valid_node hv
  obtain ⟨_, hlk⟩ := contentLeaves_node hl
  simp only [Tree.noInnerDocument, noDocList_iff] at hd
  simp only [Tree.validRootFor, Tree.kids, Bool.and_eq_true, List.all_eq_true]
  exact ⟨⟨ho, hn⟩, fun k hk' => validFor_xpathKeep_of_valid k (hk k hk') (hlk k hk') (hd k hk').2 (hd k hk').1⟩

end XotModel
