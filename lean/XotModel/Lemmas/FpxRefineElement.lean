/-
  FpxRefine, part 6: `create_missing_prefixes_for_element` — the forest model (`Forest.repairElementF`,
  Model/FatomSpec2.lean) refines the tree model (`repairElement`, Model/Repair.lean).

  Both models take the same decisions from the same erased tree (`repairPlan`: the interning table
  after the `add_prefix` calls, the new declarations, the `undeclare` paths); the forest model then runs
  the plan's insertions through handles, the tree model rebuilds the subtree with `applyRepair`.
-/
import XotModel.Lemmas.FpxRefinePath

namespace XotModel
open HTree Repair

/-- What `create_missing_prefixes_for_element` decides before it touches the store. -/
def repairPlan (env : Env) (t : Tree) (path : Path) : Option (Env × List (Nat × Nat) × List Path) :=
  match t.at? path with
  | none => none
  | some sub =>
    let st := repairWalk env (inheritedDecls t path) path sub
    if st.panicked then none
    else
      match assignPrefixes env (st.used ++ ((namespacesInScope t path).getD []).map (·.1)) 0 st.missing with
      | none => none
      | some (env', newDecls) => some (env', newDecls, st.undeclare)

/-- The tree model carries out the plan with `applyRepair`. -/
theorem repairElement_plan (env : Env) (t : Tree) (path : Path) :
    repairElement env t path =
      match repairPlan env t path with
      | none => .panic
      | some (env', newDecls, U) => .ok (env', scopeModifyAt (applyRepair newDecls U path path) t path) := by
  unfold repairElement repairPlan
  cases t.at? path with
  | none => rfl
  | some sub =>
    simp only
    split
    · rfl
    · cases assignPrefixes env _ 0 _ with
      | none => rfl
      | some res => rfl

/-- The forest model carries out the plan with handle-addressed insertions. -/
theorem Forest.repairCalls_plan (env : Env) {f : Forest} {nd : Nat} {r : HTree} (hr : f.rootOf? nd = some r)
    {path : Path} (hp : r.pathOf nd = some path) :
    f.repairCalls env nd =
      (repairPlan env r.erase path).map (fun pl => (pl.1, (planCalls r nd pl.2.1 pl.2.2).map Forest.nsCallOf)) := by
  unfold Forest.repairCalls repairPlan
  rw [hr]
  simp only [hp]
  cases r.erase.at? path with
  | none => rfl
  | some sub =>
    simp only
    split
    · rfl
    · cases assignPrefixes env _ 0 _ with
      | none => rfl
      | some res =>
        obtain ⟨env', newDecls⟩ := res
        simp only [Option.map_some, planCalls, List.map_append, List.map_map, List.map_filterMap,
          Option.some.injEq, Prod.mk.injEq, true_and]
        congr 2
        funext up
        cases r.handleAt up <;> rfl

theorem repairPlan_undeclare {env : Env} {t : Tree} {path : Path} {env' : Env} {newDecls : List (Nat × Nat)}
    {U : List Path} (h : repairPlan env t path = some (env', newDecls, U)) :
    ∃ sub, t.at? path = some sub ∧ U = undOf env.nsOfName (inheritedDecls t path) path sub := by
  unfold repairPlan at h
  cases hs : t.at? path with
  | none => rw [hs] at h; cases h
  | some sub =>
    rw [hs] at h
    simp only at h
    split at h
    · cases h
    · cases ha : assignPrefixes env _ 0 _ with
      | none => rw [ha] at h; cases h
      | some res =>
        rw [ha] at h
        simp only [Option.some.injEq, Prod.mk.injEq] at h
        refine ⟨sub, rfl, ?_⟩
        rw [← h.2.2, repairWalk_eq]
        rfl

namespace HTree

theorem at?_append' : ∀ (p q : Path) (r : HTree), r.at? (p ++ q) = (r.at? p).bind (fun s => s.at? q)
  | [], _, _ => rfl
  | i :: p, q, .node h v ks => by
    simp only [List.cons_append, HTree.at?]
    cases ks[i]? with
    | none => rfl
    | some k => exact at?_append' p q k

theorem handles_filter_self {b : Nat} {l : List Nat} (h : ∀ x ∈ l, x < b) : l.filter (· < b) = l :=
  List.filter_eq_self.mpr (fun x hx => by simpa using h x hx)

end HTree

namespace Forest

/-- **`create_missing_prefixes_for_element`, forest model against tree model.**  `nd` an element of a
    forest with the invariant, `r` its root tree, `path` its path there, `S` its subtree.  The call
    answers `Ok`, keeps the invariant, and replaces the subtree `S` by a subtree `S'` with the same top
    handle; the tree model on `(r.erase, path)` answers `Ok` with the SAME interning tables and with the
    erasure of the new root tree; the handles of `S'` below the old `next` are exactly the handles of
    `S`, in the same document order. -/
theorem fpxr_repairElementF {f : Forest} (hi : f.Inv) (env : Env) {nd : Nat} (he : f.isElement nd = true)
    {r : HTree} (hr : f.rootOf? nd = some r) {path : Path} (hp : r.pathOf nd = some path) :
    ∃ S S', f.get? nd = some S ∧ r.at? path = some S ∧ S'.handle = nd ∧
      (f.repairElementF env nd).2.2 = .ok ∧ (f.repairElementF env nd).1.Inv ∧
      (∀ x, (f.repairElementF env nd).1.isElement x = f.isElement x) ∧
      f.next ≤ (f.repairElementF env nd).1.next ∧
      (f.repairElementF env nd).1.roots = mapAtList nd (fun _ => S') f.roots ∧
      (f.repairElementF env nd).1.get? nd = some S' ∧
      (handles S').filter (· < f.next) = handles S ∧
      repairElement env r.erase path =
        .ok ((f.repairElementF env nd).2.1, (mapAt nd (fun _ => S') r).erase) := by
  obtain ⟨hrm, hnr⟩ := fpxr_rootOf_mem hr
  have hndr : (handles r).Nodup := ftrav_nodup_mem _ r hi.nodup hrm
  obtain ⟨S, hS, hSh⟩ := ftrav_pathOf_at? nd r path hp
  have hg : f.get? nd = some S := by
    have := fpx_get?_of_at? hi.nodup hrm hS
    rwa [hSh] at this
  have hSe : S.value.isElement = true := by
    obtain ⟨t, ht, hte⟩ := fpxr_get_of_isElement he
    rw [hg] at ht; cases ht; exact hte
  have hSerase : r.erase.at? path = some S.erase := by rw [ftrav_at?_erase, hS]; rfl
  -- the plan exists
  obtain ⟨env', cs, hcalls, hedit⟩ := fpx_repairCalls hi env he
  rw [repairCalls_plan env hr hp] at hcalls
  cases hpl : repairPlan env r.erase path with
  | none => rw [hpl] at hcalls; cases hcalls
  | some pl =>
    obtain ⟨env1, newDecls, U⟩ := pl
    rw [hpl] at hcalls
    simp only [Option.map_some, Option.some.injEq, Prod.mk.injEq] at hcalls
    obtain ⟨rfl, rfl⟩ := hcalls
    obtain ⟨sub, hsub, hU⟩ := repairPlan_undeclare hpl
    rw [hSerase] at hsub
    cases hsub
    -- every recorded node is an element of the subtree
    have hUel : ∀ up ∈ U, ∃ q' s, up = path ++ q' ∧ S.at? q' = some s ∧ r.at? up = some s ∧
        s.value.isElement = true := by
      intro up hup
      rw [hU] at hup
      obtain ⟨q', rfl, name, ks, hel⟩ := fpx_undOf_elem _ _ _ _ _ hup
      rw [ftrav_at?_erase] at hel
      cases hs : S.at? q' with
      | none => rw [hs] at hel; cases hel
      | some s =>
        rw [hs] at hel
        simp only [Option.map_some, Option.some.injEq] at hel
        refine ⟨q', s, rfl, hs, by rw [at?_append', hS]; exact hs, ?_⟩
        cases s with
        | node sh sv sk =>
          simp only [erase, Tree.node.injEq] at hel
          simp only [HTree.value, hel.1, Value.isElement]
    have ok : PlanOK r nd path U :=
      ⟨hndr, ⟨S, hS, hSh, hSe⟩, fun up hup => by
        obtain ⟨_, s, _, _, h3, h4⟩ := hUel up hup
        exact ⟨s, h3, h4⟩, by rw [hU]; exact undOf_nodup _ _ _ _⟩
    -- the targets are elements inside `S`
    have htargets : ∀ c ∈ planCalls r nd newDecls U, f.isElement c.1 = true ∧ c.1 ∈ handles S := by
      intro c hc
      refine ⟨hedit (nsCallOf c) (List.mem_map.mpr ⟨c, hc, rfl⟩), ?_⟩
      unfold planCalls at hc
      rcases List.mem_append.mp hc with hc | hc
      · obtain ⟨d, _, rfl⟩ := List.mem_map.mp hc
        show nd ∈ handles S
        rw [← hSh]; exact ftrav_handle_mem S
      · obtain ⟨up, hup, h2⟩ := List.mem_filterMap.mp hc
        obtain ⟨q', s, _, hs, h3, _⟩ := hUel up hup
        rw [ftrav_handleAt_eq, h3] at h2
        simp only [Option.map_some, Option.some.injEq] at h2
        subst h2
        exact ftrav_handles_at? q' S s hs _ (ftrav_handle_mem s)
    obtain ⟨S', h1, h2, h3, h4, h5⟩ := fpxr_runCalls_graft _ hi hg htargets f.next (Nat.le_refl _)
    have hok := fpx_runCalls_ok ((planCalls r nd newDecls U).map nsCallOf) hi hedit
    have hnext := fpxr_runCalls_next (planCalls r nd newDecls U) hi (fun c hc => (htargets c hc).1)
    have hrun : f.repairElementF env nd =
        ((f.runCalls ((planCalls r nd newDecls U).map nsCallOf)).1, env1,
          (f.runCalls ((planCalls r nd newDecls U).map nsCallOf)).2) := by
      unfold repairElementF
      rw [repairCalls_plan env hr hp, hpl]
      rfl
    rw [hrun]
    refine ⟨S, S', hg, hS, h1, hok.1, hok.2.1, hok.2.2, hnext, h2, h3, ?_, ?_⟩
    · rw [h4]
      exact handles_filter_self (fun x hx => hi.below x ((findList?_sublist nd f.roots S hg).subset hx))
    · rw [repairElement_plan, hpl]
      simp only
      rw [erase_graft nd S' r path hndr hp, scopeModifyAt_const _ path r.erase S.erase hSerase]
      have : erase S' = applyRepair newDecls U path path S.erase := by
        rw [← eraseWith_nil S', h5 [], List.append_nil]
        exact eraseWith_plan ok newDecls S path hS
      rw [this]

end Forest
end XotModel
