/-
  Lemmas for C11 histories, part 6: what `KNStep` says about nodes and positions, and the
  remaining reads (`iter`, `to_vec`, `to_hashmap`) against the reference map.
-/
import XotModel.Lemmas.FmapHistAll

namespace XotModel
namespace Fmap
open HTree
open Forest (MapKind entryKey mapChildren MapEntry)

theorem absKN_fst (k : MapKind) (f : Forest) (x : Nat) :
    (absKN k f x).map (·.1) = omKeys (abs k f x) := by
  rw [absKN_of_absHV, abs_of_absHV]
  unfold omKeys
  rw [List.map_map, List.map_map]
  rfl

theorem absKN_snd (k : MapKind) (f : Forest) (x : Nat) :
    (absKN k f x).map (·.2) = absNodes k f x := by
  rw [absKN_of_absHV, absNodes_of_absHV, List.map_map]
  rfl

/-- A step that keeps the key list keeps every node in its place. -/
theorem knstep_same_keys {old new : List (Nat × Nat)} (h : KNStep old new)
    (hk : new.map (·.1) = old.map (·.1)) : new = old := by
  have hl : new.length = old.length := by
    have := congrArg List.length hk
    simpa using this
  rcases h with h | ⟨p, h⟩
  · exact h.eq_of_length hl
  · rw [h] at hl
    simp at hl

theorem pair_unique {l : List (Nat × Nat)} (hnd : (l.map (·.1)).Nodup) {a b b' : Nat}
    (h1 : (a, b) ∈ l) (h2 : (a, b') ∈ l) : b = b' := by
  induction l with
  | nil => cases h1
  | cons x l ih =>
    simp only [List.map_cons, List.nodup_cons] at hnd
    rcases List.mem_cons.mp h1 with h1 | h1 <;> rcases List.mem_cons.mp h2 with h2 | h2
    · rw [← h1] at h2; cases h2; rfl
    · exfalso; apply hnd.1; rw [← h1]; exact List.mem_map.mpr ⟨_, h2, rfl⟩
    · exfalso; apply hnd.1; rw [← h2]; exact List.mem_map.mpr ⟨_, h1, rfl⟩
    · exact ih hnd.2 h1 h2

/-- An entry whose key is still there after the step is carried by the same node. -/
theorem knstep_keeps_node {old new : List (Nat × Nat)} (h : KNStep old new)
    (ho : (old.map (·.1)).Nodup) (key hd : Nat) (hm : (key, hd) ∈ old)
    (hk : key ∈ new.map (·.1)) : (key, hd) ∈ new := by
  rcases h with h | ⟨p, h⟩
  · obtain ⟨q, hq, hqk⟩ := List.mem_map.mp hk
    obtain ⟨qk, qh⟩ := q
    simp only at hqk
    subst hqk
    have := pair_unique ho (h.subset hq) hm
    rw [← this]; exact hq
  · rw [h]; exact List.mem_append_left _ hm

/-! ### `iter`, `to_vec`, `to_hashmap` -/

theorem mapIter_eq (f : Forest) (k : MapKind) (e : Nat) : mapIter f k e = abs k f e := by
  unfold mapIter Fmap.abs absT
  cases f.get? e <;> rfl

theorem mapIter_zip (f : Forest) (k : MapKind) (e : Nat) :
    mapIter f k e = (omKeys (abs k f e)).zip (omValues (abs k f e)) := by
  rw [mapIter_eq]
  unfold omKeys omValues
  induction abs k f e with
  | nil => rfl
  | cons a m ih => simp only [List.map_cons, List.zip_cons_cons]; rw [← ih]

theorem mapToHashmap_eq (f : Forest) (k : MapKind) (e : Nat) :
    mapToHashmap f k e = omToHashmap (abs k f e) := by
  unfold mapToHashmap omToHashmap
  rw [mapIter_eq]

/-- Keys strictly increasing. -/
def SortedKeys (m : List (Nat × Payload)) : Prop := m.Pairwise (fun a b => a.1 < b.1)

theorem smInsert_keys (m : List (Nat × Payload)) (k : Nat) (v : Payload) (x : Nat × Payload)
    (hx : x ∈ smInsert m k v) : x = (k, v) ∨ x ∈ m := by
  induction m with
  | nil => simp only [smInsert, List.mem_singleton] at hx; exact Or.inl hx
  | cons a m ih =>
    obtain ⟨k', v'⟩ := a
    simp only [smInsert] at hx
    split at hx
    · rcases List.mem_cons.mp hx with hx | hx
      · exact Or.inl hx
      · exact Or.inr hx
    · split at hx
      · rcases List.mem_cons.mp hx with hx | hx
        · exact Or.inl hx
        · exact Or.inr (List.mem_cons_of_mem _ hx)
      · rcases List.mem_cons.mp hx with hx | hx
        · exact Or.inr (hx ▸ List.mem_cons_self)
        · rcases ih hx with h | h
          · exact Or.inl h
          · exact Or.inr (List.mem_cons_of_mem _ h)

theorem smInsert_sorted (m : List (Nat × Payload)) (k : Nat) (v : Payload) (hs : SortedKeys m) :
    SortedKeys (smInsert m k v) := by
  induction m with
  | nil => simp [smInsert, SortedKeys]
  | cons a m ih =>
    obtain ⟨k', v'⟩ := a
    unfold SortedKeys at hs ih ⊢
    have hs' := List.pairwise_cons.mp hs
    simp only [smInsert]
    split
    · rename_i hlt
      apply List.pairwise_cons.mpr
      refine ⟨?_, hs⟩
      intro b hb
      rcases List.mem_cons.mp hb with hb | hb
      · rw [hb]; exact hlt
      · exact Nat.lt_trans hlt (hs'.1 b hb)
    · split
      · rename_i _ heq
        subst heq
        exact List.pairwise_cons.mpr ⟨hs'.1, hs'.2⟩
      · rename_i hnlt hne
        apply List.pairwise_cons.mpr
        refine ⟨?_, ih hs'.2⟩
        intro b hb
        rcases smInsert_keys m k v b hb with h | h
        · rw [h]; simp only; omega
        · exact hs'.1 b h

theorem smInsert_lookup_self (m : List (Nat × Payload)) (k : Nat) (v : Payload) :
    (smInsert m k v).lookup k = some v := by
  induction m with
  | nil => simp [smInsert]
  | cons a m ih =>
    obtain ⟨k', v'⟩ := a
    simp only [smInsert]
    split
    · simp [List.lookup]
    · split
      · simp [List.lookup]
      · rename_i _ hne
        have : (k == k') = false := by simpa using hne
        simp only [List.lookup, this]
        exact ih

theorem smInsert_lookup_other (m : List (Nat × Payload)) (k : Nat) (v : Payload) (key : Nat)
    (hne : key ≠ k) : (smInsert m k v).lookup key = m.lookup key := by
  have hb : (key == k) = false := by simpa using hne
  induction m with
  | nil => simp [smInsert, List.lookup, hb]
  | cons a m ih =>
    obtain ⟨k', v'⟩ := a
    simp only [smInsert]
    split
    · simp only [List.lookup, hb]
    · split
      · rename_i _ heq
        subst heq
        simp only [List.lookup, hb]
      · simp only [List.lookup]
        cases key == k'
        · exact ih
        · rfl

theorem smInsert_length (m : List (Nat × Payload)) (k : Nat) (v : Payload)
    (hk : m.lookup k = none) : (smInsert m k v).length = m.length + 1 := by
  induction m with
  | nil => rfl
  | cons a m ih =>
    obtain ⟨k', v'⟩ := a
    simp only [smInsert]
    have hne : k ≠ k' := by
      intro h
      subst h
      simp [List.lookup] at hk
    have hb : (k == k') = false := by simpa using hne
    simp only [List.lookup, hb] at hk
    split
    · rfl
    · simp only [List.length_cons]
      rw [ih hk]

/-- The fold of `to_hashmap` over a map with distinct keys, from a sorted accumulator with
    other keys: sorted, every lookup is the map's or the accumulator's, nothing is lost. -/
theorem hashmap_fold : ∀ (m : OMap Payload) (acc : List (Nat × Payload)), omWf m → SortedKeys acc →
    (∀ key, key ∈ omKeys m → acc.lookup key = none) →
    let r := m.foldl (fun a p => smInsert a p.1 p.2) acc
    SortedKeys r ∧ (∀ key, r.lookup key = (omGet m key).or (acc.lookup key)) ∧
      r.length = acc.length + m.length
  | [], acc => by
    intro _ hs _
    exact ⟨hs, fun key => by simp [omGet, List.lookup], rfl⟩
  | (k, v) :: m, acc => by
    intro hw hs hd
    unfold omWf omKeys at hw
    simp only [List.map_cons, List.nodup_cons] at hw
    have hkm : omGet m k = none := (omGet_none_iff m k).mpr hw.1
    have hacc : acc.lookup k = none := hd k (by simp [omKeys])
    have hd' : ∀ key, key ∈ omKeys m → (smInsert acc k v).lookup key = none := by
      intro key hkey
      have hne : key ≠ k := fun h => hw.1 (h ▸ hkey)
      rw [smInsert_lookup_other acc k v key hne]
      exact hd key (by simp only [omKeys, List.map_cons, List.mem_cons]; exact Or.inr hkey)
    obtain ⟨h1, h2, h3⟩ := hashmap_fold m (smInsert acc k v) hw.2 (smInsert_sorted acc k v hs) hd'
    refine ⟨h1, ?_, ?_⟩
    · intro key
      simp only [List.foldl_cons]
      rw [h2 key]
      by_cases hk : key = k
      · subst hk
        rw [hkm, smInsert_lookup_self]
        simp [omGet, List.lookup]
      · have hb : (key == k) = false := by simpa using hk
        rw [smInsert_lookup_other acc k v key hk]
        simp only [omGet, List.lookup, hb]
    · simp only [List.foldl_cons, List.length_cons]
      rw [h3, smInsert_length acc k v hacc]
      omega

/-- `to_hashmap` of a map with distinct keys IS that finite map: key-sorted, same lookups,
    same size. -/
theorem omToHashmap_spec (m : OMap Payload) (hw : omWf m) :
    SortedKeys (omToHashmap m) ∧ (∀ key, (omToHashmap m).lookup key = omGet m key) ∧
    (omToHashmap m).length = omLen m := by
  obtain ⟨h1, h2, h3⟩ := hashmap_fold m [] hw List.Pairwise.nil (fun _ _ => rfl)
  refine ⟨h1, ?_, ?_⟩
  · intro key
    have := h2 key
    simp only [List.lookup, Option.or_none] at this
    exact this
  · simpa [omLen, omToHashmap] using h3


/-! ### Positions over a step and over a history -/

theorem positions_stable (f : Forest) (hi : f.Inv) (op : MapOp2) (hok : op.ok f = true)
    (x : Nat) (k : MapKind) :
    KNStep (absKN k f x) (absKN k (op.run f).1 x) ∧
    (omKeys (abs k (op.run f).1 x) = omKeys (abs k f x) →
      absNodes k (op.run f).1 x = absNodes k f x) ∧
    (∀ key hd, (key, hd) ∈ absKN k f x → key ∈ omKeys (abs k (op.run f).1 x) →
      (key, hd) ∈ absKN k (op.run f).1 x) ∧
    (∀ p q, p ∈ absKN k f x → q ∈ absKN k f x → p ∈ absKN k (op.run f).1 x →
      q ∈ absKN k (op.run f).1 x →
      ([p, q].Sublist (absKN k f x) ↔ [p, q].Sublist (absKN k (op.run f).1 x))) := by
  obtain ⟨_, s⟩ := step_all hi (F := famOf f) (fun _ _ => rfl) op hok
  have hkn := s.kn x k
  refine ⟨hkn, ?_, ?_, ?_⟩
  · intro hk
    rw [← absKN_fst, ← absKN_fst] at hk
    rw [← absKN_snd, ← absKN_snd, knstep_same_keys hkn hk]
  · intro key hd hm hk
    rw [← absKN_fst] at hk
    have ho : ((absKN k f x).map (·.1)).Nodup := by
      rw [absKN_fst]; exact unique_keys_of_inv f hi k x
    exact knstep_keeps_node hkn ho key hd hm hk
  · intro p q h1 h2 h3 h4
    exact knstep_pair_iff hkn (absKN_nodup hi k x) (absKN_nodup s.inv k x) p q h1 h2 h3 h4

theorem positions_history (f : Forest) (hi : f.Inv) (ops : List MapOp2)
    (hok : (runOps2 f ops).2.2 = true) (x : Nat) (k : MapKind) (p q : Nat × Nat)
    (hall : ∀ g ∈ trace2 f ops, p ∈ absKN k g x ∧ q ∈ absKN k g x) :
    [p, q].Sublist (absKN k f x) ↔ [p, q].Sublist (absKN k (runOps2 f ops).1 x) := by
  obtain ⟨_, _, _, _, h5, h6⟩ := history_all ops f (famOf f) hi (fun _ _ => rfl) hok
  obtain ⟨rest, hrest⟩ := trace2_head f ops
  have hl := trace2_last ops f
  rw [hrest] at h5 h6 hall hl
  exact kept_order rest f h6 h5 x k p q hall _ hl


/-- Along a trace of `Stable` steps, an entry whose key is in the view in every state is carried
    by the same node in every state. -/
theorem kept_node : ∀ (tr : List Forest) (f : Forest), StableTrace (f :: tr) →
    (∀ g ∈ f :: tr, g.Inv) → ∀ (x : Nat) (k : MapKind) (key hd : Nat),
    (key, hd) ∈ absKN k f x → (∀ g ∈ f :: tr, key ∈ omKeys (abs k g x)) →
    ∀ g ∈ f :: tr, (key, hd) ∈ absKN k g x
  | [], f => by
    intro _ _ x k key hd h0 _ g hg
    simp only [List.mem_singleton] at hg
    rw [hg]; exact h0
  | b :: tr, f => by
    intro hst hinv x k key hd h0 hall g hg
    rcases List.mem_cons.mp hg with hg | hg
    · rw [hg]; exact h0
    · have ho : ((absKN k f x).map (·.1)).Nodup := by
        rw [absKN_fst]; exact unique_keys_of_inv f (hinv f List.mem_cons_self) k x
      have hb : (key, hd) ∈ absKN k b x :=
        knstep_keeps_node (hst.1 x k) ho key hd h0 (by
          rw [absKN_fst]; exact hall b (List.mem_cons_of_mem _ List.mem_cons_self))
      exact kept_node tr b hst.2 (fun g hg => hinv g (List.mem_cons_of_mem _ hg)) x k key hd hb
        (fun g hg => hall g (List.mem_cons_of_mem _ hg)) g hg

theorem history_keeps_node (f : Forest) (hi : f.Inv) (ops : List MapOp2)
    (hok : (runOps2 f ops).2.2 = true) (x : Nat) (k : MapKind) (key hd : Nat)
    (h0 : (key, hd) ∈ absKN k f x) (hall : ∀ g ∈ trace2 f ops, key ∈ omKeys (abs k g x)) :
    ∀ g ∈ trace2 f ops, (key, hd) ∈ absKN k g x := by
  obtain ⟨_, _, _, _, h5, h6⟩ := history_all ops f (famOf f) hi (fun _ _ => rfl) hok
  obtain ⟨rest, hrest⟩ := trace2_head f ops
  rw [hrest] at h5 h6 hall ⊢
  exact kept_node rest f h6 h5 x k key hd h0 hall

end Fmap
end XotModel
