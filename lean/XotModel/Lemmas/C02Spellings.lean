/-
  XotModel.Lemmas.C02Spellings — closed data for the non-vacuity examples and the rejection examples
  of Props/C02.lean (imported by nothing else), and `wellNsDoc_wrap` (the wrapper element of
  `C02_fragment_spelled_ns` keeps a spelling well formed): spellings (`SNode` / `NSNode`) with the byte positions
  a tokenizer would report (an absent prefix: offset 0), and two processing-instruction tokens with the reserved target.

    spelledExample      <a k="x&amp;"><!--c-->t<![CDATA[ CR LF ]]><b/></a>
    spelledNsExample    <a xmlns="d" xmlns:p="u" p:k="v&amp;"><p:b xmlns:p="w" p:j="1"/><c xmlns="" xml:id=" i "/>t</a>
    spelledTwinExample  <p:a xmlns:p="u" xmlns:q="u" xmlns:xml="http://www.w3.org/XML/1998/namespace"><q:a xml:id=" i  j "></q:a></p:a>
    declXmlnsPrefix     <a xmlns:xmlns='u'/>                             refused since /repo 6153ddf
    declXmlnsUri        <a xmlns='http://www.w3.org/2000/xmlns/'/>       refused since /repo 6153ddf
    declEmptyUri        <a xmlns:p=''/>                                  refused since /repo a5dcf8e
    declXmlRebound      <a xmlns:xml='zzz'/>                             still accepted (C03:xml-prefix-rebound-accepted)
    piXml, piXmlMixed   <?xml TAB x?>, <?XmL?> as `Token.pi`             refused since /repo 002854f
-/
import XotModel.Lemmas.ParseNsDefs

namespace XotModel.Witness
open XotModel

/-- `<a k="x&amp;"><!--c-->t<![CDATA[ CR LF ]]><b/></a>` as a namespace-free spelling. -/
def spelledExample : List SNode :=
  [.elem ⟨['a'], 1⟩ 0 ⟨[], 0⟩
    [{ name := ⟨['k'], 3⟩, pstart := 0, pieces := [.lit 'x', .named ['a', 'm', 'p']], vstart := 6, junk := ⟨[], 0⟩ }]
    ⟨['>'], 13⟩
    [.comment ⟨['c'], 18⟩ ⟨[], 0⟩,
     .chars [.txt [.lit 't'] 22, .cd ⟨['\r', '\n'], 32⟩ ⟨[], 0⟩],
     .empty ⟨['b'], 38⟩ 0 ⟨[], 0⟩ [] ⟨['/', '>'], 39⟩]
    ⟨['a'], 43⟩ 0 ⟨['<', '/', 'a', '>'], 41⟩]

/-- `<a xmlns="d" xmlns:p="u" p:k="v&amp;"><p:b xmlns:p="w" p:j="1"/><c xmlns="" xml:id=" i "/>t</a>`
    — a default namespace, a prefixed element, prefixed attributes, `p` shadowed on the nested
    element, `xmlns=""`, an `xml:id`. -/
def spelledNsExample : List NSNode :=
  [.elem ⟨[], 0⟩ ⟨['a'], 1⟩ ⟨[], 0⟩
    [{ pfx := ⟨[], 0⟩, loc := ⟨xmlnsStr, 3⟩, pieces := [.lit 'd'], vstart := 10, junk := ⟨[], 0⟩ },
     { pfx := ⟨xmlnsStr, 13⟩, loc := ⟨['p'], 19⟩, pieces := [.lit 'u'], vstart := 22, junk := ⟨[], 0⟩ },
     { pfx := ⟨['p'], 25⟩, loc := ⟨['k'], 27⟩, pieces := [.lit 'v', .named ['a', 'm', 'p']], vstart := 30,
       junk := ⟨[], 0⟩ }]
    ⟨['>'], 37⟩
    [.empty ⟨['p'], 39⟩ ⟨['b'], 41⟩ ⟨[], 0⟩
       [{ pfx := ⟨xmlnsStr, 43⟩, loc := ⟨['p'], 49⟩, pieces := [.lit 'w'], vstart := 52, junk := ⟨[], 0⟩ },
        { pfx := ⟨['p'], 55⟩, loc := ⟨['j'], 57⟩, pieces := [.lit '1'], vstart := 60, junk := ⟨[], 0⟩ }]
       ⟨['/', '>'], 62⟩,
     .empty ⟨[], 0⟩ ⟨['c'], 65⟩ ⟨[], 0⟩
       [{ pfx := ⟨[], 0⟩, loc := ⟨xmlnsStr, 67⟩, pieces := [], vstart := 74, junk := ⟨[], 0⟩ },
        { pfx := ⟨['x', 'm', 'l'], 77⟩, loc := ⟨['i', 'd'], 81⟩, pieces := [.lit ' ', .lit 'i', .lit ' '],
          vstart := 85, junk := ⟨[], 0⟩ }]
       ⟨['/', '>'], 89⟩,
     .chars [.txt [.lit 't'] 91]]
    ⟨[], 0⟩ ⟨['a'], 94⟩ ⟨['<', '/', 'a', '>'], 92⟩]

/-- `<p:a xmlns:p="u" xmlns:q="u" xmlns:xml="http://www.w3.org/XML/1998/namespace"><q:a xml:id=" i  j "></q:a></p:a>`
    — two prefixes for one namespace used for different elements, every end tag as its start tag;
    the prefix `xml` declared once more (to the XML namespace: the one declaration of that URI which
    `DocumentBuilder::prefix` lets pass) and an `xml:id` in its scope. -/
def spelledTwinExample : List NSNode :=
  [.elem ⟨['p'], 1⟩ ⟨['a'], 3⟩ ⟨[], 0⟩
    [{ pfx := ⟨xmlnsStr, 5⟩, loc := ⟨['p'], 11⟩, pieces := [.lit 'u'], vstart := 14, junk := ⟨[], 0⟩ },
     { pfx := ⟨xmlnsStr, 17⟩, loc := ⟨['q'], 23⟩, pieces := [.lit 'u'], vstart := 26, junk := ⟨[], 0⟩ },
     { pfx := ⟨xmlnsStr, 29⟩, loc := ⟨['x', 'm', 'l'], 35⟩, pieces := xmlNsUri.map .lit, vstart := 40,
       junk := ⟨[], 0⟩ }]
    ⟨['>'], 77⟩
    [.elem ⟨['q'], 79⟩ ⟨['a'], 81⟩ ⟨[], 0⟩
       [{ pfx := ⟨['x', 'm', 'l'], 83⟩, loc := ⟨['i', 'd'], 87⟩,
          pieces := [.lit ' ', .lit 'i', .lit ' ', .lit ' ', .lit 'j', .lit ' '], vstart := 91, junk := ⟨[], 0⟩ }]
       ⟨['>'], 98⟩ [] ⟨['q'], 101⟩ ⟨['a'], 103⟩ ⟨['<', '/', 'q', ':', 'a', '>'], 99⟩]
    ⟨['p'], 107⟩ ⟨['a'], 109⟩ ⟨['<', '/', 'p', ':', 'a', '>'], 105⟩]

/-! ### Reserved namespace declarations and the reserved PI target -/

/-- `<a ITEM/>`: the empty element `a` at byte 0 whose start tag holds one item and whose `/>` is at
    `endAt`. -/
def oneItem (item : NSAttr) (endAt : Nat) : List NSNode :=
  [.empty ⟨[], 0⟩ ⟨['a'], 1⟩ ⟨['<', 'a'], 0⟩ [item] ⟨['/', '>'], endAt⟩]

/-- `<a xmlns:xmlns='u'/>` (20 bytes): the prefix `xmlns` declared. -/
def declXmlnsPrefix : List NSNode :=
  oneItem { pfx := ⟨xmlnsStr, 3⟩, loc := ⟨xmlnsStr, 9⟩, pieces := [.lit 'u'], vstart := 16,
            junk := ⟨xmlnsStr ++ [':'] ++ xmlnsStr ++ ['=', '\'', 'u', '\''], 3⟩ } 18
def declXmlnsPrefixLen : Nat := 20

/-- `<a xmlns='http://www.w3.org/2000/xmlns/'/>` (42 bytes): the xmlns namespace name as default
    namespace. -/
def declXmlnsUri : List NSNode :=
  oneItem { pfx := ⟨[], 0⟩, loc := ⟨xmlnsStr, 3⟩, pieces := xmlnsNamespaceUri.map .lit, vstart := 10,
            junk := ⟨xmlnsStr ++ ['=', '\''] ++ xmlnsNamespaceUri ++ ['\''], 3⟩ } 40
def declXmlnsUriLen : Nat := 42

/-- `<a xmlns:p=''/>` (15 bytes): a prefixed undeclaration (Namespaces in XML 1.1 only). -/
def declEmptyUri : List NSNode :=
  oneItem { pfx := ⟨xmlnsStr, 3⟩, loc := ⟨['p'], 9⟩, pieces := [], vstart := 12,
            junk := ⟨xmlnsStr ++ [':', 'p', '=', '\'', '\''], 3⟩ } 13
def declEmptyUriLen : Nat := 15

/-- `<a xmlns:xml='zzz'/>` (20 bytes): the prefix `xml` bound to another namespace. -/
def declXmlRebound : List NSNode :=
  oneItem { pfx := ⟨xmlnsStr, 3⟩, loc := ⟨['x', 'm', 'l'], 9⟩, pieces := [.lit 'z', .lit 'z', .lit 'z'], vstart := 14,
            junk := ⟨xmlnsStr ++ [':', 'x', 'm', 'l', '=', '\'', 'z', 'z', 'z', '\''], 3⟩ } 18
def declXmlReboundLen : Nat := 20

/-- `<?xml TAB x?>` (9 bytes) as the processing-instruction token a tokenizer that does not know
    the XML declaration in this spelling hands over: target `xml`, data `x`. -/
def piXml : List Token :=
  [.pi ⟨['x', 'm', 'l'], 2⟩ (some ⟨['x'], 6⟩) ⟨['<', '?', 'x', 'm', 'l', '\t', 'x', '?', '>'], 0⟩]

/-- `<?XmL?>` (7 bytes): the target in another letter case, no data. -/
def piXmlMixed : List Token :=
  [.pi ⟨['X', 'm', 'L'], 2⟩ none ⟨['<', '?', 'X', 'm', 'L', '?', '>'], 0⟩]

end XotModel.Witness

namespace XotModel

/-- Wrapping a well-formed spelling in one unprefixed element without attributes `<w>…</w>` gives a
    well-formed spelling. -/
theorem wellNsDoc_wrap {sns : List NSNode} (hw : WellNsDoc sns) (w : StrSpan) (pstart : Nat) (junk openSp : StrSpan)
    (cw : StrSpan) (cpstart : Nat) (closeSp : StrSpan) (hcw : cw.text = w.text)
    (hps : pstart = 0) (hcps : cpstart = 0) :
    WellNsDoc [NSNode.elem ⟨[], pstart⟩ w junk [] openSp sns ⟨[], cpstart⟩ cw closeSp] := by
  subst hps hcps
  refine ⟨⟨⟨⟨fun a ha => by simp at ha, fun d hd => by simp [declsOf] at hd, List.nodup_nil, List.nodup_nil,
      fun a ha => by simp [ordinary] at ha, fun a ha => by simp at ha⟩,
    rfl, rfl, hcw, hw.2.1, hw.1, rfl, rfl⟩, trivial⟩, rfl, ?_⟩
  have := hw.2.2
  simpa [NSNode.denote.denoteList, NSNode.denote, NPNode.ids.idsList, NPNode.ids, attrIds, attrsOf, ordinary,
    declsOf, Scope.push] using this

end XotModel
