/-
  FspecReplGapT — C05 for `replace`, the gap case with a text replacing node (the groundwork is
  in `FspecReplGapT2` and `FspecReplGapT3`): the geometries "child of another node" and "another
  child of `q`", the theorem `replace_gap_text`, closed examples.
-/
import XotModel.Lemmas.FspecReplGapT3

namespace XotModel
open HTree Spec

/-! ### Geometry 2: `b` is a child of another node -/

/-- A child of a node inside the subtree `A` lies inside `A`. -/
theorem gapT_kid_inside {f : Forest} {a po : Nat} {A : HTree} {vo : Value} {l r : List HTree} {t : HTree}
    (hga : f.get? a = some A) (so : SiteAt f po vo (l ++ t :: r)) (hin : po ∈ handles A) :
    t.handle ∈ handles A := by
  have h1 : findList? po f.roots = find? po A := findList?_inside f.roots A so.nd hga hin
  rw [← Forest.get?_eq, so.kids] at h1
  have hsub := find?_sublist A _ h1.symm
  apply hsub.subset
  rw [handles_node]
  exact List.mem_cons_of_mem _ (handle_mem_handlesList (List.mem_append_right _ List.mem_cons_self))

theorem replace_gap_text_far {f : Forest} {a q po : Nat} {vq vo : Value} {l0 : List HTree} {P A N : HTree}
    {r0 l r : List HTree} {t : HTree} {ps ns bs : Str}
    (inv : f.Inv) (norm : f.Normal) (hc : f.consolidation = true)
    (ra : ReplArgs f a t.handle q vq (l0 ++ [P]) A (N :: r0) t)
    (hP : P.value = .text ps) (hN : N.value = .text ns)
    (hbP : t.handle ≠ P.handle) (hbN : t.handle ≠ N.handle) (hbt : t.value = .text bs)
    (so : SiteAt f po vo (l ++ t :: r)) (hne : po ≠ q) :
    ∃ f2, (f.editAt (some q) (dropTop a)).insertAfter P.handle t.handle = (f2, .ok) ∧
      (f2.removeConsolidate (some P.handle) (f2.nextSibling P.handle)).1
        = specReplace (Keep.resident t.handle) a t.handle f := by
  obtain ⟨sq, _, hl, hr, hPl, hNl, tl⟩ := gapT_prep inv norm hc ra hP hN hbt
  obtain ⟨ndL, _⟩ := sq.nodupKids
  obtain ⟨ndLo, _⟩ := so.nodupKids
  have htx : t.value.isText = true := by rw [hbt]; rfl
  have hno : noAdjacentText (l ++ t :: r) = true := (validTree_node (so.valid (norm hc))).2.2.1 rfl
  have hpoA : po ∉ handles A := fun hin => ra.hbA (gapT_kid_inside ra.live_a so hin)
  have hpoP : po ≠ P.handle := by
    intro e
    have h1 := (gapT_kid_of_mem sq (k := P) (by simp)).1
    rw [← e, so.kids] at h1
    have := Option.some.inj h1
    rw [← this] at hPl
    simp only [HTree.kids] at hPl
    cases l <;> cases hPl
  have hAk : ∀ k ∈ l0 ++ P :: A :: N :: r0, k.handle = a → po ∉ handles k := by
    intro k hk e
    rw [gapT_only_A ndL ra.ha k hk e]
    exact hpoA
  obtain ⟨lk1, lk2⟩ := gapT_look (.text (ps ++ bs)) _ hAk hpoP
  obtain ⟨sb1, sb2⟩ := gapT_sub a P.handle (.text (ps ++ bs)) (l0 ++ P :: A :: N :: r0)
  have K := kidMap_editAt po (dropTop t.handle)
  obtain ⟨g1, hrc, _⟩ := gapT_far_Z sq so hne ra.hqt (dropTop a) sb1 lk1 tl (natFor_dropTop K a) hno htx
  obtain ⟨_, _, cut2⟩ := gapT_far_Z sq so hne ra.hqt _ sb2 lk2 tl
    (NatFor.comp (natFor_dropTop K a) (natFor_setValTop K P.handle (.text (ps ++ bs)))) hno htx
  have hcc : (f.editAt (some po) (dropTop t.handle)).consolidation = true := by
    rw [Forest.editAt_consolidation]; exact hc
  -- the child list of `q` after `b` was cut
  have honly : ∀ k ∈ l ++ t :: r, k.handle = t.handle → k = t := fun k hk e => gapT_top_unique ndLo hk e
  have hlook' : findList? q (dropTop t.handle (l ++ t :: r)) = findList? q (l ++ t :: r) := by
    apply findList?_dropTop
    intro k hk e
    rw [honly k hk e]
    exact ra.hqt
  have sc := so.other sq.kids (Ne.symm hne) (dropTop t.handle) (handlesList_dropTop_sublist _ _) hlook'
  have eM : (l0 ++ P :: A :: N :: r0).map (HTree.editAt po (dropTop t.handle)) =
      l0.map (HTree.editAt po (dropTop t.handle)) ++ HTree.editAt po (dropTop t.handle) P ::
        HTree.editAt po (dropTop t.handle) A :: HTree.editAt po (dropTop t.handle) N ::
        r0.map (HTree.editAt po (dropTop t.handle)) := by simp
  rw [eM] at sc
  have hl' : noAdjacentText (l0.map (HTree.editAt po (dropTop t.handle)) ++ [HTree.editAt po (dropTop t.handle) P])
      = true := by
    have : l0.map (HTree.editAt po (dropTop t.handle)) ++ [HTree.editAt po (dropTop t.handle) P]
        = (l0 ++ [P]).map (HTree.editAt po (dropTop t.handle)) := by simp
    rw [this, noAdj_map K]; exact hl
  have hr' : noAdjacentText (HTree.editAt po (dropTop t.handle) N :: r0.map (HTree.editAt po (dropTop t.handle)))
      = true := by
    rw [← List.map_cons, noAdj_map K]; exact hr
  -- the specification
  have so' : SiteAt (f.editAt (some po) (dropTop t.handle)) po vo (dropTop t.handle (l ++ t :: r)) :=
    so.edit (dropTop t.handle) (handlesList_dropTop_sublist _ _)
  have hfix : (f.editAt (some po) (dropTop t.handle)).editAt (some po) (mergeRuns (Keep.resident t.handle))
      = f.editAt (some po) (dropTop t.handle) := by
    have := so'.congr (g := mergeRuns (Keep.resident t.handle)) (g' := id) (by
      simp only [id]
      apply mergeRuns_id
      apply gapT_noAdj_dropTop hno
      intro k hk e
      rw [honly k hk e]; exact htx)
    rw [this, Forest.editAt_id]
  have hspec : specReplace (Keep.resident t.handle) a t.handle f =
      ((f.editAt (some po) (dropTop t.handle)).editAt (some q) (replaceTop a (fun _ => [t]))).editAt (some q)
        (mergeRuns (Keep.resident t.handle)) := by
    unfold specReplace
    rw [ra.hgb, Forest.parent?_of_ctx ra.ctx_a, Forest.parent?_of_ctx so.ctx]
    simp only
    rw [mergeAt_on (f := (f.editAt (some po) (dropTop t.handle)).editAt (some q) (replaceTop a (fun _ => [t])))
      (by rw [Forest.editAt_consolidation]; exact hcc)]
    rw [mergeAt_on (by rw [Forest.editAt_consolidation, Forest.editAt_consolidation]; exact hcc)]
    have hcomm := Forest.editAt_comm (f.editAt (some po) (dropTop t.handle)) (p := po) (q := q)
      (g := mergeRuns (Keep.resident t.handle)) (g' := replaceTop a (fun _ => [t])) hne
      (natFor_mergeRuns (kidMap_editAt _ _) _)
      (natFor_replaceTop (kidMap_editAt _ _) a (by
        intro k
        simp only [List.map_cons, List.map_nil]
        rw [gapT_editAt_leaf rfl tl]))
    rw [hcomm, hfix]
  exact gapT_assemble hc sq ra.ha ra.hvq hP hN hbt hbP hbN ra.hqt g1 hrc cut2 hcc
    sc (editAt_handle _ _ _) ((editAt_handle _ _ _).trans ra.ha) (by rw [editAt_value]; exact hP)
    (by rw [editAt_value]; exact hN) (by rw [gapT_editAt_leaf rfl hNl]; exact hNl) hl' hr' hspec

/-! ### Geometry 3: `b` is another child of `q` -/

theorem replace_gap_text_same {f : Forest} {a q : Nat} {vq : Value} {l0 : List HTree} {P A N : HTree}
    {r0 : List HTree} {t : HTree} {ps ns bs : Str}
    (inv : f.Inv) (norm : f.Normal) (hc : f.consolidation = true)
    (ra : ReplArgs f a t.handle q vq (l0 ++ [P]) A (N :: r0) t)
    (hP : P.value = .text ps) (hN : N.value = .text ns)
    (hbP : t.handle ≠ P.handle) (hbN : t.handle ≠ N.handle) (hbt : t.value = .text bs)
    (hmem : t ∈ l0 ++ P :: A :: N :: r0) :
    ∃ f2, (f.editAt (some q) (dropTop a)).insertAfter P.handle t.handle = (f2, .ok) ∧
      (f2.removeConsolidate (some P.handle) (f2.nextSibling P.handle)).1
        = specReplace (Keep.resident t.handle) a t.handle f := by
  obtain ⟨sq, hLn, hl, hr, _, hNl, tl⟩ := gapT_prep inv norm hc ra hP hN hbt
  obtain ⟨ndL, _⟩ := sq.nodupKids
  have htx : t.value.isText = true := by rw [hbt]; rfl
  have hta : t.handle ≠ a := Ne.symm ra.hab
  have hAb : ¬ A.handle = t.handle := fun e => hta (e.symm.trans ra.ha)
  have hcases : t ∈ l0 ∨ t ∈ r0 := by
    rcases List.mem_append.1 hmem with h | h
    · exact Or.inl h
    · rcases List.mem_cons.1 h with e | h
      · exact absurd (congrArg HTree.handle e) hbP
      · rcases List.mem_cons.1 h with e | h
        · exact absurd ((congrArg HTree.handle e).trans ra.ha) hta
        · rcases List.mem_cons.1 h with e | h
          · exact absurd (congrArg HTree.handle e) hbN
          · exact Or.inr h
  have honly : ∀ k ∈ l0 ++ P :: A :: N :: r0, k.handle = t.handle → k = t := by
    intro k hk e
    obtain ⟨X, Y, eXY⟩ := List.append_of_mem hmem
    exact gapT_top_unique (eXY ▸ ndL) (eXY ▸ hk) e
  obtain ⟨sb1, sb2⟩ := gapT_sub a P.handle (.text (ps ++ bs)) (l0 ++ P :: A :: N :: r0)
  obtain ⟨e1, e2⟩ := gapT_list_model (.text (ps ++ bs)) ndL ra.ha
  have hG2 : (replaceTop P.handle (fun k => [k.setValue (.text (ps ++ bs))]) ∘ dropTop a)
      (l0 ++ P :: A :: N :: r0) = l0 ++ P.setValue (.text (ps ++ bs)) :: N :: r0 := by
    simp only [Function.comp]; rw [e1, e2]
  have mem1 : t ∈ dropTop a (l0 ++ P :: A :: N :: r0) := by
    rw [e1]
    rcases hcases with h | h <;> simp [h]
  have mem2 : t ∈ (replaceTop P.handle (fun k => [k.setValue (.text (ps ++ bs))]) ∘ dropTop a)
      (l0 ++ P :: A :: N :: r0) := by
    rw [hG2]
    rcases hcases with h | h <;> simp [h]
  obtain ⟨g1, _⟩ := gapT_same_Z sq (dropTop a) sb1 mem1 tl
  obtain ⟨_, cut2'⟩ := gapT_same_Z sq _ sb2 mem2 tl
  have cut2 : (f.editAt (some q)
        (replaceTop P.handle (fun k => [k.setValue (.text (ps ++ bs))]) ∘ dropTop a)).spliceOut t.handle =
      (f.editAt (some q) (dropTop t.handle)).editAt (some q)
        (replaceTop P.handle (fun k => [k.setValue (.text (ps ++ bs))]) ∘ dropTop a) := by
    rw [cut2', Forest.editAt_editAt]
    congr 1
    funext X
    simp only [Function.comp]
    rw [gapT_dropTop_setValTop _ (Ne.symm hbP), gapT_dropTop_comm]
  -- no merge at the old place of `b`
  have s1 : SiteAt (f.editAt (some q) (dropTop a)) q vq (l0 ++ P :: N :: r0) := by
    have := sq.edit (dropTop a) sb1
    rw [e1] at this
    exact this
  have hrc : (f.editAt (some q) (dropTop a)).removeConsolidate
      ((f.editAt (some q) (dropTop a)).prevSibling t.handle)
      ((f.editAt (some q) (dropTop a)).nextSibling t.handle) = (f.editAt (some q) (dropTop a), false) := by
    rcases hcases with h | h
    · obtain ⟨l1, l2, el⟩ := List.append_of_mem h
      subst el
      have ea : (l1 ++ t :: l2) ++ P :: N :: r0 = l1 ++ t :: (l2 ++ P :: N :: r0) := by simp
      have eb : (l1 ++ t :: l2) ++ P :: A :: N :: r0 = l1 ++ t :: (l2 ++ P :: A :: N :: r0) := by simp
      rw [ea] at s1
      rw [eb] at hLn
      exact gapT_rc_noop_left s1 (gapT_prev_not_text hLn htx)
    · obtain ⟨r1, r2, er⟩ := List.append_of_mem h
      subst er
      have ea : l0 ++ P :: N :: (r1 ++ t :: r2) = (l0 ++ P :: N :: r1) ++ t :: r2 := by simp
      have eb : l0 ++ P :: A :: N :: (r1 ++ t :: r2) = (l0 ++ P :: A :: N :: r1) ++ t :: r2 := by simp
      rw [ea] at s1
      rw [eb] at hLn
      exact gapT_rc_noop_right s1 (gapT_next_not_text hLn htx)
  -- the child list of `q` after `b` was cut
  have hcc : (f.editAt (some q) (dropTop t.handle)).consolidation = true := by
    rw [Forest.editAt_consolidation]; exact hc
  have eD : dropTop t.handle (l0 ++ P :: A :: N :: r0) =
      dropTop t.handle l0 ++ P :: A :: N :: dropTop t.handle r0 := by
    rw [dropTop_append, dropTop_cons, if_neg (Ne.symm hbP), dropTop_cons, if_neg hAb, dropTop_cons,
      if_neg (Ne.symm hbN)]
  have sc : SiteAt (f.editAt (some q) (dropTop t.handle)) q vq
      (dropTop t.handle l0 ++ P :: A :: N :: dropTop t.handle r0) := by
    have := sq.edit (dropTop t.handle) (handlesList_dropTop_sublist _ _)
    rw [eD] at this
    exact this
  have hl' : noAdjacentText (dropTop t.handle l0 ++ [P]) = true := by
    have : dropTop t.handle (l0 ++ [P]) = dropTop t.handle l0 ++ [P] := by
      rw [dropTop_append, dropTop_cons, if_neg (Ne.symm hbP), dropTop_nil]
    rw [← this]
    apply gapT_noAdj_dropTop hl
    intro k hk e
    rw [honly k (by
      rcases List.mem_append.1 hk with h | h
      · exact List.mem_append_left _ h
      · rw [List.mem_singleton.1 h]; simp) e]
    exact htx
  have hr' : noAdjacentText (N :: dropTop t.handle r0) = true := by
    have : dropTop t.handle (N :: r0) = N :: dropTop t.handle r0 := by
      rw [dropTop_cons, if_neg (Ne.symm hbN)]
    rw [← this]
    apply gapT_noAdj_dropTop hr
    intro k hk e
    rw [honly k (by
      rcases List.mem_cons.1 hk with h | h
      · rw [h]; simp
      · simp [h]) e]
    exact htx
  -- the specification
  have hidem : mergeRuns (Keep.resident t.handle) ∘ mergeRuns (Keep.resident t.handle)
      = mergeRuns (Keep.resident t.handle) := funext (fun X => mergeRuns_idem _ X)
  have hspec : specReplace (Keep.resident t.handle) a t.handle f =
      ((f.editAt (some q) (dropTop t.handle)).editAt (some q) (replaceTop a (fun _ => [t]))).editAt (some q)
        (mergeRuns (Keep.resident t.handle)) := by
    unfold specReplace
    rw [ra.hgb, Forest.parent?_of_ctx ra.ctx_a, (gapT_kid_of_mem sq hmem).2]
    simp only
    rw [mergeAt_on (f := (f.editAt (some q) (dropTop t.handle)).editAt (some q) (replaceTop a (fun _ => [t])))
      (by rw [Forest.editAt_consolidation]; exact hcc)]
    rw [mergeAt_on (by rw [Forest.editAt_consolidation, Forest.editAt_consolidation]; exact hcc)]
    rw [Forest.editAt_editAt _ (some q) (mergeRuns (Keep.resident t.handle)), hidem]
  exact gapT_assemble hc sq ra.ha ra.hvq hP hN hbt hbP hbN ra.hqt g1 hrc cut2 hcc
    sc rfl ra.ha hP hN hNl hl' hr' hspec

/-! ### The theorem -/

/-- **C05, `replace(a, b)`, the gap case with a text replacing node.**  `a` stands between the text
    nodes `P` and `N`, `b` is a text node that is not adjacent to `a`: after `remove_subtree(a)`,
    `insert_after(P, b)` succeeds, and the final `remove_consolidate_text_nodes(P, next(P))` yields
    the forest of the specification (the three-way merge `P ++ b ++ N`, under `P`'s handle). -/
theorem replace_gap_text {f : Forest} {a b q : Nat} {vq : Value} {l0 : List HTree} {P A N : HTree}
    {r0 : List HTree} {t : HTree} {ps ns bs : Str}
    (inv : f.Inv) (norm : f.Normal) (hc : f.consolidation = true)
    (ra : ReplArgs f a b q vq (l0 ++ [P]) A (N :: r0) t)
    (hP : P.value = .text ps) (hN : N.value = .text ns)
    (hbP : b ≠ P.handle) (hbN : b ≠ N.handle)
    (hbt : t.value = .text bs) :
    ∃ f2, (f.editAt (some q) (dropTop a)).insertAfter P.handle b = (f2, .ok) ∧
      (f2.removeConsolidate (some P.handle) (f2.nextSibling P.handle)).1
        = specReplace (Keep.resident b) a b f := by
  have hb := ra.hb
  subst hb
  rcases Forest.root_or_ctx ra.hgb with hroot | ⟨c, hctx⟩
  · exact replace_gap_text_root inv norm hc ra hP hN hbP hbN hbt (Forest.ctx_none_of_root inv.nodup hroot)
  · obtain ⟨_, vo, so⟩ := SiteAt.of_ctx inv.nodup hctx
    have hself : c.self = t := by
      have := Forest.get?_of_ctx inv.nodup hctx
      rw [ra.hgb] at this
      exact (Option.some.inj this).symm
    obtain ⟨po, l, k, r⟩ := c
    simp only at so hself
    subst hself
    by_cases hpq : po = q
    · subst hpq
      have hk := so.kids
      rw [ra.sq.kids] at hk
      have hk' := Option.some.inj hk
      injection hk' with _ _ e3
      have hmem : k ∈ l0 ++ P :: A :: N :: r0 := by
        have : l0 ++ P :: A :: N :: r0 = (l0 ++ [P]) ++ A :: (N :: r0) := by simp
        rw [this, e3]
        exact List.mem_append_right _ List.mem_cons_self
      exact replace_gap_text_same inv norm hc ra hP hN hbP hbN hbt hmem
    · exact replace_gap_text_far inv norm hc ra hP hN hbP hbN hbt so hpq

/-! ### Non-vacuity: the three geometries on concrete forests -/

/-- `<e>x<a>q</a>y<c/></e>` and the parentless text node `b`. -/
def gapTExRoot : Forest :=
  { roots := [.node 0 (.element 2) [.node 1 (.text ['x']) [], .node 2 (.element 3) [.node 7 (.text ['q']) []],
                .node 3 (.text ['y']) [], .node 4 (.element 6) []], .node 5 (.text ['b']) []], next := 8 }

/-- `b` is the child of the following element `c`. -/
def gapTExFar : Forest :=
  { roots := [.node 0 (.element 2) [.node 1 (.text ['x']) [], .node 2 (.element 3) [.node 7 (.text ['q']) []],
                .node 3 (.text ['y']) [], .node 4 (.element 6) [.node 5 (.text ['b']) []]]], next := 8 }

/-- `b` is a later child of the same element. -/
def gapTExSame : Forest :=
  { roots := [.node 0 (.element 2) [.node 1 (.text ['x']) [], .node 2 (.element 3) [.node 7 (.text ['q']) []],
                .node 3 (.text ['y']) [], .node 4 (.element 6) [], .node 5 (.text ['b']) [],
                .node 6 (.element 6) []]], next := 8 }

/-- The hypotheses of `replace_gap_text` hold on `gapTExSame` (`a = 2`, `b = 5`, `q = 0`). -/
example : ∃ f2, (gapTExSame.editAt (some 0) (dropTop 2)).insertAfter 1 5 = (f2, .ok) ∧
    (f2.removeConsolidate (some 1) (f2.nextSibling 1)).1 = specReplace (Keep.resident 5) 2 5 gapTExSame :=
  replace_gap_text (f := gapTExSame) (a := 2) (b := 5) (q := 0) (vq := .element 2) (l0 := [])
    (P := .node 1 (.text ['x']) []) (A := .node 2 (.element 3) [.node 7 (.text ['q']) []])
    (N := .node 3 (.text ['y']) [])
    (r0 := [.node 4 (.element 6) [], .node 5 (.text ['b']) [], .node 6 (.element 6) []])
    (t := .node 5 (.text ['b']) []) (ps := ['x']) (ns := ['y']) (bs := ['b'])
    ((Forest.inv_iff _).1 (by decide)) (fun _ => by decide) (by decide)
    ⟨⟨by decide, by decide⟩, by decide, by decide, by decide, by decide, by decide, by decide, by decide,
      by decide⟩
    rfl rfl (by decide) (by decide) rfl

/-- The whole call on the three forests: `replace(2, 5)` succeeds and yields the specification's
    forest, `x ++ b ++ y` under the handle of `x`. -/
example :
    gapTExRoot.inv = true ∧ gapTExFar.inv = true ∧ gapTExSame.inv = true ∧
    gapTExRoot.replace 2 5 = (specReplace (Keep.resident 5) 2 5 gapTExRoot, .ok) ∧
    gapTExFar.replace 2 5 = (specReplace (Keep.resident 5) 2 5 gapTExFar, .ok) ∧
    gapTExSame.replace 2 5 = (specReplace (Keep.resident 5) 2 5 gapTExSame, .ok) ∧
    (gapTExSame.replace 2 5).1.get? 1 = some (.node 1 (.text ['x', 'b', 'y']) []) ∧
    (gapTExSame.replace 2 5).1.isLive 3 = false ∧ (gapTExSame.replace 2 5).1.isLive 5 = false := by
  decide

end XotModel
