/-
  XotModel.Lemmas.AcceptedContent — decoded values of accepted input (C03, "accepted ⇒ representable",
  ingredient (b)):
    * `parse_content` of XML `Char`s yields XML `Char`s only (references decode to XML Chars:
      C03_reject_nonchar), and a non-empty value for a non-empty text;
    * the line-end normalisation of CDATA content keeps both;
    * `normalize_xml_id` keeps XML Chars and is idempotent.
-/
import XotModel.Lemmas.Parse
import XotModel.Lemmas.ParseContentErr
import XotModel.Model.LexOK
import XotModel.Model.Parse

namespace XotModel.Accepted

open XotModel

/-! ### XML `Char`: entity.rs against xmlchar.rs -/

theorem char_eq_of_toNat {c d : Char} (h : c.toNat = d.toNat) : c = d := by
  apply Char.ext
  apply UInt32.toNat_inj.mp
  exact h

theorem isXmlChar_of_code {c : Char} (h : isXmlCharCode c.toNat = true) : isXmlChar c = true := by
  unfold isXmlChar
  simp only [isXmlCharCode, Bool.or_eq_true, beq_iff_eq, Bool.and_eq_true, decide_eq_true_eq] at h
  split
  · next hlt =>
    have : c.toNat = 9 ∨ c.toNat = 10 ∨ c.toNat = 13 := by omega
    rcases this with h9 | h10 | h13
    · rw [char_eq_of_toNat (d := '\t') h9]; rfl
    · rw [char_eq_of_toNat (d := '\n') h10]; rfl
    · rw [char_eq_of_toNat (d := '\r') h13]; rfl
  · simp only [Bool.not_eq_true', Bool.or_eq_false_iff, beq_eq_false_iff_ne, ne_eq]
    omega

theorem isXmlChar_space : isXmlChar ' ' = true := by decide
theorem isXmlChar_lf : isXmlChar '\n' = true := by decide

/-! ### `parse_content` -/

theorem consOk_ok {c : Char} {r : Except ContentErr Str} {v : Str} (h : consOk c r = .ok v) :
    ∃ w, r = .ok w ∧ v = c :: w := by
  cases r with
  | ok w => simp only [consOk, Except.ok.injEq] at h; exact ⟨w, rfl, h.symm⟩
  | error e => simp [consOk] at h

theorem splitSemi_all {P : Char → Bool} : ∀ {s e r : Str}, splitSemi s = some (e, r) → s.all P = true →
    r.all P = true
  | [], _, _, h, _ => by simp [splitSemi] at h
  | c :: cs, e, r, h, hs => by
    simp only [List.all_cons, Bool.and_eq_true] at hs
    unfold splitSemi at h
    split at h
    · simp only [Option.some.injEq, Prod.mk.injEq] at h
      rw [← h.2]; exact hs.2
    · cases hsp : splitSemi cs with
      | none => simp [hsp] at h
      | some p =>
        obtain ⟨e', r'⟩ := p
        simp only [hsp, Option.some.injEq, Prod.mk.injEq] at h
        rw [← h.2]
        exact splitSemi_all hsp hs.2

theorem skipLf_all {P : Char → Bool} {s : Str} (h : s.all P = true) : (skipLf s).all P = true := by
  unfold skipLf
  split
  · simp only [List.all_cons, Bool.and_eq_true] at h; exact h.2
  · exact h

/-- Decoding XML `Char`s gives XML `Char`s; a non-empty text has a non-empty value. -/
theorem parseGo_chars (attr : Bool) (base : Nat) :
    ∀ (n : Nat) (s : Str) (pos : Nat) (v : Str), s.length = n → s.all isXmlChar = true →
      parseContentGo attr base pos s = .ok v → v.all isXmlChar = true ∧ (s ≠ [] → v ≠ []) := by
  intro n
  induction n using Nat.strongRecOn with
  | _ n ih =>
    intro s pos v hn hs h
    match s, hn with
    | [], _ =>
      rw [parseContentGo.eq_def] at h
      simp only [Except.ok.injEq] at h
      subst h
      exact ⟨rfl, fun hh => absurd rfl hh⟩
    | c :: rest, hn =>
      simp only [List.all_cons, Bool.and_eq_true] at hs
      rw [parseContentGo.eq_def] at h
      simp only at h
      split at h
      · obtain ⟨w, hw, rfl⟩ := consOk_ok h
        have hl := skipLf_length rest
        have := ih (skipLf rest).length (by simp at hn; omega) (skipLf rest) _ w rfl (skipLf_all hs.2) hw
        refine ⟨?_, by simp⟩
        simp only [List.all_cons, this.1, Bool.and_true]
        cases attr <;> simp [isXmlChar_space, isXmlChar_lf]
      · split at h
        · split at h
          · cases h
          · rename_i ent rest' hsp
            split at h
            · cases h
            · rename_i ch hdec
              obtain ⟨w, hw, rfl⟩ := consOk_ok h
              have hl := splitSemi_length hsp
              have := ih rest'.length (by simp at hn; omega) rest' _ w rfl (splitSemi_all hsp hs.2) hw
              refine ⟨?_, by simp⟩
              simp only [List.all_cons, this.1, Bool.and_true]
              exact isXmlChar_of_code (decodeEntity_xmlChar hdec)
        · split at h
          · obtain ⟨w, hw, rfl⟩ := consOk_ok h
            have := ih rest.length (by simp at hn; omega) rest _ w rfl hs.2 hw
            exact ⟨by simp [List.all_cons, this.1, isXmlChar_space], by simp⟩
          · obtain ⟨w, hw, rfl⟩ := consOk_ok h
            have := ih rest.length (by simp at hn; omega) rest _ w rfl hs.2 hw
            exact ⟨by simp [List.all_cons, this.1, hs.1], by simp⟩

theorem parseGo_all {attr : Bool} {base pos : Nat} {s v : Str} (hs : s.all isXmlChar = true)
    (h : parseContentGo attr base pos s = .ok v) : v.all isXmlChar = true :=
  (parseGo_chars attr base s.length s pos v rfl hs h).1

theorem parseGo_ne_nil {attr : Bool} {base pos : Nat} {s v : Str} (hs : s.all isXmlChar = true)
    (h : parseContentGo attr base pos s = .ok v) (hne : s ≠ []) : v ≠ [] :=
  (parseGo_chars attr base s.length s pos v rfl hs h).2 hne

/-! ### CDATA line ends -/

theorem replaceCrLf_all : ∀ (s : Str), s.all isXmlChar = true → (replaceCrLf s).all isXmlChar = true
  | [], _ => rfl
  | [c], h => h
  | c :: d :: rest, h => by
    simp only [List.all_cons, Bool.and_eq_true] at h
    unfold replaceCrLf
    split
    · simp only [List.all_cons, isXmlChar_lf, Bool.true_and]
      exact replaceCrLf_all rest h.2.2
    · simp only [List.all_cons, h.1, Bool.true_and]
      exact replaceCrLf_all (d :: rest) (by simp [List.all_cons, h.2.1, h.2.2])

theorem replaceCrLf_ne_nil : ∀ (s : Str), s ≠ [] → replaceCrLf s ≠ []
  | [], h => absurd rfl h
  | [c], _ => by simp [replaceCrLf]
  | c :: d :: rest, _ => by
    unfold replaceCrLf
    split <;> simp

theorem replaceCr_all (s : Str) (h : s.all isXmlChar = true) : (replaceCr s).all isXmlChar = true := by
  unfold replaceCr
  rw [List.all_map]
  rw [List.all_eq_true] at h ⊢
  intro c hc
  simp only [Function.comp]
  split
  · exact isXmlChar_lf
  · exact h c hc

theorem cdata_value {s : Str} (h : s.all isXmlChar = true) (hne : s ≠ []) :
    (replaceCr (replaceCrLf s)).all isXmlChar = true ∧ replaceCr (replaceCrLf s) ≠ [] := by
  refine ⟨replaceCr_all _ (replaceCrLf_all s h), ?_⟩
  have := replaceCrLf_ne_nil s hne
  unfold replaceCr
  simpa using this

/-! ### `normalize_xml_id` -/

theorem trimSpacesStart_all {P : Char → Bool} : ∀ (s : Str), s.all P = true → (trimSpacesStart s).all P = true := by
  intro s
  rw [trimSpacesStart_eq]
  intro h
  rw [List.all_eq_true] at h ⊢
  intro c hc
  exact h c (List.dropWhile_subset _ hc)

theorem collapseSpaces_all {P : Char → Bool} : ∀ (b : Bool) (s : Str), s.all P = true →
    (collapseSpaces b s).all P = true
  | _, [], _ => rfl
  | b, c :: cs, h => by
    simp only [List.all_cons, Bool.and_eq_true] at h
    unfold collapseSpaces
    split
    · split
      · exact collapseSpaces_all true cs h.2
      · next hc _ =>
        simp only [List.all_cons, Bool.and_eq_true]
        exact ⟨by rw [← hc]; exact h.1, collapseSpaces_all true cs h.2⟩
    · simp only [List.all_cons, Bool.and_eq_true]
      exact ⟨h.1, collapseSpaces_all false cs h.2⟩

theorem normalizeXmlId_all {P : Char → Bool} (s : Str) (h : s.all P = true) : (normalizeXmlId s).all P = true := by
  unfold normalizeXmlId trimSpaces
  apply collapseSpaces_all
  rw [List.all_reverse]
  apply trimSpacesStart_all
  rw [List.all_reverse]
  exact trimSpacesStart_all s h

theorem collapseSpaces_idem : ∀ (b : Bool) (s : Str), collapseSpaces b (collapseSpaces b s) = collapseSpaces b s
  | _, [] => rfl
  | b, c :: cs => by
    by_cases hc : c = ' '
    · subst hc
      cases b with
      | true =>
        have : collapseSpaces true (' ' :: cs) = collapseSpaces true cs := by simp [collapseSpaces]
        rw [this]; exact collapseSpaces_idem true cs
      | false =>
        have : collapseSpaces false (' ' :: cs) = ' ' :: collapseSpaces true cs := by simp [collapseSpaces]
        rw [this]
        have : collapseSpaces false (' ' :: collapseSpaces true cs) = ' ' :: collapseSpaces true (collapseSpaces true cs) := by
          simp [collapseSpaces]
        rw [this, collapseSpaces_idem true cs]
    · have h1 : ∀ b' l, collapseSpaces b' (c :: l) = c :: collapseSpaces false l := by
        intro b' l; simp [collapseSpaces, hc]
      rw [h1, h1, collapseSpaces_idem false cs]

theorem trimSpacesStart_id {s : Str} (h : s.head? ≠ some ' ') : trimSpacesStart s = s := by
  cases s with
  | nil => rfl
  | cons c cs =>
    have hc : c ≠ ' ' := by simpa using h
    unfold trimSpacesStart
    split
    · next heq => simp only [List.cons.injEq] at heq; exact absurd heq.1 hc
    · rfl

theorem head_trimSpacesStart (s : Str) : (trimSpacesStart s).head? ≠ some ' ' := by
  induction s with
  | nil => simp [trimSpacesStart]
  | cons c cs ih =>
    by_cases hc : c = ' '
    · subst hc
      have : trimSpacesStart (' ' :: cs) = trimSpacesStart cs := by simp [trimSpacesStart]
      rw [this]; exact ih
    · rw [trimSpacesStart_id (by simpa using hc)]
      simpa using hc

theorem getLast_trimSpacesStart (s : Str) (h : s.getLast? ≠ some ' ') : (trimSpacesStart s).getLast? ≠ some ' ' := by
  induction s with
  | nil => simp [trimSpacesStart]
  | cons c cs ih =>
    by_cases hc : c = ' '
    · subst hc
      have : trimSpacesStart (' ' :: cs) = trimSpacesStart cs := by simp [trimSpacesStart]
      rw [this]
      apply ih
      cases cs with
      | nil => simp
      | cons d ds => simpa [List.getLast?_cons_cons] using h
    · rw [trimSpacesStart_id (by simpa using hc)]
      exact h

theorem head_collapseSpaces (s : Str) : (collapseSpaces false s).head? = s.head? := by
  cases s with
  | nil => rfl
  | cons c cs =>
    unfold collapseSpaces
    by_cases hc : c = ' '
    · subst hc; simp
    · simp [hc]

theorem getLast_collapseSpaces : ∀ (b : Bool) (s : Str), s.getLast? ≠ some ' ' →
    (collapseSpaces b s).getLast? ≠ some ' '
  | _, [], _ => by simp [collapseSpaces]
  | b, [c], h => by
    have hc : c ≠ ' ' := by simpa using h
    simp [collapseSpaces, hc]
  | b, c :: d :: rest, h => by
    have h' : (d :: rest).getLast? ≠ some ' ' := by simpa [List.getLast?_cons_cons] using h
    have hne : ∀ b', collapseSpaces b' (d :: rest) ≠ [] := by
      intro b'
      -- the last character is kept, so the result is not empty
      have := getLast_collapseSpaces b' (d :: rest) h'
      intro hnil
      -- a list ending in a non-space: collapse keeps at least that character
      revert h'
      clear this h
      induction rest generalizing d b' with
      | nil =>
        intro h'
        have hd : d ≠ ' ' := by simpa using h'
        simp [collapseSpaces, hd] at hnil
      | cons e rest ih =>
        intro h'
        unfold collapseSpaces at hnil
        split at hnil
        · split at hnil
          · exact ih e true hnil (by simpa [List.getLast?_cons_cons] using h')
          · cases hnil
        · cases hnil
    unfold collapseSpaces
    split
    · split
      · exact getLast_collapseSpaces true (d :: rest) h'
      · rw [List.getLast?_cons_of_ne_nil (hne true)]
        exact getLast_collapseSpaces true (d :: rest) h'
    · rw [List.getLast?_cons_of_ne_nil (hne false)]
      exact getLast_collapseSpaces false (d :: rest) h'

theorem trimSpaces_ends (s : Str) : (trimSpaces s).head? ≠ some ' ' ∧ (trimSpaces s).getLast? ≠ some ' ' := by
  unfold trimSpaces
  constructor
  · rw [List.head?_reverse]
    apply getLast_trimSpacesStart
    rw [List.getLast?_reverse]
    exact head_trimSpacesStart s
  · rw [List.getLast?_reverse]
    exact head_trimSpacesStart _

theorem trimSpaces_id {s : Str} (h1 : s.head? ≠ some ' ') (h2 : s.getLast? ≠ some ' ') : trimSpaces s = s := by
  unfold trimSpaces
  rw [trimSpacesStart_id h1, trimSpacesStart_id (by rw [List.head?_reverse]; exact h2), List.reverse_reverse]

/-- `normalize_xml_id` is idempotent. -/
theorem normalizeXmlId_idem (s : Str) : normalizeXmlId (normalizeXmlId s) = normalizeXmlId s := by
  unfold normalizeXmlId
  obtain ⟨h1, h2⟩ := trimSpaces_ends s
  rw [trimSpaces_id (by rw [head_collapseSpaces]; exact h1) (getLast_collapseSpaces false _ h2)]
  exact collapseSpaces_idem false _

end XotModel.Accepted
