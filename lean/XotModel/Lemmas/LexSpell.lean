/-
  XotModel.Lemmas.LexSpell — every token the reference tokenizer returns, on every input, is
  `Token.Spelled` (Lemmas/LexSpellDefs.lean), and consecutive character-data tokens are adjacent
  in the source (`CharAdj`).
-/
import XotModel.Lemmas.LexSpellDefs

namespace XotModel.Lex.Slice

open XotModel.Lex.Stream

/-! ### The shape of the token each parser returns -/

theorem parseDeclaration_form {s s' : Lex.Stream} {t : Token}
    (h : parseDeclaration s = some (t, s')) : ∃ v e sa sp, t = .declaration v e sa sp := by
  simp only [parseDeclaration, Option.bind_eq_bind, Option.bind_eq_some_iff, Option.some.injEq,
    Prod.mk.injEq] at h
  obtain ⟨⟨v, s2⟩, h2, s3, h3, ⟨e, s4⟩, h4, s5, h5, ⟨sa, s6⟩, h6, s7, h7, rfl, rfl⟩ := h
  exact ⟨_, _, _, _, rfl⟩

theorem parseComment_form {s s' : Lex.Stream} {t : Token}
    (h : parseComment s = some (t, s')) : ∃ a b, t = .comment a b := by
  simp only [parseComment, Option.bind_eq_bind, Option.bind_eq_some_iff] at h
  obtain ⟨s2, h2, s3, h3, h⟩ := h
  split at h
  · simp at h
  · split at h
    · simp at h
    · simp only [Option.some.injEq, Prod.mk.injEq] at h
      obtain ⟨rfl, rfl⟩ := h
      exact ⟨_, _, rfl⟩

theorem parsePI_form {s s' : Lex.Stream} {t : Token}
    (h : parsePI s = some (t, s')) : ∃ a c b, t = .pi a c b := by
  simp only [parsePI, Option.bind_eq_bind, Option.bind_eq_some_iff, Option.some.injEq,
    Prod.mk.injEq] at h
  obtain ⟨⟨tg, s2⟩, h2, s4, h4, s5, h5, rfl, rfl⟩ := h
  exact ⟨_, _, _, rfl⟩

theorem parseEntityDecl_form {s s' : Lex.Stream} {t : Token}
    (h : parseEntityDecl s = some (t, s')) : ∃ sp, t = .entityDecl sp := by
  simp only [parseEntityDecl, Option.bind_eq_bind, Option.bind_eq_some_iff, Option.some.injEq,
    Prod.mk.injEq] at h
  obtain ⟨s2, h2, s4, h4, ⟨n, s5⟩, h5, s6, h6, s7, h7, s8, h8, rfl, rfl⟩ := h
  exact ⟨_, rfl⟩

theorem parseElementStart_spelled {src : Str} {s s' : Lex.Stream} {t : Token} (hw : SWf src s)
    (h : parseElementStart s = some (t, s')) : t.Spelled src ∧ t.isCharData = false ∧ t.isDecl = false := by
  simp only [parseElementStart, Option.bind_eq_bind, Option.bind_eq_some_iff, Option.some.injEq,
    Prod.mk.injEq] at h
  obtain ⟨⟨p, l, s1⟩, h1, rfl, rfl⟩ := h
  exact ⟨consumeQName_name (hw.adv 1) h1, rfl, rfl⟩

theorem parseAttribute_spelled {src : Str} {s s' : Lex.Stream} {t : Token} (hw : SWf src s)
    (h : parseAttribute s = some (t, s')) : t.Spelled src ∧ t.isCharData = false ∧ t.isDecl = false := by
  have hw1 : SWf src s.skipSpaces := hw.reach (skipSpaces_reach s)
  unfold parseAttribute at h
  dsimp only at h
  split at h
  · next hc =>
    simp only [Option.bind_eq_bind, Option.bind_eq_some_iff, Option.some.injEq,
      Prod.mk.injEq] at h
    obtain ⟨s2, h2, rfl, rfl⟩ := h
    refine ⟨?_, rfl, rfl⟩
    show (sliceBack s.skipSpaces s2).text = ['/', '>']
    have r1 : Reach s.skipSpaces (s.skipSpaces.adv 1) := Reach.adv _ 1
    rw [Reach.text_split r1 (consumeByte_reach h2), consumeByte_text h2, sliceBack_text_adv]
    obtain ⟨r, hr⟩ := curr_rest (c := '/') (by simpa using hc)
    rw [hr]; rfl
  · split at h
    · next hc =>
      simp only [Option.some.injEq, Prod.mk.injEq] at h
      obtain ⟨rfl, rfl⟩ := h
      refine ⟨?_, rfl, rfl⟩
      show (sliceBack s.skipSpaces (s.skipSpaces.adv 1)).text = ['>']
      rw [sliceBack_text_adv]
      obtain ⟨r, hr⟩ := curr_rest (c := '>') (by simpa using hc)
      rw [hr]; rfl
    · split at h
      · simp at h
      · simp only [Option.bind_eq_bind, Option.bind_eq_some_iff, Option.some.injEq,
          Prod.mk.injEq] at h
        obtain ⟨⟨p, l, s2⟩, h2, s3, h3, ⟨q, s4⟩, h4, s5, h5, s6, h6, rfl, rfl⟩ := h
        refine ⟨⟨consumeQName_name hw1 h2, q, (sliceBack s.skipSpaces s3).text, (consumeQuote_text h4).2, ?_, ?_⟩,
          rfl, rfl⟩
        · -- the whole span: name, `=`, quote, value, quote
          have r13 : Reach s.skipSpaces s3 := (consumeQName_reach h2).trans (consumeEq_reach h3)
          have r34 : Reach s3 s4 := consumeQuote_reach h4
          have r45 : Reach s4 s5 := skipChars_reach h5
          have r56 : Reach s5 s6 := consumeByte_reach h6
          show (sliceBack s.skipSpaces s6).text = _
          rw [Reach.text_split r13 ((r34.trans r45).trans r56), Reach.text_split r34 (r45.trans r56),
            Reach.text_split r45 r56, (consumeQuote_text h4).1, consumeByte_text h6]
          rfl
        · -- the value starts one byte (the quote) after the text in front of it
          have r13 : Reach s.skipSpaces s3 := (consumeQName_reach h2).trans (consumeEq_reach h3)
          have r34 : Reach s3 s4 := consumeQuote_reach h4
          show s4.pos = s.skipSpaces.pos + strLen (sliceBack s.skipSpaces s3).text + 1
          rw [Reach.pos_eq r34, Reach.pos_eq r13, (consumeQuote_text h4).1]
          have : strLen [q] = 1 := by
            rcases (consumeQuote_text h4).2 with rfl | rfl <;> decide
          rw [this]

/-- `parse_close_element` on a stream that begins `</`. -/
theorem parseCloseElement_spelled {src : Str} {s s' : Lex.Stream} {t : Token} (hw : SWf src s)
    (hc : s.curr? = some '<') (hn : s.next? = some '/')
    (h : parseCloseElement s = some (t, s')) : t.Spelled src ∧ t.isCharData = false ∧ t.isDecl = false := by
  simp only [parseCloseElement, Option.bind_eq_bind, Option.bind_eq_some_iff, Option.some.injEq,
    Prod.mk.injEq] at h
  obtain ⟨⟨p, l, s1⟩, h1, s2, h2, rfl, rfl⟩ := h
  refine ⟨⟨consumeQName_name (hw.adv 2) h1, ?_⟩, rfl, rfl⟩
  have r1 : Reach s (s.adv 2) := Reach.adv s 2
  have r2 : Reach (s.adv 2) s1.skipSpaces := (consumeQName_reach h1).trans (skipSpaces_reach s1)
  have r3 : Reach s1.skipSpaces s2 := consumeByte_reach h2
  refine ⟨(sliceBack (s.adv 2) s1.skipSpaces).text, ?_⟩
  show (sliceBack s s2).text = _
  rw [Reach.text_split r1 (r2.trans r3), Reach.text_split r2 r3, consumeByte_text h2, sliceBack_text_adv]
  obtain ⟨r, hr⟩ := curr_rest hc
  simp only [Stream.next?, hr, List.tail_cons] at hn
  cases r with
  | nil => cases hn
  | cons d r' =>
    simp only [List.head?_cons, Option.some.injEq] at hn
    subst hn
    rw [hr]; rfl

/-- The scan of `skip_chars(|s, c| !(c == ']' && s.starts_with("]]>")))` stops at the first `]]>`. -/
theorem scanChars_noClose : ∀ (r : Str) (k : Nat),
    scanChars (fun r c => !(c == ']' && litCdataClose.isPrefixOf r)) r = some k →
      k ≤ r.length ∧ ∀ j, j < k → litCdataClose.isPrefixOf (r.drop j) = false := by
  intro r
  induction r with
  | nil =>
    intro k h
    simp only [scanChars, Option.some.injEq] at h
    subst h
    exact ⟨Nat.le_refl _, fun j hj => by omega⟩
  | cons c cs ih =>
    intro k h
    simp only [scanChars] at h
    split at h
    · cases h
    · split at h
      · next hf =>
        simp only [Option.map_eq_some_iff] at h
        obtain ⟨k', hk', rfl⟩ := h
        obtain ⟨h1, h2⟩ := ih k' hk'
        refine ⟨by simp only [List.length_cons]; omega, ?_⟩
        intro j hj
        cases j with
        | zero =>
          simp only [List.drop_zero]
          simp only [Bool.not_eq_true', Bool.and_eq_false_iff] at hf
          rcases hf with hf | hf
          · -- the first character is not `]`
            cases hp : litCdataClose.isPrefixOf (c :: cs) with
            | false => rfl
            | true =>
              obtain ⟨x, hx⟩ := List.isPrefixOf_iff_prefix.mp hp
              simp only [litCdataClose, List.cons_append, List.cons.injEq] at hx
              obtain ⟨rfl, _⟩ := hx
              simp at hf
          · exact hf
        | succ j' =>
          simp only [List.drop_succ_cons]
          exact h2 j' (by omega)
      · simp only [Option.some.injEq] at h
        subst h
        exact ⟨Nat.zero_le _, fun j hj => by omega⟩

theorem isPrefixOf_close_append (a b : Str) (h : 3 ≤ a.length) :
    litCdataClose.isPrefixOf (a ++ b) = litCdataClose.isPrefixOf a := by
  match a, h with
  | x :: y :: z :: a', _ => simp [litCdataClose, List.isPrefixOf]

/-- `parse_cdata` on a stream that begins `<![CDATA[`. -/
theorem parseCdata_spelled {src : Str} {s s' : Lex.Stream} {t : Token}
    (ho : s.startsWith litCdataOpen = true)
    (h : parseCdata s = some (t, s')) : t.Spelled src := by
  simp only [parseCdata, Option.bind_eq_bind, Option.bind_eq_some_iff, Option.some.injEq,
    Prod.mk.injEq] at h
  obtain ⟨s2, h2, s3, h3, rfl, rfl⟩ := h
  have r1 : Reach s (s.adv 9) := Reach.adv s 9
  have r2 : Reach (s.adv 9) s2 := skipChars_reach h2
  have r3 : Reach s2 s3 := skipString_reach h3
  have hopen : (sliceBack s (s.adv 9)).text = litCdataOpen := by
    rw [sliceBack_text_adv]; exact startsWith_take ho
  refine ⟨?_, ?_, ?_⟩
  · show (sliceBack s s3).text = _
    rw [Reach.text_split r1 (r2.trans r3), Reach.text_split r2 r3, skipString_text h3, hopen,
      List.append_assoc]
  · show (s.adv 9).pos = s.pos + 9
    rw [Reach.pos_eq r1, hopen]; rfl
  · -- no `]]>` begins inside the content
    simp only [skipChars, Option.map_eq_some_iff] at h2
    obtain ⟨k, hk, rfl⟩ := h2
    obtain ⟨hkl, hno⟩ := scanChars_noClose _ k hk
    have htext : (sliceBack (s.adv 9) ((s.adv 9).adv k)).text = (s.adv 9).rest.take k := sliceBack_text_adv _ k
    have hclose : ((s.adv 9).adv k).rest.take 3 = litCdataClose := by
      unfold Stream.skipString at h3
      split at h3
      · next hc => exact startsWith_take hc
      · cases h3
    intro j hj
    show litCdataClose.isPrefixOf (((sliceBack (s.adv 9) ((s.adv 9).adv k)).text ++ litCdataClose).drop j) = false
    rw [htext] at hj ⊢
    have hlen : ((s.adv 9).rest.take k).length = k := by
      rw [List.length_take]; exact Nat.min_eq_left hkl
    rw [hlen] at hj
    have hj' := hno j hj
    -- the stream ahead is `content ++ "]]>" ++ more`
    have hsplit : (s.adv 9).rest = ((s.adv 9).rest.take k ++ litCdataClose) ++ ((s.adv 9).adv k).rest.drop 3 := by
      rw [List.append_assoc, ← hclose, List.take_append_drop]
      simp only [adv_rest]
      exact (List.take_append_drop k _).symm
    rw [hsplit, List.drop_append_of_le_length (by rw [List.length_append, hlen]; omega)] at hj'
    rw [isPrefixOf_close_append] at hj'
    · exact hj'
    · simp only [List.length_drop, List.length_append, hlen, litCdataClose, List.length_cons, List.length_nil]
      omega

theorem parseText_spelled {src : Str} {s s' : Lex.Stream} {t : Token}
    (hc : (s.curr? == some '<') = false) (he : s.atEnd = false)
    (h : parseText s = some (t, s')) : t.Spelled src := by
  have ha := parseText_adv1 h hc he
  obtain ⟨rfl, r⟩ := parseText_form h
  simp only [parseText, Option.bind_eq_bind, Option.bind_eq_some_iff] at h
  obtain ⟨s1, h1, h⟩ := h
  have e : s' = s1 := by
    split at h
    · simp at h
    · simp at h; exact h.2.symm
  subst e
  simp only [skipChars, Option.map_eq_some_iff] at h1
  obtain ⟨k, hk, rfl⟩ := h1
  refine ⟨?_, ?_⟩
  · -- not empty: at least one character was consumed
    intro hnil
    have hlt := ha.len_lt he
    have happ := Reach.text_append r
    rw [hnil] at happ
    simp only [List.nil_append] at happ
    rw [happ] at hlt
    omega
  · -- no `<`: the scan stops in front of the first one
    rw [sliceBack_text_adv]
    have : ∀ (r : Str) (k : Nat), scanChars (fun _ c => c != '<') r = some k → '<' ∉ r.take k := by
      intro r
      induction r with
      | nil => intro k _; simp
      | cons c cs ih =>
        intro k hk
        simp only [scanChars] at hk
        split at hk
        · cases hk
        · split at hk
          · next hf =>
            simp only [Option.map_eq_some_iff] at hk
            obtain ⟨k', hk', rfl⟩ := hk
            simp only [List.take_succ_cons, List.mem_cons, not_or]
            exact ⟨by intro hx; subst hx; simp at hf, ih k' hk'⟩
          · simp only [Option.some.injEq] at hk
            subst hk
            simp
    exact this _ k hk

/-- `skip_chars(|_, c| c != '<')` stops at the end of the text or in front of a `<`. -/
theorem scanChars_lt_stop : ∀ (r : Str) (k : Nat), scanChars (fun _ c => c != '<') r = some k →
    (r.drop k).isEmpty = true ∨ (r.drop k).head? = some '<' := by
  intro r
  induction r with
  | nil => intro k h; simp only [scanChars, Option.some.injEq] at h; subst h; exact .inl rfl
  | cons c cs ih =>
    intro k h
    simp only [scanChars] at h
    split at h
    · cases h
    · split at h
      · simp only [Option.map_eq_some_iff] at h
        obtain ⟨k', hk', rfl⟩ := h
        simpa using ih k' hk'
      · next hf =>
        simp only [Option.some.injEq] at h
        subst h
        right
        have : c = '<' := by simpa using hf
        simp [this]

theorem parseText_after {s s' : Lex.Stream} {t : Token} (h : parseText s = some (t, s')) :
    s'.atEnd = true ∨ s'.curr? = some '<' := by
  simp only [parseText, Option.bind_eq_bind, Option.bind_eq_some_iff] at h
  obtain ⟨s1, h1, h⟩ := h
  have e : s' = s1 := by
    split at h
    · simp at h
    · simp at h; exact h.2.symm
  subst e
  simp only [skipChars, Option.map_eq_some_iff] at h1
  obtain ⟨k, hk, rfl⟩ := h1
  exact scanChars_lt_stop _ k hk

/-! ### One call of `parse_next_impl` -/

/-- The character-data facts of a token step: what kind of token it is and, when the tokenizer is
    left in `Elements`, where it begins and ends. -/
structure StepFacts (src : Str) (tk : Tokenizer) (t : Token) (tk' : Tokenizer) : Prop where
  spelled : t.Spelled src
  /-- a character-data token comes out of `Elements` and begins at the stream position -/
  charStart : t.isCharData = true → tk.state = .elements ∧ t.wholeSpan.start = tk.stream.pos
  charStop : t.isCharData = true → t.wholeSpan.stop = tk'.stream.pos
  declState : t.isDecl = true → tk'.state = .afterDeclaration
  textBefore : t.isTextTok = true → tk.stream.curr? ≠ some '<'
  textAfter : t.isTextTok = true → tk'.stream.atEnd = true ∨ tk'.stream.curr? = some '<'

theorem Token.isCharData_of_isTextTok {t : Token} (h : t.isTextTok = true) : t.isCharData = true := by
  cases t <;> simp_all [Token.isTextTok, Token.isCharData]

theorem StepFacts.of_other {src : Str} {tk tk' : Tokenizer} {t : Token} (hs : t.Spelled src)
    (h1 : t.isCharData = false) (h2 : t.isDecl = false) : StepFacts src tk t tk' :=
  ⟨hs, fun h => (by rw [h1] at h; cases h), fun h => (by rw [h1] at h; cases h), fun h => (by rw [h2] at h; cases h),
    fun h => (by rw [Token.isCharData_of_isTextTok h] at h1; cases h1),
    fun h => (by rw [Token.isCharData_of_isTextTok h] at h1; cases h1)⟩

/-- The `Elements` arm of `parse_next_impl`, with the tests that select the parser. -/
theorem parseNextImpl_elements {src : Str} {tk tk' : Tokenizer} {t : Token}
    (hw : SWf src tk.stream) (he : tk.stream.atEnd = false) (hst : tk.state = .elements)
    (h : parseNextImpl tk = .token t tk') : StepFacts src tk t tk' := by
  unfold parseNextImpl at h
  simp only [he, Bool.false_eq_true, if_false, hst] at h
  split at h
  · next hc =>
    have hc' : tk.stream.curr? = some '<' := by simpa using hc
    split at h
    · simp at h
    · next c hn =>
      split at h
      · split at h
        · obtain ⟨s', hr, rfl⟩ := Step.ofParse_token h
          obtain ⟨a, b, rfl⟩ := parseComment_form hr
          exact .of_other trivial rfl rfl
        · split at h
          · next ho =>
            obtain ⟨s', hr, rfl⟩ := Step.ofParse_token h
            have hsp := parseCdata_spelled (src := src) ho hr
            obtain ⟨s2, rfl, r1, r2⟩ := parseCdata_form hr
            refine ⟨hsp, fun _ => ⟨hst, rfl⟩, fun _ => ?_, fun hd => (by cases hd), fun hd => (by cases hd),
              fun hd => (by cases hd)⟩
            exact Reach.sliceBack_stop (((Reach.adv _ 9).trans r1).trans r2)
          · simp at h
      · split at h
        · split at h
          · obtain ⟨s', hr, rfl⟩ := Step.ofParse_token h
            obtain ⟨a, c, b, rfl⟩ := parsePI_form hr
            exact .of_other trivial rfl rfl
          · simp at h
        · split at h
          · next hsl =>
            obtain ⟨s', hr, rfl⟩ := Step.ofParse_token h
            have hn' : tk.stream.next? = some '/' := by
              rw [hn]; congr 1; simpa using hsl
            obtain ⟨a, b, c⟩ := parseCloseElement_spelled hw hc' hn' hr
            exact .of_other a b c
          · obtain ⟨s', hr, rfl⟩ := Step.ofParse_token h
            obtain ⟨a, b, c⟩ := parseElementStart_spelled hw hr
            exact .of_other a b c
  · next hc =>
    obtain ⟨s', hr, rfl⟩ := Step.ofParse_token h
    have hc' : (tk.stream.curr? == some '<') = false := by simpa using hc
    have hsp := parseText_spelled (src := src) hc' he hr
    have haft := parseText_after hr
    obtain ⟨rfl, r⟩ := parseText_form hr
    exact ⟨hsp, fun _ => ⟨hst, rfl⟩, fun _ => Reach.sliceBack_stop r, fun hd => (by cases hd),
      fun _ => (by simpa using hc), fun _ => haft⟩

/-- Every token step. -/
theorem parseNextImpl_facts {src : Str} {tk tk' : Tokenizer} {t : Token}
    (hw : SWf src tk.stream) (he : tk.stream.atEnd = false)
    (h : parseNextImpl tk = .token t tk') : StepFacts src tk t tk' := by
  by_cases hst : tk.state = .elements
  · exact parseNextImpl_elements hw he hst h
  · have ts := parseNextImpl_tokStep hw he h
    cases ts with
    | decl _ hp =>
      obtain ⟨v, e, sa, sp, rfl⟩ := parseDeclaration_form hp
      exact ⟨trivial, fun hx => (by cases hx), fun hx => (by cases hx), fun _ => rfl, fun hx => (by cases hx),
        fun hx => (by cases hx)⟩
    | doctype _ _ hp _ =>
      rcases (parseDoctype_good hw hp).2 with ⟨sp, rfl⟩ | ⟨sp, rfl⟩ <;> exact .of_other trivial rfl rfl
    | entity _ hp =>
      obtain ⟨sp, rfl⟩ := parseEntityDecl_form hp
      exact .of_other trivial rfl rfl
    | comment _ hp =>
      obtain ⟨a, b, rfl⟩ := parseComment_form hp
      exact .of_other trivial rfl rfl
    | pi _ hp =>
      obtain ⟨a, c, b, rfl⟩ := parsePI_form hp
      exact .of_other trivial rfl rfl
    | dtdEnd _ _ => exact .of_other trivial rfl rfl
    | start _ hp =>
      obtain ⟨a, b, c⟩ := parseElementStart_spelled hw hp
      exact .of_other a b c
    | cdata hs _ => exact absurd hs hst
    | text hs _ => exact absurd hs hst
    | close hs _ => exact absurd hs hst
    | attr _ hp _ =>
      obtain ⟨a, b, c⟩ := parseAttribute_spelled hw hp
      exact .of_other a b c
    | tagOpen _ hp =>
      obtain ⟨a, b, c⟩ := parseAttribute_spelled hw hp
      exact .of_other a b c
    | tagEmpty _ hp =>
      obtain ⟨a, b, c⟩ := parseAttribute_spelled hw hp
      exact .of_other a b c

/-! ### The loop -/

theorem lexLoop_spelled (src : Str) (tk : Tokenizer) (position : Nat) :
    SWf src tk.stream →
    (∀ t ∈ (lexLoop tk position).1, t.Spelled src) ∧
    (∀ t rest, (lexLoop tk position).1 = t :: rest → t.isCharData = true →
      tk.state = .elements ∧ t.wholeSpan.start = tk.stream.pos ∧
        (t.isTextTok = true → tk.stream.curr? ≠ some '<')) ∧
    AdjChain CharAdj (lexLoop tk position).1 := by
  fun_induction lexLoop tk position with
  | case1 tk pos hc =>
    intro _
    exact ⟨fun t ht => (by cases ht), fun t rest h => (by cases h), trivial⟩
  | case2 tk pos hc tk' hs ih =>
    intro hw
    have he : tk.stream.atEnd = false := by
      cases h : tk.stream.atEnd <;> simp_all
    have sk := parseNextImpl_skipStep he (fun h => hc (.inr h)) hs
    obtain ⟨h1, h2, h3⟩ := ih (hw.reach sk.reach)
    refine ⟨h1, ?_, h3⟩
    intro t rest hl hcd
    exact absurd (h2 t rest hl hcd).1 sk.notElem'
  | case3 tk pos hc t tk' hs r ih =>
    intro hw
    have he : tk.stream.atEnd = false := by
      cases h : tk.stream.atEnd <;> simp_all
    have hw' : SWf src tk'.stream := hw.reach (parseNextImpl_token he hs).reach
    have sf := parseNextImpl_facts hw he hs
    obtain ⟨h1, h2, h3⟩ := ih hw'
    refine ⟨?_, ?_, ?_⟩
    · intro t' ht'
      rcases List.mem_cons.mp ht' with rfl | ht'
      · exact sf.spelled
      · exact h1 t' ht'
    · intro t0 rest hl hcd
      simp only [List.cons.injEq] at hl
      obtain ⟨rfl, _⟩ := hl
      exact ⟨(sf.charStart hcd).1, (sf.charStart hcd).2, sf.textBefore⟩
    · cases hr : r.1 with
      | nil => trivial
      | cons t2 rest =>
        rw [hr] at h3
        refine ⟨?_, h3⟩
        intro hcd
        obtain ⟨hst, hstart, htb⟩ := h2 t2 rest hr hcd
        refine ⟨?_, fun hc1 => ?_, fun ht1 => ?_⟩
        · cases hd : t.isDecl with
          | false => rfl
          | true => have := sf.declState hd; rw [hst] at this; cases this
        · rw [sf.charStop hc1, hstart]
        · cases ht2 : t2.isTextTok with
          | false => rfl
          | true =>
            rcases sf.textAfter ht1 with hae | hlt
            · -- nothing follows the end of the text
              have : r.1 = [] := by
                show (lexLoop tk' tk'.stream.pos).1 = []
                rw [lexLoop]; simp [hae]
              rw [this] at hr; cases hr
            · exact absurd hlt (htb ht2)
  | case4 tk pos hc hs =>
    intro _
    exact ⟨fun t ht => (by cases ht), fun t rest h => (by cases h), trivial⟩

end XotModel.Lex.Slice

namespace XotModel

open XotModel.Lex.Slice

theorem lexDocument_spelled (s : Str) :
    (∀ t ∈ (lexDocument s).1, t.Spelled s) ∧ AdjChain CharAdj (lexDocument s).1 :=
  have h := lexLoop_spelled s (Lex.Tokenizer.ofStr s) _ (ofStr_swf s)
  ⟨h.1, h.2.2⟩

theorem lexFragment_spelled (s : Str) :
    (∀ t ∈ (lexFragment s).1, t.Spelled s) ∧ AdjChain CharAdj (lexFragment s).1 :=
  have h := lexLoop_spelled s (Lex.Tokenizer.ofFragment s) _ (SWf.ofStr s)
  ⟨h.1, h.2.2⟩

end XotModel
