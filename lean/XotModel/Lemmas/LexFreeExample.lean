/-
  XotModel.Lemmas.LexFreeExample — closed data for the non-vacuity examples of the lexical-layout
  theorems (Props/C02.lean): one spelling `exSns`, one layout of its tokens `exDoc` with a BOM, an
  XML declaration with single quotes and white space around `=`, a comment before the root, single
  and double quotes, TAB / LF / CR LF inside tags, white space around `=`, before `>` and `/>`, in
  the end tag, between the top-level items and at the end:

      U+FEFF<?xml version = '1.0' encoding="UTF-8" ?>LF<!--c-->LF<p:a LF TAB xmlns:p='u' k = CR LF "v&amp;" TAB><b LF/>t</p:a LF>LF
-/
import XotModel.Lemmas.LexFreeTop
import XotModel.Lemmas.ParseNsDefs

namespace XotModel.Witness

/-- `<!--c--><p:a xmlns:p="u" k="v&amp;"><b/>t</p:a>` as a spelling (all positions 0: they play no
    role for the result, `C02_positions_irrelevant`). -/
def exSns : List NSNode :=
  [.comment ⟨['c'], 0⟩ ⟨[], 0⟩,
   .elem ⟨['p'], 0⟩ ⟨['a'], 0⟩ ⟨[], 0⟩
     [{ pfx := ⟨xmlnsStr, 0⟩, loc := ⟨['p'], 0⟩, pieces := [.lit 'u'], vstart := 0, junk := ⟨[], 0⟩ },
      { pfx := ⟨[], 0⟩, loc := ⟨['k'], 0⟩, pieces := [.lit 'v', .named ['a', 'm', 'p']], vstart := 0,
        junk := ⟨[], 0⟩ }]
     ⟨[], 0⟩
     [.empty ⟨[], 0⟩ ⟨['b'], 0⟩ ⟨[], 0⟩ [] ⟨[], 0⟩, .chars [.txt [.lit 't'] 0]]
     ⟨['p'], 0⟩ ⟨['a'], 0⟩ ⟨[], 0⟩]

/-- One layout per token of `exSns`. -/
def exLayouts : List (Token → LToken) :=
  [fun t => { token := t, lead := ['\n'] },                                    -- <!--c-->
   fun t => { token := t, lead := ['\n'] },                                    -- <p:a
   fun t => { token := t, lead := ['\n', '\t'], single := true },              -- xmlns:p='u'
   fun t => { token := t, lead := [' '], ws1 := [' '], ws2 := ['\r', '\n'] },  -- k = "v&amp;"
   fun t => { token := t, lead := ['\t'] },                                    -- >
   fun t => { token := t },                                                    -- <b
   fun t => { token := t, lead := ['\n'] },                                    -- />
   fun t => { token := t },                                                    -- t
   fun t => { token := t, ws1 := ['\n'] }]                                     -- </p:a >

def exItems : List LToken := List.zipWith (fun t f => f t) (NSNode.tokens.tokensList exSns) exLayouts

def exDecl : LDecl :=
  { minor := ['0'], encoding := some ['U', 'T', 'F', '-', '8'],
    vEq := { before := [' '], after := [' '], single := true }, wEnd := [' '] }

def exDoc : LDoc := { bom := true, decl := some exDecl, items := exItems, trail := ['\n'] }

/-- The text of `exDoc` (the line quoted in the header). -/
def exText : Str :=
  ['\uFEFF', '<', '?', 'x', 'm', 'l', ' ', 'v', 'e', 'r', 's', 'i', 'o', 'n', ' ', '=', ' ', '\'', '1', '.', '0', '\'',
   ' ', 'e', 'n', 'c', 'o', 'd', 'i', 'n', 'g', '=', '"', 'U', 'T', 'F', '-', '8', '"', ' ', '?', '>', '\n',
   '<', '!', '-', '-', 'c', '-', '-', '>', '\n',
   '<', 'p', ':', 'a', '\n', '\t', 'x', 'm', 'l', 'n', 's', ':', 'p', '=', '\'', 'u', '\'',
   ' ', 'k', ' ', '=', '\r', '\n', '"', 'v', '&', 'a', 'm', 'p', ';', '"', '\t', '>',
   '<', 'b', '\n', '/', '>', 't', '<', '/', 'p', ':', 'a', '\n', '>', '\n']

end XotModel.Witness
