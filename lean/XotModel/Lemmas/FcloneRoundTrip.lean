/-
  Lemmas for C12, part 28: the reparse consequence of `clone_with_prefixes` serialising — the clone,
  serialised on its own and parsed back, is the document holding the clone, and `deep_equal` to the
  document holding `clone_node`'s copy of the source (namespace nodes are invisible to `deep_equal`).
-/
import XotModel.Lemmas.FclonePrefix9
import XotModel.Lemmas.FcloneSerialises

namespace XotModel
open HTree

/-! ### Namespace leaves are invisible to `canon` and harmless for `valid` -/

theorem fcr_not_normal {x : Tree} (h : (x.value.category == Category.namespace) = true) :
    x.value.isNormal = false := by
  cases hv : x.value <;> simp [hv, Value.category, Value.isNormal] at h ⊢

theorem fcr_not_attr {x : Tree} (h : (x.value.category == Category.namespace) = true) :
    x.value.category ≠ .attribute := by
  cases hv : x.value <;> simp [hv, Value.category] at h ⊢

theorem fcr_canonList_append (a b : List Tree) :
    canon.canonList (a ++ b) = canon.canonList a ++ canon.canonList b := by
  induction a with
  | nil => rfl
  | cons k ks ih =>
    simp only [List.cons_append, canon.canonList, ih]
    split <;> simp

theorem fcr_canonList_ns (n : List Tree) (h : ∀ x ∈ n, (x.value.category == Category.namespace) = true) :
    canon.canonList n = [] := by
  induction n with
  | nil => rfl
  | cons k ks ih =>
    simp only [canon.canonList, fcr_not_normal (h k (by simp)), Bool.false_eq_true, if_false]
    exact ih (fun x hx => h x (by simp [hx]))

theorem fcr_attrPairs_insert (a n b : List Tree)
    (hn : ∀ x ∈ n, (x.value.category == Category.namespace) = true) :
    attrPairs (a ++ n ++ b) = attrPairs (a ++ b) := by
  rw [attrPairs_append, attrPairs_append, attrPairs_append, attrPairs_eq_nil (fun k hk => fcr_not_attr (hn k hk)),
    List.append_nil]

/-- Inserting namespace leaves among the children does not change the canonical form. -/
theorem fcr_canon_insert (v : Value) (a n b : List Tree)
    (hn : ∀ x ∈ n, (x.value.category == Category.namespace) = true) :
    canon (.node v (a ++ n ++ b)) = canon (.node v (a ++ b)) := by
  have h1 : cvalue v (a ++ n ++ b) = cvalue v (a ++ b) := by
    cases v <;> simp only [cvalue, fcr_attrPairs_insert a n b hn]
  simp only [canon, h1, fcr_canonList_append, fcr_canonList_ns n hn, List.append_nil]

theorem fcr_dropWhile_ns (a b : List Tree) (ha : ∀ x ∈ a, (x.value.category == Category.namespace) = true) :
    (a ++ b).dropWhile (fun k => k.value.category == .namespace) =
      b.dropWhile (fun k => k.value.category == .namespace) := by
  rw [List.dropWhile_append_of_pos ha]

/-- Removing namespace nodes that stand among the leading namespace nodes keeps validity. -/
theorem fcr_valid_remove (v : Value) (a n b : List Tree)
    (ha : ∀ x ∈ a, (x.value.category == Category.namespace) = true)
    (hn : ∀ x ∈ n, (x.value.category == Category.namespace) = true)
    (h : (Tree.node v (a ++ n ++ b)).valid = true) : (Tree.node v (a ++ b)).valid = true := by
  obtain ⟨h1, h2, h3, h4⟩ := valid_node h
  have han : ∀ x ∈ a ++ n, (x.value.category == Category.namespace) = true := by
    intro x hx
    rcases List.mem_append.mp hx with hx | hx
    · exact ha x hx
    · exact hn x hx
  simp only [Tree.valid, Bool.and_eq_true, Bool.or_eq_true, List.isEmpty_iff, validList_iff]
  refine ⟨⟨⟨?_, ?_⟩, ?_⟩, ?_⟩
  · unfold orderedKids at h1 ⊢
    rw [fcr_dropWhile_ns (a ++ n) b han] at h1
    rw [fcr_dropWhile_ns a b ha]
    exact h1
  · unfold attrNamesNodup at h2 ⊢
    rw [fcr_attrPairs_insert a n b hn] at h2
    exact h2
  · rcases h3 with h3 | h3
    · exact Or.inl h3
    · right
      simp only [List.append_eq_nil_iff] at h3 ⊢
      exact ⟨h3.1.1, h3.2⟩
  · intro k hk
    apply h4 k
    rcases List.mem_append.mp hk with hk | hk
    · simp [hk]
    · simp [hk]

theorem fcr_canon_doc_single (t t' : Tree) (hn : t.value.isNormal = true) (hn' : t'.value.isNormal = true)
    (h : canon t = canon t') : canon (.node .document [t]) = canon (.node .document [t']) := by
  simp [canon, canon.canonList, cvalue, hn, hn', h]

theorem fcr_valid_doc_single (t : Tree) (hn : t.value.isNormal = true) (hv : t.valid = true) :
    (Tree.node .document [t]).valid = true := by
  simp only [Tree.valid, Bool.and_eq_true, Bool.or_eq_true, List.isEmpty_iff, validList_iff]
  refine ⟨⟨⟨?_, ?_⟩, Or.inl rfl⟩, ?_⟩
  · cases hv' : t.value <;> simp [hv', Value.isNormal, Value.category] at hn <;>
      simp [orderedKids, hv', Value.category, Value.isNormal]
  · cases hv' : t.value <;> simp [hv', Value.isNormal, Value.category] at hn <;>
      simp [attrNamesNodup, attrPairs, hv']
  · intro k hk
    simp only [List.mem_singleton] at hk
    subst hk
    exact hv

theorem fcr_erase_cat (L : List HTree) (h : ∀ x ∈ L, (x.value.category == Category.namespace) = true) :
    ∀ y ∈ eraseList L, (y.value.category == Category.namespace) = true := by
  intro y hy
  rw [eraseList_map] at hy
  obtain ⟨x, hx, rfl⟩ := List.mem_map.mp hy
  rw [erase_value']
  exact h x hx

/-! ### The round trip of the clone -/

/-- `clone_with_prefixes`, serialised on its own and parsed back.  `hrep`: the clone is in the
    round-trip domain (`Representable` of the document holding just it). -/
theorem cloneWithPrefixes_roundtrip (env : Env) (f : Forest) (inv : f.Inv)
    (node : Nat) (hs : Nat) (name : Nat) (Ks : List HTree) (rest : List HTree)
    (hpath : f.pathTo node = .node hs (.element name) Ks :: rest)
    (hser : ∀ r ∈ f.roots, HTree.pathTo node r = some (.node hs (.element name) Ks :: rest) →
      writableTree env (FStack.new (namespacesInScopeChain [r.erase])) r.erase = true)
    (order : List (Nat × Nat))
    (hord : ∀ b, b ∈ order ↔ b ∈ f.inheritedPrefixes env node)
    (hfun : ∀ a ∈ order, ∀ b ∈ order, a.1 = b.1 → a = b)
    (hrep : ∀ c C, (f.cloneWithPrefixes node order).2 = some c →
      (f.cloneWithPrefixes node order).1.get? c = some C →
      Representable env (.node .document [C.erase]) = true) :
    ∃ c C s p, (f.cloneWithPrefixes node order).2 = some c ∧
      (f.cloneWithPrefixes node order).1.get? c = some C ∧
      (f.cloneWithPrefixes node order).1.isRoot c = true ∧ C.value = .element name ∧
      serializeString env {} C.erase [] = .ok s ∧ parseString .document env s = .ok p ∧
      p.tree = .node .document [C.erase] ∧ p.env = env ∧
      deepEqual p.tree (.node .document [expectedClone f.consolidation
        (erase (.node hs (.element name) Ks))]) = true := by
  obtain ⟨f2, c, A, New, B, hres, hR, hg2, hp2, hA, hB, hNew, h6, -, -⟩ :=
    cloneWithPrefixes_shape f inv node hs name Ks rest hpath order
  obtain ⟨c', hc', hser'⟩ := cloneWithPrefixes_serialises env f inv node hs name Ks rest hpath hser order hord hfun
  have hr := hrep c (.node c (.element name) (A ++ New ++ B)) (by rw [hres]) (by rw [hres]; exact hg2)
  rw [hres] at hc' hser' ⊢
  cases hc'
  -- `serialises` is `to_string(clone)` succeeding
  unfold Forest.serialises at hser'
  simp only [hg2] at hser'
  unfold Forest.prefixesInScope Forest.chain at hser'
  rw [hp2] at hser'
  simp only [List.map_cons, List.map_nil] at hser'
  have hfrag : RepresentableFragment env (.node .document [erase (.node c (.element name) (A ++ New ++ B))]) = true := by
    simp only [Representable, Bool.and_eq_true] at hr; exact hr.1
  obtain ⟨henv, -, hn, -⟩ := (representableFragment_iff env _).mp hfrag
  have hx : env.prefixStr Env.xmlPrefix ≠ [] := by rw [envOK_xmlPrefix env henv]; simp
  have hnt : (erase (.node c (.element name) (A ++ New ++ B))).allNodes (nodeOK env) = true :=
    allNodes_kid hn (by simp)
  obtain ⟨s, hs'⟩ := (serializeString_root_ok_iff (env := env) {} rfl _ hx (nodeOK_declsNamed env _ hnt)).mpr hser'
  obtain ⟨p, hp, hpt, hpe, -⟩ := roundtrip_element env _ hr rfl s hs'
  refine ⟨c, _, s, p, rfl, hg2, ?_, rfl, hs', hp, hpt, hpe, ?_⟩
  · unfold Forest.isRoot
    rw [hR]
    simp [HTree.handle]
  · -- deep_equal ignores the added declaration leaves
    have hNc : ∀ y ∈ eraseList New, (y.value.category == Category.namespace) = true :=
      fcr_erase_cat New (fun x hx => (hNew x hx).cat)
    have hAc := fcr_erase_cat A hA
    have hT : erase (.node c (.element name) (A ++ New ++ B)) =
        .node (.element name) (eraseList A ++ eraseList New ++ eraseList B) := by
      simp only [erase, eraseList_append]
    have hT' : expectedClone f.consolidation (erase (.node hs (.element name) Ks)) =
        .node (.element name) (eraseList A ++ eraseList B) := by
      rw [← h6]; simp only [erase, eraseList_append]
    rw [hpt, hT, hT']
    have hvdoc := valid_of_nodeOK _ hn
    rw [hT] at hvdoc
    have hvT : (Tree.node (.element name) (eraseList A ++ eraseList New ++ eraseList B)).valid = true :=
      (valid_node hvdoc).2.2.2 _ (by simp)
    have hvT' := fcr_valid_remove _ _ _ _ hAc hNc hvT
    rw [deepEqual_iff_canon _ _ hvdoc (fcr_valid_doc_single _ rfl hvT')]
    exact fcr_canon_doc_single _ _ rfl rfl (fcr_canon_insert _ _ _ _ hNc)

end XotModel
