/-
  Lemmas for C20 (extended construction programs), part 8: the invariant along a run of the
  SPECIFICATION, and the refinement theorem specification ⇒ implementation for whole programs.

  `spec_inv`: every call of an extended program that the specification accepts preserves `Forest.Inv`
  and the flags (per call: `Lemmas/Fprog2Inv1.lean` … `Fprog2Inv4.lean`, stated for the whole-run
  reading of the merge clause, which on a forest without adjacent text nodes IS the pair reading the
  programs are specified with — C05, by name).  `run_spec_impl`: induction over the program with
  `call_spec_impl` (`Lemmas/Fprog2Ref.lean`).
-/
import XotModel.Lemmas.Fprog2Ref
import XotModel.Lemmas.Fprog2Inv2
import XotModel.Lemmas.Fprog2Inv3
import XotModel.Lemmas.Fprog2Inv4

namespace XotModel
namespace Prog2
open HTree Spec Prog XotModel.Props

theorem get_of_live {f : Forest} {n : Nat} (h : f.isLive n = true) : ∃ t, f.get? n = some t := by
  unfold Forest.isLive at h
  cases hg : f.get? n with
  | none => rw [hg] at h; cases h
  | some t => exact ⟨t, rfl⟩

/-- A call the specification accepts preserves the invariant and the flags. -/
theorem spec_inv {f f' : Forest} {c : Call} {o : Option Nat} (inv : f.Inv) (hfl : FlagsOk f)
    (h : c.spec f = some (f', o)) :
    f'.Inv ∧ f'.consolidation = f.consolidation ∧ f'.everOff = f.everOff := by
  have norm := normal_of_flags inv hfl
  cases c with
  | base c => exact ⟨Prog.spec_inv inv hfl h, Prog.spec_fields h⟩
  | detach n =>
    simp only [Call.spec] at h
    split at h
    · rename_i hl
      simp only [Option.some.injEq, Prod.mk.injEq] at h
      obtain ⟨t, hg⟩ := get_of_live hl
      rw [← h.1, (C05_specDetachP_eq_specDetach_on_normal inv norm hg)]
      refine ⟨specDetach_inv inv hg, ?_⟩
      rw [specDetach_eq inv.nodup hg]
      exact ⟨(specRemove_fields _ n f).1, (specRemove_fields _ n f).2.1⟩
    · cases h
  | remove n =>
    simp only [Call.spec] at h
    split at h
    · rename_i hl
      simp only [Option.some.injEq, Prod.mk.injEq] at h
      obtain ⟨t, hg⟩ := get_of_live hl
      rw [← h.1, (C05_specRemoveP_eq_specRemove_on_normal inv norm hg).1]
      exact ⟨specRemove_inv inv hg, (specRemove_fields _ n f).1, (specRemove_fields _ n f).2.1⟩
    · cases h
  | replace a b =>
    simp only [Call.spec] at h
    split at h
    · rename_i hk
      simp only [Option.some.injEq, Prod.mk.injEq] at h
      have hok := replace_ok inv norm hk
      have hcorner := selfMergeReplace_false inv norm a b
      have e1 : (f.replace a b).1 = specReplaceP a b f := by
        first
          | exact C05_pair_replace_partial inv hok hcorner
          | exact C05_pair_replace_partial inv hok
          | exact C05_pair_replace inv hok
      have e2 : (f.replace a b).1 = specReplaceX a b f := C05_replace_exact inv norm hok
      obtain ⟨q, vq, l, A, r, t, ra, _⟩ := replace_unpack inv hok
      rw [← h.1, ← e1, e2]
      unfold specReplaceX
      obtain ⟨_, hc, he, _⟩ := specReplace_flags (replaceKeep f a b) inv ra
      exact ⟨specReplace_inv inv ra, hc, he⟩
    · cases h
  | wrap n name =>
    simp only [Call.spec] at h
    split at h
    · rename_i hk
      simp only [Option.some.injEq, Prod.mk.injEq] at h
      simp only [wrapOk, Bool.and_eq_true, isMovableAt] at hk
      obtain ⟨hm, _⟩ := hk
      cases hv : f.value? n with
      | none => rw [hv] at hm; simp at hm
      | some v =>
        rw [hv] at hm
        obtain ⟨t, hg, htv⟩ := get_of_value hv
        have hn : t.value.isNormal = true := by
          rw [htv]; cases v <;> simp_all [movable, Value.isNormal, Value.category]
        have hd : t.value.isDocument = false := by
          rw [htv]; cases v <;> simp_all [movable, Value.isDocument]
        rw [← h.1]
        obtain ⟨a, b, _, _⟩ := specWrap_fields n name f hg
        exact ⟨specWrap_inv inv hg hn hd, a, b⟩
    · cases h
  | unwrap n =>
    simp only [Call.spec] at h
    split at h
    · rename_i hk
      simp only [Option.some.injEq, Prod.mk.injEq] at h
      have hok := elementUnwrap_ok inv hk
      have e : specUnwrapP n f = specUnwrap Keep.earlier n f := by
        rw [← C05_pair_unwrap inv hok, C05_unwrap inv norm hok]
      simp only [unwrapOk, Bool.and_eq_true, isElementAt_eq, Bool.or_eq_true] at hk
      obtain ⟨he, hkk⟩ := hk
      have hv : ∃ v, f.value? n = some v := by
        unfold Forest.isElement at he
        cases hvv : f.value? n with
        | none => rw [hvv] at he; simp at he
        | some v => exact ⟨v, rfl⟩
      obtain ⟨v, hv⟩ := hv
      obtain ⟨w, hg, hwv⟩ := get_of_value hv
      have hel : w.value.isElement = true := by
        unfold Forest.isElement at he
        rw [hv] at he
        rw [hwv]; simpa using he
      have hpar : w.kids.filter (fun k => k.value.isNormal) = [] ∨ (f.parent? n).isSome = true := by
        rcases hkk with h1 | h1
        · left
          simp only [Forest.kidsOf, hg] at h1
          exact List.isEmpty_iff.1 h1
        · exact Or.inr h1
      rw [← h.1, e]
      exact ⟨specUnwrap_inv inv hg hel hpar, (specUnwrap_fields _ n f).1, (specUnwrap_fields _ n f).2.1⟩
    · cases h
  | setText n s =>
    simp only [Call.spec] at h
    split at h
    · rename_i x hv
      simp only [Option.some.injEq, Prod.mk.injEq] at h
      rw [← h.1]
      exact ⟨specSetValue_inv inv hv rfl, rfl, rfl⟩
    · cases h
  | setElementName n name =>
    simp only [Call.spec] at h
    split at h
    · rename_i he
      simp only [Option.some.injEq, Prod.mk.injEq] at h
      rw [isElementAt_eq] at he
      obtain ⟨old, hv⟩ := Forest.value_element_of_isElement he
      rw [← h.1]
      exact ⟨specSetValue_inv inv hv rfl, rfl, rfl⟩
    · cases h
  | setAttributeValue n s =>
    simp only [Call.spec] at h
    split at h
    · rename_i k x hv
      simp only [Option.some.injEq, Prod.mk.injEq] at h
      rw [← h.1]
      exact ⟨specSetValue_inv inv hv (by simp [sameKind]), rfl, rfl⟩
    · cases h
  | setComment n s =>
    simp only [Call.spec] at h
    split at h
    · rename_i x hv
      split at h
      · cases h
      · simp only [Option.some.injEq, Prod.mk.injEq] at h
        rw [← h.1]
        exact ⟨specSetValue_inv inv hv rfl, rfl, rfl⟩
    · cases h
  | setPiData n d =>
    simp only [Call.spec] at h
    split at h
    · rename_i t x hv
      simp only [Option.some.injEq, Prod.mk.injEq] at h
      rw [← h.1]
      exact ⟨specSetValue_inv inv hv rfl, rfl, rfl⟩
    · cases h
  | clone n =>
    simp only [Call.spec] at h
    split at h
    · rename_i src hg
      simp only [Option.some.injEq, Prod.mk.injEq] at h
      rw [← h.1]
      exact ⟨specClone_inv inv norm hg, specClone_fields hg⟩
    · cases h

theorem stepSpec_inv {s s' : State} {st : Step} (inv : s.forest.Inv) (hfl : FlagsOk s.forest)
    (h : stepSpec s st = some s') : s'.forest.Inv ∧ FlagsOk s'.forest := by
  unfold stepSpec at h
  cases hr : st.resolve s.env with
  | none => rw [hr] at h; cases h
  | some c =>
    rw [hr] at h
    simp only at h
    cases hc : c.spec s.forest with
    | none => rw [hc] at h; cases h
    | some fo =>
      obtain ⟨f', o⟩ := fo
      rw [hc] at h
      simp only [Option.some.injEq] at h
      rw [← h]
      obtain ⟨i, a, b⟩ := spec_inv inv hfl hc
      exact ⟨i, hfl.of_eq a b⟩

/-- The specification's run preserves the invariant. -/
theorem runSpec_inv : ∀ (P : Program) (s s' : State), s.forest.Inv → FlagsOk s.forest →
    runSpec s P = some s' → s'.forest.Inv ∧ FlagsOk s'.forest
  | [], s, s', inv, hfl, h => by
    simp only [runSpec, Option.some.injEq] at h
    rw [← h]; exact ⟨inv, hfl⟩
  | st :: rest, s, s', inv, hfl, h => by
    simp only [runSpec] at h
    cases hs : stepSpec s st with
    | none => rw [hs] at h; cases h
    | some s1 =>
      rw [hs] at h
      obtain ⟨i1, f1⟩ := stepSpec_inv inv hfl hs
      exact runSpec_inv rest s1 s' i1 f1 h

theorem step_spec_impl {s s' : State} {st : Step} (inv : s.forest.Inv) (hfl : FlagsOk s.forest)
    (h : stepSpec s st = some s') : stepImpl s st = (s', .ok) := by
  unfold stepSpec at h
  unfold stepImpl
  cases hr : st.resolve s.env with
  | none => rw [hr] at h; cases h
  | some c =>
    rw [hr] at h
    simp only at h ⊢
    cases hc : c.spec s.forest with
    | none => rw [hc] at h; cases h
    | some fo =>
      obtain ⟨f', o⟩ := fo
      rw [hc] at h
      simp only [Option.some.injEq] at h
      rw [call_spec_impl inv hfl c hc, ← h]

/-- **Refinement, specification ⇒ implementation**: an extended program the specification accepts is
    carried out by the implementation without a refusal, and ends in the specification's state. -/
theorem run_spec_impl : ∀ (P : Program) (s s' : State), s.forest.Inv → FlagsOk s.forest →
    runSpec s P = some s' → runImpl s P = (s', .ok)
  | [], s, s', _, _, h => by
    simp only [runSpec, Option.some.injEq] at h
    simp only [runImpl, h]
  | st :: rest, s, s', inv, hfl, h => by
    simp only [runSpec] at h
    cases hs : stepSpec s st with
    | none => rw [hs] at h; cases h
    | some s1 =>
      rw [hs] at h
      obtain ⟨i1, f1⟩ := stepSpec_inv inv hfl hs
      simp only [runImpl, step_spec_impl inv hfl hs]
      exact run_spec_impl rest s1 s' i1 f1 h

end Prog2
end XotModel
