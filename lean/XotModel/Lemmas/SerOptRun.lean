/-
  `serialize_xml_string` under ANY token parameters (CDATA-section elements, `unescaped_gt`) is the
  canonical rendering of `serTokensAtO` (Lemmas/SerOptDefs.lean): the tree induction of
  `SerTokensMain.lean` with the text event generalised.
-/
import XotModel.Lemmas.SerOptCdata
import XotModel.Lemmas.SerTokensTop

namespace XotModel
open Gen

variable (env : Env) (pr : TokenParams) (t : Tree)

theorem isCdataElement_some (par : Tree) : isCdataElement pr (some par) = kidsCd pr par.value := by
  cases par with
  | node v ks => cases v <;> rfl

theorem renderTokens_textTokens (cd : Bool) (str : Str) :
    renderTokens (textTokens pr cd str) = (if cd then serializeCdata str else serializeText pr.unescapedGt str) := by
  cases cd
  · simp [textTokens, textParts, renderTokens, SPart.token, renderToken, renderPieces_txtPieces]
  · simp only [textTokens, textParts, if_true]
    exact renderTokens_cdataTokens str

theorem runEvent_textO (s : FStack) (path : Path) (n : Tree) (hat : t.at? path = some n) (str : Str) :
    runEvent xmlEscapers env pr t s path (.text str) =
      .ok (s, renderTokens (textTokens pr (isCdataElement pr (t.parentAt? path)) str)) := by
  rw [runEvent_at _ _ _ _ _ _ _ _ hat, renderTokens_textTokens]
  cases hc : isCdataElement pr (t.parentAt? path) <;>
    simp [renderXmlWith, tokenBytes, xmlEscapers, hc]

theorem parentAt?_kid (path : Path) (i : Nat) : t.parentAt? (path ++ [i]) = t.at? path := by
  simp [Tree.parentAt?]

mutual
theorem runEvents_nodeO (inScope : List (Nat × Nat)) (isTop : Bool) (path : Path) (n : Tree) (s : FStack)
    (hat : t.at? path = some n) (hs : Named env s) (hn : n.allNodes (declsNamed env) = true) :
    runEvents xmlEscapers env pr t s (genNode inScope isTop path n) =
      tokRun s (serNodeO env pr inScope isTop s (isCdataElement pr (t.parentAt? path)) n) := by
  cases n with
  | node v ks =>
    rw [allNodes_node, Bool.and_eq_true, ← allList_eq] at hn
    have hk := fun s' hs' => runEvents_kidsO inScope path 0 ks s' v ks hat (at?_kid t hat) hs' hn.2
    cases v with
    | document =>
      rw [genNode_document, hk s hs]; simp only [serNodeO, kidsCd]
    | «attribute» a b =>
      rw [genNode_attribute, hk s hs]; simp only [serNodeO, kidsCd]
    | «namespace» a b =>
      rw [genNode_namespace, hk s hs]; simp only [serNodeO, kidsCd]
    | text str =>
      rw [genNode_text, runEvents_cons, runEvent_textO env pr t s path _ hat, serNodeO]
      exact runThen_tokRun s (.ok _) _ _ (hk s hs)
    | comment str =>
      rw [genNode_comment, runEvents_cons, runEvent_comment env pr t s path _ hat, serNodeO]
      exact runThen_tokRun s (.ok _) _ _ (hk s hs)
    | pi target data =>
      rw [genNode_pi, runEvents_cons, runEvent_pi env pr t s path _ hat, serNodeO]
      by_cases hc : (!(env.namespaceStr (env.nsOfName target)).isEmpty) = true
      · simp only [hc, if_true]; rfl
      · simp only [hc]
        exact runThen_tokRun s (.ok _) _ _ (hk s hs)
    | element name =>
      have hs' := Named.push env hs hn.1
      rw [genNode_element', runEvents_cons, runEvent_open env pr t s path _ hat, serNodeO]
      by_cases hc : (env.nsOfName name == Env.noNamespace &&
          (s.push (Tree.node (.element name) ks).nsDecls).hasDefaultNamespace) = true
      · simp only [hc, if_true]; rfl
      · simp only [hc, Bool.false_eq_true, if_false]
        cases hp : (s.push (Tree.node (.element name) ks).nsDecls).elementPrefix env name with
        | error e => rfl
        | ok p =>
          simp only [runThen_ok]
          rw [runEvents_append, runEvents_pfx env pr t _ path _ hat, runThen_ok, runEvents_append,
            runEvents_attrs env pr t _ hs' path _ hat]
          cases ha : attrTokens env (s.push (Tree.node (.element name) ks).nsDecls)
              (Tree.node (.element name) ks).attrs with
          | error e => rfl
          | ok ats =>
            simp only [runThen_ok]
            rw [runEvents_cons, runEvent_close env pr t _ path _ hat, runThen_ok, runEvents_append,
              hk _ hs']
            cases hkids : serNodeO.serKidsO env pr inScope
                (s.push (Tree.node (.element name) ks).nsDecls) (kidsCd pr (.element name)) ks with
            | error e => rfl
            | ok content =>
              have hq := qname_tokQName env p name (fun q hq => elementPrefix_some env hs' (hq ▸ hp))
              have hpop : (s.push (Tree.node (.element name) ks).nsDecls).pop
                  (Tree.node (.element name) ks).hasNsDecls = s := FStack.pop_push s _
              simp only [tokRun, runThen_ok, runEvents_single,
                runEvent_end env pr t _ path _ hat, hp, hpop]
              by_cases hfc : (Tree.node (.element name) ks).firstChild?.isNone = true
              · have : (Tree.node (.element name) ks).firstChild?.isSome = false := by
                  cases h : (Tree.node (.element name) ks).firstChild? <;> simp_all
                simp [hfc, this, elementTokens, renderTokens_append, renderTokens_cons, renderToken, hq, sp0]
              · have : (Tree.node (.element name) ks).firstChild?.isSome = true := by
                  cases h : (Tree.node (.element name) ks).firstChild? <;> simp_all
                simp [hfc, this, elementTokens, renderTokens_append, renderTokens_cons, renderToken, hq, sp0,
                  renderTokens_nil]

theorem runEvents_kidsO (inScope : List (Nat × Nat)) (path : Path)
    (i : Nat) (ks : List Tree) (s : FStack) (pv : Value) (pks : List Tree)
    (hpar : t.at? path = some (.node pv pks))
    (hat : ∀ j k, ks[j]? = some k → t.at? (path ++ [i + j]) = some k) (hs : Named env s)
    (hn : Tree.allNodes.allList (declsNamed env) ks = true) :
    runEvents xmlEscapers env pr t s (genNode.genKids inScope path i ks) =
      tokRun s (serNodeO.serKidsO env pr inScope s (kidsCd pr pv) ks) := by
  cases ks with
  | nil => rfl
  | cons k ks =>
    simp only [Tree.allNodes.allList, Bool.and_eq_true] at hn
    have hcd : isCdataElement pr (t.parentAt? (path ++ [i])) = kidsCd pr pv := by
      rw [parentAt?_kid, hpar, isCdataElement_some]; rfl
    rw [genNode.genKids, runEvents_append, serNodeO.serKidsO,
      runEvents_nodeO inScope false (path ++ [i]) k s (by simpa using hat 0 k rfl) hs hn.1, hcd]
    apply runThen_tokRun
    apply runEvents_kidsO inScope path (i + 1) ks s pv pks hpar _ hs hn.2
    intro j k' hk'
    have h1 : i + 1 + j = i + (j + 1) := by omega
    rw [h1]
    exact hat (j + 1) k' (by simpa using hk')
end

/-- **`serialize_xml_string` with any token parameters** — CDATA-section elements, `unescaped_gt`, any
    start node: the string is the canonical rendering of `serTokensAtO`, and the two fail together with
    the same error. -/
theorem serializeString_serTokensAtO (start : Path)
    (hx : env.prefixStr Env.xmlPrefix ≠ []) (ht : t.allNodes (declsNamed env) = true) :
    serializeStringWith xmlEscapers env pr t start =
      (match serTokensAtO env pr t start with
       | .ok ts => .ok (renderTokens ts)
       | .error e => .err e) := by
  rw [serializeString_runEvents]
  have hs := named_initStack env t start hx ht
  unfold genOutputs serTokensAtO
  cases hn : t.at? start with
  | none => simp [runEvents, renderTokens]
  | some n =>
    cases hsc : namespacesInScope t start with
    | none => simp [runEvents, renderTokens]
    | some inScope =>
      simp only []
      have hinit : initStack t start = FStack.new inScope := by simp [initStack, hsc]
      rw [hinit] at hs ⊢
      rw [runEvents_nodeO env pr t inScope true start n _ hn hs
        (subtree_allNodes _ t start n hn ht)]
      unfold startCd
      cases serNodeO env pr inScope true (FStack.new inScope) (isCdataElement pr (t.parentAt? start)) n <;> rfl

end XotModel
