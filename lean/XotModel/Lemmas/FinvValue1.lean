/-
  Finv (C04), part 31: a handle keeps its meaning, for every call.  `Forest.VStep S T f f'`:
  `next` has not decreased and every (handle, value) pair of `f'` is fresh (handle `≥ f.next`) or
  comes from a pair of `f` with the same handle whose value is the same, or — for a handle in `T` —
  a text value whose content has been extended by text consolidation, or — for a handle in `S` —
  a value of the same kind written by a setter.  Like `Forest.Le` it needs no invariant: it is
  proved for every primitive and every operation, for all forests and all arguments.
  This file: the relation and the indextree primitives.
-/
import XotModel.Lemmas.FinvMono2
import XotModel.Lemmas.FatomForest

namespace XotModel
open HTree

/-! ### Containment of (handle, value) pairs under the tree edits (no distinctness needed) -/

mutual
  theorem hv_replaceBelow_sub (h : Nat) (g : HTree → List HTree) (E : List (Nat × Value))
      (hg : ∀ k, ∀ x ∈ hvList (g k), x ∈ hv k ∨ x ∈ E) :
      ∀ t : HTree, ∀ x ∈ hv (replaceBelow h g t), x ∈ hv t ∨ x ∈ E
    | .node h' v ks => by
      intro x hx
      rw [replaceBelow, hv_node, List.mem_cons] at hx
      rcases hx with hx | hx
      · exact Or.inl (by simp [hx])
      · rcases hvList_replaceKids_sub h g E hg ks x hx with h1 | h1
        · exact Or.inl (by simp [h1])
        · exact Or.inr h1
  theorem hvList_replaceKids_sub (h : Nat) (g : HTree → List HTree) (E : List (Nat × Value))
      (hg : ∀ k, ∀ x ∈ hvList (g k), x ∈ hv k ∨ x ∈ E) :
      ∀ ks : List HTree, ∀ x ∈ hvList (replaceKids h g ks), x ∈ hvList ks ∨ x ∈ E
    | [] => by intro x hx; simp [replaceKids] at hx
    | k :: ks => by
      intro x hx
      rw [replaceKids_cons] at hx
      split at hx
      · rw [hvList_append, List.mem_append] at hx
        rcases hx with hx | hx
        · rcases hg k x hx with h1 | h1
          · exact Or.inl (by simp [h1])
          · exact Or.inr h1
        · exact Or.inl (by simp [hx])
      · rw [hvList_cons, List.mem_append] at hx
        rcases hx with hx | hx
        · rcases hv_replaceBelow_sub h g E hg k x hx with h1 | h1
          · exact Or.inl (by simp [h1])
          · exact Or.inr h1
        · rcases hvList_replaceKids_sub h g E hg ks x hx with h1 | h1
          · exact Or.inl (by simp [h1])
          · exact Or.inr h1
end

mutual
  theorem hv_mapAt_sub (h : Nat) (g : HTree → HTree) (E : List (Nat × Value))
      (hg : ∀ k, k.handle = h → ∀ x ∈ hv (g k), x ∈ hv k ∨ x ∈ E) :
      ∀ t : HTree, ∀ x ∈ hv (mapAt h g t), x ∈ hv t ∨ x ∈ E
    | .node h' v ks => by
      intro x hx
      rw [mapAt] at hx
      split at hx
      · rename_i e
        exact hg (.node h' v ks) e x hx
      · rw [hv_node, List.mem_cons] at hx
        rcases hx with hx | hx
        · exact Or.inl (by simp [hx])
        · rcases hvList_mapAtList_sub h g E hg ks x hx with h1 | h1
          · exact Or.inl (by simp [h1])
          · exact Or.inr h1
  theorem hvList_mapAtList_sub (h : Nat) (g : HTree → HTree) (E : List (Nat × Value))
      (hg : ∀ k, k.handle = h → ∀ x ∈ hv (g k), x ∈ hv k ∨ x ∈ E) :
      ∀ ks : List HTree, ∀ x ∈ hvList (mapAtList h g ks), x ∈ hvList ks ∨ x ∈ E
    | [] => by intro x hx; simp [mapAtList] at hx
    | k :: ks => by
      intro x hx
      rw [mapAtList, hvList_cons, List.mem_append] at hx
      rcases hx with hx | hx
      · rcases hv_mapAt_sub h g E hg k x hx with h1 | h1
        · exact Or.inl (by simp [h1])
        · exact Or.inr h1
      · rcases hvList_mapAtList_sub h g E hg ks x hx with h1 | h1
        · exact Or.inl (by simp [h1])
        · exact Or.inr h1
end

mutual
  theorem hv_of_find? (h : Nat) : ∀ t s : HTree, find? h t = some s → ∀ x ∈ hv s, x ∈ hv t
    | .node h' v ks, s => by
      intro hf x hx
      rw [find?] at hf
      split at hf
      · cases hf; exact hx
      · rw [hv_node]; exact List.mem_cons_of_mem _ (hv_of_findList? h ks s hf x hx)
  theorem hv_of_findList? (h : Nat) : ∀ (ks : List HTree) (s : HTree), findList? h ks = some s →
      ∀ x ∈ hv s, x ∈ hvList ks
    | [], s => by intro hf; simp [findList?] at hf
    | k :: ks, s => by
      intro hf x hx
      rw [fi_findList?_cons] at hf
      rw [hvList_cons, List.mem_append]
      cases hk : find? h k with
      | some t' =>
        rw [hk] at hf; simp only [Option.some_or, Option.some.injEq] at hf
        subst hf
        exact Or.inl (hv_of_find? h k t' hk x hx)
      | none =>
        rw [hk] at hf; simp only [Option.none_or] at hf
        exact Or.inr (hv_of_findList? h ks s hf x hx)
end

theorem hvList_map_replaceBelow_sub (h : Nat) (g : HTree → List HTree) (E : List (Nat × Value))
    (hg : ∀ k, ∀ x ∈ hvList (g k), x ∈ hv k ∨ x ∈ E) (ks : List HTree) :
    ∀ x ∈ hvList (ks.map (replaceBelow h g)), x ∈ hvList ks ∨ x ∈ E := by
  induction ks with
  | nil => intro x hx; simp at hx
  | cons k ks ih =>
    intro x hx
    rw [List.map_cons, hvList_cons, List.mem_append] at hx
    rcases hx with hx | hx
    · rcases hv_replaceBelow_sub h g E hg k x hx with h1 | h1
      · exact Or.inl (by simp [h1])
      · exact Or.inr h1
    · rcases ih x hx with h1 | h1
      · exact Or.inl (by simp [h1])
      · exact Or.inr h1

theorem hvList_filter_sub (p : HTree → Bool) (ks : List HTree) :
    ∀ x ∈ hvList (ks.filter p), x ∈ hvList ks := by
  induction ks with
  | nil => intro x hx; simp at hx
  | cons k ks ih =>
    intro x hx
    rw [List.filter_cons] at hx
    split at hx
    · rw [hvList_cons, List.mem_append] at hx ⊢
      rcases hx with hx | hx
      · exact Or.inl hx
      · exact Or.inr (ih x hx)
    · rw [hvList_cons, List.mem_append]; exact Or.inr (ih x hx)

theorem hv_kid_sub {t k : HTree} (hk : k ∈ t.kids) : ∀ x ∈ hv k, x ∈ hv t := by
  intro x hx
  rw [hv_eq t]
  refine List.mem_cons_of_mem _ ?_
  generalize t.kids = ks at hk
  induction ks with
  | nil => cases hk
  | cons a ks ih =>
    rw [hvList_cons, List.mem_append]
    rcases List.mem_cons.mp hk with e | e
    · subst e; exact Or.inl hx
    · exact Or.inr (ih e)

theorem hv_self_mem (t : HTree) : (t.handle, t.value) ∈ hv t := by
  rw [hv_eq]; exact List.mem_cons_self ..

namespace Forest

/-- What a lookup returns is part of the forest, pair for pair. -/
theorem hv_of_get? {f : Forest} {h : Nat} {t : HTree} (hg : f.get? h = some t) :
    ∀ x ∈ hv t, x ∈ hvList f.roots := hv_of_findList? h f.roots t hg

/-- The value read at a handle is one of the forest's pairs (the converse needs distinct handles). -/
theorem hv_of_value? {f : Forest} {x : Nat} {v : Value} (h : f.value? x = some v) :
    (x, v) ∈ hvList f.roots := by
  unfold value? at h
  cases hg : f.get? x with
  | none => rw [hg] at h; cases h
  | some t =>
    rw [hg] at h
    simp only [Option.map_some, Option.some.injEq] at h
    have := hv_of_get? hg _ (hv_self_mem t)
    rw [get?_handle hg, h] at this
    exact this

theorem hv_of_textOf {f : Forest} {x : Nat} {s : Str} (h : f.textOf x = some s) :
    (x, .text s) ∈ hvList f.roots := by
  apply hv_of_value?
  unfold textOf at h
  cases hv' : f.value? x with
  | none => rw [hv'] at h; cases h
  | some v => rw [hv'] at h; cases v <;> simp_all

/-! ### The relation -/

/-- Text consolidation: the old content is a contiguous part of the new one. -/
def TextExt (v v' : Value) : Prop := ∃ s a b, v = .text s ∧ v' = .text (a ++ s ++ b)

theorem TextExt.trans {a b c : Value} (h1 : TextExt a b) (h2 : TextExt b c) : TextExt a c := by
  obtain ⟨s, x, y, rfl, rfl⟩ := h1
  obtain ⟨s', x', y', e, rfl⟩ := h2
  cases e
  exact ⟨s, x' ++ x, y ++ y', rfl, by simp [List.append_assoc]⟩

theorem TextExt.sameKind {a b : Value} (h : TextExt a b) : SameKind a b := by
  obtain ⟨s, x, y, rfl, rfl⟩ := h
  exact ⟨rfl, rfl, rfl, rfl⟩

theorem _root_.XotModel.SameKind.trans' {a b c : Value} (h1 : SameKind a b) (h2 : SameKind b c) : SameKind a c :=
  ⟨h1.cat.trans h2.cat, h1.text.trans h2.text, h1.key.trans h2.key, h1.doc.trans h2.doc⟩

/-- How the value at handle `x` may have changed. -/
def VRel (S T : Nat → Prop) (x : Nat) (v v' : Value) : Prop :=
  v' = v ∨ (T x ∧ TextExt v v') ∨ (S x ∧ SameKind v v')

theorem VRel.sameKind {S T : Nat → Prop} {x : Nat} {v v' : Value} (h : VRel S T x v v') :
    SameKind v v' := by
  rcases h with h | h | h
  · rw [h]; exact SameKind.refl _
  · exact h.2.sameKind
  · exact h.2

theorem VRel.trans {S T : Nat → Prop} {x : Nat} {a b c : Value} (h1 : VRel S T x a b)
    (h2 : VRel S T x b c) : VRel S T x a c := by
  rcases h1 with h1 | h1 | h1
  · rw [h1] at h2; exact h2
  · rcases h2 with h2 | h2 | h2
    · rw [h2]; exact Or.inr (Or.inl h1)
    · exact Or.inr (Or.inl ⟨h1.1, h1.2.trans h2.2⟩)
    · exact Or.inr (Or.inr ⟨h2.1, h1.2.sameKind.trans' h2.2⟩)
  · exact Or.inr (Or.inr ⟨h1.1, h1.2.trans' (VRel.sameKind h2)⟩)

theorem VRel.mono {S T S' T' : Nat → Prop} (hS : ∀ x, S x → S' x) (hT : ∀ x, T x → T' x)
    {x : Nat} {v v' : Value} (h : VRel S T x v v') : VRel S' T' x v v' := by
  rcases h with h | h | h
  · exact Or.inl h
  · exact Or.inr (Or.inl ⟨hT x h.1, h.2⟩)
  · exact Or.inr (Or.inr ⟨hS x h.1, h.2⟩)

/-- Where a pair of a later forest comes from. -/
def VOrigin (S T : Nat → Prop) (f : Forest) (x : Nat) (v' : Value) : Prop :=
  f.next ≤ x ∨ ∃ v, (x, v) ∈ hvList f.roots ∧ VRel S T x v v'

structure VStep (S T : Nat → Prop) (f f' : Forest) : Prop where
  next : f.next ≤ f'.next
  old : ∀ x v', (x, v') ∈ hvList f'.roots → VOrigin S T f x v'

variable {S T : Nat → Prop}

theorem VOrigin.of_mem {f : Forest} {x : Nat} {v : Value} (h : (x, v) ∈ hvList f.roots) :
    VOrigin S T f x v := Or.inr ⟨v, h, Or.inl rfl⟩

theorem VStep.refl (f : Forest) : VStep S T f f := ⟨Nat.le_refl _, fun _ _ h => VOrigin.of_mem h⟩

theorem VOrigin.trans {f g : Forest} (h1 : VStep S T f g) {x : Nat} {v' : Value}
    (h2 : VOrigin S T g x v') : VOrigin S T f x v' := by
  rcases h2 with h2 | ⟨v, hm, hr⟩
  · exact Or.inl (Nat.le_trans h1.next h2)
  · rcases h1.old x v hm with h3 | ⟨v0, hm0, hr0⟩
    · exact Or.inl h3
    · exact Or.inr ⟨v0, hm0, hr0.trans hr⟩

theorem VStep.trans {f g k : Forest} (h1 : VStep S T f g) (h2 : VStep S T g k) : VStep S T f k :=
  ⟨Nat.le_trans h1.next h2.next, fun x v' h => (h2.old x v' h).trans h1⟩

theorem VStep.mono {S' T' : Nat → Prop} (hS : ∀ x, S x → S' x) (hT : ∀ x, T x → T' x) {f g : Forest}
    (h : VStep S T f g) : VStep S' T' f g := by
  refine ⟨h.next, fun x v' hm => ?_⟩
  rcases h.old x v' hm with h1 | ⟨v, h2, h3⟩
  · exact Or.inl h1
  · exact Or.inr ⟨v, h2, h3.mono hS hT⟩

/-- No new pairs, same `next`. -/
theorem VStep.of_sub {f f' : Forest} (hn : f'.next = f.next)
    (hs : ∀ x ∈ hvList f'.roots, x ∈ hvList f.roots) : VStep S T f f' :=
  ⟨by rw [hn]; exact Nat.le_refl _, fun x v' h => VOrigin.of_mem (hs _ h)⟩

/-! ### The primitives -/

theorem vstep_newNode (f : Forest) (v : Value) : VStep S T f (f.newNode v).1 := by
  refine ⟨Nat.le_succ _, ?_⟩
  intro x v' hm
  simp only [newNode, hvList_append, hvList_cons, hv_node, hvList_nil, List.append_nil,
    List.mem_append, List.mem_singleton, Prod.mk.injEq] at hm
  rcases hm with hm | hm
  · exact VOrigin.of_mem hm
  · exact Or.inl (by rw [hm.1]; exact Nat.le_refl _)

/-- A value update of `h`, given where the new value comes from. -/
theorem vstep_setValue (f : Forest) (h : Nat) (v : Value) (ho : VOrigin S T f h v) :
    VStep S T f (f.setValue h v) := by
  refine ⟨Nat.le_refl _, ?_⟩
  intro x v' hm
  unfold setValue at hm
  simp only at hm
  rw [← mapAtList_eq_map] at hm
  rcases hvList_mapAtList_sub h (HTree.setValue v) [(h, v)] (by
      intro k hk x hx
      cases k with
      | node kh kv kks =>
        simp only [HTree.setValue, hv_node, List.mem_cons] at hx ⊢
        simp only [node_handle] at hk
        rcases hx with hx | hx
        · right; rw [hx, hk]; simp
        · exact Or.inl (Or.inr hx)) f.roots _ hm with h1 | h1
  · exact VOrigin.of_mem h1
  · simp only [List.mem_singleton, Prod.mk.injEq] at h1
    rw [h1.1, h1.2]; exact ho

/-- Consolidation writes `ps ++ ns` into the earlier text node `p` … -/
theorem vstep_setText_prefix (f : Forest) {p : Nat} {ps : Str} (hT : T p) (ht : f.textOf p = some ps)
    (ns : Str) : VStep S T f (f.setValue p (.text (ps ++ ns))) :=
  vstep_setValue f p _ (Or.inr ⟨.text ps, hv_of_textOf ht, Or.inr (Or.inl ⟨hT, ps, [], ns, rfl, by simp⟩)⟩)

/-- … or `added ++ ns` into the later text node `n`. -/
theorem vstep_setText_suffix (f : Forest) {n : Nat} {ns : Str} (hT : T n) (ht : f.textOf n = some ns)
    (added : Str) : VStep S T f (f.setValue n (.text (added ++ ns))) :=
  vstep_setValue f n _ (Or.inr ⟨.text ns, hv_of_textOf ht, Or.inr (Or.inl ⟨hT, ns, added, [], rfl, by simp⟩)⟩)

/-- A setter writes a value of the same kind into a handle of `S`. -/
theorem vstep_setValue_target (f : Forest) {h : Nat} {v0 : Value} (v : Value) (hS : S h)
    (h0 : (h, v0) ∈ hvList f.roots) (hk : SameKind v0 v) : VStep S T f (f.setValue h v) :=
  vstep_setValue f h v (Or.inr ⟨v0, h0, Or.inr (Or.inr ⟨hS, hk⟩)⟩)

theorem vstep_cut (f : Forest) (h : Nat) : VStep S T f (f.cut h).1 ∧
    ∀ t, (f.cut h).2 = some t → ∀ x ∈ hv t, x ∈ hvList f.roots := by
  unfold cut
  cases hg : f.get? h with
  | none => exact ⟨VStep.refl f, fun t ht => by cases ht⟩
  | some t =>
    simp only
    refine ⟨?_, ?_⟩
    · split
      · exact VStep.of_sub (by rfl) (hvList_filter_sub _ _)
      · apply VStep.of_sub (by rfl)
        intro x hx
        rcases hvList_map_replaceBelow_sub h _ [] (by intro k x hx; simp at hx) f.roots x hx with h1 | h1
        · exact h1
        · cases h1
    · intro t' ht' x hx
      have : t' = t := by split at ht' <;> (cases ht'; rfl)
      subst this
      exact hv_of_get? hg x hx

theorem vstep_dropSubtree (f : Forest) (h : Nat) : VStep S T f (f.dropSubtree h) := (vstep_cut f h).1

theorem vstep_detachRaw (f : Forest) (h : Nat) : VStep S T f (f.detachRaw h) := by
  unfold detachRaw
  have := vstep_cut (S := S) (T := T) f h
  cases hc : f.cut h with
  | mk f' o =>
    rw [hc] at this
    cases o with
    | none => exact this.1
    | some t =>
      simp only
      refine ⟨this.1.next, ?_⟩
      intro x v' hx
      unfold addRoot at hx
      simp only [hvList_append, hvList_cons, hvList_nil, List.append_nil, List.mem_append] at hx
      rcases hx with hx | hx
      · exact this.1.old x v' hx
      · exact VOrigin.of_mem (this.2 t rfl _ hx)

theorem vstep_spliceOut (f : Forest) (h : Nat) : VStep S T f (f.spliceOut h) := by
  unfold spliceOut
  cases hg : f.get? h with
  | none => exact VStep.refl f
  | some t =>
    simp only
    have hkids : ∀ x ∈ hvList t.kids, x ∈ hvList f.roots := by
      intro x hx
      apply hv_of_get? hg x
      rw [hv_eq]; exact List.mem_cons_of_mem _ hx
    have key : ∀ x ∈ hvList (f.roots.filter (fun r => r.handle != h) ++ t.kids), x ∈ hvList f.roots := by
      intro x hx
      rw [hvList_append, List.mem_append] at hx
      rcases hx with hx | hx
      · exact hvList_filter_sub _ _ x hx
      · exact hkids x hx
    split
    · split
      · exact VStep.of_sub (by rfl) key
      · exact VStep.of_sub (by rfl) key
    · apply VStep.of_sub (by rfl)
      intro x hx
      rcases hvList_map_replaceBelow_sub h (fun n => n.kids) []
        (by intro k x hx; left; rw [hv_eq]; exact List.mem_cons_of_mem _ hx) f.roots x hx with h1 | h1
      · exact h1
      · cases h1

end Forest
end XotModel
