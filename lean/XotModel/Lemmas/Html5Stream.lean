/-
  Stream-level facts about the HTML serialiser (C19_nopanic, C19_pi): every event of `genOutputs`
  is rendered at an existing node that owns the event, so the `unwrap` of the `Prefix` arm never
  fires; a serialisation that ends `ok` rendered every event.
-/
import XotModel.Lemmas.Events
import XotModel.Model.Html5

namespace XotModel
open Gen

/-- Every event of `gen_outputs` is tagged with an existing node that emits it. -/
theorem genOutputs_tagged (t : Tree) (start : Path) (p : Path) (o : Output)
    (h : (p, o) ∈ genOutputs t start) :
    ∃ n inScope isTop, t.at? p = some n ∧ OwnEvent inScope isTop n o := by
  unfold genOutputs at h
  cases hn : t.at? start with
  | none => simp [hn] at h
  | some n =>
    cases hs : namespacesInScope t start with
    | none => simp [hn, hs] at h
    | some inScope =>
      simp only [hn, hs] at h
      obtain ⟨rel, n', hp, hat, _, hown⟩ := genNode_tagged inScope true start n p o h
      refine ⟨n', inScope, _, ?_, hown⟩
      rw [hp, at?_append, hn]
      exact hat

/-- A `Prefix` event belongs to an element node. -/
theorem ownEvent_pfx_element {inScope : List (Nat × Nat)} {isTop : Bool} {n : Tree} {p ns : Nat}
    (h : OwnEvent inScope isTop n (.pfx p ns)) : ∃ name, n.value = .element name := by
  unfold OwnEvent edgeStart edgeEnd at h
  cases hv : n.value <;> simp [hv] at h
  exact ⟨_, rfl⟩

/-- `render_output` panics only in the `Prefix` arm, and only on a node that is not an element. -/
theorem renderHtml_panic {c : HtmlCtx} {s : HState} {node : Tree} {parent : Option Tree} {o : Output}
    (h : renderHtml c s node parent o = .panic) :
    ∃ p ns, o = .pfx p ns ∧ ∀ name, node.value ≠ .element name := by
  cases o with
  | pfx p ns =>
    refine ⟨p, ns, rfl, ?_⟩
    intro name hv
    simp only [renderHtml, hv] at h
    split at h
    · cases h
    · split at h <;> cases h
  | _ =>
    exfalso
    simp only [renderHtml] at h
    repeat' split at h
    all_goals cases h

theorem renderHtmlAt_ne_panic (c : HtmlCtx) (t : Tree) (start : Path) (s : HState) (p : Path) (o : Output)
    (h : (p, o) ∈ genOutputs t start) : renderHtmlAt c t s p o ≠ .panic := by
  obtain ⟨n, inScope, isTop, hat, hown⟩ := genOutputs_tagged t start p o h
  unfold renderHtmlAt
  rw [hat]
  intro hp
  obtain ⟨q, ns, ho, hne⟩ := renderHtml_panic hp
  subst ho
  obtain ⟨name, hv⟩ := ownEvent_pfx_element hown
  exact hne name hv

theorem writeHtmlGo_ne_panic (c : HtmlCtx) (t : Tree) (outs : List (Path × Output))
    (h : ∀ po ∈ outs, ∀ s, renderHtmlAt c t s po.1 po.2 ≠ .panic) :
    ∀ s, (writeHtmlGo c t s outs).2 ≠ .panic := by
  induction outs with
  | nil => intro s; simp [writeHtmlGo]
  | cons po rest ih =>
    intro s
    obtain ⟨p, o⟩ := po
    have h1 := h (p, o) (by simp) s
    simp only [writeHtmlGo]
    cases hr : renderHtmlAt c t s p o with
    | ok v =>
      obtain ⟨s', tok⟩ := v
      simp only
      exact ih (fun po hpo => h po (List.mem_cons_of_mem _ hpo)) s'
    | err e => simp
    | panic => exact absurd hr h1

theorem writeHtmlPrettyGo_ne_panic (c : HtmlCtx) (sup : List Nat) (t : Tree) (outs : List (Path × Output))
    (h : ∀ po ∈ outs, ∀ s, renderHtmlAt c t s po.1 po.2 ≠ .panic) :
    ∀ ps s, (writeHtmlPrettyGo c sup t ps s outs).2 ≠ .panic := by
  induction outs with
  | nil => intro ps s; simp [writeHtmlPrettyGo]
  | cons po rest ih =>
    intro ps s
    obtain ⟨p, o⟩ := po
    have h1 := h (p, o) (by simp) s
    simp only [writeHtmlPrettyGo]
    cases hr : renderHtmlAt c t s p o with
    | ok v =>
      obtain ⟨s', tok⟩ := v
      simp only
      exact ih (fun po hpo => h po (List.mem_cons_of_mem _ hpo)) _ s'
    | err e => simp
    | panic => exact absurd hr h1

/-- A serialisation that ends `ok` rendered every event (in some state). -/
theorem writeHtmlGo_ok_all (c : HtmlCtx) (t : Tree) (outs : List (Path × Output)) :
    ∀ s, (writeHtmlGo c t s outs).2 = .ok () →
      ∀ po ∈ outs, ∃ s1 r, renderHtmlAt c t s1 po.1 po.2 = .ok r := by
  induction outs with
  | nil => intro s _ po hpo; simp at hpo
  | cons po rest ih =>
    intro s h qo hq
    obtain ⟨p, o⟩ := po
    simp only [writeHtmlGo] at h
    cases hr : renderHtmlAt c t s p o with
    | ok v =>
      obtain ⟨s', tok⟩ := v
      rw [hr] at h
      simp only at h
      rcases List.mem_cons.mp hq with rfl | hq
      · exact ⟨s, _, hr⟩
      · exact ih s' h qo hq
    | err e => rw [hr] at h; simp at h
    | panic => rw [hr] at h; simp at h

theorem writeHtmlPrettyGo_ok_all (c : HtmlCtx) (sup : List Nat) (t : Tree) (outs : List (Path × Output)) :
    ∀ ps s, (writeHtmlPrettyGo c sup t ps s outs).2 = .ok () →
      ∀ po ∈ outs, ∃ s1 r, renderHtmlAt c t s1 po.1 po.2 = .ok r := by
  induction outs with
  | nil => intro ps s _ po hpo; simp at hpo
  | cons po rest ih =>
    intro ps s h qo hq
    obtain ⟨p, o⟩ := po
    simp only [writeHtmlPrettyGo] at h
    cases hr : renderHtmlAt c t s p o with
    | ok v =>
      obtain ⟨s', tok⟩ := v
      rw [hr] at h
      simp only at h
      rcases List.mem_cons.mp hq with rfl | hq
      · exact ⟨s, _, hr⟩
      · exact ih _ s' h qo hq
    | err e => rw [hr] at h; simp at h
    | panic => rw [hr] at h; simp at h

/-! ### The written bytes are the rendered tokens -/

/-- Every entry of the rendered stream is the result of one `render_output` call on the node at
    its path. -/
theorem renderHtmlAll_mem (c : HtmlCtx) (t : Tree) (outs : List (Path × Output)) :
    ∀ s l, renderHtmlAll c t s outs = .ok l → ∀ k ∈ l, ∃ s1 s2 node,
      t.at? k.1 = some node ∧ renderHtml c s1 node (t.parentAt? k.1) k.2.1 = .ok (s2, k.2.2) := by
  induction outs with
  | nil =>
    intro s l h k hk
    simp only [renderHtmlAll, Outcome.ok.injEq] at h
    subst h; simp at hk
  | cons po rest ih =>
    intro s l h k hk
    obtain ⟨p, o⟩ := po
    simp only [renderHtmlAll] at h
    cases hr : renderHtmlAt c t s p o with
    | ok v =>
      obtain ⟨s', tok⟩ := v
      rw [hr] at h
      simp only at h
      cases hrest : renderHtmlAll c t s' rest with
      | ok l' =>
        rw [hrest] at h
        simp only [Outcome.ok.injEq] at h
        subst h
        rcases List.mem_cons.mp hk with rfl | hk
        · unfold renderHtmlAt at hr
          cases hat : t.at? p with
          | none => simp [hat] at hr
          | some node =>
            refine ⟨s, s', node, rfl, ?_⟩
            simpa only [hat] using hr
        · exact ih s' l' hrest k hk
      | err e => rw [hrest] at h; cases h
      | panic => rw [hrest] at h; cases h
    | err e => rw [hr] at h; cases h
    | panic => rw [hr] at h; cases h

/-- Without indentation: the bytes written are the token texts, each preceded by a space when
    flagged, in order. -/
theorem writeHtmlGo_tokens (c : HtmlCtx) (t : Tree) (outs : List (Path × Output)) :
    ∀ s, (writeHtmlGo c t s outs).2 = .ok () →
      ∃ l, renderHtmlAll c t s outs = .ok l ∧
        (writeHtmlGo c t s outs).1 = l.flatMap (fun k => htmlTokenBytes k.2.2) := by
  induction outs with
  | nil => intro s _; exact ⟨[], rfl, rfl⟩
  | cons po rest ih =>
    intro s h
    obtain ⟨p, o⟩ := po
    simp only [writeHtmlGo] at h ⊢
    simp only [renderHtmlAll]
    cases hr : renderHtmlAt c t s p o with
    | ok v =>
      obtain ⟨s', tok⟩ := v
      rw [hr] at h
      simp only at h ⊢
      obtain ⟨l, hl, hb⟩ := ih s' h
      refine ⟨(p, o, tok) :: l, by rw [hl], ?_⟩
      rw [List.flatMap_cons, hb]
    | err e => rw [hr] at h; simp at h
    | panic => rw [hr] at h; simp at h

/-- With indentation: the same tokens, each decorated with indentation spaces in front and
    possibly a newline behind. -/
theorem writeHtmlPrettyGo_tokens (c : HtmlCtx) (sup : List Nat) (t : Tree) (outs : List (Path × Output)) :
    ∀ ps s, (writeHtmlPrettyGo c sup t ps s outs).2 = .ok () →
      ∃ l, renderHtmlAll c t s outs = .ok l ∧ ∃ decor : List (Nat × Bool), decor.length = l.length ∧
        (writeHtmlPrettyGo c sup t ps s outs).1 =
          (List.zip decor l).flatMap (fun dk =>
            (if dk.1.1 > 0 then htmlIndentBytes dk.1.1 else []) ++ htmlTokenBytes dk.2.2.2
              ++ (if dk.1.2 then htmlNewline else [])) := by
  induction outs with
  | nil => intro ps s _; exact ⟨[], rfl, [], rfl, rfl⟩
  | cons po rest ih =>
    intro ps s h
    obtain ⟨p, o⟩ := po
    simp only [writeHtmlPrettyGo] at h ⊢
    simp only [renderHtmlAll]
    cases hr : renderHtmlAt c t s p o with
    | ok v =>
      obtain ⟨s', tok⟩ := v
      rw [hr] at h
      simp only at h ⊢
      obtain ⟨l, hl, decor, hlen, hb⟩ := ih _ s' h
      refine ⟨(p, o, tok) :: l, by rw [hl],
        ((prettifyHtmlAt c sup t ps p o).2.1, (prettifyHtmlAt c sup t ps p o).2.2) :: decor, by simp [hlen], ?_⟩
      rw [List.zip_cons_cons, List.flatMap_cons, hb]
    | err e => rw [hr] at h; simp at h
    | panic => rw [hr] at h; simp at h

end XotModel
