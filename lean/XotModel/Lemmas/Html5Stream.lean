/-
  Stream-level facts about the HTML serialiser (C19_nopanic, C19_pi): every event of `genOutputs`
  is rendered at an existing node that owns the event, so the `unwrap` of the `Prefix` arm never
  fires; a serialisation that ends `ok` rendered every event.
-/
import XotModel.Lemmas.Events
import XotModel.Model.Html5

namespace XotModel
open Gen

/-- Every event of `gen_outputs` is tagged with an existing node that emits it. -/
theorem genOutputs_tagged (t : Tree) (start : Path) (p : Path) (o : Output)
    (h : (p, o) ∈ genOutputs t start) :
    ∃ n inScope isTop, t.at? p = some n ∧ OwnEvent inScope isTop n o := by
  unfold genOutputs at h
  cases hn : t.at? start with
  | none => simp [hn] at h
  | some n =>
    cases hs : namespacesInScope t start with
    | none => simp [hn, hs] at h
    | some inScope =>
      simp only [hn, hs] at h
      obtain ⟨rel, n', hp, hat, _, hown⟩ := genNode_tagged inScope true start n p o h
      refine ⟨n', inScope, _, ?_, hown⟩
      rw [hp, at?_append, hn]
      exact hat

/-- A `Prefix` event belongs to an element node. -/
theorem ownEvent_pfx_element {inScope : List (Nat × Nat)} {isTop : Bool} {n : Tree} {p ns : Nat}
    (h : OwnEvent inScope isTop n (.pfx p ns)) : ∃ name, n.value = .element name := by
  unfold OwnEvent edgeStart edgeEnd at h
  cases hv : n.value <;> simp [hv] at h
  exact ⟨_, rfl⟩

/-- `render_output` panics only in the `Prefix` arm, and only on a node that is not an element. -/
theorem renderHtml_panic {c : HtmlCtx} {s : FStack} {node : Tree} {parent : Option Tree} {o : Output}
    (h : renderHtml c s node parent o = .panic) :
    ∃ p ns, o = .pfx p ns ∧ ∀ name, node.value ≠ .element name := by
  cases o with
  | pfx p ns =>
    refine ⟨p, ns, rfl, ?_⟩
    intro name hv
    simp only [renderHtml, hv] at h
    split at h
    · cases h
    · split at h <;> cases h
  | _ =>
    exfalso
    simp only [renderHtml] at h
    repeat' split at h
    all_goals cases h

theorem renderHtmlAt_ne_panic (c : HtmlCtx) (t : Tree) (start : Path) (s : FStack) (p : Path) (o : Output)
    (h : (p, o) ∈ genOutputs t start) : renderHtmlAt c t s p o ≠ .panic := by
  obtain ⟨n, inScope, isTop, hat, hown⟩ := genOutputs_tagged t start p o h
  unfold renderHtmlAt
  rw [hat]
  intro hp
  obtain ⟨q, ns, ho, hne⟩ := renderHtml_panic hp
  subst ho
  obtain ⟨name, hv⟩ := ownEvent_pfx_element hown
  exact hne name hv

theorem writeHtmlGo_ne_panic (c : HtmlCtx) (t : Tree) (outs : List (Path × Output))
    (h : ∀ po ∈ outs, ∀ s, renderHtmlAt c t s po.1 po.2 ≠ .panic) :
    ∀ s, (writeHtmlGo c t s outs).2 ≠ .panic := by
  induction outs with
  | nil => intro s; simp [writeHtmlGo]
  | cons po rest ih =>
    intro s
    obtain ⟨p, o⟩ := po
    have h1 := h (p, o) (by simp) s
    simp only [writeHtmlGo]
    cases hr : renderHtmlAt c t s p o with
    | ok v =>
      obtain ⟨s', tok⟩ := v
      simp only
      exact ih (fun po hpo => h po (List.mem_cons_of_mem _ hpo)) s'
    | err e => simp
    | panic => exact absurd hr h1

theorem writeHtmlPrettyGo_ne_panic (c : HtmlCtx) (sup : List Nat) (t : Tree) (outs : List (Path × Output))
    (h : ∀ po ∈ outs, ∀ s, renderHtmlAt c t s po.1 po.2 ≠ .panic) :
    ∀ ps s, (writeHtmlPrettyGo c sup t ps s outs).2 ≠ .panic := by
  induction outs with
  | nil => intro ps s; simp [writeHtmlPrettyGo]
  | cons po rest ih =>
    intro ps s
    obtain ⟨p, o⟩ := po
    have h1 := h (p, o) (by simp) s
    simp only [writeHtmlPrettyGo]
    cases hr : renderHtmlAt c t s p o with
    | ok v =>
      obtain ⟨s', tok⟩ := v
      simp only
      exact ih (fun po hpo => h po (List.mem_cons_of_mem _ hpo)) _ s'
    | err e => simp
    | panic => exact absurd hr h1

/-- A serialisation that ends `ok` rendered every event (in some state). -/
theorem writeHtmlGo_ok_all (c : HtmlCtx) (t : Tree) (outs : List (Path × Output)) :
    ∀ s, (writeHtmlGo c t s outs).2 = .ok () →
      ∀ po ∈ outs, ∃ s1 r, renderHtmlAt c t s1 po.1 po.2 = .ok r := by
  induction outs with
  | nil => intro s _ po hpo; simp at hpo
  | cons po rest ih =>
    intro s h qo hq
    obtain ⟨p, o⟩ := po
    simp only [writeHtmlGo] at h
    cases hr : renderHtmlAt c t s p o with
    | ok v =>
      obtain ⟨s', tok⟩ := v
      rw [hr] at h
      simp only at h
      rcases List.mem_cons.mp hq with rfl | hq
      · exact ⟨s, _, hr⟩
      · exact ih s' h qo hq
    | err e => rw [hr] at h; simp at h
    | panic => rw [hr] at h; simp at h

theorem writeHtmlPrettyGo_ok_all (c : HtmlCtx) (sup : List Nat) (t : Tree) (outs : List (Path × Output)) :
    ∀ ps s, (writeHtmlPrettyGo c sup t ps s outs).2 = .ok () →
      ∀ po ∈ outs, ∃ s1 r, renderHtmlAt c t s1 po.1 po.2 = .ok r := by
  induction outs with
  | nil => intro ps s _ po hpo; simp at hpo
  | cons po rest ih =>
    intro ps s h qo hq
    obtain ⟨p, o⟩ := po
    simp only [writeHtmlPrettyGo] at h
    cases hr : renderHtmlAt c t s p o with
    | ok v =>
      obtain ⟨s', tok⟩ := v
      rw [hr] at h
      simp only at h
      rcases List.mem_cons.mp hq with rfl | hq
      · exact ⟨s, _, hr⟩
      · exact ih _ s' h qo hq
    | err e => rw [hr] at h; simp at h
    | panic => rw [hr] at h; simp at h

end XotModel
