/-
  Finv (C04), part 42: `unwrapSites` read on the forest BEFORE the call.  `element_unwrap` reads the previous
  sibling of the wrapper's first child after the wrapper is spliced out; under the invariant that is the
  previous sibling of the wrapper (`removeElement_site` of C05: the wrapper's normal children stand where the
  wrapper stood).
-/
import XotModel.Lemmas.FinvComposite
import XotModel.Lemmas.FspecUnwrap
import XotModel.Lemmas.FatomComposite

namespace XotModel
open HTree Spec

namespace Forest

theorem dropWhile_nil_all {α : Type} (p : α → Bool) : ∀ L : List α, L.dropWhile p = [] → ∀ k ∈ L, p k = true
  | [], _, k, hk => by cases hk
  | a :: L, h, k, hk => by
    rw [List.dropWhile_cons] at h
    split at h
    · cases List.mem_cons.1 hk with
      | inl e => rw [e]; assumption
      | inr e => exact dropWhile_nil_all p L h k e
    · cases h

/-- The wrapper has a parent: its first normal child takes its place, behind the same left siblings. -/
theorem removeElement_prevSibling_first {f : Forest} (hi : f.Inv) {n first : Nat} {c : Ctx}
    (hfc : f.firstChild n = some first) (hctx : f.ctx? n = some c) :
    (f.removeElement n).prevSibling first = f.prevSibling n := by
  obtain ⟨hh, v, s⟩ := SiteAt.of_ctx hi.nodup hctx
  obtain ⟨p, l, self, r⟩ := c
  cases self with
  | node n' vn K =>
    simp only [HTree.handle] at hh
    subst hh
    simp only at s
    have hgn : f.get? n' = some (.node n' vn K) := s.getKid
    rw [Forest.firstChild_of_get hgn] at hfc
    have hwmem : HTree.node n' vn K ∈ l ++ .node n' vn K :: r := List.mem_append_right _ List.mem_cons_self
    have hvp := s.valid hi.valid
    have hvw := fs_validList_mem (validTree_node hvp).2.2.2 _ hwmem
    have hvK := (validTree_node hvw).2.2.2
    have hleafAb : ∀ k ∈ K.takeWhile abn, k.kids = [] := fun k hk =>
      abn_leaf (fs_validList_mem hvK k ((List.takeWhile_sublist _).subset hk)) (takeWhile_abn_all K k hk)
    obtain ⟨_, s1⟩ := Forest.removeElement_site s hleafAb
    cases hd : K.dropWhile abn with
    | nil => rw [hd] at hfc; cases hfc
    | cons a rest =>
      rw [hd] at hfc s1
      have ha : a.handle = first := by simpa using hfc
      have hne : K.dropWhile abn ≠ [] := by rw [hd]; exact List.cons_ne_nil _ _
      have han : abn a = false := by
        have := List.head_dropWhile_not abn hne
        simpa [hd] using this
      have hvn : vn.isNormal = true := by
        cases hvn : vn.isNormal with
        | true => rfl
        | false =>
          have hk : (HTree.node n' vn K).kids = [] := abn_leaf hvw hvn
          simp only [HTree.kids] at hk
          rw [hk] at hd
          cases hd
      have s2 : SiteAt (f.removeElement n') p v (l ++ a :: (rest ++ r)) := by
        have e : l ++ (a :: rest) ++ r = l ++ a :: (rest ++ r) := by simp
        rw [← e]; exact s1
      have hc1 := s2.ctx
      rw [ha] at hc1
      unfold prevSibling
      rw [hc1, hctx]
      simp only
      cases l.getLast? with
      | none => rfl
      | some q =>
        have e1 : a.value.category = .normal := by
          simp only [abn, Bool.not_eq_false', Value.isNormal, beq_iff_eq] at han
          exact han
        have e2 : vn.category = .normal := by
          simp only [Value.isNormal, beq_iff_eq] at hvn
          exact hvn
        simp only [HTree.value] at e1 ⊢
        simp only [e1, e2]

/-- The wrapper is parentless: its normal children become parentless trees - no previous sibling either. -/
theorem removeElement_prevSibling_first_root {f : Forest} (hi : f.Inv) {n first : Nat}
    (hfc : f.firstChild n = some first) (hctx : f.ctx? n = none) :
    (f.removeElement n).prevSibling first = f.prevSibling n := by
  have nd := hi.nodup
  have hp : f.prevSibling n = none := by unfold prevSibling; rw [hctx]
  rw [hp]
  cases hgn0 : f.get? n with
  | none => unfold firstChild at hfc; rw [hgn0] at hfc; cases hfc
  | some t =>
    cases t with
    | node n' vn K =>
      have hh : n' = n := by
        have := findList?_handle n f.roots _ hgn0
        simpa [HTree.handle] using this
      subst hh
      have hgn : f.get? n' = some (.node n' vn K) := hgn0
      have hroot : f.isRoot n' = true := by
        rcases Forest.root_or_ctx hgn with h | ⟨c, hc⟩
        · exact h
        · rw [hctx] at hc; cases hc
      rw [Forest.firstChild_of_get hgn] at hfc
      have s : SiteAt f n' vn K := ⟨nd, hgn⟩
      have hvw := s.valid hi.valid
      have hvK := (validTree_node hvw).2.2.2
      have hleafAb : ∀ k ∈ K.takeWhile abn, k.kids = [] := fun k hk =>
        abn_leaf (fs_validList_mem hvK k ((List.takeWhile_sublist _).subset hk)) (takeWhile_abn_all K k hk)
      have sn : SiteAt f n' vn (K.takeWhile abn ++ K.dropWhile abn) := by
        rw [List.takeWhile_append_dropWhile]; exact s
      have hsubK : (handlesList (K.dropWhile abn)).Sublist (handlesList K) := by
        have : handlesList K = handlesList (K.takeWhile abn ++ K.dropWhile abn) := by
          rw [List.takeWhile_append_dropWhile]
        rw [this, fs_handlesList_append]
        exact List.sublist_append_right _ _
      have e1 : f.removeElement n' = (f.editAt (some n') (fun _ => K.dropWhile abn)).spliceOut n' := by
        unfold Forest.removeElement
        rw [hgn]
        simp only [HTree.kids]
        exact congrArg (fun z => Forest.spliceOut z n') (fs_foldl_spliceOut_leaves _ f hleafAb sn)
      have s1 : SiteAt (f.editAt (some n') (fun _ => K.dropWhile abn)) n' vn (K.dropWhile abn) :=
        s.edit (fun _ => K.dropWhile abn) hsubK
      have hroot1 : (f.editAt (some n') (fun _ => K.dropWhile abn)).isRoot n' = true := by
        rw [← hroot]
        simp only [isRoot, Forest.editAt, List.any_map]
        congr 1
        funext r
        simp only [Function.comp, editAt_handle]
      generalize f.editAt (some n') (fun _ => K.dropWhile abn) = f1 at e1 s1 hroot1
      have hlive : f1.isLive n' = true := by unfold isLive; rw [s1.kids]; rfl
      have nd2 : (f1.spliceOut n').allHandles.Nodup :=
        List.Nodup.sublist (List.sublist_append_left _ _) ((spliceOut_perm s1.nd hlive).symm.nodup s1.nd)
      cases hd : K.dropWhile abn with
      | nil => rw [hd] at hfc; cases hfc
      | cons a rest =>
        rw [hd] at hfc s1
        have ha : a.handle = first := by simpa using hfc
        have hr2 : (f1.spliceOut n').isRoot first = true := by
          unfold spliceOut
          rw [s1.kids]
          simp only [HTree.kids, hroot1, if_true]
          have hite : ∀ (c : Prop) [Decidable c] (A B : Forest), A.isRoot first = true → B.isRoot first = true →
              (if c then A else B).isRoot first = true := by
            intro c _ A B h1 h2; split <;> assumption
          apply hite <;> simp [isRoot, List.any_append, ha]
        rw [e1]
        unfold prevSibling
        rw [ctx_none_of_root nd2 hr2]

/-- **`unwrapSites` on the forest before the call**: the previous sibling of the wrapper's first child, read once
    the wrapper is spliced out, is the previous sibling of the wrapper. -/
theorem removeElement_prevSibling_firstChild {f : Forest} (hi : f.Inv) {n first : Nat}
    (hfc : f.firstChild n = some first) : (f.removeElement n).prevSibling first = f.prevSibling n := by
  cases hctx : f.ctx? n with
  | none => exact removeElement_prevSibling_first_root hi hfc hctx
  | some c => exact removeElement_prevSibling_first hi hfc hctx

theorem unwrapSites_simpl {f : Forest} (hi : f.Inv) (n : Nat) :
    f.unwrapSites n = (f.prevSibling n).toList ++ (f.lastChild n).toList := by
  unfold unwrapSites
  cases hfc : f.firstChild n with
  | some first => simp only; rw [removeElement_prevSibling_firstChild hi hfc]
  | none =>
    simp only
    have : f.lastChild n = none := by
      unfold firstChild at hfc
      unfold lastChild
      cases hg : f.get? n with
      | none => rfl
      | some t =>
        rw [hg] at hfc
        simp only
        cases hl : t.kids.getLast? with
        | none => rfl
        | some k =>
          simp only
          split
          · rename_i hk
            exfalso
            have hm : k ∈ t.kids := List.mem_of_getLast? hl
            have hne : t.kids.dropWhile (fun k => !k.value.isNormal) ≠ [] := by
              intro he
              have := dropWhile_nil_all _ _ he k hm
              simp [hk] at this
            simp only at hfc
            cases hd : t.kids.dropWhile (fun k => !k.value.isNormal) with
            | nil => exact hne hd
            | cons a r => rw [hd] at hfc; simp at hfc
          · rfl
    rw [this]; simp

/-! ### `replaceSites` without the guard site -/

/-- `replaceSites` with the plain `insertAfterSites`: the site of the guard `hT4` of `vstep_insertAfter` (the previous
    sibling of `b` when the reference node is `b` itself) is dropped. -/
def replaceSites0 (f : Forest) (a b : Nat) : List Nat :=
  match f.parent? a with
  | none => []
  | some parent =>
    if (f.prevSibling a == some b || f.nextSibling a == some b) = true then (f.prevSibling a).toList else
    match f.prevSibling a with
    | none => (f.dropSubtree a).prependSites parent b
    | some p => (f.dropSubtree a).insertAfterSites p b ++
        (match f.nextSibling a with
         | some n => (((f.dropSubtree a).insertAfter p b).1.prevSibling n).toList
         | none => [])

/-- With the subtree `a` taken out the forest still has distinct handles (`Forest.W`), so no node is its own previous
    sibling and the reference node of the `insert_after` is never `b`: the guard site is empty. -/
theorem replaceSites_simpl {f : Forest} (hi : f.Inv) (a b : Nat) : f.replaceSites a b = f.replaceSites0 a b := by
  unfold replaceSites replaceSites0
  cases f.parent? a with
  | none => rfl
  | some parent =>
    simp only
    split
    · rfl
    · rename_i hadj
      cases hps : f.prevSibling a with
      | none => rfl
      | some p =>
        simp only
        have hne : p ≠ b := by
          intro e
          apply hadj
          rw [hps, e]
          simp
        have w := (dropSubtree_spec hi.toW a).1
        unfold insertAfterSitesX
        rw [if_neg (insertAfterRef_ne w hne)]
        simp only [List.append_nil]
        cases f.nextSibling a <;> rfl

end Forest
end XotModel
