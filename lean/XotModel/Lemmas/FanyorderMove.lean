/-
  Lemmas for C20 (any construction order), part 1: the four moves.

  * `moveOk` (the specification's well-formedness of a move) is, as a Boolean, exactly the two
    argument checks xot performs (`add_structure_check`, `sibling_reference_check`);
  * a successful move of the model is the specification's `specMove` with xot's survivor rule,
    handle for handle (C05: `append_spec`, `prepend_spec`, `insertAfter_spec`, `insertBefore_spec`);
  * `specMove` never touches the flags or `next`.
-/
import XotModel.Model.FanyorderSpec
import XotModel.Lemmas.FspecAppend
import XotModel.Lemmas.FspecSamePrepend
import XotModel.Lemmas.FspecSame
import XotModel.Lemmas.FspecSameBefore

namespace XotModel
namespace Prog
open Spec

/-- xot's argument checks of the four moves. -/
def implCheck (f : Forest) : Dest → Nat → Bool
  | .lastChildOf p, c => f.structureCheck (some p) c
  | .firstNormalChildOf p, c => f.structureCheck (some p) c
  | .after r, n => f.structureCheck (f.parent? r) n && f.siblingReferenceCheck r n
  | .before r, n => f.structureCheck (f.parent? r) n && f.siblingReferenceCheck r n

theorem structureCheck_eq (f : Forest) (q : Option Nat) (n : Nat) :
    f.structureCheck q n =
      (match q with
       | none => false
       | some q =>
         ((f.value? q).map holdsChildren == some true) && !(f.ancestors q).contains n &&
           ((f.value? n).map movable == some true)) := by
  cases q with
  | none => rfl
  | some q =>
    simp only [Forest.structureCheck, Forest.isElement, Forest.isDocument]
    cases hq : f.value? q with
    | none => simp
    | some vq =>
      cases hn : f.value? n with
      | none => simp
      | some vn =>
        cases vq <;> cases vn <;> simp [holdsChildren, movable, Value.isElement, Value.isDocument]

theorem value_none_of_not_live {f : Forest} {p : Nat} (hl : ¬ f.isLive p = true) : f.value? p = none := by
  unfold Forest.isLive Forest.value? at *
  cases h : f.get? p with
  | none => rfl
  | some t => rw [h] at hl; simp at hl

/-- The specification's well-formedness test is xot's argument check. -/
theorem moveOk_eq (f : Forest) (d : Dest) (n : Nat) : moveOk d n f = implCheck f d n := by
  cases d with
  | lastChildOf p =>
    simp only [moveOk, implCheck, Dest.site]
    rw [structureCheck_eq]
    by_cases hl : f.isLive p = true
    · simp [hl]
    · simp [hl, value_none_of_not_live hl]
  | firstNormalChildOf p =>
    simp only [moveOk, implCheck, Dest.site]
    rw [structureCheck_eq]
    by_cases hl : f.isLive p = true
    · simp [hl]
    · simp [hl, value_none_of_not_live hl]
  | after r =>
    simp only [moveOk, implCheck, Dest.site]
    rw [structureCheck_eq]
    simp only [Forest.siblingReferenceCheck, Forest.isNormalNode]
    cases f.parent? r <;> simp
  | before r =>
    simp only [moveOk, implCheck, Dest.site]
    rw [structureCheck_eq]
    simp only [Forest.siblingReferenceCheck, Forest.isNormalNode]
    cases f.parent? r <;> simp

/-- A move the implementation answers `ok` has passed the argument checks. -/
theorem implCheck_of_ok {f : Forest} {d : Dest} {n : Nat} (hok : (moveImpl f d n).2 = .ok) :
    implCheck f d n = true := by
  cases d with
  | lastChildOf p =>
    simp only [moveImpl, implCheck] at *
    cases h : f.structureCheck (some p) n with
    | true => rfl
    | false => rw [Forest.append_unfold] at hok; simp [h] at hok
  | firstNormalChildOf p =>
    simp only [moveImpl, implCheck] at *
    cases h : f.structureCheck (some p) n with
    | true => rfl
    | false => rw [prepend_unfold] at hok; simp [h] at hok
  | after r =>
    simp only [moveImpl, implCheck] at *
    cases h : f.structureCheck (f.parent? r) n with
    | false => rw [insertAfter_unfold] at hok; simp [h] at hok
    | true =>
      cases h2 : f.siblingReferenceCheck r n with
      | true => rfl
      | false => rw [insertAfter_unfold] at hok; simp [h, h2] at hok
  | before r =>
    simp only [moveImpl, implCheck] at *
    cases h : f.structureCheck (f.parent? r) n with
    | false => rw [insertBefore_unfold] at hok; simp [h] at hok
    | true =>
      cases h2 : f.siblingReferenceCheck r n with
      | true => rfl
      | false => rw [insertBefore_unfold] at hok; simp [h, h2] at hok

/-- A move refused by the argument checks returns the forest as it was, with `InvalidOperation`. -/
theorem moveImpl_refused {f : Forest} {d : Dest} {n : Nat} (h : implCheck f d n = false) :
    moveImpl f d n = (f, .err .invalidOperation) := by
  cases d with
  | lastChildOf p => simp only [moveImpl, implCheck] at *; rw [Forest.append_unfold]; simp [h]
  | firstNormalChildOf p => simp only [moveImpl, implCheck] at *; rw [prepend_unfold]; simp [h]
  | after r =>
    simp only [moveImpl, implCheck] at *
    rw [insertAfter_unfold]
    cases h1 : f.structureCheck (f.parent? r) n with
    | false => simp
    | true => rw [h1] at h; simp at h; simp [h]
  | before r =>
    simp only [moveImpl, implCheck] at *
    rw [insertBefore_unfold]
    cases h1 : f.structureCheck (f.parent? r) n with
    | false => simp
    | true => rw [h1] at h; simp at h; simp [h]

/-- **C05 for the four moves, in one statement**: a successful move is `specMove` with xot's
    survivor rule, handle for handle. -/
theorem moveImpl_spec {f : Forest} {d : Dest} {n : Nat} (inv : f.Inv) (norm : f.Normal)
    (hok : (moveImpl f d n).2 = .ok) :
    (moveImpl f d n).1 = specMove (Keep.resident n) d n f := by
  cases d with
  | lastChildOf p => exact append_spec (Keep.resident_spec n) inv norm hok
  | firstNormalChildOf p => exact prepend_spec inv norm hok
  | after r => exact insertAfter_spec inv norm hok
  | before r => exact insertBefore_spec inv norm hok

/-! ### The specification does not touch flags or the name supply -/

theorem editAt_everOff (f : Forest) (s : Option Nat) (g : List HTree → List HTree) :
    (f.editAt s g).everOff = f.everOff := by cases s <;> rfl
theorem editAt_corrupt (f : Forest) (s : Option Nat) (g : List HTree → List HTree) :
    (f.editAt s g).corrupt = f.corrupt := by cases s <;> rfl
theorem editAt_next (f : Forest) (s : Option Nat) (g : List HTree → List HTree) :
    (f.editAt s g).next = f.next := by cases s <;> rfl

theorem mergeAt_fields (f : Forest) (keep : Keep) (s : Option Nat) :
    (f.mergeAt keep s).consolidation = f.consolidation ∧ (f.mergeAt keep s).everOff = f.everOff ∧
      (f.mergeAt keep s).corrupt = f.corrupt ∧ (f.mergeAt keep s).next = f.next := by
  cases s with
  | none => exact ⟨rfl, rfl, rfl, rfl⟩
  | some p =>
    unfold Forest.mergeAt
    simp only
    split
    · exact ⟨rfl, rfl, rfl, rfl⟩
    · exact ⟨rfl, rfl, rfl, rfl⟩

theorem specMove_fields (keep : Keep) (d : Dest) (n : Nat) (f : Forest) :
    (specMove keep d n f).consolidation = f.consolidation ∧ (specMove keep d n f).everOff = f.everOff ∧
      (specMove keep d n f).corrupt = f.corrupt ∧ (specMove keep d n f).next = f.next := by
  unfold specMove
  split
  · exact ⟨rfl, rfl, rfl, rfl⟩
  · split
    · simp only
      obtain ⟨a1, a2, a3, a4⟩ := mergeAt_fields
        (((f.editAt (f.parent? n) (dropTop n)).editAt (some _) (d.insert _)).mergeAt keep (f.parent? n)) keep (some _)
      obtain ⟨b1, b2, b3, b4⟩ := mergeAt_fields
        ((f.editAt (f.parent? n) (dropTop n)).editAt (some _) (d.insert _)) keep (f.parent? n)
      rw [a1, a2, a3, a4, b1, b2, b3, b4]
      simp only [Forest.editAt_consolidation, editAt_everOff, editAt_corrupt, editAt_next]
      simp
    · exact ⟨rfl, rfl, rfl, rfl⟩

end Prog
end XotModel
