/-
  C14_options_indent, documents: for a representable document, any token parameters, any suppress list and
  with or without an XML declaration, the indented serialisation parses back (`parse`, reference tokenizer
  + builder) to `prettyTree sup t` — the original tree with whitespace-only text nodes added.
-/
import XotModel.Lemmas.SerIndentSpell
import XotModel.Lemmas.LexLines
import XotModel.Lemmas.SerOptDecl

namespace XotModel
open Gen XotModel.Lex.Canon

variable (env : Env) (pr : TokenParams) (sup : List Nat)

/-! ### The top level -/

/-- The spelled top-level nodes of the indented document (no white space node between them). -/
def spellTopP (ks : List Tree) : List NSNode :=
  spellNodeP.spellKidsP env pr sup basePrefixes (FStack.new basePrefixes) false [] [] ks

theorem indOf_nil : indOf [] = [] := by decide
theorem nlOf_nil : nlOf [] = ['\n'] := by decide

/-- A markup node is spelled as one node that is no character data run. -/
theorem spellNodeP_single (inScope : List (Nat × Nat)) (isTop : Bool) (s : FStack) (cd : Bool) (ps : PStack)
    {k : Tree} (hk : k.allNodes (nodeOK env) = true) (hm : k.value.isMarkup = true) :
    ∃ nd, spellNodeP env pr sup inScope isTop s cd ps k = [nd] ∧ nd.isChars = false := by
  cases k with
  | node v ks =>
    cases v <;> simp [Tree.value, Value.isMarkup] at hm
    · rename_i name
      by_cases hc : (Tree.node (.element name) ks).firstChild?.isNone = true
      · have hab : ∀ k ∈ ks, k.value.isNormal = false ∧ k.kids = [] := by
          intro k hk'
          have h1 := firstChild_none_abnormal hc k hk'
          refine ⟨h1, ?_⟩
          cases k with
          | node v' ks' => exact allNodes_leaf env (allNodes_kid hk hk') (abnormal_leafKind h1)
        refine ⟨?nd1, ?ha1, ?hb1⟩
        case ha1 => simp only [spellNodeP, hc, if_true, spellKidsP_abnormal env pr sup inScope _ _ ps [] ks hab]; rfl
        case hb1 => rfl
      · refine ⟨?nd2, ?ha2, ?hb2⟩
        case ha2 => simp only [spellNodeP, hc, Bool.false_eq_true, if_false]; rfl
        case hb2 => rfl
    · have hl := allNodes_leaf env hk rfl
      subst hl
      refine ⟨?nd3, ?ha3, ?hb3⟩
      case ha3 => simp only [spellNodeP, spellNodeP.spellKidsP]; rfl
      case hb3 => rfl
    · have hl := allNodes_leaf env hk rfl
      subst hl
      refine ⟨?nd4, ?ha4, ?hb4⟩
      case ha4 => simp only [spellNodeP, spellNodeP.spellKidsP]; rfl
      case hb4 => rfl

theorem renderLines_append (a b : List NSNode) : renderLines (a ++ b) = renderLines a ++ renderLines b := by
  simp [renderLines]

/-- What the indenting writer writes for the top-level nodes: one node per line. -/
theorem kidsBytes_top (ks : List Tree) (hk : ∀ k ∈ ks, k.allNodes (nodeOK env) = true)
    (hm : ∀ k ∈ ks, k.value.isMarkup = true) :
    kidsBytes env pr sup basePrefixes (FStack.new basePrefixes) false [] ks = renderLines (spellTopP env pr sup ks) ∧
      ∀ nd ∈ spellTopP env pr sup ks, nd.isChars = false := by
  induction ks with
  | nil => exact ⟨rfl, fun nd h => by cases h⟩
  | cons k ks ih =>
    obtain ⟨ih1, ih2⟩ := ih (fun k' hk' => hk k' (by simp [hk'])) (fun k' hk' => hm k' (by simp [hk']))
    obtain ⟨nd, hnd, hch⟩ := spellNodeP_single env pr sup basePrefixes false (FStack.new basePrefixes) false []
      (hk k (by simp)) (hm k (by simp))
    have hn : k.value.isNormal = true := by
      have := hm k (by simp)
      cases hv : k.value <;> simp [hv, Value.isMarkup, Value.isNormal, Value.category] at this ⊢
    simp only [spellTopP] at ih1 ih2 ⊢
    constructor
    · simp only [kidsBytes, List.flatMap_cons] at ih1 ⊢
      rw [ih1, wrapP_markup [] (hm k (by simp)), hnd]
      simp only [spellNodeP.spellKidsP, hn, if_true, wsChars, List.isEmpty_nil, List.nil_append, hnd,
        List.cons_append, renderLines, List.flatMap_cons, NSNode.tokens.tokensList, List.append_nil, indOf_nil,
        nlOf_nil, List.append_assoc]
    · intro x hx
      simp only [spellNodeP.spellKidsP, hn, if_true, wsChars, List.isEmpty_nil, List.nil_append, hnd,
        List.cons_append, List.mem_cons] at hx
      rcases hx with rfl | hx
      · exact hch
      · exact ih2 x hx

/-! ### The indented serialisation of a representable document -/

/-- What `Representable` gives for the children of the document node. -/
theorem top_kids_markup {ks : List Tree} (hr : Representable env (.node .document ks) = true) :
    (∀ k ∈ ks, k.allNodes (nodeOK env) = true) ∧ (∀ k ∈ ks, k.value.isMarkup = true) ∧
      (∀ k ∈ ks, k.value.isDocument = false) := by
  simp only [Representable, Bool.and_eq_true] at hr
  obtain ⟨hfrag, hsingle⟩ := hr
  obtain ⟨_, _, hn, _⟩ := (representableFragment_iff env _).mp hfrag
  have hnode : nodeOK env .document ks = true := by
    rw [allNodes_node, Bool.and_eq_true] at hn; exact hn.1
  obtain ⟨_, hkinds, _, _, _⟩ := (nodeOK_iff env _ ks).mp hnode
  simp only [singleRoot, Tree.kids, Bool.and_eq_true, beq_iff_eq, List.all_eq_true, Bool.not_eq_true'] at hsingle
  exact ⟨fun k hk => allNodes_kid hn hk,
    fun k hk => normal_notText_markup (hkinds.2.1 rfl k hk) (hsingle.2 k hk) (hkinds.2.2 k hk), hkinds.2.2⟩

/-- **The indented string of a representable document** is its top-level nodes, spelled with the white
    space inside the elements, one per line; and the plain serialisation succeeds with the same parameters. -/
theorem serializePretty_document {ks : List Tree} (hr : Representable env (.node .document ks) = true) {str : Str}
    (hs : serializePretty env pr sup (.node .document ks) [] = .ok str) :
    str = renderLines (spellTopP env pr sup ks) ∧
      ∃ ts, serNodeO.serKidsO env pr basePrefixes (FStack.new basePrefixes) false ks = .ok ts := by
  have hr' := hr
  simp only [Representable, Bool.and_eq_true] at hr'
  obtain ⟨henv, _, hn, _⟩ := (representableFragment_iff env _).mp hr'.1
  obtain ⟨hkn, hmark, hdocs⟩ := top_kids_markup env hr
  have hnode : nodeOK env .document ks = true := by
    rw [allNodes_node, Bool.and_eq_true] at hn; exact hn.1
  obtain ⟨hord, hkinds, _, _, _⟩ := (nodeOK_iff env _ ks).mp hnode
  have hin := inScope_document ks hord (hkinds.2.1 rfl)
  have hnamed := named_initStack env (.node .document ks) [] (by rw [envOK_xmlPrefix env henv]; simp)
    (nodeOK_declsNamed env _ hn)
  have hinit : initStack (.node .document ks) [] = FStack.new basePrefixes := by
    simp [initStack, namespacesInScope, Tree.ancestorsOrSelf, hin]
  have hgen : genOutputs (.node .document ks) [] = genNode.genKids basePrefixes [] 0 ks := by
    simp [genOutputs, Tree.at?, namespacesInScope, Tree.ancestorsOrSelf, hin, genNode_document]
  rw [show serializePretty env pr sup (.node .document ks) [] =
    serializePrettyWith xmlEscapers env pr sup (.node .document ks) [] from rfl,
    serializePretty_runPEvents, hinit, hgen] at hs
  rw [hinit] at hnamed
  have hrun := runP_kids env pr sup (.node .document ks) basePrefixes [] 0 ks (FStack.new basePrefixes) []
    .document ks rfl (fun j k hj => by simp [Tree.at?, hj]) hnamed hkn hdocs
  rw [hrun] at hs
  simp only [kidsCd] at hs
  cases hser : serNodeO.serKidsO env pr basePrefixes (FStack.new basePrefixes) false ks with
  | error e => rw [hser] at hs; cases hs
  | ok ts =>
    rw [hser] at hs
    simp only [tokRunP, Outcome.ok.injEq] at hs
    exact ⟨by rw [← hs]; exact (kidsBytes_top env pr sup ks hkn hmark).1, ts, rfl⟩

/-- Everything the round trip needs about the indented document. -/
structure IndentFacts (ks : List Tree) : Prop where
  /-- the tree it is read as is representable -/
  hr' : Representable env (prettyTree sup (.node .document ks)) = true
  /-- the spelled top-level nodes are markup -/
  hmarkup : ∀ nd ∈ spellTopP env pr sup ks, nd.isChars = false
  /-- their tokens meet the tokenizer contract -/
  hlex : LexOK false (NSNode.tokens.tokensList (spellTopP env pr sup ks)) = true
  /-- the builder turns them into that tree -/
  hbuild : ∀ len, ∃ p, build .document len env (NSNode.tokens.tokensList (spellTopP env pr sup ks)) none = .ok p ∧
    p.tree = prettyTree sup (.node .document ks) ∧ p.env = env

theorem indentFacts {ks : List Tree} (hr : Representable env (.node .document ks) = true) {ts : List Token}
    (hser : serNodeO.serKidsO env pr basePrefixes (FStack.new basePrefixes) false ks = .ok ts) :
    IndentFacts env pr sup ks := by
  obtain ⟨hkn, hmark, hdocs⟩ := top_kids_markup env hr
  have hr' := representable_prettyTree env sup hr
  have hfrag' : RepresentableFragment env (prettyTree sup (.node .document ks)) = true := by
    simp only [Representable, Bool.and_eq_true] at hr'; exact hr'.1
  have hsingle' : singleRoot (prettyTree sup (.node .document ks)) = true := by
    simp only [Representable, Bool.and_eq_true] at hr'; exact hr'.2
  -- the children of the tree the output is read as
  have hkids' : prettyTree sup (.node .document ks) =
      .node .document (prettyNode.prettyKids sup [] [] ks) := by
    simp only [prettyTree, prettyKids_nil_gap]
  -- its default serialisation succeeds
  obtain ⟨_, ts0, hts0⟩ := spellKidsO_tokens env pr basePrefixes (FStack.new basePrefixes) false ks ts hser
  obtain ⟨ts1, hts1⟩ := serKids_pretty_ok env sup basePrefixes (FStack.new basePrefixes) [] [] ks hkn ts0 hts0
  obtain ⟨_, _, hn', _⟩ := (representableFragment_iff env _).mp hfrag'
  have hnode' : nodeOK env .document (prettyNode.prettyKids sup [] [] ks) = true := by
    rw [hkids', allNodes_node, Bool.and_eq_true] at hn'; exact hn'.1
  obtain ⟨hord', hkinds', _, _, _⟩ := (nodeOK_iff env _ _).mp hnode'
  have hin' := inScope_document _ hord' (hkinds'.2.1 rfl)
  have hser' : serTokensTop env (prettyTree sup (.node .document ks)) = .ok ts1 := by
    rw [hkids', serTokensTop_document, hin']; exact hts1
  obtain ⟨ks', hk', hf⟩ := topFacts hfrag' hser'
  rw [hkids'] at hk'
  cases hk'
  -- the pretty spelling respells the default spelling of that tree
  have hresp : NSNode.Resp.respList (spellTop env (prettyTree sup (.node .document ks))) (spellTopP env pr sup ks) := by
    rw [hkids', hf.hspell]
    exact spellKidsP_resp env pr sup basePrefixes (FStack.new basePrefixes) false [] [] rfl ks hkn hdocs
  have hrel := respList_tokRel _ _ hresp
  rw [spell_tokens env _ ts1 hser'] at hrel
  refine ⟨hr', (kidsBytes_top env pr sup ks hkn hmark).2,
    tokRel_lexOK false hrel (lexOK_document env _ hr' ts1 hser'), ?_⟩
  intro len
  have hwell : WellNsDoc (spellTop env (prettyTree sup (.node .document ks))) := by
    rw [hkids']; exact spellTop_well hf
  have hden := respList_denote _ _ baseScope hresp
  obtain ⟨p0, hb, ht, he⟩ := build_document_spelled_ns hf.he.envBaseNs len (spellTopP env pr sup ks)
    (respList_wellNsDoc hresp hwell)
    (by rw [← hden, hkids']; exact wellFormedTop_of_abstractNs (spellTop_abstractTop hf (by rw [← hkids']; exact hsingle')))
  rw [← hden, hkids', spellTop_encode hf] at ht he
  exact ⟨p0, hb, by rw [ht, hkids'], he⟩

/-- **C14_options_indent, documents** (`parse`): the indented serialisation — any token parameters, any
    suppress list — parses back to `prettyTree sup t`, tables unchanged. -/
theorem indent_roundtrip {t : Tree} (hr : Representable env t = true) {str : Str}
    (hs : serializePretty env pr sup t [] = .ok str) :
    ∃ p, parseString .document env str = .ok p ∧ p.tree = prettyTree sup t ∧ p.env = env := by
  have hfrag : RepresentableFragment env t = true := by
    simp only [Representable, Bool.and_eq_true] at hr; exact hr.1
  obtain ⟨_, hdocv, _, _⟩ := (representableFragment_iff env t).mp hfrag
  cases t with
  | node v ks =>
    cases v <;> simp [Tree.value, Value.isDocument] at hdocv
    obtain ⟨rfl, ts, hser⟩ := serializePretty_document env pr sup hr hs
    have hf := indentFacts env pr sup hr hser
    obtain ⟨ts', hl, her⟩ := lexDocument_lines _ hf.hmarkup hf.hlex
    obtain ⟨p0, hb, ht, he⟩ := hf.hbuild (strLen (renderLines (spellTopP env pr sup ks)))
    obtain ⟨p, hp, h1, h2, _⟩ := build_erase_ok .document _ (strLen (renderLines (spellTopP env pr sup ks))) env _ ts'
      her.1.symm her.2 p0 hb
    refine ⟨p, ?_, by rw [h1, ht], by rw [h2, he]⟩
    simp only [parseString, lexMode, hl]
    exact hp

/-! ### Any start node other than a document: the string -/

/-- **The indented string for an element (comment, PI, text) start node** of a `nodeOK` tree: the rendering
    of `spellNodeP` of the subtree — white space runs inside its elements included — followed by one line
    feed for a markup node; it fails exactly where the plain serialisation fails.  (The reparse of such a
    string is a document around the node; for an ELEMENT start node: Lemmas/SerIndentInner.lean,
    C14_indent_roundtrip_inner.) -/
theorem serializePretty_at (t : Tree) (start : Path) (n : Tree) (inScope : List (Nat × Nat))
    (hat : t.at? start = some n) (hsc : namespacesInScope t start = some inScope)
    (henv : envOK env = true) (ht : t.allNodes (nodeOK env) = true) (hdoc : n.value.isDocument = false) :
    serializePretty env pr sup t start =
      (match serTokensAtO env pr t start with
       | .ok _ => .ok (wrapP [] n.value (renderTokens (NSNode.tokens.tokensList
            (spellNodeP env pr sup inScope true (FStack.new inScope) (startCd pr t start) [] n))))
       | .error e => .err e) := by
  have hnamed := named_initStack env t start (by rw [envOK_xmlPrefix env henv]; simp) (nodeOK_declsNamed env _ ht)
  have hinit : initStack t start = FStack.new inScope := by simp [initStack, hsc]
  rw [hinit] at hnamed
  rw [show serializePretty env pr sup t start = serializePrettyWith xmlEscapers env pr sup t start from rfl,
    serializePretty_runPEvents, hinit]
  have hgen : genOutputs t start = genNode inScope true start n := by simp [genOutputs, hat, hsc]
  rw [hgen, runP_node env pr sup t inScope true start n _ [] hat hnamed (subtree_allNodes _ t start n hat ht) hdoc]
  simp only [serTokensAtO, hat, hsc, startCd]
  cases serNodeO env pr inScope true (FStack.new inScope) (isCdataElement pr (t.parentAt? start)) n <;> rfl

end XotModel
