/-
  Locality for every call (C12), part 0: `next` never decreases — for every primitive and every
  operation of the model, all forests, all arguments.  (The C04 development has the stronger
  `Forest.Le`; its lemma files cannot be imported next to the C12 ones, so the part needed here
  is redone.)
-/
import XotModel.Lemmas.FcloneLocal5

namespace XotModel
open HTree

namespace Forest

/-- `f'` is not earlier than `f`. -/
def NLe (f f' : Forest) : Prop := f.next ≤ f'.next

theorem NLe.refl (f : Forest) : NLe f f := Nat.le_refl _
theorem NLe.trans {f g k : Forest} (h1 : NLe f g) (h2 : NLe g k) : NLe f k := Nat.le_trans h1 h2
theorem NLe.of_eq {f f' : Forest} (h : f'.next = f.next) : NLe f f' := by unfold NLe; omega

theorem nle_newNode (f : Forest) (v : Value) : NLe f (f.newNode v).1 := Nat.le_succ _
theorem nle_setValue (f : Forest) (h : Nat) (v : Value) : NLe f (f.setValue h v) := NLe.refl _
theorem nle_cut (f : Forest) (h : Nat) : NLe f (f.cut h).1 := NLe.of_eq (Sep.next_cut f h)
theorem nle_dropSubtree (f : Forest) (h : Nat) : NLe f (f.dropSubtree h) := nle_cut f h

theorem nle_detachRaw (f : Forest) (h : Nat) : NLe f (f.detachRaw h) := by
  unfold detachRaw
  have := nle_cut f h
  cases hc : f.cut h with
  | mk f' o =>
    rw [hc] at this
    cases o <;> exact this

theorem nle_spliceOut (f : Forest) (h : Nat) : NLe f (f.spliceOut h) := by
  unfold spliceOut
  cases f.get? h with
  | none => exact NLe.refl f
  | some t =>
    simp only
    split
    · split <;> exact NLe.refl f
    · exact NLe.refl f

theorem nle_checked (f : Forest) (a b : Nat) :
    NLe f (f.checkedAppend a b).1 ∧ NLe f (f.checkedPrepend a b).1 ∧
    NLe f (f.checkedInsertAfter a b).1 ∧ NLe f (f.checkedInsertBefore a b).1 := by
  have hc := nle_cut f b
  refine ⟨?_, ?_, ?_, ?_⟩
  · unfold checkedAppend
    split
    · exact NLe.refl f
    · cases hcut : f.cut b with
      | mk f' o => rw [hcut] at hc; cases o <;> exact hc
  · unfold checkedPrepend
    split
    · exact NLe.refl f
    · cases hcut : f.cut b with
      | mk f' o => rw [hcut] at hc; cases o <;> exact hc
  · unfold checkedInsertAfter
    split
    · exact NLe.refl f
    · split
      · exact NLe.refl f
      · cases hcut : f.cut b with
        | mk f' o => rw [hcut] at hc; cases o <;> exact hc
  · unfold checkedInsertBefore
    split
    · exact NLe.refl f
    · split
      · exact NLe.refl f
      · cases hcut : f.cut b with
        | mk f' o => rw [hcut] at hc; cases o <;> exact hc

theorem nle_merge (f : Forest) (p n : Nat) (v : Value) : NLe f ((f.setValue p v).spliceOut n) :=
  (nle_setValue f p v).trans (nle_spliceOut _ n)

theorem nle_removeConsolidate (f : Forest) (prev next : Option Nat) :
    NLe f (f.removeConsolidate prev next).1 := by
  unfold removeConsolidate
  split
  · exact NLe.refl f
  · split
    · rename_i p n
      cases f.textOf p with
      | none => exact NLe.refl f
      | some ps =>
        cases f.textOf n with
        | none => exact NLe.refl f
        | some ns => exact nle_merge f _ _ _
    · exact NLe.refl f

theorem nle_addConsolidate (f : Forest) (node : Nat) (prev next : Option Nat) :
    NLe f (f.addConsolidate node prev next).1 := by
  rw [addConsolidate_eq_old]
  generalize f.selfPrev node prev = prev
  generalize f.selfNext node next = next
  unfold addConsolidateOld
  split
  · exact NLe.refl f
  · cases f.textOf node with
    | none => exact NLe.refl f
    | some added =>
      have viaNext : NLe f (match next with
          | some n => (match f.textOf n with
              | some ns => ((f.setValue n (.text (added ++ ns))).spliceOut node, true)
              | none => (f, false))
          | none => (f, false)).1 := by
        cases next with
        | none => exact NLe.refl f
        | some n =>
          simp only
          cases f.textOf n with
          | none => exact NLe.refl f
          | some ns => exact nle_merge f _ _ _
      cases prev with
      | some p =>
        simp only
        cases f.textOf p with
        | some ps => exact nle_merge f _ _ _
        | none => exact viaNext
      | none => exact viaNext

theorem nle_res {f g : Forest} {b : Bool} {r1 r2 : Res} (h : NLe f g) :
    NLe f (if b = true then (g, r1) else (g, r2)).1 := by split <;> exact h

theorem nle_append (f : Forest) (p c : Nat) : NLe f (f.append p c).1 := by
  unfold append
  split
  · exact NLe.refl f
  split
  · exact NLe.refl f
  have h1 := nle_removeConsolidate f (f.prevSibling c) (f.nextSibling c)
  cases hr : f.removeConsolidate (f.prevSibling c) (f.nextSibling c) with
  | mk f1 b1 =>
    rw [hr] at h1
    simp only
    have h2 := nle_addConsolidate f1 c (f1.lastChild p) none
    cases ha : f1.addConsolidate c (f1.lastChild p) none with
    | mk f2 cc =>
      rw [ha] at h2
      simp only
      split
      · exact h1.trans h2
      · have h3 := (nle_checked f2 p c).1
        cases hc : f2.checkedAppend p c with
        | mk f3 okb =>
          rw [hc] at h3
          exact nle_res ((h1.trans h2).trans h3)

theorem nle_mapPlace (f : Forest) (k : MapKind) (parent node : Nat) : NLe f (f.mapPlace k parent node).1 := by
  unfold mapPlace
  cases f.mapInsertionPoint k parent with
  | some ip =>
    simp only
    have := (nle_checked f ip node).2.2.1
    cases hc : f.checkedInsertAfter ip node with
    | mk f' okb => rw [hc] at this; exact nle_res this
  | none =>
    simp only
    have := (nle_checked f parent node).2.1
    cases hc : f.checkedPrepend parent node with
    | mk f' okb => rw [hc] at this; exact nle_res this

theorem nle_prepend (f : Forest) (p c : Nat) : NLe f (f.prepend p c).1 := by
  unfold prepend
  split
  · exact NLe.refl f
  split
  · exact NLe.refl f
  have h1 := nle_removeConsolidate f (f.prevSibling c) (f.nextSibling c)
  cases hr : f.removeConsolidate (f.prevSibling c) (f.nextSibling c) with
  | mk f1 b1 =>
    rw [hr] at h1
    simp only
    have h2 := nle_addConsolidate f1 c none (f1.firstChild p)
    cases ha : f1.addConsolidate c none (f1.firstChild p) with
    | mk f2 cc =>
      rw [ha] at h2
      simp only
      split
      · exact h1.trans h2
      · cases f2.prependPoint p with
        | some ip =>
          simp only
          have h3 := (nle_checked f2 ip c).2.2.1
          cases hc : f2.checkedInsertAfter ip c with
          | mk f3 okb => rw [hc] at h3; exact nle_res ((h1.trans h2).trans h3)
        | none =>
          simp only
          have h3 := (nle_checked f2 p c).2.1
          cases hc : f2.checkedPrepend p c with
          | mk f3 okb => rw [hc] at h3; exact nle_res ((h1.trans h2).trans h3)

theorem nle_insertAfter (f : Forest) (ref c : Nat) : NLe f (f.insertAfter ref c).1 := by
  unfold insertAfter
  split
  · exact NLe.refl f
  split
  · exact NLe.refl f
  split
  · exact NLe.refl f
  have h1 := nle_removeConsolidate f (f.prevSibling c) (f.nextSibling c)
  cases hr : f.removeConsolidate (f.prevSibling c) (f.nextSibling c) with
  | mk f1 b1 =>
    rw [hr] at h1
    simp only [hr]
    generalize (if (b1 && f.nextSibling c == some ref) = true then (f.prevSibling c).getD ref else ref) = ref'
    have h2 := nle_addConsolidate f1 c (some ref') (f1.nextSibling ref')
    cases ha : f1.addConsolidate c (some ref') (f1.nextSibling ref') with
    | mk f2 cc =>
      rw [ha] at h2
      try simp only
      split
      · exact h1.trans h2
      · have h3 := (nle_checked f2 ref' c).2.2.1
        cases hc : f2.checkedInsertAfter ref' c with
        | mk f3 okb => rw [hc] at h3; exact nle_res ((h1.trans h2).trans h3)

theorem nle_insertBefore (f : Forest) (ref c : Nat) : NLe f (f.insertBefore ref c).1 := by
  unfold insertBefore
  split
  · exact NLe.refl f
  split
  · exact NLe.refl f
  split
  · exact NLe.refl f
  have h1 := nle_removeConsolidate f (f.prevSibling c) (f.nextSibling c)
  cases hr : f.removeConsolidate (f.prevSibling c) (f.nextSibling c) with
  | mk f1 b1 =>
    rw [hr] at h1
    simp only
    have h2 := nle_addConsolidate f1 c (f1.prevSibling ref) (some ref)
    cases ha : f1.addConsolidate c (f1.prevSibling ref) (some ref) with
    | mk f2 cc =>
      rw [ha] at h2
      simp only
      split
      · exact h1.trans h2
      · have h3 := (nle_checked f2 ref c).2.2.2
        cases hc : f2.checkedInsertBefore ref c with
        | mk f3 okb => rw [hc] at h3; exact nle_res ((h1.trans h2).trans h3)

theorem nle_detach (f : Forest) (node : Nat) : NLe f (f.detach node).1 :=
  (nle_detachRaw f node).trans (nle_removeConsolidate _ _ _)

theorem nle_remove (f : Forest) (node : Nat) : NLe f (f.remove node).1 :=
  (nle_dropSubtree f node).trans (nle_removeConsolidate _ _ _)

theorem nle_foldl_remove {α : Type} (g : α → Nat) (xs : List α) (f : Forest) :
    NLe f (xs.foldl (fun acc c => (acc.remove (g c)).1) f) := by
  induction xs generalizing f with
  | nil => exact NLe.refl f
  | cons x xs ih => exact (nle_remove f (g x)).trans (ih _)

theorem nle_mapInsert (f : Forest) (k : MapKind) (parent : Nat) (entry : Value) :
    NLe f (f.mapInsert k parent entry).1 := by
  unfold mapInsert
  split
  · exact NLe.refl f
  · cases f.mapGetNode k parent (entryKey entry) with
    | some n => exact nle_setValue f _ _
    | none => exact (nle_newNode f entry).trans (nle_mapPlace _ k parent _)

theorem nle_mapInsertNode (f : Forest) (k : MapKind) (parent node : Nat) :
    NLe f (f.mapInsertNode k parent node).1 := by
  unfold mapInsertNode
  cases f.value? node with
  | none => exact NLe.refl f
  | some v =>
    simp only
    split
    · exact NLe.refl f
    · cases f.mapGetNode k parent (entryKey v) with
      | some e => exact nle_setValue f _ _
      | none => exact nle_mapPlace f k parent node

theorem nle_mapRemove (f : Forest) (k : MapKind) (parent key : Nat) : NLe f (f.mapRemove k parent key).1 := by
  unfold mapRemove
  split
  · exact NLe.refl f
  · cases f.mapGetNode k parent key with
    | some n => exact nle_remove f _
    | none => exact NLe.refl f

theorem nle_mapClear (f : Forest) (k : MapKind) (parent : Nat) : NLe f (f.mapClear k parent).1 := by
  unfold mapClear
  split
  · exact NLe.refl f
  · cases f.get? parent with
    | none => exact NLe.refl f
    | some t => exact nle_foldl_remove (fun c : HTree => c.handle) _ f

theorem nle_appendEntryNode (f : Forest) (k : MapKind) (parent child : Nat) :
    NLe f (f.appendEntryNode k parent child).1 := by
  unfold appendEntryNode
  split
  · exact NLe.refl f
  · cases f.value? child with
    | none => exact NLe.refl f
    | some v =>
      simp only
      split
      · exact NLe.refl f
      · exact nle_mapInsertNode f k parent child

theorem nle_anyAppend (f : Forest) (parent child : Nat) : NLe f (f.anyAppend parent child).1 := by
  unfold anyAppend
  split
  · exact nle_appendEntryNode f _ _ _
  · exact nle_appendEntryNode f _ _ _
  · exact nle_append f _ _

theorem nle_setElementName (f : Forest) (node name : Nat) : NLe f (f.setElementName node name).1 := by
  unfold setElementName; split
  · exact nle_setValue f _ _
  · exact NLe.refl f

theorem nle_setText (f : Forest) (node : Nat) (s : Str) : NLe f (f.setText node s).1 := by
  unfold setText; split
  · exact nle_setValue f _ _
  · exact NLe.refl f

theorem nle_setComment (f : Forest) (node : Nat) (s : Str) : NLe f (f.setComment node s).1 := by
  unfold setComment; split
  · split
    · exact NLe.refl f
    · exact nle_setValue f _ _
  · exact NLe.refl f

theorem nle_setPiData (f : Forest) (node : Nat) (d : Option Str) : NLe f (f.setPiData node d).1 := by
  unfold setPiData; split
  · exact nle_setValue f _ _
  · exact NLe.refl f

theorem nle_setConsolidation (f : Forest) (b : Bool) : NLe f (f.setConsolidation b) :=
  NLe.refl _

theorem nle_textContentSet (f : Forest) (node : Nat) (s : Str) : NLe f (f.textContentSet node s).1 := by
  unfold textContentSet
  split
  · split
    · exact NLe.refl f
    · split
      · exact nle_setValue f _ _
      · exact NLe.refl f
  · split
    · have h1 : NLe f (f.newText []).1 := nle_newNode f _
      cases hnt : f.newText [] with
      | mk f1 t =>
        rw [hnt] at h1
        simp only
        have h2 := nle_append f1 node t
        cases h3 : f1.append node t with
        | mk f2 r =>
          rw [h3] at h2
          simp only
          have h12 := h1.trans h2
          cases r with
          | ok =>
            simp only
            split
            · split
              · exact h12.trans (nle_setValue f2 _ _)
              · exact h12
            · exact h12
          | err e => exact h12
          | panic => exact h12
    · exact NLe.refl f

theorem nle_removeInsignificantWhitespace (f : Forest) (node : Nat) :
    NLe f (f.removeInsignificantWhitespace node) := by
  unfold removeInsignificantWhitespace
  cases f.get? node with
  | none => exact NLe.refl f
  | some t =>
    simp only
    have h0 : NLe f ({ f with consolidation := false } : Forest) := NLe.refl _
    have h1 := nle_foldl_remove (fun n : Nat => n)
      ((descendantsNormal t).filter f.isInsignificantWhitespace) ({ f with consolidation := false } : Forest)
    exact h0.trans h1

theorem nle_replace (f : Forest) (a b : Nat) : NLe f (f.replace a b).1 := by
  unfold replace
  split
  · exact NLe.refl f
  cases f.parent? a with
  | none => exact NLe.refl f
  | some parent =>
    simp only
    split
    · exact NLe.refl f
    split
    · exact NLe.refl f
    split
    · exact NLe.refl f
    split
    · exact nle_remove f a
    · have h1 := nle_dropSubtree f a
      cases f.prevSibling a with
      | none => exact h1.trans (nle_prepend _ parent b)
      | some p =>
        simp only
        have h2 := nle_insertAfter (f.dropSubtree a) p b
        cases hi : (f.dropSubtree a).insertAfter p b with
        | mk f2 r =>
          rw [hi] at h2
          simp only
          cases r with
          | ok =>
            cases f.nextSibling a with
            | none => exact h1.trans h2
            | some n => exact (h1.trans h2).trans (nle_removeConsolidate _ _ _)
          | err e => exact h1.trans h2
          | panic => exact h1.trans h2

theorem nle_elementWrap (f : Forest) (node name : Nat) : NLe f (f.elementWrap node name).1 := by
  unfold elementWrap
  split
  · exact NLe.refl f
  split
  · exact NLe.refl f
  split
  · exact NLe.refl f
  cases f.parent? node with
  | some parent =>
    simp only
    have h1 : NLe f (f.newElement name).1 := nle_newNode f _
    cases hn : f.newElement name with
    | mk f1 wrapper =>
      rw [hn] at h1
      simp only
      have h2 := nle_detachRaw f1 node
      have h3 := nle_append (f1.detachRaw node) wrapper node
      cases ha : (f1.detachRaw node).append wrapper node with
      | mk f3 r3 =>
        rw [ha] at h3
        simp only
        have h123 := (h1.trans h2).trans h3
        cases r3 with
        | ok =>
          simp only
          cases f.prevSibling node with
          | some p => exact h123.trans (nle_insertAfter f3 p wrapper)
          | none => exact h123.trans (nle_prepend f3 parent wrapper)
        | err e => exact h123
        | panic => exact h123
  | none =>
    simp only
    have h1 : NLe f (f.newElement name).1 := nle_newNode f _
    cases hn : f.newElement name with
    | mk f1 wrapper =>
      rw [hn] at h1
      simp only
      exact h1.trans (nle_append f1 wrapper node)

theorem nle_foldl_spliceOut (xs : List HTree) (f : Forest) :
    NLe f (xs.foldl (fun acc k => acc.spliceOut k.handle) f) := by
  induction xs generalizing f with
  | nil => exact NLe.refl f
  | cons x xs ih => exact (nle_spliceOut f x.handle).trans (ih _)

theorem nle_removeElement (f : Forest) (node : Nat) : NLe f (f.removeElement node) := by
  unfold removeElement
  cases f.get? node with
  | none => exact NLe.refl f
  | some t => exact (nle_foldl_spliceOut _ f).trans (nle_spliceOut _ node)

theorem nle_elementUnwrap (f : Forest) (node : Nat) : NLe f (f.elementUnwrap node).1 := by
  unfold elementUnwrap
  split
  · exact NLe.refl f
  cases f.firstChild node with
  | none => exact nle_remove f node
  | some first =>
    simp only
    split
    · exact NLe.refl f
    cases f.lastChild node with
    | none => exact NLe.refl f
    | some last =>
      simp only
      have h1 := nle_removeElement f node
      have h2 := nle_removeConsolidate (f.removeElement node) ((f.removeElement node).prevSibling first) (some first)
      cases hr : (f.removeElement node).removeConsolidate ((f.removeElement node).prevSibling first) (some first) with
      | mk f2 c =>
        rw [hr] at h2
        simp only
        have h12 := h1.trans h2
        split
        · split
          · exact h12.trans (nle_removeConsolidate _ _ _)
          · exact h12.trans (nle_removeConsolidate _ _ _)
        · exact h12.trans (nle_removeConsolidate _ _ _)

theorem nle_clone_step {f f2 : Forest} {v : Value} {current : Nat} {r : Res} {n : Nat}
    (heq : (f.newNode v).1.anyAppend current (f.newNode v).2 = (f2, r, n)) : NLe f f2 := by
  have h2 := nle_anyAppend (f.newNode v).1 current (f.newNode v).2
  rw [heq] at h2
  exact (nle_newNode f v).trans h2

mutual
  theorem nle_cloneInto (current : Nat) : ∀ (t : HTree) (f f' : Forest), cloneInto f current t = some f' → NLe f f'
    | .node h v ks, f, f' => by
      intro hc
      unfold cloneInto at hc
      cases v with
      | document => exact nle_cloneKids current ks f f' hc
      | _ =>
        simp only at hc
        split at hc
        · rename_i f2 _ heq
          exact (nle_clone_step heq).trans (nle_cloneKids _ ks f2 f' hc)
        · cases hc
  theorem nle_cloneKids (current : Nat) : ∀ (ks : List HTree) (f f' : Forest), cloneKids f current ks = some f' → NLe f f'
    | [], f, f' => by
      intro hc; rw [cloneKids] at hc; cases hc; exact NLe.refl f
    | k :: ks, f, f' => by
      intro hc
      rw [cloneKids] at hc
      split at hc
      · rename_i f1 heq
        exact (nle_cloneInto current k f f1 heq).trans (nle_cloneKids current ks f1 f' hc)
      · cases hc
end

theorem nle_cloneNode (f : Forest) (node : Nat) : NLe f (f.cloneNode node).1 := by
  unfold cloneNode
  cases f.get? node with
  | none => exact NLe.refl f
  | some src =>
    simp only
    split
    · have h1 : NLe f f.newDocument.1 := nle_newNode f _
      cases hn : f.newDocument with
      | mk f1 top =>
        rw [hn] at h1
        simp only
        cases hc : cloneKids f1 top src.kids with
        | some f2 => exact h1.trans (nle_cloneKids top _ f1 f2 hc)
        | none => exact h1
    · rename_i name _
      have h1 : NLe f (f.newElement name).1 := nle_newNode f _
      cases hn : f.newElement name with
      | mk f1 top =>
        rw [hn] at h1
        simp only
        cases hc : cloneInto f1 top src with
        | some f2 =>
          simp only
          have h2 := h1.trans (nle_cloneInto top src f1 f2 hc)
          cases f2.firstChild top with
          | some c => exact h2.trans (nle_spliceOut f2 top)
          | none => exact h2
        | none => exact h1
    · exact nle_newNode f _

end Forest
end XotModel
