/-
  The reference tokenizer (Model/Lex.lean, xmlparser) on what `Declaration::serialize` writes in front of a
  canonical document: `<?xml version="1.0"[ encoding="E"][ standalone="yes|no"]?>` + LF + body.

    lexDocument (d.bytes ++ renderTokens ts) = (Declaration token :: ts re-positioned, no error)
    lexFragment (d.bytes ++ r)               = ([], error at position 0)

  (`parse_fragment` starts the tokenizer in `State::Elements`, where `<?xml ` is an error.)
  The encoding must consist of the characters `parse_encoding_decl` accepts (letters, digits, `.` `-` `_`:
  every `EncName`).
-/
import XotModel.Lemmas.LexCanon
import XotModel.Model.XmlDecl

namespace XotModel.Lex.Canon
open XotModel.Lex XotModel.Lex.Stream

def verLit : Str := ['v','e','r','s','i','o','n','=','"','1','.','0','"']

theorem parseVersionInfo_written (p : Nat) (r : Str) :
    ∃ v q, parseVersionInfo ⟨p, verLit ++ r⟩ = some (⟨['1','.','0'], v⟩, ⟨q, r⟩) := by
  have h1 : Stops isXmlSpace (verLit ++ r) := Stops.cons _ (by decide)
  simp only [parseVersionInfo, Option.bind_eq_bind]
  rw [skipSpaces_stop _ h1]
  rw [show verLit ++ r = litVersion ++ ('=' :: '"' :: '1' :: '.' :: '0' :: '"' :: r) from rfl, skipString_app]
  simp only [Option.bind_some]
  rw [consumeEq_eq _ _ (Stops.cons _ (by decide))]
  simp only [Option.bind_some]
  rw [consumeQuote_dq]
  simp only [Option.bind_some]
  rw [show '1' :: '.' :: '0' :: '"' :: r = litOneDot ++ ('0' :: '"' :: r) from rfl, skipString_app]
  simp only [Option.bind_some]
  rw [show '0' :: '"' :: r = ['0'] ++ ('"' :: r) from rfl, skipBytes_app _ (by decide) (Stops.cons _ (by decide))]
  rw [consumeByte_self]
  simp only [Option.bind_some]
  rw [sliceBack_eq ['1','.','0'] rfl]
  exact ⟨_, _, rfl⟩

/-- The blank in front of a pseudo-attribute. -/
theorem declSpaces_blank (p : Nat) (x : Str) (hx : Stops isXmlSpace x) :
    ∃ q, declSpaces ⟨p, ' ' :: x⟩ = some ⟨q, x⟩ := by
  have := skipBytes_app (f := isXmlSpace) p (a := [' ']) (by decide) hx
  refine ⟨p + strLen [' '], ?_⟩
  simp only [declSpaces, startsWithSpace, show isXmlSpace ' ' = true from by decide, if_true, skipSpaces]
  exact congrArg some this

/-- No blank in front of `?>`. -/
theorem declSpaces_close (p : Nat) (x : Str) : declSpaces ⟨p, '?' :: '>' :: x⟩ = some ⟨p, '?' :: '>' :: x⟩ := by
  simp [declSpaces, startsWithSpace, show isXmlSpace '?' = false from by decide, startsWith, litPiClose]

def encChar (c : Char) : Bool := isXmlLetter c || isXmlDigit c || c == '.' || c == '-' || c == '_'

theorem parseEncodingDecl_written (p : Nat) (e x : Str) (he : e.all encChar = true) :
    ∃ sp q, parseEncodingDecl ⟨p, litEncoding ++ ('=' :: '"' :: (e ++ '"' :: x))⟩ = some (some sp, ⟨q, x⟩) := by
  have hpre : startsWith ⟨p, litEncoding ++ ('=' :: '"' :: (e ++ '"' :: x))⟩ litEncoding = true := by
    simp only [startsWith]
    rw [List.isPrefixOf_iff_prefix]; exact List.prefix_append _ _
  simp only [parseEncodingDecl, hpre, Bool.not_true, Bool.false_eq_true, if_false, Option.bind_eq_bind]
  rw [adv_app p litEncoding _ 8 rfl, consumeEq_eq _ _ (Stops.cons _ (by decide))]
  simp only [Option.bind_some]
  rw [consumeQuote_dq]
  simp only [Option.bind_some]
  have := skipBytes_app (f := fun c => isXmlLetter c || isXmlDigit c || c == '.' || c == '-' || c == '_')
    (p + strLen litEncoding + 1 + 1) (a := e) (r := '"' :: x) he (Stops.cons _ (by decide))
  rw [this, consumeByte_self]
  simp only [Option.bind_some]
  exact ⟨_, _, rfl⟩

theorem parseEncodingDecl_absent (p : Nat) (x : Str) (hx : litEncoding.isPrefixOf x = false) :
    parseEncodingDecl ⟨p, x⟩ = some (none, ⟨p, x⟩) := by
  simp [parseEncodingDecl, startsWith, hx]

def saLit (b : Bool) : Str := litStandalone ++ ('=' :: '"' :: ((if b then litYes else litNo) ++ ['"']))

theorem parseStandalone_written (p : Nat) (b : Bool) (x : Str) :
    ∃ q, parseStandalone ⟨p, saLit b ++ x⟩ = some (some b, ⟨q, x⟩) := by
  have hpre : startsWith ⟨p, saLit b ++ x⟩ litStandalone = true := by
    simp only [startsWith, saLit, List.append_assoc]
    rw [List.isPrefixOf_iff_prefix]; exact List.prefix_append _ _
  simp only [parseStandalone, hpre, Bool.not_true, Bool.false_eq_true, if_false, Option.bind_eq_bind]
  rw [show saLit b ++ x = litStandalone ++ ('=' :: '"' :: ((if b then litYes else litNo) ++ '"' :: x)) by
    simp [saLit]]
  rw [adv_app p litStandalone _ 10 rfl, consumeEq_eq _ _ (Stops.cons _ (by decide))]
  simp only [Option.bind_some]
  rw [consumeQuote_dq]
  simp only [Option.bind_some]
  rw [consumeName_app _ (by cases b <;> decide) (Stops.cons _ (by decide))]
  simp only [Option.bind_some]
  cases b
  · simp only [Bool.false_eq_true, if_false, show (litNo == litYes) = false from by decide,
      show (litNo == litNo) = true from by decide, if_true, Option.bind_some, consumeByte_self]
    exact ⟨_, rfl⟩
  · simp only [if_true, show (litYes == litYes) = true from by decide, Option.bind_some, consumeByte_self]
    exact ⟨_, rfl⟩

theorem parseStandalone_absent (p : Nat) (x : Str) (hx : litStandalone.isPrefixOf x = false) :
    parseStandalone ⟨p, x⟩ = some (none, ⟨p, x⟩) := by
  simp [parseStandalone, startsWith, hx]

theorem declClose_written (p : Nat) (x : Str) :
    ∃ q, skipString litPiClose (skipSpaces ⟨p, '?' :: '>' :: x⟩) = some ⟨q, x⟩ := by
  rw [skipSpaces_stop _ (Stops.cons _ (by decide)),
    show '?' :: '>' :: x = litPiClose ++ x from rfl, skipString_app]
  exact ⟨_, rfl⟩

/-- **`parse_declaration` on what `Declaration::serialize` writes**: one `Declaration` token with version
    `1.0`; the stream then stands at the line feed the writer appends. -/
theorem parseDeclaration_written (d : Declaration) (r : Str)
    (henc : ∀ e, d.encoding = some e → e.all encChar = true) :
    ∃ v e sa sp q, parseDeclaration ⟨0, d.bytes ++ r⟩ =
      some (.declaration ⟨['1', '.', '0'], v⟩ e sa sp, ⟨q, '\n' :: r⟩) := by
  obtain ⟨enc, sa⟩ := d
  have hb : ∀ R, (Stream.mk 0 (litXmlDecl ++ (verLit ++ R))).adv 6 = ⟨0 + strLen litXmlDecl, verLit ++ R⟩ :=
    fun R => adv_app 0 litXmlDecl _ 6 rfl
  have hS := fun p => parseStandalone_absent p ('?' :: '>' :: '\n' :: r) rfl
  have hE1 := fun p => parseEncodingDecl_absent p ('?' :: '>' :: '\n' :: r) rfl
  have hE2 := fun p b => parseEncodingDecl_absent p (saLit b ++ ('?' :: '>' :: '\n' :: r)) (by cases b <;> rfl)
  cases enc with
  | none =>
    cases sa with
    | none =>
      have hbytes : (Declaration.mk none none).bytes ++ r = litXmlDecl ++ (verLit ++ ('?' :: '>' :: '\n' :: r)) := rfl
      obtain ⟨v, q1, h1⟩ := parseVersionInfo_written (0 + strLen litXmlDecl) ('?' :: '>' :: '\n' :: r)
      obtain ⟨q2, h2⟩ := declClose_written q1 ('\n' :: r)
      simp only [parseDeclaration, Option.bind_eq_bind, hbytes, hb, h1, Option.bind_some, declSpaces_close,
        hE1, Option.isSome_none, Bool.false_eq_true, if_false, hS, h2]
      exact ⟨_, _, _, _, _, rfl⟩
    | some b =>
      have hbytes : (Declaration.mk none (some b)).bytes ++ r =
          litXmlDecl ++ (verLit ++ (' ' :: (saLit b ++ ('?' :: '>' :: '\n' :: r)))) := by cases b <;> rfl
      obtain ⟨v, q1, h1⟩ := parseVersionInfo_written (0 + strLen litXmlDecl)
        (' ' :: (saLit b ++ ('?' :: '>' :: '\n' :: r)))
      obtain ⟨q2, h2⟩ := declSpaces_blank q1 (saLit b ++ ('?' :: '>' :: '\n' :: r)) (Stops.cons _ (by decide))
      obtain ⟨q3, h3⟩ := parseStandalone_written q2 b ('?' :: '>' :: '\n' :: r)
      obtain ⟨q4, h4⟩ := declClose_written q3 ('\n' :: r)
      simp only [parseDeclaration, Option.bind_eq_bind, hbytes, hb, h1, Option.bind_some, h2,
        hE2, Option.isSome_none, Bool.false_eq_true, if_false, h3, h4]
      exact ⟨_, _, _, _, _, rfl⟩
  | some e =>
    have he := henc e rfl
    cases sa with
    | none =>
      have hbytes : (Declaration.mk (some e) none).bytes ++ r =
          litXmlDecl ++ (verLit ++ (' ' :: (litEncoding ++ ('=' :: '"' :: (e ++ '"' :: ('?' :: '>' :: '\n' :: r)))))) := by
        simp [Declaration.bytes, Gen.declOpen, Gen.declEncodingOpen, Gen.declEncodingClose, Gen.declClose, litXmlDecl,
          verLit, litEncoding]
      obtain ⟨v, q1, h1⟩ := parseVersionInfo_written (0 + strLen litXmlDecl)
        (' ' :: (litEncoding ++ ('=' :: '"' :: (e ++ '"' :: ('?' :: '>' :: '\n' :: r)))))
      obtain ⟨q2, h2⟩ := declSpaces_blank q1 (litEncoding ++ ('=' :: '"' :: (e ++ '"' :: ('?' :: '>' :: '\n' :: r))))
        (Stops.cons _ (by decide))
      obtain ⟨sp, q3, h3⟩ := parseEncodingDecl_written q2 e ('?' :: '>' :: '\n' :: r) he
      obtain ⟨q4, h4⟩ := declClose_written q3 ('\n' :: r)
      simp only [parseDeclaration, Option.bind_eq_bind, hbytes, hb, h1, Option.bind_some, h2, h3,
        Option.isSome_some, if_true, declSpaces_close, hS, h4]
      exact ⟨_, _, _, _, _, rfl⟩
    | some b =>
      have hbytes : (Declaration.mk (some e) (some b)).bytes ++ r =
          litXmlDecl ++ (verLit ++ (' ' :: (litEncoding ++ ('=' :: '"' :: (e ++ '"' ::
            (' ' :: (saLit b ++ ('?' :: '>' :: '\n' :: r)))))))) := by
        cases b <;>
        simp [Declaration.bytes, Gen.declOpen, Gen.declEncodingOpen, Gen.declEncodingClose, Gen.declClose, litXmlDecl,
          verLit, litEncoding, saLit, litStandalone, litYes, litNo, Gen.declStandaloneOpen, Gen.declStandaloneClose,
          Gen.declYes, Gen.declNo]
      obtain ⟨v, q1, h1⟩ := parseVersionInfo_written (0 + strLen litXmlDecl)
        (' ' :: (litEncoding ++ ('=' :: '"' :: (e ++ '"' :: (' ' :: (saLit b ++ ('?' :: '>' :: '\n' :: r)))))))
      obtain ⟨q2, h2⟩ := declSpaces_blank q1
        (litEncoding ++ ('=' :: '"' :: (e ++ '"' :: (' ' :: (saLit b ++ ('?' :: '>' :: '\n' :: r))))))
        (Stops.cons _ (by decide))
      obtain ⟨sp, q3, h3⟩ := parseEncodingDecl_written q2 e (' ' :: (saLit b ++ ('?' :: '>' :: '\n' :: r))) he
      obtain ⟨q4, h4⟩ := declSpaces_blank q3 (saLit b ++ ('?' :: '>' :: '\n' :: r)) (Stops.cons _ (by decide))
      obtain ⟨q5, h5⟩ := parseStandalone_written q4 b ('?' :: '>' :: '\n' :: r)
      obtain ⟨q6, h6⟩ := declClose_written q5 ('\n' :: r)
      simp only [parseDeclaration, Option.bind_eq_bind, hbytes, hb, h1, Option.bind_some, h2, h3,
        Option.isSome_some, if_true, h4, h5, h6]
      exact ⟨_, _, _, _, _, rfl⟩

theorem bytes_head (d : Declaration) (r : Str) : ∃ x, d.bytes ++ r = litXmlDecl ++ x := by
  obtain ⟨enc, sa⟩ := d
  cases enc <;> cases sa <;> exact ⟨_, rfl⟩

/-- A canonical document does not begin with white space. -/
theorem prolog_no_space {ts : List Token} (h : lexNest false .prolog ts = true) :
    Stops isXmlSpace (renderTokens ts) := by
  cases ts with
  | nil => exact Stops.nil _
  | cons t ts =>
    rw [renderTokens_cons]
    cases t with
    | comment a sp => exact Stops.cons _ (by decide)
    | pi a c sp => cases c <;> exact Stops.cons _ (by decide)
    | elementStart p l sp => exact Stops.cons _ (by decide)
    | _ => simp [lexNest] at h

end XotModel.Lex.Canon

namespace XotModel
open XotModel.Lex XotModel.Lex.Canon XotModel.Lex.Stream

/-- **Document mode**: the declaration is read as one `Declaration` token with version `1.0`, the line
    feed behind it is skipped, and the canonical document is read as in `lexDocument_render`. -/
theorem lexDocument_declaration (d : Declaration) (ts : List Token) (h : LexOK false ts = true)
    (henc : ∀ e, d.encoding = some e → e.all encChar = true) :
    ∃ v e sa sp q, lexDocument (d.bytes ++ renderTokens ts) =
      (.declaration ⟨['1', '.', '0'], v⟩ e sa sp :: placeTokens q ts, none) := by
  simp only [LexOK, Bool.and_eq_true] at h
  obtain ⟨v, e, sa, sp, q, hp⟩ := parseDeclaration_written d (renderTokens ts) henc
  obtain ⟨x, hx⟩ := bytes_head d (renderTokens ts)
  refine ⟨v, e, sa, sp, q + 1, ?_⟩
  have hb : ((Stream.ofStr (d.bytes ++ renderTokens ts)).curr? == some '\uFEFF') = false := by rw [hx]; rfl
  have e0 : Tokenizer.ofStr (d.bytes ++ renderTokens ts) =
      ⟨⟨0, d.bytes ++ renderTokens ts⟩, .declaration, 0, false⟩ := by
    simp only [Tokenizer.ofStr, hb, Bool.false_eq_true, if_false]; rfl
  have hne : (Stream.mk 0 (d.bytes ++ renderTokens ts)).atEnd = false := by rw [hx]; rfl
  have hsw : (Stream.mk 0 (d.bytes ++ renderTokens ts)).startsWith litXmlDecl = true := by
    rw [hx]; simp only [startsWith]; rw [List.isPrefixOf_iff_prefix]; exact List.prefix_append _ _
  -- the declaration token
  have step1 : parseNextImpl ⟨⟨0, d.bytes ++ renderTokens ts⟩, .declaration, 0, false⟩ =
      .token (.declaration ⟨['1', '.', '0'], v⟩ e sa sp)
        ⟨⟨q, '\n' :: renderTokens ts⟩, .afterDeclaration, 0, false⟩ := by
    simp only [parseNextImpl, hne, Bool.false_eq_true, if_false, hsw, if_true, hp, Step.ofParse]
  -- the line feed
  have hsp : skipSpaces ⟨q, '\n' :: renderTokens ts⟩ = ⟨q + 1, renderTokens ts⟩ := by
    have := skipBytes_app (f := isXmlSpace) q (a := ['\n']) (by decide) (prolog_no_space h.2)
    simpa [skipSpaces, strLen, show utf8Len '\n' = 1 from by decide] using this
  have step2 : parseNextImpl ⟨⟨q, '\n' :: renderTokens ts⟩, .afterDeclaration, 0, false⟩ =
      .skip ⟨⟨q + 1, renderTokens ts⟩, .afterDeclaration, 0, false⟩ := by
    simp only [parseNextImpl, atEnd, List.isEmpty_cons, Bool.false_eq_true, if_false, startsWith, litDoctype,
      List.isPrefixOf, show ('<' == '\n') = false from by decide, Bool.false_and, miscStep, litCommentOpen,
      litPiOpen, startsWithSpace, show isXmlSpace '\n' = true from by decide, if_true, hsp]
  unfold lexDocument
  rw [e0, lexLoop_token _ hne (by simp) step1, lexLoop_skip _ rfl (by simp) step2,
    lexLoop_render false ts .prolog _ _ ⟨rfl, rfl, .inr (.inl rfl)⟩ h.1 h.2 rfl]

/-- The declaration token, then whatever the tokenizer makes of the rest (from `AfterDeclaration`, standing
    at the line feed the writer appends). -/
theorem lexDocument_declaration_then (d : Declaration) (r : Str)
    (henc : ∀ e, d.encoding = some e → e.all encChar = true) :
    ∃ v e sa sp q, lexDocument (d.bytes ++ r) =
      (.declaration ⟨['1', '.', '0'], v⟩ e sa sp ::
          (lexLoop ⟨⟨q, '\n' :: r⟩, .afterDeclaration, 0, false⟩ q).1,
        (lexLoop ⟨⟨q, '\n' :: r⟩, .afterDeclaration, 0, false⟩ q).2) := by
  obtain ⟨v, e, sa, sp, q, hp⟩ := parseDeclaration_written d r henc
  obtain ⟨x, hx⟩ := bytes_head d r
  refine ⟨v, e, sa, sp, q, ?_⟩
  have hb : ((Stream.ofStr (d.bytes ++ r)).curr? == some '\uFEFF') = false := by rw [hx]; rfl
  have e0 : Tokenizer.ofStr (d.bytes ++ r) = ⟨⟨0, d.bytes ++ r⟩, .declaration, 0, false⟩ := by
    simp only [Tokenizer.ofStr, hb, Bool.false_eq_true, if_false]; rfl
  have hne : (Stream.mk 0 (d.bytes ++ r)).atEnd = false := by rw [hx]; rfl
  have hsw : (Stream.mk 0 (d.bytes ++ r)).startsWith litXmlDecl = true := by
    rw [hx]; simp only [startsWith]; rw [List.isPrefixOf_iff_prefix]; exact List.prefix_append _ _
  have step1 : parseNextImpl ⟨⟨0, d.bytes ++ r⟩, .declaration, 0, false⟩ =
      .token (.declaration ⟨['1', '.', '0'], v⟩ e sa sp) ⟨⟨q, '\n' :: r⟩, .afterDeclaration, 0, false⟩ := by
    simp only [parseNextImpl, hne, Bool.false_eq_true, if_false, hsw, if_true, hp, Step.ofParse]
  unfold lexDocument
  rw [e0, lexLoop_token _ hne (by simp) step1]

/-- The tokens read back are the given ones up to byte positions, after one declaration token. -/
theorem lexDocument_declaration_erase (d : Declaration) (ts : List Token) (h : LexOK false ts = true)
    (henc : ∀ e, d.encoding = some e → e.all encChar = true) :
    ∃ v e sa sp ts', lexDocument (d.bytes ++ renderTokens ts) =
        (.declaration ⟨['1', '.', '0'], v⟩ e sa sp :: ts', none) ∧
      ts'.map Token.erase = ts.map Token.erase ∧ tokensPrefixOk ts' = true := by
  obtain ⟨v, e, sa, sp, q, hl⟩ := lexDocument_declaration d ts h henc
  exact ⟨v, e, sa, sp, placeTokens q ts, hl, placeTokens_erase q ts, placeTokens_prefixOk ts q⟩

/-- **Fragment mode**: `parse_fragment` starts in element content, where `<?xml ` is an error: no token,
    the error at position 0. -/
theorem lexFragment_declaration (d : Declaration) (r : Str) :
    lexFragment (d.bytes ++ r) = ([], some 0) := by
  obtain ⟨x, hx⟩ := bytes_head d r
  unfold lexFragment
  simp only [Tokenizer.ofFragment, Stream.ofStr, hx]
  apply lexLoop_error _ rfl (by simp)
  simp [parseNextImpl, atEnd, litXmlDecl, curr?, next?, startsWith]

end XotModel
