/-
  C10 and the round trip, part 1: what `create_missing_prefixes` does to the interning tables and to
  the C01 domain (`Representable`).

  * `PrefixExt env env'`: only the prefix table grows (by appending strings that were not there).
  * the `n{counter}` loop: every prefix id it answers spells `n` + decimal digits in the new table
    (`assignPrefixes_ext`), an NCName other than `xmlns` (`valueOK_generated`).
  * `valueOK` / `nodeOK` / `envOK` / `Keeps` survive `PrefixExt`.
  * `namespaces_mut(element).insert(p, ns)` with a well-formed `(p, ns)` is an edit that stays in
    the C01 domain (`keeps_insertNamespace`, `keeps_insertNamespaces`).
-/
import XotModel.Lemmas.RepresentableEdit
import XotModel.Lemmas.RepairFuel
import XotModel.Lemmas.RepairValid
import XotModel.Lemmas.RoundTripEnv

namespace XotModel.Repair
open XotModel

/-! ### The tables only grow -/

structure PrefixExt (env env' : Env) : Prop where
  names : env'.names = env.names
  namespaces : env'.namespaces = env.namespaces
  ext : ∃ e, env'.prefixes = env.prefixes ++ e
  nodup : env.prefixes.Nodup → env'.prefixes.Nodup

theorem PrefixExt.refl (env : Env) : PrefixExt env env := ⟨rfl, rfl, ⟨[], by simp⟩, id⟩

theorem PrefixExt.trans {a b c : Env} (h1 : PrefixExt a b) (h2 : PrefixExt b c) : PrefixExt a c := by
  obtain ⟨e1, he1⟩ := h1.ext
  obtain ⟨e2, he2⟩ := h2.ext
  exact ⟨h2.names.trans h1.names, h2.namespaces.trans h1.namespaces,
    ⟨e1 ++ e2, by rw [he2, he1, List.append_assoc]⟩, fun h => h2.nodup (h1.nodup h)⟩

theorem PrefixExt.getElem? {env env' : Env} (h : PrefixExt env env') {i : Nat} {s : Str}
    (hi : env.prefixes[i]? = some s) : env'.prefixes[i]? = some s := by
  obtain ⟨e, he⟩ := h.ext
  rw [he, List.getElem?_append_left (List.getElem?_eq_some_iff.mp hi).1]
  exact hi

theorem addPrefix_ext (env : Env) (s : Str) : PrefixExt env (env.addPrefix s).1 := by
  unfold Env.addPrefix
  cases h : env.prefixes.findIdx? (· == s) with
  | some i => exact PrefixExt.refl env
  | none =>
    refine ⟨rfl, rfl, ⟨[s], rfl⟩, fun hn => ?_⟩
    rw [List.findIdx?_eq_none_iff] at h
    simp only [List.nodup_append, List.nodup_cons, List.not_mem_nil, not_false_eq_true, List.nodup_nil,
      and_self, List.mem_singleton, true_and, hn]
    intro a ha b hb
    subst hb
    intro hab
    have := h a ha
    simp [hab] at this

/-- A string `n` + decimal digits. -/
def IsGenerated (s : Str) : Prop := ∃ k, s = generatedPrefixName k

theorem freshPrefix_ext (used : List Nat) : ∀ (fuel : Nat) (env : Env) (c : Nat) (env1 : Env) (p c1 : Nat),
    freshPrefix used fuel env c = some (env1, p, c1) →
      PrefixExt env env1 ∧ ∃ s, env1.prefixes[p]? = some s ∧ IsGenerated s
  | 0, _, _, _, _, _, h => by simp [freshPrefix] at h
  | fuel + 1, env, c, env1, p, c1, h => by
    simp only [freshPrefix] at h
    split at h
    · simp only [Option.some.injEq, Prod.mk.injEq] at h
      obtain ⟨rfl, rfl, _⟩ := h
      exact ⟨addPrefix_ext env _, _, addPrefix_getElem env _, c, rfl⟩
    · obtain ⟨b1, b2⟩ := freshPrefix_ext used fuel _ _ env1 p c1 h
      exact ⟨(addPrefix_ext env _).trans b1, b2⟩

theorem assignPrefixes_ext : ∀ (M : List Nat) (env : Env) (used : List Nat) (c : Nat) (env' : Env)
    (nd : List (Nat × Nat)), assignPrefixes env used c M = some (env', nd) →
      PrefixExt env env' ∧ ∀ d ∈ nd, ∃ s, env'.prefixes[d.1]? = some s ∧ IsGenerated s
  | [], env, used, c, env', nd, h => by
    simp only [assignPrefixes, Option.some.injEq, Prod.mk.injEq] at h
    obtain ⟨rfl, rfl⟩ := h
    exact ⟨PrefixExt.refl _, fun d hd => by cases hd⟩
  | ns :: M, env, used, c, env', nd, h => by
    simp only [assignPrefixes] at h
    cases hf : freshPrefix used (used.length + 1) env c with
    | none => simp [hf] at h
    | some r =>
      obtain ⟨env1, p, c1⟩ := r
      simp only [hf] at h
      cases ha : assignPrefixes env1 (p :: used) c1 M with
      | none => simp [ha] at h
      | some r2 =>
        obtain ⟨env2, l⟩ := r2
        simp only [ha, Option.some.injEq, Prod.mk.injEq] at h
        obtain ⟨rfl, rfl⟩ := h
        obtain ⟨f1, s, f2, f3⟩ := freshPrefix_ext used _ env c env1 p c1 hf
        obtain ⟨i1, i2⟩ := assignPrefixes_ext M env1 (p :: used) c1 env2 l ha
        refine ⟨f1.trans i1, fun d hd => ?_⟩
        rcases List.mem_cons.mp hd with rfl | hd
        · exact ⟨s, i1.getElem? f2, f3⟩
        · exact i2 d hd

/-! ### Generated prefixes are NCNames -/

theorem isNameChar_digit {c : Char} (h : c.isDigit = true) : isNameChar c = true ∧ (c != ':') = true := by
  simp only [Char.isDigit, Bool.and_eq_true, decide_eq_true_eq] at h
  have h1 : 48 ≤ c.toNat := by
    have := h.1
    rw [ge_iff_le, UInt32.le_iff_toNat_le] at this
    exact this
  have h2 : c.toNat ≤ 57 := by
    have := h.2
    rw [UInt32.le_iff_toNat_le] at this
    exact this
  have hne : c ≠ ':' := by
    intro hc; subst hc; revert h2; decide
  refine ⟨?_, by simpa using hne⟩
  have : c.toNat ≤ 128 := by omega
  simp only [isNameChar, this, if_true, Bool.or_eq_true, Bool.and_eq_true, decide_eq_true_eq]
  left; left; left; left; right
  exact ⟨h1, h2⟩

theorem ncNameNE_generated {s : Str} (h : IsGenerated s) : ncNameNE s = true ∧ s ≠ xmlnsName := by
  obtain ⟨k, rfl⟩ := h
  refine ⟨?_, by simp [generatedPrefixName, xmlnsName]⟩
  simp only [ncNameNE, ncNameOK, generatedPrefixName, List.all_cons, List.isEmpty_cons, Bool.not_false,
    Bool.and_true, Bool.and_eq_true, List.all_eq_true]
  refine ⟨⟨by decide, fun c hc => isNameChar_digit (Nat.isDigit_of_mem_toDigits (by decide) (by decide) hc)⟩,
    by decide⟩

/-! ### `valueOK`, `nodeOK`, `envOK` survive the growth of the prefix table -/

theorem PrefixExt.localName {env env' : Env} (h : PrefixExt env env') : env'.localName = env.localName := by
  funext n; simp [Env.localName, h.names]

theorem PrefixExt.nsOfName {env env' : Env} (h : PrefixExt env env') : env'.nsOfName = env.nsOfName := by
  funext n; simp [Env.nsOfName, h.names]

theorem PrefixExt.namespaceStr {env env' : Env} (h : PrefixExt env env') :
    env'.namespaceStr = env.namespaceStr := by
  funext n; simp [Env.namespaceStr, h.namespaces]

theorem PrefixExt.prefixStr {env env' : Env} (h : PrefixExt env env') {p : Nat}
    (hp : env.prefixStr p ≠ []) : env'.prefixStr p = env.prefixStr p := by
  obtain ⟨e, he⟩ := h.ext
  have hlt : p < env.prefixes.length := by
    apply Classical.byContradiction
    intro hn
    apply hp
    simp [Env.prefixStr, List.getD_eq_getElem?_getD, List.getElem?_eq_none (Nat.le_of_not_lt hn)]
  simp only [Env.prefixStr, he, List.getD_eq_getElem?_getD, List.getElem?_append_left hlt]

theorem PrefixExt.isXmlIdName {env env' : Env} (h : PrefixExt env env') (n : Nat) :
    isXmlIdName env' n = isXmlIdName env n := by
  simp [XotModel.isXmlIdName, h.nsOfName, h.localName]

theorem valueOK_ext {env env' : Env} (h : PrefixExt env env') (v : Value) (hv : valueOK env v = true) :
    valueOK env' v = true := by
  cases v with
  | «namespace» p ns =>
    simp only [valueOK, h.namespaceStr, Bool.and_eq_true, Bool.or_eq_true] at hv ⊢
    refine ⟨⟨⟨hv.1.1.1, ?_⟩, hv.1.2⟩, hv.2⟩
    rcases hv.1.1.2 with h0 | h1
    · exact Or.inl h0
    · right
      have hne : env.prefixStr p ≠ [] := by
        intro hnil
        have := h1.1.1
        rw [hnil] at this
        simp [ncNameNE] at this
      rw [h.prefixStr hne]
      exact h1
  | document => exact hv
  | element n => simpa [valueOK, h.localName] using hv
  | text s => exact hv
  | comment s => exact hv
  | pi t d => simpa [valueOK, h.localName, h.nsOfName] using hv
  | «attribute» n s => simpa [valueOK, h.localName, h.nsOfName, h.isXmlIdName] using hv

theorem nodeOK_ext {env env' : Env} (h : PrefixExt env env') (v : Value) (ks : List Tree)
    (hv : nodeOK env v ks = true) : nodeOK env' v ks = true := by
  simp only [nodeOK, Bool.and_eq_true] at hv ⊢
  exact ⟨hv.1, valueOK_ext h v hv.2⟩

theorem allNodes_ext {env env' : Env} (h : PrefixExt env env') (t : Tree)
    (ht : t.allNodes (nodeOK env) = true) : t.allNodes (nodeOK env') = true :=
  allNodes_mono (nodeOK_ext h) t ht

mutual
theorem xmlIdValues_ext {env env' : Env} (h : PrefixExt env env') :
    ∀ t : Tree, xmlIdValues env' t = xmlIdValues env t
  | .node v ks => by
    simp only [xmlIdValues, idsList_ext h ks]
    cases v <;> simp [h.isXmlIdName]
theorem idsList_ext {env env' : Env} (h : PrefixExt env env') :
    ∀ ks : List Tree, xmlIdValues.idsList env' ks = xmlIdValues.idsList env ks
  | [] => rfl
  | k :: ks => by simp only [xmlIdValues.idsList, xmlIdValues_ext h k, idsList_ext h ks]
end

theorem envOK_ext {env env' : Env} (h : PrefixExt env env') (he : envOK env = true) : envOK env' = true := by
  have f := envFacts_of_envOK he
  have hp1 : env.prefixStr Env.xmlPrefix ≠ [] := by rw [f.p1]; simp
  obtain ⟨e, hext⟩ := h.ext
  have hlen : 1 < env.prefixes.length := by
    apply Classical.byContradiction
    intro hn
    apply hp1
    simp [Env.prefixStr, Env.xmlPrefix, List.getD_eq_getElem?_getD, List.getElem?_eq_none (Nat.le_of_not_lt hn)]
  have hp0 : env'.prefixStr Env.emptyPrefix = env.prefixStr Env.emptyPrefix := by
    simp only [Env.prefixStr, Env.emptyPrefix, hext, List.getD_eq_getElem?_getD,
      List.getElem?_append_left (show 0 < env.prefixes.length by omega)]
  simp only [envOK, Bool.and_eq_true, beq_iff_eq, decide_eq_true_eq, h.namespaceStr, h.names, h.namespaces,
    h.prefixStr hp1, hp0]
  exact ⟨⟨⟨⟨⟨⟨⟨f.ns0, by rw [f.ns1]; rfl⟩, f.p0⟩, f.p1⟩, f.id1⟩, f.nsNodup⟩, h.nodup f.pNodup⟩, f.nNodup⟩

theorem Keeps.ext {env env' : Env} (h : PrefixExt env env') {a b : Tree} (hk : Keeps env a b) :
    Keeps env' a b :=
  ⟨allNodes_ext h a hk.ok, hk.value, by rw [xmlIdValues_ext h, xmlIdValues_ext h]; exact hk.ids, hk.top⟩

/-! ### `namespaces_mut(element).insert(p, ns)` -/

theorem nodeOK_namespace_leaf {env : Env} {p ns : Nat} (h : valueOK env (.namespace p ns) = true) :
    (Tree.node (.namespace p ns) []).allNodes (nodeOK env) = true := by
  rw [allNodes_node]
  simp [nodeOK, h, OrderedKids, KindsOk, UniqueKids, attrNames, nsPrefixes, noAdjText]

theorem nsPrefixes_cons_ns (p ns : Nat) (kk ks : List Tree) :
    nsPrefixes (.node (.namespace p ns) kk :: ks) = p :: nsPrefixes ks := by
  simp only [nsPrefixes, List.filterMap_cons, Tree.value]

theorem attrNames_cons_ns (p ns : Nat) (kk ks : List Tree) :
    attrNames (.node (.namespace p ns) kk :: ks) = attrNames ks := by
  simp only [attrNames, List.filterMap_cons, Tree.value]

theorem idsList_cons_ns {env : Env} (p ns : Nat) (kk ks : List Tree) :
    xmlIdValues.idsList env (.node (.namespace p ns) kk :: ks) =
      xmlIdValues.idsList env kk ++ xmlIdValues.idsList env ks := by
  simp only [xmlIdValues.idsList, xmlIdValues, List.nil_append]

theorem orderedKids_cons_ns (p ns : Nat) (kk ks : List Tree) (h : OrderedKids ks) :
    OrderedKids (.node (.namespace p ns) kk :: ks) :=
  List.pairwise_cons.mpr ⟨fun x _ => by simp [Tree.value, Value.phase], h⟩

/-- The facts about `insertNsKid` used below, by one induction. -/
theorem insertNsKid_facts {env : Env} (p ns : Nat) (hv : valueOK env (.namespace p ns) = true) :
    ∀ ks : List Tree, (∀ k ∈ ks, k.allNodes (nodeOK env) = true) → OrderedKids ks →
      (nsPrefixes ks).Nodup →
      (∀ k ∈ insertNsKid p ns ks, k.allNodes (nodeOK env) = true) ∧
      OrderedKids (insertNsKid p ns ks) ∧
      (nsPrefixes (insertNsKid p ns ks)).Nodup ∧
      (∀ x ∈ nsPrefixes (insertNsKid p ns ks), x ∈ nsPrefixes ks ∨ x = p) ∧
      attrNames (insertNsKid p ns ks) = attrNames ks ∧
      (∀ k ∈ insertNsKid p ns ks, k.value.isDocument = true → ∃ k' ∈ ks, k'.value.isDocument = true) ∧
      noAdjText (insertNsKid p ns ks) = noAdjText ks ∧
      xmlIdValues.idsList env (insertNsKid p ns ks) = xmlIdValues.idsList env ks
  | [], _, _, _ => by
    simp only [insertNsKid]
    refine ⟨fun k hk => ?_, by simp [OrderedKids], by rw [nsPrefixes_cons_ns]; simp [nsPrefixes],
      by rw [nsPrefixes_cons_ns]; simp [nsPrefixes], by rw [attrNames_cons_ns], fun k hk hd => ?_, rfl,
      by rw [idsList_cons_ns]; simp [xmlIdValues.idsList]⟩
    · rw [List.mem_singleton.mp hk]; exact nodeOK_namespace_leaf hv
    · rw [List.mem_singleton.mp hk] at hd; simp [Tree.value, Value.isDocument] at hd
  | k :: ks, hok, hord, hnd => by
    have hordt : OrderedKids ks := (List.pairwise_cons.mp hord).2
    cases k with
    | node kv kk =>
      cases kv with
      | «namespace» q m =>
        rw [nsPrefixes_cons_ns, List.nodup_cons] at hnd
        have hndt : (nsPrefixes ks).Nodup := hnd.2
        have hq : q ∉ nsPrefixes ks := hnd.1
        by_cases hqp : (q == p) = true
        · have hqe : q = p := by simpa using hqp
          subst hqe
          simp only [insertNsKid, Tree.value, beq_self_eq_true, if_true, Tree.kids]
          have hk0 := hok _ (List.mem_cons_self)
          rw [allNodes_node, Bool.and_eq_true] at hk0
          have hnew : (Tree.node (.namespace q ns) kk).allNodes (nodeOK env) = true := by
            rw [allNodes_node, Bool.and_eq_true]
            refine ⟨?_, hk0.2⟩
            have := hk0.1
            simp only [nodeOK, Bool.and_eq_true] at this ⊢
            exact ⟨this.1, hv⟩
          refine ⟨fun k hk => ?_, ?_, ?_, ?_, ?_, fun k hk hd => ?_, ?_, ?_⟩
          · rcases List.mem_cons.mp hk with rfl | hk
            · exact hnew
            · exact hok k (List.mem_cons_of_mem _ hk)
          · exact orderedKids_cons_ns q ns kk ks hordt
          · rw [nsPrefixes_cons_ns, List.nodup_cons]; exact hnd
          · intro x hx; left; rw [nsPrefixes_cons_ns] at hx ⊢; exact hx
          · rw [attrNames_cons_ns, attrNames_cons_ns]
          · rcases List.mem_cons.mp hk with rfl | hk
            · simp [Tree.value, Value.isDocument] at hd
            · exact ⟨k, List.mem_cons_of_mem _ hk, hd⟩
          · rw [noAdjText_cons_notText (by rfl), noAdjText_cons_notText (by rfl)]
          · rw [idsList_cons_ns, idsList_cons_ns]
        · have hqf : (q == p) = false := by simpa using hqp
          obtain ⟨i1, i2, i3, i4, i5, i6, i7, i8⟩ := insertNsKid_facts p ns hv ks
            (fun k hk => hok k (List.mem_cons_of_mem _ hk)) hordt hndt
          simp only [insertNsKid, Tree.value, hqf, Bool.false_eq_true, if_false]
          refine ⟨fun k hk => ?_, ?_, ?_, ?_, ?_, fun k hk hd => ?_, ?_, ?_⟩
          · rcases List.mem_cons.mp hk with rfl | hk
            · exact hok _ (List.mem_cons_self)
            · exact i1 k hk
          · exact orderedKids_cons_ns q m kk _ i2
          · rw [nsPrefixes_cons_ns, List.nodup_cons]
            refine ⟨fun hx => ?_, i3⟩
            rcases i4 q hx with h | h
            · exact hq h
            · exact hqp (by simp [h])
          · intro x hx
            rw [nsPrefixes_cons_ns, List.mem_cons] at hx
            rw [nsPrefixes_cons_ns, List.mem_cons]
            rcases hx with rfl | hx
            · exact Or.inl (Or.inl rfl)
            · rcases i4 x hx with h | h
              · exact Or.inl (Or.inr h)
              · exact Or.inr h
          · rw [attrNames_cons_ns, attrNames_cons_ns, i5]
          · rcases List.mem_cons.mp hk with rfl | hk
            · simp [Tree.value, Value.isDocument] at hd
            · obtain ⟨k', hk', hd'⟩ := i6 k hk hd
              exact ⟨k', List.mem_cons_of_mem _ hk', hd'⟩
          · rw [noAdjText_cons_notText (by rfl), noAdjText_cons_notText (by rfl), i7]
          · rw [idsList_cons_ns, idsList_cons_ns, i8]
      | _ =>
        all_goals
          simp only [insertNsKid, Tree.value]
          have hnone : nsPrefixes ks = [] := by
            simp only [nsPrefixes, List.filterMap_eq_nil_iff]
            intro x hx
            have := (List.pairwise_cons.mp hord).1 x hx
            cases hxv : x.value <;> simp_all [Tree.value, Value.phase]
          have hall : ∀ v : Value, v.phase ≠ 0 → nsPrefixes (Tree.node v kk :: ks) = [] := by
            intro v hv
            rw [← hnone]
            cases v <;> first | (simp [Value.phase] at hv; done) | simp only [nsPrefixes, List.filterMap_cons, Tree.value]
          refine ⟨fun k hk => ?_, ?_, ?_, ?_, ?_, fun k hk hd => ?_, ?_, ?_⟩
          · rcases List.mem_cons.mp hk with rfl | hk
            · exact nodeOK_namespace_leaf hv
            · exact hok k hk
          · exact orderedKids_cons_ns p ns [] _ hord
          · rw [nsPrefixes_cons_ns, hall _ (by simp [Value.phase])]; simp
          · intro x hx; right; rw [nsPrefixes_cons_ns, hall _ (by simp [Value.phase])] at hx; simpa using hx
          · rw [attrNames_cons_ns]
          · rcases List.mem_cons.mp hk with rfl | hk
            · simp [Tree.value, Value.isDocument] at hd
            · exact ⟨k, hk, hd⟩
          · rw [noAdjText_cons_notText (by rfl)]
          · rw [idsList_cons_ns]; simp [xmlIdValues.idsList]

/-- Inserting (or overwriting) a well-formed declaration on an element stays in the C01 domain. -/
theorem keeps_insertNamespace {env : Env} (p ns : Nat) (hv : valueOK env (.namespace p ns) = true)
    (name : Nat) (ks : List Tree) (h : (Tree.node (.element name) ks).allNodes (nodeOK env) = true) :
    Keeps env (insertNamespace p ns (.node (.element name) ks)) (.node (.element name) ks) := by
  obtain ⟨ho, hkind, hu, hadj, hval⟩ := (nodeOK_iff env _ ks).mp (nodeOK_of_allNodes h)
  obtain ⟨i1, i2, i3, _, i5, i6, i7, i8⟩ := insertNsKid_facts p ns hv ks (fun k hk => allNodes_kid h hk) ho hu.2
  simp only [insertNamespace]
  refine ⟨?_, rfl, ?_, fun hne => by simp [Tree.value, Value.isElement] at hne⟩
  · rw [allNodes_node, Bool.and_eq_true, List.all_eq_true]
    refine ⟨(nodeOK_iff env _ _).mpr ⟨i2, ⟨fun hl => by simp [Value.isLeafKind] at hl,
      fun hne => by simp [Value.isElement] at hne, fun k hk => ?_⟩, ⟨by rw [i5]; exact hu.1, i3⟩,
      by rw [i7]; exact hadj, hval⟩, i1⟩
    cases hd : k.value.isDocument with
    | false => rfl
    | true =>
      obtain ⟨k', hk', hd'⟩ := i6 k hk hd
      rw [hkind.2.2 k' hk'] at hd'; cases hd'
  · simp only [xmlIdValues, i8]; exact List.Sublist.refl _

theorem insertNamespace_element (p ns name : Nat) (ks : List Tree) :
    insertNamespace p ns (.node (.element name) ks) = .node (.element name) (insertNsKid p ns ks) := rfl

theorem keeps_insertNamespaces {env : Env} (nd : List (Nat × Nat))
    (hv : ∀ d ∈ nd, valueOK env (.namespace d.1 d.2) = true) (name : Nat) :
    ∀ (ks : List Tree), (Tree.node (.element name) ks).allNodes (nodeOK env) = true →
    Keeps env (insertNamespaces nd (.node (.element name) ks)) (.node (.element name) ks) := by
  induction nd with
  | nil => intro ks h; exact Keeps.refl h
  | cons d nd ih =>
    intro ks h
    simp only [insertNamespaces, List.foldl_cons, insertNamespace_element]
    have h1 := keeps_insertNamespace d.1 d.2 (hv d (by simp)) name ks h
    rw [insertNamespace_element] at h1
    exact (ih (fun d' hd' => hv d' (by simp [hd'])) _ h1.ok).trans h1

end XotModel.Repair
