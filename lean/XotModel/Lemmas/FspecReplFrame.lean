/-
  FspecReplFrame — C05 for `replace`, statements about the SPECIFICATION `specReplace` only
  (no model function): part 1, list facts, the three geometries of the replacing node `b`
  (parentless / child of another node / child of the same node `q`) brought to ONE form

      specReplace keep a b f = Y.editAt (some q) (mergeOpt c keep ∘ replaceTop a (fun _ => [t]))

  where `Y` is the forest after `b` has left its place (`ReplFrame.Stage`), and the frame F1
  (`frame_specReplace`).  Part 2 (`FspecReplFrame2`): the handles; part 3 (`FspecReplFrame3`):
  the content does not depend on the survivor rule.
-/
import XotModel.Lemmas.FspecRepl2
import XotModel.Lemmas.FspecFrame
import XotModel.Lemmas.FspecContent

namespace XotModel
open HTree Spec

namespace ReplFrame

/-! ### Lists -/

theorem mem_dropTop {n : Nat} {L : List HTree} {k : HTree} (h : k ∈ dropTop n L) : k ∈ L := by
  rw [dropTop_eq_filter] at h
  exact (List.mem_filter.1 h).1

/-- Lookup through the replacement of the child `a` by `t`. -/
theorem findList?_putTop {z a : Nat} {t : HTree} (hz : z ∉ handles t) : ∀ L : List HTree,
    (∀ k ∈ L, k.handle = a → z ∉ handles k) →
    findList? z (replaceTop a (fun _ => [t]) L) = findList? z L
  | [] => fun _ => rfl
  | k :: ks => by
    intro h
    rw [replaceTop_cons]
    by_cases hk : k.handle = a
    · rw [if_pos hk]
      simp only [List.singleton_append]
      rw [findList?_cons, findList?_cons, find?_eq_none t hz, find?_eq_none k (h k List.mem_cons_self hk)]
    · rw [if_neg hk, findList?_cons, findList?_cons,
        findList?_putTop hz ks (fun k' hk' => h k' (List.mem_cons_of_mem _ hk'))]

theorem mergeOpt_idem (c : Bool) (keep : Keep) (L : List HTree) :
    mergeOpt c keep (mergeOpt c keep L) = mergeOpt c keep L := by
  cases c
  · rfl
  · exact mergeRuns_idem keep L

theorem mergeOpt_comp_idem (c : Bool) (keep : Keep) : mergeOpt c keep ∘ mergeOpt c keep = mergeOpt c keep := by
  funext L; exact mergeOpt_idem c keep L

theorem natFor_mergeOpt {φ : HTree → HTree} (hφ : KidMap φ) (c : Bool) (keep : Keep) :
    NatFor φ (mergeOpt c keep) := by
  cases c
  · exact natFor_id φ
  · exact natFor_mergeRuns hφ keep

theorem natFor_putTop {φ : HTree → HTree} (hφ : KidMap φ) (a : Nat) {t : HTree} (ht : φ t = t) :
    NatFor φ (replaceTop a (fun _ => [t])) :=
  natFor_replaceTop hφ a (by intro k; simp [ht])

theorem handles_leaf {k : HTree} (h : k.kids = []) : handles k = [k.handle] := by
  cases k with
  | node hh v ks =>
    simp only [HTree.kids] at h
    subst h
    rw [handles_node, handlesList_nil]; rfl

/-- A leaf is not touched by an edit at another node. -/
theorem editAt_leaf {p : Nat} {g : List HTree → List HTree} {k : HTree} (h : k.kids = []) (hne : k.handle ≠ p) :
    HTree.editAt p g k = k := by
  apply editAt_of_not_mem
  rw [handles_leaf h]
  intro hm
  exact hne (List.mem_singleton.1 hm).symm

/-- An edit by a function that leaves the empty list alone keeps leaves. -/
theorem editAt_kids_nil {p : Nat} {g : List HTree → List HTree} (hg : g [] = []) {k : HTree} (h : k.kids = []) :
    (HTree.editAt p g k).kids = [] := by
  cases k with
  | node hh v ks =>
    simp only [HTree.kids] at h
    subst h
    rw [editAt_node]
    split
    · simp only [HTree.kids]; exact hg
    · rfl

/-! ### Handles kept by a merge -/

theorem handles_join (keep : Keep) (a b : HTree) (x y : Str) :
    handles (join keep a b x y) = handles a ∨ handles (join keep a b x y) = handles b := by
  unfold join
  split
  · left; exact setValue_handles _ _
  · right; exact setValue_handles _ _

/-- A handle outside the text nodes of the list is kept. -/
theorem mem_mergeInto (keep : Keep) {z : Nat} : ∀ (rest : List HTree) (cur : HTree),
    z ∈ handles cur ++ handlesList rest →
    (∀ k ∈ cur :: rest, k.value.isText = true → z ∉ handles k) →
    z ∈ handlesList (mergeInto keep cur rest)
  | [], cur => by
    intro h _
    rw [mergeInto_nil, handlesList_cons]; exact h
  | b :: rest, cur => by
    intro h hk
    rw [handlesList_cons] at h
    by_cases hb : cur.value.isText = true ∧ b.value.isText = true
    · obtain ⟨x, hx⟩ := isText_iff_textData.1 hb.1
      obtain ⟨y, hy⟩ := isText_iff_textData.1 hb.2
      rw [mergeInto_cons_text (textData_some hx) (textData_some hy)]
      have hc := hk cur List.mem_cons_self hb.1
      have hbb := hk b (by simp) hb.2
      have hj : z ∉ handles (join keep cur b x y) := by
        rcases handles_join keep cur b x y with e | e <;> rw [e] <;> assumption
      apply mem_mergeInto keep rest
      · apply List.mem_append_right
        rcases List.mem_append.1 h with h1 | h1
        · exact absurd h1 hc
        · rcases List.mem_append.1 h1 with h2 | h2
          · exact absurd h2 hbb
          · exact h2
      · intro k hk' hkt
        rcases List.mem_cons.1 hk' with e | e
        · rw [e]; exact hj
        · exact hk k (by simp [e]) hkt
    · rw [mergeInto_cons_other hb, handlesList_cons]
      rcases List.mem_append.1 h with h1 | h1
      · exact List.mem_append_left _ h1
      · exact List.mem_append_right _
          (mem_mergeInto keep rest b h1 (fun k hk' => hk k (List.mem_cons_of_mem _ hk')))

theorem mem_mergeRuns (keep : Keep) {z : Nat} {L : List HTree} (h : z ∈ handlesList L)
    (hk : ∀ k ∈ L, k.value.isText = true → z ∉ handles k) : z ∈ handlesList (mergeRuns keep L) := by
  cases L with
  | nil => exact h
  | cons a rest =>
    rw [handlesList_cons] at h
    exact mem_mergeInto keep rest a h hk

theorem mem_mergeOpt (c : Bool) (keep : Keep) {z : Nat} {L : List HTree} (h : z ∈ handlesList L)
    (hk : c = true → ∀ k ∈ L, k.value.isText = true → z ∉ handles k) :
    z ∈ handlesList (mergeOpt c keep L) := by
  cases c
  · exact h
  · exact mem_mergeRuns keep h (hk rfl)

/-- A node that is not text stays in the list as it is. -/
theorem mem_mergeInto_nontext (keep : Keep) {k : HTree} (hkt : k.value.isText = false) :
    ∀ (rest : List HTree) (cur : HTree), k ∈ cur :: rest → k ∈ mergeInto keep cur rest
  | [], cur => fun h => h
  | b :: rest, cur => by
    intro h
    by_cases hb : cur.value.isText = true ∧ b.value.isText = true
    · obtain ⟨x, hx⟩ := isText_iff_textData.1 hb.1
      obtain ⟨y, hy⟩ := isText_iff_textData.1 hb.2
      rw [mergeInto_cons_text (textData_some hx) (textData_some hy)]
      apply mem_mergeInto_nontext keep hkt rest
      rcases List.mem_cons.1 h with e | e
      · rw [e, hb.1] at hkt; cases hkt
      · rcases List.mem_cons.1 e with e' | e'
        · rw [e', hb.2] at hkt; cases hkt
        · exact List.mem_cons_of_mem _ e'
    · rw [mergeInto_cons_other hb]
      rcases List.mem_cons.1 h with e | e
      · rw [e]; exact List.mem_cons_self
      · exact List.mem_cons_of_mem _ (mem_mergeInto_nontext keep hkt rest b e)

theorem mem_mergeOpt_nontext (c : Bool) (keep : Keep) {k : HTree} (hkt : k.value.isText = false)
    {L : List HTree} (h : k ∈ L) : k ∈ mergeOpt c keep L := by
  cases c
  · exact h
  · cases L with
    | nil => cases h
    | cons a rest => exact mem_mergeInto_nontext keep hkt rest a h

/-! ### Sites -/

/-- A handle of the forest is kept by an edit that keeps it in the edited child list. -/
theorem mem_editAt {f : Forest} {p : Nat} {v : Value} {L : List HTree} (s : SiteAt f p v L)
    (g : List HTree → List HTree) {z : Nat} (hz : z ∈ f.allHandles)
    (h : z ∈ handlesList L → z ∈ handlesList (g L)) : z ∈ (f.editAt (some p) g).allHandles := by
  have hc := s.count g z
  have h1 : 0 < f.allHandles.count z := List.count_pos_iff.2 hz
  have h2 := (List.nodup_iff_count.1 s.nd) z
  apply List.count_pos_iff.1
  by_cases hL : z ∈ handlesList L
  · have h3 : 0 < (handlesList (g L)).count z := List.count_pos_iff.2 (h hL)
    have hsub : (handlesList L).count z ≤ f.allHandles.count z := by
      have := (fs_findList?_sublist f.roots _ s.kids).count_le z
      rw [handles_node, List.count_cons] at this
      unfold Forest.allHandles
      omega
    omega
  · have : (handlesList L).count z = 0 := List.count_eq_zero.2 hL
    omega

/-- The edited site when the edit is known to keep handles distinct. -/
theorem site_edit {f : Forest} {p : Nat} {v : Value} {L : List HTree} (s : SiteAt f p v L)
    (g : List HTree → List HTree) (hnd : (f.editAt (some p) g).allHandles.Nodup) :
    SiteAt (f.editAt (some p) g) p v (g L) :=
  ⟨hnd, Forest.get?_editAt_self g s.kids⟩

/-- Another site after the edit (`SiteAt.other` with distinctness as a hypothesis). -/
theorem site_other {f : Forest} {p : Nat} {v : Value} {L : List HTree} (s : SiteAt f p v L)
    {x : Nat} {vx : Value} {Lx : List HTree} (hx : f.get? x = some (.node x vx Lx)) (hne : x ≠ p)
    (g : List HTree → List HTree) (hnd : (f.editAt (some p) g).allHandles.Nodup)
    (hlook : findList? x (g L) = findList? x L) :
    SiteAt (f.editAt (some p) g) x vx (Lx.map (HTree.editAt p g)) := by
  constructor
  · exact hnd
  · have := Forest.get?_editAt_other (g := g) hne s.nd (by
      intro v' L' e
      rw [s.kids] at e
      have e' := Option.some.inj e
      injection e' with _ _ e3
      subst e3
      exact hlook)
    rw [this, hx]
    simp only [Option.map_some]
    rw [editAt_node, if_neg hne]

/-- A text child of one site is not the node of another site whose value is not text. -/
theorem text_kid_ne {X : Forest} {p : Nat} {v : Value} {L : List HTree} (s : SiteAt X p v L)
    {x : Nat} {vx : Value} {Lx : List HTree} (sx : SiteAt X x vx Lx) (hvx : vx.isText = false) :
    ∀ k ∈ L, k.value.isText = true → k.handle ≠ x := by
  intro k hk hkt e
  obtain ⟨A, B, hAB⟩ := List.append_of_mem hk
  have s' : SiteAt X p v (A ++ k :: B) := hAB ▸ s
  have := s'.getKid
  rw [e, sx.kids] at this
  have := Option.some.inj this
  rw [← this] at hkt
  simp only [HTree.value] at hkt
  rw [hvx] at hkt; cases hkt

theorem isText_false_of_parent {vq : Value} (h : vq.isElement = true ∨ vq.isDocument = true) :
    vq.isText = false := by
  cases h with
  | inl h => cases vq <;> simp_all [Value.isElement, Value.isText]
  | inr h => cases vq <;> simp_all [Value.isDocument, Value.isText]

/-- The node of a site with a child is not a text node (text nodes are leaves). -/
theorem site_not_text {f : Forest} {p : Nat} {v : Value} {l : List HTree} {k : HTree} {r : List HTree} {b : Bool}
    (s : SiteAt f p v (l ++ k :: r)) (hv : validList b f.roots = true) : v.isText = false := by
  cases h : v.isText with
  | false => rfl
  | true =>
    have := leaf_of_text hv s.kids (by simpa [HTree.value] using h)
    simp only [HTree.kids] at this
    cases l <;> cases this

/-- A child of a node inside the subtree `A` lies inside `A`. -/
theorem child_inside {f : Forest} {a : Nat} {A : HTree} {p : Nat} {v : Value} {L : List HTree}
    (s : SiteAt f p v L) (hA : f.get? a = some A) (hp : p ∈ handles A) {k : HTree} (hk : k ∈ L) :
    k.handle ∈ handles A := by
  have h1 := findList?_inside f.roots A s.nd hA hp
  rw [← Forest.get?_eq, s.kids] at h1
  apply (find?_some A _ h1.symm).2
  rw [handles_node]
  exact List.mem_cons_of_mem _ (handle_mem_handlesList hk)

/-! ### `specReplace`, unfolded, in the three geometries -/

theorem specReplace_unfold {keep : Keep} {a b : Nat} {f : Forest} {t : HTree} {q : Nat}
    (hgb : f.get? b = some t) (hpa : f.parent? a = some q) :
    specReplace keep a b f =
      (((f.editAt (f.parent? b) (dropTop b)).editAt (some q) (replaceTop a (fun _ => [t]))).mergeAt keep
        (f.parent? b)).mergeAt keep (some q) := by
  unfold specReplace
  rw [hgb, hpa]

/-- `b` is a parentless tree. -/
theorem nf_root {keep : Keep} {a b : Nat} {f : Forest} {t : HTree} {q : Nat}
    (hgb : f.get? b = some t) (hpa : f.parent? a = some q) (hpb : f.parent? b = none) :
    specReplace keep a b f =
      (f.editAt none (dropTop b)).editAt (some q) (mergeOpt f.consolidation keep ∘ replaceTop a (fun _ => [t])) := by
  rw [specReplace_unfold hgb hpa, hpb, mergeAt_none, mergeAt_eq_mergeOpt]
  simp only [Forest.editAt_consolidation]
  rw [Forest.editAt_editAt]

/-- `b` is a child of `q` too. -/
theorem nf_same {keep : Keep} {a b : Nat} {f : Forest} {t : HTree} {q : Nat}
    (hgb : f.get? b = some t) (hpa : f.parent? a = some q) (hpb : f.parent? b = some q) :
    specReplace keep a b f =
      (f.editAt (some q) (dropTop b)).editAt (some q)
        (mergeOpt f.consolidation keep ∘ replaceTop a (fun _ => [t])) := by
  rw [specReplace_unfold hgb hpa, hpb]
  simp only [mergeAt_eq_mergeOpt, Forest.editAt_consolidation, Forest.editAt_editAt]
  congr 1
  funext L
  simp only [Function.comp]
  rw [mergeOpt_idem]

/-- `b` is a child of another node. -/
theorem nf_far {keep : Keep} {a b : Nat} {f : Forest} {t : HTree} {q po : Nat}
    (hgb : f.get? b = some t) (hpa : f.parent? a = some q) (hpb : f.parent? b = some po) (hne : po ≠ q)
    (hpot : po ∉ handles t) :
    specReplace keep a b f =
      (f.editAt (some po) (mergeOpt f.consolidation keep ∘ dropTop b)).editAt (some q)
        (mergeOpt f.consolidation keep ∘ replaceTop a (fun _ => [t])) := by
  rw [specReplace_unfold hgb hpa, hpb]
  simp only [mergeAt_eq_mergeOpt, Forest.editAt_consolidation]
  rw [Forest.editAt_comm (f.editAt (some po) (dropTop b)) (p := po) (q := q)
    (g := mergeOpt f.consolidation keep) (g' := replaceTop a (fun _ => [t])) hne
    (natFor_mergeOpt (kidMap_editAt _ _) _ _)
    (natFor_putTop (kidMap_editAt _ _) a (editAt_of_not_mem t hpot))]
  rw [Forest.editAt_editAt, Forest.editAt_editAt]

/-! ### The forest after `b` has left its place -/

/-- `Y`: the forest after the replacing subtree `t` has left (and its old neighbours were merged
    when they are not children of `q`); `q` has the children `l' ++ A :: r'` in `Y`. -/
structure Stage (f : Forest) (keep : Keep) (a b q : Nat) (vq : Value) (l : List HTree) (A : HTree)
    (r : List HTree) (t : HTree) (Y : Forest) (l' r' : List HTree) : Prop where
  site : SiteAt Y q vq (l' ++ A :: r')
  spec : specReplace keep a b f =
    Y.editAt (some q) (mergeOpt f.consolidation keep ∘ replaceTop a (fun _ => [t]))
  count : ∀ z, Y.allHandles.count z + (handles t).count z ≤ f.allHandles.count z
  text : ∀ k ∈ l' ++ r', k.value.isText = true → k ∈ l ++ r
  frame : ∀ {x : Nat} {cx : Ctx}, f.ctx? x = some cx → cx.parent ≠ q → some cx.parent ≠ f.parent? b →
    cx.parent ∉ handles t → x ∉ handles t → ∃ cx', Y.ctx? x = some cx' ∧ cx'.shape = cx.shape
  kept : ∀ z ∈ f.allHandles, z ∉ handles t →
    (f.consolidation = true → ∀ po, f.parent? b = some po → po ≠ q →
      ¬ (f.parent? z = some po ∧ f.textOf z ≠ none)) → z ∈ Y.allHandles
  flags : Y.next = f.next ∧ Y.consolidation = f.consolidation ∧ Y.everOff = f.everOff ∧ Y.corrupt = f.corrupt

variable {f : Forest} {keep : Keep} {a b q : Nat} {vq : Value} {l : List HTree} {A : HTree} {r : List HTree}
  {t : HTree}

theorem isRoot_of_no_parent (hgb : f.get? b = some t) (hpb : f.parent? b = none) :
    f.isRoot b = true := by
  rcases Forest.root_or_ctx hgb with h | ⟨c, h⟩
  · exact h
  · rw [Forest.parent?_of_ctx h] at hpb; cases hpb

/-- `b` is a parentless tree. -/
theorem stage_root (inv : f.Inv) (ra : ReplArgs f a b q vq l A r t) (hpb : f.parent? b = none) :
    Stage f keep a b q vq l A r t (f.editAt none (dropTop b)) l r := by
  have nd := inv.nodup
  have hroot := isRoot_of_no_parent ra.hgb hpb
  have hcnt := count_dropTop_root nd ra.hgb hroot
  refine ⟨ra.sq.dropRoot ra.hgb ra.hqt, nf_root ra.hgb (Forest.parent?_of_ctx ra.ctx_a) hpb, ?_,
    fun _ hk _ => hk, ?_, ?_, ⟨rfl, rfl, rfl, rfl⟩⟩
  · intro z
    exact Nat.le_of_eq (hcnt z)
  · intro x cx hx _ h2 h3 h4
    have := frame_specRemove (keep := keep) inv ra.hgb hx h2 h3 h4
    rw [specRemove_root hpb] at this
    exact this
  · intro z hz hzt _
    have h1 : 0 < f.allHandles.count z := List.count_pos_iff.2 hz
    have h2 : (handles t).count z = 0 := List.count_eq_zero.2 hzt
    have h3 := hcnt z
    apply List.count_pos_iff.1
    show 0 < (handlesList (dropTop b f.roots)).count z
    omega

/-- The site of `b` when it has a parent. -/
theorem site_of_b (nd : f.allHandles.Nodup) (hgb : f.get? b = some t) {po : Nat} (hpb : f.parent? b = some po) :
    ∃ vo lo ro, SiteAt f po vo (lo ++ t :: ro) := by
  cases hctx : f.ctx? b with
  | none => rw [Forest.parent?_of_no_ctx hctx] at hpb; cases hpb
  | some cx =>
    obtain ⟨_, vo, so⟩ := SiteAt.of_ctx nd hctx
    have hself : cx.self = t := by
      have := Forest.get?_of_ctx nd hctx
      rw [hgb] at this
      exact (Option.some.inj this).symm
    have hp : cx.parent = po := by
      rw [Forest.parent?_of_ctx hctx] at hpb; exact Option.some.inj hpb
    rw [hself, hp] at so
    exact ⟨vo, cx.left, cx.right, so⟩

theorem mem_mid_of_ne {lo : List HTree} {t : HTree} {ro : List HTree} {z : Nat}
    (h : z ∈ handlesList (lo ++ t :: ro)) (hz : z ∉ handles t) : z ∈ handlesList (lo ++ ro) := by
  rw [fs_handlesList_append, handlesList_cons] at h
  rw [fs_handlesList_append]
  rcases List.mem_append.1 h with h1 | h1
  · exact List.mem_append_left _ h1
  · rcases List.mem_append.1 h1 with h2 | h2
    · exact absurd h2 hz
    · exact List.mem_append_right _ h2

theorem top_unique {lo : List HTree} {t : HTree} {ro : List HTree} (nd : (handlesList (lo ++ t :: ro)).Nodup)
    {k : HTree} (hk : k ∈ lo ++ t :: ro) (hkt : k.handle = t.handle) : k = t := by
  obtain ⟨tl, tr⟩ := tops_ne_of_nodup nd
  rcases List.mem_append.1 hk with h | h
  · exact absurd hkt (tl k h)
  · rcases List.mem_cons.1 h with h' | h'
    · exact h'
    · exact absurd hkt (tr k h')

/-- `b` is a child of `q` too. -/
theorem stage_same (inv : f.Inv) (ra : ReplArgs f a b q vq l A r t) (hpb : f.parent? b = some q) :
    Stage f keep a b q vq l A r t (f.editAt (some q) (dropTop b)) (dropTop b l) (dropTop b r) := by
  have nd := inv.nodup
  obtain ⟨vo, lo, ro, so⟩ := site_of_b nd ra.hgb hpb
  have hb := ra.hb
  have hL : l ++ A :: r = lo ++ t :: ro := by
    have := so.kids
    rw [ra.sq.kids] at this
    injection (Option.some.inj this) with _ _ e3
  obtain ⟨ndL, _⟩ := so.nodupKids
  obtain ⟨tl, tr⟩ := tops_ne_of_nodup ndL
  have hdrop : dropTop b (lo ++ t :: ro) = lo ++ ro := dropTop_mid hb (hb ▸ tl) (hb ▸ tr)
  have hdropA : dropTop b (l ++ A :: r) = dropTop b l ++ A :: dropTop b r := by
    rw [dropTop_append, dropTop_cons, if_neg (by rw [ra.ha]; exact ra.hab)]
  have hndY : (f.editAt (some q) (dropTop b)).allHandles.Nodup :=
    Forest.nodup_editAt nd (fun L => handlesList_dropTop_sublist _ L)
  refine ⟨?_, nf_same ra.hgb (Forest.parent?_of_ctx ra.ctx_a) hpb, ?_, ?_, ?_, ?_, ⟨rfl, rfl, rfl, rfl⟩⟩
  · have := site_edit ra.sq (dropTop b) hndY
    rw [hdropA] at this
    exact this
  · intro z
    have h1 := so.count (dropTop b) z
    rw [hdrop] at h1
    have h2 := count_handles_mid z lo t ro
    omega
  · intro k hk _
    rcases List.mem_append.1 hk with h | h
    · exact List.mem_append_left _ (mem_dropTop h)
    · exact List.mem_append_right _ (mem_dropTop h)
  · intro x cx hx h1 _ h3 _
    apply ra.sq.frame (dropTop b) hndY hx h1
    apply findList?_dropTop
    intro k hk hkb
    rw [hL] at hk
    rw [top_unique ndL hk (hkb.trans hb.symm)]
    exact h3
  · intro z hz hzt _
    apply mem_editAt so (dropTop b) hz
    intro hzL
    rw [hdrop]
    exact mem_mid_of_ne hzL hzt

/-- `b` is a child of another node `po`. -/
theorem stage_far (inv : f.Inv) (ra : ReplArgs f a b q vq l A r t) {po : Nat} (hpb : f.parent? b = some po)
    (hne : po ≠ q) :
    ∃ φ : HTree → HTree, Stage f keep a b q vq l A r t (specRemove keep b f) (l.map φ) (r.map φ) := by
  have nd := inv.nodup
  obtain ⟨vo, lo, ro, so⟩ := site_of_b nd ra.hgb hpb
  have hb := ra.hb
  have hvq := isText_false_of_parent ra.hvq
  have hvo := site_not_text so inv.valid
  obtain ⟨ndL, hpoL⟩ := so.nodupKids
  obtain ⟨tl, tr⟩ := tops_ne_of_nodup ndL
  have hdrop : dropTop b (lo ++ t :: ro) = lo ++ ro := dropTop_mid hb (hb ▸ tl) (hb ▸ tr)
  have hpot : po ∉ handles t := by
    intro hin
    apply hpoL
    rw [fs_handlesList_append, handlesList_cons]
    exact List.mem_append_right _ (List.mem_append_left _ hin)
  have hpoA : po ∉ handles A := by
    intro hin
    apply ra.hbA
    rw [← hb]
    exact child_inside so ra.live_a hin (List.mem_append_right _ List.mem_cons_self)
  have hY : specRemove keep b f = f.editAt (some po) (mergeOpt f.consolidation keep ∘ dropTop b) :=
    specRemove_kid hpb
  have hleafo := so.leaf inv.valid
  have hleafq := ra.sq.leaf inv.valid
  refine ⟨HTree.editAt po (mergeOpt f.consolidation keep ∘ dropTop b), ?_, ?_, ?_, ?_, ?_, ?_, ?_⟩
  · -- the site of `q` afterwards
    have s1 := so.other ra.sq.kids (fun e => hne e.symm) (mergeOpt f.consolidation keep ∘ dropTop b)
      ((mergeOpt_sublist _ _ _).trans (handlesList_dropTop_sublist _ _)) (by
        simp only [Function.comp]
        rw [findList?_mergeOpt, findList?_dropTop]
        · intro k hk hkb
          rw [top_unique ndL hk (hkb.trans hb.symm)]
          exact ra.hqt
        · intro k hk hkt
          have hk' := mem_dropTop hk
          exact ⟨hleafo k hk' hkt, text_kid_ne so ra.sq hvq k hk' hkt⟩)
    rw [List.map_append, List.map_cons, editAt_of_not_mem A hpoA, ← hY] at s1
    exact s1
  · rw [hY]
    exact nf_far ra.hgb (Forest.parent?_of_ctx ra.ctx_a) hpb hne hpot
  · exact count_specRemove nd ra.hgb
  · intro k hk hkt
    rw [← List.map_append] at hk
    obtain ⟨k0, hk0, e⟩ := List.mem_map.1 hk
    subst e
    rw [editAt_value] at hkt
    have hk0' : k0 ∈ l ++ A :: r := by
      rcases List.mem_append.1 hk0 with h | h
      · exact List.mem_append_left _ h
      · exact List.mem_append_right _ (List.mem_cons_of_mem _ h)
    rw [editAt_leaf (hleafq k0 hk0' hkt) (text_kid_ne ra.sq so hvo k0 hk0' hkt)]
    exact hk0
  · intro x cx hx _ h2 h3 h4
    exact frame_specRemove inv ra.hgb hx h2 h3 h4
  · intro z hz hzt hcond
    rw [hY]
    apply mem_editAt so _ hz
    intro hzL
    simp only [Function.comp]
    rw [hdrop]
    apply mem_mergeOpt _ _ (mem_mid_of_ne hzL hzt)
    intro hc k hk hkt hzk
    have hk' : k ∈ lo ++ t :: ro := by
      rcases List.mem_append.1 hk with h | h
      · exact List.mem_append_left _ h
      · exact List.mem_append_right _ (List.mem_cons_of_mem _ h)
    rw [handles_leaf (hleafo k hk' hkt)] at hzk
    have hzk' : z = k.handle := List.mem_singleton.1 hzk
    obtain ⟨A', B', hAB⟩ := List.append_of_mem hk'
    have so' : SiteAt f po vo (A' ++ k :: B') := hAB ▸ so
    apply hcond hc po hpb hne
    rw [hzk']
    refine ⟨Forest.parent?_of_ctx so'.ctx, ?_⟩
    rw [Forest.textOf_of_get so'.getKid]
    obtain ⟨x, hx⟩ := isText_iff_textData.1 hkt
    rw [hx]; simp
  · rw [hY]; exact ⟨rfl, rfl, rfl, rfl⟩

/-- In every geometry. -/
theorem stage_exists (keep : Keep) (inv : f.Inv) (ra : ReplArgs f a b q vq l A r t) :
    ∃ Y l' r', Stage f keep a b q vq l A r t Y l' r' := by
  cases hpb : f.parent? b with
  | none => exact ⟨_, _, _, stage_root inv ra hpb⟩
  | some po =>
    by_cases hne : po = q
    · subst hne
      exact ⟨_, _, _, stage_same inv ra hpb⟩
    · obtain ⟨φ, st⟩ := stage_far (keep := keep) inv ra hpb hne
      exact ⟨_, _, _, st⟩

end ReplFrame
end XotModel
