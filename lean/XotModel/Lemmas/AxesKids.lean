/-
  children, first/last child, siblings: what follows from the parent/child structure.
-/
import XotModel.Lemmas.AxesRevPre

namespace XotModel.Axes

/-- Raw child paths of `p`. -/
def rawChildPaths (t : Tree) (p : Path) : List Path :=
  (List.range (subAt t p).kids.length).map (fun j => p ++ [j])

theorem kidPaths_map_fst (p : Path) : ∀ (i : Nat) (ks : List Tree),
    (kidPaths p i ks).map (·.1) = (List.range' i ks.length).map (fun j => p ++ [j])
  | _, [] => by simp [kidPaths]
  | i, k :: ks => by simp [kidPaths, kidPaths_map_fst p (i + 1) ks, List.range'_succ]

theorem kidPaths_append (p : Path) : ∀ (i : Nat) (a b : List Tree),
    kidPaths p i (a ++ b) = kidPaths p i a ++ kidPaths p (i + a.length) b
  | _, [], b => by simp [kidPaths]
  | i, k :: a, b => by
    simp only [List.cons_append, kidPaths, kidPaths_append p (i + 1) a b, List.length_cons]
    congr 3; omega

theorem kidPaths_dropWhile (p : Path) (f : Tree → Bool) : ∀ (i : Nat) (ks : List Tree),
    (kidPaths p i ks).dropWhile (fun x => f x.2) =
      kidPaths p (i + (ks.takeWhile f).length) (ks.dropWhile f)
  | _, [] => by simp [kidPaths]
  | i, k :: ks => by
    by_cases hk : f k = true
    · simp only [kidPaths, List.dropWhile_cons, hk, if_true, List.takeWhile_cons, List.length_cons]
      rw [kidPaths_dropWhile p f (i + 1) ks]; congr 1; omega
    · simp [kidPaths, hk]

/-- In an ordered child list skipping the leading non-normal nodes = keeping the normal ones. -/
theorem dropWhile_eq_filter_of_ordered : ∀ (ks : List Tree), kidsOrdered ks = true →
    ks.dropWhile (fun k => !k.value.isNormal) = ks.filter (fun k => k.value.isNormal)
  | [], _ => rfl
  | k :: ks, ho => by
    unfold kidsOrdered at ho
    by_cases hk : k.value.isNormal = true
    · simp only [List.dropWhile_cons, hk, Bool.not_true, Bool.false_eq_true, if_false] at ho ⊢
      symm; apply List.filter_eq_self.mpr
      simpa using ho
    · simp only [List.dropWhile_cons, hk, Bool.not_false, if_true] at ho
      have : kidsOrdered ks = true := by unfold kidsOrdered; simpa using ho
      simp only [List.dropWhile_cons, hk, Bool.not_false, if_true, List.filter_cons,
        Bool.false_eq_true, if_false]
      exact dropWhile_eq_filter_of_ordered ks this

theorem kidPaths_dropWhile_filter (p : Path) : ∀ (i : Nat) (ks : List Tree), kidsOrdered ks = true →
    (kidPaths p i ks).dropWhile (fun x => !itemNormal x) = (kidPaths p i ks).filter itemNormal
  | _, [], _ => rfl
  | i, k :: ks, ho => by
    unfold kidsOrdered at ho
    by_cases hk : k.value.isNormal = true
    · simp only [List.dropWhile_cons, hk, Bool.not_true, Bool.false_eq_true, if_false,
        List.all_eq_true] at ho
      have hall : ∀ x ∈ kidPaths p i (k :: ks), itemNormal x = true := by
        intro x hx
        have : x.2 ∈ (kidPaths p i (k :: ks)).map (·.2) := List.mem_map.mpr ⟨x, hx, rfl⟩
        have hsnd : ∀ (i : Nat) (l : List Tree), (kidPaths p i l).map (·.2) = l := by
          intro i l; induction l generalizing i with
          | nil => rfl
          | cons a l ih => simp [kidPaths, ih]
        rw [hsnd] at this
        exact ho _ this
      rw [List.filter_eq_self.mpr hall]
      simp [kidPaths, itemNormal, hk]
    · simp only [List.dropWhile_cons, hk, Bool.not_false, if_true] at ho
      have : kidsOrdered ks = true := by unfold kidsOrdered; simpa using ho
      simp only [kidPaths, List.dropWhile_cons, itemNormal, hk, Bool.not_false, if_true,
        List.filter_cons, Bool.false_eq_true, if_false]
      exact kidPaths_dropWhile_filter p (i + 1) ks this

theorem mem_kidPaths {p : Path} : ∀ {i : Nat} {ks : List Tree} {x : Path × Tree}, x ∈ kidPaths p i ks →
    ∃ j, ∃ hj : j < ks.length, x = (p ++ [i + j], ks[j])
  | _, [], _, h => by simp [kidPaths] at h
  | i, k :: ks, x, h => by
    simp only [kidPaths, List.mem_cons] at h
    rcases h with rfl | h
    · exact ⟨0, by simp, by simp⟩
    · obtain ⟨j, hj, rfl⟩ := mem_kidPaths h
      exact ⟨j + 1, by simp; omega, by simp; omega⟩

theorem allChildren_item {t : Tree} {p : Path} (h : Valid t p) {x : Path × Tree}
    (hx : x ∈ allChildren t p) : subAt t x.1 = x.2 ∧ Valid t x.1 ∧ parent x.1 = some p := by
  unfold allChildren at hx
  obtain ⟨j, hj, rfl⟩ := mem_kidPaths hx
  simp only [Nat.zero_add]
  exact ⟨subAt_snoc h hj, (valid_snoc_iff h j).mpr hj, parent_snoc p j⟩

theorem allChildren_paths (t : Tree) (p : Path) :
    (allChildren t p).map (·.1) = rawChildPaths t p := by
  simp [allChildren, kidPaths_map_fst, rawChildPaths, List.range_eq_range']

theorem filter_items {t : Tree} {p : Path} (h : Valid t p) (f : Tree → Bool) :
    ((allChildren t p).filter (fun x => f x.2)).map (·.1) =
      (rawChildPaths t p).filter (fun q => f (subAt t q)) := by
  rw [← allChildren_paths, List.filter_map]
  congr 1
  apply List.filter_congr
  intro x hx
  simp [(allChildren_item h hx).1]

/-- `children` in a well-formed tree: the normal ones among the raw children, in order. -/
theorem children_eq {t : Tree} {p : Path} (hw : wf t = true) (h : Valid t p) :
    children t p = (rawChildPaths t p).filter (isNormalAt t) := by
  have hws := wf_at? t p _ hw h.at?
  unfold children normalChildren
  have hord : kidsOrdered (subAt t p).kids = true := by
    cases hs : subAt t p with
    | node v ks => rw [hs] at hws; simp only [wf, Bool.and_eq_true] at hws; exact hws.1.2
  have : (allChildren t p).dropWhile (fun x => !itemNormal x) = (allChildren t p).filter itemNormal := by
    exact kidPaths_dropWhile_filter p 0 _ hord
  rw [this]
  exact filter_items h (fun k => k.value.isNormal)

theorem parent_eq_some_iff (y p : Path) : parent y = some p ↔ ∃ j, y = p ++ [j] := by
  constructor
  · intro h
    rcases path_cases y with rfl | ⟨q, i, rfl⟩
    · simp at h
    · simp at h; subst h; exact ⟨i, rfl⟩
  · rintro ⟨j, rfl⟩; simp

theorem parent_append_eq (p x : Path) : parent (p ++ x) = some p ↔ ∃ j, x = [j] := by
  rw [parent_eq_some_iff]
  constructor
  · rintro ⟨j, h⟩; exact ⟨j, List.append_cancel_left h⟩
  · rintro ⟨j, rfl⟩; exact ⟨j, rfl⟩

theorem filter_parent_allPreList (p : Path) : ∀ (ks : List Tree) (j : Nat),
    ((allPreList j ks).map (p ++ ·)).filter (fun q => parent q == some p) =
      (List.range' j ks.length).map (fun i => p ++ [i])
  | [], _ => by simp [allPreList]
  | k :: ks, j => by
    cases k with
    | node v kk =>
      simp only [allPreList, allPre, List.map_append, List.map_cons, List.map_map, List.filter_append,
        List.filter_cons, parent_snoc, beq_self_eq_true, if_true, List.length_cons, List.range'_succ]
      rw [filter_parent_allPreList p ks (j + 1)]
      have : ((allPreList 0 kk).map ((fun x => p ++ x) ∘ fun x => j :: x)).filter
          (fun q => parent q == some p) = [] := by
        apply List.filter_eq_nil_iff.mpr
        intro x hx
        obtain ⟨y, hy, rfl⟩ := List.mem_map.mp hx
        obtain ⟨j', q', rfl, _⟩ := mem_allPreList hy
        simp only [Function.comp, beq_iff_eq]
        intro h
        obtain ⟨i, hi⟩ := (parent_append_eq p _).mp h
        simp at hi
      rw [this]; simp

/-- The nodes whose parent is `p`, in document order, are the raw children of `p`. -/
theorem filter_parent_allPre {t : Tree} {p : Path} (h : Valid t p) :
    (allPre t).filter (fun q => parent q == some p) = rawChildPaths t p := by
  rw [allPre_split t p h, List.filter_append, List.filter_append]
  have e1 : (beforeRel t p).filter (fun q => parent q == some p) = [] := by
    apply List.filter_eq_nil_iff.mpr
    intro x hx hpx
    obtain ⟨j, rfl⟩ := (parent_eq_some_iff x p).mp (by simpa using hpx)
    have h1 := mem_beforeRel t p _ hx
    have h2 : docLt p (p ++ [j]) = true := docLt_of_prefix (by simp) (by simp)
    rw [docLt_asymm h2] at h1; cases h1
  have e3 : (afterRel t p).filter (fun q => parent q == some p) = [] := by
    apply List.filter_eq_nil_iff.mpr
    intro x hx hpx
    obtain ⟨j, rfl⟩ := (parent_eq_some_iff x p).mp (by simpa using hpx)
    have := (mem_afterRel t p _ hx).2
    rw [isPrefixOf_append_self] at this; cases this
  rw [e1, e3]
  cases hs : subAt t p with
  | node v ks =>
    have hp : (parent p == some p) = false := by
      cases hpp : parent p == some p
      · rfl
      · obtain ⟨j, hj⟩ := (parent_eq_some_iff p p).mp (by simpa using hpp)
        have := congrArg List.length hj; simp at this
    simp only [allPre, List.map_cons, List.append_nil, List.filter_cons, hp, Bool.false_eq_true, if_false,
      List.nil_append]
    rw [filter_parent_allPreList p ks 0]
    simp [rawChildPaths, hs, Tree.kids, List.range_eq_range']

/-- `children` = the normal nodes whose parent is `p`, in document order. -/
theorem children_spec {t : Tree} {p : Path} (hw : wf t = true) (h : Valid t p) :
    children t p = (pre t).filter (fun q => parent q == some p) := by
  rw [children_eq hw h, ← filter_parent_allPre h]
  unfold pre
  rw [List.filter_filter, List.filter_filter]
  congr 1; funext q; exact Bool.and_comm _ _

theorem firstChild_eq (t : Tree) (p : Path) : firstChild t p = (children t p).head? := by
  simp [firstChild, children, List.head?_map]

/-- `last_child` in a well-formed tree is the last of `children`. -/
theorem lastChild_eq {t : Tree} {p : Path} (hw : wf t = true) (h : Valid t p) :
    lastChild t p = (children t p).getLast? := by
  have hws := wf_at? t p _ hw h.at?
  have hord : kidsOrdered (subAt t p).kids = true := by
    cases hs : subAt t p with
    | node v ks => rw [hs] at hws; simp only [wf, Bool.and_eq_true] at hws; exact hws.1.2
  unfold lastChild children normalChildren
  rw [show (allChildren t p).dropWhile (fun x => !itemNormal x) = (allChildren t p).filter itemNormal from
    kidPaths_dropWhile_filter p 0 _ hord]
  rcases List.eq_nil_or_concat (allChildren t p) with hnil | ⟨l, x, hl⟩
  · simp [hnil]
  · rw [hl]
    simp only [List.concat_eq_append, List.getLast?_concat, List.filter_append, List.filter_cons,
      List.filter_nil]
    by_cases hx : itemNormal x = true
    · simp [hx]
    · simp only [hx, Bool.false_eq_true, if_false, List.append_nil]
      -- the last raw child is not normal: no child is
      have : l.filter itemNormal = [] := by
        apply List.filter_eq_nil_iff.mpr
        intro y hy hyn
        have hsnd : ∀ (i : Nat) (ks : List Tree), (kidPaths p i ks).map (·.2) = ks := by
          intro i ks; induction ks generalizing i with
          | nil => rfl
          | cons a ks ih => simp [kidPaths, ih]
        have hk : (subAt t p).kids = l.map (·.2) ++ [x.2] := by
          have := congrArg (List.map (·.2)) hl
          simpa [allChildren, hsnd] using this
        obtain ⟨n, hn, rfl⟩ := List.getElem_of_mem hy
        have h1 : (subAt t p).kids[n]? = some l[n].2 := by
          rw [hk, List.getElem?_append_left (by simpa using hn)]; simp [hn]
        have h2 : (subAt t p).kids[l.length]? = some x.2 := by
          rw [hk, List.getElem?_append_right (by simp)]; simp
        have := kidsOrdered_mono _ hord n l.length _ _ (by omega) h1 h2 hyn
        exact hx this
      simp [this]

end XotModel.Axes
