/-
  Lemmas for C12, part 26: `Forest.serialises` (the `writableTree` recursion of Model/FcloneModel.lean)
  against the serialiser itself: `writableTree env s n` holds exactly when `serNode` (the token list
  `to_string` renders, Model/SerTokens.lean) succeeds from the stack `s`; so for a parentless node
  `writableTree … (FStack.new (namespaces_in_scope node)) node` is "`to_string(node)` succeeds".
-/
import XotModel.Model.FcloneModel
import XotModel.Lemmas.RoundTripElement

namespace XotModel
open XotModel.Repair

variable {env : Env}

theorem fcIsOk_eq {ε α : Type} (x : Except ε α) : fcIsOk x = exceptIsOk x := by
  cases x <;> rfl

theorem fcs_elementFullname (s : FStack) (name : Nat) :
    fcIsOk (s.elementFullname env name) = exceptIsOk (s.elementPrefix env name) := by
  rw [fcIsOk_eq, exceptIsOk_elementFullname, exceptIsOk_elementPrefix]

theorem fcs_attrs (s : FStack) (as : List (Nat × Str)) :
    (as.map (·.1)).all (fun a => fcIsOk (s.attributeFullname env a)) = exceptIsOk (attrTokens env s as) := by
  rw [exceptIsOk_attrTokens]
  congr 1
  funext a
  rw [fcIsOk_eq, exceptIsOk_attributeFullname]

mutual
/-- `serNode` succeeds exactly when `writableTree` says so: every tree, every stack, start node or
    not, `unescaped_gt` on or off. -/
theorem serNode_ok_writable (ugt : Bool) (inScope : List (Nat × Nat)) (isTop : Bool) (n : Tree) (s : FStack) :
    exceptIsOk (serNode env ugt inScope isTop s n) = writableTree env s n := by
  cases n with
  | node v ks =>
    have hk := serKids_ok_writable ugt inScope ks s
    cases v with
    | document => simpa [serNode, writableTree] using hk
    | «attribute» a b => simpa [serNode, writableTree] using hk
    | «namespace» a b => simpa [serNode, writableTree] using hk
    | text str =>
      rw [serNode, exceptIsOk_appendOk, hk]
      simp [writableTree, exceptIsOk]
    | comment str =>
      rw [serNode, exceptIsOk_appendOk, hk]
      simp [writableTree, exceptIsOk]
    | pi target data =>
      rw [serNode]
      by_cases h0 : (env.namespaceStr (env.nsOfName target)).isEmpty = true
      · simp only [h0, Bool.not_true, Bool.false_eq_true, if_false]
        rw [exceptIsOk_appendOk, hk]
        simp [writableTree, exceptIsOk, h0]
      · have h0' : (env.namespaceStr (env.nsOfName target)).isEmpty = false := by simpa using h0
        simp [writableTree, exceptIsOk, h0']
    | element name =>
      have hk' := serKids_ok_writable ugt inScope ks (s.push (Tree.node (.element name) ks).nsDecls)
      have he := fcs_elementFullname (env := env) (s.push (Tree.node (.element name) ks).nsDecls) name
      have ha := fcs_attrs (env := env) (s.push (Tree.node (.element name) ks).nsDecls)
        (Tree.node (.element name) ks).attrs
      simp only [writableTree, he, ha, ← hk']
      rw [serNode]
      by_cases hc : (env.nsOfName name == Env.noNamespace &&
          (s.push (Tree.node (.element name) ks).nsDecls).hasDefaultNamespace) = true
      · simp [hc, exceptIsOk]
      · have hc' : (env.nsOfName name == Env.noNamespace &&
            (s.push (Tree.node (.element name) ks).nsDecls).hasDefaultNamespace) = false := by
          simpa using hc
        simp only [hc', Bool.false_eq_true, if_false, Bool.not_false, Bool.true_and]
        cases h1 : (s.push (Tree.node (.element name) ks).nsDecls).elementPrefix env name with
        | error e => simp [exceptIsOk]
        | ok p =>
          cases h2 : attrTokens env (s.push (Tree.node (.element name) ks).nsDecls)
              (Tree.node (.element name) ks).attrs with
          | error e => simp [exceptIsOk]
          | ok ats =>
            cases h3 : serNode.serKids env ugt inScope (s.push (Tree.node (.element name) ks).nsDecls) ks with
            | error e => simp [exceptIsOk]
            | ok content => simp [exceptIsOk]

theorem serKids_ok_writable (ugt : Bool) (inScope : List (Nat × Nat)) (ks : List Tree) (s : FStack) :
    exceptIsOk (serNode.serKids env ugt inScope s ks) = writableList env s ks := by
  cases ks with
  | nil => simp [serNode.serKids, writableList, exceptIsOk]
  | cons k ks =>
    rw [serNode.serKids, exceptIsOk_appendOk, serNode_ok_writable ugt inScope false k s,
      serKids_ok_writable ugt inScope ks s]
    simp [writableList]
end

/-- For a parentless node: `serTokensAt` at the root succeeds iff `writableTree` from the stack
    `XmlSerializer::new` builds (`namespaces_in_scope(node)`). -/
theorem serTokensAt_root_ok (ugt : Bool) (t : Tree) :
    exceptIsOk (serTokensAt env ugt t []) =
      writableTree env (FStack.new (namespacesInScopeChain [t])) t := by
  simp only [serTokensAt, Tree.at?, namespacesInScope, Tree.ancestorsOrSelf, Option.map_some]
  exact serNode_ok_writable ugt _ true t _

/-- **`writableTree` is "`to_string(node)` succeeds"** for a parentless node, in every table set in
    which `xml` and the declared prefixes have a spelling (`declsNamed`; implied by `nodeOK`). -/
theorem serializeString_root_ok_iff (pr : TokenParams) (hcd : pr.cdataSectionElements = []) (t : Tree)
    (hx : env.prefixStr Env.xmlPrefix ≠ []) (ht : t.allNodes (declsNamed env) = true) :
    (∃ s, serializeString env pr t [] = .ok s) ↔
      writableTree env (FStack.new (namespacesInScopeChain [t])) t = true := by
  show (∃ s, serializeStringWith xmlEscapers env pr t [] = .ok s) ↔ _
  rw [serializeString_serTokensAt env pr t hcd [] hx ht, ← serTokensAt_root_ok (env := env) pr.unescapedGt t]
  cases serTokensAt env pr.unescapedGt t [] <;> simp [exceptIsOk]

end XotModel
