/-
  Reach, part 5: histories.  Every forest reachable from the empty store by an extended history
  (`Store.xrun` over `Forest.XCall`, Model/FhistSpec.lean) has the invariant (`Store.xrun_inv`,
  Lemmas/FhistExt.lean — the theorem `C04_reach_ext` of Props/C04 is this one), so every root of it
  erases to a structurally valid tree.  This file states that once, so that the Props files of the
  tree-level properties (C07, C09, C13) can import it without importing Props/C04, and holds the
  closed example history their non-vacuity examples use (the 16-step history of Props/C04).
-/
import XotModel.Lemmas.FhistExt
import XotModel.Lemmas.ReachNode
import XotModel.Model.FspecSpec

namespace XotModel.Reach
open XotModel

theorem init_inv : Forest.init.Inv := (Forest.inv_iff _).mp (by decide)

/-- Every extended history from the empty store ends in a forest with the invariant (= `C04_reach_ext`). -/
theorem inv_reachable (env : Env) (cs : List Forest.XCall) (hw : ∀ c ∈ cs, c.wellKinded) :
    ((⟨Forest.init, env⟩ : Store).xrun cs).forest.Inv := Store.xrun_inv cs init_inv hw

/-- **The bridge, on histories**: every parentless tree of every reachable forest erases to a tree
    satisfying the structural clauses of `StructValid` at every node. -/
theorem structural_reachable (env : Env) (cs : List Forest.XCall) (hw : ∀ c ∈ cs, c.wellKinded)
    (r : HTree) (hr : r ∈ ((⟨Forest.init, env⟩ : Store).xrun cs).forest.roots) : Structural r.erase :=
  structural_root (inv_reachable env cs hw) hr

/-- … `StructValid` itself when the root is a document node. -/
theorem structValid_reachable (env : Env) (cs : List Forest.XCall) (hw : ∀ c ∈ cs, c.wellKinded)
    (r : HTree) (hr : r ∈ ((⟨Forest.init, env⟩ : Store).xrun cs).forest.roots)
    (hd : r.value.isDocument = true) : StructValid r.erase :=
  structValid_root (inv_reachable env cs hw) hr hd

/-- … and without adjacent text nodes while consolidation has never been switched off. -/
theorem noAdjacentText_reachable (env : Env) (cs : List Forest.XCall) (hw : ∀ c ∈ cs, c.wellKinded)
    (hoff : ((⟨Forest.init, env⟩ : Store).xrun cs).forest.everOff = false)
    (r : HTree) (hr : r ∈ ((⟨Forest.init, env⟩ : Store).xrun cs).forest.roots) : NoAdjacentText r.erase :=
  noAdjacentText_root (inv_reachable env cs hw) hoff hr

/-! ### A closed history (the 16-step history of Props/C04, `xhCalls`)

  Creates `<a:e><a:e>x</a:e></a:e>`, declares `p` twice, repairs (`create_missing_prefixes` invents `n0`),
  deduplicates, clones the inner element with prefixes, is refused a repair on a text node, hits the
  documented panic of `attributes_mut` on a text node, moves the clone in front of its source, strips
  whitespace, removes the source, deduplicates on the removed handle. -/

def exEnv : Env :=
  { namespaces := [[], ['x'], ['u'], ['w']], prefixes := [[], ['x','m','l'], ['p']],
    names := [(['s'], 1), (['e'], 3)] }

def exCalls : List Forest.XCall :=
  [.newNode (.element 1), .newNode (.element 1), .newNode (.text ['x']),
   .call (.append 0 1), .call (.append 1 2),
   .call (.mapInsert .namespaces 0 (.namespace 2 2)), .call (.mapInsert .namespaces 1 (.namespace 2 2)),
   .createMissingPrefixes 0, .deduplicateNamespaces 0,
   .cloneWithPrefixes 1 [(3, 3)],
   .createMissingPrefixes 2, .call (.mapInsert .attributes 2 (.attribute 1 [])),
   .call (.insertBefore 1 7), .removeInsignificantWhitespace 0, .call (.remove 1), .deduplicateNamespaces 1]

theorem exCalls_wellKinded : ∀ c ∈ exCalls, c.wellKinded := by decide

theorem exCalls_take_wellKinded (n : Nat) : ∀ c ∈ exCalls.take n, c.wellKinded :=
  fun c hc => exCalls_wellKinded c (List.mem_of_mem_take hc)

/-- The forest after all 16 steps: one tree, `<e xmlns:p=".." xmlns:n0=".."><e xmlns:n0="..">x</e></e>`. -/
def exRoot : HTree :=
  .node 0 (.element 1) [.node 3 (.namespace 2 2) [], .node 5 (.namespace 3 3) [],
    .node 7 (.element 1) [.node 9 (.namespace 3 3) [], .node 8 (.text ['x']) []]]

theorem exRoots : ((⟨Forest.init, exEnv⟩ : Store).xrun exCalls).forest.roots = [exRoot] := by decide +kernel

/-- The forest after the first 10 steps: the source tree (inner element 1 with its text) and the clone
    7 (which carries the declaration of `n0` the source inherits). -/
def exRootA : HTree :=
  .node 0 (.element 1) [.node 3 (.namespace 2 2) [], .node 5 (.namespace 3 3) [],
    .node 1 (.element 1) [.node 2 (.text ['x']) []]]
def exRootB : HTree :=
  .node 7 (.element 1) [.node 9 (.namespace 3 3) [], .node 8 (.text ['x']) []]

theorem exRoots10 : ((⟨Forest.init, exEnv⟩ : Store).xrun (exCalls.take 10)).forest.roots = [exRootA, exRootB] := by
  decide +kernel

theorem exRoot_mem : exRoot ∈ ((⟨Forest.init, exEnv⟩ : Store).xrun exCalls).forest.roots := by
  rw [exRoots]; exact List.mem_singleton.mpr rfl

theorem exRootA_mem : exRootA ∈ ((⟨Forest.init, exEnv⟩ : Store).xrun (exCalls.take 10)).forest.roots := by
  rw [exRoots10]; exact List.mem_cons_self ..

theorem exRootB_mem : exRootB ∈ ((⟨Forest.init, exEnv⟩ : Store).xrun (exCalls.take 10)).forest.roots := by
  rw [exRoots10]; exact List.mem_cons_of_mem _ (List.mem_singleton.mpr rfl)

end XotModel.Reach
