/-
  Finv (C04), part 7: the invariant under a change of roots, value updates within the kind,
  removal of a text leaf, and the two text-consolidation helpers of manipulation.rs
  (`remove_consolidate_text_nodes`, `add_consolidate_text_nodes`): they preserve the invariant
  for all arguments.
-/
import XotModel.Lemmas.FinvHV

namespace XotModel
open HTree

namespace Forest

/-- New roots whose handles, together with some dropped handles `X`, are the old handles. -/
theorem Inv.with_roots {f : Forest} (hi : f.Inv) (roots' : List HTree) (X : List Nat)
    (hp : (handlesList roots' ++ X).Perm f.allHandles)
    (hv : validList (!f.everOff) roots' = true) : ({ f with roots := roots' } : Forest).Inv := by
  obtain ⟨h1, h2, h3, _, h5⟩ := hi
  refine ⟨h1, ?_, ?_, hv, h5⟩
  · have := hp.symm.nodup h2
    exact List.Nodup.sublist (List.sublist_append_left _ _) this
  · intro h hh
    exact h3 h (hp.subset (List.mem_append_left _ hh))

/-- Edit of the child list in the hole of a path. -/
theorem Inv.edit {f : Forest} (hi : f.Inv) {path : List ZipFrame} {ks ks' : List HTree} (X : List Nat)
    (he : f.roots = plug path ks) (hp : (handlesList ks' ++ X).Perm (handlesList ks))
    (hk : kidsOKopt (!f.everOff) (innerValue path) ks' = true)
    (hl : validList (!f.everOff) ks' = true) : ({ f with roots := plug path ks' } : Forest).Inv := by
  apply hi.with_roots _ X
  · unfold allHandles
    rw [he]
    refine ((handlesList_plug_perm path ks').append_right X).trans
      (List.Perm.trans ?_ (handlesList_plug_perm path ks).symm)
    rw [List.append_assoc]
    exact List.Perm.append_left _ hp
  · have := hi.valid
    rw [he] at this
    exact valid_plug_replace _ path ks ks' this hk hl

theorem Inv.kids_at {f : Forest} (hi : f.Inv) {path : List ZipFrame} {ks : List HTree}
    (he : f.roots = plug path ks) :
    kidsOKopt (!f.everOff) (innerValue path) ks = true ∧ validList (!f.everOff) ks = true := by
  have := hi.valid
  rw [he] at this
  exact valid_plug_inner _ path ks this

theorem Inv.validTree_of_loc {f : Forest} (hi : f.Inv) {h path l k r} (lc : Loc f.roots h path l k r) :
    validTree (!f.everOff) k = true := by
  have := (hi.kids_at lc.eq).2
  simp only [validList_append, validList_cons, Bool.and_eq_true] at this
  exact this.2.1

theorem textOf_eq_some_iff (f : Forest) (h : Nat) (s : Str) :
    f.textOf h = some s ↔ f.value? h = some (.text s) := by
  unfold textOf
  cases hv : f.value? h with
  | none => simp
  | some v => cases v <;> simp

/-! ### Value updates within the kind -/

theorem setValue_of_not_mem {f : Forest} {h : Nat} (hn : h ∉ f.allHandles) (v : Value) :
    f.setValue h v = f := by
  unfold setValue
  rw [← mapAtList_eq_map, mapAtList_of_not_mem h _ _ hn]

theorem setValue_inv {f : Forest} (hi : f.Inv) {h : Nat} {v v' : Value} (hv : f.value? h = some v)
    (hk : SameKind v v') (ha : ∀ x, kidAllowed v' x = kidAllowed v x) : (f.setValue h v').Inv := by
  obtain ⟨path, l, k, r, lc⟩ := exists_loc (mem_allHandles_of_isLive (isLive_of_value? hv))
  have hkv : k.value = v := by
    have := value?_of_loc lc hi.nodup; rw [hv] at this; cases this; rfl
  rw [setValue_of_loc v' lc hi.nodup]
  obtain ⟨k1, k2⟩ := hi.kids_at lc.eq
  apply hi.edit [] lc.eq
  · simp
  · cases hiv : innerValue path with
    | none => rfl
    | some pv =>
      rw [hiv] at k1
      exact (kidsOK_iff _ _ _).mpr (((kidsOK_iff _ _ _).mp k1).sameKind (by simpa [hkv] using hk))
  · simp only [validList_append, validList_cons, Bool.and_eq_true] at k2 ⊢
    exact ⟨k2.1, validTree_setValue k2.2.1 (by simpa [hkv] using ha), k2.2.2⟩

/-- Value of another handle after a value update. -/
theorem value?_setValue_ne {f : Forest} (nd : f.allHandles.Nodup) {p x : Nat} (hne : x ≠ p) (v' : Value) :
    (f.setValue p v').value? x = f.value? x := by
  by_cases hp : p ∈ f.allHandles
  · obtain ⟨path, l, k, r, lc⟩ := exists_loc hp
    have nd' : (f.setValue p v').allHandles.Nodup := by rw [allHandles_setValue]; exact nd
    apply Option.ext
    intro w
    rw [value?_eq_some_iff nd', value?_eq_some_iff nd, setValue_of_loc v' lc nd, lc.eq]
    simp only [mem_hvList_plug, hvList_append, hvList_cons, List.mem_append, hv_eq k,
      hv_eq (k.setValue v'), fi_setValue_handle, fi_setValue_value, fi_setValue_kids, List.mem_cons,
      Prod.mk.injEq, lc.hk]
    constructor <;> intro hh <;> rcases hh with hh | hh | (hh | hh) | hh
    all_goals first
      | exact absurd hh.1 hne
      | exact Or.inl hh
      | exact Or.inr (Or.inl hh)
      | exact Or.inr (Or.inr (Or.inl (Or.inr hh)))
      | exact Or.inr (Or.inr (Or.inr hh))
  · rw [setValue_of_not_mem hp]

theorem value?_setValue_self {f : Forest} (nd : f.allHandles.Nodup) {p : Nat} (hp : p ∈ f.allHandles)
    (v' : Value) : (f.setValue p v').value? p = some v' := by
  obtain ⟨path, l, k, r, lc⟩ := exists_loc hp
  have nd' : (f.setValue p v').allHandles.Nodup := by rw [allHandles_setValue]; exact nd
  have lc' : Loc (f.setValue p v').roots p path l (k.setValue v') r := by
    refine ⟨?_, by simp [lc.hk]⟩
    rw [setValue_of_loc v' lc nd]
  rw [value?_of_loc lc' nd']; simp

/-! ### Removing a text leaf -/

theorem spliceOut_text_inv {f : Forest} (hi : f.Inv) {n : Nat} {s : Str} (ht : f.textOf n = some s) :
    (f.spliceOut n).Inv := by
  rw [textOf_eq_some_iff] at ht
  obtain ⟨path, l, k, r, lc⟩ := exists_loc (mem_allHandles_of_isLive (isLive_of_value? ht))
  have hkv : k.value = .text s := by
    have := value?_of_loc lc hi.nodup; rw [ht] at this; exact (Option.some.inj this).symm
  have hkt : k.value.isText = true := by rw [hkv]; rfl
  have hkids : k.kids = [] := kids_nil_of_text (hi.validTree_of_loc lc) hkt
  obtain ⟨k1, k2⟩ := hi.kids_at lc.eq
  have key : ({ f with roots := plug path (l ++ r) } : Forest).Inv := by
    apply hi.edit [n] lc.eq
    · simp only [fi_handlesList_append, fi_handlesList_cons, fi_handles_eq k, hkids, lc.hk, fi_handlesList_nil,
        List.append_assoc]
      exact List.Perm.append_left _ List.perm_append_comm
    · cases hiv : innerValue path with
      | none => rfl
      | some pv =>
        rw [hiv] at k1
        exact (kidsOK_iff _ _ _).mpr (((kidsOK_iff _ _ _).mp k1).remove_text hkt)
    · simp only [validList_append, validList_cons, Bool.and_eq_true] at k2 ⊢
      exact ⟨k2.1, k2.2.2⟩
  cases path with
  | nil =>
    rw [spliceOut_of_loc_nil lc hi.nodup, hkids]
    simpa using key
  | cons fr rest =>
    rw [spliceOut_of_loc_cons lc hi.nodup, hkids]
    simpa using key

/-- `set p to text; remove the text node n`, the common core of both consolidation helpers. -/
theorem merge_inv {f : Forest} (hi : f.Inv) {p n : Nat} {ps ns : Str} (s : Str)
    (hp : f.textOf p = some ps) (hn : f.textOf n = some ns) :
    ((f.setValue p (.text s)).spliceOut n).Inv := by
  rw [textOf_eq_some_iff] at hp
  have h1 : (f.setValue p (.text s)).Inv :=
    setValue_inv hi hp ⟨rfl, rfl, rfl, rfl⟩ (fun x => rfl)
  by_cases hpn : n = p
  · subst hpn
    have : (f.setValue n (.text s)).textOf n = some s := by
      rw [textOf_eq_some_iff]
      exact value?_setValue_self hi.nodup (mem_allHandles_of_isLive (isLive_of_value? hp)) _
    exact spliceOut_text_inv h1 this
  · have : (f.setValue p (.text s)).textOf n = some ns := by
      rw [textOf_eq_some_iff, value?_setValue_ne hi.nodup hpn]
      exact (textOf_eq_some_iff _ _ _).mp hn
    exact spliceOut_text_inv h1 this

/-- `remove_consolidate_text_nodes` preserves the invariant, whatever its arguments. -/
theorem removeConsolidate_inv {f : Forest} (hi : f.Inv) (prev next : Option Nat) :
    (f.removeConsolidate prev next).1.Inv := by
  unfold removeConsolidate
  split
  · exact hi
  · split
    · rename_i p n
      cases hp : f.textOf p with
      | none => exact hi
      | some ps =>
        cases hn : f.textOf n with
        | none => exact hi
        | some ns => exact merge_inv hi _ hp hn
    · exact hi

/-- `add_consolidate_text_nodes` preserves the invariant, whatever its arguments. -/
theorem addConsolidateOld_inv {f : Forest} (hi : f.Inv) (node : Nat) (prev next : Option Nat) :
    (f.addConsolidateOld node prev next).1.Inv := by
  unfold addConsolidateOld
  split
  · exact hi
  · cases hnode : f.textOf node with
    | none => exact hi
    | some added =>
      have viaNext : (match next with
          | some n => (match f.textOf n with
              | some ns => ((f.setValue n (.text (added ++ ns))).spliceOut node, true)
              | none => (f, false))
          | none => (f, false)).1.Inv := by
        cases next with
        | none => exact hi
        | some n =>
          simp only
          cases hn : f.textOf n with
          | none => exact hi
          | some ns => exact merge_inv hi _ hn hnode
      cases prev with
      | some p =>
        simp only
        cases hp : f.textOf p with
        | some ps => exact merge_inv hi _ hp hnode
        | none => exact viaNext
      | none => exact viaNext

/-- `add_consolidate_text_nodes` (eccbbb7: a neighbour that is the node itself is read as the
    node's own sibling) preserves the invariant, whatever its arguments. -/
theorem addConsolidate_inv {f : Forest} (hi : f.Inv) (node : Nat) (prev next : Option Nat) :
    (f.addConsolidate node prev next).1.Inv := by
  rw [addConsolidate_eq_old]; exact addConsolidateOld_inv hi _ _ _

theorem addConsolidate_viaNext_false {f f' : Forest} {node : Nat} {added : Str} {next : Option Nat}
    (h : (match next with
          | some n => (match f.textOf n with
              | some ns => ((f.setValue n (.text (added ++ ns))).spliceOut node, true)
              | none => (f, false))
          | none => (f, false)) = (f', false)) : f' = f := by
  cases next with
  | none => cases h; rfl
  | some n =>
    simp only at h
    cases hn : f.textOf n with
    | none => rw [hn] at h; cases h; rfl
    | some ns => rw [hn] at h; simp at h

/-- A consolidation helper that reports `false` has not touched the forest. -/
theorem addConsolidate_false {f f' : Forest} {node : Nat} {prev next : Option Nat}
    (h : f.addConsolidate node prev next = (f', false)) : f' = f := by
  rw [addConsolidate_eq_old] at h
  generalize f.selfPrev node prev = prev at h
  generalize f.selfNext node next = next at h
  unfold addConsolidateOld at h
  split at h
  · cases h; rfl
  · cases hnode : f.textOf node with
    | none => rw [hnode] at h; cases h; rfl
    | some added =>
      rw [hnode] at h
      cases prev with
      | some p =>
        simp only at h
        cases hp : f.textOf p with
        | some ps => rw [hp] at h; simp at h
        | none => rw [hp] at h; exact addConsolidate_viaNext_false h
      | none => exact addConsolidate_viaNext_false h

theorem removeConsolidate_false {f f' : Forest} {prev next : Option Nat}
    (h : f.removeConsolidate prev next = (f', false)) : f' = f := by
  unfold removeConsolidate at h
  split at h
  · cases h; rfl
  · split at h
    · rename_i p n
      cases hp : f.textOf p with
      | none => rw [hp] at h; cases h; rfl
      | some ps =>
        cases hn : f.textOf n with
        | none => rw [hp, hn] at h; cases h; rfl
        | some ns => rw [hp, hn] at h; simp at h
    · cases h; rfl

end Forest
end XotModel
