/-
  Lemmas for C12, part 25: `clone_with_prefixes` serialises on its own whenever the source's root
  serialises — for every enumeration `order` of the inherited prefixes.
-/
import XotModel.Lemmas.FclonePrefix7
import XotModel.Lemmas.FcloneMergeInv

namespace XotModel
open HTree

/-- The clone of an element is an element with the same name; `Cloning` right after `clone_node`. -/
theorem cloning_after_clone (f : Forest) (inv : f.Inv) (C : HTree) (f' : Forest)
    (h2 : f'.roots = f.roots ++ [C]) (h4 : ∀ h ∈ handles C, f.next ≤ h ∧ h < f'.next)
    (hle : f.next ≤ f'.next) (hnd : f'.allHandles.Nodup) :
    ∀ c v K, C = .node c v K → Cloning f' f.roots [] c v K := by
  intro c v K hC
  subst hC
  refine ⟨h2, ?_, ?_⟩
  · unfold Forest.allHandles at hnd
    rw [h2, handlesList_append, handlesList_singleton] at hnd
    simpa [frameHandles, handles] using hnd
  · intro h hh
    simp only [frameHandles, List.nil_append, List.mem_append] at hh
    rcases hh with h1 | h1
    · have := inv.below h h1; omega
    · exact (h4 h (by simpa [handles] using h1)).2

/-- `clone_with_prefixes` of an element whose root serialises gives a clone that serialises. -/
theorem cloneWithPrefixes_serialises (env : Env) (f : Forest) (inv : f.Inv)
    (node : Nat) (hs : Nat) (name : Nat) (Ks : List HTree) (rest : List HTree)
    (hpath : f.pathTo node = .node hs (.element name) Ks :: rest)
    (hser : ∀ r ∈ f.roots, HTree.pathTo node r = some (.node hs (.element name) Ks :: rest) →
      writableTree env (FStack.new (namespacesInScopeChain [r.erase])) r.erase = true)
    (order : List (Nat × Nat))
    (hord : ∀ b, b ∈ order ↔ b ∈ f.inheritedPrefixes env node)
    (hfun : ∀ a ∈ order, ∀ b ∈ order, a.1 = b.1 → a = b) :
    ∃ c, (f.cloneWithPrefixes node order).2 = some c ∧
      (f.cloneWithPrefixes node order).1.serialises env c = true := by
  -- the source
  obtain ⟨hget, r, hr, hp⟩ := Forest.get?_of_pathTo hpath
  have hvr : validTree (!f.everOff) r = true := validList_mem _ f.roots r inv.valid hr
  obtain ⟨hlast, hvpath⟩ := pathTo_props _ node r _ hvr hp
  -- clone_node
  obtain ⟨C, f1, h1, h2, h3, h4, h5, h6, h7, h8, h9, h10⟩ :=
    cloneNode_full f inv node _ hget
  obtain ⟨L, hL, hE1, hE2, hE3⟩ := expectedClone_serial env _ f.consolidation hs (.element name) Ks
    (inv.valid_get hget)
  rw [hL] at h6
  obtain ⟨c, vC, Kc⟩ := C
  have hvC : vC = .element name := by
    have := congrArg Tree.value h6
    simpa [erase, Tree.value] using this
  subst hvC
  have hKe : eraseList Kc = L := by
    have := congrArg Tree.kids h6
    simpa [erase, Tree.kids] using this
  have cl := cloning_after_clone f inv _ f1 h2 h4 h5 h10 c (.element name) Kc rfl
  -- the insertion loop
  obtain ⟨f2, ha, cl2, _, _⟩ := addPrefixes_spec order cl rfl
  have hiel : f1.isElement c = true := by
    simp [Forest.isElement, Forest.value?, cl.get?_c, HTree.value, Value.isElement]
  have hres : f.cloneWithPrefixes node order = (f2, some c) := by
    unfold Forest.cloneWithPrefixes
    rw [h1]
    simp only [HTree.handle, hiel, if_true, ha]
  refine ⟨c, by rw [hres], ?_⟩
  rw [hres]
  -- the clone as a root of the result
  have hcR : c ∉ handlesList f.roots := by
    intro h
    have := inv.below c h
    have := (h4 c (by simp [handles])).1
    omega
  have hg2 : f2.get? c = some (.node c (.element name) (addSpec Kc f1.next order).1) := cl2.get?_c
  have hp2 := pathTo_top f2 f.roots c (.element name) _ cl2.roots hcR
  unfold Forest.serialises
  simp only [hg2]
  unfold Forest.prefixesInScope Forest.chain
  rw [hp2]
  -- shape of the children of the clone's root
  have hA : ∀ x ∈ Kc.takeWhile (fun c => c.value.category == .namespace),
      (x.value.category == Category.namespace) = true := fun x hx => mem_takeWhile_imp _ Kc x hx
  have hB : ∀ y, (Kc.dropWhile (fun c => c.value.category == .namespace)).head? = some y →
      (y.value.category == Category.namespace) = false := fun y hy => head_dropWhile_not _ Kc y hy
  have hsplit : Kc.takeWhile (fun c => c.value.category == .namespace) ++
      Kc.dropWhile (fun c => c.value.category == .namespace) = Kc := List.takeWhile_append_dropWhile
  generalize hAe : Kc.takeWhile (fun c => c.value.category == .namespace) = A at hA hsplit
  generalize hBe : Kc.dropWhile (fun c => c.value.category == .namespace) = B at hB hsplit
  subst hsplit
  obtain ⟨New, hNew, hshape⟩ := addSpec_shape order A B f1.next hA hB
  obtain ⟨hmono, hdecl⟩ := addSpec_declares order A B f1.next hA hB hfun
  generalize hK' : (addSpec (A ++ B) f1.next order).1 = K' at hshape hmono hdecl ⊢
  subst hshape
  -- declarations of the source = declarations of the clone before the loop
  have hdsrc : fcDeclsOfKids Ks = A.filterMap (fun k => fcNsPair k.value) := by
    rw [← declsOfKids_split A B hA hB, ← nsDecls_erase c (.element name), ← nsDecls_erase hs (.element name)]
    simp only [erase]
    rw [hKe, hE1]
  -- in place: the serializer reaches the source
  obtain ⟨sS, hwS, htS⟩ := writable_descend env node r _ _ rest (hser r hr hp) hp
  simp only [erase, writableTree, Bool.and_eq_true, List.all_eq_true] at hwS
  obtain ⟨⟨⟨hdefS, hnameS⟩, hattrS⟩, hkidsS⟩ := hwS
  have hdS : (Tree.node (.element name) (eraseList Ks)).nsDecls = fcDeclsOfKids Ks := nsDecls_erase hs _ Ks
  rw [hdS] at hdefS hnameS hattrS hkidsS
  -- the clone
  simp only [List.map_cons, List.map_nil, erase, writableTree, Bool.and_eq_true, List.all_eq_true]
  have hdC : (Tree.node (.element name) (eraseList (A ++ New ++ B))).nsDecls = fcDeclsOfKids (A ++ New ++ B) :=
    nsDecls_erase c _ _
  rw [hdC]
  have hattrs : (Tree.node (.element name) (eraseList (A ++ New ++ B))).attrs =
      (Tree.node (.element name) (eraseList Ks)).attrs := by
    have e1 : (Tree.node (Value.element name) (eraseList (A ++ New ++ B))).attrs =
        (Tree.node (Value.element name) (eraseList (A ++ B))).attrs := by
      rw [attrs_eq, attrs_eq, attributeNodes_insert _ A New B hA hNew]
    rw [e1, hKe, hE2]
  rw [hattrs, writableList_insert env _ A New B hNew, hKe, hE3]
  -- the three stacks after the start tag of the source / the clone
  generalize hL0 : namespacesInScopeChain [Tree.node (Value.element name) (eraseList (A ++ New ++ B))] = L0
  let U : Nat → Prop := fun n => n ∈ unresolvedTree env (FStack.new []) (erase (.node hs (.element name) Ks))
  have hUdef : ∀ n, n ∈ unresolvedTree env (FStack.new []) (erase (.node hs (.element name) Ks)) → U n :=
    fun n hn => hn
  have hunres : ∀ n, U n ↔ n ∈ unresolvedHere env ((FStack.new []).push (fcDeclsOfKids Ks)) name
      ((Tree.node (.element name) (eraseList Ks)).attrs.map (·.1)) ∨
      n ∈ unresolvedList env ((FStack.new []).push (fcDeclsOfKids Ks)) (eraseList Ks) := by
    intro n
    show n ∈ unresolvedTree env (FStack.new []) (erase (.node hs (.element name) Ks)) ↔ _
    simp only [erase, unresolvedTree, List.mem_append, hdS]
  have H1 : ∀ b ∈ ((FStack.new []).push (fcDeclsOfKids Ks)).top,
      b ∈ ((FStack.new L0).push (fcDeclsOfKids (A ++ New ++ B))).top := by
    intro b hb
    rw [push_top, fc_mem_fullnameInfoNew] at hb ⊢
    rcases hb with h | ⟨h, _⟩
    · left; rw [hdsrc] at h; exact hmono b h
    · simp [FStack.new, FStack.top] at h
  have H2 : ∀ b ∈ (sS.push (fcDeclsOfKids Ks)).top, U b.2 →
      b ∈ ((FStack.new L0).push (fcDeclsOfKids (A ++ New ++ B))).top := by
    intro b hb hU
    rw [push_top, fc_mem_fullnameInfoNew] at hb ⊢
    left
    rcases hb with h | ⟨h, hk⟩
    · rw [hdsrc] at h; exact hmono b h
    · -- offered by the context, not overridden by the source's own declarations
      have hnt := unresolvedTree_nontrivial env _ _ b.2 hU
      rw [htS] at h
      simp only [FStack.new, FStack.top, List.headD_cons] at h
      have hinh : b ∈ f.inheritedPrefixes env node := by
        unfold Forest.inheritedPrefixes
        rw [hpath]
        have hun : f.unresolvedNamespaces env node =
            unresolvedTree env (FStack.new []) (erase (.node hs (.element name) Ks)) := by
          unfold Forest.unresolvedNamespaces
          rw [hget]
        cases rest with
        | nil =>
          exfalso
          -- the source is the root: what its own in-scope list offers is declared by itself
          have hrsrc : r = .node hs (.element name) Ks := by
            have := hlast
            simpa using this.symm
          rw [hrsrc] at h
          simp only [List.map_nil, stackAlong] at h
          rcases inScope_single _ b h with h' | h'
          · rw [nsDecls_erase] at h'
            exact hk b h' rfl
          · exact hnt.2 h'
        | cons p rest' =>
          simp only
          rw [List.mem_filter]
          refine ⟨?_, by rw [hun]; simpa using hU⟩
          have hrmem : erase r ∈ (p :: rest').map erase := by
            have : (p :: rest').getLast? = some r := by
              have := hlast
              simpa [List.getLast?_cons_cons] using this
            exact List.mem_map.mpr ⟨r, List.mem_of_getLast? this, rfl⟩
          have hok : ChainOK ((p :: rest').map erase) :=
            chainOK_of_valid _ _ (fun x hx => hvpath x (by simp [hx]))
          exact stackAlong_sub_inScope _ (erase r) hrmem hok b h hnt.2 (fun e => hnt.1 e.2)
      have hbo := (hord b).mpr hinh
      exact hdecl b hbo (fun x hx e => absurd e (hk x (by rw [hdsrc]; exact hx)))
  -- a default namespace in the clone is one in place
  have hsub := addSpec_decls_sub order A B f1.next hA hB
  rw [hK'] at hsub
  have H4 : HasDefault ((FStack.new L0).push (fcDeclsOfKids (A ++ New ++ B))).top →
      HasDefault (sS.push (fcDeclsOfKids Ks)).top := by
    rintro ⟨n, hm, hn⟩
    refine ⟨n, ?_, hn⟩
    rw [push_top, fc_mem_fullnameInfoNew] at hm ⊢
    rcases hm with h | ⟨h, hk⟩
    · rcases hsub _ h with h' | ⟨h1, h2⟩
      · left; rw [hdsrc]; exact h'
      · right
        refine ⟨?_, fun x hx => h2 x (by rw [← hdsrc]; exact hx)⟩
        have hinh := (hord _).mp h1
        unfold Forest.inheritedPrefixes at hinh
        rw [hpath] at hinh
        cases rest with
        | nil => simp at hinh
        | cons p rest' =>
          simp only [List.mem_filter] at hinh
          rw [htS]
          simp only [FStack.new, FStack.top, List.headD_cons]
          have hok : ChainOK ((p :: rest').map erase) :=
            chainOK_of_valid _ _ (fun x hx => hvpath x (by simp [hx]))
          exact inScope_sub_stackAlong _ _ hok _ hinh.1 (show Env.emptyPrefix ≠ Env.xmlPrefix by decide)
    · exfalso
      simp only [FStack.new, FStack.top, List.headD_cons] at h
      rw [← hL0] at h
      rcases inScope_single' _ _ h with h' | h'
      · rw [hdC] at h'
        exact hk _ h' rfl
      · have : Env.emptyPrefix = Env.xmlPrefix := congrArg Prod.fst h'
        exact absurd this (by decide)
  refine ⟨⟨⟨noDefault_transfer _ _ _ H4 hdefS, ?_⟩, ?_⟩, ?_⟩
  · rw [elementFullname_ok] at hnameS ⊢
    exact name_transfer env U _ _ _ name false H1 H2
      (fun hno => (hunres _).mpr (Or.inl (unresolvedHere_elem env _ name _ hno))) hnameS
  · intro a ha
    have := hattrS a ha
    rw [attributeFullname_ok] at this ⊢
    exact name_transfer env U _ _ _ a true H1 H2
      (fun hno => (hunres _).mpr (Or.inl (unresolvedHere_attr env _ name _ a ha hno))) this
  · exact writableList_transfer env U _ _ _ _ H1 H2 (fun n hn => (hunres n).mpr (Or.inr hn)) H4 hkidsS

end XotModel

namespace XotModel
open HTree

/-- `clone_with_prefixes` cannot panic on a live node, whatever the order. -/
theorem cloneWithPrefixes_total (f : Forest) (inv : f.Inv) (node : Nat) (src : HTree)
    (hsrc : f.get? node = some src) (order : List (Nat × Nat)) :
    ∃ c, (f.cloneWithPrefixes node order).2 = some c := by
  obtain ⟨C, f1, h1, h2, h3, h4, h5, _, _, _, _, h10⟩ := cloneNode_full f inv node src hsrc
  unfold Forest.cloneWithPrefixes
  rw [h1]
  simp only
  by_cases hel : f1.isElement C.handle = true
  · rw [if_pos hel]
    obtain ⟨c, vC, Kc⟩ := C
    have hv : vC.isElement = true := by
      have h3' : f1.get? c = some (.node c vC Kc) := h3
      have hel' : f1.isElement c = true := hel
      simpa [Forest.isElement, Forest.value?, h3', HTree.value] using hel'
    have cl := cloning_after_clone f inv _ f1 h2 h4 h5 h10 c vC Kc rfl
    obtain ⟨f2, ha, _⟩ := addPrefixes_spec order cl hv
    simp only [HTree.handle] at ha ⊢
    rw [ha]
    exact ⟨c, rfl⟩
  · rw [if_neg hel]
    exact ⟨_, rfl⟩

/-- `to_string(root)` in terms of the root tree. -/
theorem serialises_root (env : Env) (f : Forest) (inv : f.Inv) (r : HTree) (hr : r ∈ f.roots) :
    f.serialises env r.handle =
      writableTree env (FStack.new (namespacesInScopeChain [r.erase])) r.erase := by
  obtain ⟨L1, L2, hL⟩ := List.append_of_mem hr
  have hn : r.handle ∉ handlesList L1 := by
    have hnd := inv.nodup
    unfold Forest.allHandles at hnd
    rw [hL, handlesList_append] at hnd
    intro hm
    exact (List.nodup_append.mp hnd).2.2 _ hm _ (by simp [handlesList, fc_handle_mem_handles]) rfl
  have hg : f.get? r.handle = some r := by
    unfold Forest.get?
    rw [hL, findList?_append_of_not_mem _ _ _ hn]
    simp [findList?, find?_root]
  have hp : f.pathTo r.handle = [r] := by
    unfold Forest.pathTo
    rw [hL, List.findSome?_append]
    have : L1.findSome? (HTree.pathTo r.handle) = none := by
      clear hL
      induction L1 with
      | nil => rfl
      | cons a L ih =>
        simp only [handlesList, List.mem_append, not_or] at hn
        rw [List.findSome?_cons, (pathTo_find r.handle a).2.2 (find?_none_of_not_mem _ a hn.1)]
        exact ih hn.2
    rw [this]
    cases r with
    | node h v ks => simp [HTree.pathTo, HTree.handle]
  unfold Forest.serialises Forest.prefixesInScope Forest.chain
  rw [hg, hp]
  rfl

end XotModel
