/-
  Finv (C04), part 27: `clone_node` of an element, given that the temporary top is still a
  parentless node with at most one child after the replay (`Forest.cloneTopOK`).
-/
import XotModel.Lemmas.FinvUnwrap2
import XotModel.Lemmas.FinvWs

namespace XotModel
open HTree

namespace Forest

theorem exists_loc_of_isRoot {f : Forest} {x : Nat} (h : f.isRoot x = true) :
    ∃ L T R, Loc f.roots x [] L T R := by
  unfold isRoot at h
  rw [List.any_eq_true] at h
  obtain ⟨T, hT, hx⟩ := h
  obtain ⟨L, R, hLR⟩ := List.append_of_mem hT
  exact ⟨L, T, R, ⟨hLR, by simpa using hx⟩⟩

/-- indextree `remove` of a parentless node with at most one child. -/
theorem spliceOut_root_inv {f : Forest} (hi : f.Inv) {x : Nat} {L : List HTree} {T : HTree} {R : List HTree}
    (lc : Loc f.roots x [] L T R) (hk : T.kids.length ≤ 1) : (f.spliceOut x).Inv := by
  rw [spliceOut_of_loc_nil lc hi.nodup, if_pos hk]
  have hv := hi.valid
  rw [lc.eq] at hv
  simp only [plug_nil, validList_append, validList_cons, Bool.and_eq_true] at hv
  have hT := hv.2.1
  rw [validTree_eq, Bool.and_eq_true] at hT
  apply hi.with_roots _ [x]
  · unfold allHandles
    rw [lc.eq]
    simp only [plug_nil, fi_handlesList_append, fi_handlesList_cons, fi_handles_eq T, lc.hk, List.append_assoc,
      List.cons_append]
    refine List.Perm.append_left _ ?_
    -- R ++ (kids ++ [x])  ~  x :: (kids ++ R)
    have : (handlesList R ++ (handlesList T.kids ++ [x])).Perm ([x] ++ (handlesList T.kids ++ handlesList R)) := by
      refine List.Perm.trans ?_ List.perm_append_comm
      rw [← List.append_assoc]
      exact List.Perm.append_right _ List.perm_append_comm
    exact this
  · simp only [validList_append, Bool.and_eq_true]
    exact ⟨⟨hv.1, hv.2.2⟩, hT.2⟩

/-- `clone_node`, under the guard `cloneTopOK`. -/
theorem cloneNode_inv_of_topOK {f : Forest} (hi : f.Inv) (node : Nat) (hok : f.cloneTopOK node = true) :
    (f.cloneNode node).1.Inv := by
  by_cases hel : f.isElement node = false
  · exact cloneNode_inv_of_not_element hi node hel
  unfold cloneNode
  unfold cloneTopOK at hok
  cases hg : f.get? node with
  | none => exact hi
  | some src =>
    rw [hg] at hok
    simp only at hok ⊢
    split
    · -- document: not an element
      exfalso
      rename_i hsv
      apply hel
      unfold isElement value?; rw [hg]; simp [hsv, Value.isElement]
    · rename_i name hsv
      rw [hsv] at hok
      simp only at hok
      have h1 : (f.newElement name).1.Inv := newNode_inv hi _
      cases hn : f.newElement name with
      | mk f1 top =>
        rw [hn] at h1 hok
        simp only at hok ⊢
        cases hc : cloneInto f1 top src with
        | none => exact h1
        | some f2 =>
          rw [hc] at hok
          simp only [Bool.and_eq_true] at hok ⊢
          have h2 : f2.Inv := cloneInto_inv top src f1 f2 h1 hc
          cases f2.firstChild top with
          | none => exact h2
          | some c =>
            simp only
            obtain ⟨L, T, R, lc⟩ := exists_loc_of_isRoot hok.1
            have hgt := get?_of_loc lc h2.nodup
            rw [hgt] at hok
            exact spliceOut_root_inv h2 lc (by simpa using hok.2)
    · exact newNode_inv hi _

end Forest
end XotModel
