/-
  `xot.html5()` (C19): the ids `Html5Elements::new` obtains for the three namespaces name the three
  URIs in the extended table; none of them is the id of the XML namespace.
-/
import XotModel.Model.Html5

namespace XotModel
open Gen

theorem addNamespace_get (nss : List Str) (uri : Str) :
    (addNamespace nss uri).1[(addNamespace nss uri).2]? = some uri := by
  unfold addNamespace
  split
  · rename_i h
    have hm : uri ∈ nss := by simpa using h
    have hlt := List.idxOf_lt_length_of_mem hm
    simp only
    rw [List.getElem?_eq_getElem hlt, List.getElem_idxOf hlt]
  · simp

theorem addNamespace_prefix (nss : List Str) (uri : Str) : nss <+: (addNamespace nss uri).1 := by
  unfold addNamespace
  split
  · exact List.prefix_refl _
  · exact List.prefix_append _ _

theorem prefix_getElem? {α : Type} {l1 l2 : List α} (h : l1 <+: l2) {i : Nat} {x : α}
    (hx : l1[i]? = some x) : l2[i]? = some x := by
  obtain ⟨t, rfl⟩ := h
  have hi : i < l1.length := by
    rcases Nat.lt_or_ge i l1.length with h | h
    · exact h
    · rw [List.getElem?_eq_none h] at hx; cases hx
  rw [List.getElem?_append_left hi]; exact hx

/-- The table after `xot.html5()` extends the one before, and the three ids name the three URIs. -/
theorem html5_new_spec (env : Env) :
    env.namespaces <+: (Html5Elements.new env).1.namespaces ∧
    (Html5Elements.new env).1.namespaces[(Html5Elements.new env).2.xhtml]? = some xhtmlNs ∧
    (Html5Elements.new env).1.namespaces[(Html5Elements.new env).2.mathml]? = some mathmlNs ∧
    (Html5Elements.new env).1.namespaces[(Html5Elements.new env).2.svg]? = some svgNs := by
  simp only [Html5Elements.new]
  have p1 := addNamespace_prefix env.namespaces xhtmlNs
  have g1 := addNamespace_get env.namespaces xhtmlNs
  have p2 := addNamespace_prefix (addNamespace env.namespaces xhtmlNs).1 mathmlNs
  have g2 := addNamespace_get (addNamespace env.namespaces xhtmlNs).1 mathmlNs
  have p3 := addNamespace_prefix (addNamespace (addNamespace env.namespaces xhtmlNs).1 mathmlNs).1 svgNs
  have g3 := addNamespace_get (addNamespace (addNamespace env.namespaces xhtmlNs).1 mathmlNs).1 svgNs
  exact ⟨List.IsPrefix.trans p1 (List.IsPrefix.trans p2 p3),
    prefix_getElem? (List.IsPrefix.trans p2 p3) g1, prefix_getElem? p3 g2, g3⟩

/-- In an environment whose namespace 1 is the XML namespace (`Xot::new`), none of the three ids
    is the XML namespace id. -/
theorem html5_new_ne_xml (env : Env) (hxml : env.namespaces[Env.xmlNamespace]? = some xmlNs) :
    (Html5Elements.new env).2.xhtml ≠ Env.xmlNamespace ∧
    (Html5Elements.new env).2.mathml ≠ Env.xmlNamespace ∧
    (Html5Elements.new env).2.svg ≠ Env.xmlNamespace := by
  obtain ⟨hp, hx, hm, hs⟩ := html5_new_spec env
  have h1 := prefix_getElem? hp hxml
  refine ⟨?_, ?_, ?_⟩ <;> intro he
  · rw [he, h1] at hx
    exact absurd (Option.some.inj hx) (by decide)
  · rw [he, h1] at hm
    exact absurd (Option.some.inj hm) (by decide)
  · rw [he, h1] at hs
    exact absurd (Option.some.inj hs) (by decide)

/-- `xot.html5()` registers namespaces only: names and prefixes of the context are the caller's. -/
theorem htmlCtx_names (env : Env) (p : HtmlParams) :
    (htmlCtx env p).env.names = env.names ∧ (htmlCtx env p).env.prefixes = env.prefixes := by
  simp [htmlCtx, Html5Elements.new]

/-- The XML namespace is none of the namespaces that must be written unprefixed. -/
theorem htmlCtx_xml_not_unprefixed (env : Env) (p : HtmlParams)
    (hxml : env.namespaces[Env.xmlNamespace]? = some xmlNs) :
    (htmlCtx env p).h.mustBeUnprefixed Env.xmlNamespace = false := by
  obtain ⟨h1, h2, h3⟩ := html5_new_ne_xml env hxml
  have e1 : (Env.xmlNamespace == (htmlCtx env p).h.xhtml) = false := by
    simpa [htmlCtx] using fun e => h1 e.symm
  have e2 : (Env.xmlNamespace == (htmlCtx env p).h.mathml) = false := by
    simpa [htmlCtx] using fun e => h2 e.symm
  have e3 : (Env.xmlNamespace == (htmlCtx env p).h.svg) = false := by
    simpa [htmlCtx] using fun e => h3 e.symm
  simp [Html5Elements.mustBeUnprefixed, e1, e2, e3]

end XotModel
