/-
  The parse route of C20 at forest level: `IdStore.parseInto s (treeOf d)` (what `Xot::parse` does to an
  existing store when the builder's result is `treeOf d`, Model/FidIndex.lean) adds exactly one new root
  that erases to `treeOf d`, with `d.size` fresh handles, to a store with distinct handles (`Good`).
-/
import XotModel.Model.FidIndex
import XotModel.Lemmas.FfixedValid

namespace XotModel
open HTree

/-! `ofTree`: fresh handles in document order (re-proved here: the C04 lemma family of
    Lemmas/FinvIdIndex.lean cannot be imported next to the Ffixed family of C20). -/

theorem fpr_handle_ofTree (n : Nat) (t : Tree) : (ofTree n t).handle = n := by
  cases t; rw [ofTree]; rfl

mutual
  theorem fpr_handles_ofTree (n : Nat) : ∀ t : Tree, ∀ x ∈ handles (ofTree n t), n ≤ x ∧ x < n + t.size
    | .node v ks => by
      intro x hx
      rw [ofTree] at hx
      simp only [handles, List.mem_cons] at hx
      rw [Tree.size]
      rcases hx with rfl | hx
      · omega
      · have := fpr_handlesList_ofTreeList (n + 1) ks x hx; omega
  theorem fpr_handlesList_ofTreeList (n : Nat) : ∀ ks : List Tree,
      ∀ x ∈ handlesList (ofTreeList n ks), n ≤ x ∧ x < n + Tree.size.sizeList ks
    | [] => by intro x hx; simp [ofTreeList, handlesList] at hx
    | k :: ks => by
      intro x hx
      rw [ofTreeList] at hx
      simp only [handlesList, List.mem_append] at hx
      rw [Tree.size.sizeList]
      rcases hx with hx | hx
      · have := fpr_handles_ofTree n k x hx; omega
      · have := fpr_handlesList_ofTreeList (n + k.size) ks x hx; omega
end

mutual
  theorem fpr_nodup_handles_ofTree (n : Nat) : ∀ t : Tree, (handles (ofTree n t)).Nodup
    | .node v ks => by
      rw [ofTree]
      simp only [handles, List.nodup_cons]
      refine ⟨fun hx => ?_, fpr_nodup_handlesList_ofTreeList (n + 1) ks⟩
      have := fpr_handlesList_ofTreeList (n + 1) ks n hx; omega
  theorem fpr_nodup_handlesList_ofTreeList (n : Nat) : ∀ ks : List Tree, (handlesList (ofTreeList n ks)).Nodup
    | [] => by simp [ofTreeList, handlesList]
    | k :: ks => by
      rw [ofTreeList]
      simp only [handlesList, List.nodup_append]
      refine ⟨fpr_nodup_handles_ofTree n k, fpr_nodup_handlesList_ofTreeList (n + k.size) ks, ?_⟩
      intro a ha b hb hab
      have h1 := fpr_handles_ofTree n k a ha
      have h2 := fpr_handlesList_ofTreeList (n + k.size) ks b hb
      omega
end

mutual
  theorem fpr_erase_ofTree (n : Nat) : ∀ t : Tree, (ofTree n t).erase = t
    | .node v ks => by rw [ofTree, erase, fpr_eraseList_ofTreeList (n + 1) ks]
  theorem fpr_eraseList_ofTreeList (n : Nat) : ∀ ks : List Tree, eraseList (ofTreeList n ks) = ks
    | [] => by simp [ofTreeList, eraseList]
    | k :: ks => by rw [ofTreeList, eraseList, fpr_erase_ofTree n k, fpr_eraseList_ofTreeList (n + k.size) ks]
end

theorem fpr_sizeList_append (a b : List Tree) :
    Tree.size.sizeList (a ++ b) = Tree.size.sizeList a + Tree.size.sizeList b := by
  induction a with
  | nil => simp [Tree.size.sizeList]
  | cons x a ih => simp [Tree.size.sizeList, ih]; omega

theorem fpr_sizeList_leaves {α : Type} (g : α → Tree) (hg : ∀ a, (g a).size = 1) (l : List α) :
    Tree.size.sizeList (l.map g) = l.length := by
  induction l with
  | nil => simp [Tree.size.sizeList]
  | cons x l ih => simp [Tree.size.sizeList, ih, hg]; omega

mutual
  theorem fpr_size_treeOfContent : ∀ c : FContent, (treeOfContent c).size = c.size
    | .text s => by simp [treeOfContent, Tree.size, Tree.size.sizeList, FContent.size]
    | .comment s => by simp [treeOfContent, Tree.size, Tree.size.sizeList, FContent.size]
    | .pi t d => by simp [treeOfContent, Tree.size, Tree.size.sizeList, FContent.size]
    | .element n ps as cs => by
      rw [treeOfContent, Tree.size, fpr_sizeList_append, fpr_sizeList_append,
        fpr_sizeList_leaves nsTree (fun _ => by simp [nsTree, Tree.size, Tree.size.sizeList]),
        fpr_sizeList_leaves attrTree (fun _ => by simp [attrTree, Tree.size, Tree.size.sizeList]),
        fpr_sizeList_treeOfList cs, FContent.size]
      omega
  theorem fpr_sizeList_treeOfList : ∀ cs : List FContent,
      Tree.size.sizeList (treeOfList cs) = FContent.sizeList cs
    | [] => by simp [treeOfList, Tree.size.sizeList, FContent.sizeList]
    | c :: cs => by
      rw [treeOfList, Tree.size.sizeList, fpr_size_treeOfContent c, fpr_sizeList_treeOfList cs, FContent.sizeList]
end

theorem fpr_size_treeOf (d : FDocument) : (treeOf d).size = d.size := by
  rw [treeOf, Tree.size, fpr_sizeList_treeOfList, FDocument.size]

/-- **Parsing INTO a store**: one new root with the handles `next, …, next + d.size - 1`, erasing to
    `treeOf d`; every other tree and the flags untouched; handles stay distinct and below `next`; the
    returned document node is the new root's handle. -/
theorem IdStore.fpr_parseInto_spec (s : IdStore) (d : FDocument) (hg : Good s.forest) :
    ∃ t : HTree,
      (s.parseInto (treeOf d)).1.forest =
        { s.forest with roots := s.forest.roots ++ [t], next := s.forest.next + d.size } ∧
      (s.parseInto (treeOf d)).2 = t.handle ∧ t.erase = treeOf d ∧
      Good { s.forest with roots := s.forest.roots ++ [t], next := s.forest.next + d.size } := by
  refine ⟨ofTree s.forest.next (treeOf d), ?_, ?_, fpr_erase_ofTree _ _, ?_⟩
  · show ({ s.forest with roots := _, next := s.forest.next + (treeOf d).size } : Forest) = _
    rw [fpr_size_treeOf]
  · rw [fpr_handle_ofTree]; rfl
  · refine hg.add_roots [_] _ (by simpa [handlesList] using fpr_nodup_handles_ofTree s.forest.next (treeOf d))
      ?_ (by omega)
    intro h hh
    simp only [handlesList, List.append_nil] at hh
    have := fpr_handles_ofTree s.forest.next (treeOf d) h hh
    rw [fpr_size_treeOf] at this
    exact this

end XotModel
