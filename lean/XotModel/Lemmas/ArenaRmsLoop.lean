/-
  XotModel.Lemmas.ArenaRmsLoop — the cursor loop of `NodeId::remove_subtree` on (an arena that has
  the tree pointers of) a well-formed arena: started at a node it frees exactly the node's
  subtree, in document order, and arrives at the node that follows the subtree.
-/
import XotModel.Lemmas.ArenaSubtree

namespace XotModel
namespace Arena

theorem Slot.ptrs_eq {s s' : Slot} (h : s'.ptrs = s.ptrs) :
    s'.parent = s.parent ∧ s'.prev = s.prev ∧ s'.next = s.next ∧ s'.first = s.first ∧ s'.last = s.last := by
  unfold Slot.ptrs at h
  simp only [Prod.mk.injEq] at h
  exact h

/-- What the loop does with the result of the climb. -/
def climbK (K : Arena → Option NodeId → Step Unit) (b2 : Arena) (r' : Option NodeId) : Step Unit :=
  match r' with
  | none => K b2 none
  | some n => rd b2 n fun s => K b2 s.next

/-- The climb `ancestors().skip(1).find(has next sibling).and_then(next sibling)`. -/
theorem Rep.climb {a b : Arena} {g : Shape} {fl F : List Nat} (r : Rep a g) (m : FreeMany a fl F b)
    (K : Arena → Option NodeId → Step Unit) :
    ∀ (q : Nat) (o : Option Nat), NextAfter g q o → Live a q → ∀ l, UpChain g.par q l → ∀ fuel, l.length < fuel →
      (findAncestorWithNext fuel b (some (a.idAt q))).bind (climbK K) = K b (o.map a.idAt) := by
  intro q o h
  induction h with
  | @sib c q' n L R hp hk =>
    intro hc l hl fuel hf
    obtain ⟨s, hs, h0⟩ := hc
    obtain ⟨s', hs', hpt⟩ := m.slot_of hs
    obtain ⟨_, _, hnx, _, _⟩ := Slot.ptrs_eq hpt
    obtain ⟨L1, R1, e1, _, e3⟩ := (r.ptrs c s hs h0).sib q' hp
    obtain ⟨_, hR⟩ := split_unique (by rw [← e1]; exact r.kidsNodup q') (e1.symm.trans hk)
    have hnext : s'.next = some (a.idAt n) := by rw [hnx, e3, hR]; rfl
    obtain ⟨f, rfl⟩ : ∃ f, fuel = f + 1 := ⟨fuel - 1, by omega⟩
    have hsb : b.slot (a.idAt c).index0 = some s' := by rw [idAt_index0]; exact hs'
    unfold findAncestorWithNext
    simp only []
    rw [rd_some _ _ _ _ hsb]
    simp only [hnext, Option.isSome_some, if_true, Step.bind_done, climbK]
    rw [rd_some _ _ _ _ hsb, hnext]
    rfl
  | @up c q' L o hp hk _ ih =>
    intro hc l hl fuel hf
    obtain ⟨s, hs, h0⟩ := hc
    obtain ⟨s', hs', hpt⟩ := m.slot_of hs
    obtain ⟨hpa, _, hnx, _, _⟩ := Slot.ptrs_eq hpt
    obtain ⟨L1, R1, e1, _, e3⟩ := (r.ptrs c s hs h0).sib q' hp
    obtain ⟨_, hR⟩ := split_unique (by rw [← e1]; exact r.kidsNodup q') (e1.symm.trans (by rw [hk]))
    have hnext : s'.next = none := by rw [hnx, e3, hR]; rfl
    have hparent : s'.parent = some (a.idAt q') := by rw [hpa, (r.ptrs c s hs h0).parent, hp]; rfl
    obtain ⟨f, rfl⟩ : ∃ f, fuel = f + 1 := ⟨fuel - 1, by omega⟩
    have hsb : b.slot (a.idAt c).index0 = some s' := by rw [idAt_index0]; exact hs'
    cases hl with
    | root hp' => rw [hp] at hp'; cases hp'
    | @step _ q'' l' hp' hl' =>
      rw [hp] at hp'; cases hp'
      unfold findAncestorWithNext
      simp only []
      rw [rd_some _ _ _ _ hsb]
      simp only [hnext, Option.isSome_none, Bool.false_eq_true, if_false, hparent]
      exact ih (r.live_of_par hp).2 l' hl' f (by simp at hf; omega)
  | @root c hp =>
    intro hc l hl fuel hf
    obtain ⟨s, hs, h0⟩ := hc
    obtain ⟨s', hs', hpt⟩ := m.slot_of hs
    obtain ⟨hpa, _, hnx, _, _⟩ := Slot.ptrs_eq hpt
    have hnext : s'.next = none := by rw [hnx]; exact ((r.ptrs c s hs h0).root hp).2
    have hparent : s'.parent = none := by rw [hpa, (r.ptrs c s hs h0).parent, hp]; rfl
    have hsb : b.slot (a.idAt c).index0 = some s' := by rw [idAt_index0]; exact hs'
    have hlen : l.length = 1 := by
      cases hl with
      | root _ => rfl
      | step hp' _ => rw [hp] at hp'; cases hp'
    obtain ⟨f, rfl⟩ : ∃ f, fuel = f + 2 := ⟨fuel - 2, by omega⟩
    unfold findAncestorWithNext
    simp only []
    rw [rd_some _ _ _ _ hsb]
    simp only [hnext, Option.isSome_none, Bool.false_eq_true, if_false, hparent]
    unfold findAncestorWithNext
    rfl

/-- Started at `c`, the loop frees the list `l` and arrives at the node after the subtree of `c`. -/
def SubtreeLoop (a : Arena) (g : Shape) (c : Nat) (l : List Nat) : Prop :=
  ∀ o, NextAfter g c o → ∀ (fl F : List Nat) (b : Arena) (fuel : Nat), FreeMany a fl F b → (∀ u ∈ l, u ∉ F) →
    l.length ≤ fuel →
    ∃ b', removeSubtreeLoop fuel b (some (a.idAt c)) = removeSubtreeLoop (fuel - l.length) b' (o.map a.idAt) ∧
      FreeMany a fl (F ++ l) b'

/-- The subtree of `c` as a list, and the loop over it. -/
def SubtreeOk (a : Arena) (g : Shape) (c : Nat) : Prop :=
  ∃ l, l.Nodup ∧ (∀ u, u ∈ l ↔ Reach g.par u c) ∧ SubtreeLoop a g c l

/-- The loop over the subtrees of a suffix of the children of `c`. -/
def KidsLoop (a : Arena) (g : Shape) (c : Nat) (suf L : List Nat) : Prop :=
  ∀ k rest, suf = k :: rest → ∀ o, NextAfter g c o → ∀ (fl F : List Nat) (b : Arena) (fuel : Nat),
    FreeMany a fl F b → (∀ u ∈ L, u ∉ F) → L.length ≤ fuel →
    ∃ b', removeSubtreeLoop fuel b (some (a.idAt k)) = removeSubtreeLoop (fuel - L.length) b' (o.map a.idAt) ∧
      FreeMany a fl (F ++ L) b'

theorem Rep.kidsSeq {a : Arena} {g : Shape} (r : Rep a g) (c : Nat) (hP : ∀ k ∈ g.kids c, SubtreeOk a g k) :
    ∀ (suf pre : List Nat), g.kids c = pre ++ suf →
      ∃ L, L.Nodup ∧ (∀ u, u ∈ L ↔ ∃ k ∈ suf, Reach g.par u k) ∧ KidsLoop a g c suf L := by
  intro suf
  induction suf with
  | nil =>
    intro pre _
    exact ⟨[], List.nodup_nil, by simp, by intro k rest h; cases h⟩
  | cons k rest ih =>
    intro pre hk
    have hkmem : k ∈ g.kids c := by rw [hk]; simp
    obtain ⟨lk, hlknd, hlkmem, hlkloop⟩ := hP k hkmem
    obtain ⟨L', hL'nd, hL'mem, hL'loop⟩ := ih (pre ++ [k]) (by rw [hk]; simp)
    have hnd : (pre ++ k :: rest).Nodup := by rw [← hk]; exact r.kidsNodup c
    have hkrest : k ∉ rest := (List.nodup_cons.mp (List.nodup_append.mp hnd).2.1).1
    have hdisj : ∀ u, u ∈ lk → u ∉ L' := by
      intro u h1 h2
      obtain ⟨k', hk', hr'⟩ := (hL'mem u).mp h2
      have hk'mem : k' ∈ g.kids c := by rw [hk]; exact List.mem_append_right _ (List.mem_cons_of_mem _ hk')
      have := r.child_unique hkmem hk'mem ((hlkmem u).mp h1) hr'
      subst this
      exact hkrest hk'
    refine ⟨lk ++ L', List.nodup_append.mpr ⟨hlknd, hL'nd, fun x hx y hy e => hdisj x hx (e ▸ hy)⟩, ?_, ?_⟩
    · intro u
      simp only [List.mem_append, List.mem_cons]
      constructor
      · rintro (h | h)
        · exact ⟨k, Or.inl rfl, (hlkmem u).mp h⟩
        · obtain ⟨k', hk', hr'⟩ := (hL'mem u).mp h
          exact ⟨k', Or.inr hk', hr'⟩
      · rintro ⟨k', hk' | hk', hr'⟩
        · subst hk'; exact Or.inl ((hlkmem u).mpr hr')
        · exact Or.inr ((hL'mem u).mpr ⟨k', hk', hr'⟩)
    · intro k0 rest0 hsuf o ho fl F b fuel m hF hlen
      cases hsuf
      have hpk := (r.kidsLive c k hkmem).2.2
      simp only [List.length_append] at hlen
      cases hrest : rest with
      | nil =>
        subst hrest
        have hL'nil : L' = [] := by
          apply List.eq_nil_iff_forall_not_mem.mpr
          intro u hu
          obtain ⟨k', hk', _⟩ := (hL'mem u).mp hu
          cases hk'
        subst hL'nil
        have hna : NextAfter g k o := .up hpk hk ho
        obtain ⟨b', e, m'⟩ := hlkloop o hna fl F b fuel m (fun u hu => hF u (List.mem_append_left _ hu)) (by omega)
        exact ⟨b', by simpa using e, by simpa using m'⟩
      | cons k' rest' =>
        subst hrest
        have hna : NextAfter g k (some k') := .sib hpk hk
        obtain ⟨b1, e1, m1⟩ := hlkloop (some k') hna fl F b fuel m (fun u hu => hF u (List.mem_append_left _ hu)) (by omega)
        obtain ⟨b2, e2, m2⟩ := hL'loop k' rest' rfl o ho fl (F ++ lk) b1 (fuel - lk.length) m1 (by
          intro u hu hm
          rcases List.mem_append.mp hm with h | h
          · exact hF u (List.mem_append_right _ hu) h
          · exact hdisj u h hu) (by omega)
        refine ⟨b2, ?_, by rw [← List.append_assoc]; exact m2⟩
        rw [e1]
        simp only [Option.map_some] at e2 ⊢
        rw [e2]
        congr 1
        simp only [List.length_append]
        omega

end Arena
end XotModel
