/-
  Decoding facts about `serTokens` (no side condition): the value of every attribute token
  (namespace declarations included) is `serialize_attribute` of a string and decodes back to it,
  every text token is `serialize_text` of a string and decodes back to it.
-/
import XotModel.Lemmas.SerTokensLexOK

namespace XotModel

variable (env : Env)

/-- The escaped content of a token decodes (`parse_content`) to the string it was made from. -/
def Token.Decodes : Token → Prop
  | .attribute _ _ v _ => ∃ x, v.text = serializeAttribute x ∧ parseAttribute v.text = .ok x
  | .text tx => ∃ x, tx.text = serializeText false x ∧ parseText tx.text = .ok x
  | _ => True

theorem attr_roundtrip (s : Str) : parseAttribute (serializeAttribute s) = .ok s :=
  parse_escape_roundtrip true _ (by decide) (by decide) s 0 0

theorem text_roundtrip (s : Str) : parseText (serializeText false s) = .ok s := by
  unfold parseText parseContent
  rw [serializeText_false_eq]
  exact parse_escape_roundtrip false _ (by decide) (by decide) s 0 0

theorem declTokens_decodes (d : Nat × Nat) : ∀ k ∈ declTokens env d, k.Decodes := by
  intro k hk
  unfold declTokens at hk
  split at hk
  · cases hk
  · split at hk <;>
      (simp only [List.mem_singleton] at hk; subst hk
       exact ⟨env.namespaceStr d.2, rfl, attr_roundtrip _⟩)

theorem attrTokens_decodes (s : FStack) :
    ∀ (as : List (Nat × Str)) (ts : List Token), attrTokens env s as = .ok ts → ∀ k ∈ ts, k.Decodes
  | [], ts, h => by
    simp only [attrTokens, Except.ok.injEq] at h
    subst h
    intro k hk; cases hk
  | (name, v) :: rest, ts, h => by
    obtain ⟨p, ts', _, hr, rfl⟩ := attrTokens_cons_ok env h
    intro k hk
    rcases List.mem_cons.mp hk with rfl | hk
    · exact ⟨v, rfl, attr_roundtrip v⟩
    · exact attrTokens_decodes s rest ts' hr k hk

mutual
theorem serNode_decodes (inScope : List (Nat × Nat)) (isTop : Bool) (n : Tree) (s : FStack)
    (ts : List Token) (h : serNode env false inScope isTop s n = .ok ts) : ∀ k ∈ ts, k.Decodes := by
  cases n with
  | node v ks =>
    cases v with
    | document =>
      simp only [serNode] at h
      exact serKids_decodes inScope ks s ts h
    | «attribute» a b =>
      simp only [serNode] at h
      exact serKids_decodes inScope ks s ts h
    | «namespace» a b =>
      simp only [serNode] at h
      exact serKids_decodes inScope ks s ts h
    | text str =>
      rw [serNode] at h
      obtain ⟨x, y, hx, hy, rfl⟩ := appendOk_ok h
      cases hx
      intro k hk
      rcases List.mem_append.mp hk with hk | hk
      · simp only [List.mem_singleton] at hk
        subst hk
        exact ⟨str, rfl, text_roundtrip str⟩
      · exact serKids_decodes inScope ks s y hy k hk
    | comment str =>
      rw [serNode] at h
      obtain ⟨x, y, hx, hy, rfl⟩ := appendOk_ok h
      cases hx
      intro k hk
      rcases List.mem_append.mp hk with hk | hk
      · simp only [List.mem_singleton] at hk
        subst hk
        trivial
      · exact serKids_decodes inScope ks s y hy k hk
    | pi target data =>
      rw [serNode] at h
      split at h
      · cases h
      · obtain ⟨x, y, hx, hy, rfl⟩ := appendOk_ok h
        cases hx
        intro k hk
        rcases List.mem_append.mp hk with hk | hk
        · simp only [List.mem_singleton] at hk
          subst hk
          trivial
        · exact serKids_decodes inScope ks s y hy k hk
    | element name =>
      obtain ⟨p, ats, content, _, _, ha, hk, rfl⟩ := serNode_element_ok env h
      intro k hk'
      rcases mem_elementTokens hk' with rfl | hd | hat | rfl | rfl | hc | rfl
      · trivial
      · obtain ⟨d, _, hd2⟩ := List.mem_flatMap.mp hd
        exact declTokens_decodes env d k hd2
      · exact attrTokens_decodes env _ _ ats ha k hat
      · trivial
      · trivial
      · exact serKids_decodes inScope ks _ content hk k hc
      · trivial

theorem serKids_decodes (inScope : List (Nat × Nat)) (ks : List Tree) (s : FStack) (ts : List Token)
    (h : serNode.serKids env false inScope s ks = .ok ts) : ∀ k ∈ ts, k.Decodes := by
  cases ks with
  | nil =>
    simp only [serNode.serKids, Except.ok.injEq] at h
    subst h
    intro k hk; cases hk
  | cons k ks =>
    obtain ⟨x, y, hx, hy, rfl⟩ := serKids_cons_ok env h
    intro tok htok
    rcases List.mem_append.mp htok with htok | htok
    · exact serNode_decodes inScope false k s x hx tok htok
    · exact serKids_decodes inScope ks s y hy tok htok
end

theorem serTokensTop_decodes (t : Tree) (ts : List Token) (h : serTokensTop env t = .ok ts) :
    ∀ k ∈ ts, k.Decodes := by
  unfold serTokensTop serTokensAt at h
  split at h
  · exact serNode_decodes env _ true _ _ ts h
  · simp only [Except.ok.injEq] at h
    subst h
    intro k hk; cases hk

end XotModel
