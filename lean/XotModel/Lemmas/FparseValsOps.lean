/-
  FparseVals, part 2: VALUE PROVENANCE for every operation of the forest model (Model/Manip.lean, Manip2.lean).

  `fpvQF Q` (every node's value satisfies `Q`) is kept by every operation, given
    * `fpvQCat Q`: `Q` is closed under concatenation of text values (text consolidation),
    * `Q` of the values the call is handed (the new value of a setter, the entry of a map insertion, the
      name of a wrapper element),
  and nothing else — except `text_content_mut(node).set(s)` on an element without normal children, which
  goes through an EMPTY text node (`new_text("")`, appended, then set): there the forest invariant is used
  (`textContentSet_new`, Lemmas/FspecSet2.lean) to know that it is that very node that receives `s`.
  (Port of Lemmas/FinvMono2.lean from handles to values.)
-/
import XotModel.Lemmas.FparseValsBase
import XotModel.Lemmas.FspecSet2

namespace XotModel
open HTree

/-- `Q` is closed under concatenation of text values. -/
def fpvQCat (Q : Value → Prop) : Prop := ∀ a b, Q (.text a) → Q (.text b) → Q (.text (a ++ b))

namespace Forest

variable {Q : Value → Prop}

theorem fpv_merge {f : Forest} (hq : fpvQF Q f) (p n : Nat) {v : Value} (hv : Q v) :
    fpvQF Q ((f.setValue p v).spliceOut n) := fpv_spliceOut (fpv_setValue hq p hv) n

theorem fpv_removeConsolidate (hc : fpvQCat Q) {f : Forest} (hq : fpvQF Q f) (prev next : Option Nat) :
    fpvQF Q (f.removeConsolidate prev next).1 := by
  unfold removeConsolidate
  split
  · exact hq
  · split
    · rename_i p n
      cases hp : f.textOf p with
      | none => exact hq
      | some ps =>
        cases hn : f.textOf n with
        | none => exact hq
        | some ns => exact fpv_merge hq _ _ (hc _ _ (fpv_textOf hq hp) (fpv_textOf hq hn))
    · exact hq

theorem fpv_addConsolidate (hc : fpvQCat Q) {f : Forest} (hq : fpvQF Q f) (node : Nat) (prev next : Option Nat) :
    fpvQF Q (f.addConsolidate node prev next).1 := by
  rw [addConsolidate_eq_old]
  generalize f.selfPrev node prev = prev
  generalize f.selfNext node next = next
  unfold addConsolidateOld
  split
  · exact hq
  · cases ha : f.textOf node with
    | none => exact hq
    | some added =>
      have hA := fpv_textOf hq ha
      have viaNext : fpvQF Q (match next with
          | some n => (match f.textOf n with
              | some ns => ((f.setValue n (.text (added ++ ns))).spliceOut node, true)
              | none => (f, false))
          | none => (f, false)).1 := by
        cases next with
        | none => exact hq
        | some n =>
          simp only
          cases hn : f.textOf n with
          | none => exact hq
          | some ns => exact fpv_merge hq _ _ (hc _ _ hA (fpv_textOf hq hn))
      cases prev with
      | some p =>
        simp only
        cases hp : f.textOf p with
        | some ps => exact fpv_merge hq _ _ (hc _ _ (fpv_textOf hq hp) hA)
        | none => exact viaNext
      | none => exact viaNext

theorem fpv_res {g : Forest} {b : Bool} {r1 r2 : Res} (h : fpvQF Q g) :
    fpvQF Q (if b = true then (g, r1) else (g, r2)).1 := by split <;> exact h

theorem fpv_append (hc : fpvQCat Q) {f : Forest} (hq : fpvQF Q f) (p c : Nat) : fpvQF Q (f.append p c).1 := by
  unfold append
  split
  · exact hq
  split
  · exact hq
  have h1 := fpv_removeConsolidate hc hq (f.prevSibling c) (f.nextSibling c)
  cases hr : f.removeConsolidate (f.prevSibling c) (f.nextSibling c) with
  | mk f1 b1 =>
    rw [hr] at h1
    simp only
    have h2 := fpv_addConsolidate hc h1 c (f1.lastChild p) none
    cases ha : f1.addConsolidate c (f1.lastChild p) none with
    | mk f2 cc =>
      rw [ha] at h2
      simp only
      split
      · exact h2
      · have h3 := (fpv_checked h2 p c).1
        cases hcx : f2.checkedAppend p c with
        | mk f3 okb =>
          rw [hcx] at h3
          exact fpv_res h3

theorem fpv_mapPlace {f : Forest} (hq : fpvQF Q f) (k : MapKind) (parent node : Nat) :
    fpvQF Q (f.mapPlace k parent node).1 := by
  unfold mapPlace
  cases f.mapInsertionPoint k parent with
  | some ip =>
    simp only
    have := (fpv_checked hq ip node).2.2.1
    cases hcx : f.checkedInsertAfter ip node with
    | mk f' okb => rw [hcx] at this; exact fpv_res this
  | none =>
    simp only
    have := (fpv_checked hq parent node).2.1
    cases hcx : f.checkedPrepend parent node with
    | mk f' okb => rw [hcx] at this; exact fpv_res this

theorem fpv_prepend (hc : fpvQCat Q) {f : Forest} (hq : fpvQF Q f) (p c : Nat) : fpvQF Q (f.prepend p c).1 := by
  unfold prepend
  split
  · exact hq
  split
  · exact hq
  have h1 := fpv_removeConsolidate hc hq (f.prevSibling c) (f.nextSibling c)
  cases hr : f.removeConsolidate (f.prevSibling c) (f.nextSibling c) with
  | mk f1 b1 =>
    rw [hr] at h1
    simp only
    have h2 := fpv_addConsolidate hc h1 c none (f1.firstChild p)
    cases ha : f1.addConsolidate c none (f1.firstChild p) with
    | mk f2 cc =>
      rw [ha] at h2
      simp only
      split
      · exact h2
      · cases f2.prependPoint p with
        | some ip =>
          simp only
          have h3 := (fpv_checked h2 ip c).2.2.1
          cases hcx : f2.checkedInsertAfter ip c with
          | mk f3 okb => rw [hcx] at h3; exact fpv_res h3
        | none =>
          simp only
          have h3 := (fpv_checked h2 p c).2.1
          cases hcx : f2.checkedPrepend p c with
          | mk f3 okb => rw [hcx] at h3; exact fpv_res h3

theorem fpv_insertAfter (hc : fpvQCat Q) {f : Forest} (hq : fpvQF Q f) (ref c : Nat) :
    fpvQF Q (f.insertAfter ref c).1 := by
  unfold insertAfter
  split
  · exact hq
  split
  · exact hq
  split
  · exact hq
  have h1 := fpv_removeConsolidate hc hq (f.prevSibling c) (f.nextSibling c)
  cases hr : f.removeConsolidate (f.prevSibling c) (f.nextSibling c) with
  | mk f1 b1 =>
    rw [hr] at h1
    simp only [hr]
    generalize (if (b1 && f.nextSibling c == some ref) = true then (f.prevSibling c).getD ref else ref) = ref'
    have h2 := fpv_addConsolidate hc h1 c (some ref') (f1.nextSibling ref')
    cases ha : f1.addConsolidate c (some ref') (f1.nextSibling ref') with
    | mk f2 cc =>
      rw [ha] at h2
      try simp only
      split
      · exact h2
      · have h3 := (fpv_checked h2 ref' c).2.2.1
        cases hcx : f2.checkedInsertAfter ref' c with
        | mk f3 okb => rw [hcx] at h3; exact fpv_res h3

theorem fpv_insertBefore (hc : fpvQCat Q) {f : Forest} (hq : fpvQF Q f) (ref c : Nat) :
    fpvQF Q (f.insertBefore ref c).1 := by
  unfold insertBefore
  split
  · exact hq
  split
  · exact hq
  split
  · exact hq
  have h1 := fpv_removeConsolidate hc hq (f.prevSibling c) (f.nextSibling c)
  cases hr : f.removeConsolidate (f.prevSibling c) (f.nextSibling c) with
  | mk f1 b1 =>
    rw [hr] at h1
    simp only
    have h2 := fpv_addConsolidate hc h1 c (f1.prevSibling ref) (some ref)
    cases ha : f1.addConsolidate c (f1.prevSibling ref) (some ref) with
    | mk f2 cc =>
      rw [ha] at h2
      simp only
      split
      · exact h2
      · have h3 := (fpv_checked h2 ref c).2.2.2
        cases hcx : f2.checkedInsertBefore ref c with
        | mk f3 okb => rw [hcx] at h3; exact fpv_res h3

theorem fpv_detach (hc : fpvQCat Q) {f : Forest} (hq : fpvQF Q f) (node : Nat) : fpvQF Q (f.detach node).1 :=
  fpv_removeConsolidate hc (fpv_detachRaw hq node) _ _

theorem fpv_remove (hc : fpvQCat Q) {f : Forest} (hq : fpvQF Q f) (node : Nat) : fpvQF Q (f.remove node).1 :=
  fpv_removeConsolidate hc (fpv_dropSubtree hq node) _ _

theorem fpv_foldl_remove (hc : fpvQCat Q) {α : Type} (g : α → Nat) (xs : List α) {f : Forest} (hq : fpvQF Q f) :
    fpvQF Q (xs.foldl (fun acc c => (acc.remove (g c)).1) f) := by
  induction xs generalizing f with
  | nil => exact hq
  | cons x xs ih => exact ih (fpv_remove hc hq (g x))

/-- An update of an entry by an entry with the same key is the new entry (same kind) or the old one. -/
theorem fpv_entryUpdate {old new : Value} (hk : entryKey old = entryKey new) :
    entryUpdate old new = new ∨ entryUpdate old new = old := by
  cases old <;> cases new <;> simp_all [entryUpdate, entryKey]

theorem fpv_mapGetNode_key {f : Forest} {k : MapKind} {parent key : Nat} {n : HTree}
    (h : f.mapGetNode k parent key = some n) : entryKey n.value = key := by
  unfold mapGetNode at h
  cases hg : f.get? parent with
  | none => rw [hg] at h; cases h
  | some t =>
    rw [hg] at h
    have := List.find?_some h
    simpa using this

theorem fpv_mapGetNode_Q {f : Forest} (hq : fpvQF Q f) {k : MapKind} {parent key : Nat} {n : HTree}
    (h : f.mapGetNode k parent key = some n) : Q n.value := by
  unfold mapGetNode at h
  cases hg : f.get? parent with
  | none => rw [hg] at h; cases h
  | some t =>
    rw [hg] at h
    have hm := List.mem_of_find?_eq_some h
    have hk : n ∈ t.kids := by
      cases k with
      | namespaces => exact (List.takeWhile_sublist _).subset (by simpa [mapChildren] using hm)
      | attributes =>
        have : n ∈ (t.kids.dropWhile (fun c => c.value.category == .namespace)) :=
          (List.takeWhile_sublist _).subset (by simpa [mapChildren] using hm)
        exact (List.dropWhile_sublist _).subset this
    exact fpv_QT_value (fpv_QL_mem (fpv_QT_kids (fpv_get? hq hg)) hk)

theorem fpv_mapInsert {f : Forest} (hq : fpvQF Q f) (k : MapKind) (parent : Nat) {entry : Value} (hv : Q entry) :
    fpvQF Q (f.mapInsert k parent entry).1 := by
  unfold mapInsert
  split
  · exact hq
  · cases hm : f.mapGetNode k parent (entryKey entry) with
    | some n =>
      simp only
      refine fpv_setValue hq _ ?_
      rcases fpv_entryUpdate (fpv_mapGetNode_key hm) with h | h
      · rw [h]; exact hv
      · rw [h]; exact fpv_mapGetNode_Q hq hm
    | none => exact fpv_mapPlace (fpv_newNode hq hv) k parent _

theorem fpv_mapInsertNode {f : Forest} (hq : fpvQF Q f) (k : MapKind) (parent node : Nat) :
    fpvQF Q (f.mapInsertNode k parent node).1 := by
  unfold mapInsertNode
  cases hv : f.value? node with
  | none => exact hq
  | some v =>
    simp only
    split
    · exact hq
    · cases hm : f.mapGetNode k parent (entryKey v) with
      | some e =>
        simp only
        refine fpv_setValue hq _ ?_
        rcases fpv_entryUpdate (fpv_mapGetNode_key hm) with h | h
        · rw [h]; exact fpv_value? hq hv
        · rw [h]; exact fpv_mapGetNode_Q hq hm
      | none => exact fpv_mapPlace hq k parent node

theorem fpv_mapRemove (hc : fpvQCat Q) {f : Forest} (hq : fpvQF Q f) (k : MapKind) (parent key : Nat) :
    fpvQF Q (f.mapRemove k parent key).1 := by
  unfold mapRemove
  split
  · exact hq
  · cases f.mapGetNode k parent key with
    | some n => exact fpv_remove hc hq _
    | none => exact hq

theorem fpv_mapClear (hc : fpvQCat Q) {f : Forest} (hq : fpvQF Q f) (k : MapKind) (parent : Nat) :
    fpvQF Q (f.mapClear k parent).1 := by
  unfold mapClear
  split
  · exact hq
  · cases f.get? parent with
    | none => exact hq
    | some t => exact fpv_foldl_remove hc (fun c : HTree => c.handle) _ hq

theorem fpv_appendEntryNode {f : Forest} (hq : fpvQF Q f) (k : MapKind) (parent child : Nat) :
    fpvQF Q (f.appendEntryNode k parent child).1 := by
  unfold appendEntryNode
  split
  · exact hq
  · cases f.value? child with
    | none => exact hq
    | some v =>
      simp only
      split
      · exact hq
      · exact fpv_mapInsertNode hq k parent child

theorem fpv_anyAppend (hc : fpvQCat Q) {f : Forest} (hq : fpvQF Q f) (parent child : Nat) :
    fpvQF Q (f.anyAppend parent child).1 := by
  unfold anyAppend
  split
  · exact fpv_appendEntryNode hq _ _ _
  · exact fpv_appendEntryNode hq _ _ _
  · exact fpv_append hc hq _ _

theorem fpv_setElementName {f : Forest} (hq : fpvQF Q f) (node : Nat) {name : Nat} (hv : Q (.element name)) :
    fpvQF Q (f.setElementName node name).1 := by
  unfold setElementName; split
  · exact fpv_setValue hq _ hv
  · exact hq

theorem fpv_setText {f : Forest} (hq : fpvQF Q f) (node : Nat) {s : Str} (hv : Q (.text s)) :
    fpvQF Q (f.setText node s).1 := by
  unfold setText; split
  · exact fpv_setValue hq _ hv
  · exact hq

theorem fpv_setComment {f : Forest} (hq : fpvQF Q f) (node : Nat) {s : Str} (hv : Q (.comment s)) :
    fpvQF Q (f.setComment node s).1 := by
  unfold setComment; split
  · split
    · exact hq
    · exact fpv_setValue hq _ hv
  · exact hq

/-- `set_data(d)`: the target stays, so the condition on `d` is relative to the PI's own value. -/
theorem fpv_setPiData {f : Forest} (hq : fpvQF Q f) (node : Nat) (d : Option Str)
    (hv : ∀ t d0, Q (.pi t d0) → Q (.pi t (match d with | some [] => none | x => x))) :
    fpvQF Q (f.setPiData node d).1 := by
  unfold setPiData
  cases hval : f.value? node with
  | none => exact hq
  | some v =>
    cases v with
    | pi t d0 => exact fpv_setValue hq _ (hv t d0 (fpv_value? hq hval))
    | _ => exact hq

theorem fpv_setConsolidation {f : Forest} (hq : fpvQF Q f) (b : Bool) : fpvQF Q (f.setConsolidation b) := hq

/-- `text_content_mut(node).set(s)`.  On an element without normal children the call goes through an
    empty text node; the invariant says it is that node which receives `s`. -/
theorem fpv_textContentSet (hc : fpvQCat Q) {f : Forest} (hi : f.Inv) (hq : fpvQF Q f) (node : Nat) {s : Str}
    (hv : Q (.text s)) : fpvQF Q (f.textContentSet node s).1 := by
  cases hfc : f.firstChild node with
  | some c =>
    unfold textContentSet
    rw [hfc]
    simp only
    split
    · exact hq
    · split
      · exact fpv_setValue hq _ hv
      · exact hq
  | none =>
    cases he : f.isElement node with
    | false =>
      unfold textContentSet
      rw [hfc]
      simp only [he]
      exact hq
    | true =>
      obtain ⟨nm, L, hg⟩ := get_element_of_isElement he
      have hnode : (HTree.node node (.element nm) L).handle = node := rfl
      rw [textContentSet_new hi s hg hfc]
      have := (fpv_place hq (t := .node f.next (.text s) []) (fpv_QT_node.mpr ⟨hv, fpv_QL_nil⟩) node).2.2.1
      exact this

theorem fpv_removeInsignificantWhitespace (hc : fpvQCat Q) {f : Forest} (hq : fpvQF Q f) (node : Nat) :
    fpvQF Q (f.removeInsignificantWhitespace node) := by
  unfold removeInsignificantWhitespace
  cases f.get? node with
  | none => exact hq
  | some t =>
    simp only
    have h0 : fpvQF Q ({ f with consolidation := false } : Forest) := hq
    exact fpv_foldl_remove hc (fun n : Nat => n)
      ((descendantsNormal t).filter f.isInsignificantWhitespace) h0

theorem fpv_replace (hc : fpvQCat Q) {f : Forest} (hq : fpvQF Q f) (a b : Nat) : fpvQF Q (f.replace a b).1 := by
  unfold replace
  split
  · exact hq
  cases f.parent? a with
  | none => exact hq
  | some parent =>
    simp only
    split
    · exact hq
    split
    · exact hq
    split
    · exact hq
    split
    · exact fpv_remove hc hq a
    · have h1 := fpv_dropSubtree hq a
      cases f.prevSibling a with
      | none => exact fpv_prepend hc h1 parent b
      | some p =>
        simp only
        have h2 := fpv_insertAfter hc h1 p b
        cases hi : (f.dropSubtree a).insertAfter p b with
        | mk f2 r =>
          rw [hi] at h2
          simp only
          cases r with
          | ok =>
            cases f.nextSibling a with
            | none => exact h2
            | some n => exact fpv_removeConsolidate hc h2 _ _
          | err e => exact h2
          | panic => exact h2

theorem fpv_elementWrap (hc : fpvQCat Q) {f : Forest} (hq : fpvQF Q f) (node : Nat) {name : Nat}
    (hv : Q (.element name)) : fpvQF Q (f.elementWrap node name).1 := by
  unfold elementWrap
  split
  · exact hq
  split
  · exact hq
  split
  · exact hq
  cases f.parent? node with
  | some parent =>
    simp only
    have h1 : fpvQF Q (f.newElement name).1 := fpv_newNode hq hv
    cases hn : f.newElement name with
    | mk f1 wrapper =>
      rw [hn] at h1
      simp only
      have h2 := fpv_detachRaw h1 node
      have h3 := fpv_append hc h2 wrapper node
      cases ha : (f1.detachRaw node).append wrapper node with
      | mk f3 r3 =>
        rw [ha] at h3
        simp only
        cases r3 with
        | ok =>
          simp only
          cases f.prevSibling node with
          | some p => exact fpv_insertAfter hc h3 p wrapper
          | none => exact fpv_prepend hc h3 parent wrapper
        | err e => exact h3
        | panic => exact h3
  | none =>
    simp only
    have h1 : fpvQF Q (f.newElement name).1 := fpv_newNode hq hv
    cases hn : f.newElement name with
    | mk f1 wrapper =>
      rw [hn] at h1
      simp only
      exact fpv_append hc h1 wrapper node

theorem fpv_foldl_spliceOut (xs : List HTree) {f : Forest} (hq : fpvQF Q f) :
    fpvQF Q (xs.foldl (fun acc k => acc.spliceOut k.handle) f) := by
  induction xs generalizing f with
  | nil => exact hq
  | cons x xs ih => exact ih (fpv_spliceOut hq x.handle)

theorem fpv_removeElement {f : Forest} (hq : fpvQF Q f) (node : Nat) : fpvQF Q (f.removeElement node) := by
  unfold removeElement
  cases f.get? node with
  | none => exact hq
  | some t => exact fpv_spliceOut (fpv_foldl_spliceOut _ hq) node

theorem fpv_elementUnwrap (hc : fpvQCat Q) {f : Forest} (hq : fpvQF Q f) (node : Nat) :
    fpvQF Q (f.elementUnwrap node).1 := by
  unfold elementUnwrap
  split
  · exact hq
  cases f.firstChild node with
  | none => exact fpv_remove hc hq node
  | some first =>
    simp only
    split
    · exact hq
    cases f.lastChild node with
    | none => exact hq
    | some last =>
      simp only
      have h1 := fpv_removeElement hq node
      have h2 := fpv_removeConsolidate hc h1 ((f.removeElement node).prevSibling first) (some first)
      cases hr : (f.removeElement node).removeConsolidate ((f.removeElement node).prevSibling first) (some first) with
      | mk f2 c =>
        rw [hr] at h2
        simp only
        split
        · split
          · exact fpv_removeConsolidate hc h2 _ _
          · exact fpv_removeConsolidate hc h2 _ _
        · exact fpv_removeConsolidate hc h2 _ _

theorem fpv_clone_step (hc : fpvQCat Q) {f f2 : Forest} (hq : fpvQF Q f) {v : Value} (hv : Q v) {current : Nat} {r : Res}
    {n : Nat} (heq : (f.newNode v).1.anyAppend current (f.newNode v).2 = (f2, r, n)) : fpvQF Q f2 := by
  have h2 := fpv_anyAppend hc (fpv_newNode hq hv) current (f.newNode v).2
  rw [heq] at h2
  exact h2

mutual
  theorem fpv_cloneInto (hc : fpvQCat Q) (current : Nat) : ∀ (t : HTree) (f f' : Forest), fpvQT Q t → fpvQF Q f →
      cloneInto f current t = some f' → fpvQF Q f'
    | .node h v ks, f, f' => by
      intro ht hq hcl
      obtain ⟨hv, hks⟩ := fpv_QT_node.mp ht
      unfold cloneInto at hcl
      cases v with
      | document => exact fpv_cloneKids hc current ks f f' hks hq hcl
      | _ =>
        simp only at hcl
        split at hcl
        · rename_i f2 _ heq
          exact fpv_cloneKids hc _ ks f2 f' hks (fpv_clone_step hc hq hv heq) hcl
        · cases hcl
  theorem fpv_cloneKids (hc : fpvQCat Q) (current : Nat) : ∀ (ks : List HTree) (f f' : Forest), fpvQL Q ks → fpvQF Q f →
      cloneKids f current ks = some f' → fpvQF Q f'
    | [], f, f' => by
      intro _ hq hcl; rw [cloneKids] at hcl; cases hcl; exact hq
    | k :: ks, f, f' => by
      intro hks hq hcl
      obtain ⟨h1, h2⟩ := fpv_QL_cons.mp hks
      rw [cloneKids] at hcl
      split at hcl
      · rename_i f1 heq
        exact fpv_cloneKids hc current ks f1 f' h2 (fpv_cloneInto hc current k f f1 h1 hq heq) hcl
      · cases hcl
end

theorem fpv_cloneNode (hc : fpvQCat Q) {f : Forest} (hq : fpvQF Q f) (node : Nat) : fpvQF Q (f.cloneNode node).1 := by
  unfold cloneNode
  cases hg : f.get? node with
  | none => exact hq
  | some src =>
    have hsrc := fpv_get? hq hg
    simp only
    split
    · rename_i hval
      have hd : Q Value.document := hval ▸ fpv_QT_value hsrc
      have h1 : fpvQF Q f.newDocument.1 := fpv_newNode hq hd
      cases hn : f.newDocument with
      | mk f1 top =>
        rw [hn] at h1
        simp only
        cases hcl : cloneKids f1 top src.kids with
        | some f2 => exact fpv_cloneKids hc top _ f1 f2 (fpv_QT_kids hsrc) h1 hcl
        | none => exact h1
    · rename_i name hval
      have hd : Q (Value.element name) := hval ▸ fpv_QT_value hsrc
      have h1 : fpvQF Q (f.newElement name).1 := fpv_newNode hq hd
      cases hn : f.newElement name with
      | mk f1 top =>
        rw [hn] at h1
        simp only
        cases hcl : cloneInto f1 top src with
        | some f2 =>
          simp only
          have h2 := fpv_cloneInto hc top src f1 f2 hsrc h1 hcl
          cases f2.firstChild top with
          | some c => exact fpv_spliceOut h2 top
          | none => exact h2
        | none => exact h1
    · exact fpv_newNode hq (fpv_QT_value hsrc)

end Forest
end XotModel
