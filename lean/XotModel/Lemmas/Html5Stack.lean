/-
  The name stack along an HTML serialisation (C19_unprefixed_end): the events of one subtree
  leave the stack as they found it, except that bindings of the empty prefix may have been
  appended to the top frame (`add_empty_prefix`).  Hence the default binding an element sees at
  its start tag is still there at its end tag.
-/
import XotModel.Lemmas.Events
import XotModel.Model.Html5

namespace XotModel
open Gen

/-- Final state and rendered tokens of a run in which every `render_output` succeeds. -/
def runHtml (c : HtmlCtx) (t : Tree) :
    FStack → List (Path × Output) → Option (FStack × List (Path × Output × OutputToken))
  | s, [] => some (s, [])
  | s, (p, o) :: rest =>
    match renderHtmlAt c t s p o with
    | .ok (s', tok) =>
      (match runHtml c t s' rest with
       | some (sf, l) => some (sf, (p, o, tok) :: l)
       | none => none)
    | _ => none

theorem runHtml_append (c : HtmlCtx) (t : Tree) (a b : List (Path × Output)) :
    ∀ s, runHtml c t s (a ++ b) =
      (runHtml c t s a).bind (fun r1 => (runHtml c t r1.1 b).map (fun r2 => (r2.1, r1.2 ++ r2.2))) := by
  induction a with
  | nil => intro s; simp [runHtml]
  | cons po a ih =>
    intro s
    obtain ⟨p, o⟩ := po
    simp only [List.cons_append, runHtml]
    cases hr : renderHtmlAt c t s p o with
    | ok v =>
      obtain ⟨s', tok⟩ := v
      simp only [ih s']
      cases h1 : runHtml c t s' a with
      | none => simp
      | some r1 =>
        obtain ⟨s1, l1⟩ := r1
        simp only [Option.bind_some]
        cases h2 : runHtml c t s1 b with
        | none => simp
        | some r2 => simp
    | err e => simp
    | panic => simp

theorem renderHtmlAll_run (c : HtmlCtx) (t : Tree) (outs : List (Path × Output)) :
    ∀ s l, renderHtmlAll c t s outs = .ok l → ∃ sf, runHtml c t s outs = some (sf, l) := by
  induction outs with
  | nil =>
    intro s l h
    simp only [renderHtmlAll, Outcome.ok.injEq] at h
    subst h; exact ⟨s, rfl⟩
  | cons po rest ih =>
    intro s l h
    obtain ⟨p, o⟩ := po
    simp only [renderHtmlAll] at h
    simp only [runHtml]
    cases hr : renderHtmlAt c t s p o with
    | ok v =>
      obtain ⟨s', tok⟩ := v
      rw [hr] at h
      simp only at h ⊢
      cases hrest : renderHtmlAll c t s' rest with
      | ok l' =>
        rw [hrest] at h
        simp only [Outcome.ok.injEq] at h
        subst h
        obtain ⟨sf, hsf⟩ := ih s' l' hrest
        exact ⟨sf, by rw [hsf]⟩
      | err e => rw [hrest] at h; cases h
      | panic => rw [hrest] at h; cases h
    | err e => rw [hr] at h; cases h
    | panic => rw [hr] at h; cases h

/-! ### Growth of the top frame -/

/-- `s'` is `s` with bindings of the empty prefix appended to the top frame. -/
def Grow (s s' : FStack) : Prop :=
  ∃ top extra rest, s = top :: rest ∧ s' = (top ++ extra) :: rest ∧ ∀ x ∈ extra, x.1 = Env.emptyPrefix

theorem Grow.refl {s : FStack} (h : s ≠ []) : Grow s s := by
  cases s with
  | nil => exact absurd rfl h
  | cons top rest => exact ⟨top, [], rest, rfl, by simp, by simp⟩

theorem Grow.trans {a b d : FStack} (h1 : Grow a b) (h2 : Grow b d) : Grow a d := by
  obtain ⟨top, e1, rest, rfl, rfl, he1⟩ := h1
  obtain ⟨top2, e2, rest2, hb, rfl, he2⟩ := h2
  simp only [List.cons.injEq] at hb
  obtain ⟨rfl, rfl⟩ := hb
  refine ⟨top, e1 ++ e2, rest, rfl, by simp, ?_⟩
  intro x hx
  rcases List.mem_append.mp hx with h | h
  · exact he1 x h
  · exact he2 x h

theorem Grow.ne_nil {s s' : FStack} (h : Grow s s') : s' ≠ [] := by
  obtain ⟨_, _, _, _, rfl, _⟩ := h; simp

theorem Grow.tail {s s' : FStack} (h : Grow s s') : s'.tail = s.tail := by
  obtain ⟨_, _, _, rfl, rfl, _⟩ := h; rfl

/-- `has_empty_prefix(ns)`: the top frame binds the empty prefix to `ns`. -/
theorem hasEmptyPrefix_iff (s : FStack) (ns : Nat) :
    s.hasEmptyPrefix ns = true ↔ (Env.emptyPrefix, ns) ∈ s.top := by
  unfold FStack.hasEmptyPrefix elementPrefixByNamespace prefixesByNamespace
  constructor
  · intro h
    split at h
    · rename_i hany
      simp only [List.any_eq_true, List.mem_map, List.mem_filter, List.mem_reverse, beq_iff_eq] at hany
      obtain ⟨p, ⟨⟨q, n⟩, ⟨hmem, hn⟩, hq⟩, hp⟩ := hany
      simp only at hn hq
      subst hn; subst hq; subst hp; exact hmem
    · rename_i hany
      simp only [beq_iff_eq] at h
      exfalso; apply hany
      have hm := List.mem_of_mem_head? h
      simp only [List.any_eq_true, beq_iff_eq]
      exact ⟨_, hm, rfl⟩
  · intro h
    have hany : (List.map (fun x => x.1) (List.filter (fun x => x.2 == ns) s.top.reverse)).any
        (fun x => x == Env.emptyPrefix) = true := by
      simp only [List.any_eq_true, List.mem_map, List.mem_filter, List.mem_reverse, beq_iff_eq]
      exact ⟨Env.emptyPrefix, ⟨(Env.emptyPrefix, ns), ⟨h, rfl⟩, rfl⟩, rfl⟩
    simp only [hany, if_true, beq_self_eq_true]

theorem Grow.hasEmptyPrefix {s s' : FStack} (h : Grow s s') {ns : Nat}
    (hp : s.hasEmptyPrefix ns = true) : s'.hasEmptyPrefix ns = true := by
  rw [hasEmptyPrefix_iff] at hp ⊢
  obtain ⟨top, extra, rest, rfl, rfl, _⟩ := h
  simp only [FStack.top, List.headD_cons] at hp ⊢
  exact List.mem_append_left _ hp

theorem grow_addEmptyPrefix {s : FStack} (h : s ≠ []) (ns : Nat) :
    Grow s (s.addEmptyPrefix ns) ∧ (s.addEmptyPrefix ns).hasEmptyPrefix ns = true := by
  cases s with
  | nil => exact absurd rfl h
  | cons top rest =>
    refine ⟨⟨top, [(Env.emptyPrefix, ns)], rest, rfl, rfl, by simp⟩, ?_⟩
    rw [hasEmptyPrefix_iff]
    simp [FStack.addEmptyPrefix, FStack.top]

/-- An element name whose namespace has the empty prefix in the top frame is written bare. -/
theorem elementFullname_bare (env : Env) (s : FStack) (name : Nat)
    (hxml : env.nsOfName name ≠ Env.xmlNamespace)
    (h : env.nsOfName name = Env.noNamespace ∨ s.hasEmptyPrefix (env.nsOfName name) = true) :
    s.elementFullname env name = .ok (env.localName name) := by
  unfold FStack.elementFullname FStack.elementPrefix
  by_cases h0 : (env.nsOfName name == Env.noNamespace) = true
  · simp [h0, qname]
  · have h1 : (env.nsOfName name == Env.xmlNamespace) = false := by simpa using hxml
    rcases h with h | h
    · exact absurd (by simpa using h) h0
    · simp only [FStack.hasEmptyPrefix, beq_iff_eq] at h
      simp [h0, h1, h, qname]

end XotModel
