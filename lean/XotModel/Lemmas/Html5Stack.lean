/-
  Runs of the HTML serialiser (C19_unprefixed_end, C19_embedded): `runHtml` = final state and
  rendered tokens of a run in which every `render_output` succeeds; the frames an element's
  start tag pushes are exactly the frames its end tag pops.
-/
import XotModel.Lemmas.Events
import XotModel.Model.Html5

namespace XotModel
open Gen

/-- Final state and rendered tokens of a run in which every `render_output` succeeds. -/
def runHtml (c : HtmlCtx) (t : Tree) :
    HState → List (Path × Output) → Option (HState × List (Path × Output × OutputToken))
  | s, [] => some (s, [])
  | s, (p, o) :: rest =>
    match renderHtmlAt c t s p o with
    | .ok (s', tok) =>
      (match runHtml c t s' rest with
       | some (sf, l) => some (sf, (p, o, tok) :: l)
       | none => none)
    | _ => none

theorem runHtml_append (c : HtmlCtx) (t : Tree) (a b : List (Path × Output)) :
    ∀ s, runHtml c t s (a ++ b) =
      (runHtml c t s a).bind (fun r1 => (runHtml c t r1.1 b).map (fun r2 => (r2.1, r1.2 ++ r2.2))) := by
  induction a with
  | nil => intro s; simp [runHtml]
  | cons po a ih =>
    intro s
    obtain ⟨p, o⟩ := po
    simp only [List.cons_append, runHtml]
    cases hr : renderHtmlAt c t s p o with
    | ok v =>
      obtain ⟨s', tok⟩ := v
      simp only [ih s']
      cases h1 : runHtml c t s' a with
      | none => simp
      | some r1 =>
        obtain ⟨s1, l1⟩ := r1
        simp only [Option.bind_some]
        cases h2 : runHtml c t s1 b with
        | none => simp
        | some r2 => simp
    | err e => simp
    | panic => simp

theorem renderHtmlAll_run (c : HtmlCtx) (t : Tree) (outs : List (Path × Output)) :
    ∀ s l, renderHtmlAll c t s outs = .ok l → ∃ sf, runHtml c t s outs = some (sf, l) := by
  induction outs with
  | nil =>
    intro s l h
    simp only [renderHtmlAll, Outcome.ok.injEq] at h
    subst h; exact ⟨s, rfl⟩
  | cons po rest ih =>
    intro s l h
    obtain ⟨p, o⟩ := po
    simp only [renderHtmlAll] at h
    simp only [runHtml]
    cases hr : renderHtmlAt c t s p o with
    | ok v =>
      obtain ⟨s', tok⟩ := v
      rw [hr] at h
      simp only at h ⊢
      cases hrest : renderHtmlAll c t s' rest with
      | ok l' =>
        rw [hrest] at h
        simp only [Outcome.ok.injEq] at h
        subst h
        obtain ⟨sf, hsf⟩ := ih s' l' hrest
        exact ⟨sf, by rw [hsf]⟩
      | err e => rw [hrest] at h; cases h
      | panic => rw [hrest] at h; cases h
    | err e => rw [hr] at h; cases h
    | panic => rw [hr] at h; cases h

theorem runHtml_cons_some {c : HtmlCtx} {t : Tree} {s sf : HState} {p : Path} {o : Output}
    {rest : List (Path × Output)} {l : List (Path × Output × OutputToken)}
    (h : runHtml c t s ((p, o) :: rest) = some (sf, l)) :
    ∃ s1 tok l', renderHtmlAt c t s p o = .ok (s1, tok) ∧ runHtml c t s1 rest = some (sf, l') ∧
      l = (p, o, tok) :: l' := by
  simp only [runHtml] at h
  cases hr : renderHtmlAt c t s p o with
  | ok v =>
    obtain ⟨s1, tok⟩ := v
    rw [hr] at h
    simp only at h
    cases h2 : runHtml c t s1 rest with
    | none => rw [h2] at h; cases h
    | some r =>
      obtain ⟨sf', l'⟩ := r
      rw [h2] at h
      simp only [Option.some.injEq, Prod.mk.injEq] at h
      obtain ⟨rfl, rfl⟩ := h
      exact ⟨s1, tok, l', rfl, h2, rfl⟩
  | err e => rw [hr] at h; cases h
  | panic => rw [hr] at h; cases h

theorem runHtml_append_some {c : HtmlCtx} {t : Tree} {s sf : HState} {a b : List (Path × Output)}
    {l : List (Path × Output × OutputToken)} (h : runHtml c t s (a ++ b) = some (sf, l)) :
    ∃ s1 l1 l2, runHtml c t s a = some (s1, l1) ∧ runHtml c t s1 b = some (sf, l2) ∧ l = l1 ++ l2 := by
  rw [runHtml_append] at h
  cases h1 : runHtml c t s a with
  | none => rw [h1] at h; cases h
  | some r1 =>
    obtain ⟨s1, l1⟩ := r1
    rw [h1] at h
    simp only [Option.bind_some] at h
    cases h2 : runHtml c t s1 b with
    | none => rw [h2] at h; cases h
    | some r2 =>
      obtain ⟨s2, l2⟩ := r2
      rw [h2] at h
      simp only [Option.map_some, Option.some.injEq, Prod.mk.injEq] at h
      obtain ⟨rfl, rfl⟩ := h
      exact ⟨s1, l1, l2, rfl, h2, rfl⟩

/-! ### Frames pushed = frames popped -/

theorem push_ne_nil {s : FStack} (h : s ≠ []) (decls : List (Nat × Nat)) : s.push decls ≠ [] := by
  unfold FStack.push; split
  · exact h
  · simp

/-- `push` of the (possibly empty) declarations, undone by popping the counted frames. -/
theorem popFrames_push (s : FStack) (decls : List (Nat × Nat)) :
    popFrames (if decls.isEmpty then 0 else 1) (s.push decls) = s := by
  unfold FStack.push
  by_cases hd : decls.isEmpty = true
  · simp [hd, popFrames]
  · have hd' : decls.isEmpty = false := by simpa using hd
    simp [hd', popFrames, FStack.pop]

theorem popFrames_push_injected (s : FStack) (decls : List (Nat × Nat)) (b : Nat × Nat) :
    popFrames ((if decls.isEmpty then 0 else 1) + 1) ((s.push decls).push [b]) = s := by
  have : ((s.push decls).push [b]).pop true = s.push decls := by
    simp [FStack.push, FStack.pop]
  have step : ∀ n (x : FStack), popFrames (n + 1) x = popFrames n (x.pop true) := fun _ _ => rfl
  rw [step, this]
  exact popFrames_push s decls

/-- `has_empty_prefix(ns)`: the top frame binds the empty prefix to `ns`. -/
theorem hasEmptyPrefix_iff (s : FStack) (ns : Nat) :
    s.hasEmptyPrefix ns = true ↔ (Env.emptyPrefix, ns) ∈ s.top := by
  unfold FStack.hasEmptyPrefix elementPrefixByNamespace prefixesByNamespace
  constructor
  · intro h
    split at h
    · rename_i hany
      simp only [List.any_eq_true, List.mem_map, List.mem_filter, List.mem_reverse, beq_iff_eq] at hany
      obtain ⟨p, ⟨⟨q, n⟩, ⟨hmem, hn⟩, hq⟩, hp⟩ := hany
      simp only at hn hq
      subst hn; subst hq; subst hp; exact hmem
    · rename_i hany
      simp only [beq_iff_eq] at h
      exfalso; apply hany
      have hm := List.mem_of_mem_head? h
      simp only [List.any_eq_true, beq_iff_eq]
      exact ⟨_, hm, rfl⟩
  · intro h
    have hany : (List.map (fun x => x.1) (List.filter (fun x => x.2 == ns) s.top.reverse)).any
        (fun x => x == Env.emptyPrefix) = true := by
      simp only [List.any_eq_true, List.mem_map, List.mem_filter, List.mem_reverse, beq_iff_eq]
      exact ⟨Env.emptyPrefix, ⟨(Env.emptyPrefix, ns), ⟨h, rfl⟩, rfl⟩, rfl⟩
    simp only [hany, if_true, beq_self_eq_true]

/-- An element name whose namespace has the empty prefix in the top frame is written bare. -/
theorem elementFullname_bare (env : Env) (s : FStack) (name : Nat)
    (hxml : env.nsOfName name ≠ Env.xmlNamespace)
    (h : env.nsOfName name = Env.noNamespace ∨ s.hasEmptyPrefix (env.nsOfName name) = true) :
    s.elementFullname env name = .ok (env.localName name) := by
  unfold FStack.elementFullname FStack.elementPrefix
  by_cases h0 : (env.nsOfName name == Env.noNamespace) = true
  · simp [h0, qname]
  · have h1 : (env.nsOfName name == Env.xmlNamespace) = false := by simpa using hxml
    rcases h with h | h
    · exact absurd (by simpa using h) h0
    · simp only [FStack.hasEmptyPrefix, beq_iff_eq] at h
      simp [h0, h1, h, qname]

/-! ### Static events -/

/-- Events that leave the serialiser state alone. -/
def Output.isStatic : Output → Bool
  | .startTagOpen _ => false
  | .endTag _ => false
  | _ => true

theorem renderHtml_static {c : HtmlCtx} {s s' : HState} {node : Tree} {parent : Option Tree} {o : Output}
    {tok : OutputToken} (ho : o.isStatic = true) (h : renderHtml c s node parent o = .ok (s', tok)) :
    s' = s := by
  cases o with
  | startTagOpen name => cases ho
  | endTag name => cases ho
  | _ =>
    simp only [renderHtml] at h
    repeat' split at h
    all_goals (cases h; try rfl)

/-- Names that must be written without prefix: no namespace, `XHTML_NS`, MathML, SVG. -/
def Bare (c : HtmlCtx) (name : Nat) : Prop :=
  (c.h.isHtmlNamespace (c.env.nsOfName name) = true ∨ c.h.mustBeUnprefixed (c.env.nsOfName name) = true)
    ∧ c.env.nsOfName name ≠ Env.xmlNamespace

/-- Every end-tag token of a bare name is empty (void) or `</local>`. -/
def EndTagsBare (c : HtmlCtx) (l : List (Path × Output × OutputToken)) : Prop :=
  ∀ k ∈ l, ∀ name, k.2.1 = .endTag name → Bare c name →
    k.2.2.text = [] ∨ k.2.2.text = ['<','/'] ++ c.env.localName name ++ ['>']

theorem EndTagsBare.append {c : HtmlCtx} {a b : List (Path × Output × OutputToken)}
    (ha : EndTagsBare c a) (hb : EndTagsBare c b) : EndTagsBare c (a ++ b) := by
  intro k hk
  rcases List.mem_append.mp hk with h | h
  · exact ha k h
  · exact hb k h

theorem EndTagsBare.nil (c : HtmlCtx) : EndTagsBare c [] := by intro k hk; simp at hk

end XotModel
