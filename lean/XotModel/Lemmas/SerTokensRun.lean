/-
  The serialiser's write loop as one fold returning the final `FullnameSerializer` stack and the
  bytes written (`runEvents`), with the laws the tree induction of `SerTokensMain.lean` needs:
  append, the string entry point in terms of it, single events.
-/
import XotModel.Model.SerTokens
import XotModel.Lemmas.Events

namespace XotModel
open Gen

variable (esc : Escapers) (env : Env) (pr : TokenParams) (t : Tree)

/-- Sequencing of two runs: the bytes are concatenated, the first failure wins. -/
def runThen (a : Outcome XotError (FStack × Str)) (f : FStack → Outcome XotError (FStack × Str)) :
    Outcome XotError (FStack × Str) :=
  match a with
  | .ok (s, w) =>
    (match f s with
     | .ok (s', w') => .ok (s', w ++ w')
     | .err e => .err e
     | .panic => .panic)
  | .err e => .err e
  | .panic => .panic

/-- One event: the stack afterwards and the bytes `serialize_node` writes for its token. -/
def runEvent (s : FStack) (p : Path) (o : Output) : Outcome XotError (FStack × Str) :=
  match renderAtWith esc env pr t s p o with
  | .ok (s', tok) => .ok (s', tokenBytes tok)
  | .err e => .err e
  | .panic => .panic

/-- `XmlSerializer::serialize` over a list of events. -/
def runEvents : FStack → List (Path × Output) → Outcome XotError (FStack × Str)
  | s, [] => .ok (s, [])
  | s, (p, o) :: rest => runThen (runEvent esc env pr t s p o) (fun s' => runEvents s' rest)

theorem runThen_ok (s : FStack) (w : Str) (f : FStack → Outcome XotError (FStack × Str)) :
    runThen (.ok (s, w)) f =
      (match f s with
       | .ok (s', w') => .ok (s', w ++ w')
       | .err e => .err e
       | .panic => .panic) := rfl

theorem runThen_err (e : XotError) (f : FStack → Outcome XotError (FStack × Str)) :
    runThen (.err e) f = .err e := rfl

theorem runThen_assoc (a : Outcome XotError (FStack × Str))
    (f g : FStack → Outcome XotError (FStack × Str)) :
    runThen (runThen a f) g = runThen a (fun s => runThen (f s) g) := by
  cases a with
  | ok sw =>
    obtain ⟨s, w⟩ := sw
    simp only [runThen]
    cases f s with
    | ok sw' =>
      obtain ⟨s', w'⟩ := sw'
      simp only []
      cases g s' with
      | ok sw'' => simp
      | err e => rfl
      | panic => rfl
    | err e => rfl
    | panic => rfl
  | err e => rfl
  | panic => rfl

theorem runThen_pure (a : Outcome XotError (FStack × Str)) :
    runThen a (fun s => .ok (s, [])) = a := by
  cases a with
  | ok sw => obtain ⟨s, w⟩ := sw; simp [runThen]
  | err e => rfl
  | panic => rfl

theorem runEvents_append (s : FStack) (a b : List (Path × Output)) :
    runEvents esc env pr t s (a ++ b) =
      runThen (runEvents esc env pr t s a) (fun s' => runEvents esc env pr t s' b) := by
  induction a generalizing s with
  | nil =>
    simp only [List.nil_append, runEvents, runThen]
    cases runEvents esc env pr t s b with
    | ok sw => simp
    | err e => rfl
    | panic => rfl
  | cons po a ih =>
    obtain ⟨p, o⟩ := po
    simp only [List.cons_append, runEvents, runThen_assoc]
    congr 1
    funext s'
    exact ih s'

theorem runEvents_single (s : FStack) (p : Path) (o : Output) :
    runEvents esc env pr t s [(p, o)] = runEvent esc env pr t s p o := by
  simp only [runEvents, runThen_pure]

theorem runEvents_cons (s : FStack) (p : Path) (o : Output) (rest : List (Path × Output)) :
    runEvents esc env pr t s ((p, o) :: rest) =
      runThen (runEvent esc env pr t s p o) (fun s' => runEvents esc env pr t s' rest) := rfl

/-- The write loop is `runEvents` (bytes of a failed run aside). -/
theorem writeGo_runEvents (s : FStack) (outs : List (Path × Output)) :
    bufferToString (writeGoWith esc env pr t s outs) =
      (match runEvents esc env pr t s outs with
       | .ok (_, w) => .ok w
       | .err e => .err e
       | .panic => .panic) := by
  induction outs generalizing s with
  | nil => simp [writeGoWith, runEvents, bufferToString]
  | cons po rest ih =>
    obtain ⟨p, o⟩ := po
    simp only [writeGoWith, runEvents, runEvent]
    cases hr : renderAtWith esc env pr t s p o with
    | ok st =>
      obtain ⟨s', tok⟩ := st
      have := ih s'
      simp only [runThen]
      cases hrun : runEvents esc env pr t s' rest with
      | ok sw =>
        obtain ⟨s2, w⟩ := sw
        rw [hrun] at this
        simp only [bufferToString] at this ⊢
        cases h2 : (writeGoWith esc env pr t s' rest).2 with
        | ok u => rw [h2] at this; simp only [Outcome.ok.injEq] at this; simp [this]
        | err e => rw [h2] at this; cases this
        | panic => rw [h2] at this; cases this
      | err e =>
        rw [hrun] at this
        simp only [bufferToString] at this ⊢
        cases h2 : (writeGoWith esc env pr t s' rest).2 with
        | ok u => rw [h2] at this; cases this
        | err e' => rw [h2] at this; simpa using this
        | panic => rw [h2] at this; cases this
      | panic =>
        rw [hrun] at this
        simp only [bufferToString] at this ⊢
        cases h2 : (writeGoWith esc env pr t s' rest).2 with
        | ok u => rw [h2] at this; cases this
        | err e' => rw [h2] at this; cases this
        | panic => rfl
    | err e => simp [runThen, bufferToString]
    | panic => simp [runThen, bufferToString]

/-- `serialize_xml_string` (token parameters only) in terms of `runEvents`. -/
theorem serializeString_runEvents (start : Path) :
    serializeStringWith esc env pr t start =
      (match runEvents esc env pr t (initStack t start) (genOutputs t start) with
       | .ok (_, w) => .ok w
       | .err e => .err e
       | .panic => .panic) := by
  unfold serializeStringWith serializeWriteWith
  exact writeGo_runEvents esc env pr t _ _

/-- An event of a node that exists: `render_output` on that node. -/
theorem runEvent_at (s : FStack) (p : Path) (o : Output) (n : Tree) (h : t.at? p = some n) :
    runEvent esc env pr t s p o =
      (match renderXmlWith esc env pr s n (t.parentAt? p) o with
       | .ok (s', tok) => .ok (s', tokenBytes tok)
       | .err e => .err e
       | .panic => .panic) := by
  simp only [runEvent, renderAtWith, h]

end XotModel
