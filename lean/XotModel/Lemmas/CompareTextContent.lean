/-
  Lemmas for C13, part 11: text_content / text_content_str.
-/
import XotModel.Lemmas.CompareVariants
import XotModel.Lemmas.CompareText

namespace XotModel

theorem isNormal_category {c : Tree} (h : c.value.isNormal = true) : c.value.category = .normal := by
  simpa [Value.isNormal] using h

/-- `text_content` as a function of the normal children (all of them normal nodes). -/
theorem textContent_of_normalKids {t : Tree} (hn : ∀ k ∈ t.normalKids, k.value.isNormal = true) :
    textContent t = (match t.normalKids with
      | [c] => c.textStr
      | _ => none) := by
  unfold textContent
  cases h : t.normalKids with
  | nil => rfl
  | cons c rest =>
    cases rest with
    | nil => rfl
    | cons d r =>
      rw [h] at hn
      have hc := isNormal_category (hn c (by simp))
      have hd := isNormal_category (hn d (by simp))
      simp [hc, hd]

theorem textContentStr_of_normalKids {t : Tree} (hn : ∀ k ∈ t.normalKids, k.value.isNormal = true) :
    textContentStr t = (match t.normalKids with
      | [] => some []
      | [c] => c.textStr
      | _ => none) := by
  unfold textContentStr
  rw [textContent_of_normalKids hn]
  cases t.normalKids with
  | nil => rfl
  | cons c rest => cases rest <;> rfl

theorem textStr_eq_some {c : Tree} {s : Str} : c.textStr = some s ↔ c.value = .text s := by
  unfold Tree.textStr
  cases c.value <;> simp

theorem canon_eq_text_leaf {c : Tree} {s : Str} (hl : c.contentLeaves = true) :
    canon c = .node (.text s) [] ↔ c.value = .text s := by
  obtain ⟨v, ks⟩ := c
  obtain ⟨hcl, _⟩ := contentLeaves_node hl
  simp only [canon, Canon.node.injEq, Tree.value]
  constructor
  · intro h
    cases v <;> simp [cvalue] at h ⊢
    exact h.1
  · intro h
    subst h
    have : ks = [] := hcl (Or.inl rfl)
    subst this
    simp [cvalue, canon.canonList]

/-- `text_content_str` read off the canonical form: `Some("")` for no children, `Some(s)` for
    exactly one child that is the text node `s`, `None` otherwise. -/
theorem textContentStr_iff_canon (t : Tree) (hv : t.valid = true) (hl : t.contentLeaves = true) (s : Str) :
    textContentStr t = some s ↔
      ((canon t).kids = [] ∧ s = []) ∨ (canon t).kids = [.node (.text s) []] := by
  obtain ⟨v, ks⟩ := t
  obtain ⟨ho, _, _, _⟩ := valid_node hv
  obtain ⟨_, hlk⟩ := contentLeaves_node hl
  have hn := normalKids_normal (v := v) ho
  have hsub : ∀ k ∈ (Tree.node v ks).normalKids, k ∈ ks := fun k hk => List.dropWhile_subset _ hk
  have hc : (canon (.node v ks)).kids = (Tree.node v ks).normalKids.map canon := by
    have := canonList_normalKids (.node v ks)
    simp only [Tree.kids] at this
    simp only [canon, Canon.kids, this, canonList_eq_map hn]
  rw [hc, textContentStr_of_normalKids hn]
  cases h : (Tree.node v ks).normalKids with
  | nil => simp
  | cons c rest =>
    cases rest with
    | nil =>
      have hcl := hlk c (hsub c (by rw [h]; simp))
      simp [textStr_eq_some, canon_eq_text_leaf hcl]
    | cons d r => simp

/-- … and `text_content` (no `Some("")` case). -/
theorem textContent_iff_canon (t : Tree) (hv : t.valid = true) (hl : t.contentLeaves = true) (s : Str) :
    textContent t = some s ↔ (canon t).kids = [.node (.text s) []] := by
  have h := textContentStr_iff_canon t hv hl s
  unfold textContentStr at h
  by_cases he : t.normalKids = []
  · have hk : (canon t).kids = [] := by
      obtain ⟨v, ks⟩ := t
      have := canonList_normalKids (.node v ks)
      simp only [Tree.kids] at this
      simp only [canon, Canon.kids, this, he, canon.canonList]
    simp [textContent, he, hk]
  · have : t.normalKids.isEmpty = false := by
      cases hh : t.normalKids with
      | nil => exact absurd hh he
      | cons _ _ => rfl
    simp only [this, Bool.false_eq_true, ↓reduceIte] at h
    rw [h]
    constructor
    · rintro (⟨hk, _⟩ | hk)
      · exfalso
        obtain ⟨v, ks⟩ := t
        obtain ⟨ho, _, _, _⟩ := valid_node hv
        have hn := normalKids_normal (v := v) ho
        have hc := canonList_normalKids (.node v ks)
        simp only [Tree.kids] at hc
        simp only [canon, Canon.kids, hc, canonList_eq_map hn, List.map_eq_nil_iff] at hk
        exact he hk
      · exact hk
    · exact Or.inr

end XotModel
