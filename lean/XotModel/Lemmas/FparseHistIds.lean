/-
  FparseHist, part 3: the KEYS of the xml:id index are unique along histories that parse.

  `IdStore.parse` (Model/FidIndex.lean) carries the test `(Tree.idValues t).Nodup` as a stand-in for the
  builder's `DuplicateId`.  With the text going through the builder itself (`PCall.parse`) the test is a
  THEOREM: the builder's `seen_ids` reject a repeated value (`Accepted.build_ids`, proved for well-formed
  tables `envOK`), and the ID values `parseInto` indexes (`Tree.idValues`: the xml:id attributes of
  ELEMENTS) are among the ID values of all attribute nodes (`Accepted.idVals`), counted with
  multiplicity (`fph_count_idEntries_le`).  So on `envOK` tables the parse step IS `IdStore.parse` of the
  accepted tree, and `IdStore.Wf` (keys unique, entries handed out earlier) holds along every history
  whose parses run on `envOK` tables (`PStore.parsesOnOKTables`).
-/
import XotModel.Lemmas.FparseHistStep
import XotModel.Lemmas.AcceptedMain

namespace XotModel
open HTree
open Accepted (idVals idValsList idOf)

/-! ### The indexed ID values are among the ID values of the tree -/

theorem fph_idAttrValues_cons (k : HTree) (ks : List HTree) :
    idAttrValues (k :: ks) = idOf k.value ++ idAttrValues ks := by
  rw [idAttrValues]
  cases hv : k.value with
  | «attribute» n val =>
    simp only [idOf]
    by_cases hn : n = Env.xmlIdName
    · simp [hn]
    · have : (n == Env.xmlIdName) = false := by simpa using hn
      simp [hn, this]
  | _ => simp [idOf]

mutual
  theorem fph_count_idEntries_le (a : Str) : ∀ t : HTree,
      ((idEntries t).map (·.1)).count a ≤ (idValsList (eraseList t.kids)).count a
    | .node h v ks => by
      have ih := fph_count_idEntriesList_le a ks
      rw [idEntries, List.map_append, List.count_append]
      have h1 : ((if v.isElement = true then (idAttrValues ks).map (fun s => (s, h)) else []).map (·.1)).count a
          ≤ (idAttrValues ks).count a := by
        split
        · rw [List.map_map]
          have : ((fun x : Str × Nat => x.1) ∘ fun s => (s, h)) = id := rfl
          rw [this, List.map_id]
          exact Nat.le_refl _
        · simp
      show _ ≤ (idValsList (eraseList ks)).count a
      omega
  theorem fph_count_idEntriesList_le (a : Str) : ∀ ks : List HTree,
      (idAttrValues ks).count a + ((idEntriesList ks).map (·.1)).count a ≤ (idValsList (eraseList ks)).count a
    | [] => by simp [idAttrValues, idEntriesList, eraseList, idValsList]
    | k :: ks => by
      have ih1 := fph_count_idEntries_le a k
      have ih2 := fph_count_idEntriesList_le a ks
      rw [fph_idAttrValues_cons, idEntriesList, List.map_append, List.count_append, List.count_append,
        eraseList, idValsList, List.count_append]
      have hk : (idVals (erase k)).count a = (idOf k.value).count a + (idValsList (eraseList k.kids)).count a := by
        cases k with
        | node h v kk => rw [erase, idVals, List.count_append]; rfl
      omega
end

/-- The ID values `parseInto` indexes occur at most as often as among all attribute nodes. -/
theorem fph_count_idValues_le (a : Str) (t : Tree) : (Tree.idValues t).count a ≤ (idVals t).count a := by
  unfold Tree.idValues
  refine Nat.le_trans (fph_count_idEntries_le a (ofTree 0 t)) ?_
  cases t with
  | node v ks =>
    rw [ofTree]
    show (idValsList (eraseList (ofTreeList (0 + 1) ks))).count a ≤ _
    rw [fph_eraseList_ofTreeList, idVals, List.count_append]
    omega

theorem fph_idValues_nodup {t : Tree} (h : (idVals t).Nodup) : (Tree.idValues t).Nodup := by
  rw [List.nodup_iff_count] at h ⊢
  exact fun a => Nat.le_trans (fph_count_idValues_le a t) (h a)

/-- **`DuplicateId` as a theorem**: the tree of a text accepted on well-formed tables has no ID value
    twice — the test of `IdStore.parse` always succeeds. -/
theorem fph_accepted_idValues_nodup {m : Mode} {env : Env} {text : Str} {p : Parsed} (henv : envOK env = true)
    (h : parseString m env text = .ok p) : (Tree.idValues p.tree).Nodup := by
  obtain ⟨h1, _, _, h4, _, _⟩ := Accepted.accepted_facts henv h
  rw [Accepted.xmlIdValues_eq h1] at h4
  exact fph_idValues_nodup h4

/-- Well-formed tables stay well formed through an accepted parse. -/
theorem fph_accepted_envOK {m : Mode} {env : Env} {text : Str} {p : Parsed} (henv : envOK env = true)
    (h : parseString m env text = .ok p) : envOK p.env = true :=
  Accepted.envOK_of_facts (Accepted.accepted_facts henv h).1

namespace PStore

/-- On well-formed tables, the parse of an accepted text is the step `IdOp.parse` of its tree. -/
theorem fph_idStore_step_parse_ok (s : PStore) (henv : envOK s.env = true) {m : Mode} {text : Str} {p : Parsed}
    (h : parseString m s.env text = .ok p) :
    (s.step (.parse m text)).idStore = s.idStore.step (.parse p.tree) :=
  fph_idStore_step_parse s h (fph_accepted_idValues_nodup henv h)

/-- The index invariant of `C04_xml_id_wf` through one step. -/
theorem fph_wf_step {s : PStore} (hw : s.idStore.Wf) (c : PCall)
    (hok : ∀ m text, c = .parse m text → envOK s.env = true) : (s.step c).idStore.Wf := by
  cases c with
  | api c =>
    refine ⟨fun e he => ?_, hw.keys⟩
    have := hw.below e he
    have hn := (fph_step_le s (.api c)).next
    exact ⟨Nat.lt_of_lt_of_le this.1 hn, Nat.lt_of_lt_of_le this.2 hn⟩
  | parse m text =>
    rcases fph_step_parse_cases s m text with ⟨p, hp, h1, _⟩ | ⟨e, env', _, h1, _⟩
    · rw [h1]
      exact IdStore.wf_parseInto hw p.tree (fph_accepted_idValues_nodup (hok m text rfl) hp)
    · rw [h1]; exact hw

theorem fph_wf_run : ∀ (cs : List PCall) {s : PStore}, s.idStore.Wf → s.parsesOnOKTables cs → (s.run cs).idStore.Wf
  | [], _, hw, _ => hw
  | .api c :: cs, s, hw, hok =>
    fph_wf_run cs (s := s.step (.api c)) (fph_wf_step hw (.api c) (fun _ _ h => by cases h)) hok
  | .parse m text :: cs, s, hw, hok =>
    fph_wf_run cs (s := s.step (.parse m text)) (fph_wf_step hw (.parse m text) (fun _ _ _ => hok.1)) hok.2

theorem fph_wf_init (env : Env) : (init env).idStore.Wf := ⟨fun _ he => (by cases he), List.nodup_nil⟩

/-! ### When do the parses run on well-formed tables? -/

/-- A history of API calls only has no parse. -/
theorem fph_parsesOnOKTables_api : ∀ (cs : List Forest.XCall) (s : PStore), s.parsesOnOKTables (cs.map .api)
  | [], _ => trivial
  | _ :: cs, s => fph_parsesOnOKTables_api cs _

/-- "Parse one text, then edit": the tables of the start state are all that matters. -/
theorem fph_parsesOnOKTables_parse_then_api (s : PStore) (henv : envOK s.env = true) (m : Mode) (text : Str)
    (cs : List Forest.XCall) : s.parsesOnOKTables (.parse m text :: cs.map .api) :=
  ⟨henv, fph_parsesOnOKTables_api cs _⟩

/-- An API step other than `create_missing_prefixes` does not write the tables. -/
theorem fph_env_step_api (s : PStore) (c : Forest.XCall) (h : ∀ n, c ≠ .createMissingPrefixes n) :
    (s.step (.api c)).env = s.env := by
  cases c with
  | createMissingPrefixes n => exact absurd rfl (h n)
  | _ => rfl

end PStore
end XotModel
