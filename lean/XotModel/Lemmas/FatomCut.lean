/-
  C06 lemmas: `cut` (indextree `detach`, first half) and `spliceOut` (indextree `remove`) at
  forest level: the invariant is kept, the handle multiset shrinks by the subtree / by the node,
  and everything outside the subtree is framed.
-/
import XotModel.Lemmas.FatomFrame

namespace XotModel
open HTree

/-- Removing the root with handle `h` from a list of roots with distinct handles. -/
theorem rootsFilter (h : Nat) : ∀ (rs : List HTree) (t : HTree), (handlesList rs).Nodup →
    rs.any (fun r => r.handle = h) = true → findList? h rs = some t →
    (∀ a, (handlesList (rs.filter (fun r => r.handle != h))).count a + (handles t).count a =
        (handlesList rs).count a) ∧
    (∀ x, x ∉ handles t → (rs.filter (fun r => r.handle != h)).findSome? (parentBelow x) =
        rs.findSome? (parentBelow x)) ∧
    (∀ x, x ∉ handles t → (findList? x (rs.filter (fun r => r.handle != h))).map HTree.value =
        (findList? x rs).map HTree.value) ∧
    (leafOkList rs = true → leafOkList (rs.filter (fun r => r.handle != h)) = true ∧ leafOk t = true)
  | [], t => by simp
  | r :: rs, t => by
    intro hn hany e
    unfold handlesList at hn
    have hna := List.nodup_append.1 hn
    by_cases hr : r.handle = h
    · have ht := findList?_cons_self hr e
      subst ht
      have hnone : ∀ r' ∈ rs, (r'.handle != h) = true := by
        intro r' hr'
        have : r'.handle ≠ h := by
          intro e'
          exact hna.2.2 _ (hr ▸ handle_mem_handles t) _
            (e' ▸ handles_sub_of_mem hr' _ (handle_mem_handles r')) rfl
        simpa using this
      have hfil : (t :: rs).filter (fun r => r.handle != h) = rs := by
        rw [List.filter_cons]
        simp only [hr, bne_self_eq_false, Bool.false_eq_true, if_false]
        exact List.filter_eq_self.2 hnone
      rw [hfil]
      refine ⟨?_, ?_, ?_, ?_⟩
      · intro a; simp only [handlesList, List.count_append]; omega
      · intro x hx
        rw [List.findSome?_cons, parentBelow_none_of_not_mem hx]
      · intro x hx
        simp only [findList?, (find?_none_iff _ _).2 hx]
      · intro hl
        simp only [leafOkList, Bool.and_eq_true] at hl
        exact ⟨hl.2, hl.1⟩
    · have hany' : rs.any (fun r => r.handle = h) = true := by
        rw [List.any_cons, Bool.or_eq_true] at hany
        rcases hany with h' | h'
        · exact absurd (by simpa using h') hr
        · exact h'
      have hm : h ∈ handlesList rs := rootsAny_mem hany'
      have hnr : h ∉ handles r := fun h' => hna.2.2 _ h' _ hm rfl
      have e' : findList? h rs = some t := by
        unfold findList? at e; rw [(find?_none_iff _ _).2 hnr] at e; exact e
      obtain ⟨i1, i2, i3, i4⟩ := rootsFilter h rs t hna.2.1 hany' e'
      have hfil : (r :: rs).filter (fun r => r.handle != h) = r :: rs.filter (fun r => r.handle != h) := by
        rw [List.filter_cons]
        have : (r.handle != h) = true := by simpa using hr
        simp only [this, if_true]
      rw [hfil]
      refine ⟨?_, ?_, ?_, ?_⟩
      · intro a; have := i1 a; simp only [handlesList, List.count_append]; omega
      · intro x hx
        rw [List.findSome?_cons, List.findSome?_cons, i2 x hx]
      · intro x hx
        have := i3 x hx
        simp only [findList?]
        cases find? x r with
        | some b => rfl
        | none => exact this
      · intro hl
        simp only [leafOkList, Bool.and_eq_true] at hl ⊢
        exact ⟨⟨hl.1, (i4 hl.2).1⟩, (i4 hl.2).2⟩

theorem nodup_of_count_le {l l' : List Nat} (hn : l.Nodup) (h : ∀ a, l'.count a ≤ l.count a) :
    l'.Nodup := by
  rw [List.nodup_iff_count] at hn ⊢
  intro a; exact Nat.le_trans (h a) (hn a)

namespace Forest

/-- Liveness after a removal described by multiplicities. -/
theorem isLive_of_count {f f' : Forest} (w : f.W) {L : List Nat}
    (hc : ∀ a, f'.allHandles.count a + L.count a = f.allHandles.count a) (x : Nat) :
    f'.isLive x = true ↔ f.isLive x = true ∧ x ∉ L := by
  rw [isLive_iff_mem, isLive_iff_mem, ← List.count_pos_iff, ← List.count_pos_iff,
    ← List.count_eq_zero]
  have h1 := hc x
  have h2 := (List.nodup_iff_count.1 w.nodup) x
  omega

theorem isLive_eq_of_count {f f' : Forest} (w : f.W) {L : List Nat}
    (hc : ∀ a, f'.allHandles.count a + L.count a = f.allHandles.count a) {x : Nat} (hx : x ∉ L) :
    f'.isLive x = f.isLive x := by
  rw [Bool.eq_iff_iff, isLive_of_count w hc x]
  exact ⟨fun h => h.1, fun h => ⟨h, hx⟩⟩

theorem isLive_eq_of_count2 {f f' : Forest} {A B : List Nat}
    (hc : ∀ a, f'.allHandles.count a + A.count a = f.allHandles.count a + B.count a) {x : Nat}
    (hA : x ∉ A) (hB : x ∉ B) : f'.isLive x = f.isLive x := by
  rw [Bool.eq_iff_iff, isLive_iff_mem, isLive_iff_mem, ← List.count_pos_iff, ← List.count_pos_iff]
  have h1 := hc x
  rw [← List.count_eq_zero] at hA hB
  omega

theorem below_of_count_le {f f' : Forest} (w : f.W) (hn : f.next ≤ f'.next)
    (h : ∀ a, f'.allHandles.count a ≤ f.allHandles.count a) : ∀ x ∈ f'.allHandles, x < f'.next := by
  intro x hx
  have h1 := List.count_pos_iff.2 hx
  have h2 := h x
  exact Nat.lt_of_lt_of_le (w.below x (List.count_pos_iff.1 (by omega))) hn

/-- Non-root replacement at forest level: the generic facts. -/
theorem replaceRoots_spec {f : Forest} (w : f.W) {h : Nat} {t : HTree} (F : HTree → List HTree)
    (hg : f.get? h = some t) (hr : f.isRoot h = false)
    (hF : ∀ k, leafOk k = true → leafOkList (F k) = true) :
    let f' : Forest := { f with roots := f.roots.map (replaceBelow h F) }
    (∀ a, f'.allHandles.count a + (handles t).count a =
        f.allHandles.count a + (handlesList (F t)).count a) ∧
    leafOkList f'.roots = true ∧
    (f'.W → Frame f f' (handles t ++ handlesList (F t))) := by
  intro f'
  have hroots : f'.roots = replaceKids h F f.roots := map_replaceBelow_eq h F f.roots hr
  have hcount : ∀ a, f'.allHandles.count a + (handles t).count a =
      f.allHandles.count a + (handlesList (F t)).count a := by
    intro a
    show (handlesList f'.roots).count a + _ = _
    rw [hroots]
    exact replaceKids_count h F f.roots t w.nodup hg a
  refine ⟨hcount, ?_, ?_⟩
  · rw [hroots]; exact leafOkList_replaceKids h F hF f.roots w.leaves
  · intro w'
    refine ⟨?_, ?_, rfl, rfl, Nat.le_refl _⟩
    · intro x hx
      rw [List.mem_append, not_or] at hx
      cases hxr : f.isRoot x with
      | true =>
        have hxr' : f'.isRoot x = true := by
          unfold isRoot; rw [hroots, any_handle_replaceKids_of_any h x F f.roots hr]; exact hxr
        rw [isRoot_noParent w hxr, isRoot_noParent w' hxr']
      | false =>
        have hxr' : f'.roots.any (fun r => r.handle = x) = false := by
          rw [hroots, any_handle_replaceKids_of_any h x F f.roots hr]; exact hxr
        rw [parent?_eq, parent?_eq, ← parentKids_eq_findSome x 0 _ hxr',
          ← parentKids_eq_findSome x 0 _ hxr, hroots]
        exact replaceKids_parent h x 0 F f.roots t w.nodup hg hx.1 hx.2
    · intro x hx
      rw [List.mem_append, not_or] at hx
      have : f'.value? x = f.value? x := by
        unfold value? get?
        rw [hroots]
        exact replaceKids_value h x F f.roots t w.nodup hg hx.1 hx.2
      rw [this]

theorem W_of_count_le {f f' : Forest} (w : f.W) (hn : f.next ≤ f'.next)
    (hc : ∀ a, f'.allHandles.count a ≤ f.allHandles.count a) (hl : leafOkList f'.roots = true) :
    f'.W :=
  ⟨nodup_of_count_le w.nodup hc, hl, below_of_count_le w hn hc⟩

/-- `cut`: the subtree is returned, the rest satisfies the invariant, everything outside the
    subtree keeps value and parent. -/
theorem cut_spec {f : Forest} (w : f.W) {h : Nat} {t : HTree} (hg : f.get? h = some t) :
    (f.cut h).2 = some t ∧ (f.cut h).1.W ∧
    (∀ a, (f.cut h).1.allHandles.count a + (handles t).count a = f.allHandles.count a) ∧
    Frame f (f.cut h).1 (handles t) ∧ leafOk t = true := by
  have hlt : leafOk t = true := findList?_leafOk h f.roots t w.leaves hg
  cases hr : f.isRoot h with
  | true =>
    have hc : f.cut h = ({ f with roots := f.roots.filter (fun r => r.handle != h) }, some t) := by
      unfold cut; rw [hg, hr]; rfl
    rw [hc]
    obtain ⟨i1, i2, i3, i4⟩ := rootsFilter h f.roots t w.nodup hr hg
    have w' : Forest.W { f with roots := f.roots.filter (fun r => r.handle != h) } :=
      W_of_count_le w (Nat.le_refl _) (fun a => by
        have := i1 a
        show (handlesList (f.roots.filter (fun r => r.handle != h))).count a ≤ (handlesList f.roots).count a
        omega)
        (i4 w.leaves).1
    refine ⟨rfl, w', i1, ⟨?_, ?_, rfl, rfl, Nat.le_refl _⟩, hlt⟩
    · intro x hx; rw [parent?_eq, parent?_eq]; exact i2 x hx
    · intro x hx
      have : Forest.value? { f with roots := f.roots.filter (fun r => r.handle != h) } x =
          f.value? x := i3 x hx
      rw [this]
  | false =>
    have hc : f.cut h = ({ f with roots := f.roots.map (replaceBelow h (fun _ => [])) }, some t) := by
      unfold cut; rw [hg, hr]; rfl
    rw [hc]
    obtain ⟨j1, j2, j3⟩ := replaceRoots_spec w (fun _ => []) hg hr (fun _ _ => rfl)
    simp only [handlesList, List.count_nil, Nat.add_zero, List.append_nil] at j1 j3
    have w' : Forest.W { f with roots := f.roots.map (replaceBelow h (fun _ => [])) } :=
      W_of_count_le w (Nat.le_refl _) (fun a => by
        have : (handlesList (f.roots.map (replaceBelow h (fun _ => [])))).count a +
          (handles t).count a = (handlesList f.roots).count a := j1 a
        show (handlesList (f.roots.map (replaceBelow h (fun _ => [])))).count a ≤ (handlesList f.roots).count a
        omega) j2
    exact ⟨rfl, w', j1, j3 w', hlt⟩

theorem cut_dead {f : Forest} {h : Nat} (hg : f.get? h = none) : f.cut h = (f, none) := by
  unfold cut; rw [hg]

/-- `spliceOut` of a non-root node, or of a root with at most one child. -/
theorem spliceOut_spec {f : Forest} (w : f.W) {h : Nat} {t : HTree} (hg : f.get? h = some t)
    (hk : f.isRoot h = true → t.kids.length ≤ 1) :
    (f.spliceOut h).W ∧
    (∀ a, (f.spliceOut h).allHandles.count a + [h].count a = f.allHandles.count a) ∧
    Frame f (f.spliceOut h) (handles t) := by
  have hlt : leafOk t = true := findList?_leafOk h f.roots t w.leaves hg
  have hth : t.handle = h := get?_handle hg
  have hlk : leafOkList t.kids = true := by
    cases t with | node a v ks => simp only [leafOk, Bool.and_eq_true] at hlt; exact hlt.2
  cases hr : f.isRoot h with
  | true =>
    have hs : f.spliceOut h = { f with roots := f.roots.filter (fun r => r.handle != h) ++ t.kids } := by
      unfold spliceOut; rw [hg]; simp only [hr, if_true, hk hr]
    rw [hs]
    obtain ⟨i1, i2, i3, i4⟩ := rootsFilter h f.roots t w.nodup hr hg
    have hcount : ∀ a, (handlesList (f.roots.filter (fun r => r.handle != h) ++ t.kids)).count a +
        [h].count a = f.allHandles.count a := by
      intro a
      have := i1 a
      rw [handles_eq, hth] at this
      simp only [List.count_cons, List.count_nil] at this ⊢
      rw [fa_handlesList_append, List.count_append]
      unfold allHandles; omega
    have w' : Forest.W { f with roots := f.roots.filter (fun r => r.handle != h) ++ t.kids } :=
      W_of_count_le w (Nat.le_refl _) (fun a => by
        have := hcount a
        show (handlesList (f.roots.filter (fun r => r.handle != h) ++ t.kids)).count a ≤ (handlesList f.roots).count a
        unfold allHandles at this; omega)
        (by show leafOkList (_ ++ _) = true; rw [leafOkList_append, (i4 w.leaves).1, hlk]; rfl)
    refine ⟨w', hcount, ⟨?_, ?_, rfl, rfl, Nat.le_refl _⟩⟩
    · intro x hx
      rw [parent?_eq, parent?_eq]
      simp only [List.findSome?_append]
      rw [i2 x hx]
      have : x ∉ handlesList t.kids := by
        intro h'; apply hx; rw [handles_eq]; exact List.mem_cons_of_mem _ h'
      rw [rootsParent_none_of_not_mem this]
      cases List.findSome? (parentBelow x) f.roots <;> rfl
    · intro x hx
      have hxk : x ∉ handlesList t.kids := by
        intro h'; apply hx; rw [handles_eq]; exact List.mem_cons_of_mem _ h'
      have : Forest.value? { f with roots := f.roots.filter (fun r => r.handle != h) ++ t.kids } x =
          f.value? x := by
        show (findList? x (_ ++ _)).map HTree.value = _
        rw [fa_findList?_append]
        have h3 := i3 x hx
        unfold value? get?
        cases h1 : findList? x (f.roots.filter (fun r => r.handle != h)) with
        | some b => rw [h1] at h3; exact h3
        | none => rw [h1] at h3; rw [(findList?_none_iff _ _).2 hxk]; exact h3
      rw [this]
  | false =>
    have hs : f.spliceOut h = { f with roots := f.roots.map (replaceBelow h (fun n => n.kids)) } := by
      unfold spliceOut; rw [hg]; simp only [hr, Bool.false_eq_true, if_false]
    rw [hs]
    obtain ⟨j1, j2, j3⟩ := replaceRoots_spec w (fun n => n.kids) hg hr (fun k hk' => by
      cases k with | node a v ks => simp only [leafOk, Bool.and_eq_true] at hk'; exact hk'.2)
    have hcount : ∀ a, (handlesList (f.roots.map (replaceBelow h (fun n => n.kids)))).count a +
        [h].count a = f.allHandles.count a := by
      intro a
      have := j1 a
      rw [handles_eq, hth] at this
      simp only [List.count_cons, List.count_nil] at this ⊢
      unfold allHandles at this; unfold allHandles; simp only at this; omega
    have w' : Forest.W { f with roots := f.roots.map (replaceBelow h (fun n => n.kids)) } :=
      W_of_count_le w (Nat.le_refl _) (fun a => by
        have := hcount a
        show (handlesList (f.roots.map (replaceBelow h (fun n => n.kids)))).count a ≤ (handlesList f.roots).count a
        unfold allHandles at this; omega) j2
    have hsub : ∀ x ∈ handles t ++ handlesList t.kids, x ∈ handles t := by
      intro x hx
      rcases List.mem_append.1 hx with h' | h'
      · exact h'
      · rw [handles_eq]; exact List.mem_cons_of_mem _ h'
    exact ⟨w', hcount, (j3 w').mono hsub⟩

theorem spliceOut_dead {f : Forest} {h : Nat} (hg : f.get? h = none) : f.spliceOut h = f := by
  unfold spliceOut; rw [hg]

end Forest
end XotModel
