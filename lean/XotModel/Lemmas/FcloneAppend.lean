/-
  Lemmas for C12, part 4: `any_append(current, new)` inside the edge replay, case by case
  (normal node appended, text absorbed by a preceding text, namespace node, attribute node).
-/
import XotModel.Lemmas.FcloneStep
import XotModel.Model.FcloneSpec

namespace XotModel
open HTree

namespace Work

variable {g : Forest} {R : List HTree} {fs : List CFrame} {c : Nat} {vc : Value} {K : List HTree}
  {n : Nat} {v : Value}

/-- Look at the last child of the focus instead. -/
theorem descend {K' : List HTree} {m : Nat} {vm : Value} {mk : List HTree}
    (w : Work g R fs c vc (K' ++ [.node m vm mk]) n v) :
    Work g R (fs ++ [⟨c, vc, K'⟩]) m vm mk n v := by
  have e : frameHandles (fs ++ [⟨c, vc, K'⟩]) ++ m :: handlesList mk =
      frameHandles fs ++ c :: handlesList (K' ++ [.node m vm mk]) := by
    simp [frameHandles_append, frameHandles, handlesList_append, handlesList, handles]
  refine ⟨?_, ?_, ?_⟩
  · rw [w.roots, fcPlug_append]
  · rw [e]; exact w.nodup
  · rw [e]; exact w.fresh

theorem removeConsolidate_none (g : Forest) (x : Option Nat) : g.removeConsolidate none x = (g, false) := by
  unfold Forest.removeConsolidate
  cases g.consolidation <;> simp

theorem lastChild_ne (w : Work g R fs c vc K n v) : (g.lastChild c == some n) = false := by
  rcases List.eq_nil_or_concat K with rfl | ⟨K', x, rfl⟩
  · simp [w.lastChild_nil]
  · rw [List.concat_eq_append] at w
    rw [w.lastChild_snoc]
    have hx : x.handle ≠ n := w.kn (by
      rw [handlesList_append, handlesList_singleton]
      exact List.mem_append_right _ (fc_handle_mem_handles x))
    by_cases hN : x.value.isNormal = true <;> simp [hN, hx]

theorem structureCheck_fresh (w : Work g R fs c vc K n v)
    (hvc : vc.isElement = true ∨ vc.isDocument = true)
    (hv : v.isNormal = true) (hnd : v.isDocument = false) :
    g.structureCheck (some c) n = true := by
  unfold Forest.structureCheck
  simp only [w.isElement_c, w.isDocument_c, w.not_anc, w.value?_n]
  cases v <;> simp_all [Value.isNormal, Value.category, Value.isDocument]

theorem checkedAppend_fresh (w : Work g R fs c vc K n v) :
    g.checkedAppend c n = (g.withRoots (R ++ [fcPlug fs (.node c vc (K ++ [.node n v []]))]), true) := by
  unfold Forest.checkedAppend
  have h1 : (c = n) = False := by simp [Ne.symm w.nc]
  simp only [h1, w.not_anc, decide_false, Bool.or_false, Bool.false_eq_true, if_false, w.cut_n]
  rw [placeLast_work g R fs c vc K _ w.cR w.cF]

theorem textOf_n (w : Work g R fs c vc K n v) :
    g.textOf n = (match v with | .text s => some s | _ => none) := by
  unfold Forest.textOf
  rw [w.value?_n]
  cases v <;> rfl

theorem textOf_last {K' : List HTree} {x : HTree} (w : Work g R fs c vc (K' ++ [x]) n v) :
    g.textOf x.handle = (match x.value with | .text s => some s | _ => none) := by
  cases x with
  | node m vm mk =>
    have w' := w.descend
    unfold Forest.textOf
    simp only [HTree.handle, HTree.value]
    rw [w'.value?_c]
    cases vm <;> rfl

/-- No absorption: consolidation off, or the new node is not text, or the last child is not text. -/
theorem addConsolidate_plain (w : Work g R fs c vc K n v)
    (hnm : g.consolidation = false ∨ v.isText = false ∨
      ∀ K' x, K = K' ++ [x] → x.value.isText = false) :
    g.addConsolidate n (g.lastChild c) none = (g, false) := by
  rw [Forest.addConsolidate_eq_old_of_ne (by simpa using w.lastChild_ne) (by simp)]
  unfold Forest.addConsolidateOld
  by_cases hc : g.consolidation = false
  · simp [hc]
  · have hc' : g.consolidation = true := by simpa using hc
    simp only [hc', Bool.not_true, Bool.false_eq_true, if_false]
    rw [w.textOf_n]
    cases v with
    | text s =>
      simp only
      rcases hnm with h | h | h
      · exact absurd h hc
      · simp [Value.isText] at h
      · rcases List.eq_nil_or_concat K with rfl | ⟨K', x, rfl⟩
        · simp [w.lastChild_nil]
        · rw [List.concat_eq_append] at w h
          rw [w.lastChild_snoc]
          have hx := h K' x rfl
          by_cases hN : x.value.isNormal = true
          · simp only [hN, if_true]
            rw [w.textOf_last]
            cases hxv : x.value <;> simp_all [Value.isText]
          · simp [hN]
    | _ => rfl

theorem append_plain (w : Work g R fs c vc K n v)
    (hvc : vc.isElement = true ∨ vc.isDocument = true)
    (hv : v.isNormal = true) (hnd : v.isDocument = false)
    (hnm : g.consolidation = false ∨ v.isText = false ∨
      ∀ K' x, K = K' ++ [x] → x.value.isText = false) :
    g.append c n = (g.withRoots (R ++ [fcPlug fs (.node c vc (K ++ [.node n v []]))]), .ok) := by
  unfold Forest.append
  simp only [w.structureCheck_fresh hvc hv hnd, w.lastChild_ne, w.prevSibling_n, w.nextSibling_n,
    removeConsolidate_none, w.addConsolidate_plain hnm, w.checkedAppend_fresh,
    Bool.not_true, Bool.false_eq_true, if_false, if_true]

end Work
end XotModel
