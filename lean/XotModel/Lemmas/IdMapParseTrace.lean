/-
  C08 and parsing, part 3: the interning tables a parse leaves are the tables it started from
  after exactly the calls of `Builder.runRegs` (`Model/IdMapParse.lean`) — for every token list,
  accepted (`.ok`) or rejected (`.err`, which carries the tables as the failing call left them).

  The statements are per function of the builder; each says: whatever result carries tables, those
  tables are `regAll` of the function's trace.  Nothing else of the builder state is looked at.
-/
import XotModel.Lemmas.IdMapParseIds
import XotModel.Lemmas.IdMapParseQName

namespace XotModel
namespace IdParse

/-! ### `NameIdBuilder` -/

theorem elementNameId_ok {env env' : Env} {stack : NsStack} {p n : Str} {sp : Span} {id : Nat}
    (h : elementNameId env stack p n sp = .ok (env', id)) :
    ∃ ns, lookupPrefix stack (env.internPrefix p).2 = some ns ∧
      elementNameRegs env stack p n = [.pfx p, .name n ns] ∧
      env.regAll (elementNameRegs env stack p n) = (env', [(env.internPrefix p).2, id]) := by
  unfold elementNameId at h
  dsimp only at h
  split at h
  · rename_i ns hns
    simp only [Step.ok.injEq] at h
    refine ⟨ns, hns, by simp only [elementNameRegs, hns], ?_⟩
    simp only [elementNameRegs, hns, Env.regAll, Env.reg]
    rw [h]
  · cases h

theorem elementNameId_err {env env' : Env} {stack : NsStack} {p n : Str} {sp : Span} {e : ParseErr}
    (h : elementNameId env stack p n sp = .err e env') :
    (env.regAll (elementNameRegs env stack p n)).1 = env' := by
  unfold elementNameId at h
  dsimp only at h
  split at h
  · cases h
  · rename_i hns
    simp only [Step.err.injEq] at h
    simp only [elementNameRegs, hns, Env.regAll, Env.reg]
    exact h.2

theorem elementNameId_no_panic (env : Env) (stack : NsStack) (p n : Str) (sp : Span) :
    elementNameId env stack p n sp ≠ .panic := by
  unfold elementNameId
  dsimp only
  split <;> simp

theorem attributeNameId_ok {env env' : Env} {stack : NsStack} {p n : Str} {sp : Span} {id : Nat}
    (h : attributeNameId env stack p n sp = .ok (env', id)) :
    ∃ ns, attributeNameRegs env stack p n = [.pfx p, .name n ns] ∧
      (ns = Env.noNamespace ∨ lookupPrefix stack (env.internPrefix p).2 = some ns) ∧
      env.regAll (attributeNameRegs env stack p n) = (env', [(env.internPrefix p).2, id]) := by
  unfold attributeNameId at h
  dsimp only at h
  split at h
  · rename_i h0
    simp only [Step.ok.injEq] at h
    refine ⟨Env.noNamespace, by simp only [attributeNameRegs, h0, if_true], Or.inl rfl, ?_⟩
    simp only [attributeNameRegs, h0, if_true, Env.regAll, Env.reg]
    rw [h]
  · rename_i h0
    split at h
    · rename_i ns hns
      simp only [Step.ok.injEq] at h
      refine ⟨ns, (by simp only [attributeNameRegs, h0, hns]; rfl), Or.inr hns, ?_⟩
      simp only [attributeNameRegs, h0, hns, Env.regAll, Env.reg, if_false, Bool.false_eq_true]
      rw [h]
    · cases h

theorem attributeNameId_err {env env' : Env} {stack : NsStack} {p n : Str} {sp : Span} {e : ParseErr}
    (h : attributeNameId env stack p n sp = .err e env') :
    (env.regAll (attributeNameRegs env stack p n)).1 = env' := by
  unfold attributeNameId at h
  dsimp only at h
  split at h
  · cases h
  · rename_i h0
    split at h
    · cases h
    · rename_i hns
      simp only [Step.err.injEq] at h
      simp only [attributeNameRegs, h0, hns, Env.regAll, Env.reg]
      exact h.2

theorem attributeNameId_no_panic (env : Env) (stack : NsStack) (p n : Str) (sp : Span) :
    attributeNameId env stack p n sp ≠ .panic := by
  unfold attributeNameId
  dsimp only
  split
  · simp
  · split <;> simp

/-! ### The attribute loop of `open_element` -/

/-- The loop, one attribute at a time. -/
theorem addAttributes_cons (stack : NsStack) (node : Path) (st : AttrLoop) (ab : AttributeBuilder)
    (rest : List AttributeBuilder) :
    addAttributes stack node st (ab :: rest) =
      match addAttributes stack node st [ab] with
      | .ok st1 => addAttributes stack node st1 rest
      | .err e env => .err e env
      | .panic => .panic := by
  simp only [addAttributes]
  cases attributeNameId st.env stack ab.pfx ab.name ab.prefixSpan with
  | panic => rfl
  | err e env => rfl
  | ok r =>
    obtain ⟨env1, nameId⟩ := r
    simp only
    split
    · rfl
    · split <;> rfl

/-- One turn of the loop: the tables it leaves. -/
theorem addAttributes_one (stack : NsStack) (node : Path) (st : AttrLoop) (ab : AttributeBuilder) :
    (∀ st', addAttributes stack node st [ab] = .ok st' →
      st'.env = (st.env.regAll (attributeNameRegs st.env stack ab.pfx ab.name)).1) ∧
    (∀ e env', addAttributes stack node st [ab] = .err e env' →
      env' = (st.env.regAll (attributeNameRegs st.env stack ab.pfx ab.name)).1) ∧
    addAttributes stack node st [ab] ≠ .panic := by
  simp only [addAttributes]
  cases hn : attributeNameId st.env stack ab.pfx ab.name ab.prefixSpan with
  | panic => exact absurd hn (attributeNameId_no_panic _ _ _ _ _)
  | err e env =>
    have := attributeNameId_err hn
    refine ⟨fun st' h => (by cases h), fun e' env' h => ?_, by simp⟩
    simp only [Step.err.injEq] at h
    rw [this, h.2]
  | ok r =>
    obtain ⟨env1, nameId⟩ := r
    obtain ⟨ns, _, _, hall⟩ := attributeNameId_ok hn
    have henv : (st.env.regAll (attributeNameRegs st.env stack ab.pfx ab.name)).1 = env1 := by rw [hall]
    simp only
    split
    · refine ⟨fun st' h => (by cases h), fun e' env' h => ?_, by simp⟩
      simp only [Step.err.injEq] at h
      rw [henv, h.2]
    · split
      · refine ⟨fun st' h => (by cases h), fun e' env' h => ?_, by simp⟩
        simp only [Step.err.injEq] at h
        rw [henv, h.2]
      · refine ⟨fun st' h => ?_, fun e' env' h => (by cases h), by simp⟩
        simp only [Step.ok.injEq] at h
        rw [henv, ← h]

theorem addAttributes_trace (stack : NsStack) (node : Path) (abs : List AttributeBuilder) :
    ∀ (st : AttrLoop),
      (∀ st', addAttributes stack node st abs = .ok st' →
        st'.env = (st.env.regAll (attrsRegs stack node st abs)).1) ∧
      (∀ e env', addAttributes stack node st abs = .err e env' →
        env' = (st.env.regAll (attrsRegs stack node st abs)).1) ∧
      addAttributes stack node st abs ≠ .panic := by
  induction abs with
  | nil =>
    intro st
    refine ⟨fun st' h => ?_, fun e env' h => (by simp [addAttributes] at h), by simp [addAttributes]⟩
    simp only [addAttributes, Step.ok.injEq] at h
    subst h; rfl
  | cons ab rest ih =>
    intro st
    obtain ⟨h1, h2, h3⟩ := addAttributes_one stack node st ab
    rw [addAttributes_cons]
    simp only [attrsRegs]
    cases hone : addAttributes stack node st [ab] with
    | panic => exact absurd hone h3
    | err e env =>
      simp only [List.append_nil]
      refine ⟨fun st' h => (by cases h), fun e' env' h => ?_, by simp⟩
      simp only [Step.err.injEq] at h
      rw [← h.2]; exact h2 e env hone
    | ok st1 =>
      simp only [Env.regAll_append]
      rw [← h1 st1 hone]
      exact ih st1

/-! ### `DocumentBuilder` -/

theorem openElement_trace (b : Builder) :
    (∀ b', b.openElement = .ok b' → b'.env = (b.env.regAll b.openRegs).1) ∧
    (∀ e env', b.openElement = .err e env' → env' = (b.env.regAll b.openRegs).1) := by
  unfold Builder.openElement Builder.openRegs
  cases heb : b.eb with
  | none => exact ⟨fun b' h => (by cases h), fun e env' h => by cases h⟩
  | some eb =>
    dsimp only
    cases hn : elementNameId b.env (eb.namespaces :: b.nsStack) eb.pfx eb.name eb.prefixSpan with
    | panic => exact absurd hn (elementNameId_no_panic _ _ _ _ _)
    | err e env =>
      have := elementNameId_err hn
      simp only [List.append_nil]
      refine ⟨fun b' h => (by cases h), fun e' env' h => ?_⟩
      simp only [Step.err.injEq] at h
      rw [this, h.2]
    | ok r =>
      obtain ⟨env1, nameId⟩ := r
      obtain ⟨ns, _, _, hall⟩ := elementNameId_ok hn
      simp only [Env.regAll_append, hall]
      obtain ⟨a1, a2, a3⟩ := addAttributes_trace (eb.namespaces :: b.nsStack) (b.curPath ++ [b.cur.rkids.length])
        eb.attributes
          { env := env1, seenIds := b.seenIds, idNodes := b.idNodes, seenNames := [],
            rkids := namespaceKids eb.namespaces, aspans := [] }
      split
      · rename_i hp; exact absurd hp a3
      · rename_i e env hp
        refine ⟨fun b' h => (by cases h), fun e' env' h => ?_⟩
        simp only [Step.err.injEq] at h
        rw [← h.2]; exact a2 e env hp
      · rename_i st hp
        refine ⟨fun b' h => ?_, fun e' env' h => by cases h⟩
        simp only [Step.ok.injEq] at h
        rw [← h]; exact a1 st hp

theorem prefix_trace (b : Builder) (p : Str) (u : StrSpan) (sp : Span) :
    (∀ b', b.prefix p u sp = .ok b' → b'.env = (b.env.regAll (prefixRegs p u)).1) ∧
    (∀ e env', b.prefix p u sp = .err e env' → env' = (b.env.regAll (prefixRegs p u)).1) := by
  unfold Builder.prefix prefixRegs
  cases parseContentGo true u.start 0 u.text with
  | error e =>
    refine ⟨fun b' h => (by cases h), fun e' env' h => ?_⟩
    simp only [Step.err.injEq] at h
    exact h.2.symm
  | ok us =>
    dsimp only
    by_cases hres : reservedDecl p us = true
    · simp only [hres, if_true]
      refine ⟨fun b' h => (by cases h), fun e' env' h => ?_⟩
      simp only [Step.err.injEq] at h
      rw [← h.2]; rfl
    simp only [hres, if_false, Bool.false_eq_true]
    cases b.eb with
    | none => exact ⟨fun b' h => (by cases h), fun e env' h => by cases h⟩
    | some eb =>
      dsimp only
      split
      · refine ⟨fun b' h => (by cases h), fun e' env' h => ?_⟩
        simp only [Step.err.injEq] at h
        rw [← h.2]; rfl
      · refine ⟨fun b' h => ?_, fun e' env' h => by cases h⟩
        simp only [Step.ok.injEq] at h
        rw [← h]; rfl

theorem toParent_env {b b' : Builder} (h : b.toParent = .ok b') : b'.env = b.env := by
  unfold Builder.toParent at h
  split at h
  · cases h
  · simp only [Step.ok.injEq] at h; rw [← h]

theorem toParent_no_err {b : Builder} {e : ParseErr} {env : Env} : b.toParent ≠ .err e env := by
  unfold Builder.toParent
  split <;> simp

theorem leave_env {b : Builder} (node : Path) (sp : StrSpan) :
    (∀ b', b.leave node sp = .ok b' → b'.env = b.env) ∧ (∀ e env', b.leave node sp ≠ .err e env') := by
  unfold Builder.leave
  cases ht : b.toParent with
  | ok b2 =>
    refine ⟨fun b' h => ?_, fun e env' h => by cases h⟩
    simp only [Step.ok.injEq] at h
    have := toParent_env ht
    rw [← h]; exact this
  | err e env => exact absurd ht toParent_no_err
  | panic => exact ⟨fun b' h => (by cases h), fun e env' h => by cases h⟩

theorem closeImmediate_env {b : Builder} (sp : StrSpan) :
    (∀ b', b.closeImmediate sp = .ok b' → b'.env = b.env) ∧ (∀ e env', b.closeImmediate sp ≠ .err e env') := by
  unfold Builder.closeImmediate
  dsimp only
  split
  · exact leave_env b.curPath sp
  · exact leave_env b.curPath sp

theorem closeElement_trace (b : Builder) (pfx loc sp : StrSpan) :
    (∀ b', b.closeElement pfx loc sp = .ok b' →
      b'.env = (b.env.regAll (elementNameRegs b.env b.nsStack pfx.text loc.text)).1) ∧
    (∀ e env', b.closeElement pfx loc sp = .err e env' →
      env' = (b.env.regAll (elementNameRegs b.env b.nsStack pfx.text loc.text)).1) := by
  unfold Builder.closeElement
  cases hn : elementNameId b.env b.nsStack pfx.text loc.text pfx.span with
  | panic => exact absurd hn (elementNameId_no_panic _ _ _ _ _)
  | err e env =>
    have := elementNameId_err hn
    refine ⟨fun b' h => (by cases h), fun e' env' h => ?_⟩
    simp only [Step.err.injEq] at h
    rw [this, h.2]
  | ok r =>
    obtain ⟨env1, nameId⟩ := r
    obtain ⟨ns, _, _, hall⟩ := elementNameId_ok hn
    have henv : (b.env.regAll (elementNameRegs b.env b.nsStack pfx.text loc.text)).1 = env1 := by rw [hall]
    rw [henv]
    dsimp only
    split
    · refine ⟨fun b' h => (by cases h), fun e' env' h => ?_⟩
      simp only [Step.err.injEq] at h
      exact h.2.symm
    · split
      · split
        · refine ⟨fun b' h => (by cases h), fun e' env' h => ?_⟩
          simp only [Step.err.injEq] at h
          exact h.2.symm
        · exact ⟨fun b' h => (leave_env b.curPath sp).1 b' h,
            fun e' env' h => absurd h ((leave_env b.curPath sp).2 e' env')⟩
      · exact ⟨fun b' h => (leave_env b.curPath sp).1 b' h,
          fun e' env' h => absurd h ((leave_env b.curPath sp).2 e' env')⟩

theorem attribute_env (b : Builder) (pfx loc value : StrSpan) :
    (∀ b', b.attribute pfx loc value = .ok b' → b'.env = b.env) ∧
    (∀ e env', b.attribute pfx loc value = .err e env' → env' = b.env) := by
  unfold Builder.attribute
  cases b.eb with
  | none => exact ⟨fun b' h => (by cases h), fun e env' h => by cases h⟩
  | some eb =>
    dsimp only
    split
    · refine ⟨fun b' h => (by cases h), fun e' env' h => ?_⟩
      simp only [Step.err.injEq] at h
      exact h.2.symm
    · split
      · refine ⟨fun b' h => (by cases h), fun e' env' h => ?_⟩
        simp only [Step.err.injEq] at h
        exact h.2.symm
      · refine ⟨fun b' h => ?_, fun e' env' h => by cases h⟩
        simp only [Step.ok.injEq] at h
        rw [← h]

theorem addText_env (b : Builder) (c : Str) : (b.addText c).1.env = b.env := by
  unfold Builder.addText
  split <;> rfl

theorem text_env (b : Builder) (t : StrSpan) :
    (∀ b', b.text t = .ok b' → b'.env = b.env) ∧ (∀ e env', b.text t = .err e env' → env' = b.env) := by
  unfold Builder.text
  split
  · refine ⟨fun b' h => (by cases h), fun e' env' h => ?_⟩
    simp only [Step.err.injEq] at h
    exact h.2.symm
  · refine ⟨fun b' h => ?_, fun e' env' h => by cases h⟩
    simp only [Step.ok.injEq] at h
    rw [← h]; exact addText_env b _

theorem cdata_env (b : Builder) (t : StrSpan) :
    (∀ b', b.cdata t = .ok b' → b'.env = b.env) ∧ (∀ e env', b.cdata t ≠ .err e env') := by
  unfold Builder.cdata
  split
  · refine ⟨fun b' h => ?_, fun e' env' h => by cases h⟩
    simp only [Step.ok.injEq] at h
    rw [← h]
  · refine ⟨fun b' h => ?_, fun e' env' h => by cases h⟩
    simp only [Step.ok.injEq] at h
    rw [← h]; exact addText_env b _

theorem processingInstruction_env (b : Builder) (target : StrSpan) (content : Option StrSpan) :
    (b.processingInstruction target content).env = (b.env.internName target.text Env.noNamespace).1 := by
  unfold Builder.processingInstruction
  rfl

/-! ### The token loop -/

/-- One arm (after `check_qname`). -/
theorem stepCore_trace (b : Builder) (t : Token) :
    (∀ b', b.stepCore t = .ok b' → b'.env = (b.env.regAll (b.stepRegsCore t)).1) ∧
    (∀ e env', b.stepCore t = .err e env' → env' = (b.env.regAll (b.stepRegsCore t)).1) := by
  cases t with
  | «attribute» pfx loc value sp =>
    simp only [Builder.stepCore, Builder.stepRegsCore]
    split
    · exact prefix_trace b _ _ _
    · split
      · exact prefix_trace b _ _ _
      · exact attribute_env b pfx loc value
  | text t => exact text_env b t
  | cdata t sp =>
    obtain ⟨h1, h2⟩ := cdata_env b t
    exact ⟨h1, fun e env' h => absurd h (h2 e env')⟩
  | elementStart pfx loc sp =>
    refine ⟨fun b' h => ?_, fun e env' h => by cases h⟩
    simp only [Builder.stepCore, Step.ok.injEq] at h
    rw [← h]; rfl
  | elementEnd ee sp =>
    cases ee with
    | «open» => exact openElement_trace b
    | close pfx loc => exact closeElement_trace b pfx loc sp
    | empty =>
      obtain ⟨o1, o2⟩ := openElement_trace b
      simp only [Builder.stepCore, Builder.stepRegsCore]
      cases ho : b.openElement with
      | panic => exact ⟨fun b' h => (by cases h), fun e env' h => by cases h⟩
      | err e env =>
        refine ⟨fun b' h => (by cases h), fun e' env' h => ?_⟩
        simp only [Step.err.injEq] at h
        rw [← h.2]; exact o2 e env ho
      | ok b1 =>
        obtain ⟨c1, c2⟩ := closeImmediate_env (b := b1) sp
        refine ⟨fun b' h => ?_, fun e' env' h => absurd h (c2 e' env')⟩
        rw [c1 b' h]; exact o1 b1 ho
  | comment t sp =>
    refine ⟨fun b' h => ?_, fun e env' h => by cases h⟩
    simp only [Builder.stepCore, Step.ok.injEq] at h
    rw [← h]; rfl
  | pi target content sp =>
    simp only [Builder.stepCore, Builder.stepRegsCore]
    split
    · refine ⟨fun b' h => (by cases h), fun e' env' h => ?_⟩
      simp only [Step.err.injEq] at h
      rw [← h.2]; rfl
    · refine ⟨fun b' h => ?_, fun e env' h => by cases h⟩
      simp only [Step.ok.injEq] at h
      rw [← h, processingInstruction_env]; rfl
  | declaration version enc sa sp =>
    simp only [Builder.stepCore, Builder.stepRegsCore]
    split
    · refine ⟨fun b' h => (by cases h), fun e' env' h => ?_⟩
      simp only [Step.err.injEq] at h
      exact h.2.symm
    · refine ⟨fun b' h => ?_, fun e' env' h => by cases h⟩
      simp only [Step.ok.injEq] at h
      rw [← h]; rfl
  | dtdStart sp =>
    refine ⟨fun b' h => (by cases h), fun e' env' h => ?_⟩
    simp only [Builder.stepCore, Step.err.injEq] at h
    exact h.2.symm
  | dtdEnd sp =>
    refine ⟨fun b' h => (by cases h), fun e' env' h => ?_⟩
    simp only [Builder.stepCore, Step.err.injEq] at h
    exact h.2.symm
  | emptyDtd sp =>
    refine ⟨fun b' h => (by cases h), fun e' env' h => ?_⟩
    simp only [Builder.stepCore, Step.err.injEq] at h
    exact h.2.symm
  | entityDecl sp =>
    refine ⟨fun b' h => (by cases h), fun e' env' h => ?_⟩
    simp only [Builder.stepCore, Step.err.injEq] at h
    exact h.2.symm

/-- One token: whatever result carries tables, they are the tables before after the token's calls
    (a name refused by `check_qname` registers nothing and leaves the tables alone). -/
theorem step_trace (b : Builder) (t : Token) :
    (∀ b', b.step t = .ok b' → b'.env = (b.env.regAll (b.stepRegs t)).1) ∧
    (∀ e env', b.step t = .err e env' → env' = (b.env.regAll (b.stepRegs t)).1) := by
  cases hq : t.prefixOk with
  | true =>
    rw [b.step_eq_core hq, b.stepRegs_eq_core hq]
    exact stepCore_trace b t
  | false =>
    obtain ⟨p, l, _, _, he⟩ := b.step_refused hq
    rw [he, b.stepRegs_refused hq]
    refine ⟨fun b' h => (by cases h), fun e env' h => ?_⟩
    simp only [Step.err.injEq] at h
    rw [← h.2]; rfl

theorem run_trace (ts : List Token) (lexErr : Option Nat) : ∀ (b : Builder),
    (∀ b', b.run ts lexErr = .ok b' → b'.env = (b.env.regAll (b.runRegs ts)).1) ∧
    (∀ e env', b.run ts lexErr = .err e env' → env' = (b.env.regAll (b.runRegs ts)).1) := by
  induction ts with
  | nil =>
    intro b
    cases lexErr with
    | none =>
      simp only [Builder.run, Builder.runRegs, Env.regAll]
      split
      · refine ⟨fun b' h => (by cases h), fun e' env' h => ?_⟩
        simp only [Step.err.injEq] at h
        exact h.2.symm
      · refine ⟨fun b' h => ?_, fun e' env' h => by cases h⟩
        simp only [Step.ok.injEq] at h
        rw [← h]
    | some pos =>
      simp only [Builder.run, Builder.runRegs, Env.regAll]
      refine ⟨fun b' h => (by cases h), fun e' env' h => ?_⟩
      simp only [Step.err.injEq] at h
      exact h.2.symm
  | cons t ts ih =>
    intro b
    obtain ⟨s1, s2⟩ := step_trace b t
    simp only [Builder.run, Builder.runRegs]
    cases hs : b.step t with
    | panic => exact ⟨fun b' h => (by cases h), fun e env' h => by cases h⟩
    | err e env =>
      simp only [List.append_nil]
      refine ⟨fun b' h => (by cases h), fun e' env' h => ?_⟩
      simp only [Step.err.injEq] at h
      rw [← h.2]; exact s2 e env hs
    | ok b1 =>
      simp only [Env.regAll_append]
      rw [← s1 b1 hs]
      exact ih b1

/-- The epilogues keep the tables. -/
theorem finish_env (m : Mode) (len : Nat) (b : Builder) :
    (∀ p : Parsed, (match m with | .document => b.finishDocument len | .fragment => b.finishFragment) = .ok p → p.env = b.env) ∧
    (∀ (e : ParseErr) (env' : Env), (match m with | .document => b.finishDocument len | .fragment => b.finishFragment) = .err e env' →
      env' = b.env) := by
  have hu : (∀ p, b.unclosed ≠ .ok p) ∧ (∀ e env', b.unclosed = .err e env' → env' = b.env) := by
    unfold Builder.unclosed
    split
    · refine ⟨fun p h => (by cases h), fun e env' h => ?_⟩
      simp only [BuildResult.err.injEq] at h
      exact h.2.symm
    · exact ⟨fun p h => (by cases h), fun e env' h => by cases h⟩
  cases m with
  | document =>
    simp only [Builder.finishDocument]
    split
    · split
      · exact ⟨fun p h => (by cases h), fun e env' h => by cases h⟩
      · refine ⟨fun p h => (by cases h), fun e' env' h => ?_⟩
        simp only [BuildResult.err.injEq] at h
        exact h.2.symm
      · split
        · refine ⟨fun p h => (by cases h), fun e' env' h => ?_⟩
          simp only [BuildResult.err.injEq] at h
          exact h.2.symm
        · refine ⟨fun p h => ?_, fun e' env' h => by cases h⟩
          simp only [BuildResult.ok.injEq] at h
          rw [← h]; rfl
        · split
          · refine ⟨fun p h => (by cases h), fun e' env' h => ?_⟩
            simp only [BuildResult.err.injEq] at h
            exact h.2.symm
          · exact ⟨fun p h => (by cases h), fun e env' h => by cases h⟩
    · exact ⟨fun p h => absurd h (hu.1 p), hu.2⟩
  | fragment =>
    simp only [Builder.finishFragment]
    split
    · refine ⟨fun p h => ?_, fun e' env' h => by cases h⟩
      simp only [BuildResult.ok.injEq] at h
      rw [← h]; rfl
    · exact ⟨fun p h => absurd h (hu.1 p), hu.2⟩

/-- `parse` / `parse_fragment`: accepted or rejected, the tables left behind are the tables at the
    outset after exactly the calls `buildRegs env ts`. -/
theorem build_trace (m : Mode) (len : Nat) (env : Env) (ts : List Token) (lexErr : Option Nat) :
    (∀ p, build m len env ts lexErr = .ok p → p.env = (env.regAll (buildRegs env ts)).1) ∧
    (∀ e env', build m len env ts lexErr = .err e env' → env' = (env.regAll (buildRegs env ts)).1) := by
  obtain ⟨r1, r2⟩ := run_trace ts lexErr (Builder.new env)
  unfold build buildRegs
  cases hr : (Builder.new env).run ts lexErr with
  | panic => exact ⟨fun p h => (by cases h), fun e env' h => by cases h⟩
  | err e env1 =>
    refine ⟨fun p h => (by cases h), fun e' env' h => ?_⟩
    simp only [BuildResult.err.injEq] at h
    rw [← h.2]; exact r2 e env1 hr
  | ok b =>
    have hb : b.env = _ := r1 b hr
    obtain ⟨f1, f2⟩ := finish_env m len b
    have he : (Builder.new env).env = env := rfl
    rw [he] at hb
    rw [← hb]
    exact ⟨f1, f2⟩

end IdParse
end XotModel
