/-
  Lemmas for C12, part 11: everything about `clone_node` in one statement.
-/
import XotModel.Lemmas.FcloneSpecFacts

namespace XotModel
open HTree

theorem Forest.isLive_iff (f : Forest) (h : Nat) : f.isLive h = true ↔ ∃ t, f.get? h = some t := by
  unfold Forest.isLive
  cases f.get? h <;> simp

theorem find?_root (t : HTree) : find? t.handle t = some t := by
  cases t with
  | node h v ks => simp [find?, HTree.handle]

theorem findList?_append_some (h : Nat) (t : HTree) (A B : List HTree)
    (ht : findList? h A = some t) : findList? h (A ++ B) = some t := by
  induction A with
  | nil => simp [findList?] at ht
  | cons r rs ih =>
    simp only [List.cons_append, findList?] at ht ⊢
    cases hr : find? h r with
    | some x => rw [hr] at ht; exact ht
    | none => rw [hr] at ht; exact ih ht

/-- `clone_node(node)` on a live node of a forest satisfying the invariant: no panic; the result
    is one new last root `C`; all its handles are new; forgetting handles, `C` is the source with
    adjacent text merged (consolidation on) or the source (off); nothing else changes. -/
theorem cloneNode_full (f : Forest) (inv : f.Inv) (node : Nat) (src : HTree)
    (hsrc : f.get? node = some src) :
    ∃ (C : HTree) (f' : Forest), f.cloneNode node = (f', some C.handle) ∧
      f'.roots = f.roots ++ [C] ∧ f'.get? C.handle = some C ∧
      (∀ h ∈ handles C, f.next ≤ h ∧ h < f'.next) ∧ f.next ≤ f'.next ∧
      erase C = expectedClone f.consolidation (erase src) ∧
      f'.consolidation = f.consolidation ∧ f'.everOff = f.everOff ∧ f'.corrupt = f.corrupt ∧
      f'.allHandles.Nodup := by
  obtain ⟨f', h1, h2, h3, ⟨h4, h5, h6⟩, h7⟩ := cloneNode_spec f inv node src hsrc
  have hh := copyRoot_handles f.consolidation f.next src
  have hroot := hh _ (fc_handle_mem_handles _)
  refine ⟨(copyRoot f.consolidation f.next src).1, f', h1, h2, ?_, ?_, ?_, ?_, h4, h5, h6, ?_⟩
  · unfold Forest.get?
    rw [h2, findList?_append_of_not_mem]
    · simp only [findList?, find?_root]
    · intro hm
      have := inv.below _ hm
      omega
  · intro h hm
    rw [h3]
    exact hh h hm
  · rw [h3]; omega
  · exact erase_copyRoot _ _ _ _ (inv.valid_get hsrc)
  · unfold Forest.allHandles
    rw [h2, handlesList_append, handlesList_singleton]
    exact h7

end XotModel
