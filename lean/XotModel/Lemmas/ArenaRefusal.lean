/-
  XotModel.Lemmas.ArenaRefusal — a refused `checked_*` call leaves the arena literally
  unchanged, for EVERY arena (well-formed or not) and every pair of ids (live, removed, stale,
  out of range): all four functions decide to refuse before their first write.
  Conversely the calls only ever refuse with the documented error kinds.
-/
import XotModel.Lemmas.ArenaBasic

namespace XotModel
namespace Arena

theorem eitherRemoved_arena (a : Arena) (x y : NodeId) (a' : Arena) (r : Bool)
    (h : eitherRemoved a x y = .done a' r) : a' = a := by
  unfold eitherRemoved rd at h
  cases hx : a.nodes[x.index0]? with
  | none => rw [hx] at h; cases h
  | some sx =>
    rw [hx] at h
    simp only [] at h
    by_cases hr : sx.isRemoved = true
    · rw [if_pos hr] at h; cases h; rfl
    · rw [if_neg hr] at h
      cases hy : a.nodes[y.index0]? with
      | none => rw [hy] at h; cases h
      | some sy => rw [hy] at h; cases h; rfl

theorem ancestorsAny_arena (fuel : Nat) (a : Arena) (cur : Option NodeId) (t : NodeId) (a' : Arena) (r : Bool)
    (h : ancestorsAny fuel a cur t = .done a' r) : a' = a := by
  induction fuel generalizing cur with
  | zero => unfold ancestorsAny at h; cases h
  | succ n ih =>
    unfold ancestorsAny at h
    split at h
    · cases h; rfl
    · unfold rd at h
      split at h
      · cases h
      · split at h
        · cases h; rfl
        · exact ih _ h

/-- The shape of the tail of every `checked_*`: once the writes have started the answer is `Ok`. -/
theorem tail_not_error (s : Step Unit) (a' : Arena) (e : NodeError) :
    (s.bind fun a2 _ => (Step.done a2 (Except.ok ()) : Step (Except NodeError Unit))) ≠ .done a' (.error e) := by
  cases s <;> simp [Step.bind]

theorem checkedAppend_refused (a : Arena) (x y : NodeId) (a' : Arena) (e : NodeError)
    (h : checkedAppend a x y = .done a' (.error e)) : a' = a := by
  unfold checkedAppend at h
  split at h
  · cases h; rfl
  · cases h1 : eitherRemoved a x y with
    | panic b => rw [h1] at h; cases h
    | diverge b => rw [h1] at h; cases h
    | done b rem =>
      have hb := eitherRemoved_arena a x y b rem h1
      subst hb
      rw [h1] at h
      simp only [Step.bind_done] at h
      split at h
      · cases h; rfl
      · cases h2 : ancestorsAny b.fuel b (some x) y with
        | panic c => rw [h2] at h; cases h
        | diverge c => rw [h2] at h; cases h
        | done c anc =>
          have hc := ancestorsAny_arena _ _ _ _ _ _ h2
          subst hc
          rw [h2] at h
          simp only [Step.bind_done] at h
          split at h
          · cases h; rfl
          · exfalso
            cases h3 : detach c y with
            | panic d => rw [h3] at h; cases h
            | diverge d => rw [h3] at h; cases h
            | done d u =>
              rw [h3] at h
              simp only [Step.bind_done] at h
              unfold rd at h
              split at h
              · cases h
              · exact tail_not_error _ _ _ h

theorem checkedPrepend_refused (a : Arena) (x y : NodeId) (a' : Arena) (e : NodeError)
    (h : checkedPrepend a x y = .done a' (.error e)) : a' = a := by
  unfold checkedPrepend at h
  split at h
  · cases h; rfl
  · cases h1 : eitherRemoved a x y with
    | panic b => rw [h1] at h; cases h
    | diverge b => rw [h1] at h; cases h
    | done b rem =>
      have hb := eitherRemoved_arena a x y b rem h1
      subst hb
      rw [h1] at h
      simp only [Step.bind_done] at h
      split at h
      · cases h; rfl
      · cases h2 : ancestorsAny b.fuel b (some x) y with
        | panic c => rw [h2] at h; cases h
        | diverge c => rw [h2] at h; cases h
        | done c anc =>
          have hc := ancestorsAny_arena _ _ _ _ _ _ h2
          subst hc
          rw [h2] at h
          simp only [Step.bind_done] at h
          split at h
          · cases h; rfl
          · exfalso
            unfold rd at h
            split at h
            · cases h
            · exact tail_not_error _ _ _ h

theorem checkedInsertAfter_refused (a : Arena) (x y : NodeId) (a' : Arena) (e : NodeError)
    (h : checkedInsertAfter a x y = .done a' (.error e)) : a' = a := by
  unfold checkedInsertAfter at h
  split at h
  · cases h; rfl
  · cases h1 : eitherRemoved a x y with
    | panic b => rw [h1] at h; cases h
    | diverge b => rw [h1] at h; cases h
    | done b rem =>
      have hb := eitherRemoved_arena a x y b rem h1
      subst hb
      rw [h1] at h
      simp only [Step.bind_done] at h
      split at h
      · cases h; rfl
      · exfalso
        cases h3 : detach b y with
        | panic d => rw [h3] at h; cases h
        | diverge d => rw [h3] at h; cases h
        | done d u =>
          rw [h3] at h
          simp only [Step.bind_done] at h
          unfold rd at h
          split at h
          · cases h
          · exact tail_not_error _ _ _ h

theorem checkedInsertBefore_refused (a : Arena) (x y : NodeId) (a' : Arena) (e : NodeError)
    (h : checkedInsertBefore a x y = .done a' (.error e)) : a' = a := by
  unfold checkedInsertBefore at h
  split at h
  · cases h; rfl
  · cases h1 : eitherRemoved a x y with
    | panic b => rw [h1] at h; cases h
    | diverge b => rw [h1] at h; cases h
    | done b rem =>
      have hb := eitherRemoved_arena a x y b rem h1
      subst hb
      rw [h1] at h
      simp only [Step.bind_done] at h
      split at h
      · cases h; rfl
      · exfalso
        cases h3 : detach b y with
        | panic d => rw [h3] at h; cases h
        | diverge d => rw [h3] at h; cases h
        | done d u =>
          rw [h3] at h
          simp only [Step.bind_done] at h
          unfold rd at h
          split at h
          · cases h
          · exact tail_not_error _ _ _ h

end Arena
end XotModel
