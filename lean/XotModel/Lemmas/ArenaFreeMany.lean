/-
  XotModel.Lemmas.ArenaFreeMany — the state of the arena while `remove_subtree` is freeing slots
  one after the other: `FreeMany a fl F b` says that `b` is `a` with the slots `F` freed in that
  order (free list `fl ++ F`), all tree pointers and every other slot's stamp untouched.
-/
import XotModel.Lemmas.ArenaFreeStep

namespace XotModel
namespace Arena

structure FreeMany (a : Arena) (fl F : List Nat) (b : Arena) : Prop where
  free : FreeOk b (fl ++ F)
  ptrs : ∀ k, (b.slot k).map Slot.ptrs = (a.slot k).map Slot.ptrs
  stampOther : ∀ k, k ∉ F → (b.slot k).map (·.stamp) = (a.slot k).map (·.stamp)
  dataOther : ∀ k s, k ∉ F → a.slot k = some s → ∃ s', b.slot k = some s' ∧
    ((∃ v, s'.data = .data v) ↔ (∃ v, s.data = .data v))
  self : ∀ j, j ∈ F → ∀ s, a.slot j = some s → ∃ s' nf, b.slot j = some s' ∧
    s'.stamp = (if s.stamp < 32767 then -s.stamp - 1 else -s.stamp) ∧ s'.data = .nextFree nf
  length : b.nodes.length = a.nodes.length
  payload : ∀ k s v, k ∉ F → a.slot k = some s → s.data = .data v → ∃ s', b.slot k = some s' ∧ s'.data = .data v

theorem FreeMany.refl {a : Arena} {fl : List Nat} (f : FreeOk a fl) : FreeMany a fl [] a :=
  ⟨by simpa using f, fun _ => rfl, fun _ _ => rfl, fun k s _ hs => ⟨s, hs, Iff.rfl⟩,
   (fun j hj => by cases hj), rfl, fun k s v _ hs hd => ⟨s, hs, hd⟩⟩

theorem FreeMany.slot_of {a b : Arena} {fl F : List Nat} (m : FreeMany a fl F b) {k : Nat} {s : Slot}
    (hs : a.slot k = some s) : ∃ s', b.slot k = some s' ∧ s'.ptrs = s.ptrs := by
  have := m.ptrs k
  rw [hs] at this
  cases h : b.slot k with
  | none => rw [h] at this; simp at this
  | some s' => rw [h] at this; simp at this; exact ⟨s', rfl, this⟩

theorem FreeMany.slot_other {a b : Arena} {fl F : List Nat} (m : FreeMany a fl F b) {k : Nat} {s : Slot}
    (hk : k ∉ F) (hs : a.slot k = some s) : ∃ s', b.slot k = some s' ∧ s'.ptrs = s.ptrs ∧ s'.stamp = s.stamp := by
  obtain ⟨s', hs', hp⟩ := m.slot_of hs
  have := m.stampOther k hk
  rw [hs, hs'] at this
  simp at this
  exact ⟨s', hs', hp, this⟩

theorem FreeMany.snoc {a b b1 : Arena} {fl F : List Nat} {c : Nat} (m : FreeMany a fl F b)
    (st : FreeStep b (fl ++ F) c b1) (hc : c ∉ F) : FreeMany a fl (F ++ [c]) b1 := by
  refine ⟨by rw [← List.append_assoc]; exact st.free, fun k => (st.ptrs k).trans (m.ptrs k), ?_, ?_, ?_,
    st.length.trans m.length, ?_⟩
  rotate_right
  · intro k s v hk hs hd
    have h1 : k ∉ F := fun h => hk (List.mem_append_left _ h)
    have h2 : k ≠ c := fun e => hk (by rw [e]; simp)
    obtain ⟨s1, hs1, hd1⟩ := m.payload k s v h1 hs hd
    exact st.payload k s1 v h2 hs1 hd1
  · intro k hk
    have h1 : k ∉ F := fun h => hk (List.mem_append_left _ h)
    have h2 : k ≠ c := fun e => hk (by rw [e]; simp)
    exact (st.stampOther k h2).trans (m.stampOther k h1)
  · intro k s hk hs
    have h1 : k ∉ F := fun h => hk (List.mem_append_left _ h)
    have h2 : k ≠ c := fun e => hk (by rw [e]; simp)
    obtain ⟨s1, hs1, e1⟩ := m.dataOther k s h1 hs
    obtain ⟨s2, hs2, e2⟩ := st.dataOther k s1 h2 hs1
    exact ⟨s2, hs2, e2.trans e1⟩
  · intro j hj s hs
    rcases List.mem_append.mp hj with h | h
    · obtain ⟨s1, nf, hs1, e1, e2⟩ := m.self j h s hs
      have hjc : j ≠ c := fun e => hc (e ▸ h)
      obtain ⟨s2, hs2, e3⟩ := st.dataOther j s1 hjc hs1
      have hst := st.stampOther j hjc
      rw [hs1, hs2] at hst
      simp at hst
      refine ⟨s2, ?_, hs2, by rw [hst]; exact e1, ?_⟩
      · exact match s2.data with | .nextFree n => n | .data _ => none
      · cases hd : s2.data with
        | nextFree n => rfl
        | data v =>
          exfalso
          have := e3.mp ⟨v, hd⟩
          obtain ⟨v', hv'⟩ := this
          rw [e2] at hv'; cases hv'
    · simp at h; subst h
      obtain ⟨s1, hs1, hp, hst⟩ := m.slot_other hc hs
      obtain ⟨s2, nf, hs2, e1, e2⟩ := st.self s1 hs1
      exact ⟨s2, nf, hs2, by rw [e1, hst], e2⟩

end Arena
end XotModel
