/-
  FspecRemove — C05 for `remove`: exactly the targeted subtree disappears and the two text
  nodes it separated (if any) are merged into the earlier one.
-/
import XotModel.Lemmas.FspecMerge

namespace XotModel
open HTree Spec

/-- With consolidation on the forest holds no adjacent text nodes (always the case while
    consolidation has never been switched off; the scope of the C05 theorems). -/
def Forest.Normal (f : Forest) : Prop := f.consolidation = true → validList true f.roots = true

/-! ### A live node is a parentless tree or has a context -/

mutual
  theorem find?_root_or_ctx {n : Nat} : ∀ (t u : HTree), find? n t = some u →
      t.handle = n ∨ (ctxBelow n t).isSome = true
    | .node h v ks, u => by
      intro e
      rw [find?_node] at e
      by_cases hh : h = n
      · exact Or.inl hh
      · rw [if_neg hh] at e
        right
        rw [ctxBelow_node]
        exact findList?_ctxKids h [] ks u e
  theorem findList?_ctxKids {n : Nat} (p : Nat) : ∀ (left ks : List HTree) (u : HTree),
      findList? n ks = some u → (ctxKids n p left ks).isSome = true
    | left, [], u => by intro e; rw [findList?_nil] at e; cases e
    | left, k :: ks, u => by
      intro e
      by_cases hk : k.handle = n
      · rw [ctxKids_cons_hit hk]; rfl
      · cases hb : ctxBelow n k with
        | some c => rw [ctxKids_cons_below hk hb]; rfl
        | none =>
          rw [ctxKids_cons_skip hk hb]
          cases hf : find? n k with
          | some t =>
            cases find?_root_or_ctx k t hf with
            | inl h => exact absurd h hk
            | inr h => rw [hb] at h; cases h
          | none =>
            rw [findList?_cons_none hf] at e
            exact findList?_ctxKids p (left ++ [k]) ks u e
end

theorem Forest.root_or_ctx {f : Forest} {n : Nat} {u : HTree} (e : f.get? n = some u) :
    f.isRoot n = true ∨ ∃ c, f.ctx? n = some c := by
  unfold Forest.isRoot
  rw [Forest.ctx?_eq]
  rw [Forest.get?_eq] at e
  generalize f.roots = rs at e
  induction rs with
  | nil => rw [findList?_nil] at e; cases e
  | cons k rs ih =>
    cases hf : find? n k with
    | some t =>
      cases find?_root_or_ctx k t hf with
      | inl h => left; simp [h]
      | inr h =>
        right
        cases hb : ctxBelow n k with
        | none => rw [hb] at h; cases h
        | some c => exact ⟨c, by simp [List.findSome?_cons, hb]⟩
    | none =>
      rw [findList?_cons_none hf] at e
      cases ih e with
      | inl h => left; rw [List.any_cons, h]; simp
      | inr h =>
        right
        obtain ⟨c, hc⟩ := h
        cases hb : ctxBelow n k with
        | none => exact ⟨c, by simp [List.findSome?_cons, hb, hc]⟩
        | some c' => exact ⟨c', by simp [List.findSome?_cons, hb]⟩

/-! ### What validity gives at a site -/

theorem SiteAt.valid {f : Forest} {p : Nat} {v : Value} {L : List HTree} (s : SiteAt f p v L) {b : Bool}
    (hv : validList b f.roots = true) : validTree b (.node p v L) = true :=
  valid_findList f.roots _ hv s.kids

/-- Text children are leaves. -/
theorem SiteAt.leaf {f : Forest} {p : Nat} {v : Value} {L : List HTree} (s : SiteAt f p v L) {b : Bool}
    (hv : validList b f.roots = true) : ∀ t ∈ L, t.value.isText = true → t.kids = [] := by
  intro t ht htx
  have h1 := (validTree_node (s.valid hv)).2.2.2
  have h2 : validTree b t = true := by
    clear s
    induction L with
    | nil => cases ht
    | cons k ks ih =>
      rw [fs_validList_cons, Bool.and_eq_true] at h1
      cases List.mem_cons.1 ht with
      | inl e => rw [e]; exact h1.1
      | inr e => exact ih e h1.2
  cases t with
  | node th tv tks =>
    simp only [HTree.value] at htx
    simp only [HTree.kids]
    apply kids_nil_of_valid h2
    · cases tv <;> simp_all [Value.isText, Value.isElement]
    · cases tv <;> simp_all [Value.isText, Value.isDocument]

/-- The category condition of `oldSite` from the ordering of the child list. -/
theorem hcat_of_ordered {l : List HTree} {k : HTree} {r : List HTree} (ho : kidsOrdered (l ++ k :: r) = true) :
    ∀ a b, l.getLast? = some a → r.head? = some b → a.value.isText = true → b.value.isText = true →
      a.value.category = k.value.category ∧ b.value.category = k.value.category := by
  intro a b hl hr ha hb
  obtain ⟨l', el⟩ := List.getLast?_eq_some_iff.1 hl
  obtain ⟨r', er⟩ := List.head?_eq_some_iff.1 hr
  subst el er
  have : (l' ++ [a]) ++ k :: b :: r' = l' ++ a :: k :: b :: r' := by simp
  rw [this] at ho
  have hk := between_texts_normal ho ha
  rw [text_category ha, text_category hb, hk]
  exact ⟨rfl, rfl⟩

/-- The specification's merge of `l ++ r` (the child list after the node left), given what the
    model's old-site merge found. -/
theorem mergeRuns_after_leave {keep : Keep} {l r : List HTree} (hl : noAdjacentText l = true)
    (hr : noAdjacentText r = true)
    (hseam : ∀ a b, l.getLast? = some a → r.head? = some b → ¬ (a.value.isText = true ∧ b.value.isText = true)) :
    mergeRuns keep (l ++ r) = l ++ r :=
  mergeRuns_id keep (noAdj_append.2 ⟨hl, hr, hseam⟩)

theorem mergeRuns_after_leave_merge {keep : Keep} {l' r' : List HTree} {a b : HTree} {x y : Str}
    (hl : noAdjacentText (l' ++ [a]) = true) (hr : noAdjacentText (b :: r') = true)
    (hx : a.value = .text x) (hy : b.value = .text y) (hk : keep a.handle b.handle = true) :
    mergeRuns keep ((l' ++ [a]) ++ b :: r') = l' ++ a.setValue (.text (x ++ y)) :: r' := by
  have : (l' ++ [a]) ++ b :: r' = l' ++ a :: b :: r' := by simp
  rw [this, mergeRuns_seam keep hx hy hl hr]
  simp [join, hk]

/-! ### remove -/

theorem remove_spec {f : Forest} {n : Nat} {keep : Keep} (hkeep : ∀ a b, a ≠ n → keep a b = true)
    (inv : f.Inv) (norm : f.Normal) (live : f.isLive n = true) :
    (f.remove n).1 = specRemove keep n f := by
  have nd := inv.nodup
  unfold Forest.isLive at live
  cases hg : f.get? n with
  | none => rw [hg] at live; cases live
  | some u =>
  rcases Forest.root_or_ctx hg with hroot | ⟨c, hctx⟩
  · -- a parentless tree
    have hno : f.ctx? n = none := by
      cases hc : f.ctx? n with
      | none => rfl
      | some c => rw [Forest.isRoot_of_ctx nd hc] at hroot; cases hroot
    unfold Forest.remove specRemove
    simp only [Forest.prevSibling_of_no_ctx hno, Forest.nextSibling_of_no_ctx hno,
      Forest.removeConsolidate_none_left]
    unfold Forest.dropSubtree Forest.cut Forest.parent?
    rw [hg, hno]
    simp only [hroot, if_true, Option.map_none, Forest.mergeAt, Forest.editAt]
    rw [dropTop_eq_filter]
  · -- a node with a parent
    obtain ⟨e0, v, s⟩ := SiteAt.of_ctx nd hctx
    obtain ⟨p, l, k, r⟩ := c
    simp only at e0 s
    subst e0
    obtain ⟨ndL, _⟩ := s.nodupKids
    obtain ⟨tl, tr⟩ := tops_ne_of_nodup ndL
    have hpar : f.parent? k.handle = some p := by unfold Forest.parent?; rw [hctx]; rfl
    -- the cut
    have hcut : f.dropSubtree k.handle = f.editAt (some p) (replaceTop k.handle (fun _ => [])) := by
      unfold Forest.dropSubtree; rw [Forest.cut_of_ctx nd hctx]
    have hgL : replaceTop k.handle (fun _ => []) (l ++ k :: r) = l ++ r := by
      rw [replaceTop_mid rfl tl]; simp
    have s1 : SiteAt (f.editAt (some p) (replaceTop k.handle (fun _ => []))) p v (l ++ ([] ++ r)) := by
      have := s.edit (replaceTop k.handle (fun _ => [])) (by
        rw [hgL]
        simp only [fs_handlesList_append, handlesList_cons]
        exact (List.Sublist.refl _).append (List.sublist_append_right _ _))
      rw [hgL] at this
      exact this
    have hvalid := s.valid inv.valid
    have hord := (validTree_node hvalid).2.1
    have hleaf : ∀ t ∈ r, t.value.isText = true → t.kids = [] :=
      fun t ht => s.leaf inv.valid t (List.mem_append_right _ (List.mem_cons_of_mem _ ht))
    have hold := oldSite (k := k) s1 hleaf (hcat_of_ordered hord)
    unfold Forest.remove specRemove
    simp only [Forest.prevSibling_of_ctx hctx, Forest.nextSibling_of_ctx hctx, hpar, hcut]
    have hdrop : dropTop k.handle (l ++ k :: r) = l ++ r := dropTop_mid rfl tl tr
    unfold Forest.mergeAt
    rw [Forest.editAt_consolidation]
    rcases hold with ⟨h1, h2⟩ | ⟨hc, l', a, b, r', x, y, el, er, hx, hy, _, _, h3⟩
    · rw [h1]
      simp only
      rcases Bool.eq_false_or_eq_true f.consolidation with hc | hc
      · rw [hc, if_pos rfl, Forest.editAt_editAt]
        have hstrict := (validTree_node (s.valid (norm hc))).2.2.1 rfl
        obtain ⟨hl, hkr, _⟩ := noAdj_append.1 hstrict
        apply s.congr
        simp only [Function.comp]
        rw [hdrop, hgL, mergeRuns_after_leave hl (noAdj_tail hkr) (h2 (by rw [Forest.editAt_consolidation]; exact hc))]
      · rw [hc]
        simp only [Bool.false_eq_true, if_false]
        exact s.congr (by rw [hdrop, hgL])
    · rw [h3]
      simp only
      rw [Forest.editAt_consolidation] at hc
      rw [hc, if_pos rfl, Forest.editAt_editAt, Forest.editAt_editAt]
      have hstrict := (validTree_node (s.valid (norm hc))).2.2.1 rfl
      obtain ⟨hl, hkr, _⟩ := noAdj_append.1 hstrict
      subst el er
      have hak : a.handle ≠ k.handle := tl a (List.mem_append_right _ List.mem_cons_self)
      apply s.congr
      simp only [Function.comp]
      rw [hdrop, mergeRuns_after_leave_merge hl (noAdj_tail hkr) hx hy (hkeep _ _ hak)]
      simp

theorem Keep.resident_spec (n : Nat) : ∀ a b, a ≠ n → Keep.resident n a b = true := by
  intro a b h; simp [Keep.resident, h]

theorem Keep.earlier_spec (n : Nat) : ∀ a b, a ≠ n → Keep.earlier a b = true := fun _ _ _ => rfl

end XotModel
