/-
  FspecPairAfter2 — C05 for `insert_after`, PAIR reading, part 2: `insert_after` after its
  argument checks (`afterChecks`), and the two geometries in which the moved node is NOT a child
  of the destination parent: a parentless tree (`geo_root`), a child of another node (`geo_kid`).
  The old-place consolidation is evaluated with `oldSite` (local facts); the specification's
  `mergeLeftAt` is moved in front of the graft (`spec_commute`).
-/
import XotModel.Lemmas.FspecPairAfter

namespace XotModel
open HTree Spec

namespace PairAfter

/-- `insert_after` after the two argument checks and the same-position exit. -/
def afterChecks (f : Forest) (r c : Nat) : Forest × Res :=
  insertAfterTail (f.removeConsolidate (f.prevSibling c) (f.nextSibling c)).1
    (if (f.removeConsolidate (f.prevSibling c) (f.nextSibling c)).2 && f.nextSibling c == some r
      then (f.prevSibling c).getD r else r) c

theorem insertAfter_eq_afterChecks {f : Forest} {r c : Nat}
    (hsc : f.structureCheck (f.parent? r) c = true) (hsr : f.siblingReferenceCheck r c = true)
    (hns : ¬ f.nextSibling r = some c) : f.insertAfter r c = afterChecks f r c := by
  rw [insertAfter_unfold]
  simp only [hsc, hsr, Bool.not_true, Bool.false_eq_true, if_false, beq_iff_eq, hns]
  rfl

/-- Children with the same handle are the same child. -/
theorem eq_of_handle {L : List HTree} (nd : (handlesList L).Nodup) {x y : HTree} (hx : x ∈ L) (hy : y ∈ L)
    (e : x.handle = y.handle) : x = y := by
  obtain ⟨P, Q, hL⟩ := List.append_of_mem hx
  subst hL
  obtain ⟨tP, tQ⟩ := tops_ne_of_nodup nd
  cases List.mem_append.1 hy with
  | inl h => exact absurd e.symm (tP y h)
  | inr h =>
    cases List.mem_cons.1 h with
    | inl h' => exact h'.symm
    | inr h' => exact absurd e.symm (tQ y h')

/-- A text node is not the (element or document) node `q`. -/
theorem text_ne_site {f : Forest} {q : Nat} {vq : Value} {Lq : List HTree} {k : HTree}
    (sq : SiteAt f q vq Lq) (hvq : vq.isText = false) (hg : f.get? k.handle = some k)
    (hk : k.value.isText = true) : k.handle ≠ q := by
  intro e
  rw [e, sq.kids] at hg
  have := Option.some.inj hg
  rw [← this] at hk
  simp only [HTree.value] at hk
  rw [hvq] at hk; cases hk

/-- A leaf is not a node that has children. -/
theorem leaf_ne_site {f : Forest} {po : Nat} {vo : Value} {l : List HTree} {t : HTree} {r : List HTree}
    {k : HTree} (so : SiteAt f po vo (l ++ t :: r)) (hg : f.get? k.handle = some k) (hleaf : k.kids = []) :
    k.handle ≠ po := by
  intro e
  rw [e, so.kids] at hg
  have := Option.some.inj hg
  rw [← this] at hleaf
  simp only [HTree.kids] at hleaf
  cases l <;> cases hleaf

/-- The specification's merge at the old place, moved in front of the graft. -/
theorem spec_commute (f : Forest) {po q : Nat} (hne : po ≠ q) {D I : List HTree → List HTree} (a b : Nat)
    (hnatI : NatFor (HTree.editAt po (mergeAdj a b)) I) :
    ((f.editAt (some po) D).editAt (some q) I).editAt (some po) (mergeAdj a b) =
      (f.editAt (some po) (mergeAdj a b ∘ D)).editAt (some q) I := by
  rw [Forest.editAt_comm (f.editAt (some po) D) hne (natFor_mergeAdj (kidMap_editAt _ _) a b) hnatI,
    Forest.editAt_editAt]

/-- Nothing to merge at the old place (another parent). -/
theorem mergeLeft_noop_far {f : Forest} {po q : Nat} {vo : Value} {l : List HTree} {t : HTree} {r : List HTree}
    {I : List HTree → List HTree} (so : SiteAt f po vo (l ++ t :: r)) (hne : po ≠ q)
    (hnatI : ∀ g, NatFor (HTree.editAt po g) I)
    (hseam : f.consolidation = true → ∀ a b, l.getLast? = some a → r.head? = some b →
      ¬ (a.value.isText = true ∧ b.value.isText = true)) :
    ((f.editAt (some po) (dropTop t.handle)).editAt (some q) I).mergeLeftAt (some po)
        (l.getLast?.map (·.handle), r.head?.map (·.handle)) =
      (f.editAt (some po) (dropTop t.handle)).editAt (some q) I := by
  obtain ⟨ndL, _⟩ := so.nodupKids
  obtain ⟨tl, tr⟩ := tops_ne_of_nodup ndL
  have hdrop : dropTop t.handle (l ++ t :: r) = l ++ r := dropTop_mid rfl tl tr
  cases hl : l.getLast? with
  | none => exact Forest.mergeLeftAt_none_left _ _ _
  | some a =>
    cases hr : r.head? with
    | none => exact Forest.mergeLeftAt_none_right _ _ _
    | some b =>
      simp only [Option.map_some]
      rw [Forest.mergeLeftAt_some]
      rcases Bool.eq_false_or_eq_true f.consolidation with hc | hc
      · have hc' : ((f.editAt (some po) (dropTop t.handle)).editAt (some q) I).consolidation = true := by
          rw [Forest.editAt_consolidation, Forest.editAt_consolidation]; exact hc
        rw [hc', if_pos rfl, spec_commute f hne _ _ (hnatI _)]
        obtain ⟨l', el⟩ := List.getLast?_eq_some_iff.1 hl
        obtain ⟨r', er⟩ := List.head?_eq_some_iff.1 hr
        subst el er
        have tl' : ∀ k ∈ l', k.handle ≠ a.handle := by
          have e : (l' ++ [a]) ++ t :: b :: r' = l' ++ a :: (t :: b :: r') := by simp
          exact (tops_ne_of_nodup (e ▸ ndL)).1
        rw [so.congr (g := mergeAdj a.handle b.handle ∘ dropTop t.handle) (g' := dropTop t.handle) (by
          simp only [Function.comp]
          rw [hdrop]
          have e : (l' ++ [a]) ++ b :: r' = l' ++ a :: b :: r' := by simp
          rw [e, mergeAdj_mid_other (hseam hc a b hl hr) r' tl'])]
      · have hc' : ((f.editAt (some po) (dropTop t.handle)).editAt (some q) I).consolidation = false := by
          rw [Forest.editAt_consolidation, Forest.editAt_consolidation]; exact hc
        rw [hc']; rfl

/-! ### The moved node is a parentless tree -/

theorem geo_root {f : Forest} {q : Nat} {vq : Value} {t : HTree} {A : List HTree} {kr : HTree} {B : List HTree}
    (inv : f.Inv) (sq : SiteAt f q vq (A ++ kr :: B)) (hgc : f.get? t.handle = some t)
    (hroot : f.ctx? t.handle = none) (hqt : q ∉ handles t) (hkrn : kr.value.isNormal = true) :
    (afterChecks f kr.handle t.handle).1 =
      (((f.editAt (f.parent? t.handle) (dropTop t.handle)).editAt (some q) (insertAfterTop kr.handle t)).mergeLeftAt
        (f.parent? t.handle) (f.nbOf t.handle)).mergeNewAt q t.handle := by
  unfold afterChecks
  rw [Forest.prevSibling_of_no_ctx hroot, Forest.nextSibling_of_no_ctx hroot,
    Forest.removeConsolidate_none_left, Forest.parent?_of_no_ctx hroot, Forest.mergeLeftAt_none]
  simp only [Bool.false_and, Bool.false_eq_true, if_false]
  exact tail_root sq hgc hroot hqt hkrn (leaf_of_text inv.valid hgc)

/-! ### The moved node is a child of another node -/

theorem geo_kid {f : Forest} {po q : Nat} {vo vq : Value} {l : List HTree} {t : HTree} {r A : List HTree}
    {kr : HTree} {B : List HTree} (inv : f.Inv)
    (so : SiteAt f po vo (l ++ t :: r)) (sq : SiteAt f q vq (A ++ kr :: B)) (hne : po ≠ q)
    (hqt : q ∉ handles t) (hkrn : kr.value.isNormal = true) (hvq : vq.isText = false) :
    (afterChecks f kr.handle t.handle).1 =
      (((f.editAt (some po) (dropTop t.handle)).editAt (some q) (insertAfterTop kr.handle t)).mergeLeftAt
        (some po) (f.nbOf t.handle)).mergeNewAt q t.handle := by
  have nd := sq.nd
  obtain ⟨ndL, hpoL⟩ := so.nodupKids
  obtain ⟨tl, tr⟩ := tops_ne_of_nodup ndL
  have hpot : po ∉ handles t := by
    intro hin
    apply hpoL
    rw [fs_handlesList_append, handlesList_cons]
    exact List.mem_append_right _ (List.mem_append_left _ hin)
  have hleafo := so.leaf inv.valid
  have hleafq := sq.leaf inv.valid
  have hleaft : t.value.isText = true → t.kids = [] := hleafo t (by simp)
  have hord := (validTree_node (so.valid inv.valid)).2.1
  have hdrop : dropTop t.handle (l ++ t :: r) = l ++ r := dropTop_mid rfl tl tr
  have hnatI : ∀ g, NatFor (HTree.editAt po g) (insertAfterTop kr.handle t) :=
    fun g => natFor_insertAfterTop (kidMap_editAt _ _) _ (editAt_of_not_mem t hpot)
  -- the reference is not a sibling of the moved node: it is not rewritten
  have hnr : (nextOf r t == some kr.handle) = false := by
    cases h : nextOf r t == some kr.handle with
    | false => rfl
    | true =>
      exfalso
      obtain ⟨kb, r2, er, ekb, _⟩ := nextOf_eq_some (by simpa using h)
      subst er
      have := site_parent so (k := kb) (by simp)
      rw [ekb, Forest.parent?_of_ctx sq.ctx] at this
      exact hne (Option.some.inj this).symm
  have hold := oldSite (k := t) (show SiteAt f po vo (l ++ ([t] ++ r)) from so)
    (fun k hk => hleafo k (List.mem_append_right _ (List.mem_cons_of_mem _ hk))) (hcat_of_ordered hord)
  unfold afterChecks
  rw [Forest.prevSibling_of_ctx so.ctx, Forest.nextSibling_of_ctx so.ctx]
  simp only [hnr, Bool.and_false, Bool.false_eq_true, if_false]
  rw [SiteAt.nbOf so]
  rcases hold with ⟨h1, h2⟩ | ⟨hc, l', a, b, r', x, y, el, er, hx, hy, hp, hn, h3⟩
  · rw [h1]
    simp only
    rw [tail_kid so sq hne hqt hkrn hleaft hleafq, mergeLeft_noop_far so hne hnatI h2]
  · subst el er
    rw [h3]
    simp only
    have hat : a.value.isText = true := by rw [hx]; rfl
    have hbt : b.value.isText = true := by rw [hy]; rfl
    have hga : f.get? a.handle = some a := site_getKid so (by simp)
    have hgb : f.get? b.handle = some b := site_getKid so (by simp)
    have haq : a.handle ≠ q := text_ne_site sq hvq hga hat
    have hbq : b.handle ≠ q := text_ne_site sq hvq hgb hbt
    have hbleaf : b.kids = [] := hleafo b (by simp) hbt
    have hgX : (fun (_ : List HTree) => l' ++ a.setValue (.text (x ++ y)) :: ([t] ++ r')) =
        fun _ => (l' ++ [a.setValue (.text (x ++ y))]) ++ t :: r' := by
      funext _; simp
    rw [hgX]
    have hsubX : (handlesList ((l' ++ [a.setValue (.text (x ++ y))]) ++ t :: r')).Sublist
        (handlesList ((l' ++ [a]) ++ t :: b :: r')) := by
      simp only [fs_handlesList_append, handlesList_cons, setValue_handles, handlesList_nil, List.append_nil,
        List.append_assoc]
      refine (List.Sublist.refl _).append ((List.Sublist.refl _).append ((List.Sublist.refl _).append ?_))
      exact List.sublist_append_right _ _
    have hlook : findList? q ((l' ++ [a.setValue (.text (x ++ y))]) ++ t :: r') =
        findList? q ((l' ++ [a]) ++ t :: b :: r') := by
      simp only [findList?_append, findList?_cons, findList?_nil, find?_setValue _ haq,
        ReplGapNF.find?_leaf_none hbleaf hbq, Option.none_or]
    have sX := so.edit (fun _ => (l' ++ [a.setValue (.text (x ++ y))]) ++ t :: r') hsubX
    have sXq0 := so.other sq.kids hne.symm (fun _ => (l' ++ [a.setValue (.text (x ++ y))]) ++ t :: r') hsubX hlook
    generalize hφ : HTree.editAt po (fun _ => (l' ++ [a.setValue (.text (x ++ y))]) ++ t :: r') = φ at sXq0
    have kφ : KidMap φ := hφ ▸ kidMap_editAt _ _
    have sXq : SiteAt (f.editAt (some po) (fun _ => (l' ++ [a.setValue (.text (x ++ y))]) ++ t :: r')) q vq
        (A.map φ ++ φ kr :: B.map φ) := by simpa using sXq0
    have hleafq' : ∀ k' ∈ A.map φ ++ φ kr :: B.map φ, k'.value.isText = true → k'.kids = [] := by
      intro k' hk' hk't
      have : k' ∈ (A ++ kr :: B).map φ := by simpa using hk'
      obtain ⟨k, hk, e⟩ := List.mem_map.1 this
      subst e
      rw [kφ.value] at hk't
      have hkl := hleafq k hk hk't
      rw [← hφ]
      exact ReplGapNF.editAt_kids_leaf hkl (leaf_ne_site so (site_getKid sq hk) hkl)
    have h := tail_kid sX sXq hne hqt (by rw [kφ.value]; exact hkrn) hleaft hleafq'
    rw [kφ.handle] at h
    rw [h, Forest.editAt_editAt]
    have hc' : ((f.editAt (some po) (dropTop t.handle)).editAt (some q) (insertAfterTop kr.handle t)).consolidation
        = true := by
      rw [Forest.editAt_consolidation, Forest.editAt_consolidation]; exact hc
    simp only [List.getLast?_concat, List.head?_cons, Option.map_some]
    rw [Forest.mergeLeftAt_some, hc', if_pos rfl, spec_commute f hne _ _ (hnatI _)]
    have tl' : ∀ k ∈ l', k.handle ≠ a.handle := by
      have e : (l' ++ [a]) ++ t :: b :: r' = l' ++ a :: (t :: b :: r') := by simp
      exact (tops_ne_of_nodup (e ▸ ndL)).1
    have hak : a.handle ≠ t.handle := tl a (by simp)
    rw [so.congr (g := mergeAdj a.handle b.handle ∘ dropTop t.handle)
      (g' := dropTop t.handle ∘ fun _ => (l' ++ [a.setValue (.text (x ++ y))]) ++ t :: r') (by
        simp only [Function.comp]
        rw [hdrop]
        have e : (l' ++ [a]) ++ b :: r' = l' ++ a :: b :: r' := by simp
        rw [e, mergeAdj_mid_text hx hy r' tl', dropTop_mid rfl (by
          intro k hk
          cases List.mem_append.1 hk with
          | inl h' => exact tl k (List.mem_append_left _ h')
          | inr h' =>
            have : k = a.setValue (.text (x ++ y)) := by simpa using h'
            rw [this, setValue_handle]; exact hak) (fun k hk => tr k (List.mem_cons_of_mem _ hk))]
        simp)]

end PairAfter
end XotModel
