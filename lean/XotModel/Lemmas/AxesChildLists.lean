/-
  The accessors that hand out the nodes of ONE raw child list (Model/AxesChildLists.lean: `all_children`,
  `abnormal_children`, `namespaces(node).nodes()`, `attributes(node).nodes()`; Model/Axes.lean:
  `attribute_nodes`, `children`): what holds on every tree (`all_children` = `abnormal_children` ++
  `children`, namespace nodes ++ attribute nodes is a prefix of it, no node twice, document order) and what
  holds under the `StructValid` ordering `kidsSorted` (the partition `all_children` = namespace nodes ++
  attribute nodes ++ children, each list = the raw children of its category).  Used by Props/C07.
-/
import XotModel.Lemmas.AxesValid

namespace XotModel.Axes

/-! ### Two more generic facts about a list sorted by a rank in {0, 1, 2} -/

section Sorted
variable {α : Type} (r : α → Nat)

theorem takeWhile_zero_eq_filter : ∀ (l : List α), (l.map r).Pairwise (· ≤ ·) →
    l.takeWhile (fun x => r x == 0) = l.filter (fun x => r x == 0)
  | [], _ => rfl
  | x :: l, hs => by
    simp only [List.map_cons, List.pairwise_cons] at hs
    by_cases hx : r x = 0
    · simp [hx, takeWhile_zero_eq_filter l hs.2]
    · have : l.filter (fun x => r x == 0) = [] := by
        apply List.filter_eq_nil_iff.mpr
        intro y hy
        have := hs.1 (r y) (List.mem_map.mpr ⟨y, hy, rfl⟩)
        simp; omega
      simp [hx, this]

theorem dropWhile_not_two_eq_filter : ∀ (l : List α), (l.map r).Pairwise (· ≤ ·) → (∀ y ∈ l, r y ≤ 2) →
    l.dropWhile (fun x => !(r x == 2)) = l.filter (fun x => r x == 2)
  | [], _, _ => rfl
  | x :: l, hs, h2 => by
    simp only [List.map_cons, List.pairwise_cons] at hs
    by_cases hx : r x = 2
    · have : l.filter (fun x => r x == 2) = l := by
        apply List.filter_eq_self.mpr
        intro y hy
        have := hs.1 (r y) (List.mem_map.mpr ⟨y, hy, rfl⟩)
        have := h2 y (by simp [hy])
        simp; omega
      simp [hx, this]
    · simp [hx, dropWhile_not_two_eq_filter l hs.2 (fun y hy => h2 y (by simp [hy]))]

/-- A list sorted by the rank is its rank-0 run, its rank-1 run, and the rest. -/
theorem split_zero_one_rest (l : List α) :
    l = l.takeWhile (fun x => r x == 0) ++ (l.dropWhile (fun x => r x == 0)).takeWhile (fun x => r x == 1) ++
      (l.dropWhile (fun x => r x == 0)).dropWhile (fun x => r x == 1) := by
  rw [List.append_assoc, List.takeWhile_append_dropWhile, List.takeWhile_append_dropWhile]

end Sorted

/-! ### On every tree -/

theorem allChildrenPaths_eq (t : Tree) (p : Path) : allChildrenPaths t p = rawChildPaths t p :=
  allChildren_paths t p

/-- `all_children` = `abnormal_children` ++ `children` (`take_while` / `skip_while` of one predicate). -/
theorem allChildrenPaths_split (t : Tree) (p : Path) :
    allChildrenPaths t p = abnormalChildrenPaths t p ++ children t p := by
  unfold allChildrenPaths abnormalChildrenPaths children abnormalChildren normalChildren
  rw [← List.map_append, List.takeWhile_append_dropWhile]

/-- `attributes(node).nodes()` is `attribute_nodes(node)`: nodemap/attribute.rs repeats the code. -/
theorem attributesNodes_eq (t : Tree) (p : Path) : attributesNodes t p = attributeNodes t p := rfl

/-- Namespace nodes, then attribute nodes: a prefix of the raw child list, on every tree. -/
theorem nsAttr_prefix (t : Tree) (p : Path) :
    namespaceNodes t p ++ attributeNodes t p <+: allChildrenPaths t p := by
  refine ⟨(((allChildren t p).dropWhile (fun x => itemCategory x == .namespace)).dropWhile
    (fun x => itemCategory x == .attribute)).map (·.1), ?_⟩
  unfold namespaceNodes attributeNodes allChildrenPaths
  rw [← List.map_append, ← List.map_append, List.append_assoc, List.takeWhile_append_dropWhile,
    List.takeWhile_append_dropWhile]

theorem rawChildPaths_nodup (t : Tree) (p : Path) : (rawChildPaths t p).Nodup := by
  unfold rawChildPaths List.Nodup
  rw [List.pairwise_map]
  exact (List.nodup_range (n := (subAt t p).kids.length)).imp (fun hab h => hab (by simpa using h))

/-- The raw child list is the list of the nodes whose parent is `p`, in document order. -/
theorem allChildrenPaths_spec {t : Tree} {p : Path} (h : Valid t p) :
    allChildrenPaths t p = (allPre t).filter (fun q => parent q == some p) := by
  rw [allChildrenPaths_eq, filter_parent_allPre h]

theorem rawChildPaths_sorted {t : Tree} {p : Path} (h : Valid t p) :
    (rawChildPaths t p).Pairwise (fun a b => docLt a b = true) := by
  rw [← filter_parent_allPre h]; exact (allPre_sorted t).filter _

/-- Without any ordering assumption: everything `namespaces(node).nodes()` yields is a namespace child. -/
theorem namespaceNodes_sound {t : Tree} {p : Path} (h : Valid t p) {q : Path}
    (hq : q ∈ namespaceNodes t p) : categoryAt t q = .namespace ∧ parent q = some p ∧ Valid t q := by
  unfold namespaceNodes at hq
  obtain ⟨x, hx, rfl⟩ := List.mem_map.mp hq
  have hcat : itemCategory x = .namespace := by simpa using mem_takeWhile_pred _ _ _ hx
  have hx' : x ∈ allChildren t p := (List.takeWhile_sublist _).subset hx
  have := allChildren_item h hx'
  exact ⟨by simpa [categoryAt, valueAt, this.1, itemCategory] using hcat, this.2.2, this.2.1⟩

/-! ### Under the `StructValid` ordering of the children -/

theorem allChildren_sorted {t : Tree} {p : Path} (hs : kidsSorted (subAt t p).kids) :
    ((allChildren t p).map (fun x => catRank (itemCategory x))).Pairwise (· ≤ ·) := by
  have : (allChildren t p).map (fun x => catRank (itemCategory x)) =
      ((allChildren t p).map (·.2)).map (fun k => catRank k.value.category) := by
    simp [List.map_map, Function.comp_def, itemCategory]
  rw [this]; unfold allChildren; rw [kidPaths_map_snd]; exact hs

theorem itemNormal_eq (x : Path × Tree) : itemNormal x = (catRank (itemCategory x) == 2) := by
  unfold itemNormal itemCategory; exact (catRank_eq_two _).symm

/-- **The partition of the raw child list**: namespace nodes, attribute nodes, children. -/
theorem allChildrenPaths_partition {t : Tree} {p : Path} (hs : kidsSorted (subAt t p).kids) :
    allChildrenPaths t p = namespaceNodes t p ++ attributeNodes t p ++ children t p := by
  have hsorted := allChildren_sorted hs
  have e := dropWhile_zero_one_eq (fun x : Path × Tree => catRank (itemCategory x)) _ hsorted
    (fun y _ => catRank_le_two _)
  have sp := split_zero_one_rest (fun x : Path × Tree => catRank (itemCategory x)) (allChildren t p)
  rw [e] at sp
  simp only [catRank_eq_zero, catRank_eq_one, ← itemNormal_eq] at sp
  unfold allChildrenPaths namespaceNodes attributeNodes children normalChildren
  rw [← List.map_append, ← List.map_append]
  exact congrArg (List.map (·.1)) sp

/-- `abnormal_children` = namespace nodes ++ attribute nodes. -/
theorem abnormalChildrenPaths_eq {t : Tree} {p : Path} (hs : kidsSorted (subAt t p).kids) :
    abnormalChildrenPaths t p = namespaceNodes t p ++ attributeNodes t p := by
  have h1 := allChildrenPaths_split t p
  rw [allChildrenPaths_partition hs] at h1
  exact (List.append_cancel_right h1).symm

theorem namespaceNodes_eq {t : Tree} {p : Path} (h : Valid t p) (hs : kidsSorted (subAt t p).kids) :
    namespaceNodes t p = (rawChildPaths t p).filter (fun q => categoryAt t q == .namespace) := by
  unfold namespaceNodes
  have e := takeWhile_zero_eq_filter (fun x : Path × Tree => catRank (itemCategory x)) _ (allChildren_sorted hs)
  simp only [catRank_eq_zero] at e
  rw [e]
  exact filter_items h (fun k => k.value.category == .namespace)

/-- `children` under `kidsSorted` alone: the normal ones among the raw children, in order. -/
theorem children_eq_sorted {t : Tree} {p : Path} (h : Valid t p) (hs : kidsSorted (subAt t p).kids) :
    children t p = (rawChildPaths t p).filter (isNormalAt t) := by
  unfold children normalChildren
  have e := dropWhile_not_two_eq_filter (fun x : Path × Tree => catRank (itemCategory x)) _
    (allChildren_sorted hs) (fun y _ => catRank_le_two _)
  simp only [← itemNormal_eq] at e
  rw [e]
  exact filter_items h (fun k => k.value.isNormal)

end XotModel.Axes
