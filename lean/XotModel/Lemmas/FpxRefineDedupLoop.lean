/-
  FpxRefineDedup, part 6: the loop `while deduplicate_namespaces_pass(node) {}` and
  `deduplicate_namespaces(node)` — the forest model (`Forest.dedupLoop`, `Forest.deduplicateNamespaces`,
  Model/FatomSpec2.lean) refines the tree model (`dedupLoop`, `deduplicateNamespaces`, Model/Scope.lean),
  by induction on the fuel (both models start with the size of the erased root tree plus one).
  Corollaries: a second forest-level call changes nothing (`fpxd_idem`); names writable before are
  writable after (`fpxd_serialises`, the tree-level `namesWritable_dedup` with its side condition
  `UniqueDeclsBelow` derived from `Forest.Inv`).
-/
import XotModel.Lemmas.FpxRefineDedupPass
import XotModel.Lemmas.DedupSerialise

namespace XotModel
open HTree

theorem map_if_map_if (P : HTree → Bool) (a b : HTree) (hPa : P a = true) (L : List HTree) :
    (L.map (fun y => if P y then a else y)).map (fun y => if P y then b else y) =
      L.map (fun y => if P y then b else y) := by
  rw [List.map_map]
  apply List.map_congr_left
  intro y _
  by_cases hy : P y = true
  · simp [hy, hPa]
  · simp [hy]

/-- The tree-level loop, one round. -/
theorem dedupLoop_succ (env : Env) (path : Path) (fuel : Nat) (t sub : Tree) (hs : t.at? path = some sub) :
    dedupLoop env path (fuel + 1) t =
      if (dedupPass env t path sub).2 then dedupLoop env path fuel (dedupPass env t path sub).1
      else (dedupPass env t path sub).1 := by
  simp only [dedupLoop, hs]

/-- The side condition of the tree-level C15 theorems in the form Lemmas/ScopeUnres.lean uses. -/
theorem uniqueDeclsBelow_of_uniqueBelow {t : Tree} (h : UniqueBelow t) : UniqueDeclsBelow t := by
  intro q e hq he
  have := h q e hq
  unfold UniquePrefixes frameOf at this
  cases e with
  | node v ks =>
    cases v <;> simp [Tree.value, Value.isElement] at he
    simpa [Tree.value] using this

namespace Forest

/-- **The loop of `deduplicate_namespaces(node)`, forest model against tree model**, for any fuel. -/
theorem fpxd_loop (env : Env) (nd : Nat) (path : Path) : ∀ (fuel : Nat) {f : Forest}, f.Inv →
    ∀ {r : HTree}, f.rootOf? nd = some r → r.pathOf nd = some path →
    ∃ r', Forest.dedupLoop env nd fuel f =
        ({ f with roots := f.roots.map (fun y => if (pathOf nd y).isSome then r' else y) }, .ok) ∧
      r'.erase = XotModel.dedupLoop env path fuel r.erase ∧
      (Forest.dedupLoop env nd fuel f).1.Inv ∧
      (Forest.dedupLoop env nd fuel f).1.rootOf? nd = some r' ∧
      pathOf nd r' = some path ∧
      (handles r').Sublist (handles r) ∧
      (hv r').filter notNsPair = (hv r).filter notNsPair ∧
      ∀ x q, pathOf x r = some q → (path <+: q → q = path) → pathOf x r' = some q
  | 0, f, hi, r, hr, hp => by
    obtain ⟨hrm, hnr⟩ := fpxr_rootOf_mem hr
    have hself := fpxd_map_self hi.nodup hrm hnr
    refine ⟨r, ?_, rfl, hi, hr, hp, List.Sublist.refl _, rfl, fun _ _ hx _ => hx⟩
    rw [hself]; rfl
  | fuel + 1, f, hi, r, hr, hp => by
    obtain ⟨hrm, hnr⟩ := fpxr_rootOf_mem hr
    obtain ⟨S, r1, hS, hg, hempty, hrun, herase, hi1, hroot1, hp1, hsub1, hv1, hstab1⟩ := fpxd_pass hi env hr hp
    have hSe : r.erase.at? path = some S.erase := by rw [ftrav_at?_erase, hS]; rfl
    have hflag : (dedupPass env r.erase path S.erase).2 = !(f.dedupCalls env nd).isEmpty := by
      rw [hempty]; rfl
    by_cases hE : (f.dedupCalls env nd).isEmpty = true
    · have hloop : Forest.dedupLoop env nd (fuel + 1) f = (f, .ok) := by
        unfold Forest.dedupLoop
        simp only [hE, if_true]
      have hself := fpxd_map_self hi.nodup hrm hnr
      have h2 : (dedupPass env r.erase path S.erase).2 = false := by rw [hflag, hE]; rfl
      rw [hloop]
      refine ⟨r, ?_, ?_, hi, hr, hp, List.Sublist.refl _, rfl, fun _ _ hx _ => hx⟩
      · rw [hself]
      · rw [dedupLoop_succ env path fuel r.erase S.erase hSe, h2]
        simp only [Bool.false_eq_true, if_false]
        exact (dedupPass_of_no_removal env r.erase path S.erase h2).symm
    · have hE' : (f.dedupCalls env nd).isEmpty = false := by simpa using hE
      have h2 : (dedupPass env r.erase path S.erase).2 = true := by rw [hflag, hE']; rfl
      have hloop : Forest.dedupLoop env nd (fuel + 1) f =
          Forest.dedupLoop env nd fuel (f.runCalls (f.dedupCalls env nd)).1 := by
        conv => lhs; unfold Forest.dedupLoop
        simp only [hE', Bool.false_eq_true, if_false]
        rw [hrun]
      obtain ⟨r', k1, k2, k3, k4, k5, k6, k7, k8⟩ := fpxd_loop env nd path fuel hi1 hroot1 hp1
      rw [hloop]
      refine ⟨r', ?_, ?_, k3, k4, k5, k6.trans hsub1, k7.trans hv1, fun x q hx hq => k8 x q (hstab1 x q hx hq) hq⟩
      · rw [k1, hrun]
        simp only
        rw [map_if_map_if (fun y => (pathOf nd y).isSome) r1 r' (by simp [hp1])]
      · rw [k2, herase, dedupLoop_succ env path fuel r.erase S.erase hSe, h2]
        simp only [if_true]

/-- **`deduplicate_namespaces(node)`: the forest model refines the tree model.** -/
theorem fpxd_deduplicateNamespaces {f : Forest} (hi : f.Inv) (env : Env) {nd : Nat} {r : HTree}
    (hr : f.rootOf? nd = some r) {path : Path} (hp : r.pathOf nd = some path) :
    ∃ r', f.deduplicateNamespaces env nd =
        ({ f with roots := f.roots.map (fun y => if (pathOf nd y).isSome then r' else y) }, .ok) ∧
      XotModel.deduplicateNamespaces env r.erase path = some r'.erase ∧
      (f.deduplicateNamespaces env nd).1.Inv ∧
      (f.deduplicateNamespaces env nd).1.rootOf? nd = some r' ∧
      pathOf nd r' = some path ∧
      (handles r').Sublist (handles r) ∧
      (hv r').filter notNsPair = (hv r).filter notNsPair ∧
      ∀ x q, pathOf x r = some q → (path <+: q → q = path) → pathOf x r' = some q := by
  obtain ⟨S, hS, _⟩ := ftrav_pathOf_at? nd r path hp
  have hSe : r.erase.at? path = some S.erase := by rw [ftrav_at?_erase, hS]; rfl
  have hd : f.deduplicateNamespaces env nd = Forest.dedupLoop env nd (r.erase.size + 1) f := by
    unfold Forest.deduplicateNamespaces; rw [hr]
  obtain ⟨r', k1, k2, k3⟩ := fpxd_loop env nd path (r.erase.size + 1) hi hr hp
  rw [hd]
  refine ⟨r', k1, ?_, k3⟩
  unfold XotModel.deduplicateNamespaces
  rw [hSe, k2]

theorem mem_hvList_of_mem_root {x : Nat × Value} : ∀ {L : List HTree} {r : HTree}, r ∈ L → x ∈ hv r → x ∈ hvList L
  | [], _, hr, _ => by cases hr
  | a :: L, r, hr, hx => by
    rw [hvList_cons, List.mem_append]
    rcases List.mem_cons.mp hr with rfl | hr'
    · exact Or.inl hx
    · exact Or.inr (mem_hvList_of_mem_root hr' hx)

/-- What the equality of the non-namespace `(handle, value)` pairs says about single handles: a handle
    of the old root tree that is missing from the new one was a namespace node. -/
theorem fpxd_only_namespace_nodes_go {f : Forest} (hi : f.Inv) {r r' : HTree} (hrm : r ∈ f.roots)
    (hv' : (hv r').filter notNsPair = (hv r).filter notNsPair) :
    ∀ x ∈ handles r, x ∉ handles r' → ∃ p ns, f.value? x = some (.namespace p ns) := by
  intro x hx hnx
  rw [← map_fst_hv] at hx
  obtain ⟨⟨x', v⟩, hm, rfl⟩ := List.mem_map.mp hx
  have hval : f.value? x' = some v :=
    (value?_eq_some_iff hi.nodup x' v).mpr (mem_hvList_of_mem_root hrm hm)
  by_cases hn : notNsPair (x', v) = true
  · exfalso
    have : (x', v) ∈ (hv r).filter notNsPair := List.mem_filter.mpr ⟨hm, hn⟩
    rw [← hv'] at this
    exact hnx (mem_handles_of_mem_hv (List.mem_filter.mp this).1)
  · cases v with
    | «namespace» p ns => exact ⟨p, ns, hval⟩
    | _ => simp [notNsPair, Value.category] at hn

/-- A node that is in no parentless tree: the call does nothing. -/
theorem fpxd_dedup_not_live (env : Env) (f : Forest) (nd : Nat) (hr : f.rootOf? nd = none) :
    f.deduplicateNamespaces env nd = (f, .ok) := by
  have hc : f.dedupCalls env nd = [] := by unfold dedupCalls; rw [hr]
  unfold Forest.deduplicateNamespaces
  rw [hr]
  simp only
  unfold Forest.dedupLoop
  simp [hc]

theorem fpxd_rootOf_path {f : Forest} {nd : Nat} {r : HTree} (hr : f.rootOf? nd = some r) :
    ∃ path, r.pathOf nd = some path := by
  unfold rootOf? at hr
  have := List.find?_some hr
  cases hp : pathOf nd r with
  | none => rw [hp] at this; cases this
  | some q => exact ⟨q, rfl⟩

/-- **A second forest-level call changes nothing** (every forest with the invariant, every node
    argument): the first pass of the second call finds nothing to remove. -/
theorem fpxd_idem {f : Forest} (hi : f.Inv) (env : Env) (nd : Nat) :
    (f.deduplicateNamespaces env nd).1.deduplicateNamespaces env nd =
      ((f.deduplicateNamespaces env nd).1, .ok) := by
  cases hr : f.rootOf? nd with
  | none =>
    rw [fpxd_dedup_not_live env f nd hr]
    exact fpxd_dedup_not_live env f nd hr
  | some r =>
    obtain ⟨path, hp⟩ := fpxd_rootOf_path hr
    obtain ⟨r', _, htree, hi', hroot', hp', _⟩ := fpxd_deduplicateNamespaces hi env hr hp
    generalize (f.deduplicateNamespaces env nd).1 = f' at hi' hroot' ⊢
    -- the tree-level result is a fixpoint of the pass
    obtain ⟨sub', hsub', hnil⟩ := deduplicateNamespaces_fixpoint env r.erase r'.erase path htree
    obtain ⟨S', _, hS', _, hempty, _⟩ := fpxd_pass hi' env hroot' hp'
    have : S'.erase = sub' := by
      have : r'.erase.at? path = some S'.erase := by rw [ftrav_at?_erase, hS']; rfl
      rw [hsub'] at this
      exact (Option.some.inj this).symm
    rw [this, hnil] at hempty
    unfold Forest.deduplicateNamespaces
    rw [hroot']
    simp only
    unfold Forest.dedupLoop
    simp only [hempty, List.isEmpty_nil, if_true]

/-- **A tree that serialised before still serialises**, on forests: with `r'` the parentless tree of
    `node` after the call, for every start path `q` not strictly inside the subtree of `node` (the root
    `[]`, the node itself, …): if `namesWritable` (= `to_string` does not fail with `MissingPrefix`) held
    of the erased root before, it holds after.  No hypothesis beyond `Forest.Inv`. -/
theorem fpxd_serialises {f : Forest} (hi : f.Inv) (env : Env) {nd : Nat} {r : HTree}
    (hr : f.rootOf? nd = some r) {path : Path} (hp : r.pathOf nd = some path) :
    ∃ r', (f.deduplicateNamespaces env nd).1.rootOf? nd = some r' ∧ pathOf nd r' = some path ∧
      ∀ q, (∀ s, q = path ++ s → s = []) → namesWritable env r.erase q = some true →
        namesWritable env r'.erase q = some true := by
  obtain ⟨hrm, _⟩ := fpxr_rootOf_mem hr
  obtain ⟨S, hS, hSh⟩ := ftrav_pathOf_at? nd r path hp
  have hg : f.get? nd = some S := by
    have := fpx_get?_of_at? hi.nodup hrm hS
    rwa [hSh] at this
  have hSe : r.erase.at? path = some S.erase := by rw [ftrav_at?_erase, hS]; rfl
  obtain ⟨r', _, htree, _, hroot', hp', _⟩ := fpxd_deduplicateNamespaces hi env hr hp
  refine ⟨r', hroot', hp', fun q hq hw => ?_⟩
  exact namesWritable_dedup env r.erase r'.erase path S.erase hSe
    (uniqueDeclsBelow_of_uniqueBelow (fpxr_uniqueBelow hi hg)) htree q hq hw

end Forest
end XotModel
