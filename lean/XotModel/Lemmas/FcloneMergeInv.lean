/-
  Lemmas for C12, part 26: merging adjacent text nodes changes neither the declarations, nor the
  attributes, nor whether the tree can be serialised (for structurally valid trees, where text
  nodes, attribute nodes and namespace nodes have no children).
-/
import XotModel.Lemmas.FclonePrefix7
import XotModel.Lemmas.FcloneStrict

namespace XotModel
open HTree

/-! ### `mergeInto` only ever touches the last element of what it has produced -/

theorem snocMerge_append (B C : List Tree) (x : Tree) (hC : C ≠ []) :
    snocMerge (B ++ C) x = B ++ snocMerge C x := by
  obtain ⟨C', y, rfl⟩ : ∃ C' y, C = C' ++ [y] := by
    rcases List.eq_nil_or_concat C with h | ⟨C', y, h⟩
    · exact absurd h hC
    · exact ⟨C', y, by rw [h, List.concat_eq_append]⟩
  unfold snocMerge
  have e1 : (B ++ (C' ++ [y])).getLast? = some y := by rw [← List.append_assoc]; simp
  have e2 : (C' ++ [y]).getLast? = some y := by simp
  have e3 : (B ++ (C' ++ [y])).dropLast = B ++ C' := by rw [← List.append_assoc]; simp
  have e4 : (C' ++ [y]).dropLast = C' := by simp
  rw [e1, e2, e3, e4]
  cases x with
  | node vx kx =>
    cases y with
    | node vy ky =>
      cases vx <;> cases vy <;> simp [List.append_assoc]

theorem snocMerge_ne_nil (C : List Tree) (x : Tree) : snocMerge C x ≠ [] := by
  unfold snocMerge
  split <;> simp

theorem mergeInto_append : ∀ (Z : List Tree) (B C : List Tree), C ≠ [] →
    mergeInto (B ++ C) Z = B ++ mergeInto C Z
  | [], B, C, _ => by simp [mergeInto]
  | z :: Z, B, C, hC => by
    simp only [mergeInto]
    rw [snocMerge_append B C _ hC]
    exact mergeInto_append Z B _ (snocMerge_ne_nil C _)

/-- When the last element produced so far is not a text node, the rest is merged on its own. -/
theorem mergeInto_prefix (Z : List Tree) (B : List Tree)
    (hB : ∀ B' x, B = B' ++ [x] → x.value.isText = false) :
    mergeInto B Z = B ++ mergeInto [] Z := by
  cases Z with
  | nil => simp [mergeInto]
  | cons z Z =>
    simp only [mergeInto]
    rw [snocMerge_plain B _ (fun A' x h => by rw [hB A' x h]; rfl), snocMerge_nil]
    exact mergeInto_append Z B [_] (by simp)

/-- Childless non-text leaves pass through unchanged. -/
theorem mergeInto_leaves : ∀ (E : List Tree) (A : List Tree) (Z : List Tree),
    (∀ e ∈ E, e.value.isText = false ∧ e.kids = []) →
    mergeInto A (E ++ Z) = mergeInto (A ++ E) Z
  | [], A, Z, _ => by simp
  | e :: E, A, Z, hE => by
    obtain ⟨h1, h2⟩ := hE e (by simp)
    have he : mergeAdjacentText e = e := by
      cases e with
      | node v ks =>
        simp only [Tree.kids] at h2
        subst h2
        simp [mergeAdjacentText, mergeInto]
    simp only [List.cons_append, mergeInto]
    rw [he, snocMerge_nontext _ _ h1, mergeInto_leaves E (A ++ [e]) Z (fun x hx => hE x (by simp [hx]))]
    simp

/-- Everything produced from normal nodes is a normal node. -/
theorem mergeInto_normal : ∀ (Z A : List Tree), (∀ x ∈ A, x.value.isNormal = true) →
    (∀ z ∈ Z, z.value.isNormal = true) → ∀ x ∈ mergeInto A Z, x.value.isNormal = true
  | [], A, hA, _ => by simpa [mergeInto] using hA
  | z :: Z, A, hA, hZ => by
    simp only [mergeInto]
    apply mergeInto_normal Z _ _ (fun y hy => hZ y (by simp [hy]))
    intro x hx
    have hz : (mergeAdjacentText z).value.isNormal = true := by
      cases z with
      | node v ks =>
        have := hZ (Tree.node v ks) (by simp)
        simpa [mergeAdjacentText, Tree.value] using this
    unfold snocMerge at hx
    split at hx
    · rcases List.mem_append.mp hx with h | h
      · exact hA x ((List.dropLast_sublist A).mem h)
      · simp at h; subst h; rfl
    · rcases List.mem_append.mp hx with h | h
      · exact hA x h
      · simp at h; subst h; exact hz

/-! ### ordered children: entries first, then normal nodes -/

theorem ordered_decomp : ∀ K : List HTree,
    K.Pairwise (fun a b => a.value.category.rank ≤ b.value.category.rank) →
    ∃ E Z, K = E ++ Z ∧ (∀ k ∈ E, k.value.isNormal = false) ∧ (∀ k ∈ Z, k.value.isNormal = true)
  | [], _ => ⟨[], [], rfl, by simp, by simp⟩
  | x :: K, hp => by
    rw [List.pairwise_cons] at hp
    obtain ⟨E, Z, rfl, hE, hZ⟩ := ordered_decomp K hp.2
    by_cases hx : x.value.isNormal = true
    · refine ⟨[], x :: (E ++ Z), rfl, by simp, ?_⟩
      intro k hk
      rcases List.mem_cons.mp hk with rfl | hk'
      · exact hx
      · have := hp.1 k hk'
        have hr : x.value.category = .normal := by simpa [Value.isNormal] using hx
        rw [hr] at this
        cases hc : k.value.category <;> simp_all [Category.rank, Value.isNormal]
    · refine ⟨x :: E, Z, rfl, ?_, hZ⟩
      intro k hk
      rcases List.mem_cons.mp hk with rfl | hk'
      · simpa using hx
      · exact hE k hk'

/-- What the declarations and attributes of a node look at. -/
theorem nsDecls_congr (v : Value) (E Z Z' : List Tree) (hZ : ∀ z ∈ Z, z.value.isNormal = true)
    (hZ' : ∀ z ∈ Z', z.value.isNormal = true) :
    (Tree.node v (E ++ Z)).nsDecls = (Tree.node v (E ++ Z')).nsDecls ∧
    (Tree.node v (E ++ Z)).attrs = (Tree.node v (E ++ Z')).attrs := by
  have key : ∀ (p : Tree → Bool), (∀ z, z.value.isNormal = true → p z = false) → ∀ (W : List Tree),
      (∀ z ∈ W, z.value.isNormal = true) → ∀ E : List Tree,
      (E ++ W).takeWhile p = E.takeWhile p ∧ ((E ++ W).dropWhile p = E.dropWhile p ++ W ∨
        (E.dropWhile p ≠ [] ∧ (E ++ W).dropWhile p = E.dropWhile p ++ W)) := by
    intro p hp W hW E
    induction E with
    | nil =>
      cases W with
      | nil => simp
      | cons w W => simp [List.takeWhile_cons, List.dropWhile_cons, hp w (hW w (by simp))]
    | cons e E ih =>
      simp only [List.cons_append, List.takeWhile_cons, List.dropWhile_cons]
      by_cases he : p e = true
      · simp only [he, if_true]
        exact ⟨by rw [ih.1], by rcases ih.2 with h | h <;> simp [h]⟩
      · simp [he]
  have pn : ∀ z : Tree, z.value.isNormal = true → (z.value.category == Category.namespace) = false := by
    intro z hz
    have : z.value.category = .normal := by simpa [Value.isNormal] using hz
    simp [this]
  have pa : ∀ z : Tree, z.value.isNormal = true → (z.value.category == Category.attribute) = false := by
    intro z hz
    have : z.value.category = .normal := by simpa [Value.isNormal] using hz
    simp [this]
  refine ⟨?_, ?_⟩
  · simp only [Tree.nsDecls, Tree.namespaceNodes, Tree.kids]
    rw [(key _ pn Z hZ E).1, (key _ pn Z' hZ' E).1]
  · simp only [Tree.attrs, Tree.attributeNodes, Tree.kids]
    have d1 : (E ++ Z).dropWhile (fun k => k.value.category == Category.namespace) =
        E.dropWhile (fun k => k.value.category == Category.namespace) ++ Z := by
      rcases (key _ pn Z hZ E).2 with h | h
      · exact h
      · exact h.2
    have d2 : (E ++ Z').dropWhile (fun k => k.value.category == Category.namespace) =
        E.dropWhile (fun k => k.value.category == Category.namespace) ++ Z' := by
      rcases (key _ pn Z' hZ' E).2 with h | h
      · exact h
      · exact h.2
    rw [d1, d2, (key _ pa Z hZ _).1, (key _ pa Z' hZ' _).1]

end XotModel

namespace XotModel
open HTree

theorem mergeAdjacentText_value (t : Tree) : (mergeAdjacentText t).value = t.value := by
  cases t; rfl

/-- Entries (attribute / namespace nodes) of a valid node are childless and not text. -/
theorem entry_leaf (b : Bool) (k : HTree) (hv : validTree b k = true) (hn : k.value.isNormal = false) :
    (erase k).value.isText = false ∧ (erase k).kids = [] := by
  cases k with
  | node h v ks =>
    have hne : v.isElement = false := by
      cases v <;> simp_all [HTree.value, Value.isNormal, Value.category, Value.isElement]
    have hnd : v.isDocument = false := by
      cases v <;> simp_all [HTree.value, Value.isNormal, Value.category, Value.isDocument]
    have := valid_leaf b h v ks hv hne hnd
    subst this
    refine ⟨?_, rfl⟩
    cases v <;> simp_all [HTree.value, Value.isNormal, Value.category, Value.isText, erase, Tree.value]

theorem validList_all (b : Bool) : ∀ (L : List HTree), validList b L = true → ∀ k ∈ L, validTree b k = true :=
  fun L hv k hk => validList_mem b L k hv hk

/-- Merging adjacent text in the children of a valid node keeps its declarations and attributes. -/
theorem merge_decls_attrs (b : Bool) (h : Nat) (v : Value) (ks : List HTree)
    (hv : validTree b (.node h v ks) = true) :
    (Tree.node v (mergeInto [] (eraseList ks))).nsDecls = (Tree.node v (eraseList ks)).nsDecls ∧
    (Tree.node v (mergeInto [] (eraseList ks))).attrs = (Tree.node v (eraseList ks)).attrs := by
  have hks := validTree_kids b h v ks hv
  have hord : kidsOrdered ks = true := by
    simp only [validTree, Bool.and_eq_true] at hv
    exact hv.1.1.1.1.2
  obtain ⟨E, Z, rfl, hE, hZ⟩ := ordered_decomp ks (kidsOrdered_pairwise ks hord)
  have hEl : ∀ e ∈ eraseList E, e.value.isText = false ∧ e.kids = [] := by
    intro e he
    rw [eraseList_map] at he
    obtain ⟨k, hk, rfl⟩ := List.mem_map.mp he
    exact entry_leaf b k (validList_all b _ hks k (by simp [hk])) (hE k hk)
  have hZn : ∀ z ∈ eraseList Z, z.value.isNormal = true := by
    intro z hz
    rw [eraseList_map] at hz
    obtain ⟨k, hk, rfl⟩ := List.mem_map.mp hz
    rw [erase_value']; exact hZ k hk
  have hM : mergeInto [] (eraseList (E ++ Z)) = eraseList E ++ mergeInto [] (eraseList Z) := by
    rw [eraseList_append, mergeInto_leaves (eraseList E) [] (eraseList Z) hEl, List.nil_append]
    apply mergeInto_prefix
    intro B' x hB
    exact (hEl x (by rw [hB]; simp)).1
  rw [hM, eraseList_append]
  have hMn := mergeInto_normal (eraseList Z) [] (by simp) hZn
  exact nsDecls_congr v (eraseList E) _ _ hMn hZn

mutual
  theorem writable_merge (env : Env) (b : Bool) : ∀ (t : HTree), validTree b t = true → ∀ s : FStack,
      writableTree env s (mergeAdjacentText (erase t)) = writableTree env s (erase t)
    | .node h v ks => by
      intro hv s
      have hks := validTree_kids b h v ks hv
      have hl := writableList_merge env b ks hks
      obtain ⟨hd, ha⟩ := merge_decls_attrs b h v ks hv
      simp only [erase, mergeAdjacentText]
      cases v with
      | element name =>
        simp only [writableTree]
        rw [hd, ha, hl _ []]
        simp [writableList]
      | pi t d => simp only [writableTree]; rw [hl s []]; simp [writableList]
      | document => simp only [writableTree]; rw [hl s []]; simp [writableList]
      | text x => simp only [writableTree]; rw [hl s []]; simp [writableList]
      | comment x => simp only [writableTree]; rw [hl s []]; simp [writableList]
      | «attribute» a x => simp only [writableTree]; rw [hl s []]; simp [writableList]
      | «namespace» a x => simp only [writableTree]; rw [hl s []]; simp [writableList]
  theorem writableList_merge (env : Env) (b : Bool) : ∀ (ks : List HTree), validList b ks = true →
      ∀ (s : FStack) (A : List Tree),
      writableList env s (mergeInto A (eraseList ks)) =
        (writableList env s A && writableList env s (eraseList ks))
    | [] => by intro _ s A; simp [eraseList, mergeInto, writableList]
    | k :: ks => by
      intro hv s A
      obtain ⟨h1, h2⟩ := fc_validList_cons b k ks hv
      simp only [eraseList, mergeInto, writableList]
      rw [writableList_merge env b ks h2 s _]
      have step : writableList env s (snocMerge A (mergeAdjacentText (erase k))) =
          (writableList env s A && writableTree env s (erase k)) := by
        by_cases ht : k.value.isText = true
        · -- a valid text node has no children and is its own merge
          cases k with
          | node hk vk kk =>
            cases vk with
            | text x =>
              have := valid_leaf b hk _ kk h1 rfl rfl
              subst this
              have e : mergeAdjacentText (erase (.node hk (.text x) [])) = Tree.node (.text x) [] := by
                simp [erase, eraseList, mergeAdjacentText, mergeInto]
              rw [e]
              have wx : writableTree env s (erase (.node hk (.text x) [])) = true := by
                simp [erase, eraseList, writableTree, writableList]
              rw [wx, Bool.and_true]
              rcases List.eq_nil_or_concat A with rfl | ⟨A', y, rfl⟩
              · simp [snocMerge_nil, writableList, writableTree]
              · rw [List.concat_eq_append]
                cases y with
                | node vy ky =>
                  by_cases hy : vy.isText = true
                  · cases vy with
                    | text ps =>
                      rw [snocMerge_merge]
                      simp [writableList_append, writableList, writableTree]
                    | _ => simp [Value.isText] at hy
                  · rw [snocMerge_last_nontext _ _ _ (by simpa [Tree.value] using hy)]
                    have : A' ++ [Tree.node vy ky, Tree.node (.text x) []] =
                        (A' ++ [Tree.node vy ky]) ++ [Tree.node (.text x) []] := by simp
                    rw [this, writableList_append]
                    simp [writableList, writableTree]
            | _ => simp [HTree.value, Value.isText] at ht
        · have hnt : (mergeAdjacentText (erase k)).value.isText = false := by
            rw [mergeAdjacentText_value, erase_value']; simpa using ht
          rw [snocMerge_nontext _ _ hnt, writableList_append]
          simp only [writableList, Bool.and_true]
          rw [writable_merge env b k h1 s]
      rw [step, Bool.and_assoc]
end

/-- The children of the expected clone, as far as serialising is concerned, are the source's. -/
theorem expectedClone_serial (env : Env) (b cons : Bool) (h : Nat) (v : Value) (ks : List HTree)
    (hv : validTree b (.node h v ks) = true) :
    ∃ L, expectedClone cons (erase (.node h v ks)) = Tree.node v L ∧
      (Tree.node v L).nsDecls = (Tree.node v (eraseList ks)).nsDecls ∧
      (Tree.node v L).attrs = (Tree.node v (eraseList ks)).attrs ∧
      ∀ s, writableList env s L = writableList env s (eraseList ks) := by
  cases cons with
  | false => exact ⟨eraseList ks, rfl, rfl, rfl, fun _ => rfl⟩
  | true =>
    refine ⟨mergeInto [] (eraseList ks), rfl, (merge_decls_attrs b h v ks hv).1,
      (merge_decls_attrs b h v ks hv).2, ?_⟩
    intro s
    rw [writableList_merge env b ks (validTree_kids b h v ks hv) s []]
    simp [writableList]

end XotModel
