/-
  XotModel.Lemmas.ArenaAbsAppend — refinement theorems for `checked_append` and `checked_prepend`:
  the forest model's `checkedAppend` / `checkedPrepend` (`cut`, then `placeLast` / `placeFirst`).
-/
import XotModel.Lemmas.ArenaAbsNew

namespace XotModel
namespace Arena

theorem Shape.link_kids_ne (g : Shape) (p : Nat) (L : List Nat) (i : Nat) (R : List Nat) (q : Nat) (hq : q ≠ p) :
    (g.link p L i R).kids q = g.kids q := by
  simp [Shape.link, hq]

/-- Placing the (cut, parentless) tree of `c` under `p` between `L` and `R` by `mapAt`. -/
theorem IsTrees.link_mapAt {a1 : Arena} {g1 : Shape} {w : View} (x1 : TreeCtx a1 g1 w) {rs1 : List Nat}
    {roots1 : List HTree} (htrees : IsTrees g1 w rs1 roots1) (hrs1 : ∀ k ∈ rs1, Live a1 k) (p c : Nat) (L R : List Nat)
    (hk : g1.kids p = L ++ R) (hp : Live a1 p) (hanc : ¬ Reach g1.par p c) (tc : HTree)
    (htc : IsTree g1 w c tc) (G : HTree → HTree)
    (hG : ∀ (hd : Nat) (v : Value) (tsL tsR : List HTree), tsL.length = L.length → tsR.length = R.length →
      G (.node hd v (tsL ++ tsR)) = .node hd v (tsL ++ tc :: tsR)) :
    IsTrees (g1.link p L c R) w rs1 (roots1.map (HTree.mapAt (w.rho p) G)) := by
  refine IsTrees.mapAtList x1 ⟨hp, ?_, fun q _ hq => ⟨Shape.link_kids_ne g1 p L c R q hq, rfl, rfl⟩⟩ htrees hrs1
  intro tp htp
  match htp with
  | @IsTree.mk _ _ _ ts hts =>
    rw [hk] at hts
    obtain ⟨tsL, tsR, e, hL, hR⟩ := IsTrees.split hts
    rw [e, hG _ _ tsL tsR hL.length hR.length]
    refine .mk ?_
    have hkids' : (g1.link p L c R).kids p = L ++ c :: R := by simp [Shape.link]
    rw [hkids']
    have hLp : ∀ k ∈ L, k ∈ g1.kids p := fun k hk' => by rw [hk]; exact List.mem_append_left _ hk'
    have hRp : ∀ k ∈ R, k ∈ g1.kids p := fun k hk' => by rw [hk]; exact List.mem_append_right _ hk'
    -- subtrees of the old children and of `c` do not contain `p`
    have below : ∀ {cs : List Nat} {ts : List HTree}, IsTrees g1 w cs ts → (∀ k ∈ cs, k ∈ g1.kids p) →
        IsTrees (g1.link p L c R) w cs ts := by
      intro cs ts h hcs
      refine IsTrees.congr (fun q => ∃ k, k ∈ g1.kids p ∧ Reach g1.par q k) ?_ h (fun k hk' => ⟨k, hcs k hk', .refl _⟩)
      intro q ⟨k, hk', hqk⟩
      have hqp : q ≠ p := fun e => x1.rep.acyclic k p (x1.rep.kidsLive p k hk').2.2 (e ▸ hqk)
      exact ⟨Shape.link_kids_ne g1 p L c R q hqp, rfl, rfl,
        fun k' hk'' => ⟨k, hk', .step (x1.rep.kidsLive q k' hk'').2.2 hqk⟩⟩
    refine IsTrees.append (below hL hLp) (.cons ?_ (below hR hRp))
    refine IsTree.congr (fun q => Reach g1.par q c) ?_ htc (.refl _)
    intro q hq
    have hqp : q ≠ p := fun e => hanc (e ▸ hq)
    exact ⟨Shape.link_kids_ne g1 p L c R q hqp, rfl, rfl, fun k' hk'' => .step (x1.rep.kidsLive q k' hk'').2.2 hq⟩

/-- The roots after a node that had been cut has been given a parent again. -/
theorem Abs.rsMem_link {a a' : Arena} {g : Shape} {w : View} {rs : List Nat} {f : Forest} (h : Abs a g w rs f)
    (hM : MetaEq a a') (p c : Nat) (L R : List Nat) (j : Nat) :
    j ∈ rs.filter (· ≠ c) ↔ (Live a' j ∧ ((g.detach c).link p L c R).par j = none) := by
  simp only [List.mem_filter, ne_eq, decide_eq_true_eq, Shape.link]
  rw [hM.live j, h.rsMem j]
  by_cases hjc : j = c
  · subst hjc; simp
  · rw [if_neg hjc, Shape.detach_par_ne g c j hjc]
    simp [hjc]

theorem Abs.checkedAppend_ok {a : Arena} {g : Shape} {w : View} {rs : List Nat} {f : Forest} (h : Abs a g w rs f)
    (p c : Nat) (hp : Live a p) (hc : Live a c) (hpc : p ≠ c) (hanc : ¬ Reach g.par p c) :
    ∃ a', Arena.checkedAppend a (a.idAt p) (a.idAt c) = .done a' (.ok ()) ∧
      (f.checkedAppend (w.rho p) (w.rho c)).2 = true ∧
      Abs a' (g.append p c) w (rs.filter (· ≠ c)) (f.checkedAppend (w.rho p) (w.rho c)).1 := by
  obtain ⟨a', hcall, r', hM⟩ := h.ctx.rep.checkedAppend_ok p c hp hc hpc hanc
  obtain ⟨a1, _, r1, hM1⟩ := h.ctx.rep.detach (a.idAt c) (LiveId.idAt hc)
  rw [idAt_index0] at r1
  obtain ⟨tc, f1, hcut, _, htc1, htrees1, hnext, hcorrupt⟩ := h.cut c hc
  have hne : w.rho p ≠ w.rho c := fun e => hpc (h.ctx.inj p c hp hc e)
  have hcont : (f.ancestors (w.rho p)).contains (w.rho c) = false := by
    cases hh : (f.ancestors (w.rho p)).contains (w.rho c) with
    | false => rfl
    | true => exact absurd ((h.ancestors_contains p c hp hc).mp hh) hanc
  have hfa : f.checkedAppend (w.rho p) (w.rho c) = (f1.placeLast (w.rho p) tc, true) := by
    unfold Forest.checkedAppend
    simp only [hne, decide_false, hcont, Bool.or_self, Bool.false_eq_true, if_false, hcut]
  rw [hfa]
  refine ⟨a', hcall, rfl, ?_⟩
  have x1 : TreeCtx a1 (g.detach c) w :=
    ⟨r1, fun u v hu hv => h.ctx.inj u v ((hM1.live u).mp hu) ((hM1.live v).mp hv)⟩
  have hanc1 : ¬ Reach (g.detach c).par p c := fun hr => hanc (Reach.mono (Shape.detach_par_le g c) hr)
  refine ⟨⟨r', fun u v hu hv => h.ctx.inj u v ((hM.live u).mp hu) ((hM.live v).mp hv)⟩, ?_, h.rsNodup.filter _, ?_, ?_, ?_, ?_⟩
  · show IsTrees (g.append p c) w (rs.filter (· ≠ c)) (f1.roots.map _)
    refine IsTrees.link_mapAt x1 htrees1 (fun k hk => (hM1.live k).mpr (h.rsLive k (List.mem_filter.mp hk).1))
      p c ((g.detach c).kids p) [] (by simp) ((hM1.live p).mpr hp) hanc1 tc htc1 _ ?_
    intro hd v tsL tsR _ hR
    have : tsR = [] := List.length_eq_zero_iff.mp (by simpa using hR)
    subst this
    simp [HTree.setKids, HTree.kids]
  · intro j; exact h.rsMem_link hM p c _ _ j
  · intro u hu
    show w.rho u < f1.next
    rw [hnext]; exact h.below u ((hM.live u).mp hu)
  · intro j s v hs hd'
    obtain ⟨s0, hs0, _, hdata⟩ := hM.slot_some' hs
    exact h.vals j s0 v hs0 (by rw [← hdata]; exact hd')
  · show f1.corrupt = false
    rw [hcorrupt]; exact h.clean

theorem Abs.checkedPrepend_ok {a : Arena} {g : Shape} {w : View} {rs : List Nat} {f : Forest} (h : Abs a g w rs f)
    (p c : Nat) (hp : Live a p) (hc : Live a c) (hpc : p ≠ c) (hanc : ¬ Reach g.par p c)
    (hfirst : (g.kids p).head? ≠ some c) :
    ∃ a', Arena.checkedPrepend a (a.idAt p) (a.idAt c) = .done a' (.ok ()) ∧
      (f.checkedPrepend (w.rho p) (w.rho c)).2 = true ∧
      Abs a' (g.prepend p c) w (rs.filter (· ≠ c)) (f.checkedPrepend (w.rho p) (w.rho c)).1 := by
  obtain ⟨a', hcall, r', hM⟩ := h.ctx.rep.checkedPrepend_ok p c hp hc hpc hanc hfirst
  obtain ⟨a1, _, r1, hM1⟩ := h.ctx.rep.detach (a.idAt c) (LiveId.idAt hc)
  rw [idAt_index0] at r1
  obtain ⟨tc, f1, hcut, _, htc1, htrees1, hnext, hcorrupt⟩ := h.cut c hc
  have hne : w.rho p ≠ w.rho c := fun e => hpc (h.ctx.inj p c hp hc e)
  have hcont : (f.ancestors (w.rho p)).contains (w.rho c) = false := by
    cases hh : (f.ancestors (w.rho p)).contains (w.rho c) with
    | false => rfl
    | true => exact absurd ((h.ancestors_contains p c hp hc).mp hh) hanc
  have hfa : f.checkedPrepend (w.rho p) (w.rho c) = (f1.placeFirst (w.rho p) tc, true) := by
    unfold Forest.checkedPrepend
    simp only [hne, decide_false, hcont, Bool.or_self, Bool.false_eq_true, if_false, hcut]
  rw [hfa]
  refine ⟨a', hcall, rfl, ?_⟩
  have x1 : TreeCtx a1 (g.detach c) w :=
    ⟨r1, fun u v hu hv => h.ctx.inj u v ((hM1.live u).mp hu) ((hM1.live v).mp hv)⟩
  have hanc1 : ¬ Reach (g.detach c).par p c := fun hr => hanc (Reach.mono (Shape.detach_par_le g c) hr)
  refine ⟨⟨r', fun u v hu hv => h.ctx.inj u v ((hM.live u).mp hu) ((hM.live v).mp hv)⟩, ?_, h.rsNodup.filter _, ?_, ?_, ?_, ?_⟩
  · show IsTrees (g.prepend p c) w (rs.filter (· ≠ c)) (f1.roots.map _)
    refine IsTrees.link_mapAt x1 htrees1 (fun k hk => (hM1.live k).mpr (h.rsLive k (List.mem_filter.mp hk).1))
      p c [] ((g.detach c).kids p) (by simp) ((hM1.live p).mpr hp) hanc1 tc htc1 _ ?_
    intro hd v tsL tsR hL _
    have : tsL = [] := List.length_eq_zero_iff.mp (by simpa using hL)
    subst this
    simp [HTree.setKids, HTree.kids]
  · intro j; exact h.rsMem_link hM p c _ _ j
  · intro u hu
    show w.rho u < f1.next
    rw [hnext]; exact h.below u ((hM.live u).mp hu)
  · intro j s v hs hd'
    obtain ⟨s0, hs0, _, hdata⟩ := hM.slot_some' hs
    exact h.vals j s0 v hs0 (by rw [← hdata]; exact hd')
  · show f1.corrupt = false
    rw [hcorrupt]; exact h.clean

end Arena
end XotModel
