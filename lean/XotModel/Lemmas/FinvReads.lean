/-
  Finv (C04), part 37: no read hands out a removed node.  Every handle returned by the navigation
  functions and the node-map views of the forest is a live handle (hence not removed).
-/
import XotModel.Lemmas.FinvValue5

namespace XotModel
open HTree

namespace Forest

theorem kid_handle_mem {t k : HTree} (hk : k ∈ t.kids) : k.handle ∈ handles t := by
  rw [fi_handles_eq]
  refine List.mem_cons_of_mem _ ?_
  generalize t.kids = ks at hk
  induction ks with
  | nil => cases hk
  | cons a ks ih =>
    rw [fi_handlesList_cons, List.mem_append]
    rcases List.mem_cons.mp hk with e | e
    · subst e; exact Or.inl (fi_handle_mem_handles k)
    · exact Or.inr (ih e)

theorem live_of_get?_mem {f : Forest} {n x : Nat} {t : HTree} (hg : f.get? n = some t)
    (hx : x ∈ handles t) : f.isLive x = true :=
  isLive_of_mem_allHandles (handles_of_findList? n f.roots t hg x hx)

theorem isRemoved_false_of_live {f : Forest} {x : Nat} (h : f.isLive x = true) : f.isRemoved x = false := by
  simp [isRemoved, h]

theorem reads_live {f : Forest} (hi : f.Inv) (r : Read) : ∀ x ∈ r.result f, f.isLive x = true := by
  have w := hi.toW
  intro x hx
  cases r with
  | parent n =>
    simp only [Read.result, Option.mem_toList] at hx
    exact (parent?_live hx).2
  | firstChild n =>
    simp only [Read.result, Option.mem_toList] at hx
    exact (parent?_live (firstChild_parent w hx)).1
  | lastChild n =>
    simp only [Read.result, Option.mem_toList] at hx
    exact (parent?_live (lastChild_parent w hx)).1
  | nextSibling n =>
    simp only [Read.result, Option.mem_toList] at hx
    exact (nextSibling_sib w hx).live
  | previousSibling n =>
    simp only [Read.result, Option.mem_toList] at hx
    exact (prevSibling_sib w hx).live
  | ancestors n =>
    simp only [Read.result] at hx
    cases hl : f.isLive x with
    | true => rfl
    | false =>
      exfalso
      have h1 := ancestors_live w hx
      rw [hl] at h1
      cases h1
  | children n =>
    simp only [Read.result] at hx
    cases hg : f.get? n with
    | none => rw [hg] at hx; simp at hx
    | some t =>
      rw [hg] at hx
      simp only [Option.map_some, Option.getD_some, List.mem_map] at hx
      obtain ⟨k, hk, rfl⟩ := hx
      exact live_of_get?_mem hg (kid_handle_mem hk)
  | descendants n =>
    simp only [Read.result] at hx
    cases hg : f.get? n with
    | none => rw [hg] at hx; simp at hx
    | some t =>
      rw [hg] at hx
      simp only [Option.map_some, Option.getD_some] at hx
      exact live_of_get?_mem hg hx
  | mapNodes k n =>
    simp only [Read.result] at hx
    cases hg : f.get? n with
    | none => rw [hg] at hx; simp at hx
    | some t =>
      rw [hg] at hx
      simp only [Option.map_some, Option.getD_some, List.mem_map] at hx
      obtain ⟨c, hc, rfl⟩ := hx
      exact live_of_get?_mem hg (kid_handle_mem (fv_mapChildren_sub k t c hc))
  | mapGetNode k n key =>
    simp only [Read.result, Option.mem_toList, Option.map_eq_some_iff] at hx
    obtain ⟨c, hc, rfl⟩ := hx
    exact isLive_of_hv (hv_of_mapGetNode hc)
  | roots =>
    simp only [Read.result, List.mem_map] at hx
    obtain ⟨t, ht, rfl⟩ := hx
    apply isLive_of_mem_allHandles
    unfold allHandles
    generalize f.roots = rs at ht
    induction rs with
    | nil => cases ht
    | cons a rs ih =>
      rw [fi_handlesList_cons, List.mem_append]
      rcases List.mem_cons.mp ht with e | e
      · subst e; exact Or.inl (fi_handle_mem_handles t)
      · exact Or.inr (ih e)

end Forest
end XotModel
