/-
  C17_boundaries: every end point of every recorded span and of every error span is a position of
  the kind the token spans' own char boundaries are.  Generic in the position predicate `P`
  (GENERATED from ParseSpans.lean by renaming `· ≤ len` to `P`, see the report; the first section
  is new): with `P i := i is a char boundary of the source` this is char-boundary alignment, with
  `P i := i ≤ len` it is C17_inside / C17_errors again.
-/
import XotModel.Lemmas.ParseQName
import XotModel.Lemmas.ParseSpans

namespace XotModel

/-- Both end points satisfy `P`. -/
def Span.EndsIn (P : Nat → Prop) (sp : Span) : Prop := P sp.start ∧ P sp.stop

/-- Every char boundary of the slice (its start, its end, and every position between two of its
    characters) satisfies `P`. -/
def StrSpan.Inner (P : Nat → Prop) (s : StrSpan) : Prop :=
  ∀ pre suf, s.text = pre ++ suf → P (s.start + strLen pre)

theorem strLen_append (a b : Str) : strLen (a ++ b) = strLen a + strLen b := by
  induction a with
  | nil => simp [strLen]
  | cons c cs ih => simp only [List.cons_append, strLen, ih]; omega

theorem StrSpan.Inner.start {P : Nat → Prop} {s : StrSpan} (h : s.Inner P) : P s.start := by
  have := h [] s.text rfl; simpa [strLen] using this

theorem StrSpan.Inner.stop {P : Nat → Prop} {s : StrSpan} (h : s.Inner P) : P s.stop := by
  have := h s.text [] (by simp); simpa [StrSpan.stop] using this

def Token.Inner (P : Nat → Prop) : Token → Prop
  | .declaration v e _ sp => v.Inner P ∧ (∀ x, e = some x → x.Inner P) ∧ sp.Inner P
  | .pi t c sp => t.Inner P ∧ (∀ x, c = some x → x.Inner P) ∧ sp.Inner P
  | .comment t sp => t.Inner P ∧ sp.Inner P
  | .dtdStart sp => sp.Inner P
  | .emptyDtd sp => sp.Inner P
  | .entityDecl sp => sp.Inner P
  | .dtdEnd sp => sp.Inner P
  | .elementStart p l sp => p.Inner P ∧ l.Inner P ∧ sp.Inner P
  | .attribute p l v sp => p.Inner P ∧ l.Inner P ∧ v.Inner P ∧ sp.Inner P
  | .elementEnd (.close p l) sp => p.Inner P ∧ l.Inner P ∧ sp.Inner P
  | .elementEnd _ sp => sp.Inner P
  | .text t => t.Inner P
  | .cdata t sp => t.Inner P ∧ sp.Inner P

theorem StrSpan.span_endsIn {P : Nat → Prop} {s : StrSpan} (h : s.Inner P) : s.span.EndsIn P :=
  ⟨h.start, h.stop⟩

theorem fromPrefixName_endsIn {P : Nat → Prop} {p n : StrSpan} (hp : p.Inner P) (hn : n.Inner P) :
    (Span.fromPrefixName p n).EndsIn P := by
  unfold Span.fromPrefixName
  split
  · exact ⟨hn.start, hn.stop⟩
  · exact ⟨hp.start, hn.stop⟩

/-- The positions an error of `parse_content` carries are char boundaries of the content:
    `done` is the part already consumed (`pos` = its byte length). -/
def ContentErr.onBoundary (base : Nat) (full : Str) : ContentErr → Prop
  | .unclosed _ p => ∃ pre suf, full = pre ++ suf ∧ p = base + strLen pre
  | .invalid _ a b => (∃ pre suf, full = pre ++ suf ∧ a = base + strLen pre) ∧
      (∃ pre suf, full = pre ++ suf ∧ b = base + strLen pre)

theorem splitSemi_eq {s e r : Str} (h : splitSemi s = some (e, r)) : s = e ++ ';' :: r := by
  induction s generalizing e with
  | nil => simp [splitSemi] at h
  | cons c cs ih =>
    unfold splitSemi at h
    split at h
    · rename_i hc
      simp at h; obtain ⟨rfl, rfl⟩ := h
      subst hc; rfl
    · cases hs : splitSemi cs with
      | none => simp [hs] at h
      | some p =>
        obtain ⟨e', r'⟩ := p
        simp [hs] at h
        obtain ⟨rfl, rfl⟩ := h
        rw [ih hs]; rfl

theorem skipLf_eq (s : Str) : s = (s.take (s.length - (skipLf s).length)) ++ skipLf s ∧
    strLen (s.take (s.length - (skipLf s).length)) = s.length - (skipLf s).length := by
  unfold skipLf
  split
  · rename_i r
    simp [strLen, utf8Len]
  · simp [strLen]

theorem parseGo_error_boundary (attr : Bool) (base : Nat) :
    ∀ (n : Nat) (done s : Str) (e : ContentErr), s.length = n →
      parseContentGo attr base (strLen done) s = .error e → e.onBoundary base (done ++ s) := by
  intro n
  induction n using Nat.strongRecOn with
  | _ n ih =>
    intro done s e hn h
    match s, hn with
    | [], _ => rw [parseGo_nil] at h; cases h
    | c :: rest, hn =>
      rw [parseContentGo.eq_def] at h
      simp only at h
      split at h
      · -- carriage return
        rename_i hcr
        have h' := consOk_error h
        have hl := skipLf_length rest
        obtain ⟨hsplit, hlen⟩ := skipLf_eq rest
        have hpos : strLen done + 1 + (rest.length - (skipLf rest).length) =
            strLen (done ++ c :: rest.take (rest.length - (skipLf rest).length)) := by
          rw [strLen_append, strLen_cons, hlen, hcr]; simp [utf8Len]; omega
        rw [hpos] at h'
        have := ih (skipLf rest).length (by simp at hn; omega) _ (skipLf rest) e rfl h'
        have heq : done ++ c :: rest.take (rest.length - (skipLf rest).length) ++ skipLf rest = done ++ c :: rest := by
          rw [List.append_assoc, List.cons_append, ← hsplit]
        rw [heq] at this
        exact this
      · split at h
        · rename_i hamp
          split at h
          · cases h
            exact ⟨done, c :: rest, rfl, rfl⟩
          · rename_i ent rest' hsp
            have hs := splitSemi_eq hsp
            split at h
            · cases h
              refine ⟨⟨done, c :: rest, rfl, rfl⟩, ⟨done ++ c :: (ent ++ [';']), rest', ?_, ?_⟩⟩
              · rw [hs]; simp
              · rw [strLen_append, strLen_cons, strLen_append, hamp]; simp [strLen, utf8Len]; omega
            · have h' := consOk_error h
              have hl := splitSemi_length hsp
              have hpos : strLen done + 1 + strLen ent + 1 = strLen (done ++ c :: (ent ++ [';'])) := by
                rw [strLen_append, strLen_cons, strLen_append, hamp]; simp [strLen, utf8Len]; omega
              rw [hpos] at h'
              have := ih rest'.length (by simp at hn; omega) _ rest' e rfl h'
              have heq : done ++ c :: (ent ++ [';']) ++ rest' = done ++ c :: rest := by rw [hs]; simp
              rw [heq] at this
              exact this
        · have hstep : ∀ (h' : parseContentGo attr base (strLen done + utf8Len c) rest = .error e),
              e.onBoundary base (done ++ c :: rest) := by
            intro h'
            have hpos : strLen done + utf8Len c = strLen (done ++ [c]) := by
              rw [strLen_append]; simp [strLen]
            rw [hpos] at h'
            have := ih rest.length (by simp at hn; omega) _ rest e rfl h'
            simpa using this
          split at h
          · exact hstep (consOk_error h)
          · exact hstep (consOk_error h)

theorem contentErr_endsIn {P : Nat → Prop} {attr : Bool} {v : StrSpan} {e : ContentErr} (hv : v.Inner P)
    (h : parseContentGo attr v.start 0 v.text = .error e) : (ParseErr.ofContent e).span.EndsIn P := by
  have hb := parseGo_error_boundary attr v.start _ [] v.text e rfl (by simpa [strLen] using h)
  simp only [List.nil_append] at hb
  cases e with
  | unclosed t p =>
    obtain ⟨pre, suf, h1, h2⟩ := hb
    have := hv pre suf h1
    simp only [ParseErr.ofContent, ParseErr.span, Span.EndsIn]
    rw [h2]; exact ⟨this, this⟩
  | invalid t a b =>
    obtain ⟨⟨pre, suf, h1, h2⟩, ⟨pre', suf', h1', h2'⟩⟩ := hb
    simp only [ParseErr.ofContent, ParseErr.span, Span.EndsIn]
    rw [h2, h2']; exact ⟨hv pre suf h1, hv pre' suf' h1'⟩

/-! ### The span map -/

def SpanMap.AllEnds (P : Nat → Prop) (m : SpanMap) : Prop := ∀ e ∈ m, e.2.EndsIn P

theorem SpanMap.get_endsIn {P : Nat → Prop} {m : SpanMap} (h : m.AllEnds P) {k : SpanKey} {sp : Span}
    (hg : m.get k = some sp) : sp.EndsIn P :=
  h (k, sp) (lookup_mem hg)

theorem SpanMap.add_allEnds {P : Nat → Prop} {m : SpanMap} (h : m.AllEnds P) (k : SpanKey) {sp : Span}
    (hs : sp.EndsIn P) : (m.add k sp).AllEnds P := by
  intro e he
  simp only [SpanMap.add, List.mem_cons, List.mem_filter] at he
  rcases he with rfl | ⟨he, _⟩
  · exact hs
  · exact h e he

theorem SpanMap.extendText_allEnds {P : Nat → Prop} {m : SpanMap} (h : m.AllEnds P) (node : Path) {sp : Span}
    (hs : sp.EndsIn P) : (m.extendText node sp).AllEnds P := by
  unfold SpanMap.extendText
  split
  · rename_i existing hg
    exact SpanMap.add_allEnds h _ ⟨(SpanMap.get_endsIn h hg).1, hs.2⟩
  · exact SpanMap.add_allEnds h _ hs

theorem SpanMap.addAttributeSpans_allEnds {P : Nat → Prop} (node : Path) (l : List (Nat × Span × Span)) :
    ∀ {m : SpanMap}, m.AllEnds P → (∀ a ∈ l, a.2.1.EndsIn P ∧ a.2.2.EndsIn P) →
      (m.addAttributeSpans node l).AllEnds P := by
  induction l with
  | nil => intro m h _; exact h
  | cons a rest ih =>
    intro m h ha
    obtain ⟨n, s1, s2⟩ := a
    simp only [SpanMap.addAttributeSpans]
    have := ha (n, s1, s2) (by simp)
    exact ih (SpanMap.add_allEnds (SpanMap.add_allEnds h _ this.1) _ this.2) (fun x hx => ha x (by simp [hx]))

/-! ### Builder invariant -/

def AttributeBuilder.SpansEnds (P : Nat → Prop) (ab : AttributeBuilder) : Prop :=
  ab.nameSpan.EndsIn P ∧ ab.valueSpan.EndsIn P ∧ ab.prefixSpan.EndsIn P

def ElementBuilder.SpansEnds (P : Nat → Prop) (eb : ElementBuilder) : Prop :=
  eb.span.EndsIn P ∧ eb.prefixSpan.EndsIn P ∧ ∀ ab ∈ eb.attributes, ab.SpansEnds P

def SpansEnds (P : Nat → Prop) (b : Builder) : Prop :=
  b.spans.AllEnds P ∧ ∀ eb, b.eb = some eb → eb.SpansEnds P

/-- A step result is good: the new builder keeps the invariant / the error span is in bounds. -/
def StepEnds (P : Nat → Prop) : Step Builder → Prop
  | .ok b' => SpansEnds P b'
  | .err e _ => e.span.EndsIn P
  | .panic => True

theorem spansEnds_new (P : Nat → Prop) (env : Env) : SpansEnds P (Builder.new env) :=
  ⟨fun e he => by simp [Builder.new] at he, fun eb h => by simp [Builder.new] at h⟩

theorem prefix_ends {P : Nat → Prop} {b : Builder} (h : SpansEnds P b) (p : Str) {u : StrSpan} {sp : Span}
    (hu : u.Inner P) (hsp : sp.EndsIn P) : StepEnds P (b.prefix p u sp) := by
  unfold Builder.prefix
  split
  · rename_i e he
    exact contentErr_endsIn hu he
  · split
    · exact hsp
    dsimp only
    split
    · trivial
    · rename_i eb heb
      split
      · exact hsp
      · refine ⟨h.1, fun eb' he => ?_⟩
        simp only [Option.some.injEq] at he
        subst he
        exact h.2 eb heb

theorem attribute_ends {P : Nat → Prop} {b : Builder} (h : SpansEnds P b) {p l v : StrSpan}
    (hp : p.Inner P) (hl : l.Inner P) (hv : v.Inner P) : StepEnds P (b.attribute p l v) := by
  unfold Builder.attribute
  split
  · trivial
  · rename_i eb heb
    split
    · exact fromPrefixName_endsIn hp hl
    · split
      · rename_i e he
        exact contentErr_endsIn hv he
      · refine ⟨h.1, fun eb' he => ?_⟩
        simp only [Option.some.injEq] at he
        subst he
        obtain ⟨h1, h2, h3⟩ := h.2 eb heb
        refine ⟨h1, h2, fun ab hab => ?_⟩
        simp only [List.mem_append, List.mem_singleton] at hab
        rcases hab with hab | rfl
        · exact h3 ab hab
        · exact ⟨fromPrefixName_endsIn hp hl, StrSpan.span_endsIn hv, StrSpan.span_endsIn hp⟩

theorem attributeNameId_errEnds {P : Nat → Prop} {env env' : Env} {stack : NsStack} {pfx name : Str} {sp : Span} {e : ParseErr}
    (hs : sp.EndsIn P) (h : attributeNameId env stack pfx name sp = .err e env') : e.span.EndsIn P := by
  unfold attributeNameId at h
  dsimp only at h
  split at h
  · cases h
  · split at h
    · cases h
    · cases h; exact hs

theorem elementNameId_errEnds {P : Nat → Prop} {env env' : Env} {stack : NsStack} {pfx name : Str} {sp : Span} {e : ParseErr}
    (hs : sp.EndsIn P) (h : elementNameId env stack pfx name sp = .err e env') : e.span.EndsIn P := by
  unfold elementNameId at h
  dsimp only at h
  split at h
  · cases h
  · cases h; exact hs

/-- Result of the attribute loop: errors in bounds, collected spans in bounds. -/
theorem addAttributes_ends {P : Nat → Prop} (stack : NsStack) (node : Path) (abs : List AttributeBuilder) :
    ∀ (st : AttrLoop), (∀ ab ∈ abs, ab.SpansEnds P) →
      (∀ a ∈ st.aspans, a.2.1.EndsIn P ∧ a.2.2.EndsIn P) →
      match addAttributes stack node st abs with
      | .ok st' => ∀ a ∈ st'.aspans, a.2.1.EndsIn P ∧ a.2.2.EndsIn P
      | .err e _ => e.span.EndsIn P
      | .panic => True := by
  induction abs with
  | nil => intro st _ hs; simpa [addAttributes] using hs
  | cons ab rest ih =>
    intro st hab hs
    have hab0 := hab ab (by simp)
    simp only [addAttributes]
    cases hn : attributeNameId st.env stack ab.pfx ab.name ab.prefixSpan with
    | panic => trivial
    | err e env => exact attributeNameId_errEnds hab0.2.2 hn
    | ok r =>
      obtain ⟨env1, nameId⟩ := r
      simp only
      by_cases hrep : st.seenNames.contains nameId = true
      · simp only [hrep, if_true]
        exact hab0.1
      · simp only [hrep]
        by_cases hdup : (nameId == Env.xmlIdName && st.seenIds.contains (xmlIdValue nameId ab.value)) = true
        · simp only [hdup, if_true]
          exact hab0.2.1
        · simp only [hdup]
          refine ih _ (fun x hx => hab x (by simp [hx])) ?_
          intro a ha
          simp only [List.mem_append, List.mem_singleton] at ha
          rcases ha with ha | rfl
          · exact hs a ha
          · exact ⟨hab0.1, hab0.2.1⟩

theorem openElement_ends {P : Nat → Prop} {b : Builder} (h : SpansEnds P b) : StepEnds P b.openElement := by
  unfold Builder.openElement
  split
  · trivial
  · rename_i eb heb
    obtain ⟨h1, h2, h3⟩ := h.2 eb heb
    dsimp only
    split
    · trivial
    · rename_i e env he
      exact elementNameId_errEnds h2 he
    · rename_i env1 nameId _
      have hl := addAttributes_ends (P := P) (eb.namespaces :: b.nsStack) (b.curPath ++ [b.cur.rkids.length])
        eb.attributes { env := env1, seenIds := b.seenIds, idNodes := b.idNodes, seenNames := [], rkids := namespaceKids eb.namespaces, aspans := [] }
        h3 (fun a ha => by simp at ha)
      split
      · trivial
      · rename_i e env he
        rw [he] at hl; exact hl
      · rename_i st hst
        rw [hst] at hl
        refine ⟨?_, fun eb' he => by simp at he⟩
        exact SpanMap.addAttributeSpans_allEnds _ _ (SpanMap.add_allEnds h.1 _ h1) hl

theorem leave_ends {P : Nat → Prop} {b : Builder} (h : SpansEnds P b) (node : Path) {sp : StrSpan}
    (hs : sp.Inner P) : StepEnds P (b.leave node sp) := by
  unfold Builder.leave Builder.toParent
  cases hpar : b.parents with
  | nil => trivial
  | cons p rest => exact ⟨SpanMap.add_allEnds h.1 _ (StrSpan.span_endsIn hs), h.2⟩

theorem closeImmediate_ends {P : Nat → Prop} {b : Builder} (h : SpansEnds P b) {sp : StrSpan}
    (hs : sp.Inner P) : StepEnds P (b.closeImmediate sp) := by
  unfold Builder.closeImmediate
  refine leave_ends ?_ _ hs
  split
  · exact ⟨h.1, h.2⟩
  · exact h

theorem closeElement_ends {P : Nat → Prop} {b : Builder} (h : SpansEnds P b) {p l sp : StrSpan}
    (hp : p.Inner P) (hl : l.Inner P) (hs : sp.Inner P) : StepEnds P (b.closeElement p l sp) := by
  unfold Builder.closeElement
  split
  · trivial
  · rename_i e env he
    exact elementNameId_errEnds (StrSpan.span_endsIn hp) he
  · split
    · exact fromPrefixName_endsIn hp hl
    · split
      · split
        · exact fromPrefixName_endsIn hp hl
        · refine leave_ends (b := _) ?_ _ hs
          exact ⟨h.1, h.2⟩
      · refine leave_ends (b := _) ?_ _ hs
        exact ⟨h.1, h.2⟩

theorem text_ends {P : Nat → Prop} {b : Builder} (h : SpansEnds P b) {t : StrSpan} (ht : t.Inner P) :
    StepEnds P (b.text t) := by
  unfold Builder.text
  split
  · rename_i e he
    exact contentErr_endsIn ht he
  · rename_i content _
    obtain ⟨h1, h2⟩ := addText_spans b content
    refine ⟨?_, fun eb he => h.2 eb (by rw [← h2]; exact he)⟩
    simp only
    rw [h1]
    exact SpanMap.extendText_allEnds h.1 _ (StrSpan.span_endsIn ht)

theorem cdata_ends {P : Nat → Prop} {b : Builder} (h : SpansEnds P b) {t : StrSpan} (ht : t.Inner P) :
    StepEnds P (b.cdata t) := by
  unfold Builder.cdata
  split
  · exact h
  · obtain ⟨h1, h2⟩ := addText_spans b (replaceCr (replaceCrLf t.text))
    refine ⟨?_, fun eb he => h.2 eb (by rw [← h2]; exact he)⟩
    simp only
    rw [h1]
    exact SpanMap.extendText_allEnds h.1 _ (StrSpan.span_endsIn ht)

theorem stepCore_ends {P : Nat → Prop} {b : Builder} (h : SpansEnds P b) (t : Token) (ht : t.Inner P) :
    StepEnds P (b.stepCore t) := by
  cases t with
  | «attribute» p l v sp =>
    obtain ⟨hp, hl, hv, _⟩ := ht
    simp only [Builder.stepCore]
    split
    · exact prefix_ends h _ hv (fromPrefixName_endsIn hp hl)
    · split
      · exact prefix_ends h _ hv (fromPrefixName_endsIn hp hl)
      · exact attribute_ends h hp hl hv
  | text t => exact text_ends h ht
  | cdata t sp => exact cdata_ends h ht.1
  | elementStart p l sp =>
    obtain ⟨hp, hl, _⟩ := ht
    refine ⟨h.1, fun eb he => ?_⟩
    simp only [Builder.element, Option.some.injEq] at he
    subst he
    exact ⟨fromPrefixName_endsIn hp hl, StrSpan.span_endsIn hp, fun ab hab => by simp [ElementBuilder.new] at hab⟩
  | elementEnd e sp =>
    cases e with
    | «open» => exact openElement_ends h
    | close p l => exact closeElement_ends h ht.1 ht.2.1 ht.2.2
    | empty =>
      simp only [Builder.stepCore]
      have ho := openElement_ends h
      split
      · rename_i b1 h1
        rw [h1] at ho
        exact closeImmediate_ends ho ht
      · rename_i r hne
        cases hb : b.openElement with
        | ok b2 => exact absurd hb (hne b2)
        | err e env => rw [hb] at ho; exact ho
        | panic => trivial
  | comment t sp =>
    refine ⟨?_, h.2⟩
    exact SpanMap.add_allEnds h.1 _ (StrSpan.span_endsIn ht.1)
  | pi target content sp =>
    obtain ⟨ht1, ht2, _⟩ := ht
    simp only [Builder.stepCore]
    split
    · exact StrSpan.span_endsIn ht1
    refine ⟨?_, h.2⟩
    simp only [Builder.processingInstruction, Builder.addLeaf]
    have h1 := SpanMap.add_allEnds (k := ⟨b.curPath ++ [b.cur.rkids.length], .piTarget⟩) h.1 (StrSpan.span_endsIn ht1)
    cases content with
    | none => exact h1
    | some c => exact SpanMap.add_allEnds h1 _ (StrSpan.span_endsIn (ht2 c rfl))
  | declaration v e s sp =>
    simp only [Builder.stepCore]
    split
    · exact StrSpan.span_endsIn ht.1
    · exact h
  | dtdStart sp => exact StrSpan.span_endsIn ht
  | dtdEnd sp => exact StrSpan.span_endsIn ht
  | emptyDtd sp => exact StrSpan.span_endsIn ht
  | entityDecl sp => exact StrSpan.span_endsIn ht

theorem step_ends {P : Nat → Prop} {b : Builder} (h : SpansEnds P b) (t : Token) (ht : t.Inner P) :
    StepEnds P (b.step t) := by
  refine b.step_cases t (fun _ => stepCore_ends h t ht) ?_
  intro p l hq _
  have hpl : p.Inner P ∧ l.Inner P := by
    rcases Token.qname_elim hq with ⟨v, sp, rfl⟩ | ⟨sp, rfl⟩ | ⟨sp, rfl⟩ <;> exact ⟨ht.1, ht.2.1⟩
  exact ⟨hpl.1.start, hpl.2.stop⟩

theorem run_ends {P : Nat → Prop} (ts : List Token) (lexErr : Option Nat) (hlex : ∀ p, lexErr = some p → P p) :
    ∀ {b : Builder}, SpansEnds P b → (∀ t ∈ ts, t.Inner P) → StepEnds P (b.run ts lexErr) := by
  induction ts with
  | nil =>
    intro b h _
    cases lexErr with
    | none =>
      simp only [Builder.run]
      split
      · rename_i eb heb; exact (h.2 eb heb).1
      · exact h
    | some p => exact ⟨hlex p rfl, hlex p rfl⟩
  | cons t ts ih =>
    intro b h ht
    simp only [Builder.run]
    have hs := step_ends h t (ht t (by simp))
    split
    · rename_i b1 h1
      rw [h1] at hs
      exact ih hs (fun x hx => ht x (by simp [hx]))
    · rename_i r hne
      cases hb : b.step t with
      | ok b2 => exact absurd hb (hne b2)
      | err e env => rw [hb] at hs; exact hs
      | panic => trivial

/-! ### Epilogues -/

def BuildEnds (P : Nat → Prop) : BuildResult → Prop
  | .ok p => p.spans.AllEnds P
  | .err e _ => e.span.EndsIn P
  | .panic => True

theorem unclosed_ends {P : Nat → Prop} {b : Builder} (h : SpansEnds P b) : BuildEnds P b.unclosed := by
  unfold Builder.unclosed
  split
  · rename_i sp hg; exact SpanMap.get_endsIn h.1 hg
  · trivial

theorem topLevelScan_errEnds {P : Nat → Prop} {spans : SpanMap} (h : spans.AllEnds P) (ks : List Tree) :
    ∀ (i : Nat) (elems : List Nat) (e : ParseErr), topLevelScan spans i ks elems = .err e → e.span.EndsIn P := by
  induction ks with
  | nil => intro i elems e he; simp [topLevelScan] at he
  | cons k rest ih =>
    intro i elems e he
    simp only [topLevelScan] at he
    split at he
    · exact ih _ _ _ he
    · split at he
      · rename_i sp hg
        cases he
        exact SpanMap.get_endsIn h hg
      · cases he
    · exact ih _ _ _ he

theorem finishDocument_ends {P : Nat → Prop} {b : Builder} {len : Nat} (hlen : P len) (h : SpansEnds P b) :
    BuildEnds P (b.finishDocument len) := by
  unfold Builder.finishDocument
  split
  · split
    · trivial
    · rename_i e he
      exact topLevelScan_errEnds h.1 _ _ _ _ he
    · split
      · exact ⟨hlen, hlen⟩
      · exact h.1
      · split
        · rename_i sp hg; exact SpanMap.get_endsIn h.1 hg
        · trivial
  · exact unclosed_ends h

theorem finishFragment_ends {P : Nat → Prop} {b : Builder} (h : SpansEnds P b) : BuildEnds P b.finishFragment := by
  unfold Builder.finishFragment
  split
  · exact h.1
  · exact unclosed_ends h

theorem build_ends {P : Nat → Prop} (m : Mode) (len : Nat) (env : Env) (ts : List Token) (lexErr : Option Nat) (hlen : P len)
    (hin : ∀ t ∈ ts, t.Inner P) (hlex : ∀ p, lexErr = some p → P p) :
    BuildEnds P (build m len env ts lexErr) := by
  unfold build
  have hr := run_ends ts lexErr hlex (spansEnds_new P env) hin
  split
  · trivial
  · rename_i e env' he
    rw [he] at hr; exact hr
  · rename_i b hb
    rw [hb] at hr
    cases m with
    | document => exact finishDocument_ends hlen hr
    | fragment => exact finishFragment_ends hr


/-! ### Char boundaries of a source text -/

/-- `i` is a char boundary of `src` (the byte length of a prefix). -/
def IsBoundary (src : Str) (i : Nat) : Prop := ∃ pre suf, src = pre ++ suf ∧ i = strLen pre

/-- The span is a slice of `src`: its text occurs there, starting at its byte offset. -/
def StrSpan.SliceOf (src : Str) (s : StrSpan) : Prop := ∃ a b, src = a ++ s.text ++ b ∧ s.start = strLen a

theorem StrSpan.SliceOf.inner {src : Str} {s : StrSpan} (h : s.SliceOf src) : s.Inner (IsBoundary src) := by
  obtain ⟨a, b, hsrc, hst⟩ := h
  intro pre suf ht
  refine ⟨a ++ pre, suf ++ b, ?_, ?_⟩
  · rw [hsrc, ht]; simp [List.append_assoc]
  · rw [hst, strLen_append]

/-- `q` holds of every span the token carries. -/
def Token.All (q : StrSpan → Prop) : Token → Prop
  | .declaration v e _ sp => q v ∧ (∀ x, e = some x → q x) ∧ q sp
  | .pi t c sp => q t ∧ (∀ x, c = some x → q x) ∧ q sp
  | .comment t sp => q t ∧ q sp
  | .dtdStart sp => q sp
  | .emptyDtd sp => q sp
  | .entityDecl sp => q sp
  | .dtdEnd sp => q sp
  | .elementStart p l sp => q p ∧ q l ∧ q sp
  | .attribute p l v sp => q p ∧ q l ∧ q v ∧ q sp
  | .elementEnd (.close p l) sp => q p ∧ q l ∧ q sp
  | .elementEnd _ sp => q sp
  | .text t => q t
  | .cdata t sp => q t ∧ q sp

theorem Token.inner_of_all {P : Nat → Prop} {q : StrSpan → Prop} (hq : ∀ s, q s → s.Inner P) :
    ∀ t : Token, t.All q → t.Inner P
  | .declaration v e s sp, h => ⟨hq _ h.1, fun x hx => hq _ (h.2.1 x hx), hq _ h.2.2⟩
  | .pi t c sp, h => ⟨hq _ h.1, fun x hx => hq _ (h.2.1 x hx), hq _ h.2.2⟩
  | .comment t sp, h => ⟨hq _ h.1, hq _ h.2⟩
  | .dtdStart sp, h => hq _ h
  | .emptyDtd sp, h => hq _ h
  | .entityDecl sp, h => hq _ h
  | .dtdEnd sp, h => hq _ h
  | .elementStart p l sp, h => ⟨hq _ h.1, hq _ h.2.1, hq _ h.2.2⟩
  | .attribute p l v sp, h => ⟨hq _ h.1, hq _ h.2.1, hq _ h.2.2.1, hq _ h.2.2.2⟩
  | .elementEnd (.close p l) sp, h => ⟨hq _ h.1, hq _ h.2.1, hq _ h.2.2⟩
  | .elementEnd .open sp, h => hq _ h
  | .elementEnd .empty sp, h => hq _ h
  | .text t, h => hq _ h
  | .cdata t sp, h => ⟨hq _ h.1, hq _ h.2⟩

/-- Every recorded span and every error span of a parse of `src` starts and ends on a char
    boundary of `src`, when every token span is a slice of `src`. -/
theorem build_boundaries (m : Mode) (src : Str) (env : Env) (ts : List Token) (lexErr : Option Nat)
    (hts : ∀ t ∈ ts, t.All (StrSpan.SliceOf src)) (hlex : ∀ p, lexErr = some p → IsBoundary src p) :
    BuildEnds (IsBoundary src) (build m (strLen src) env ts lexErr) :=
  build_ends m (strLen src) env ts lexErr ⟨src, [], by simp, rfl⟩
    (fun t ht => Token.inner_of_all (fun _ h => h.inner) t (hts t ht)) hlex

theorem IsBoundary.le {src : Str} {i : Nat} (h : IsBoundary src i) : i ≤ strLen src := by
  obtain ⟨pre, suf, hs, hi⟩ := h
  rw [hs, strLen_append, hi]; omega

end XotModel
