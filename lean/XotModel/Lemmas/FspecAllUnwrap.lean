/-
  FspecAllUnwrap — C05 for `element_unwrap` against the PAIR reading (`Spec.specUnwrapP`,
  `Model/FspecSpec4.lean`), for EVERY forest satisfying the invariant — adjacent text nodes allowed
  (no `Forest.Normal`).  The consolidation steps of xot (`Forest.unwrapSteps`, evaluated with
  `seamStep` / `lastStep` of `FspecUnwrap.lean`, which use local facts only) against the three pair
  merges of the specification.
-/
import XotModel.Lemmas.FspecAllList
import XotModel.Lemmas.FspecPairRemove
import XotModel.Model.FspecSpec4

namespace XotModel
open HTree Spec

namespace PairAll

/-- One pair merge of the specification that changes nothing. -/
theorem step_noop {g : Forest} {p : Nat} {v : Value} {L : List HTree} (s : SiteAt g p v L)
    (oa ob : Option Nat) (h : ∀ a b, oa = some a → ob = some b → mergeAdj a b L = L) :
    g.mergeLeftAt (some p) (oa, ob) = g := by
  cases oa with
  | none => exact Forest.mergeLeftAt_none_left _ _ _
  | some a =>
    cases ob with
    | none => exact Forest.mergeLeftAt_none_right _ _ _
    | some b =>
      rw [Forest.mergeLeftAt_some]
      split
      · rw [s.congr (g := mergeAdj a b) (g' := id) (h a b rfl rfl), Forest.editAt_id]
      · rfl

/-- One pair merge of the specification, given what it does to the child list. -/
theorem step_merge {g : Forest} {p : Nat} {v : Value} {L L' : List HTree} (s : SiteAt g p v L)
    (hc : g.consolidation = true) {a b : Nat} (h : mergeAdj a b L = L') :
    g.mergeLeftAt (some p) (some a, some b) = g.editAt (some p) (fun _ => L') := by
  rw [s.mergeLeftAt_on hc, h]

/-- The three pair merges of `specUnwrapP`, on the forest after `remove_element`. -/
def unwrapMerges (f1 : Forest) (p : Nat) (a first last b : Option Nat) : Forest :=
  ((f1.mergeLeftAt (some p) (a, first)).mergeLeftAt (some p) (last, b)).mergeLeftAt (some p) (a, b)

theorem head_of_snoc {Nm'' : List HTree} {kf kl : HTree} {Nm' : List HTree} (h : kf :: Nm' = Nm'' ++ [kl])
    (R : List HTree) : ∃ Y, Nm'' ++ kl :: R = kf :: Y := by
  cases Nm'' with
  | nil =>
    simp only [List.nil_append] at h ⊢
    injection h with h1 _
    exact ⟨R, by rw [h1]⟩
  | cons c N =>
    simp only [List.cons_append] at h ⊢
    injection h with h1 _
    exact ⟨N ++ kl :: R, by rw [h1]⟩

/-- xot's consolidation steps after `remove_element` are the specification's three pair merges. -/
theorem steps_specP {f1 : Forest} {p : Nat} {v : Value} {l Nm r : List HTree} {first last : Nat}
    (s1 : SiteAt f1 p v (l ++ Nm ++ r))
    (hfirst : Nm.head?.map (·.handle) = some first) (hlast : Nm.getLast?.map (·.handle) = some last)
    (hleaf : ∀ t ∈ Nm ++ r, t.value.isText = true → t.kids = []) :
    f1.unwrapSteps first last =
      unwrapMerges f1 p (l.getLast?.map (·.handle)) (some first) (some last) (r.head?.map (·.handle)) := by
  unfold unwrapMerges
  cases hcc : f1.consolidation with
  | false =>
    rw [Forest.mergeLeftAt_off hcc, Forest.mergeLeftAt_off hcc, Forest.mergeLeftAt_off hcc]
    unfold Forest.unwrapSteps
    rw [Forest.removeConsolidate_off hcc]
    simp only [Bool.false_eq_true, if_false]
    rw [Forest.removeConsolidate_off hcc]
  | true =>
    cases Nm with
    | nil => simp at hfirst
    | cons kf Nm' =>
    simp only [List.head?_cons, Option.map_some, Option.some.injEq] at hfirst
    subst hfirst
    obtain ⟨Nm'', kl, hsplit⟩ : ∃ Nm'' kl, kf :: Nm' = Nm'' ++ [kl] := by
      rcases List.eq_nil_or_concat (kf :: Nm') with h | ⟨L, b, h⟩
      · cases h
      · exact ⟨L, b, by rw [h, List.concat_eq_append]⟩
    have hlast' : kl.handle = last := by
      rw [hsplit] at hlast; simpa using hlast
    subst hlast'
    have hleafr : ∀ t ∈ r, t.value.isText = true → t.kids = [] :=
      fun t ht => hleaf t (List.mem_append_right _ ht)
    have s1a : SiteAt f1 p v (l ++ kf :: (Nm' ++ r)) := by
      have : l ++ kf :: (Nm' ++ r) = l ++ (kf :: Nm') ++ r := by simp
      rw [this]; exact s1
    have s1b : SiteAt f1 p v ((l ++ Nm'') ++ kl :: r) := by
      have : (l ++ Nm'') ++ kl :: r = l ++ (kf :: Nm') ++ r := by rw [hsplit]; simp
      rw [this]; exact s1
    obtain ⟨ndLa, _⟩ := s1a.nodupKids
    obtain ⟨tla, tra⟩ := tops_ne_of_nodup ndLa
    obtain ⟨ndLb, _⟩ := s1b.nodupKids
    obtain ⟨tlb, trb⟩ := tops_ne_of_nodup ndLb
    have hprev : f1.prevSibling kf.handle = prevOf l kf := Forest.prevSibling_of_ctx s1a.ctx
    have hnx : nextOf (kf :: (Nm' ++ r)) kf = some kf.handle := by simp [nextOf]
    -- the first unwrapped child does not carry the handle of a node behind the last one
    have hkf_r : ∀ b ∈ r, kf.handle ≠ b.handle := fun b hb e =>
      tra b (List.mem_append_right _ hb) e.symm
    unfold Forest.unwrapSteps
    rw [hprev]
    rcases seamStep kf s1a hcc (fun t ht => hleaf t (by simpa using ht)) (by
        intro a b _ h2 _ h4
        simp only [List.head?_cons, Option.some.injEq] at h2
        subst h2
        exact text_category h4) with ⟨h1, h2⟩ | ⟨A', a, b0, B', x, y, eA, eB, hx, hy, hp, _, h3, s2⟩
    · -- no merge at the first seam
      rw [hnx] at h1
      rw [h1]
      simp only [Bool.false_eq_true, if_false]
      -- the specification's first merge does nothing
      have st1 : f1.mergeLeftAt (some p) (l.getLast?.map (·.handle), some kf.handle) = f1 := by
        apply step_noop s1a
        intro a' b' ea eb
        cases eb
        cases hl : l.getLast? with
        | none => rw [hl] at ea; cases ea
        | some a =>
          rw [hl] at ea
          simp only [Option.map_some, Option.some.injEq] at ea
          subst ea
          obtain ⟨l', el⟩ := List.getLast?_eq_some_iff.1 hl
          subst el
          have e : (l' ++ [a]) ++ kf :: (Nm' ++ r) = l' ++ a :: kf :: (Nm' ++ r) := by simp
          rw [e]
          rw [e] at ndLa
          exact mergeAdj_mid_other (h2 a kf hl rfl) _ (tops_ne_of_nodup ndLa).1
      rw [st1]
      -- the third merge: `a` and `b` are not adjacent
      have st3 : ∀ (g : Forest) (R : List HTree), SiteAt g p v ((l ++ Nm'') ++ R) →
          (∀ c, R.head? = some c → c.handle = kl.handle) → (∀ x ∈ R, x ∈ kl :: r ∨ x.handle = kl.handle) →
          g.mergeLeftAt (some p) (l.getLast?.map (·.handle), r.head?.map (·.handle)) = g := by
        intro g R sg hRh hR
        apply step_noop sg
        intro a' b' ea eb
        cases hl : l.getLast? with
        | none => rw [hl] at ea; cases ea
        | some a =>
          cases hr : r.head? with
          | none => rw [hr] at eb; cases eb
          | some b =>
            rw [hl] at ea; rw [hr] at eb
            simp only [Option.map_some, Option.some.injEq] at ea eb
            subst ea eb
            obtain ⟨l', el⟩ := List.getLast?_eq_some_iff.1 hl
            have hbr : b ∈ r := List.mem_of_head? hr
            subst el
            have e : ((l' ++ [a]) ++ Nm'') ++ R = l' ++ a :: (Nm'' ++ R) := by simp
            obtain ⟨ndg, _⟩ := sg.nodupKids
            rw [e] at ndg ⊢
            obtain ⟨tg1, tg2⟩ := tops_ne_of_nodup ndg
            apply mergeAdj_sep _ _ tg2 _ tg1
            intro c hc
            -- the child behind `a` is the first unwrapped child (or what it has become)
            have hck : c.handle = kf.handle := by
              cases Nm'' with
              | nil =>
                simp only [List.nil_append] at hc hsplit
                injection hsplit with h1' _
                rw [hRh c hc, h1']
              | cons c' N =>
                simp only [List.cons_append, List.head?_cons, Option.some.injEq] at hc hsplit
                injection hsplit with h1' _
                rw [← hc, h1']
            rw [hck]
            exact hkf_r b hbr
      rcases lastStep s1b hcc hleafr with ⟨h3, h4⟩ | ⟨b, r', x2, z, er, hx2, hz, h3⟩
      · rw [h3]
        have st2 : f1.mergeLeftAt (some p) (some kl.handle, r.head?.map (·.handle)) = f1 := by
          apply step_noop s1b
          intro a' b' ea eb
          cases ea
          cases hr : r.head? with
          | none => rw [hr] at eb; cases eb
          | some b =>
            rw [hr] at eb
            simp only [Option.map_some, Option.some.injEq] at eb
            subst eb
            obtain ⟨r', er⟩ := List.head?_eq_some_iff.1 hr
            subst er
            exact mergeAdj_mid_other (h4 b rfl) r' tlb
        rw [st2]
        exact (st3 f1 (kl :: r) s1b (fun c hc => by simp at hc; rw [hc]) (fun x hx => Or.inl hx)).symm
      · subst er
        rw [h3]
        have st2 : f1.mergeLeftAt (some p) (some kl.handle, some b.handle) =
            f1.editAt (some p) (fun _ => (l ++ Nm'') ++ kl.setValue (.text (x2 ++ z)) :: r') :=
          step_merge s1b hcc (mergeAdj_mid_text hx2 hz r' tlb)
        simp only [List.head?_cons, Option.map_some]
        rw [st2]
        have sg : SiteAt (f1.editAt (some p) (fun _ => (l ++ Nm'') ++ kl.setValue (.text (x2 ++ z)) :: r')) p v
            ((l ++ Nm'') ++ kl.setValue (.text (x2 ++ z)) :: r') :=
          s1b.edit _ (by
            simp only [fs_handlesList_append, handlesList_cons, setValue_handles]
            exact (List.Sublist.refl _).append ((List.Sublist.refl _).append (List.sublist_append_right _ _)))
        have := st3 _ (kl.setValue (.text (x2 ++ z)) :: r') sg
          (fun c hc => by simp at hc; rw [← hc, setValue_handle])
          (fun x hx => by
            cases List.mem_cons.1 hx with
            | inl e => exact Or.inr (by rw [e, setValue_handle])
            | inr e => exact Or.inl (by simp [e]))
        simp only [List.head?_cons, Option.map_some] at this
        exact this.symm
    · -- the first unwrapped child is merged into the text before it
      subst eA
      injection eB with eb eB'
      subst eb eB'
      rw [hnx] at h3
      rw [h3]
      simp only [if_true]
      rw [hp]
      have hc2 : (f1.editAt (some p) (fun _ => A' ++ a.setValue (.text (x ++ y)) :: (Nm' ++ r))).consolidation
          = true := by rw [Forest.editAt_consolidation]; exact hcc
      have e0 : (A' ++ [a]) ++ kf :: (Nm' ++ r) = A' ++ a :: kf :: (Nm' ++ r) := by simp
      have ndLa' := ndLa
      rw [e0] at ndLa'
      obtain ⟨ta1, ta2⟩ := tops_ne_of_nodup ndLa'
      have hlA : (A' ++ [a]).getLast? = some a := by simp
      have st1 : f1.mergeLeftAt (some p) ((A' ++ [a]).getLast?.map (·.handle), some kf.handle) =
          f1.editAt (some p) (fun _ => A' ++ a.setValue (.text (x ++ y)) :: (Nm' ++ r)) := by
        rw [hlA]
        exact step_merge s1a hcc (by rw [e0]; exact mergeAdj_mid_text hx hy _ ta1)
      rw [st1]
      obtain ⟨nd2, _⟩ := s2.nodupKids
      obtain ⟨t21, t22⟩ := tops_ne_of_nodup nd2
      rw [setValue_handle] at t21 t22
      rcases List.eq_nil_or_concat Nm' with hN | ⟨Nm3, kl2, hN⟩
      · -- exactly one unwrapped child: the three-way case
        subst hN
        obtain ⟨e3, e4⟩ := List.append_inj' (s₁ := []) (t₁ := [kf]) hsplit rfl
        cases e4
        subst e3
        rw [if_pos rfl, Forest.nextSibling_of_ctx s1a.ctx]
        have s2' : SiteAt (f1.editAt (some p) (fun _ => A' ++ a.setValue (.text (x ++ y)) :: ([] ++ r))) p v
            ((A' ++ [a.setValue (.text (x ++ y))]) ++ r) := by
          have : (A' ++ [a.setValue (.text (x ++ y))]) ++ r = A' ++ a.setValue (.text (x ++ y)) :: ([] ++ r) := by
            simp
          rw [this]; exact s2
        have hp2 : prevOf (A' ++ [a.setValue (.text (x ++ y))]) kf = some a.handle := by
          simp [prevOf, setValue_value, setValue_handle, hy, Value.category]
        -- the second merge of the specification: the unwrapped child is gone
        have st2 : (f1.editAt (some p) (fun _ => A' ++ a.setValue (.text (x ++ y)) :: ([] ++ r))).mergeLeftAt (some p)
            (some kf.handle, r.head?.map (·.handle)) =
            f1.editAt (some p) (fun _ => A' ++ a.setValue (.text (x ++ y)) :: ([] ++ r)) := by
          apply step_noop s2
          intro a' b' ea _
          cases ea
          apply mergeAdj_of_not_top
          intro k hk
          simp only [List.nil_append] at hk
          cases List.mem_append.1 hk with
          | inl h => exact tla k (List.mem_append_left _ h)
          | inr h =>
            cases List.mem_cons.1 h with
            | inl h' =>
              rw [h', setValue_handle]
              exact tla a (by simp)
            | inr h' => exact tra k (by simpa using h')
        rw [st2]
        rcases seamStep kf s2' hc2 hleafr (fun _ _ _ _ _ _ => by rw [hy]; rfl)
          with ⟨h5, h6⟩ | ⟨A2, a2, b, r', x2, z, eA2, er, hx2, hz, _, _, h7, _⟩
        · rw [hp2] at h5
          simp only [List.nil_append] at h5 ⊢
          rw [h5]
          symm
          apply step_noop (L := A' ++ a.setValue (.text (x ++ y)) :: r) (by simpa using s2)
          intro a' b' ea eb
          simp only [List.getLast?_concat, Option.map_some, Option.some.injEq] at ea
          subst ea
          cases hr : r.head? with
          | none => rw [hr] at eb; cases eb
          | some b =>
            rw [hr] at eb
            simp only [Option.map_some, Option.some.injEq] at eb
            subst eb
            obtain ⟨r', er⟩ := List.head?_eq_some_iff.1 hr
            subst er
            have := mergeAdj_mid_other (A := a.setValue (.text (x ++ y))) (B := b)
              (h6 _ b (by simp) rfl) r' (l := A') (by rw [setValue_handle]; exact ta1)
            rw [setValue_handle] at this
            exact this
        · obtain ⟨eA3, ea3⟩ := List.append_inj' eA2 rfl
          cases ea3
          subst eA3 er
          rw [setValue_value] at hx2
          injection hx2 with hx2
          subst hx2
          rw [hp2] at h7
          simp only [List.nil_append] at h7 ⊢
          rw [h7]
          simp only [List.getLast?_concat, List.head?_cons, Option.map_some]
          symm
          apply step_merge (L := A' ++ a.setValue (.text (x ++ y)) :: b :: r') (by simpa using s2) hc2
          have := mergeAdj_mid_text (A := a.setValue (.text (x ++ y))) (B := b) (setValue_value _ _) hz r'
            (l := A') (by rw [setValue_handle]; exact ta1)
          rw [setValue_handle] at this
          exact this
      · -- several unwrapped children: the last one is looked at separately
        rw [List.concat_eq_append] at hN
        subst hN
        obtain ⟨e3, e4⟩ := List.append_inj' (s₁ := kf :: Nm3) (t₁ := [kl2]) hsplit rfl
        cases e4
        subst e3
        have hne : ¬ kf.handle = kl.handle := by
          exact fun e => tra kl (by simp) e.symm
        rw [if_neg hne]
        have s2b : SiteAt (f1.editAt (some p) (fun _ => A' ++ a.setValue (.text (x ++ y)) :: (Nm3 ++ [kl] ++ r))) p v
            ((A' ++ a.setValue (.text (x ++ y)) :: Nm3) ++ kl :: r) := by
          have : (A' ++ a.setValue (.text (x ++ y)) :: Nm3) ++ kl :: r
              = A' ++ a.setValue (.text (x ++ y)) :: (Nm3 ++ [kl] ++ r) := by simp
          rw [this]; exact s2
        obtain ⟨nd2b, _⟩ := s2b.nodupKids
        obtain ⟨t2b1, t2b2⟩ := tops_ne_of_nodup nd2b
        -- the third merge: `a` and `b` are not adjacent
        have st3 : ∀ (g : Forest) (R : List HTree), SiteAt g p v ((A' ++ a.setValue (.text (x ++ y)) :: Nm3) ++ R) →
            (∀ c, R.head? = some c → c.handle = kl.handle) →
            g.mergeLeftAt (some p) (some a.handle, r.head?.map (·.handle)) = g := by
          intro g R sg hRh
          apply step_noop sg
          intro a' b' ea eb
          cases ea
          cases hr : r.head? with
          | none => rw [hr] at eb; cases eb
          | some b =>
            rw [hr] at eb
            simp only [Option.map_some, Option.some.injEq] at eb
            subst eb
            have hbr : b ∈ r := List.mem_of_head? hr
            have e : (A' ++ a.setValue (.text (x ++ y)) :: Nm3) ++ R = A' ++ a.setValue (.text (x ++ y)) :: (Nm3 ++ R) := by
              simp
            obtain ⟨ndg, _⟩ := sg.nodupKids
            rw [e] at ndg ⊢
            obtain ⟨tg1, tg2⟩ := tops_ne_of_nodup ndg
            have := mergeAdj_sep (A := a.setValue (.text (x ++ y))) (b := b.handle) (Nm3 ++ R) (by
              intro c hc
              cases Nm3 with
              | nil =>
                simp only [List.nil_append] at hc
                rw [hRh c hc]
                exact fun e' => trb b hbr e'.symm
              | cons c' N =>
                simp only [List.cons_append, List.head?_cons, Option.some.injEq] at hc
                subst hc
                have e1 : (A' ++ [a]) ++ kf :: (c' :: N ++ [kl] ++ r) =
                    ((A' ++ [a]) ++ kf :: (c' :: N ++ [kl])) ++ r := by simp
                exact handle_ne_of_nodup_append (e1 ▸ ndLa) (by simp) hbr) tg2 A' tg1
            rw [setValue_handle] at this
            exact this
        simp only [List.getLast?_concat, Option.map_some]
        rcases lastStep s2b hc2 hleafr with ⟨h5, h6⟩ | ⟨b, r', x2, z, er, hx2, hz, h7⟩
        · rw [h5]
          have st2 : (f1.editAt (some p) (fun _ => A' ++ a.setValue (.text (x ++ y)) :: (Nm3 ++ [kl] ++ r))).mergeLeftAt
              (some p) (some kl.handle, r.head?.map (·.handle)) =
              f1.editAt (some p) (fun _ => A' ++ a.setValue (.text (x ++ y)) :: (Nm3 ++ [kl] ++ r)) := by
            apply step_noop s2b
            intro a' b' ea eb
            cases ea
            cases hr : r.head? with
            | none => rw [hr] at eb; cases eb
            | some b =>
              rw [hr] at eb
              simp only [Option.map_some, Option.some.injEq] at eb
              subst eb
              obtain ⟨r', er⟩ := List.head?_eq_some_iff.1 hr
              subst er
              exact mergeAdj_mid_other (h6 b rfl) r' t2b1
          rw [st2]
          exact (st3 _ (kl :: r) s2b (fun c hc => by simp at hc; rw [hc])).symm
        · subst er
          rw [h7, Forest.editAt_editAt]
          simp only [List.head?_cons, Option.map_some]
          have st2 : (f1.editAt (some p) (fun _ => A' ++ a.setValue (.text (x ++ y)) :: (Nm3 ++ [kl] ++ b :: r'))).mergeLeftAt
              (some p) (some kl.handle, some b.handle) =
              f1.editAt (some p) (fun _ => (A' ++ a.setValue (.text (x ++ y)) :: Nm3) ++ kl.setValue (.text (x2 ++ z)) :: r') := by
            rw [step_merge s2b hc2 (mergeAdj_mid_text hx2 hz r' t2b1), Forest.editAt_editAt]
            rfl
          rw [st2]
          have sg : SiteAt (f1.editAt (some p)
              (fun _ => (A' ++ a.setValue (.text (x ++ y)) :: Nm3) ++ kl.setValue (.text (x2 ++ z)) :: r')) p v
              ((A' ++ a.setValue (.text (x ++ y)) :: Nm3) ++ kl.setValue (.text (x2 ++ z)) :: r') := by
            have := s2b.edit (fun _ => (A' ++ a.setValue (.text (x ++ y)) :: Nm3) ++ kl.setValue (.text (x2 ++ z)) :: r') (by
              simp only [fs_handlesList_append, handlesList_cons, setValue_handles]
              exact (List.Sublist.refl _).append ((List.Sublist.refl _).append (List.sublist_append_right _ _)))
            rw [Forest.editAt_editAt] at this
            exact this
          have := st3 _ (kl.setValue (.text (x2 ++ z)) :: r') sg
            (fun c hc => by simp at hc; rw [← hc, setValue_handle])
          simp only [List.head?_cons, Option.map_some] at this
          rw [this]
          rfl

/-- Without normal children, replacing the wrapper by them is dropping it. -/
theorem editAt_unwrap_eq_drop {f : Forest} {n : Nat} {w : HTree} (nd : f.allHandles.Nodup)
    (hg : f.get? n = some w) (hF : w.kids.filter (fun k => k.value.isNormal) = []) :
    f.editAt (f.parent? n) (replaceTop n (fun w => w.kids.filter (fun k => k.value.isNormal))) =
      f.editAt (f.parent? n) (dropTop n) := by
  rcases Forest.root_or_ctx hg with hroot | ⟨c, hctx⟩
  · rw [Forest.parent?_of_no_ctx (Forest.ctx_none_of_root nd hroot)]
    unfold Forest.isRoot at hroot
    obtain ⟨k, hk, hkc⟩ := List.any_eq_true.1 hroot
    have hkc' : k.handle = n := by simpa using hkc
    have hkt := root_is nd hg k hk hkc'
    subst hkt
    obtain ⟨A, B, hAB⟩ := List.append_of_mem hk
    have nd' := nd
    unfold Forest.allHandles at nd'
    rw [hAB] at nd'
    obtain ⟨tl, tr⟩ := tops_ne_of_nodup nd'
    simp only [Forest.editAt]
    rw [hAB, replaceTop_eq_dropTop hkc' (fun k' h' => hkc' ▸ tl k' h') (fun k' h' => hkc' ▸ tr k' h') hF]
  · obtain ⟨e0, v, s⟩ := SiteAt.of_ctx nd hctx
    have hself : c.self = w := by
      have := Forest.get?_of_ctx nd hctx
      rw [hg] at this
      exact (Option.some.inj this).symm
    rw [Forest.parent?_of_ctx hctx]
    obtain ⟨ndL, _⟩ := s.nodupKids
    obtain ⟨tl, tr⟩ := tops_ne_of_nodup ndL
    apply s.congr
    exact replaceTop_eq_dropTop e0 (fun k hk => e0 ▸ tl k hk) (fun k hk => e0 ▸ tr k hk) (by rw [hself]; exact hF)

/-- Without normal children, the specification's unwrap is its remove. -/
theorem specUnwrapP_eq_specRemoveP {f : Forest} {n : Nat} {w : HTree} (nd : f.allHandles.Nodup)
    (hg : f.get? n = some w) (hF : w.kids.filter (fun k => k.value.isNormal) = []) :
    specUnwrapP n f = specRemoveP n f := by
  unfold specUnwrapP specRemoveP
  have hK : (f.kidsOf n).filter (fun k => k.value.isNormal) = [] := by
    unfold Forest.kidsOf; rw [hg]; exact hF
  simp only [hK, List.head?_nil, List.getLast?_nil, Option.map_none]
  rw [Forest.mergeLeftAt_right_none, Forest.mergeLeftAt_left_none, editAt_unwrap_eq_drop nd hg hF]

/-- `element_unwrap` of an element with a parent and normal children, pair reading. -/
theorem unwrap_coreP {f : Forest} {p n : Nat} {v vn : Value} {l K r : List HTree} {first last : Nat}
    (inv : f.Inv) (s : SiteAt f p v (l ++ .node n vn K :: r))
    (hfc : ((K.dropWhile abn).head?).map (·.handle) = some first) (hlc : Forest.lastOf K = some last) :
    (f.removeElement n).unwrapSteps first last = specUnwrapP n f := by
  have hctx : f.ctx? n = some ⟨p, l, .node n vn K, r⟩ := s.ctx
  have hpar : f.parent? n = some p := Forest.parent?_of_ctx hctx
  obtain ⟨ndL, _⟩ := s.nodupKids
  obtain ⟨tl, _⟩ := tops_ne_of_nodup ndL
  have hwmem : HTree.node n vn K ∈ l ++ .node n vn K :: r := List.mem_append_right _ List.mem_cons_self
  have hvp := s.valid inv.valid
  have hvw := fs_validList_mem (validTree_node hvp).2.2.2 _ hwmem
  have hordK := (validTree_node hvw).2.1
  have hvK := (validTree_node hvw).2.2.2
  have hleafAb : ∀ k ∈ K.takeWhile abn, k.kids = [] := fun k hk =>
    abn_leaf (fs_validList_mem hvK k ((List.takeWhile_sublist _).subset hk)) (takeWhile_abn_all K k hk)
  have hleafK : ∀ t ∈ K, t.value.isText = true → t.kids = [] :=
    SiteAt.leaf (f := f) (p := n) (v := vn) ⟨s.nd, s.getKid⟩ inv.valid
  have hleafr : ∀ t ∈ r, t.value.isText = true → t.kids = [] :=
    fun t ht => s.leaf inv.valid t (List.mem_append_right _ (List.mem_cons_of_mem _ ht))
  obtain ⟨e1, s1⟩ := Forest.removeElement_site s hleafAb
  have hNmK : ∀ t ∈ K.dropWhile abn, t ∈ K := fun t ht => (List.dropWhile_sublist _).subset ht
  have hK : K = K.takeWhile abn ++ K.dropWhile abn := List.takeWhile_append_dropWhile.symm
  have hlast : (K.dropWhile abn).getLast?.map (·.handle) = some last := by
    cases hNl : (K.dropWhile abn).getLast? with
    | none =>
      rw [List.getLast?_eq_none_iff.1 hNl] at hfc
      cases hfc
    | some z =>
      have : K.getLast? = some z := by
        rw [hK, List.getLast?_append, hNl]; rfl
      unfold Forest.lastOf at hlc
      rw [this] at hlc
      simp only at hlc
      split at hlc
      · simpa using hlc
      · cases hlc
  have hstep := steps_specP s1 hfc hlast (by
    intro t ht
    cases List.mem_append.1 ht with
    | inl h => exact hleafK t (hNmK t h)
    | inr h => exact hleafr t h)
  rw [hstep]
  unfold specUnwrapP unwrapMerges
  have hedit : f.editAt (some p) (replaceTop n (fun w => w.kids.filter (fun k => k.value.isNormal))) =
      f.removeElement n := by
    rw [e1]
    apply s.congr
    rw [replaceTop_mid (h := n) (s := .node n vn K) rfl tl]
    simp only [HTree.kids]
    rw [filter_normal_eq_dropWhile hordK]
  have hnb : f.nbOf n = (l.getLast?.map (·.handle), r.head?.map (·.handle)) := s.nbOf
  have hgn : f.get? n = some (.node n vn K) := s.getKid
  have hkids : f.kidsOf n = K := Forest.kidsOf_of_get hgn
  simp only [hpar, hnb, hedit]
  rw [hkids, filter_normal_eq_dropWhile hordK, hfc, hlast]

end PairAll

/-- **C05, `element_unwrap`, pair reading**: for EVERY forest satisfying the invariant (adjacent
    text nodes allowed), a successful call replaces the element by its normal children and merges
    exactly the pairs of text nodes that have become adjacent, the earlier node surviving. -/
theorem unwrap_pair {f : Forest} {n : Nat} (inv : f.Inv) (hok : (f.elementUnwrap n).2 = .ok) :
    (f.elementUnwrap n).1 = specUnwrapP n f := by
  have nd := inv.nodup
  cases hel : f.isElement n with
  | false =>
    unfold Forest.elementUnwrap at hok
    simp [hel] at hok
  | true =>
  obtain ⟨nm, K, hg⟩ := Forest.get_of_isElement hel
  cases hfc : f.firstChild n with
  | none =>
    rw [Forest.elementUnwrap_nokids hel hfc, remove_pair inv (Forest.isLive_of_get hg)]
    symm
    apply PairAll.specUnwrapP_eq_specRemoveP nd hg
    rw [Forest.firstChild_of_get hg] at hfc
    simp only [HTree.kids]
    have hd : K.dropWhile abn = [] := by
      cases h : K.dropWhile abn with
      | nil => rfl
      | cons a t => rw [h] at hfc; simp at hfc
    have htk : K.takeWhile abn = K := by
      have := List.takeWhile_append_dropWhile (p := abn) (l := K)
      rw [hd, List.append_nil] at this
      exact this
    rw [List.filter_eq_nil_iff]
    intro k hk
    rw [← htk] at hk
    rw [takeWhile_abn_all K k hk]
    simp
  | some first =>
    cases hpar : f.parent? n with
    | none =>
      unfold Forest.elementUnwrap at hok
      rw [hfc] at hok
      simp [hel, hpar] at hok
    | some p =>
    cases hlc : f.lastChild n with
    | none =>
      unfold Forest.elementUnwrap at hok
      rw [hfc] at hok
      simp [hel, hpar, hlc] at hok
    | some last =>
    rw [Forest.elementUnwrap_kids hel hfc hpar hlc]
    cases hctx : f.ctx? n with
    | none => rw [Forest.parent?_of_no_ctx hctx] at hpar; cases hpar
    | some c =>
    obtain ⟨e0, v, s⟩ := SiteAt.of_ctx nd hctx
    have hself : c.self = .node n (.element nm) K := by
      have := Forest.get?_of_ctx nd hctx
      rw [hg] at this
      exact (Option.some.inj this).symm
    have hp : c.parent = p := by
      rw [Forest.parent?_of_ctx hctx] at hpar
      exact Option.some.inj hpar
    obtain ⟨p', l, w, r⟩ := c
    simp only at e0 s hself hp
    subst hself hp
    exact PairAll.unwrap_coreP inv s (by rw [← Forest.firstChild_of_get hg]; exact hfc)
      (by rw [← Forest.lastChild_of_get hg]; exact hlc)

end XotModel
