/-
  Round trip for a start node INSIDE a tree, part 2: the standalone document of an element of a
  `nodeOK` tree is `Representable` (the C01 domain), and its document element is `deep_equal` to the
  element it was made from.

  The inherited declarations come from namespace nodes of ancestors (`mem_inScope_origin`), which are
  `valueOK`; their prefixes are pairwise distinct (`namespaces_in_scope` yields every prefix once)
  and none is declared by the element itself (`extraPrefixes` filters those out).
-/
import XotModel.Lemmas.InnerStartTokens
import XotModel.Lemmas.Scope
import XotModel.Lemmas.CanonDropNs
import XotModel.Lemmas.RoundTripDeepEqual
import XotModel.Lemmas.RoundTripItems
import XotModel.Lemmas.SerTokensLexTop

namespace XotModel
open XotModel.Repair

variable {env : Env}

/-! ### Small facts (local copies: the C10 development, Lemmas/Repair*.lean, has them under names that
    clash with lemma files of other properties importing Props/C01) -/

theorem ist_nodeOK_of_allNodes {v : Value} {ks : List Tree} (h : (Tree.node v ks).allNodes (nodeOK env) = true) :
    nodeOK env v ks = true := by
  rw [allNodes_node, Bool.and_eq_true] at h; exact h.1

theorem ist_allNodes_at? {p : Value → List Tree → Bool} : ∀ (path : Path) (t sub : Tree),
    t.allNodes p = true → t.at? path = some sub → sub.allNodes p = true
  | [], t, sub, h, hat => by
    simp only [Tree.at?, Option.some.injEq] at hat
    subst hat
    exact h
  | i :: rel, .node v ks, sub, h, hat => by
    rw [at?_cons] at hat
    cases hk : ks[i]? with
    | none => rw [hk] at hat; cases hat
    | some k =>
      rw [hk] at hat
      exact ist_allNodes_at? rel k sub (allNodes_kid h (List.mem_of_getElem? hk)) hat

theorem ist_noAdjText_cons_ns (p ns : Nat) (kk l : List Tree) :
    noAdjText (Tree.node (.namespace p ns) kk :: l) = noAdjText l := by
  cases l with
  | nil => rfl
  | cons b r => simp [noAdjText, Tree.value, Value.isText]

theorem ist_nsPrefixes_cons_ns (p ns : Nat) (kk ks : List Tree) :
    nsPrefixes (.node (.namespace p ns) kk :: ks) = p :: nsPrefixes ks := by
  simp only [nsPrefixes, List.filterMap_cons, Tree.value]

theorem ist_attrNames_cons_ns (p ns : Nat) (kk ks : List Tree) :
    attrNames (.node (.namespace p ns) kk :: ks) = attrNames ks := by
  simp only [attrNames, List.filterMap_cons, Tree.value]

theorem ist_idsList_cons_ns_leaf (p ns : Nat) (ks : List Tree) :
    xmlIdValues.idsList env (.node (.namespace p ns) [] :: ks) = xmlIdValues.idsList env ks := by
  simp only [xmlIdValues.idsList, xmlIdValues, List.nil_append]

theorem ist_orderedKids_cons_ns (p ns : Nat) (kk ks : List Tree) (h : OrderedKids ks) :
    OrderedKids (.node (.namespace p ns) kk :: ks) :=
  List.pairwise_cons.mpr ⟨fun x _ => by simp [Tree.value, Value.phase], h⟩

theorem ist_nodeOK_namespace_leaf {p ns : Nat} (h : valueOK env (.namespace p ns) = true) :
    (Tree.node (.namespace p ns) []).allNodes (nodeOK env) = true := by
  rw [allNodes_node]
  simp [nodeOK, h, OrderedKids, KindsOk, UniqueKids, attrNames, nsPrefixes, noAdjText]

/-! ### Ancestors -/

/-- Every tree on the ancestor-or-self chain of a node of `t` is a subtree of `t`. -/
theorem allNodes_chain {p : Value → List Tree → Bool} : ∀ (q : Path) (t : Tree) (chain : List Tree),
    t.allNodes p = true → t.ancestorsOrSelf q = some chain → ∀ c ∈ chain, c.allNodes p = true
  | [], t, chain, h, hc => by
    simp only [Tree.ancestorsOrSelf, Option.some.injEq] at hc
    subst hc
    intro c hc
    simp only [List.mem_singleton] at hc
    subst hc
    exact h
  | i :: q, .node v ks, chain, h, hc => by
    simp only [Tree.ancestorsOrSelf, Tree.kids] at hc
    cases hk : ks[i]? with
    | none => rw [hk] at hc; cases hc
    | some k =>
      rw [hk] at hc
      simp only [Option.map_eq_some_iff] at hc
      obtain ⟨c0, hc0, rfl⟩ := hc
      intro c hc
      rcases List.mem_append.mp hc with h1 | h1
      · exact allNodes_chain q k c0 (allNodes_kid h (List.mem_of_getElem? hk)) hc0 c h1
      · simp only [List.mem_singleton] at h1
        subst h1
        exact h

/-- A declaration in scope is the built-in `xml` binding or a declaration of an ancestor-or-self. -/
theorem mem_inScope_origin (chain : List Tree) (d : Nat × Nat) (h : d ∈ namespacesInScopeChain chain) :
    d ∈ basePrefixes ∨ ∃ c ∈ chain, d ∈ c.nsDecls := by
  obtain ⟨p, ns⟩ := d
  rw [namespacesInScopeChain_eq, traverseDecls_out_mem] at h
  have hm := mem_of_lookup_eq_some h.2.1
  simp only [allDecls, flatDecls, List.mem_append, List.mem_flatMap] at hm
  rcases hm with ⟨c, hc, hd⟩ | hb
  · exact Or.inr ⟨c, hc, hd⟩
  · exact Or.inl hb

theorem isBaseXml_of_mem_base {d : Nat × Nat} (h : d ∈ basePrefixes) : isBaseXml d = true := by
  simp only [basePrefixes, List.mem_singleton] at h
  subst h
  rfl

theorem mem_inheritedExtra {I : List (Nat × Nat)} {n : Tree} {d : Nat × Nat} (h : d ∈ inheritedExtra I n) :
    d ∈ I ∧ n.declaresPrefix d.1 = false ∧ isBaseXml d = false := by
  simp only [inheritedExtra, List.mem_filter, Bool.and_eq_true, Bool.not_eq_true'] at h
  exact ⟨h.1, h.2.1, h.2.2⟩

/-- An inherited declaration is a declaration of some ancestor-or-self. -/
theorem inheritedExtra_origin (chain : List Tree) (n : Tree) (d : Nat × Nat)
    (h : d ∈ inheritedExtra (namespacesInScopeChain chain) n) : ∃ c ∈ chain, d ∈ c.nsDecls := by
  obtain ⟨h1, _, h3⟩ := mem_inheritedExtra h
  rcases mem_inScope_origin chain d h1 with hb | hc
  · rw [isBaseXml_of_mem_base hb] at h3; cases h3
  · exact hc

theorem inheritedExtra_keys_nodup (chain : List Tree) (n : Tree) :
    ((inheritedExtra (namespacesInScopeChain chain) n).map Prod.fst).Nodup :=
  (namespacesInScopeChain_nodup chain).sublist (List.filter_sublist.map _)

/-! ### Prepending declaration leaves -/

theorem nsDecls_document_single (e : Tree) (he : e.value.isElement = true) :
    (Tree.node .document [e]).nsDecls = [] := by
  cases e with
  | node v ks =>
    cases v <;> simp [Tree.value, Value.isElement] at he
    simp [Tree.nsDecls, Tree.namespaceNodes, Tree.kids, Tree.value, Value.category]

theorem nsPrefixes_nsLeaves_append (X : List (Nat × Nat)) (ks : List Tree) :
    nsPrefixes (nsLeaves X ++ ks) = X.map Prod.fst ++ nsPrefixes ks := by
  induction X with
  | nil => rfl
  | cons d X ih =>
    show nsPrefixes (Tree.node (.namespace d.1 d.2) [] :: (nsLeaves X ++ ks)) = _
    rw [ist_nsPrefixes_cons_ns, ih]
    rfl

theorem attrNames_nsLeaves_append (X : List (Nat × Nat)) (ks : List Tree) :
    attrNames (nsLeaves X ++ ks) = attrNames ks := by
  induction X with
  | nil => rfl
  | cons d X ih =>
    show attrNames (Tree.node (.namespace d.1 d.2) [] :: (nsLeaves X ++ ks)) = _
    rw [ist_attrNames_cons_ns, ih]

theorem noAdjText_nsLeaves_append (X : List (Nat × Nat)) (ks : List Tree) :
    noAdjText (nsLeaves X ++ ks) = noAdjText ks := by
  induction X with
  | nil => rfl
  | cons d X ih =>
    show noAdjText (Tree.node (.namespace d.1 d.2) [] :: (nsLeaves X ++ ks)) = _
    rw [ist_noAdjText_cons_ns, ih]

theorem idsList_nsLeaves_append (X : List (Nat × Nat)) (ks : List Tree) :
    xmlIdValues.idsList env (nsLeaves X ++ ks) = xmlIdValues.idsList env ks := by
  induction X with
  | nil => rfl
  | cons d X ih =>
    show xmlIdValues.idsList env (Tree.node (.namespace d.1 d.2) [] :: (nsLeaves X ++ ks)) = _
    rw [ist_idsList_cons_ns_leaf, ih]

theorem orderedKids_nsLeaves_append (X : List (Nat × Nat)) (ks : List Tree) (h : OrderedKids ks) :
    OrderedKids (nsLeaves X ++ ks) := by
  induction X with
  | nil => exact h
  | cons d X ih => exact ist_orderedKids_cons_ns d.1 d.2 [] _ ih

/-- Putting `valueOK` declaration leaves whose prefixes are pairwise distinct and not declared by
    the element in front of the children of a `nodeOK` element gives a `nodeOK` element. -/
theorem nodeOK_prepend_ns (name : Nat) (ks : List Tree) (X : List (Nat × Nat))
    (hS : (Tree.node (.element name) ks).allNodes (nodeOK env) = true)
    (hv : ∀ d ∈ X, valueOK env (.namespace d.1 d.2) = true)
    (hnd : (X.map Prod.fst ++ nsPrefixes ks).Nodup) :
    (Tree.node (.element name) (nsLeaves X ++ ks)).allNodes (nodeOK env) = true := by
  obtain ⟨hord, hkinds, huniq, hnoadj, hval⟩ := (nodeOK_iff env _ _).mp (ist_nodeOK_of_allNodes hS)
  rw [allNodes_node, Bool.and_eq_true, List.all_eq_true]
  refine ⟨(nodeOK_iff env _ _).mpr ⟨orderedKids_nsLeaves_append X ks hord,
    ⟨fun h => (by cases h), fun h => (by cases h), ?_⟩, ⟨?_, ?_⟩, ?_, hval⟩, ?_⟩
  · intro k hk
    rcases List.mem_append.mp hk with h | h
    · simp only [nsLeaves, List.mem_map] at h
      obtain ⟨d, _, rfl⟩ := h
      rfl
    · exact hkinds.2.2 k h
  · rw [attrNames_nsLeaves_append]; exact huniq.1
  · rw [nsPrefixes_nsLeaves_append]; exact hnd
  · rw [noAdjText_nsLeaves_append]; exact hnoadj
  · intro k hk
    rcases List.mem_append.mp hk with h | h
    · simp only [nsLeaves, List.mem_map] at h
      obtain ⟨d, hd, rfl⟩ := h
      exact ist_nodeOK_namespace_leaf (hv d hd)
    · exact allNodes_kid hS h

/-- The document holding just a `nodeOK` element without repeated `xml:id` values is `Representable`. -/
theorem representable_document_single (henv : envOK env = true) (name : Nat) (ks : List Tree)
    (hn : (Tree.node (.element name) ks).allNodes (nodeOK env) = true)
    (hids : (xmlIdValues env (.node (.element name) ks)).Nodup) :
    Representable env (.node .document [.node (.element name) ks]) = true := by
  simp only [Representable, Bool.and_eq_true]
  refine ⟨(representableFragment_iff env _).mpr ⟨henv, rfl, ?_, ?_⟩, ?_⟩
  · rw [allNodes_node, Bool.and_eq_true, List.all_eq_true]
    refine ⟨(nodeOK_iff env _ _).mpr ⟨?_, ⟨fun h => (by cases h), ?_, ?_⟩, ⟨?_, ?_⟩, rfl, rfl⟩, ?_⟩
    · exact List.pairwise_singleton _ _
    · intro _ k hk
      simp only [List.mem_singleton] at hk; subst hk; rfl
    · intro k hk
      simp only [List.mem_singleton] at hk; subst hk; rfl
    · simp [attrNames, Tree.value]
    · simp [nsPrefixes, Tree.value]
    · intro k hk
      simp only [List.mem_singleton] at hk; subst hk; exact hn
  · have : xmlIdValues env (.node .document [.node (.element name) ks]) =
        xmlIdValues env (.node (.element name) ks) := by
      simp [xmlIdValues, xmlIdValues.idsList]
    rw [this]; exact hids
  · simp [singleRoot, Tree.kids, Tree.value, Value.isElement, Value.isText]

/-! ### `xml:id` values of a subtree -/

theorem idsList_get_sublist : ∀ (ks : List Tree) (i : Nat) (k : Tree), ks[i]? = some k →
    (xmlIdValues env k).Sublist (xmlIdValues.idsList env ks)
  | [], i, k, h => by simp at h
  | a :: ks, 0, k, h => by
    simp only [List.getElem?_cons_zero, Option.some.injEq] at h
    subst h
    simp only [xmlIdValues.idsList]
    exact List.sublist_append_left _ _
  | a :: ks, i + 1, k, h => by
    simp only [List.getElem?_cons_succ] at h
    simp only [xmlIdValues.idsList]
    exact (idsList_get_sublist ks i k h).trans (List.sublist_append_right _ _)

theorem xmlIdValues_at?_sublist : ∀ (q : Path) (t sub : Tree), t.at? q = some sub →
    (xmlIdValues env sub).Sublist (xmlIdValues env t)
  | [], t, sub, h => by
    simp only [Tree.at?, Option.some.injEq] at h
    subst h
    exact List.Sublist.refl _
  | i :: q, .node v ks, sub, h => by
    rw [at?_cons] at h
    cases hk : ks[i]? with
    | none => rw [hk] at h; cases h
    | some k =>
      rw [hk] at h
      have h1 := xmlIdValues_at?_sublist q k sub h
      have h2 := idsList_get_sublist (env := env) ks i k hk
      simp only [xmlIdValues]
      exact (h1.trans h2).trans (List.sublist_append_right _ _)

/-! ### The standalone document is in the C01 domain -/

/-- The shape of `standalone`. -/
theorem standalone_eq (t : Tree) (q : Path) (name : Nat) (ks : List Tree) (rest : List Tree)
    (hat : t.at? q = some (.node (.element name) ks))
    (hchain : t.ancestorsOrSelf q = some (.node (.element name) ks :: rest)) :
    standalone t q = some (.node .document [.node (.element name)
      (nsLeaves (inheritedExtra (namespacesInScopeChain (.node (.element name) ks :: rest))
        (.node (.element name) ks)) ++ ks)]) := by
  simp only [standalone, hat, namespacesInScope, hchain, Option.map_some, standaloneElement]

/-- **The standalone document of an element of a `nodeOK` tree is `Representable`.**  Hypotheses:
    tables with the built-in values, `nodeOK` at every node of the tree that holds the element
    (ancestors included: the inherited declarations are theirs), no repeated `xml:id` value below
    the element. -/
theorem standalone_representable (henv : envOK env = true) (t : Tree) (q : Path) (name : Nat)
    (ks : List Tree) (hok : t.allNodes (nodeOK env) = true)
    (hat : t.at? q = some (.node (.element name) ks))
    (hids : (xmlIdValues env (.node (.element name) ks)).Nodup) :
    ∃ X, standalone t q = some (.node .document [.node (.element name) (nsLeaves X ++ ks)]) ∧
      Representable env (.node .document [.node (.element name) (nsLeaves X ++ ks)]) = true := by
  obtain ⟨rest, hchain⟩ := ancestorsOrSelf_of_at? t q _ hat
  refine ⟨_, standalone_eq t q name ks rest hat hchain, ?_⟩
  have hsub : (Tree.node (.element name) ks).allNodes (nodeOK env) = true := ist_allNodes_at? q t _ hok hat
  have hch := allNodes_chain q t _ hok hchain
  obtain ⟨hord, _, _, _, _⟩ := (nodeOK_iff env _ _).mp (ist_nodeOK_of_allNodes hsub)
  apply representable_document_single henv
  · apply nodeOK_prepend_ns name ks _ hsub
    · intro d hd
      obtain ⟨c, hc, hdc⟩ := inheritedExtra_origin _ _ d hd
      cases c with
      | node cv cks => exact nsDecls_valueOK env (hch _ hc) hdc
    · rw [List.nodup_append]
      obtain ⟨_, _, huniq, _, _⟩ := (nodeOK_iff env _ _).mp (ist_nodeOK_of_allNodes hsub)
      refine ⟨inheritedExtra_keys_nodup _ _, huniq.2, ?_⟩
      intro a ha b hb hab
      subst hab
      obtain ⟨d, hd, rfl⟩ := List.mem_map.mp ha
      have hnot := (mem_inheritedExtra hd).2.1
      have hmem : d.1 ∈ (Tree.node (.element name) ks).nsDecls.map Prod.fst := by
        rw [nsDecls_eq_kidDecls _ ks hord, kidDecls_fst]; exact hb
      have : (Tree.node (.element name) ks).declaresPrefix d.1 = true :=
        (any_key_iff _ _).mpr hmem
      rw [this] at hnot
      cases hnot
  · simp only [xmlIdValues, idsList_nsLeaves_append]
    exact hids

/-! ### `deep_equal` does not see the inherited declarations -/

theorem dropNsList_nsLeaves_append (X : List (Nat × Nat)) (ks : List Tree) :
    dropNsList (nsLeaves X ++ ks) = dropNsList ks := by
  induction X with
  | nil => rfl
  | cons d X ih =>
    show dropNsList (Tree.node (.namespace d.1 d.2) [] :: (nsLeaves X ++ ks)) = _
    rw [dropNsList]
    simp only [Tree.value, Value.category, beq_self_eq_true, if_true, ih]

/-- The element of the standalone document is `deep_equal` to the element it was made from. -/
theorem deepEqual_prepend_ns (name : Nat) (ks : List Tree) (X : List (Nat × Nat))
    (h1 : (Tree.node (.element name) (nsLeaves X ++ ks)).allNodes (nodeOK env) = true)
    (h2 : (Tree.node (.element name) ks).allNodes (nodeOK env) = true) :
    deepEqual (.node (.element name) (nsLeaves X ++ ks)) (.node (.element name) ks) = true := by
  apply deepEqual_of_dropNs _ _ (valid_of_nodeOK _ h1) (valid_of_nodeOK _ h2)
  simp only [dropNs, dropNsList_nsLeaves_append]

/-! ### The side condition of the rendering theorem -/

/-- `declsNamed` everywhere in `t` gives `declsNamed` everywhere in the standalone document. -/
theorem standalone_declsNamed (t : Tree) (q : Path) (name : Nat) (ks : List Tree) (rest : List Tree)
    (hat : t.at? q = some (.node (.element name) ks))
    (hchain : t.ancestorsOrSelf q = some (.node (.element name) ks :: rest))
    (ht : t.allNodes (declsNamed env) = true) :
    (Tree.node .document [.node (.element name)
      (nsLeaves (inheritedExtra (namespacesInScopeChain (.node (.element name) ks :: rest))
        (.node (.element name) ks)) ++ ks)]).allNodes (declsNamed env) = true := by
  have hsub : (Tree.node (.element name) ks).allNodes (declsNamed env) = true := ist_allNodes_at? q t _ ht hat
  have hch := allNodes_chain q t _ ht hchain
  rw [allNodes_node, Bool.and_eq_true, List.all_eq_true]
  refine ⟨?_, fun k hk => ?_⟩
  · simp [declsNamed, nsDecls_document_single _ (show (Tree.node (.element name) _).value.isElement = true from rfl)]
  · simp only [List.mem_singleton] at hk
    subst hk
    rw [allNodes_node, Bool.and_eq_true, List.all_eq_true]
    refine ⟨?_, fun k hk => ?_⟩
    · simp only [declsNamed, nsDecls_nsLeaves_append, List.all_append, Bool.and_eq_true, List.all_eq_true]
      refine ⟨fun d hd => ?_, ?_⟩
      · obtain ⟨c, hc, hdc⟩ := inheritedExtra_origin _ _ d hd
        have h1 := hch c hc
        cases c with
        | node cv cks =>
          rw [allNodes_node, Bool.and_eq_true] at h1
          have h2 := h1.1
          simp only [declsNamed, List.all_eq_true] at h2
          exact h2 d hdc
      · have h1 := hsub
        rw [allNodes_node, Bool.and_eq_true] at h1
        have h2 := h1.1
        simp only [declsNamed, List.all_eq_true] at h2
        exact h2
    · rcases List.mem_append.mp hk with h | h
      · simp only [nsLeaves, List.mem_map] at h
        obtain ⟨d, _, rfl⟩ := h
        rw [allNodes_node]
        simp [declsNamed, Tree.nsDecls, Tree.namespaceNodes, Tree.kids]
      · exact allNodes_kid hsub h

end XotModel
