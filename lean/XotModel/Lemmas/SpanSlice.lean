/-
  XotModel.Lemmas.SpanSlice — tokenizer and builder composed: what the reference tokenizer
  guarantees of its output on every string (`LexFacts`), and the string-level reading of the
  description `Desc` of an accepted tree: recorded spans as slices of the source.
-/
import XotModel.Lemmas.SpanDescStep
import XotModel.Lemmas.SpanSliceRun
import XotModel.Model.ParseString
import XotModel.Lemmas.ParseErase

namespace XotModel

/-- What the builder-side theorems need of the token list of a source `s`. -/
structure LexFacts (s : Str) (ts : List Token) : Prop where
  slices : ∀ t ∈ ts, t.All (StrSpan.SliceOf s)
  spelled : ∀ t ∈ ts, t.Spelled s
  adj : AdjChain CharAdj ts
  tags : TagsOk false ts

theorem lexMode_facts (m : Mode) (s : Str) : LexFacts s (lexMode m s).1 := by
  cases m with
  | document =>
    exact ⟨lexDocument_sliceOf s, (lexDocument_spelled s).1, (lexDocument_spelled s).2, lexDocument_tagsOk s⟩
  | fragment =>
    exact ⟨lexFragment_sliceOf s, (lexFragment_spelled s).1, (lexFragment_spelled s).2, lexFragment_tagsOk s⟩

theorem Token.wholeSpan_all {q : StrSpan → Prop} : ∀ (t : Token), t.All q → q t.wholeSpan
  | .declaration _ _ _ _, h => h.2.2
  | .pi _ _ _, h => h.2.2
  | .comment _ _, h => h.2
  | .dtdStart _, h => h
  | .emptyDtd _, h => h
  | .entityDecl _, h => h
  | .dtdEnd _, h => h
  | .elementStart _ _ _, h => h.2.2
  | .attribute _ _ _ _, h => h.2.2.2
  | .elementEnd (.close _ _) _, h => h.2.2
  | .elementEnd .open _, h => h
  | .elementEnd .empty _, h => h
  | .text _, h => h
  | .cdata _ _, h => h.2

/-- A span that is a slice of the source, as `str::get`. -/
theorem slice_of_span {s : Str} {sp : StrSpan} (h : sp.SliceOf s) :
    sliceBytes s sp.span.start sp.span.stop = some sp.text := sliceBytes_of_sliceOf h

/-- The recorded name span slices to the qualified name as written. -/
theorem NameSlice.sliceBytes {s : Str} {p l : StrSpan} (h : NameSlice s p l) :
    sliceBytes s (Span.fromPrefixName p l).start (Span.fromPrefixName p l).stop = some (tokQName p.text l.text) := by
  have := slice_of_span h.slice
  rw [h.span] at this
  exact this

/-- The text of a node: the run behind it is made of character-data tokens, and the recorded span
    slices the source to `runSlice run`. -/
theorem TextFacts.slice {s : Str} {ts : List Token} {g : SpanKey → Option Span} {path : Path} {v : Str}
    (hl : LexFacts s ts) (h : TextFacts ts g path v) :
    ∃ run sp, run <:+: ts ∧ run ≠ [] ∧ (∀ t ∈ run, t.isCharData = true ∧ t.Spelled s) ∧ AdjChain CharAdj run ∧
      RunOk run sp ∧ runValue run = some v ∧ g ⟨path, .text⟩ = some sp ∧
      sliceBytes s sp.start sp.stop = some (runSlice run) := by
  obtain ⟨run, sp, hin, hok, hv, hg⟩ := h
  have hchain := (AdjChain.and hl.adj (tagsOk_adj ts false hl.tags)).infix hin
  have hmem : ∀ t ∈ run, t ∈ ts := fun t ht => hin.subset ht
  obtain ⟨pre, tl, l, hrun, hreal, _, _⟩ := hok.last
  have hcd := run_charData run hchain hok.toks ⟨pre, tl, hrun, Token.isCharData_of_isReal hreal⟩
  have hadj := hl.adj.infix hin
  have hall : ∀ t ∈ run, t.isCharData = true ∧ t.Spelled s ∧ t.wholeSpan.SliceOf s :=
    fun t ht => ⟨hcd t ht, hl.spelled t (hmem t ht), Token.wholeSpan_all t (hl.slices t (hmem t ht))⟩
  obtain ⟨hsl, hstop⟩ := run_slice hall hadj hok
  refine ⟨run, sp, hin, ?_, fun t ht => ⟨(hall t ht).1, (hall t ht).2.1⟩, hadj, hok, hv, hg, ?_⟩
  · rw [hrun]; simp
  · have := sliceBytes_of_sliceOf hsl
    simp only [StrSpan.stop] at this
    rw [hstop]
    exact this

/-- `parse_content` does not depend on the base position it reports errors with. -/
theorem parseContentGo_base {attr : Bool} {base : Nat} {txt v : Str}
    (h : parseContentGo attr base 0 txt = .ok v) : parseContent attr txt = .ok v := by
  unfold parseContent
  rcases parseContentGo_cases attr base 0 0 0 txt with ⟨e, e', p1, _⟩ | ⟨w, p1, p2⟩
  · rw [h] at p1; cases p1
  · rw [h] at p1
    cases p1
    exact p2

end XotModel
