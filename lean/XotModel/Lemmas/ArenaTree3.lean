/-
  XotModel.Lemmas.ArenaTree3 — `HTree.mapAt` and `HTree.ancestorsOf` on trees read off an arena.
-/
import XotModel.Lemmas.ArenaTree2

namespace XotModel
namespace Arena

/-- The change that `mapAt` at slot `p` implements: only `p`'s own node changes (its child list
    and / or its value). -/
structure MapAtSpec (a : Arena) (g g' : Shape) (w w' : View) (p : Nat) (G : HTree → HTree) : Prop where
  plive : Live a p
  image : ∀ tp, IsTree g w p tp → IsTree g' w' p (G tp)
  agree : ∀ q, Live a q → q ≠ p → g'.kids q = g.kids q ∧ w'.rho q = w.rho q ∧ w'.val q = w.val q

mutual
theorem IsTree.mapAt {a : Arena} {g g' : Shape} {w w' : View} (x : TreeCtx a g w) {p : Nat} {G : HTree → HTree}
    (ms : MapAtSpec a g g' w w' p G) {c : Nat} {t : HTree} (h : IsTree g w c t) (hc : Live a c) :
    IsTree g' w' c (HTree.mapAt (w.rho p) G t) := by
  match h with
  | @IsTree.mk _ _ _ ts hk =>
    unfold HTree.mapAt
    by_cases e : w.rho c = w.rho p
    · rw [if_pos e]
      have := x.inj c p hc ms.plive e
      subst this
      exact ms.image _ (.mk hk)
    · rw [if_neg e]
      have hcp : c ≠ p := fun h => e (by rw [h])
      obtain ⟨e1, e2, e3⟩ := ms.agree c hc hcp
      rw [← e2, ← e3, mapAtList_eq_map]
      refine .mk ?_
      rw [e1]
      exact IsTrees.mapAtList x ms hk (fun k hk' => (x.rep.kidsLive c k hk').2.1)
theorem IsTrees.mapAtList {a : Arena} {g g' : Shape} {w w' : View} (x : TreeCtx a g w) {p : Nat} {G : HTree → HTree}
    (ms : MapAtSpec a g g' w w' p G) {cs : List Nat} {ts : List HTree} (h : IsTrees g w cs ts)
    (hc : ∀ k ∈ cs, Live a k) : IsTrees g' w' cs (ts.map (HTree.mapAt (w.rho p) G)) := by
  match h with
  | .nil => exact .nil
  | .cons h1 h2 =>
    exact .cons (IsTree.mapAt x ms h1 (hc _ (by simp)))
      (IsTrees.mapAtList x ms h2 (fun k hk => hc k (List.mem_cons_of_mem _ hk)))
end

theorem Rep.reach_antisymm {a : Arena} {g : Shape} (r : Rep a g) {u v : Nat} (h1 : Reach g.par u v)
    (h2 : Reach g.par v u) : u = v := by
  cases h1 with
  | refl => rfl
  | step hp hr => exact absurd (hr.trans h2) (r.acyclic u _ hp)

mutual
theorem IsTree.ancestorsOf_none {a : Arena} {g : Shape} {w : View} (x : TreeCtx a g w) {c : Nat} {t : HTree}
    (h : IsTree g w c t) (hc : Live a c) (u : Nat) (hu : Live a u) (hn : ¬ Reach g.par u c) :
    HTree.ancestorsOf (w.rho u) t = none := by
  match h with
  | .mk hk =>
    unfold HTree.ancestorsOf
    have : w.rho c ≠ w.rho u := fun e => hn (by rw [x.inj c u hc hu e]; exact .refl _)
    rw [if_neg this]
    rw [IsTrees.ancestorsOf_none x hk (fun k hk' => (x.rep.kidsLive c k hk').2.1) u hu
      (fun k hk' hr => hn (x.rep.reach_of_child hk' hr))]
theorem IsTrees.ancestorsOf_none {a : Arena} {g : Shape} {w : View} (x : TreeCtx a g w) {cs : List Nat}
    {ts : List HTree} (h : IsTrees g w cs ts) (hc : ∀ k ∈ cs, Live a k) (u : Nat) (hu : Live a u)
    (hn : ∀ k ∈ cs, ¬ Reach g.par u k) : HTree.ancestorsOfList (w.rho u) ts = none := by
  match h with
  | .nil => rfl
  | .cons h1 h2 =>
    unfold HTree.ancestorsOfList
    rw [IsTree.ancestorsOf_none x h1 (hc _ (by simp)) u hu (hn _ (by simp))]
    exact IsTrees.ancestorsOf_none x h2 (fun k hk => hc k (List.mem_cons_of_mem _ hk)) u hu
      (fun k hk => hn k (List.mem_cons_of_mem _ hk))
end

mutual
/-- `ancestorsOf` yields the handles of the nodes between `u` and the root of the tree. -/
theorem IsTree.ancestorsOf_some {a : Arena} {g : Shape} {w : View} (x : TreeCtx a g w) {c : Nat} {t : HTree}
    (h : IsTree g w c t) (hc : Live a c) (u : Nat) (hu : Live a u) (hr : Reach g.par u c) :
    ∃ l, HTree.ancestorsOf (w.rho u) t = some l ∧
      ∀ y, y ∈ l ↔ ∃ v, y = w.rho v ∧ Reach g.par u v ∧ Reach g.par v c := by
  match h with
  | .mk hk =>
    unfold HTree.ancestorsOf
    by_cases e : w.rho c = w.rho u
    · have := x.inj c u hc hu e
      subst this
      refine ⟨[w.rho c], by rw [if_pos rfl], fun y => ?_⟩
      simp only [List.mem_singleton]
      constructor
      · intro e'; exact ⟨c, e', .refl _, .refl _⟩
      · rintro ⟨v, e', h1, h2⟩
        rw [e', x.rep.reach_antisymm h1 h2]
    · rw [if_neg e]
      rcases x.rep.reach_child hr with e' | ⟨k, hk', hr'⟩
      · subst e'; exact absurd rfl e
      · obtain ⟨l, hl, hmem⟩ := IsTrees.ancestorsOf_some x hk (fun k hk'' => (x.rep.kidsLive c k hk'').2.1) u hu k hk' hr'
          (fun k' hk'' hr'' => x.rep.child_unique hk'' hk' hr'' hr')
        refine ⟨l ++ [w.rho c], by rw [hl], fun y => ?_⟩
        simp only [List.mem_append, List.mem_singleton]
        constructor
        · rintro (h1 | h1)
          · obtain ⟨v, e1, h2, h3⟩ := (hmem y).mp h1
            exact ⟨v, e1, h2, x.rep.reach_of_child hk' h3⟩
          · exact ⟨c, h1, hr, .refl _⟩
        · rintro ⟨v, e1, h2, h3⟩
          rcases x.rep.reach_child h3 with e2 | ⟨k2, hk2, hr2⟩
          · subst e2; exact Or.inr e1
          · have : k2 = k := x.rep.child_unique hk2 hk' (h2.trans hr2) hr'
            subst this
            exact Or.inl ((hmem y).mpr ⟨v, e1, h2, hr2⟩)
theorem IsTrees.ancestorsOf_some {a : Arena} {g : Shape} {w : View} (x : TreeCtx a g w) {cs : List Nat}
    {ts : List HTree} (h : IsTrees g w cs ts) (hc : ∀ k ∈ cs, Live a k) (u : Nat) (hu : Live a u) (k : Nat)
    (hk : k ∈ cs) (hr : Reach g.par u k) (huniq : ∀ k' ∈ cs, Reach g.par u k' → k' = k) :
    ∃ l, HTree.ancestorsOfList (w.rho u) ts = some l ∧
      ∀ y, y ∈ l ↔ ∃ v, y = w.rho v ∧ Reach g.par u v ∧ Reach g.par v k := by
  match h with
  | .nil => cases hk
  | @IsTrees.cons _ _ c0 cs0 t0 ts0 h1 h2 =>
    unfold HTree.ancestorsOfList
    by_cases e : c0 = k
    · subst e
      obtain ⟨l, h3, h4⟩ := IsTree.ancestorsOf_some x h1 (hc _ (by simp)) u hu hr
      exact ⟨l, by rw [h3], h4⟩
    · have hn : ¬ Reach g.par u c0 := fun hr' => e (huniq c0 (by simp) hr')
      rw [IsTree.ancestorsOf_none x h1 (hc _ (by simp)) u hu hn]
      have hk' : k ∈ cs0 := by
        rcases List.mem_cons.mp hk with h | h
        · exact absurd h.symm e
        · exact h
      exact IsTrees.ancestorsOf_some x h2 (fun k' hk'' => hc k' (List.mem_cons_of_mem _ hk'')) u hu k hk' hr
        (fun k' hk'' => huniq k' (List.mem_cons_of_mem _ hk''))
end

/-- Dropping the tree of one root. -/
theorem IsTrees.filter_ne {a : Arena} {g : Shape} {w : View} (x : TreeCtx a g w) (i : Nat) (hi : Live a i) :
    ∀ {cs : List Nat} {ts : List HTree}, IsTrees g w cs ts → (∀ k ∈ cs, Live a k) →
      IsTrees g w (cs.filter (· ≠ i)) (ts.filter (fun r => r.handle != w.rho i))
  | _, _, .nil, _ => .nil
  | _, _, @IsTrees.cons _ _ c0 cs0 t0 ts0 h1 h2, hc => by
    have ih := IsTrees.filter_ne x i hi h2 (fun k hk => hc k (List.mem_cons_of_mem _ hk))
    by_cases e : c0 = i
    · subst e
      have : (t0.handle != w.rho c0) = false := by rw [h1.handle]; simp
      simp only [List.filter_cons, this, ne_eq, not_true_eq_false, decide_false]
      exact ih
    · have : (t0.handle != w.rho i) = true := by
        rw [h1.handle]
        simp only [bne_iff_ne, ne_eq]
        intro e'; exact e (x.inj c0 i (hc _ (by simp)) hi e')
      simp only [List.filter_cons, this, ne_eq, e, not_false_eq_true, decide_true]
      exact .cons h1 ih

end Arena
end XotModel
