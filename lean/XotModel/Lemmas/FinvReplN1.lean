/-
  Finv (C04), part 34: the raw left neighbour of a node (`leftOf`) under a value update elsewhere
  and under `remove_subtree` of an unrelated node.
-/
import XotModel.Lemmas.FinvReplT

namespace XotModel
open HTree

theorem mapAt_handle (u : Nat) (g : HTree → HTree) (hg : ∀ t, (g t).handle = t.handle) (t : HTree) :
    (mapAt u g t).handle = t.handle := by
  cases t with
  | node h v ks =>
    rw [mapAt]
    split
    · exact hg _
    · rfl

theorem mapAtList_plug_off (u : Nat) (g : HTree → HTree) (path : List ZipFrame) (ks : List HTree)
    (hoff : ∀ fr ∈ path, fr.h ≠ u) :
    mapAtList u g (plug path ks) =
      plug (path.map (ZipFrame.mapKids (mapAtList u g))) (mapAtList u g ks) := by
  induction path with
  | nil => rfl
  | cons fr rest ih =>
    rw [plug_cons, mapAtList_append, mapAtList, mapAt, if_neg (hoff fr (by simp)),
      ih (fun fr' h' => hoff fr' (by simp [h']))]
    rfl

theorem getLast?_mapAtList_handle (u : Nat) (w : Value) (l : List HTree) :
    ((mapAtList u (HTree.setValue w) l).getLast?).map (·.handle) = (l.getLast?).map (·.handle) := by
  rw [mapAtList_eq_map, List.getLast?_map]
  cases l.getLast? with
  | none => rfl
  | some k =>
    simp only [Option.map_some]
    rw [mapAt_handle u _ (fun t => by simp) k]

namespace Forest

/-- Handle of the raw previous sibling. -/
def leftOf (f : Forest) (x : Nat) : Option Nat :=
  (f.ctx? x).bind (fun c => c.left.getLast?.map (·.handle))

theorem leftOf_of_loc {f : Forest} {x : Nat} {path l K r} (lc : Loc f.roots x path l K r)
    (nd : f.allHandles.Nodup) (hne : path ≠ []) : f.leftOf x = l.getLast?.map (·.handle) := by
  obtain ⟨p, hp⟩ := ctx?_of_loc_ne lc hne nd
  unfold leftOf; rw [hp]; rfl

theorem leftOf_of_loc_nil {f : Forest} {x : Nat} {l K r} (lc : Loc f.roots x [] l K r)
    (nd : f.allHandles.Nodup) : f.leftOf x = none := by
  unfold leftOf; rw [ctx?_of_loc_nil lc nd]; rfl

/-- A value update at `u` (not `x`, not above `x`) seen from `x`. -/
theorem setView {f : Forest} {x u : Nat} (w : Value) {path lx K rx} (lc : Loc f.roots x path lx K rx)
    (nd : f.allHandles.Nodup) (hanc : (f.ancestors x).contains u = false) :
    Loc (f.setValue u w).roots x (path.map (ZipFrame.mapKids (mapAtList u (HTree.setValue w))))
      (mapAtList u (HTree.setValue w) lx) (mapAt u (HTree.setValue w) K)
      (mapAtList u (HTree.setValue w) rx) := by
  rw [ancestors_of_loc lc nd] at hanc
  simp only [List.contains_eq_mem, List.mem_cons, List.mem_reverse, List.mem_map,
    decide_eq_false_iff_not, not_or, not_exists, not_and] at hanc
  refine ⟨?_, by rw [mapAt_handle u _ (fun t => by simp) K]; exact lc.hk⟩
  show f.roots.map (mapAt u (HTree.setValue w)) = _
  rw [← mapAtList_eq_map, lc.eq, mapAtList_plug_off u _ path _ (fun fr hfr e => hanc.2 fr hfr e),
    mapAtList_append, mapAtList]

theorem leftOf_setValue {f : Forest} {x u : Nat} (w : Value) (nd : f.allHandles.Nodup)
    (hx : x ∈ f.allHandles) (hanc : (f.ancestors x).contains u = false) :
    (f.setValue u w).leftOf x = f.leftOf x := by
  obtain ⟨path, lx, K, rx, lc⟩ := exists_loc hx
  have lc' := setView w lc nd hanc
  have nd' : (f.setValue u w).allHandles.Nodup := by rw [allHandles_setValue]; exact nd
  cases path with
  | nil => rw [leftOf_of_loc_nil lc nd, leftOf_of_loc_nil (by simpa using lc') nd']
  | cons fr rest =>
    rw [leftOf_of_loc lc nd (by simp), leftOf_of_loc lc' nd' (by simp), getLast?_mapAtList_handle]

theorem leftOf_drop {f : Forest} {x c : Nat} (nd : f.allHandles.Nodup) (hx : x ∈ f.allHandles)
    (hc : c ∈ f.allHandles) (hanc : (f.ancestors x).contains c = false) (hne : f.leftOf x ≠ some c) :
    (f.dropSubtree c).leftOf x = f.leftOf x := by
  obtain ⟨path, lx, K, rx, lc⟩ := exists_loc hx
  have v := dropView lc nd hc hanc
  cases path with
  | nil => rw [leftOf_of_loc_nil lc nd, leftOf_of_loc_nil (by simpa [cutPath] using v.loc) v.nodup]
  | cons fr rest =>
    rw [leftOf_of_loc lc nd (by simp)] at hne ⊢
    rw [leftOf_of_loc v.loc v.nodup (by simp [cutPath])]
    cases hl : lx.getLast? with
    | none =>
      rw [List.getLast?_eq_none_iff] at hl; subst hl; simp [rk_nil]
    | some n =>
      rw [hl] at hne
      obtain ⟨n', h1, _, h3⟩ := getLast?_rk' (c := c) hl (fun e => hne (by simp [e]))
      rw [h1]; simp [h3]

/-- … and when the left neighbour itself (a leaf of the list's end) is removed, the one before it
    takes over. -/
theorem leftOf_drop_last {f : Forest} {x : Nat} (nd : f.allHandles.Nodup) {path : List ZipFrame} {l0 : List HTree}
    {L K : HTree} {rx : List HTree} (lc : Loc f.roots x path (l0 ++ [L]) K rx) (hne : path ≠ []) :
    (f.dropSubtree L.handle).leftOf x = l0.getLast?.map (·.handle) := by
  have lcL : Loc f.roots L.handle path l0 L (K :: rx) := ⟨by rw [lc.eq]; simp, rfl⟩
  have e : f.dropSubtree L.handle = { f with roots := plug path (l0 ++ K :: rx) } := by
    unfold dropSubtree; rw [cut_of_loc lcL nd]
  have nd' : (f.dropSubtree L.handle).allHandles.Nodup := by
    have hp := cut_perm nd (cut_of_loc lcL nd)
    have : (f.cut L.handle).1 = f.dropSubtree L.handle := rfl
    rw [← this, cut_of_loc lcL nd]
    exact List.Nodup.sublist (List.sublist_append_left _ _) (hp.symm.nodup nd)
  have lc' : Loc (f.dropSubtree L.handle).roots x path l0 K rx := by rw [e]; exact ⟨rfl, lc.hk⟩
  rw [leftOf_of_loc lc' nd' hne]

/-- Removing the (raw) left neighbour `L` of `x`: `x` stays where it is, one sibling shorter. -/
theorem loc_drop_last {f : Forest} {x : Nat} (nd : f.allHandles.Nodup) {path : List ZipFrame} {l0 : List HTree}
    {L K : HTree} {rx : List HTree} (lc : Loc f.roots x path (l0 ++ [L]) K rx) :
    Loc (f.dropSubtree L.handle).roots x path l0 K rx ∧ (f.dropSubtree L.handle).allHandles.Nodup := by
  have lcL : Loc f.roots L.handle path l0 L (K :: rx) := ⟨by rw [lc.eq]; simp, rfl⟩
  have e : f.dropSubtree L.handle = { f with roots := plug path (l0 ++ K :: rx) } := by
    unfold dropSubtree; rw [cut_of_loc lcL nd]
  refine ⟨by rw [e]; exact ⟨rfl, lc.hk⟩, ?_⟩
  have hp := cut_perm nd (cut_of_loc lcL nd)
  have : (f.cut L.handle).1 = f.dropSubtree L.handle := rfl
  rw [← this, cut_of_loc lcL nd]
  exact List.Nodup.sublist (List.sublist_append_left _ _) (hp.symm.nodup nd)

end Forest
end XotModel
