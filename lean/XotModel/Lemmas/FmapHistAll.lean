/-
  Lemmas for C11 histories, part 5: `step_all` (every `MapOp2`), `history_all` (induction over
  the history), and what `KNStep` chains give: an entry that is present throughout keeps its node
  and its position relative to every other such entry.
-/
import XotModel.Lemmas.FmapHistStep

namespace XotModel
namespace Fmap
open HTree
open Forest (MapKind entryKey mapChildren MapEntry)

theorem run_anyAppend_entry {f : Forest} (hi : f.Inv) (k : MapKind) (e e2 key : Nat)
    (he2 : f.isElement e2 = true) :
    (MapOp2.anyAppend e (.entry k e2 key)).run f = (MapOp2.appendAttachedNode k e e2 key).run f := by
  show (match f.mapGetNode k e2 key with
      | some n => res3 (f.anyAppend e n.handle)
      | none => (f, .ok)) =
    (match f.mapGetNode k e2 key with
      | some n => res3 (f.appendEntryNode k e n.handle)
      | none => (f, .ok))
  cases hn : f.mapGetNode k e2 key with
  | none => rfl
  | some n =>
    obtain ⟨hval, hmv, _⟩ := getNode_value hi k e2 key n he2 hn
    simp only
    rw [anyAppend_entry f k e n.handle n.value hval hmv]

theorem specAppendEntryOf_self (F : Fam) (k : MapKind) (e key : Nat) :
    specAppendEntryOf F k e e key = F := by
  simp [specAppendEntryOf]

/-- One step of a history. -/
theorem step_all {f : Forest} {F : Fam} (hi : f.Inv) (hF : Agree f F) (op : MapOp2)
    (hok : op.ok f = true) :
    (op.run f).2 = .ok ∧ StepOK f (op.run f).1 (specStep F op) := by
  cases op with
  | insert k e v =>
    simp only [MapOp2.ok, Bool.and_eq_true] at hok
    obtain ⟨r, t⟩ := touch_mapInsert hi k e v hok.1 hok.2
    exact ⟨r, t.stepOK (g := opInsert v) hF hok.1⟩
  | remove k e key =>
    simp only [MapOp2.ok] at hok
    obtain ⟨r, t⟩ := touch_mapRemove hi k e key hok
    exact ⟨r, t.stepOK (g := fun m => omRemove m key) hF hok⟩
  | clear k e =>
    simp only [MapOp2.ok] at hok
    obtain ⟨r, t⟩ := touch_mapClear hi k e hok
    exact ⟨r, t.stepOK (g := omClear) hF hok⟩
  | getMutSet k e key new =>
    simp only [MapOp2.ok, Bool.and_eq_true] at hok
    obtain ⟨r, t⟩ := touch_getMutSet hi k e key new hok.1 hok.2
    exact ⟨r, t.stepOK (g := fun m => omModify m key (fun _ => payloadOf new)) hF hok.1⟩
  | entryOrInsert k e d =>
    simp only [MapOp2.ok, Bool.and_eq_true] at hok
    obtain ⟨r, t⟩ := touch_entryOrInsert hi k e d hok.1 hok.2
    exact ⟨r, t.stepOK (g := opOrInsert d) hF hok.1⟩
  | entryOrDefault e name =>
    simp only [MapOp2.ok] at hok
    obtain ⟨r, t⟩ := touch_entryOrInsert hi .attributes e (.attribute name []) hok rfl
    exact ⟨r, t.stepOK (g := opOrInsert (.attribute name [])) hF hok⟩
  | entryAndModify k e key g =>
    simp only [MapOp2.ok] at hok
    obtain ⟨r, t⟩ := touch_entryAndModify hi k e key g hok
    exact ⟨r, t.stepOK (g := fun m => omModify m key (modP k key g)) hF hok⟩
  | entryAndModifyOrInsert k e d g =>
    simp only [MapOp2.ok, Bool.and_eq_true] at hok
    obtain ⟨r, t⟩ := touch_entryAndModifyOrInsert hi k e d g hok.1 hok.2
    exact ⟨r, t.stepOK (g := opModifyOrInsert k d g) hF hok.1⟩
  | entryInsert k e v =>
    simp only [MapOp2.ok, Bool.and_eq_true] at hok
    obtain ⟨r, t⟩ := touch_entryInsert hi k e v hok.1 hok.2
    exact ⟨r, t.stepOK (g := opInsert v) hF hok.1⟩
  | occupiedInsert k e v =>
    simp only [MapOp2.ok, Bool.and_eq_true] at hok
    obtain ⟨r, t⟩ := touch_occupiedInsert hi k e v hok.1 hok.2
    exact ⟨r, t.stepOK (g := opOccInsert v) hF hok.1⟩
  | vacantInsert k e v =>
    simp only [MapOp2.ok, Bool.and_eq_true] at hok
    obtain ⟨r, t⟩ := touch_vacantInsert hi k e v hok.1 hok.2
    exact ⟨r, t.stepOK (g := opOrInsert v) hF hok.1⟩
  | entryRemove k e key =>
    simp only [MapOp2.ok] at hok
    obtain ⟨r, t⟩ := touch_entryRemove hi k e key hok
    exact ⟨r, t.stepOK (g := fun m => omRemove m key) hF hok⟩
  | setAttribute e name value =>
    simp only [MapOp2.ok] at hok
    obtain ⟨r, t⟩ := touch_mapInsert hi .attributes e (.attribute name value) hok rfl
    exact ⟨r, t.stepOK (g := opInsert (.attribute name value)) hF hok⟩
  | removeAttribute e name =>
    simp only [MapOp2.ok] at hok
    obtain ⟨r, t⟩ := touch_mapRemove hi .attributes e name hok
    exact ⟨r, t.stepOK (g := fun m => omRemove m name) hF hok⟩
  | setNamespace e pfx ns =>
    simp only [MapOp2.ok] at hok
    obtain ⟨r, t⟩ := touch_mapInsert hi .namespaces e (.namespace pfx ns) hok rfl
    exact ⟨r, t.stepOK (g := opInsert (.namespace pfx ns)) hF hok⟩
  | removeNamespace e pfx =>
    simp only [MapOp2.ok] at hok
    obtain ⟨r, t⟩ := touch_mapRemove hi .namespaces e pfx hok
    exact ⟨r, t.stepOK (g := fun m => omRemove m pfx) hF hok⟩
  | appendNewNode k e v =>
    simp only [MapOp2.ok, Bool.and_eq_true] at hok
    obtain ⟨r, t⟩ := touch_appendNew hi k e v hok.1 hok.2
    exact ⟨r, t.stepOK (g := opInsert v) hF hok.1⟩
  | appendDetachedNode k e nd v =>
    simp only [MapOp2.ok, Bool.and_eq_true] at hok
    obtain ⟨hroot, hm, _⟩ := isDetachedEntry_root hi k nd v hok.2
    obtain ⟨r, t⟩ := touch_appendLeafRoot hi k e nd v hok.1 hm hroot
    exact ⟨r, t.stepOK (g := opInsert v) hF hok.1⟩
  | appendOwnNode k e key =>
    simp only [MapOp2.ok] at hok
    have := stepOK_appendRef hi hF k e e key hok hok
    rw [specAppendEntryOf_self] at this
    exact this
  | appendAttachedNode k e e2 key =>
    simp only [MapOp2.ok, Bool.and_eq_true] at hok
    exact stepOK_appendRef hi hF k e e2 key hok.1.1 hok.1.2
  | anyAppend e r =>
    cases r with
    | new v =>
      simp only [MapOp2.ok, Bool.and_eq_true] at hok
      cases hk : kindOf? v with
      | none => rw [hk] at hok; simp at hok
      | some k =>
        have hm := kindOf_matches v k hk
        have hi1 := newNode_inv f hi v
        have hg : (f.newNode v).1.get? f.next = some (.node f.next v []) :=
          findList?_direct _ hi1.nodup (.node f.next v []) (by simp [newNode_eq])
        have hval : (f.newNode v).1.value? f.next = some v := by
          simp [Forest.value?, hg, HTree.value]
        obtain ⟨r, t⟩ := touch_appendNew hi k e v hok.1 hm
        have hrun : (MapOp2.anyAppend e (.new v)).run f =
            res3 ((f.newNode v).1.appendEntryNode k e f.next) := by
          show res3 ((f.newNode v).1.anyAppend e f.next) = _
          rw [anyAppend_entry _ k e f.next v hval hm]
        have hspec : specStep F (.anyAppend e (.new v)) = F.upd e k (opInsert v) := by
          simp only [specStep, hk]
        rw [hrun, hspec]
        exact ⟨r, t.stepOK (g := opInsert v) hF hok.1⟩
    | detached nd v =>
      simp only [MapOp2.ok, Bool.and_eq_true] at hok
      cases hk : kindOf? v with
      | none => rw [hk] at hok; simp at hok
      | some k =>
        rw [hk] at hok
        obtain ⟨hroot, hm, hval⟩ := isDetachedEntry_root hi k nd v hok.2
        obtain ⟨r, t⟩ := touch_appendLeafRoot hi k e nd v hok.1 hm hroot
        have hrun : (MapOp2.anyAppend e (.detached nd v)).run f = res3 (f.appendEntryNode k e nd) := by
          show res3 (f.anyAppend e nd) = _
          rw [anyAppend_entry _ k e nd v hval hm]
        have hspec : specStep F (.anyAppend e (.detached nd v)) = F.upd e k (opInsert v) := by
          simp only [specStep, hk]
        rw [hrun, hspec]
        exact ⟨r, t.stepOK (g := opInsert v) hF hok.1⟩
    | entry k e2 key =>
      simp only [MapOp2.ok, Bool.and_eq_true] at hok
      rw [run_anyAppend_entry hi k e e2 key hok.2]
      exact stepOK_appendRef hi hF k e e2 key hok.1 hok.2
  | detachEntryNode k e key =>
    simp only [MapOp2.ok] at hok
    obtain ⟨r, t⟩ := touch_detachEntry hi k e key hok
    exact ⟨r, t.stepOK (g := fun m => omRemove m key) hF hok⟩
  | removeEntryNode k e key =>
    simp only [MapOp2.ok] at hok
    obtain ⟨r, t⟩ := touch_removeEntry hi k e key hok
    exact ⟨r, t.stepOK (g := fun m => omRemove m key) hF hok⟩

/-! ### Histories -/

/-- Every view of every node changes by `KNStep`. -/
def Stable (f f' : Forest) : Prop := ∀ x k, KNStep (absKN k f x) (absKN k f' x)

/-- Consecutive states of a trace are `Stable`. -/
def StableTrace : List Forest → Prop
  | a :: b :: rest => Stable a b ∧ StableTrace (b :: rest)
  | _ => True

theorem trace2_head (f : Forest) (ops : List MapOp2) : ∃ rest, trace2 f ops = f :: rest := by
  cases ops <;> exact ⟨_, rfl⟩

theorem history_all : ∀ (ops : List MapOp2) (f : Forest) (F : Fam), f.Inv → Agree f F →
    (runOps2 f ops).2.2 = true →
    (∀ r ∈ (runOps2 f ops).2.1, r = .ok) ∧
    (runOps2 f ops).1.Inv ∧ Agree (runOps2 f ops).1 (specOps2 F ops) ∧
    (∀ x, (runOps2 f ops).1.isElement x = f.isElement x) ∧
    (∀ g ∈ trace2 f ops, g.Inv) ∧ StableTrace (trace2 f ops)
  | [], f, F => by
    intro hi hF _
    refine ⟨by simp [runOps2], hi, hF, fun _ => rfl, ?_, trivial⟩
    intro g hg
    simp only [trace2, List.mem_singleton] at hg
    rw [hg]; exact hi
  | op :: ops, f, F => by
    intro hi hF hok
    simp only [runOps2, Bool.and_eq_true] at hok
    obtain ⟨r, s⟩ := step_all hi hF op hok.1
    obtain ⟨h1, h2, h3, h4, h5, h6⟩ := history_all ops (op.run f).1 (specStep F op) s.inv s.agree hok.2
    refine ⟨?_, h2, h3, fun x => (h4 x).trans (s.elem x), ?_, ?_⟩
    · intro r' hr'
      simp only [runOps2, List.mem_cons] at hr'
      rcases hr' with hr' | hr'
      · rw [hr']; exact r
      · exact h1 r' hr'
    · intro g hg
      simp only [trace2, List.mem_cons] at hg
      rcases hg with hg | hg
      · rw [hg]; exact hi
      · exact h5 g hg
    · obtain ⟨rest, hrest⟩ := trace2_head (op.run f).1 ops
      simp only [trace2]
      rw [hrest] at h6 ⊢
      exact ⟨s.kn, h6⟩

theorem trace2_last (ops : List MapOp2) : ∀ f : Forest, (runOps2 f ops).1 ∈ trace2 f ops := by
  induction ops with
  | nil => intro f; simp [runOps2, trace2]
  | cons op ops ih =>
    intro f
    simp only [runOps2, trace2, List.mem_cons]
    exact Or.inr (ih _)

/-! ### Entries that stay keep their relative position -/

theorem sublist_eq_filter {α : Type} [DecidableEq α] {a b : List α} (h : a.Sublist b)
    (hnd : b.Nodup) : a = b.filter (fun x => decide (x ∈ a)) := by
  induction h with
  | slnil => rfl
  | @cons l₁ l₂ x hs ih =>
    have hnd' := List.nodup_cons.mp hnd
    have hx : x ∉ l₁ := fun hx => hnd'.1 (hs.subset hx)
    rw [List.filter_cons]
    simp only [hx, decide_false, Bool.false_eq_true, if_false]
    exact ih hnd'.2
  | @cons_cons l₁ l₂ x hs ih =>
    have hnd' := List.nodup_cons.mp hnd
    rw [List.filter_cons]
    simp only [List.mem_cons, true_or, decide_true, if_true]
    congr 1
    have := ih hnd'.2
    rw [this]
    apply List.filter_congr
    intro y hy
    have hyx : y ≠ x := fun h => hnd'.1 (h ▸ hy)
    rw [← this]
    simp [hyx]

/-- In a sublist of a duplicate-free list, two members come in the order they have in the list. -/
theorem sublist_pair_iff {α : Type} [DecidableEq α] {a b : List α} (h : a.Sublist b)
    (hnd : b.Nodup) (p q : α) (hp : p ∈ a) (hq : q ∈ a) :
    [p, q].Sublist b ↔ [p, q].Sublist a := by
  constructor
  · intro hpq
    have := List.Sublist.filter (fun x => decide (x ∈ a)) hpq
    rw [← sublist_eq_filter h hnd] at this
    simpa [List.filter_cons, hp, hq] using this
  · intro hpq
    exact hpq.trans h

theorem knstep_pair_iff {old new : List (Nat × Nat)} (h : KNStep old new) (ho : old.Nodup)
    (hn : new.Nodup) (p q : Nat × Nat) (hpo : p ∈ old) (hqo : q ∈ old) (hpn : p ∈ new)
    (hqn : q ∈ new) : [p, q].Sublist old ↔ [p, q].Sublist new := by
  rcases h with h | ⟨r, h⟩
  · exact sublist_pair_iff h ho p q hpn hqn
  · have hs : old.Sublist new := by rw [h]; exact List.sublist_append_left _ _
    exact (sublist_pair_iff hs hn p q hpo hqo).symm

theorem absKN_nodup {f : Forest} (hi : f.Inv) (k : MapKind) (x : Nat) : (absKN k f x).Nodup := by
  have := unique_keys_of_inv f hi k x
  unfold omWf omKeys at this
  rw [abs_of_absHV, List.map_map] at this
  rw [absKN_of_absHV]
  have h2 : ((absHV k f x).map (fun p => (entryKey p.2, p.1))).map (·.1) =
      (absHV k f x).map ((·.1) ∘ fun p => (entryKey p.2, payloadOf p.2)) := by
    rw [List.map_map]; rfl
  rw [← h2] at this
  exact List.Pairwise.of_map (·.1) (fun a b hab heq => hab (by rw [heq])) this

/-- Along a trace of `Stable` steps between forests satisfying the invariant, two (key, node)
    pairs that are in the view `k` of `x` in every state have the same relative order in every
    state as in the first. -/
theorem kept_order : ∀ (tr : List Forest) (f : Forest), StableTrace (f :: tr) →
    (∀ g ∈ f :: tr, g.Inv) → ∀ (x : Nat) (k : MapKind) (p q : Nat × Nat),
    (∀ g ∈ f :: tr, p ∈ absKN k g x ∧ q ∈ absKN k g x) →
    ∀ g ∈ f :: tr, ([p, q].Sublist (absKN k f x) ↔ [p, q].Sublist (absKN k g x))
  | [], f => by
    intro _ _ x k p q _ g hg
    simp only [List.mem_singleton] at hg
    rw [hg]
  | b :: tr, f => by
    intro hst hinv x k p q hall g hg
    rcases List.mem_cons.mp hg with hg | hg
    · rw [hg]
    · have hfb : [p, q].Sublist (absKN k f x) ↔ [p, q].Sublist (absKN k b x) :=
        knstep_pair_iff (hst.1 x k) (absKN_nodup (hinv f List.mem_cons_self) k x)
          (absKN_nodup (hinv b (List.mem_cons_of_mem _ List.mem_cons_self)) k x) p q
          (hall f List.mem_cons_self).1 (hall f List.mem_cons_self).2
          (hall b (List.mem_cons_of_mem _ List.mem_cons_self)).1
          (hall b (List.mem_cons_of_mem _ List.mem_cons_self)).2
      have ih := kept_order tr b hst.2 (fun g hg => hinv g (List.mem_cons_of_mem _ hg)) x k p q
        (fun g hg => hall g (List.mem_cons_of_mem _ hg)) g hg
      exact hfb.trans ih

end Fmap
end XotModel
