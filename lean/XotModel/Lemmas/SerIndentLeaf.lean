/-
  XotModel.Lemmas.SerIndentLeaf — C14_indent_leaf_start: `serialize_xml_string(node, indentation)` for a start
  node that is a comment, a processing instruction or a text node, anywhere in any tree.

  `gen_outputs(node)` is the single event of the node; `Pretty::new` starts with the empty stack, so
  `prettify` answers `(get_indentation(), get_newline()) = (0, true)` for `Comment` / `ProcessingInstruction`
  and `(0, false)` for `Text`: the comment and the PI get one line feed behind, the text node nothing.
  (`leafText` is specification vocabulary, not a model of Rust code.)
-/
import XotModel.Model.XmlDecl
import XotModel.Lemmas.Doctype
import XotModel.Lemmas.XmlDeclRest

namespace XotModel
open Gen

/-- Comment, processing instruction or text. -/
def Value.isLeafStart : Value → Bool
  | .comment _ => true
  | .pi _ _ => true
  | .text _ => true
  | _ => false

/-- What `render_output` answers for the single event of a comment / PI / text node whose parent is
    `parent`: the token text, or the error. -/
def leafText (esc : Escapers) (env : Env) (pr : TokenParams) (parent : Option Tree) : Value → Outcome XotError Str
  | .comment c => .ok (fmt fmtComment [c])
  | .pi target data =>
    if !(env.namespaceStr (env.nsOfName target)).isEmpty then .err .namespaceInProcessingInstruction
    else match data with
      | some d => .ok (fmt fmtPiData [env.localName target, d])
      | none => .ok (fmt fmtPi [env.localName target])
  | .text s => if isCdataElement pr parent then .ok (esc.cdata s) else .ok (esc.txt pr.unescapedGt s)
  | _ => .ok []

/-- The line feed `serialize_pretty` writes behind a comment / PI start node; nothing behind a text node. -/
def leafNewline : Value → Str
  | .comment _ => prettyNewline
  | .pi _ _ => prettyNewline
  | _ => []

/-- Append to a successful outcome. -/
def Outcome.appendOk {ε : Type} (r : Outcome ε Str) (x : Str) : Outcome ε Str :=
  match r with
  | .ok s => .ok (s ++ x)
  | .err e => .err e
  | .panic => .panic

/-- Prepend to a successful outcome. -/
def Outcome.prependOk {ε : Type} (x : Str) (r : Outcome ε Str) : Outcome ε Str :=
  match r with
  | .ok s => .ok (x ++ s)
  | .err e => .err e
  | .panic => .panic

theorem genOutputs_leaf (t : Tree) (start : Path) (v : Value) (hat : t.at? start = some (.node v []))
    (hv : v.isLeafStart = true) :
    ∃ o, genOutputs t start = [(start, o)] ∧
      ((∃ c, v = .comment c ∧ o = .comment c) ∨ (∃ tg d, v = .pi tg d ∧ o = .pi tg d) ∨
        (∃ s, v = .text s ∧ o = .text s)) := by
  obtain ⟨rest, hr⟩ := ancestorsOrSelf_of_at? t start _ hat
  cases v <;> simp [Value.isLeafStart] at hv
  · exact ⟨_, by simp [genOutputs, hat, namespacesInScope, hr, genNode, genNode.genKids, edgeStart, edgeEnd,
      Tree.value, Value.isNormal, Value.category], Or.inr (Or.inr ⟨_, rfl, rfl⟩)⟩
  · exact ⟨_, by simp [genOutputs, hat, namespacesInScope, hr, genNode, genNode.genKids, edgeStart, edgeEnd,
      Tree.value, Value.isNormal, Value.category], Or.inr (Or.inl ⟨_, _, rfl, rfl⟩)⟩
  · exact ⟨_, by simp [genOutputs, hat, namespacesInScope, hr, genNode, genNode.genKids, edgeStart, edgeEnd,
      Tree.value, Value.isNormal, Value.category], Or.inl ⟨_, rfl, rfl⟩⟩

/-- **Plain output** of a comment / PI / text start node: the one token. -/
theorem serializeString_leaf (esc : Escapers) (env : Env) (pr : TokenParams) (t : Tree) (start : Path) (v : Value)
    (hat : t.at? start = some (.node v [])) (hv : v.isLeafStart = true) :
    serializeStringWith esc env pr t start = leafText esc env pr (t.parentAt? start) v := by
  obtain ⟨o, hg, ho⟩ := genOutputs_leaf t start v hat hv
  simp only [serializeStringWith, serializeWriteWith, hg, writeGoWith, renderAtWith, hat]
  rcases ho with ⟨c, rfl, rfl⟩ | ⟨tg, d, rfl, rfl⟩ | ⟨s, rfl, rfl⟩
  · simp [renderXmlWith, leafText, bufferToString, tokenBytes]
  · by_cases hn : (env.namespaceStr (env.nsOfName tg)).isEmpty = true
    · cases d <;> simp [renderXmlWith, leafText, hn, bufferToString, tokenBytes]
    · simp [renderXmlWith, leafText, hn, bufferToString]
  · by_cases hc : isCdataElement pr (t.parentAt? start) = true <;>
      simp [renderXmlWith, leafText, hc, bufferToString, tokenBytes]

/-- **Indented output** of a comment / PI / text start node: the same token, plus one line feed behind a
    comment or a PI (the `Pretty` stack is empty: `get_newline() = true`, `get_indentation() = 0`). -/
theorem serializePretty_leaf (esc : Escapers) (env : Env) (pr : TokenParams) (sup : List Nat) (t : Tree)
    (start : Path) (v : Value) (hat : t.at? start = some (.node v [])) (hv : v.isLeafStart = true) :
    serializePrettyWith esc env pr sup t start =
      (leafText esc env pr (t.parentAt? start) v).appendOk (leafNewline v) := by
  obtain ⟨o, hg, ho⟩ := genOutputs_leaf t start v hat hv
  simp only [serializePrettyWith, serializePrettyWriteWith, hg, writePrettyGoWith, renderAtWith, hat, prettifyAt]
  rcases ho with ⟨c, rfl, rfl⟩ | ⟨tg, d, rfl, rfl⟩ | ⟨s, rfl, rfl⟩
  · simp [renderXmlWith, leafText, bufferToString, tokenBytes, prettify, PStack.getIndentation, PStack.getNewline,
      PStack.inMixed, PStack.inSpacePreserve, Outcome.appendOk, leafNewline]
  · by_cases hn : (env.namespaceStr (env.nsOfName tg)).isEmpty = true
    · cases d <;> simp [renderXmlWith, leafText, hn, bufferToString, tokenBytes, prettify, PStack.getIndentation,
        PStack.getNewline, PStack.inMixed, PStack.inSpacePreserve, Outcome.appendOk, leafNewline]
    · simp [renderXmlWith, leafText, hn, bufferToString, prettify, Outcome.appendOk]
  · by_cases hc : isCdataElement pr (t.parentAt? start) = true <;>
      simp [renderXmlWith, leafText, hc, bufferToString, tokenBytes, prettify, Outcome.appendOk, leafNewline]

/-- **`serialize_xml_string` on a comment / PI / text start node**, every parameter set:
    with a doctype the call answers `NotElement`; otherwise declaration ++ token (++ line feed when indenting
    and the node is a comment or PI). -/
theorem serializeXmlString_leaf (esc : Escapers) (env : Env) (p : XmlParams) (t : Tree) (start : Path) (v : Value)
    (hat : t.at? start = some (.node v [])) (hv : v.isLeafStart = true) :
    serializeXmlStringWith esc env p t start =
      (match p.doctype with
       | some _ => .err .notElement
       | none =>
         Outcome.prependOk p.declBytes
           ((leafText esc env p.tokenParams (t.parentAt? start) v).appendOk
             (match p.indentation with
              | some _ => leafNewline v
              | none => []))) := by
  have hS := serializeString_leaf esc env p.tokenParams t start v hat hv
  simp only [serializeStringWith, bufferToString] at hS
  cases hdt : p.doctype with
  | some d =>
    have hname : doctypeName env t start = .err .notElement := by
      cases v <;> simp [Value.isLeafStart] at hv <;> simp [doctypeName, hat, Tree.value]
    simp [serializeXmlStringWith, serializeXmlWriteWith, hdt, hname, bufferToString]
  | none =>
    cases hind : p.indentation with
    | none =>
      simp only [serializeXmlStringWith, serializeXmlWriteWith, hdt, hind, bufferToString, XmlParams.declBytes]
      cases hb : (serializeWriteWith esc env p.tokenParams t start).2 with
      | ok u => rw [hb] at hS; simp [← hS, Outcome.appendOk, Outcome.prependOk]; cases p.declaration <;> rfl
      | err e => rw [hb] at hS; simp [← hS, Outcome.appendOk, Outcome.prependOk]
      | panic => rw [hb] at hS; simp [← hS, Outcome.appendOk, Outcome.prependOk]
    | some sup =>
      have hP := serializePretty_leaf esc env p.tokenParams sup t start v hat hv
      simp only [serializePrettyWith, bufferToString] at hP
      simp only [serializeXmlStringWith, serializeXmlWriteWith, hdt, hind, bufferToString, XmlParams.declBytes]
      cases hb : (serializePrettyWriteWith esc env p.tokenParams sup t start).2 with
      | ok u => rw [hb] at hP; simp [← hP, Outcome.prependOk]; cases p.declaration <;> rfl
      | err e => rw [hb] at hP; simp [← hP, Outcome.prependOk]
      | panic => rw [hb] at hP; simp [← hP, Outcome.prependOk]

end XotModel
