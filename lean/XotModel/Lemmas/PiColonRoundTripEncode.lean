/-
  GENERATED COPY (wt-c17str) of the declarations of XotModel.Lemmas.RoundTripEncode that depend on `valueOK`, restated in the
  namespace `XotModel.PiColon`, where `valueOK` asks of a PI target what the tokenizer's `consume_name` accepts
  (`nameOK`: colons allowed) instead of an NCName (Lemmas/PiColonDefs.lean).  Proof texts unchanged except where noted.
-/
import XotModel.Lemmas.RoundTripEncode
import XotModel.Lemmas.PiColonRoundTripTop

namespace XotModel.PiColon

variable {env : Env}

/-! ### Interning what is there -/

/-! ### Sorted child lists -/

/-! ### The tree induction -/

/-- The hypotheses on a node: `nodeOK` and `nsInterned` everywhere below. -/
def Interned (env : Env) (n : Tree) : Prop :=
  n.allNodes (nodeOK env) = true ∧ n.allNodes (nsInterned env) = true

theorem Interned.kid {v : Value} {ks : List Tree} (h : Interned env (.node v ks)) {k : Tree} (hk : k ∈ ks) :
    Interned env k :=
  ⟨allNodes_kid h.1 hk, allNodes_kid h.2 hk⟩

theorem valueOK_element_lt {name : Nat} (h : valueOK env (.element name) = true) : name < env.names.length := by
  simp only [valueOK, ncNameNE, Bool.and_eq_true, Bool.not_eq_true', List.isEmpty_eq_false_iff] at h
  exact EnvFacts.name_lt_of_ne h.2

theorem valueOK_pi_facts {target : Nat} {data : Option Str} (h : valueOK env (.pi target data) = true) :
    target < env.names.length ∧ env.nsOfName target = Env.noNamespace := by
  simp only [valueOK, Bool.and_eq_true, beq_iff_eq] at h
  -- ORIGINAL: the NCName clause gave "not empty"; so does `nameOK`
  have hne : env.localName target ≠ [] := fun he => by
    have hn := h.1.1.2
    rw [he] at hn
    simp [nameOK] at hn
  exact ⟨EnvFacts.name_lt_of_ne hne, h.1.1.1⟩

theorem valueOK_namespace_lt (he : EnvFacts env) {p ns : Nat} (h : valueOK env (.namespace p ns) = true) :
    p < env.prefixes.length ∧ ns < env.namespaces.length := by
  obtain ⟨_, _, h3, h4⟩ := valueOK_namespace_facts h
  constructor
  · by_cases hp : p = Env.emptyPrefix
    · rw [hp]; exact he.emptyPrefix_lt
    · exact EnvFacts.prefix_lt_of_ne (h3 hp).1
  · by_cases hn : ns = Env.noNamespace
    · rw [hn]; exact he.noNamespace_lt
    · exact EnvFacts.namespace_lt_of_ne (h4 hn)

section Steps

variable {ks : List Tree} {as : List NItem}
  (i1 : encodeDecls env (as.filterMap NItem.decl?) = (env, ks.filter (isPhase 0)))
  (i2 : encodeNsAttrs env (as.filterMap NItem.attr?) = (env, ks.filter (isPhase 1)))
  (i3 : NPNode.encode.encodeList env (as.filterMap NItem.node?) = (env, ks.filter (isPhase 2)))
include i1 i2 i3

end Steps

mutual
/-- A content node (element, text, comment, PI). -/
theorem encode_decode_node (he : EnvFacts env) (n : Tree) (hi : Interned env n) (d : NPNode)
    (hd : decodeNsTree env n = some (.node d)) : d.encode env = (env, n) := by
  cases n with
  | node v ks =>
    have hval := allNodes_value env hi.1
    cases v with
    | document => simp [decodeNsTree] at hd
    | «attribute» a b => cases ks <;> simp [decodeNsTree] at hd
    | «namespace» a b => cases ks <;> simp [decodeNsTree] at hd
    | text str =>
      cases ks <;> simp [decodeNsTree] at hd
      subst hd; rfl
    | comment str =>
      cases ks <;> simp [decodeNsTree] at hd
      subst hd; rfl
    | pi target data =>
      cases ks <;> simp [decodeNsTree] at hd
      subst hd
      obtain ⟨h1, h2⟩ := valueOK_pi_facts hval
      have := he.internName_id h1
      rw [h2] at this
      simp only [NPNode.encode, this]
    | element name =>
      simp only [decodeNsTree] at hd
      cases hitems : decodeNsTree.decodeItems env ks with
      | none => simp [hitems] at hd
      | some items =>
        simp only [hitems, Option.some.injEq, NItem.node.injEq] at hd
        subst hd
        have hnode : nodeOK env (.element name) ks = true := by
          have := hi.1; rw [allNodes_node, Bool.and_eq_true] at this; exact this.1
        obtain ⟨hord, hkinds, _, _, _⟩ := (nodeOK_iff env _ ks).mp hnode
        have hself : nsInterned env (.element name) ks = true := by
          have := hi.2; rw [allNodes_node, Bool.and_eq_true] at this; exact this.1
        simp only [nsInterned, Bool.and_eq_true, decide_eq_true_eq, List.all_eq_true] at hself
        obtain ⟨k1, k2, k3⟩ := encode_decode_kids he ks (fun k hk => hi.kid hk) hkinds.2.2 hself.2 items hitems
        have hn := he.internNamespace_id hself.1
        have hm := he.internName_id (valueOK_element_lt hval)
        simp only [Env.expanded, NPNode.encode, k1, hn, hm, k2, k3]
        rw [← sorted_split ks hord]

/-- A child list: declarations, attributes and content nodes, each kind in order. -/
theorem encode_decode_kids (he : EnvFacts env) (ks : List Tree) (hi : ∀ k ∈ ks, Interned env k)
    (hdoc : ∀ k ∈ ks, k.value.isDocument = false)
    (hattr : ∀ a ∈ kidAttrs ks, env.nsOfName a.1 < env.namespaces.length) (items : List NItem)
    (hd : decodeNsTree.decodeItems env ks = some items) :
    encodeDecls env (items.filterMap NItem.decl?) = (env, ks.filter (isPhase 0)) ∧
      encodeNsAttrs env (items.filterMap NItem.attr?) = (env, ks.filter (isPhase 1)) ∧
      NPNode.encode.encodeList env (items.filterMap NItem.node?) = (env, ks.filter (isPhase 2)) := by
  cases ks with
  | nil =>
    simp only [decodeNsTree.decodeItems, Option.some.injEq] at hd
    subst hd
    exact ⟨rfl, rfl, rfl⟩
  | cons k ks =>
    obtain ⟨a, as, hk, hks, rfl⟩ := decodeItems_cons_some hd
    have hattr' : ∀ a ∈ kidAttrs ks, env.nsOfName a.1 < env.namespaces.length := fun a' ha' =>
      hattr a' (by simp only [kidAttrs, List.filterMap_cons] at ha' ⊢; split <;> simp [ha'])
    obtain ⟨i1, i2, i3⟩ := encode_decode_kids he ks (fun k' hk' => hi k' (by simp [hk']))
      (fun k' hk' => hdoc k' (by simp [hk'])) hattr' as hks
    have hik := hi k (by simp)
    have hval := allNodes_value env hik.1
    cases k with
    | node v kk =>
      cases v with
      | document => simp [decodeNsTree] at hk
      | «namespace» p ns =>
        cases kk <;> simp [decodeNsTree] at hk
        subst hk
        obtain ⟨hp, hns⟩ := valueOK_namespace_lt he hval
        exact kids_step_decl i1 i2 i3 he hp hns
      | «attribute» name val =>
        cases kk <;> simp [decodeNsTree] at hk
        subst hk
        exact kids_step_attr i1 i2 i3 he (EnvFacts.name_lt_of_ne (valueOK_attribute_facts hval).1)
          (hattr (name, val) (by simp [kidAttrs, attrPair, Tree.value]))
      | text str =>
        obtain ⟨d, rfl⟩ := decode_normal hk rfl
        exact kids_step_node i1 i2 i3 (encode_decode_node he _ hik d hk) rfl
      | comment str =>
        obtain ⟨d, rfl⟩ := decode_normal hk rfl
        exact kids_step_node i1 i2 i3 (encode_decode_node he _ hik d hk) rfl
      | pi target data =>
        obtain ⟨d, rfl⟩ := decode_normal hk rfl
        exact kids_step_node i1 i2 i3 (encode_decode_node he _ hik d hk) rfl
      | element name =>
        obtain ⟨d, rfl⟩ := decode_normal hk rfl
        exact kids_step_node i1 i2 i3 (encode_decode_node he _ hik d hk) rfl
end

/-- Encoding the abstract document a whole tree reads back as gives the tree back and interns
    nothing. -/
theorem spellTop_encode {ks : List Tree} {ts : List Token} (hf : TopFacts env ks ts) :
    NPNode.encode.encodeList env (NSNode.denote.denoteList baseScope (spellTop env (.node .document ks))) =
      (env, ks) := by
  obtain ⟨_, items, h1, h2, _⟩ := spellTop_denote hf
  have hv := serKids_nsInterned hf.he basePrefixes ks _ _ _ (ScopeRel.base hf.he) hf.hkids ts hf.hser
  obtain ⟨_, _, k3⟩ := encode_decode_kids hf.he ks (fun k hk => ⟨hf.hkids k hk, hv k hk⟩) hf.hdocs
    (by rw [(kids_normal_none ks hf.hnormal).2]; intro a ha; cases ha) items h1
  rw [h2, k3]
  congr 1
  apply List.filter_eq_self.mpr
  intro k hk
  have := (phase_normal k.value).mp (hf.hnormal k hk)
  simp [isPhase, this]

end XotModel.PiColon
