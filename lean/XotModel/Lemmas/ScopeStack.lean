/-
  XotModel.Lemmas.ScopeStack — the `FullnameSerializer` stack (output/fullname.rs) keeps, in its top
  frame, exactly the nearest-declaration-wins bindings of the frames pushed so far
  (DESIGN.md section 10a, "one scope function behind three implementations", item ii).
-/
import XotModel.Model.Scope

namespace XotModel

/-- Nearest declaration wins over a list of frames (innermost first); raw bindings, the
    `xmlns=""` convention is applied by the readers. -/
def scopeOf : List (List (Nat × Nat)) → Nat → Option Nat
  | [], _ => none
  | f :: fs, p =>
    match f.lookup p with
    | some ns => some ns
    | none => scopeOf fs p

theorem mem_iff_lookup_of_nodup (l : List (Nat × Nat)) (h : (l.map Prod.fst).Nodup) (p ns : Nat) :
    (p, ns) ∈ l ↔ l.lookup p = some ns := by
  induction l with
  | nil => simp
  | cons d rest ih =>
    obtain ⟨k, v⟩ := d
    simp only [List.map_cons, List.nodup_cons] at h
    by_cases hpk : p = k
    · subst hpk
      simp only [List.mem_cons, Prod.mk.injEq, true_and, List.lookup_cons_self, Option.some.injEq]
      constructor
      · rintro (h1 | h1)
        · exact h1.symm
        · exact absurd (List.mem_map.2 ⟨(p, ns), h1, rfl⟩) h.1
      · intro h1; exact .inl h1.symm
    · have hb : (p == k) = false := by simpa using hpk
      simp [List.lookup_cons, hb, hpk, ih h.2]

theorem any_key_eq (l : List (Nat × Nat)) (p : Nat) :
    (l.any fun (p2, _) => p2 == p) = (l.lookup p).isSome := by
  induction l with
  | nil => simp
  | cons d rest ih =>
    obtain ⟨k, v⟩ := d
    simp only [List.any_cons, List.lookup_cons, ih]
    by_cases h : p = k
    · subst h; simp
    · have h1 : (p == k) = false := by simpa using h
      have h2 : (k == p) = false := by simpa using (Ne.symm h)
      simp [h1, h2]

/-- `FullnameInfo::new`: the node's declarations, plus the inherited ones it does not override. -/
theorem mem_fullnameInfoNew_sc (decls cur : List (Nat × Nat)) (hd : (decls.map Prod.fst).Nodup)
    (p ns : Nat) :
    (p, ns) ∈ fullnameInfoNew decls cur ↔
      decls.lookup p = some ns ∨ (decls.lookup p = none ∧ (p, ns) ∈ cur) := by
  have hf : ∀ x : Nat × Nat, (match x with | (p, _) => !decls.any fun (p2, _) => p2 == p) =
      !(decls.lookup x.1).isSome := by
    intro ⟨a, b⟩; simp only [any_key_eq]
  simp only [fullnameInfoNew, List.mem_append, List.mem_filter, hf, mem_iff_lookup_of_nodup decls hd]
  cases h : decls.lookup p with
  | none => simp
  | some n => simp

theorem fullnameInfoNew_nodup (decls cur : List (Nat × Nat)) (hd : (decls.map Prod.fst).Nodup)
    (hc : (cur.map Prod.fst).Nodup) : ((fullnameInfoNew decls cur).map Prod.fst).Nodup := by
  have hf : ∀ x : Nat × Nat, (match x with | (p, _) => !decls.any fun (p2, _) => p2 == p) =
      !(decls.lookup x.1).isSome := by
    intro ⟨a, b⟩; simp only [any_key_eq]
  simp only [fullnameInfoNew, List.map_append, hf]
  rw [List.nodup_append]
  refine ⟨?_, hd, ?_⟩
  · exact (List.filter_sublist.map Prod.fst).nodup hc
  · intro a ha b hb hab
    subst hab
    obtain ⟨⟨a1, x⟩, hx, rfl⟩ := List.mem_map.1 ha
    obtain ⟨⟨b1, y⟩, hy, hb1⟩ := List.mem_map.1 hb
    simp only at hb1
    subst hb1
    simp only [List.mem_filter, Bool.not_eq_eq_eq_not, Bool.not_true, Option.isSome_eq_false_iff,
      Option.isNone_iff_eq_none] at hx
    have := (mem_iff_lookup_of_nodup decls hd b1 y).1 hy
    rw [hx.2] at this
    cases this

/-- The invariant of the top frame with respect to the frames pushed so far. -/
structure FrameInv (top : List (Nat × Nat)) (frames : List (List (Nat × Nat))) : Prop where
  nodup : (top.map Prod.fst).Nodup
  mem : ∀ p ns, (p, ns) ∈ top ↔ scopeOf frames p = some ns

theorem FrameInv.new (defined : List (Nat × Nat)) (h : (defined.map Prod.fst).Nodup) :
    FrameInv (FStack.new defined).top [defined] := by
  refine ⟨h, fun p ns => ?_⟩
  simp only [FStack.new, FStack.top, List.headD_cons, scopeOf, mem_iff_lookup_of_nodup defined h]
  cases defined.lookup p <;> simp

/-- `push` (which does nothing for an element without declarations) keeps the invariant, given
    unique prefixes per element. -/
theorem FrameInv.push {s : FStack} {frames : List (List (Nat × Nat))} (h : FrameInv s.top frames)
    (decls : List (Nat × Nat)) (hd : (decls.map Prod.fst).Nodup) :
    FrameInv (s.push decls).top (decls :: frames) := by
  unfold FStack.push
  cases decls with
  | nil =>
    refine ⟨h.nodup, fun p ns => ?_⟩
    simp [scopeOf, h.mem]
  | cons d rest =>
    simp only [List.isEmpty_cons, Bool.false_eq_true, ↓reduceIte, FStack.top, List.headD_cons]
    refine ⟨fullnameInfoNew_nodup _ _ hd h.nodup, fun p ns => ?_⟩
    rw [mem_fullnameInfoNew_sc _ _ hd, scopeOf]
    cases hl : (d :: rest).lookup p with
    | none => simp [← h.mem, FStack.top]
    | some n => simp

/-- `pop(has_namespace_declarations)` undoes `push(namespace_declarations)`. -/
theorem FStack.pop_push_sc (s : FStack) (decls : List (Nat × Nat)) :
    (s.push decls).pop (!decls.isEmpty) = s := by
  unfold FStack.push FStack.pop
  cases decls <;> simp

end XotModel
