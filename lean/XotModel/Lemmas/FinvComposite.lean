/-
  Finv (C04), part 40: exactly which values the COMPOSITE calls can change.  `Forest.VStep S T`
  (Lemmas/FinvValue1.lean) with `T` = membership in an explicit list of sites, threaded through
  the steps `replace` / `element_unwrap` consist of (as `FinvValue6.lean` does for the moves);
  `remove_insignificant_whitespace` and the map insertion extend no text node at all.
-/
import XotModel.Lemmas.FinvValue7
import XotModel.Lemmas.FinvWs

namespace XotModel
open HTree

namespace Forest

variable {S T : Nat → Prop}

/-- `x` is not a target and not a site: its value is exactly the old one. -/
theorem VStep.exactS {f f' : Forest} {sites : List Nat}
    (h : VStep S (fun q => q ∈ sites) f f') (hi : f.Inv) {x : Nat} {v v' : Value}
    (hv : f.value? x = some v) (hv' : f'.value? x = some v') (hS : ¬ S x) (hx : x ∉ sites) : v' = v := by
  rcases h.value hi hv hv' with h1 | h1 | h1
  · exact h1
  · exact absurd h1.1 hx
  · exact absurd h1.1 hS

/-- A site is extended, never overwritten: old content is a contiguous part of the new one. -/
theorem VStep.site {f f' : Forest} {sites : List Nat}
    (h : VStep (fun _ => False) (fun q => q ∈ sites) f f') (hi : f.Inv) {x : Nat} {v v' : Value}
    (hv : f.value? x = some v) (hv' : f'.value? x = some v') : v' = v ∨ (x ∈ sites ∧ TextExt v v') := by
  rcases h.value hi hv hv' with h1 | h1 | h1
  · exact Or.inl h1
  · exact Or.inr h1
  · exact h1.1.elim

/-! ### remove_insignificant_whitespace: it only removes -/

theorem vstep_remove_off (f : Forest) (n : Nat) (hc : f.consolidation = false) :
    VStep S T f (f.remove n).1 ∧ (f.remove n).1.consolidation = false := by
  have hd : (f.dropSubtree n).consolidation = false := by rw [consolidation_dropSubtree]; exact hc
  have e : (f.remove n).1 = f.dropSubtree n := by
    unfold remove removeConsolidate
    simp [hd]
  rw [e]
  exact ⟨vstep_dropSubtree f n, hd⟩

theorem vstep_foldl_remove_off (xs : List Nat) (f : Forest) (hc : f.consolidation = false) :
    VStep S T f (xs.foldl (fun acc n => (acc.remove n).1) f) := by
  induction xs generalizing f with
  | nil => exact VStep.refl f
  | cons x xs ih => exact (vstep_remove_off f x hc).1.trans (ih _ (vstep_remove_off (S := S) (T := T) f x hc).2)

/-- `remove_insignificant_whitespace` for ANY `T`: no text node is extended (consolidation is off
    around the loop). -/
theorem vstep_strip (f : Forest) (node : Nat) : VStep S T f (f.removeInsignificantWhitespace node) := by
  unfold removeInsignificantWhitespace
  cases f.get? node with
  | none => exact VStep.refl f
  | some t =>
    simp only
    have h0 : VStep S T f ({ f with consolidation := false } : Forest) := VStep.of_sub rfl (fun _ h => h)
    have h1 := vstep_foldl_remove_off (S := S) (T := T)
      ((descendantsNormal t).filter f.isInsignificantWhitespace) ({ f with consolidation := false } : Forest) rfl
    exact ⟨(h0.trans h1).next, (h0.trans h1).old⟩

theorem strip_value_exact {f : Forest} (hi : f.Inv) (node : Nat) {x : Nat} {v v' : Value}
    (hv : f.value? x = some v) (hv' : (f.removeInsignificantWhitespace node).value? x = some v') : v' = v :=
  (vstep_strip (S := fun _ => False) (T := fun q => q ∈ ([] : List Nat)) f node).exact hi hv hv' (by simp)

/-! ### map insertion: only the existing entry of the key is rewritten -/

theorem mapInsert_value_exact {f : Forest} (hi : f.Inv) (k : MapKind) (e : Nat) (entry : Value) {x : Nat}
    {v v' : Value} (hv : f.value? x = some v) (hv' : (f.mapInsert k e entry).1.value? x = some v')
    (hx : ∀ n, f.mapGetNode k e (entryKey entry) = some n → n.handle ≠ x) : v' = v :=
  (vstep_mapInsert (S := fun y => ∃ n, f.mapGetNode k e (entryKey entry) = some n ∧ n.handle = y)
    (T := fun q => q ∈ ([] : List Nat)) f k e entry (fun n hn => ⟨n, hn, rfl⟩)).exactS hi hv hv'
    (fun ⟨n, hn, e1⟩ => hx n hn e1) (by simp)

/-! ### element_unwrap -/

theorem vstep_foldl_spliceOut' (xs : List HTree) (f : Forest) :
    VStep S T f (xs.foldl (fun acc k => acc.spliceOut k.handle) f) := by
  induction xs generalizing f with
  | nil => exact VStep.refl f
  | cons x xs ih => exact (vstep_spliceOut f x.handle).trans (ih _)

theorem vstep_removeElement' (f : Forest) (node : Nat) : VStep S T f (f.removeElement node) := by
  unfold removeElement
  cases f.get? node with
  | none => exact VStep.refl f
  | some t => exact (vstep_foldl_spliceOut' _ f).trans (vstep_spliceOut _ node)

/-- The handles whose value `element_unwrap(n)` may change: the node that stands before the
    wrapper (read once the wrapper and its attribute / namespace nodes are taken out: it is then
    the previous sibling of the wrapper's first child) and the wrapper's last child; for a wrapper
    without children (the call is `remove`) the previous sibling. -/
def unwrapSites (f : Forest) (n : Nat) : List Nat :=
  match f.firstChild n with
  | none => (f.prevSibling n).toList
  | some first => ((f.removeElement n).prevSibling first).toList ++ (f.lastChild n).toList

theorem vstep_elementUnwrap_sites (f : Forest) (node : Nat) :
    VStep S (fun q => q ∈ f.unwrapSites node) f (f.elementUnwrap node).1 := by
  unfold elementUnwrap
  split
  · exact VStep.refl f
  cases hfc : f.firstChild node with
  | none => exact vstep_remove f node (fun q h => by simp [unwrapSites, hfc, h])
  | some first =>
    simp only
    split
    · exact VStep.refl f
    cases hlc : f.lastChild node with
    | none => exact VStep.refl f
    | some last =>
      simp only
      have hTp : ∀ p, (f.removeElement node).prevSibling first = some p → p ∈ f.unwrapSites node :=
        fun p h => by simp [unwrapSites, hfc, h]
      have hTl : ∀ p, some last = some p → p ∈ f.unwrapSites node :=
        fun p h => by cases h; simp [unwrapSites, hfc, hlc]
      have h1 := vstep_removeElement' (S := S) (T := fun q => q ∈ f.unwrapSites node) f node
      have h2 := vstep_removeConsolidate (S := S) (f.removeElement node)
        ((f.removeElement node).prevSibling first) (some first) hTp
      cases hr : (f.removeElement node).removeConsolidate ((f.removeElement node).prevSibling first) (some first) with
      | mk f2 c =>
        rw [hr] at h2
        simp only
        have h12 := h1.trans h2
        split
        · split
          · exact h12.trans (vstep_removeConsolidate _ _ _ hTp)
          · exact h12.trans (vstep_removeConsolidate _ _ _ hTl)
        · exact h12.trans (vstep_removeConsolidate _ _ _ hTl)

theorem elementUnwrap_value_exact {f : Forest} (hi : f.Inv) (n : Nat) {x : Nat} {v v' : Value}
    (hv : f.value? x = some v) (hv' : (f.elementUnwrap n).1.value? x = some v')
    (hx : x ∉ f.unwrapSites n) : v' = v :=
  (vstep_elementUnwrap_sites (S := fun _ => False) f n).exact hi hv hv' hx

/-! ### replace -/

/-- `insertAfterSites` plus the site of the guard `hT4` of `vstep_insertAfter` (empty under the
    invariant when `ref ≠ c`: no node is its own previous sibling). -/
def insertAfterSitesX (f : Forest) (ref c : Nat) : List Nat :=
  f.insertAfterSites ref c ++
    (if f.insertAfterRef ref c = c then ((f.afterOldSite c).prevSibling c).toList else [])

theorem vstep_insertAfter_sitesX (f : Forest) (ref c : Nat) {sites : List Nat}
    (hs : ∀ q ∈ f.insertAfterSitesX ref c, q ∈ sites) :
    VStep S (fun q => q ∈ sites) f (f.insertAfter ref c).1 := by
  apply vstep_insertAfter f ref c
  · intro q h; exact hs q (by simp [insertAfterSitesX, insertAfterSites, h])
  · exact hs _ (by simp [insertAfterSitesX, insertAfterSites])
  · intro q h; exact hs q (by simp [insertAfterSitesX, insertAfterSites, h])
  · intro e q h; exact hs q (by simp [insertAfterSitesX, e, h])

/-- The handles whose value `replace(a, b)` may change.  `b` next to `a`: the call is `remove(a)`,
    the previous sibling of `a`.  Otherwise, with the subtree `a` taken out: the sites of the move
    of `b` to the place of `a` (`insert_after` the previous sibling of `a`, else `prepend`: the
    previous sibling of `b`, the node `b` arrives behind, and the node behind that read after `b`'s
    old-site merge), and the node that stands before `a`'s former next sibling after that move (the
    final `remove_consolidate_text_nodes`). -/
def replaceSites (f : Forest) (a b : Nat) : List Nat :=
  match f.parent? a with
  | none => []
  | some parent =>
    if (f.prevSibling a == some b || f.nextSibling a == some b) = true then (f.prevSibling a).toList else
    match f.prevSibling a with
    | none => (f.dropSubtree a).prependSites parent b
    | some p => (f.dropSubtree a).insertAfterSitesX p b ++
        (match f.nextSibling a with
         | some n => (((f.dropSubtree a).insertAfter p b).1.prevSibling n).toList
         | none => [])

theorem vstep_replace_sites (f : Forest) (a b : Nat) :
    VStep S (fun q => q ∈ f.replaceSites a b) f (f.replace a b).1 := by
  unfold replace
  split
  · exact VStep.refl f
  cases hpa : f.parent? a with
  | none => exact VStep.refl f
  | some parent =>
    simp only
    split
    · exact VStep.refl f
    split
    · exact VStep.refl f
    split
    · exact VStep.refl f
    split
    · rename_i hadj
      exact vstep_remove f a (fun q h => by simp only [replaceSites, hpa]; rw [if_pos hadj]; simp [h])
    · rename_i hadj
      have h1 := vstep_dropSubtree (S := S) (T := fun q => q ∈ f.replaceSites a b) f a
      have hsub : ∀ q, q ∈ (match f.prevSibling a with
          | none => (f.dropSubtree a).prependSites parent b
          | some p => (f.dropSubtree a).insertAfterSitesX p b ++
              (match f.nextSibling a with
               | some n => (((f.dropSubtree a).insertAfter p b).1.prevSibling n).toList
               | none => [])) → q ∈ f.replaceSites a b := by
        intro q hq
        simp only [replaceSites, hpa]
        rw [if_neg hadj]
        exact hq
      cases hps : f.prevSibling a with
      | none =>
        rw [hps] at hsub
        exact h1.trans (vstep_prepend _ parent b (fun q h => hsub q (by simp [prependSites, h]))
          (fun q h => hsub q (by simp [prependSites, h])))
      | some p =>
        rw [hps] at hsub
        simp only
        have h2 := vstep_insertAfter_sitesX (S := S) (f.dropSubtree a) p b
          (sites := f.replaceSites a b) (fun q h => hsub q (by simp [h]))
        cases hi : (f.dropSubtree a).insertAfter p b with
        | mk f2 r =>
          rw [hi] at h2
          simp only
          cases r with
          | ok =>
            cases hns : f.nextSibling a with
            | none => exact h1.trans h2
            | some n =>
              refine (h1.trans h2).trans (vstep_removeConsolidate _ _ _ (fun q h => hsub q ?_))
              simp [hns, hi, h]
          | err e => exact h1.trans h2
          | panic => exact h1.trans h2

theorem replace_value_exact {f : Forest} (hi : f.Inv) (a b : Nat) {x : Nat} {v v' : Value}
    (hv : f.value? x = some v) (hv' : (f.replace a b).1.value? x = some v')
    (hx : x ∉ f.replaceSites a b) : v' = v :=
  (vstep_replace_sites (S := fun _ => False) f a b).exact hi hv hv' hx

end Forest
end XotModel
