/-
  The escaped strings inside the tokens of `serTokens` as spellings-as-data (`Piece`,
  Lemmas/ParseContent.lean): one piece per character of the value — a literal, a predefined
  entity or an upper-case hexadecimal reference, exactly as `serialize_attribute` /
  `serialize_text` write it — well spelled, rendering to the serialised string and denoting the
  value.  (Bridge from `serTokens` to the spelled documents of the builder theorems.)
-/
import XotModel.Model.SerTokens
import XotModel.Lemmas.ParseContent

namespace XotModel
open Gen

/-- The piece `serialize_attribute` writes for one character. -/
def attrPiece (c : Char) : Piece :=
  if c = '&' then .named ['a', 'm', 'p']
  else if c = '<' then .named ['l', 't']
  else if c = '\'' then .named ['a', 'p', 'o', 's']
  else if c = '"' then .named ['q', 'u', 'o', 't']
  else if c = '\t' then .hex [(9, true)]
  else if c = '\n' then .hex [(10, true)]
  else if c = '\r' then .hex [(13, true)]
  else .lit c

/-- The piece `serialize_text` (`unescaped_gt = false`) writes for one character. -/
def textPiece (c : Char) : Piece :=
  if c = '>' then .named ['g', 't']
  else if c = '&' then .named ['a', 'm', 'p']
  else if c = '<' then .named ['l', 't']
  else if c = '\r' then .hex [(13, true)]
  else .lit c

def attrPieces (v : Str) : List Piece := v.map attrPiece
def textPieces (v : Str) : List Piece := v.map textPiece

theorem renderPiece_attrPiece (c : Char) : renderPiece (attrPiece c) = escapeWith attrEscapes c := by
  unfold attrPiece
  by_cases h1 : c = '&'; · subst h1; decide
  by_cases h2 : c = '<'; · subst h2; decide
  by_cases h3 : c = '\''; · subst h3; decide
  by_cases h4 : c = '"'; · subst h4; decide
  by_cases h5 : c = '\t'; · subst h5; decide
  by_cases h6 : c = '\n'; · subst h6; decide
  by_cases h7 : c = '\r'; · subst h7; decide
  have e1 : (c == '&') = false := by simpa using h1
  have e2 : (c == '<') = false := by simpa using h2
  have e3 : (c == '\'') = false := by simpa using h3
  have e4 : (c == '"') = false := by simpa using h4
  have e5 : (c == '\t') = false := by simpa using h5
  have e6 : (c == '\n') = false := by simpa using h6
  have e7 : (c == '\r') = false := by simpa using h7
  simp [h1, h2, h3, h4, h5, h6, h7, e1, e2, e3, e4, e5, e6, e7, renderPiece, escapeWith, attrEscapes,
    List.lookup]

theorem renderPiece_textPiece (c : Char) :
    renderPiece (textPiece c) = (if c = '>' then textGtEscape else escapeWith textEscapes c) := by
  unfold textPiece
  by_cases h1 : c = '>'; · subst h1; decide
  by_cases h2 : c = '&'; · subst h2; decide
  by_cases h3 : c = '<'; · subst h3; decide
  by_cases h4 : c = '\r'; · subst h4; decide
  have e2 : (c == '&') = false := by simpa using h2
  have e3 : (c == '<') = false := by simpa using h3
  have e4 : (c == '\r') = false := by simpa using h4
  simp [h1, h2, h3, h4, e2, e3, e4, renderPiece, escapeWith, textEscapes, List.lookup]

/-- The pieces render to what `serialize_attribute` writes. -/
theorem renderPieces_attrPieces (v : Str) : renderPieces (attrPieces v) = serializeAttribute v := by
  simp only [renderPieces, attrPieces, serializeAttribute, List.flatMap_map]
  congr 1
  funext c
  exact renderPiece_attrPiece c

/-- The pieces render to what `serialize_text` writes. -/
theorem renderPieces_textPieces (v : Str) : renderPieces (textPieces v) = serializeText false v := by
  simp only [renderPieces, textPieces, serializeText, serializeTextEsc, Bool.false_eq_true, if_false,
    List.flatMap_map]
  congr 1
  funext c
  exact renderPiece_textPiece c

theorem pieceValue_attrPiece (c : Char) : pieceValue true (attrPiece c) = some c := by
  unfold attrPiece
  by_cases h1 : c = '&'; · subst h1; decide
  by_cases h2 : c = '<'; · subst h2; decide
  by_cases h3 : c = '\''; · subst h3; decide
  by_cases h4 : c = '"'; · subst h4; decide
  by_cases h5 : c = '\t'; · subst h5; decide
  by_cases h6 : c = '\n'; · subst h6; decide
  by_cases h7 : c = '\r'; · subst h7; decide
  simp [h1, h2, h3, h4, h5, h6, h7, pieceValue]

theorem pieceValue_textPiece (c : Char) : pieceValue false (textPiece c) = some c := by
  unfold textPiece
  by_cases h1 : c = '>'; · subst h1; decide
  by_cases h2 : c = '&'; · subst h2; decide
  by_cases h3 : c = '<'; · subst h3; decide
  by_cases h4 : c = '\r'; · subst h4; decide
  simp [h1, h2, h3, h4, pieceValue]

/-- The pieces denote the value. -/
theorem valueOf_attrPieces (v : Str) : valueOf true (attrPieces v) = v := by
  induction v with
  | nil => rfl
  | cons c cs ih =>
    simp only [valueOf, attrPieces, List.map_cons, List.filterMap_cons, pieceValue_attrPiece] at ih ⊢
    rw [ih]

theorem valueOf_textPieces (v : Str) : valueOf false (textPieces v) = v := by
  induction v with
  | nil => rfl
  | cons c cs ih =>
    simp only [valueOf, textPieces, List.map_cons, List.filterMap_cons, pieceValue_textPiece] at ih ⊢
    rw [ih]

theorem named_ok (n : Str) (h1 : (n.contains ';') = false) (h2 : n.head? ≠ some '#')
    (h3 : (namedEntity n).isSome = true) : (Piece.named n).ok := by
  refine ⟨by simpa using h1, ?_, h3⟩
  rintro r rfl
  exact h2 rfl

theorem hex_ok (d : Nat) (hd : d < 16) (h : (xmlCharOfNat? d).isSome = true) : (Piece.hex [(d, true)]).ok := by
  refine ⟨by simp, by simpa using hd, ?_⟩
  simpa [evalDigits] using h

theorem attrPiece_ok (c : Char) : (attrPiece c).ok ∧ attrPiece c ≠ .cr := by
  unfold attrPiece
  by_cases h1 : c = '&'; · simp only [h1, if_true]; exact ⟨named_ok _ (by decide) (by decide) (by decide), by simp⟩
  by_cases h2 : c = '<'; · simp only [h1, h2, if_true, if_false]; exact ⟨named_ok _ (by decide) (by decide) (by decide), by simp⟩
  by_cases h3 : c = '\''; · simp only [h1, h2, h3, if_true, if_false]; exact ⟨named_ok _ (by decide) (by decide) (by decide), by simp⟩
  by_cases h4 : c = '"'; · simp only [h1, h2, h3, h4, if_true, if_false]; exact ⟨named_ok _ (by decide) (by decide) (by decide), by simp⟩
  by_cases h5 : c = '\t'; · simp only [h1, h2, h3, h4, h5, if_true, if_false]; exact ⟨hex_ok 9 (by decide) (by decide), by simp⟩
  by_cases h6 : c = '\n'; · simp only [h1, h2, h3, h4, h5, h6, if_true, if_false]; exact ⟨hex_ok 10 (by decide) (by decide), by simp⟩
  by_cases h7 : c = '\r'; · simp only [h1, h2, h3, h4, h5, h6, h7, if_true, if_false]; exact ⟨hex_ok 13 (by decide) (by decide), by simp⟩
  simp [h1, h2, h3, h4, h5, h6, h7, Piece.ok]

theorem textPiece_ok (c : Char) : (textPiece c).ok ∧ textPiece c ≠ .cr := by
  unfold textPiece
  by_cases h1 : c = '>'; · simp only [h1, if_true]; exact ⟨named_ok _ (by decide) (by decide) (by decide), by simp⟩
  by_cases h2 : c = '&'; · simp only [h1, h2, if_true, if_false]; exact ⟨named_ok _ (by decide) (by decide) (by decide), by simp⟩
  by_cases h3 : c = '<'; · simp only [h1, h2, h3, if_true, if_false]; exact ⟨named_ok _ (by decide) (by decide) (by decide), by simp⟩
  by_cases h4 : c = '\r'; · simp only [h1, h2, h3, h4, if_true, if_false]; exact ⟨hex_ok 13 (by decide) (by decide), by simp⟩
  simp [h1, h2, h3, h4, Piece.ok]

theorem wellSpelled_cons {p : Piece} {rest : List Piece} (hne : p ≠ .cr) (hp : p.ok)
    (hr : WellSpelled rest) : WellSpelled (p :: rest) := by
  cases p with
  | cr => exact absurd rfl hne
  | lit c => exact ⟨hp, hr⟩
  | named n => exact ⟨hp, hr⟩
  | dec ds => exact ⟨hp, hr⟩
  | hex ds => exact ⟨hp, hr⟩
  | crlf => exact ⟨hp, hr⟩

/-- The pieces are well spelled (no raw `&`, no raw CR, references the decoder accepts). -/
theorem wellSpelled_attrPieces (v : Str) : WellSpelled (attrPieces v) := by
  induction v with
  | nil => trivial
  | cons c cs ih => exact wellSpelled_cons (attrPiece_ok c).2 (attrPiece_ok c).1 ih

theorem wellSpelled_textPieces (v : Str) : WellSpelled (textPieces v) := by
  induction v with
  | nil => trivial
  | cons c cs ih => exact wellSpelled_cons (textPiece_ok c).2 (textPiece_ok c).1 ih

end XotModel
