/-
  Finv (C04), part 34: `clone_node` changes no value of a node that existed before.  The replay
  (`new_node` + `any_append` under the current clone node) only ever updates entry nodes and text
  nodes that are children of a clone node, and those are new: an old node under a new parent would
  have had that parent before (`Grow.par` of the C06 lemmas).
-/
import XotModel.Lemmas.FinvValue3
import XotModel.Lemmas.FatomCloneNode

namespace XotModel
open HTree

namespace Forest

/-- Relative to the forest `f0` before the cloning: every node of `f0` is still there with the
    parent it had. -/
structure Base (f0 g : Forest) : Prop where
  live : ∀ x, f0.isLive x = true → g.isLive x = true
  par : ∀ x, f0.isLive x = true → g.parent? x = f0.parent? x

theorem Base.grow {f0 g g' : Forest} {cur : Nat} (b : Base f0 g) (gr : Grow g g' cur) : Base f0 g' :=
  ⟨fun x hx => gr.live x (b.live x hx), fun x hx => by rw [gr.par x (b.live x hx), b.par x hx]⟩

/-- A child of a node that did not exist in `f0` did not exist in `f0`. -/
theorem Base.fresh_kid {f0 g : Forest} (b : Base f0 g) {cur q : Nat} (hcur : f0.isLive cur = false)
    (hp : g.parent? q = some cur) : f0.isLive q = false := by
  cases hq : f0.isLive q with
  | false => rfl
  | true =>
    rw [b.par q hq] at hp
    rw [(parent?_live hp).2] at hcur
    cases hcur

/-- `x` was not a node of `f0`. -/
def NotIn (f0 : Forest) : Nat → Prop := fun x => f0.isLive x = false

theorem Base.newNode {f0 g : Forest} (b : Base f0 g) (w : g.W) (v : Value) : Base f0 (g.newNode v).1 := by
  refine ⟨fun x hx => ?_, fun x hx => ?_⟩
  · rw [(newNode_kept w v (b.live x hx)).isLive]; exact b.live x hx
  · rw [(newNode_kept w v (b.live x hx)).parent]; exact b.par x hx

/-- One replay step: the fresh leaf `g.next` is added under `cur` with `any_append`. -/
theorem clone_step_vstep {f0 g g2 : Forest} {cur x : Nat} {v : Value} (b : Base f0 g) (w : g.W)
    (hcur : f0.isLive cur = false)
    (hres : (g.newNode v).1.anyAppend cur g.next = (g2, .ok, x)) :
    VStep (NotIn f0) (NotIn f0) g g2 := by
  obtain ⟨_, w1, _, hg1, hr1, hdead⟩ := newNode_spec w v
  have b1 := b.newNode w v
  have h1 : VStep (NotIn f0) (NotIn f0) g (g.newNode v).1 := vstep_newNode g v
  have hroot : (g.newNode v).1.parent? g.next = none := isRoot_noParent w1 hr1
  have h2 := vstep_anyAppend (S := NotIn f0) (T := NotIn f0) (g.newNode v).1 cur g.next ?_ ?_ ?_
  · rw [hres] at h2
    exact h1.trans h2
  · -- entry node with the same key: a child of `cur`
    intro e he
    have key : ∀ k, e ∈ (g.newNode v).1.entryTarget k cur g.next → NotIn f0 e := by
      intro k hk
      unfold entryTarget at hk
      cases hv' : (g.newNode v).1.value? g.next with
      | none => rw [hv'] at hk; cases hk
      | some v1 =>
        rw [hv'] at hk
        simp only at hk
        cases hm : (g.newNode v).1.mapGetNode k cur (entryKey v1) with
        | none => rw [hm] at hk; cases hk
        | some n =>
          rw [hm] at hk
          simp only [Option.map_some, Option.toList_some, List.mem_singleton] at hk
          subst hk
          unfold mapGetNode at hm
          cases hgc : (g.newNode v).1.get? cur with
          | none => rw [hgc] at hm; cases hm
          | some tc =>
            rw [hgc] at hm
            simp only at hm
            have hx : n ∈ tc.kids := fv_mapChildren_sub k tc n (List.mem_of_find?_eq_some hm)
            exact b1.fresh_kid hcur (kid_spec w1 hgc hx).2
    simp only [Call.targets] at he
    split at he
    · exact key _ he
    · exact key _ he
    · cases he
  · intro q hq
    rw [prevSibling_none_of_root hroot] at hq
    cases hq
  · intro q hq
    unfold afterOldSite at hq
    rw [prevSibling_none_of_root hroot, fa_removeConsolidate_none_left] at hq
    unfold selfPrev at hq
    split at hq
    · rw [prevSibling_none_of_root hroot] at hq; cases hq
    · exact b1.fresh_kid hcur (lastChild_parent w1 hq)

mutual
  theorem cloneInto_vstep (f0 : Forest) : ∀ (src : HTree) (g : Forest) (cur : Nat), g.W →
      g.isLive cur = true → (g.isElement cur = true ∨ g.isDocument cur = true) →
      cloneOk (g.isElement cur) src = true → Base f0 g → f0.isLive cur = false →
      ∀ g', cloneInto g cur src = some g' → VStep (NotIn f0) (NotIn f0) g g'
    | .node h v ks, g, cur => by
      intro w hl hc hok b hcur g' hres'
      cases hdoc : v.isDocument with
      | true =>
        have : v = .document := by cases v <;> simp_all [Value.isDocument]
        subst this
        rw [cloneInto_document] at hres'
        simp only [cloneOk] at hok
        exact cloneKids_vstep f0 ks g cur w hl hc hok b hcur g' hres'
      | false =>
        have hok' : (v.category == .normal || g.isElement cur) = true ∧
            cloneOkList (if v.isElement then true else g.isElement cur) ks = true := by
          cases v <;> simp_all [cloneOk, Value.isDocument]
        have hent : v.category ≠ .normal → g.isElement cur = true := by
          intro hn
          have := hok'.1
          simp only [Bool.or_eq_true, beq_iff_eq] at this
          rcases this with h' | h'
          · exact absurd h' hn
          · exact h'
        obtain ⟨g2, x, hres, st, hel, kc⟩ := clone_first_step w v hl hc hdoc hent
        rw [cloneInto_other g cur h v ks hdoc, hres] at hres'
        simp only at hres'
        obtain ⟨_, _, _, _, _, hdead⟩ := newNode_spec w v
        have hne : cur ≠ g.next := fun e => by rw [e, hdead] at hl; cases hl
        have hstep := clone_step_vstep b w hcur hres
        have b1 := b.newNode w v
        have hnew0 : f0.isLive g.next = false := by
          cases hq : f0.isLive g.next with
          | false => rfl
          | true => rw [b.live _ hq] at hdead; cases hdead
        have b2 : Base f0 g2 := by
          refine ⟨fun y hy => ?_, fun y hy => ?_⟩
          · have hyn : y ≠ g.next := fun e => by rw [e, hnew0] at hy; cases hy
            rw [st.live y hyn]; exact b1.live y hy
          · have hyn : y ≠ g.next := fun e => by rw [e, hnew0] at hy; cases hy
            rw [st.par y hyn]; exact b1.par y hy
        cases hve : v.isElement with
        | true =>
          rw [hve] at hres'
          simp only [if_true] at hres'
          obtain ⟨hp, he⟩ := hel hve
          have hlm : g2.isLive g.next = true := (parent?_live hp).1
          rw [hve] at hok'
          simp only [if_true] at hok'
          exact hstep.trans (cloneKids_vstep f0 ks g2 g.next st.w hlm (Or.inl he)
            (by rw [he]; exact hok'.2) b2 hnew0 g' hres')
        | false =>
          rw [hve] at hres'
          simp only [Bool.false_eq_true, if_false] at hres'
          rw [hve] at hok'
          simp only [Bool.false_eq_true, if_false] at hok'
          have k2 := st.kept cur hne (by rw [kc.isLive]; exact hl)
            (by rw [kc.isElement, kc.isDocument]; exact hc)
          have k := kc.trans k2
          exact hstep.trans (cloneKids_vstep f0 ks g2 cur st.w (by rw [k.isLive]; exact hl)
            (by rw [k.isElement, k.isDocument]; exact hc) (by rw [k.isElement]; exact hok'.2)
            b2 hcur g' hres')
  theorem cloneKids_vstep (f0 : Forest) : ∀ (ks : List HTree) (g : Forest) (cur : Nat), g.W →
      g.isLive cur = true → (g.isElement cur = true ∨ g.isDocument cur = true) →
      cloneOkList (g.isElement cur) ks = true → Base f0 g → f0.isLive cur = false →
      ∀ g', cloneKids g cur ks = some g' → VStep (NotIn f0) (NotIn f0) g g'
    | [], g, cur => by
      intro _ _ _ _ _ _ g' hres
      rw [cloneKids] at hres
      cases hres
      exact VStep.refl g
    | k :: ks, g, cur => by
      intro w hl hc hok b hcur g' hres
      simp only [cloneOkList, Bool.and_eq_true] at hok
      obtain ⟨g1, h1, gr1⟩ := cloneInto_grow k g cur w hl hc hok.1
      rw [cloneKids, h1] at hres
      simp only at hres
      have kc := gr1.kept cur hl hc
      have v1 := cloneInto_vstep f0 k g cur w hl hc hok.1 b hcur g1 h1
      exact v1.trans (cloneKids_vstep f0 ks g1 cur gr1.w (gr1.live cur hl)
        (by rw [kc.isElement, kc.isDocument]; exact hc) (by rw [kc.isElement]; exact hok.2)
        (b.grow gr1) hcur g' hres)
end

/-- Pairs of a forest belong to live handles. -/
theorem isLive_of_hv {f : Forest} {x : Nat} {v : Value} (h : (x, v) ∈ hvList f.roots) :
    f.isLive x = true := isLive_of_mem_allHandles (mem_handlesList_of_mem_hvList h)

/-- Nothing that existed is rewritten: restated for arbitrary `S`, `T`. -/
theorem VStep.of_notIn {S T : Nat → Prop} {f f' : Forest} (h : VStep (NotIn f) (NotIn f) f f') :
    VStep S T f f' := by
  refine ⟨h.next, fun x v' hm => ?_⟩
  rcases h.old x v' hm with h1 | ⟨v, h2, h3⟩
  · exact Or.inl h1
  · refine Or.inr ⟨v, h2, Or.inl ?_⟩
    have hl := isLive_of_hv h2
    rcases h3 with h3 | h3 | h3
    · exact h3
    · have := h3.1; unfold NotIn at this; rw [hl] at this; cases this
    · have := h3.1; unfold NotIn at this; rw [hl] at this; cases this

theorem Base.init {f : Forest} (w : f.W) (v : Value) : Base f (f.newNode v).1 :=
  (⟨fun _ h => h, fun _ _ => rfl⟩ : Base f f).newNode w v

/-- `clone_node` on a forest with the invariant. -/
theorem vstep_cloneNode {S T : Nat → Prop} {f : Forest} (hi : f.Inv) (n : Nat) :
    VStep S T f (f.cloneNode n).1 := by
  apply VStep.of_notIn
  have w := hi.toW
  unfold cloneNode
  cases hg : f.get? n with
  | none => exact VStep.refl f
  | some src =>
    have hvalid : validTree (!f.everOff) src = true := findList?_valid _ n f.roots src hi.valid hg
    simp only
    cases hsv : src.value with
    | document =>
      simp only
      obtain ⟨hwr, w1, fr1, hg1, hr1, hdead⟩ := newNode_spec w .document
      have b1 := Base.init w .document
      have hn1 : VStep (NotIn f) (NotIn f) f (f.newNode .document).1 := vstep_newNode f _
      unfold newDocument
      rcases hnew : f.newNode .document with ⟨f1, top⟩
      rw [hnew] at hwr w1 fr1 hg1 hr1 b1 hn1
      simp only at hwr w1 fr1 hg1 hr1 b1 hn1
      subst hwr
      have hdoc1 : f1.isDocument f.next = true := by unfold isDocument value?; rw [hg1]; rfl
      have hel1 : f1.isElement f.next = false := by unfold isElement value?; rw [hg1]; rfl
      have hok : cloneOkList (f1.isElement f.next) src.kids = true := by
        rw [hel1]
        cases src with
        | node h v ks =>
          simp only [HTree.value] at hsv
          subst hsv
          simp only [validTree, Bool.and_eq_true] at hvalid
          obtain ⟨⟨⟨⟨⟨h1, _⟩, _⟩, _⟩, _⟩, h6⟩ := hvalid
          apply validList_cloneOk _ false ks h6
          intro k hk
          have := List.all_eq_true.1 h1 k hk
          simp only [kidAllowed, Bool.and_eq_true, Value.isNormal, beq_iff_eq] at this
          exact Or.inl this.1
      cases hc : cloneKids f1 f.next src.kids with
      | none => exact hn1
      | some f2 =>
        exact hn1.trans (cloneKids_vstep f src.kids f1 f.next w1 (isRoot_live hr1) (Or.inr hdoc1) hok
          b1 hdead f2 hc)
    | element name =>
      simp only
      obtain ⟨hwr, w1, fr1, hg1, hr1, hdead⟩ := newNode_spec w (.element name)
      have b1 := Base.init w (.element name)
      have hn1 : VStep (NotIn f) (NotIn f) f (f.newNode (.element name)).1 := vstep_newNode f _
      unfold newElement
      rcases hnew : f.newNode (.element name) with ⟨f1, top⟩
      rw [hnew] at hwr w1 fr1 hg1 hr1 b1 hn1
      simp only at hwr w1 fr1 hg1 hr1 b1 hn1
      subst hwr
      have hel1 : f1.isElement f.next = true := by unfold isElement value?; rw [hg1]; rfl
      have hok : cloneOk (f1.isElement f.next) src = true := by
        rw [hel1]; exact valid_cloneOk _ true _ hvalid (Or.inr rfl)
      cases hc : cloneInto f1 f.next src with
      | none => exact hn1
      | some f2 =>
        simp only
        have h2 := hn1.trans (cloneInto_vstep f src f1 f.next w1 (isRoot_live hr1) (Or.inl hel1) hok
          b1 hdead f2 hc)
        cases f2.firstChild f.next with
        | some c => exact h2.trans (vstep_spliceOut f2 f.next)
        | none => exact h2
    | text s => exact vstep_newNode f _
    | pi tg d => exact vstep_newNode f _
    | comment s => exact vstep_newNode f _
    | «attribute» a b => exact vstep_newNode f _
    | «namespace» a b => exact vstep_newNode f _

end Forest
end XotModel
