/-
  What `create_missing_prefixes_for_element` does to the declarations of the nodes BELOW the repaired
  element and to the bindings in force there, stated without paths (raw child indices shift when
  namespace nodes are inserted): the nodes other than namespace nodes are listed in document order,
  each with the declaration frames in force at it (`nodesInScope`); the call keeps that list's length
  (it only inserts namespace nodes) and its k-th entry before and after the call are related by
  `KeptNode`:

  * same value;
  * the node's declaration list is unchanged, except that an element in no namespace at which a
    default namespace is in force gets `insert("", no namespace)` — exactly then;
  * every binding of a non-empty prefix in force before is in force after, and the binding of the
    empty prefix is the same or has become "undeclared" where it was a default namespace.
-/
import XotModel.Lemmas.RepairFuel

namespace XotModel.Repair
open XotModel

/-! ### Lists in step -/

/-- The two lists have the same length and `R` relates their entries position by position. -/
def AllPairs {α β : Type} (R : α → β → Prop) : List α → List β → Prop
  | [], [] => True
  | a :: as, b :: bs => R a b ∧ AllPairs R as bs
  | _, _ => False

theorem allPairs_append {α β : Type} {R : α → β → Prop} : ∀ {l1 l1' : List α} {l2 l2' : List β},
    AllPairs R l1 l2 → AllPairs R l1' l2' → AllPairs R (l1 ++ l1') (l2 ++ l2')
  | [], _, [], _, _, h => h
  | a :: as, _, b :: bs, _, h1, h => ⟨h1.1, allPairs_append h1.2 h⟩
  | [], _, _ :: _, _, h1, _ => h1.elim
  | _ :: _, _, [], _, h1, _ => h1.elim

theorem allPairs_imp {α β : Type} {R S : α → β → Prop} (h : ∀ a b, R a b → S a b) :
    ∀ {l1 : List α} {l2 : List β}, AllPairs R l1 l2 → AllPairs S l1 l2
  | [], [], _ => trivial
  | a :: as, b :: bs, h1 => ⟨h a b h1.1, allPairs_imp h h1.2⟩
  | [], _ :: _, h1 => h1.elim
  | _ :: _, [], h1 => h1.elim

theorem allPairs_iff_getElem {α β : Type} {R : α → β → Prop} : ∀ {l1 : List α} {l2 : List β},
    AllPairs R l1 l2 ↔ l1.length = l2.length ∧
      ∀ (k : Nat) (a : α) (b : β), l1[k]? = some a → l2[k]? = some b → R a b
  | [], [] => by simp [AllPairs]
  | [], _ :: _ => by simp [AllPairs]
  | _ :: _, [] => by simp [AllPairs]
  | a :: as, b :: bs => by
    simp only [AllPairs, List.length_cons, Nat.add_right_cancel_iff]
    rw [allPairs_iff_getElem (l1 := as) (l2 := bs)]
    constructor
    · rintro ⟨h1, h2, h3⟩
      refine ⟨h2, fun k a' b' ha hb => ?_⟩
      cases k with
      | zero =>
        simp only [List.getElem?_cons_zero, Option.some.injEq] at ha hb
        subst ha; subst hb; exact h1
      | succ k => exact h3 k a' b' (by simpa using ha) (by simpa using hb)
    · rintro ⟨h2, h3⟩
      exact ⟨h3 0 a b rfl rfl, h2, fun k a' b' ha hb => h3 (k + 1) a' b' (by simpa using ha) (by simpa using hb)⟩

/-! ### The nodes of a subtree with the frames in force at them -/

mutual
/-- The nodes of the subtree other than namespace nodes, in document order, each with the
    declaration frames in force at it: its own (`frameOf`: the declarations of an element, nothing
    for another node) on top of `fs`. -/
def nodesInScope (fs : Frames) : Tree → List (Frames × Tree)
  | .node v ks => (frameOf (.node v ks) :: fs, .node v ks) :: nodesKids (frameOf (.node v ks) :: fs) ks
def nodesKids (fs : Frames) : List Tree → List (Frames × Tree)
  | [] => []
  | k :: ks => (if k.value.category == .namespace then [] else nodesInScope fs k) ++ nodesKids fs ks
end

/-- The nodes below `t` (not `t` itself), with `t`'s frame pushed. -/
def nodesBelow (fs : Frames) (t : Tree) : List (Frames × Tree) := nodesKids (frameOf t :: fs) t.kids

theorem nodesInScope_eq (fs : Frames) (t : Tree) :
    nodesInScope fs t = (frameOf t :: fs, t) :: nodesBelow fs t := by
  cases t; simp [nodesInScope, nodesBelow, Tree.kids]

theorem nodesKids_insertNsKid (fs : Frames) (p ns : Nat) : ∀ ks : List Tree,
    nodesKids fs (insertNsKid p ns ks) = nodesKids fs ks
  | [] => by simp [insertNsKid, nodesKids, Tree.value, Value.category]
  | k :: ks => by
    cases k with
    | node kv kk =>
      cases kv with
      | «namespace» q m =>
        simp only [insertNsKid, Tree.value]
        by_cases hq : (q == p) = true
        · simp [hq, nodesKids, Tree.value, Value.category]
        · simp only [hq, Bool.false_eq_true, if_false]
          simp only [nodesKids, nodesKids_insertNsKid fs p ns ks]
      | _ => simp [insertNsKid, nodesKids, Tree.value, Value.category]

theorem nodesKids_insertNamespace (fs : Frames) (p ns : Nat) (t : Tree) :
    nodesKids fs (insertNamespace p ns t).kids = nodesKids fs t.kids := by
  cases t; simp [insertNamespace, Tree.kids, nodesKids_insertNsKid]

theorem nodesKids_insertNamespaces (fs : Frames) (nd : List (Nat × Nat)) (t : Tree) :
    nodesKids fs (insertNamespaces nd t).kids = nodesKids fs t.kids := by
  unfold insertNamespaces
  induction nd generalizing t with
  | nil => rfl
  | cons d nd ih => simp only [List.foldl_cons]; rw [ih, nodesKids_insertNamespace]

/-! ### `insert` and `lookup` -/

theorem lookup_insertDecl_self (p ns : Nat) : ∀ D : List (Nat × Nat),
    List.lookup p (insertDecl p ns D) = some ns
  | [] => by simp [insertDecl, List.lookup]
  | (q, m) :: rest => by
    by_cases hq : (q == p) = true
    · have hqp : q = p := by simpa using hq
      subst hqp
      simp [insertDecl, List.lookup]
    · have : (p == q) = false := by
        rw [beq_eq_false_iff_ne]; intro h; exact hq (by simp [h])
      simp only [insertDecl, hq, Bool.false_eq_true, if_false, List.lookup, this]
      exact lookup_insertDecl_self p ns rest

theorem lookup_insertDecl_ne (p ns q : Nat) (h : q ≠ p) : ∀ D : List (Nat × Nat),
    List.lookup q (insertDecl p ns D) = List.lookup q D
  | [] => by
    have : (q == p) = false := by simpa using h
    simp [insertDecl, List.lookup, this]
  | (r, m) :: rest => by
    by_cases hr : (r == p) = true
    · have hrp : r = p := by simpa using hr
      have : (q == r) = false := by simpa [hrp] using h
      simp [insertDecl, hr, List.lookup, this]
    · simp only [insertDecl, hr, Bool.false_eq_true, if_false, List.lookup]
      rw [lookup_insertDecl_ne p ns q h rest]

theorem lookup_foldl_insertDecl (q : Nat) : ∀ (nd D : List (Nat × Nat)), q ∉ keys nd →
    List.lookup q (nd.foldl (fun D d => insertDecl d.1 d.2 D) D) = List.lookup q D
  | [], _, _ => rfl
  | d :: nd, D, h => by
    simp only [keys, List.map_cons, List.mem_cons, not_or] at h
    simp only [List.foldl_cons]
    rw [lookup_foldl_insertDecl q nd _ h.2, lookup_insertDecl_ne _ _ _ h.1]

theorem lookupFrames_cons (D : List (Nat × Nat)) (fs : Frames) (p : Nat) :
    lookupFrames (D :: fs) p = match List.lookup p D with
      | some n => some n
      | none => lookupFrames fs p := rfl

/-! ### The relations -/

/-- Bindings in force before (`fb`) and after (`fa`): every binding of a non-empty prefix is kept; the
    empty prefix means the same, or a default namespace has become "no namespace" (`xmlns=""`). -/
def BindingsKept (fb fa : Frames) : Prop :=
  (∀ p, p ≠ Env.emptyPrefix → ∀ ns, lookupFrames fb p = some ns → lookupFrames fa p = some ns) ∧
  (lookupFrames fa Env.emptyPrefix = lookupFrames fb Env.emptyPrefix ∨
    (lookupFrames fa Env.emptyPrefix = some Env.noNamespace ∧
      ∃ n, n ≠ Env.noNamespace ∧ lookupFrames fb Env.emptyPrefix = some n))

/-- `y` is an element in no namespace at which — with the frames `fa` around it and its own
    declarations — the empty prefix is bound to a namespace. -/
def NeedsUndeclaration (nsOf : Nat → Nat) (fa : Frames) (y : Tree) : Prop :=
  ∃ name, y.value = .element name ∧ nsOf name = Env.noNamespace ∧
    ∃ n, n ≠ Env.noNamespace ∧ lookupFrames (y.nsDecls :: fa) Env.emptyPrefix = some n

/-- A node before (`b`) and after (`a`) the call, each with the frames in force at it (own frame
    first, so `a.1.tail` are the frames around the node after the call). -/
def KeptNode (nsOf : Nat → Nat) (b a : Frames × Tree) : Prop :=
  a.2.value = b.2.value ∧
  ((NeedsUndeclaration nsOf a.1.tail b.2 ∧
      a.2.nsDecls = insertDecl Env.emptyPrefix Env.noNamespace b.2.nsDecls) ∨
    (¬ NeedsUndeclaration nsOf a.1.tail b.2 ∧ a.2.nsDecls = b.2.nsDecls)) ∧
  BindingsKept b.1 a.1

/-- The walk's top frame and the frames of the rebuilt tree agree on the empty prefix. -/
def WDefault (top : List (Nat × Nat)) (fa : Frames) : Prop :=
  ∀ n, (Env.emptyPrefix, n) ∈ top ↔ lookupFrames fa Env.emptyPrefix = some n

theorem bindingsKept_push {fb fa : Frames} (hk : BindingsKept fb fa) (D D' : List (Nat × Nat))
    (hp : ∀ p, p ≠ Env.emptyPrefix → ∀ ns, lookupFrames (D :: fb) p = some ns →
      List.lookup p D' = List.lookup p D)
    (h0 : List.lookup Env.emptyPrefix D' = List.lookup Env.emptyPrefix D ∨
      (List.lookup Env.emptyPrefix D' = some Env.noNamespace ∧
        ∃ n, n ≠ Env.noNamespace ∧ lookupFrames (D :: fa) Env.emptyPrefix = some n)) :
    BindingsKept (D :: fb) (D' :: fa) := by
  refine ⟨fun p hpe ns hl => ?_, ?_⟩
  · rw [lookupFrames_cons, hp p hpe ns hl]
    rw [lookupFrames_cons] at hl
    cases hd : List.lookup p D with
    | some m => simpa [hd] using hl
    | none => simp only [hd] at hl ⊢; exact hk.1 p hpe ns hl
  · rcases h0 with h0 | ⟨h0, n, hn, hl⟩
    · rw [lookupFrames_cons, lookupFrames_cons, h0]
      cases hd : List.lookup Env.emptyPrefix D with
      | some m => exact Or.inl rfl
      | none => exact hk.2
    · right
      refine ⟨by rw [lookupFrames_cons, h0], n, hn, ?_⟩
      rw [lookupFrames_cons] at hl ⊢
      cases hd : List.lookup Env.emptyPrefix D with
      | some m => simpa [hd] using hl
      | none =>
        simp only [hd] at hl ⊢
        rcases hk.2 with h | ⟨h, _⟩
        · rw [← h]; exact hl
        · rw [h] at hl; cases hl; exact absurd rfl hn

theorem wDefault_push {top : List (Nat × Nat)} {fa : Frames} (hw : WDefault top fa)
    (WD D' : List (Nat × Nat))
    (h : ∀ n, (Env.emptyPrefix, n) ∈ WD ↔ List.lookup Env.emptyPrefix D' = some n) :
    WDefault (pushTop top WD) (D' :: fa) := by
  intro n
  rw [mem_pushTop, lookupFrames_cons]
  cases hd : List.lookup Env.emptyPrefix D' with
  | some m =>
    have hm : (Env.emptyPrefix, m) ∈ WD := (h m).mpr hd
    have hk : Env.emptyPrefix ∈ keys WD := mem_keys.mpr ⟨m, hm⟩
    rw [h n, hd]
    simp [hk]
  | none =>
    have hk : Env.emptyPrefix ∉ keys WD := by
      intro hk
      obtain ⟨m, hm⟩ := mem_keys.mp hk
      have := (h m).mp hm
      rw [hd] at this; cases this
    have hn : (Env.emptyPrefix, n) ∉ WD := fun hm => hk (mem_keys.mpr ⟨n, hm⟩)
    simp only [hk, not_false_eq_true, and_true, hn, or_false]
    exact hw n

/-- `needsUndeclare` of the walk, read in the frames of the rebuilt tree. -/
theorem needsUndeclare_frames (nsOf : Nat → Nat) {top : List (Nat × Nat)} {fa : Frames}
    (hw : WDefault top fa) (name : Nat) (ks : List Tree)
    (hu : UniquePrefixes (declsOfKids ks)) :
    needsUndeclare nsOf top (.node (.element name) ks) name = true ↔
      NeedsUndeclaration nsOf fa (.node (.element name) ks) := by
  rw [needsUndeclare_iff]
  have hwp := wDefault_push hw (declsOfKids ks) (declsOfKids ks)
    (fun n => (lookup_some_iff hu _ n).symm)
  unfold NeedsUndeclaration
  simp only [Tree.value, nsDecls_node]
  constructor
  · rintro ⟨h1, n, hn, hm⟩
    exact ⟨name, rfl, h1, n, hn, (hwp n).mp hm⟩
  · rintro ⟨name', he, h1, n, hn, hl⟩
    cases he
    exact ⟨h1, n, hn, (hwp n).mpr hl⟩

theorem not_needsUndeclaration_of_value (nsOf : Nat → Nat) (fa : Frames) (v : Value) (ks : List Tree)
    (hv : v.isElement = false) : ¬ NeedsUndeclaration nsOf fa (.node v ks) := by
  rintro ⟨name, he, _⟩
  simp only [Tree.value] at he
  subst he
  cases hv

/-! ### The rebuilt subtree, node by node -/

mutual
theorem rebuild_kept (nsOf : Nat → Nat) (nd : List (Nat × Nat)) : ∀ (y : Tree) (top : List (Nat × Nat))
    (fb fa : Frames), URec y → WDefault top fa → BindingsKept fb fa →
    AllPairs (KeptNode nsOf) (nodesInScope fb y) (nodesInScope fa (rebuild nsOf nd false top y))
  | .node v ks, top, fb, fa, hu, hw, hk => by
    by_cases hv : v.isElement = true
    · cases v <;> simp [Value.isElement] at hv
      rename_i name
      have hD : UniquePrefixes (declsOfKids ks) := by
        have := hu.1; rwa [frameOf_node] at this
      have hfr : frameOf (.node (.element name) ks) = declsOfKids ks := by simp [frameOf_node, Value.isElement]
      have hvals := fun top' => map_value_rebuildKids nsOf nd top' ks
      have hnu := needsUndeclare_frames nsOf hw name ks hD
      cases hc : needsUndeclare nsOf top (.node (.element name) ks) name with
      | false =>
        have hno : ¬ NeedsUndeclaration nsOf fa (.node (.element name) ks) := by
          rw [← hnu, hc]; simp
        have hreb : rebuild nsOf nd false top (.node (.element name) ks) =
            .node (.element name) (rebuildKids nsOf nd (pushTop top (declsOfKids ks)) ks) := by
          simp [rebuild, hc, walkTop, walkDecls, nsDecls_node]
        rw [hreb, nodesInScope_eq, nodesInScope_eq]
        have hfr' : frameOf (.node (.element name) (rebuildKids nsOf nd (pushTop top (declsOfKids ks)) ks)) =
            declsOfKids ks := by
          rw [frameOf_congr (hvals _)]; exact hfr
        have hbk : BindingsKept (declsOfKids ks :: fb) (declsOfKids ks :: fa) :=
          bindingsKept_push hk _ _ (fun _ _ _ _ => rfl) (Or.inl rfl)
        rw [hfr, hfr']
        refine ⟨⟨rfl, Or.inr ⟨hno, ?_⟩, hbk⟩, ?_⟩
        · simp only [nsDecls_node]; exact declsOfKids_congr (hvals _)
        · simp only [nodesBelow, hfr, hfr', Tree.kids]
          exact rebuildKids_kept nsOf nd ks _ _ _ hu.2
            (wDefault_push hw _ _ (fun n => (lookup_some_iff hD _ n).symm)) hbk
      | true =>
        have hyes : NeedsUndeclaration nsOf fa (.node (.element name) ks) := hnu.mp hc
        have hreb : rebuild nsOf nd false top (.node (.element name) ks) =
            .node (.element name) (insertNsKid Env.emptyPrefix Env.noNamespace
              (rebuildKids nsOf nd (pushTop top (undeclaredDecls (declsOfKids ks))) ks)) := by
          simp [rebuild, hc, walkTop, walkDecls, nsDecls_node, insertNamespace]
        rw [hreb, nodesInScope_eq, nodesInScope_eq]
        have hdecl : declsOfKids (insertNsKid Env.emptyPrefix Env.noNamespace
              (rebuildKids nsOf nd (pushTop top (undeclaredDecls (declsOfKids ks))) ks)) =
            insertDecl Env.emptyPrefix Env.noNamespace (declsOfKids ks) := by
          rw [declsOfKids_insertNsKid, declsOfKids_congr (hvals _)]
        have hfr' : frameOf (.node (.element name) (insertNsKid Env.emptyPrefix Env.noNamespace
              (rebuildKids nsOf nd (pushTop top (undeclaredDecls (declsOfKids ks))) ks))) =
            insertDecl Env.emptyPrefix Env.noNamespace (declsOfKids ks) := by
          rw [frameOf_node, ← hdecl]; rfl
        obtain ⟨_, _, _, n, hn, hl⟩ := hyes
        simp only [nsDecls_node] at hl
        have hbk : BindingsKept (declsOfKids ks :: fb)
            (insertDecl Env.emptyPrefix Env.noNamespace (declsOfKids ks) :: fa) :=
          bindingsKept_push hk _ _
            (fun p hp _ _ => lookup_insertDecl_ne _ _ _ hp _)
            (Or.inr ⟨lookup_insertDecl_self _ _ _, n, hn, hl⟩)
        rw [hfr, hfr']
        refine ⟨⟨rfl, Or.inl ⟨hnu.mp hc, by simp only [nsDecls_node]; exact hdecl⟩, hbk⟩, ?_⟩
        simp only [nodesBelow, hfr, hfr', nodesKids_insertNsKid, Tree.kids]
        apply rebuildKids_kept nsOf nd ks _ _ _ hu.2 ?_ hbk
        apply wDefault_push hw
        intro m
        rw [lookup_insertDecl_self, mem_undeclaredDecls]
        constructor
        · rintro (⟨h, _⟩ | ⟨_, h⟩)
          · exact absurd rfl h
          · rw [h]
        · intro h
          simp only [Option.some.injEq] at h
          exact Or.inr ⟨rfl, h.symm⟩
    · have hv' : v.isElement = false := by simpa using hv
      rw [rebuild_other nsOf nd false top v ks hv']
      simp only [Bool.false_eq_true, if_false]
      rw [nodesInScope_eq, nodesInScope_eq]
      have hfr : frameOf (.node v ks) = [] := by simp [frameOf_node, hv']
      have hfr' : frameOf (.node v (rebuildKids nsOf nd top ks)) = [] := by simp [frameOf_node, hv']
      have hbk : BindingsKept ([] :: fb) ([] :: fa) :=
        bindingsKept_push hk _ _ (fun _ _ _ _ => rfl) (Or.inl rfl)
      rw [hfr, hfr']
      refine ⟨⟨rfl, Or.inr ⟨not_needsUndeclaration_of_value nsOf _ v ks hv', ?_⟩, hbk⟩, ?_⟩
      · simp only [nsDecls_node]; exact declsOfKids_congr (map_value_rebuildKids nsOf nd top ks)
      · simp only [nodesBelow, hfr, hfr', Tree.kids]
        apply rebuildKids_kept nsOf nd ks _ _ _ hu.2 ?_ hbk
        intro n
        rw [lookupFrames_nil_cons]
        exact hw n
theorem rebuildKids_kept (nsOf : Nat → Nat) (nd : List (Nat × Nat)) : ∀ (ks : List Tree)
    (top : List (Nat × Nat)) (fb fa : Frames), UKids ks → WDefault top fa → BindingsKept fb fa →
    AllPairs (KeptNode nsOf) (nodesKids fb ks) (nodesKids fa (rebuildKids nsOf nd top ks))
  | [], _, _, _, _, _, _ => by simp [rebuildKids, nodesKids, AllPairs]
  | k :: ks, top, fb, fa, hu, hw, hk => by
    simp only [rebuildKids, nodesKids, value_rebuild]
    apply allPairs_append
    · split
      · trivial
      · exact rebuild_kept nsOf nd k top fb fa hu.1 hw hk
    · exact rebuildKids_kept nsOf nd ks top fb fa hu.2 hw hk
end

end XotModel.Repair
