/-
  Placement of a root `tc` into a *root* parent `node p v ks` (explicit shape of the root list):
  `append`, `checked_prepend`, `checked_insert_after/before` next to a child of that parent, and
  "place at the end given the last child as insertion point" (shared by node-map `insert` and
  `prepend` into a parent without normal children).
-/
import XotModel.Lemmas.FfixedAppend

namespace XotModel
open HTree

/-- Facts about a root `node p v ks` between `A` and `B` when all handles are distinct. -/
theorem root_facts {A B ks : List HTree} {p : Nat} {v : Value}
    (hn : (handlesList (A ++ HTree.node p v ks :: B)).Nodup) :
    p ∉ handlesList A ∧ p ∉ handlesList B ∧ p ∉ handlesList ks ∧
    (∀ x ∈ handlesList ks, x ∉ handlesList A ∧ x ∉ handlesList B) ∧ (handlesList ks).Nodup := by
  have h : RootAt { roots := A ++ HTree.node p v ks :: B } A (HTree.node p v ks) B := ⟨rfl, hn⟩
  refine ⟨h.not_mem_X p (by simp [handles]), h.not_mem_Y p (by simp [handles]), ?_, ?_, ?_⟩
  · simpa [HTree.handle, HTree.kids] using h.handle_not_mem_kids
  · intro x hx
    exact ⟨h.not_mem_X x (by simp [handles, hx]), h.not_mem_Y x (by simp [handles, hx])⟩
  · have := h.nodup_tc
    simp only [handles, List.nodup_cons] at this
    exact this.2

theorem findList?_root {A B ks : List HTree} {p : Nat} {v : Value} (hp : p ∉ handlesList A) :
    findList? p (A ++ HTree.node p v ks :: B) = some (HTree.node p v ks) := by
  rw [ffx_findList?_append_of_not_mem _ _ _ hp]
  exact ffx_findList?_cons_self (HTree.node p v ks) B

theorem map_mapAt_root {A B ks : List HTree} {p : Nat} {v : Value} (g : HTree → HTree)
    (hA : p ∉ handlesList A) (hB : p ∉ handlesList B) :
    (A ++ HTree.node p v ks :: B).map (mapAt p g) = A ++ g (HTree.node p v ks) :: B := by
  rw [List.map_append, List.map_cons, ffx_map_mapAt_of_not_mem p g A hA, ffx_map_mapAt_of_not_mem p g B hB]
  simp [mapAt]

theorem replaceKids_split (h : Nat) (g : HTree → List HTree) (k1 k2 : List HTree) (r : HTree)
    (hr : r.handle = h) (hn : h ∉ handlesList k1) :
    replaceKids h g (k1 ++ r :: k2) = k1 ++ g r ++ k2 := by
  induction k1 with
  | nil => simp [replaceKids, hr]
  | cons k ks ih =>
    simp only [handlesList, List.mem_append, not_or] at hn
    have hk : k.handle ≠ h := fun e => hn.1 (e ▸ handle_mem_handles_ff k)
    have hkk : h ∉ handlesList k.kids := by
      intro hm; apply hn.1; rw [ff_handles_eq]; exact List.mem_cons_of_mem _ hm
    simp only [List.cons_append]
    conv => lhs; unfold replaceKids
    rw [if_neg hk, replaceBelow_of_not_mem_ff h g k hkk, ih hn.2]

theorem map_replaceBelow_root {A B k1 k2 : List HTree} {p : Nat} {v : Value} {r : HTree}
    (g : HTree → List HTree) (hA : r.handle ∉ handlesList A) (hB : r.handle ∉ handlesList B)
    (h1 : r.handle ∉ handlesList k1) :
    (A ++ HTree.node p v (k1 ++ r :: k2) :: B).map (replaceBelow r.handle g) =
      A ++ HTree.node p v (k1 ++ g r ++ k2) :: B := by
  rw [List.map_append, List.map_cons, ffx_map_replaceBelow_of_not_mem _ g A hA,
    ffx_map_replaceBelow_of_not_mem _ g B hB]
  simp [replaceBelow, replaceKids_split r.handle g k1 k2 r rfl h1]

namespace RootAt
variable {f : Forest} {X Y : List HTree} {tc : HTree}

/-- `append` of the root `tc` to the root `p`. -/
theorem append_root (h : RootAt f X tc Y) {A B ks : List HTree} {p : Nat} {v : Value}
    (hXY : X ++ Y = A ++ HTree.node p v ks :: B)
    (hpv : v.isElement = true ∨ v.isDocument = true)
    (hcn : tc.value.isNormal = true) (hcd : tc.value.isDocument = false)
    (htext : f.consolidation = true → tc.value.isText = true →
        ∀ k, ks.getLast? = some k → k.value.isText = false) :
    f.append p tc.handle = ({ f with roots := A ++ HTree.node p v (ks ++ [tc]) :: B }, .ok) := by
  have hn := h.nodup_rest
  rw [hXY] at hn
  obtain ⟨hA, hB, _, _, _⟩ := root_facts hn
  have hp : findList? p (X ++ Y) = some (HTree.node p v ks) := by rw [hXY]; exact findList?_root hA
  rw [h.append_spec hp hpv hcn hcd htext, hXY, map_mapAt_root _ hA hB]
  rfl

theorem ne_of_rest (h : RootAt f X tc Y) {x : Nat} (hx : x ∈ handlesList (X ++ Y)) : x ≠ tc.handle :=
  fun e => h.rest_not_mem_tc hx (e ▸ handle_mem_handles_ff tc)

/-- `checked_prepend` of the root `tc` under the root `p`. -/
theorem checkedPrepend_root (h : RootAt f X tc Y) {A B ks : List HTree} {p : Nat} {v : Value}
    (hXY : X ++ Y = A ++ HTree.node p v ks :: B) :
    f.checkedPrepend p tc.handle = ({ f with roots := A ++ HTree.node p v (tc :: ks) :: B }, true) := by
  have hn := h.nodup_rest
  rw [hXY] at hn
  obtain ⟨hA, hB, _, _, _⟩ := root_facts hn
  have hpm : p ∈ handlesList (X ++ Y) := by
    rw [hXY, handlesList_append_ff]; simp [handlesList, handles]
  have hanc : (f.ancestors p).contains tc.handle = false := by simpa using h.ancestors_rest hpm
  have hne : ¬ (p = tc.handle) := h.ne_of_rest hpm
  unfold Forest.checkedPrepend
  simp only [hanc, h.cut_self, Bool.or_false, hne, decide_false, Bool.false_eq_true, if_false]
  unfold Forest.placeFirst
  simp only [hXY, map_mapAt_root _ hA hB]
  rfl

theorem isRoot_kid (h : RootAt f X tc Y) {A B k1 k2 : List HTree} {p : Nat} {v : Value} {r : HTree}
    (hXY : X ++ Y = A ++ HTree.node p v (k1 ++ r :: k2) :: B) : f.isRoot r.handle = false := by
  have hn := h.nodup_rest
  rw [hXY] at hn
  obtain ⟨_, _, hpk, hk, _⟩ := root_facts hn
  have hrk : r.handle ∈ handlesList (k1 ++ r :: k2) := by
    rw [handlesList_append_ff]; simp [handlesList, handle_mem_handles_ff]
  have hrm : r.handle ∈ handlesList (X ++ Y) := by
    rw [hXY, handlesList_append_ff]; simp [handlesList, handles, hrk]
  have hany : (X ++ Y).any (fun t => decide (t.handle = r.handle)) = false := by
    rw [hXY, List.any_eq_false]
    intro t ht
    rw [List.mem_append, List.mem_cons] at ht
    have hne : t.handle ≠ r.handle := by
      rcases ht with ht | rfl | ht
      · intro e; exact (hk _ hrk).1 (mem_handlesList_ff.2 ⟨t, ht, e ▸ handle_mem_handles_ff t⟩)
      · intro e
        have e' : p = r.handle := e
        exact hpk (e' ▸ hrk)
      · intro e; exact (hk _ hrk).2 (mem_handlesList_ff.2 ⟨t, ht, e ▸ handle_mem_handles_ff t⟩)
    simpa using hne
  unfold Forest.isRoot
  rw [h.roots]
  rw [List.any_append] at hany ⊢
  rw [List.any_cons]
  have hc : ¬ (tc.handle = r.handle) := fun e => h.ne_of_rest hrm e.symm
  simp only [Bool.or_eq_false_iff] at hany
  simp [hany.1, hany.2, hc]

theorem kid_facts (h : RootAt f X tc Y) {A B k1 k2 : List HTree} {p : Nat} {v : Value} {r : HTree}
    (hXY : X ++ Y = A ++ HTree.node p v (k1 ++ r :: k2) :: B) :
    r.handle ∈ handlesList (X ++ Y) ∧ r.handle ∉ handlesList A ∧ r.handle ∉ handlesList B ∧
      r.handle ∉ handlesList k1 := by
  have hn := h.nodup_rest
  rw [hXY] at hn
  obtain ⟨_, _, _, hk, hnk⟩ := root_facts hn
  have hrk : r.handle ∈ handlesList (k1 ++ r :: k2) := by
    rw [handlesList_append_ff]; simp [handlesList, handle_mem_handles_ff]
  refine ⟨?_, (hk _ hrk).1, (hk _ hrk).2, ?_⟩
  · rw [hXY, handlesList_append_ff]; simp [handlesList, handles, hrk]
  · rw [handlesList_append_ff] at hnk
    intro hm
    exact (List.nodup_append.1 hnk).2.2 _ hm _ (by simp [handlesList, handle_mem_handles_ff]) rfl

/-- `checked_insert_after(r, tc)` with `r` a child of the root `p`. -/
theorem checkedInsertAfter_kid (h : RootAt f X tc Y) {A B k1 k2 : List HTree} {p : Nat} {v : Value}
    {r : HTree} (hXY : X ++ Y = A ++ HTree.node p v (k1 ++ r :: k2) :: B) :
    f.checkedInsertAfter r.handle tc.handle =
      ({ f with roots := A ++ HTree.node p v (k1 ++ r :: tc :: k2) :: B }, true) := by
  obtain ⟨hrm, hA, hB, h1⟩ := h.kid_facts hXY
  have hanc : (f.ancestors r.handle).contains tc.handle = false := by
    simpa using h.ancestors_rest hrm
  have hne : ¬ (r.handle = tc.handle) := h.ne_of_rest hrm
  unfold Forest.checkedInsertAfter
  simp only [hne, if_false, hanc, h.isRoot_kid hXY, Bool.or_false, Bool.false_eq_true, h.cut_self]
  unfold Forest.placeAfter
  simp only [hXY, map_replaceBelow_root _ hA hB h1]
  simp

/-- `checked_insert_before(r, tc)` with `r` a child of the root `p`. -/
theorem checkedInsertBefore_kid (h : RootAt f X tc Y) {A B k1 k2 : List HTree} {p : Nat} {v : Value}
    {r : HTree} (hXY : X ++ Y = A ++ HTree.node p v (k1 ++ r :: k2) :: B) :
    f.checkedInsertBefore r.handle tc.handle =
      ({ f with roots := A ++ HTree.node p v (k1 ++ tc :: r :: k2) :: B }, true) := by
  obtain ⟨hrm, hA, hB, h1⟩ := h.kid_facts hXY
  have hanc : (f.ancestors r.handle).contains tc.handle = false := by
    simpa using h.ancestors_rest hrm
  have hne : ¬ (r.handle = tc.handle) := h.ne_of_rest hrm
  unfold Forest.checkedInsertBefore
  simp only [hne, if_false, hanc, h.isRoot_kid hXY, Bool.or_false, Bool.false_eq_true, h.cut_self]
  unfold Forest.placeBefore
  simp only [hXY, map_replaceBelow_root _ hA hB h1]
  simp

/-- Insertion after the last child, or `checked_prepend` when there is none: `tc` becomes the
    last child. -/
theorem placeAtEnd (h : RootAt f X tc Y) {A B ks : List HTree} {p : Nat} {v : Value}
    (hXY : X ++ Y = A ++ HTree.node p v ks :: B) :
    (∀ l, ks.getLast? = some l → f.checkedInsertAfter l.handle tc.handle =
      ({ f with roots := A ++ HTree.node p v (ks ++ [tc]) :: B }, true)) ∧
    (ks.getLast? = none → f.checkedPrepend p tc.handle =
      ({ f with roots := A ++ HTree.node p v (ks ++ [tc]) :: B }, true)) := by
  refine ⟨?_, ?_⟩
  · intro l hl
    obtain ⟨k1, rfl⟩ := List.getLast?_eq_some_iff.1 hl
    rw [h.checkedInsertAfter_kid (k2 := []) hXY]
    simp
  · intro hl
    have : ks = [] := List.getLast?_eq_none_iff.1 hl
    subst this
    exact h.checkedPrepend_root hXY

end RootAt
end XotModel
