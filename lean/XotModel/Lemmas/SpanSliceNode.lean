/-
  XotModel.Lemmas.SpanSliceNode — `NodeFacts` (which token made the node, which spans are recorded)
  read on the source text: every recorded span SLICES the source to the item's spelling, and the
  node's value is the decoding of that slice.  `NodeSliced` collects the statements per node kind;
  Props/C17.lean restates them one by one.
-/
import XotModel.Lemmas.SpanDecodeRun

namespace XotModel

/-- The recorded span under `key` slices the source to `txt`. -/
def SlicesTo (s : Str) (g : SpanKey → Option Span) (key : SpanKey) (txt : Str) : Prop :=
  ∃ sp, g key = some sp ∧ sliceBytes s sp.start sp.stop = some txt

/-- An attribute child `(n, v)` of the element at `q`. -/
def AttrSliced (s : Str) (ts : List Token) (g : SpanKey → Option Span) (env : Env) (scope : NsStack) (q : Path)
    (n : Nat) (v : Str) : Prop :=
  ∃ pfx loc val wsp, Token.attribute pfx loc val wsp ∈ ts ∧
    SlicesTo s g ⟨q, .attributeName n⟩ (tokQName pfx.text loc.text) ∧
    (∃ sp, g ⟨q, .attributeValue n⟩ = some sp ∧ sliceBytes s sp.start sp.stop = some val.text ∧
      ∃ a b qc, (qc = '"' ∨ qc = '\'') ∧ s = a ++ qc :: (val.text ++ qc :: b) ∧ sp.start = strLen a + 1) ∧
    (∃ raw, parseAttribute val.text = .ok raw ∧
      v = if n == Env.xmlIdName then normalizeXmlId raw else raw) ∧
    pfx.text ∈ env.prefixes ∧
    ∃ ns, env.names[n]? = some (loc.text, ns) ∧
      if env.prefixes.idxOf pfx.text = Env.emptyPrefix then ns = Env.noNamespace
      else lookupPrefix scope (env.prefixes.idxOf pfx.text) = some ns

/-- The element `id` at `q`. -/
def ElementSliced (s : Str) (ts : List Token) (g : SpanKey → Option Span) (env : Env) (scope : NsStack) (q : Path)
    (id : Nat) : Prop :=
  (∃ pfx loc wsp, Token.elementStart pfx loc wsp ∈ ts ∧
    SlicesTo s g ⟨q, .elementStart⟩ (tokQName pfx.text loc.text) ∧
    pfx.text ∈ env.prefixes ∧
    ∃ ns, env.names[id]? = some (loc.text, ns) ∧
      lookupPrefix scope (env.prefixes.idxOf pfx.text) = some ns) ∧
  ∃ e esp, Token.elementEnd e esp ∈ ts ∧ e ≠ .open ∧ SlicesTo s g ⟨q, .elementEnd⟩ esp.text ∧
    (esp.text = ['/', '>'] ∨ ∃ mid, esp.text = '<' :: '/' :: (mid ++ ['>']))

/-- The text node with value `v` at `q`. -/
def TextSliced (s : Str) (ts : List Token) (g : SpanKey → Option Span) (q : Path) (v : Str) : Prop :=
  ∃ run, run <:+: ts ∧ run ≠ [] ∧ (∀ t ∈ run, t.isCharData = true) ∧
    SlicesTo s g ⟨q, .text⟩ (runSlice run) ∧ runValue run = some v ∧
    decodeRun (startsInCdata run) (runSlice run) = some v

/-- The comment with value `v` at `q`: the span slices to the body AS WRITTEN (`w`), the value is its
    line-end normalisation (CR LF / CR → LF). -/
def CommentSliced (s : Str) (g : SpanKey → Option Span) (q : Path) (v : Str) : Prop :=
  ∃ w, SlicesTo s g ⟨q, .comment⟩ w ∧ v = normalizeLineEnds w

/-- The PI `id` with data `d` at `q`: the target as written is the name (not `xml` in any letter
    case); the content span slices to the data AS WRITTEN, the data is its line-end normalisation. -/
def PiSliced (s : Str) (g : SpanKey → Option Span) (env : Env) (q : Path) (id : Nat) (d : Option Str) : Prop :=
  ∃ target, SlicesTo s g ⟨q, .piTarget⟩ target ∧ isReservedPiTarget target = false ∧
    env.names[id]? = some (target, Env.noNamespace) ∧
    ∀ c, d = some c → ∃ w, SlicesTo s g ⟨q, .piContent⟩ w ∧ c = normalizeLineEnds w

/-- Per node kind. -/
def NodeSliced (s : Str) (ts : List Token) (g : SpanKey → Option Span) (env : Env) (scope : NsStack) (q : Path)
    (v : Value) (ks : List Tree) : Prop :=
  match v with
  | .element id => ElementSliced s ts g env scope q id ∧
      ∀ k ∈ ks, ∀ n w, k.value = .attribute n w → AttrSliced s ts g env scope q n w
  | .text w => TextSliced s ts g q w
  | .comment w => CommentSliced s g q w
  | .pi id d => PiSliced s g env q id d
  | _ => True

theorem slicesTo_span {s : Str} {g : SpanKey → Option Span} {key : SpanKey} {sp : StrSpan}
    (hg : g key = some sp.span) (hs : sp.SliceOf s) : SlicesTo s g key sp.text :=
  ⟨sp.span, hg, slice_of_span hs⟩

theorem attrFacts_sliced {s : Str} {ts : List Token} {g : SpanKey → Option Span} {env : Env} {scope : NsStack}
    {q : Path} {n : Nat} {v : Str} (hl : LexFacts s ts) (h : AttrFacts ts g env scope q n v) :
    AttrSliced s ts g env scope q n v := by
  obtain ⟨p, l, val, sp, hm, h1, h2, ⟨raw, hr, hv⟩, hpm, ns, hn, hif⟩ := h
  obtain ⟨hsp, qc, pre, hq, htext, hstart⟩ : NameSlice s p l ∧ _ := hl.spelled _ hm
  have hsl := hl.slices _ hm
  obtain ⟨a0, b0, hsrc, hst0⟩ := hsl.2.2.2
  refine ⟨p, l, val, sp, hm, ⟨_, h1, hsp.sliceBytes⟩,
    ⟨val.span, h2, slice_of_span hsl.2.2.1, a0 ++ pre, b0, qc, hq, ?_, ?_⟩,
    ⟨raw, parseContentGo_base hr, hv⟩, hpm, ns, hn, ?_⟩
  · rw [hsrc, htext]; simp
  · show val.start = strLen (a0 ++ pre) + 1
    rw [hstart, hst0, strLen_append]
  · simpa using hif

theorem nodeFacts_sliced {s : Str} {ts : List Token} {g : SpanKey → Option Span} {env : Env} {scope : NsStack}
    {q : Path} {v : Value} {ks : List Tree} (hl : LexFacts s ts) (h : NodeFacts ts g env scope q v ks) :
    NodeSliced s ts g env scope q v ks := by
  cases v with
  | element id =>
    obtain ⟨⟨⟨p, l, sp, hm, h1, hpm, ns, hn, hif⟩, hattrs⟩, e, esp, hem, hne, h2, _⟩ := h
    have hsp : NameSlice s p l := hl.spelled _ hm
    refine ⟨⟨⟨p, l, sp, hm, ⟨_, h1, hsp.sliceBytes⟩, hpm, ns, hn, by simpa using hif⟩, e, esp, hem, hne, ?_, ?_⟩,
      fun k hk n w hkv => attrFacts_sliced hl (hattrs k hk n w hkv)⟩
    · exact slicesTo_span h2 (Token.wholeSpan_all _ (hl.slices _ hem))
    · have := hl.spelled _ hem
      cases e with
      | «open» => exact absurd rfl hne
      | empty => exact .inl this
      | close p' l' => exact .inr this.2
  | text w =>
    obtain ⟨run, sp, hin, hne, hall, hadj, hok, hv, hg, hsl⟩ := TextFacts.slice hl h
    refine ⟨run, hin, hne, fun t ht => (hall t ht).1, ⟨sp, hg, hsl⟩, hv, ?_⟩
    rw [decodeRun_runSlice ⟨hall, hadj⟩, hv]
  | comment w =>
    obtain ⟨t, sp, hm, hg, rfl⟩ := h
    exact ⟨t.text, slicesTo_span hg (hl.slices _ hm).1, rfl⟩
  | pi id d =>
    obtain ⟨tg, c, sp, hm, h1, h2, h3, h4, h5⟩ := h
    have hsl := hl.slices _ hm
    refine ⟨tg.text, slicesTo_span h1 hsl.1, h5, h2, fun c' hc' => ?_⟩
    subst h3
    cases c with
    | none => cases hc'
    | some cs =>
      simp only [Option.map_some, Option.some.injEq] at hc'
      subst hc'
      exact ⟨cs.text, slicesTo_span (h4 cs rfl) (hsl.2.1 cs rfl), rfl⟩
  | document => trivial
  | «attribute» n w => trivial
  | «namespace» p n => trivial

/-! ### A slice of a text without carriage return has none -/

theorem dropBytes_subset : ∀ (n : Nat) (s r : Str), dropBytes n s = some r → ∀ c ∈ r, c ∈ s
  | n, [], r, h, c, hc => by
    simp only [dropBytes] at h
    split at h
    · cases h; exact hc
    · cases h
  | n, x :: xs, r, h, c, hc => by
    simp only [dropBytes] at h
    split at h
    · cases h; exact hc
    · split at h
      · exact List.mem_cons_of_mem _ (dropBytes_subset _ xs r h c hc)
      · cases h

theorem takeBytes_subset : ∀ (n : Nat) (s r : Str), takeBytes n s = some r → ∀ c ∈ r, c ∈ s
  | n, [], r, h, c, hc => by
    simp only [takeBytes] at h
    split at h
    · cases h; exact hc
    · cases h
  | n, x :: xs, r, h, c, hc => by
    simp only [takeBytes] at h
    split at h
    · cases h; cases hc
    · split at h
      · cases ht : takeBytes (n - utf8Len x) xs with
        | none => rw [ht] at h; cases h
        | some r' =>
          rw [ht] at h
          simp only [Option.map_some, Option.some.injEq] at h
          subst h
          rcases List.mem_cons.1 hc with rfl | hc'
          · exact List.mem_cons_self
          · exact List.mem_cons_of_mem _ (takeBytes_subset _ xs r' ht c hc')
      · cases h

/-- Every character of `s.get(a..b)` is a character of `s`. -/
theorem sliceBytes_subset {s w : Str} {a b : Nat} (h : sliceBytes s a b = some w) : ∀ c ∈ w, c ∈ s := by
  unfold sliceBytes at h
  split at h
  · cases hd : dropBytes a s with
    | none => rw [hd] at h; cases h
    | some r =>
      rw [hd] at h
      simp only [Option.bind_some] at h
      exact fun c hc => dropBytes_subset a s r hd c (takeBytes_subset _ r w h c hc)
  · cases h

/-- In a source without carriage return the written text IS the value. -/
theorem SlicesTo.normalized_of_noCr {s : Str} {g : SpanKey → Option Span} {key : SpanKey} {w : Str}
    (hcr : '\r' ∉ s) (h : SlicesTo s g key w) : SlicesTo s g key (normalizeLineEnds w) := by
  obtain ⟨sp, hg, hs⟩ := h
  rw [normalizeLineEnds_noCr _ (fun hw => hcr (sliceBytes_subset hs _ hw))]
  exact ⟨sp, hg, hs⟩

/-- String level: every node of a tree accepted by `parse` / `parse_fragment`. -/
theorem parseString_sliced {m : Mode} {env : Env} {s : Str} {p : Parsed} (h : parseString m env s = .ok p)
    {q : Path} {v : Value} {ks : List Tree} (hat : p.tree.at? q = some (.node v ks)) :
    NodeSliced s (lexMode m s).1 p.spans.get p.env (scopeAt p.tree baseStack q) q v ks := by
  have hd := build_desc h
  have := desc_at q p.tree baseStack [] v ks hd hat
  rw [List.nil_append] at this
  exact nodeFacts_sliced (lexMode_facts m s) this

end XotModel
