/-
  XotModel.Lemmas.SpanSliceNode — `NodeFacts` (which token made the node, which spans are recorded)
  read on the source text: every recorded span SLICES the source to the item's spelling, and the
  node's value is the decoding of that slice.  `NodeSliced` collects the statements per node kind;
  Props/C17.lean restates them one by one.
-/
import XotModel.Lemmas.SpanDecodeRun

namespace XotModel

/-- The recorded span under `key` slices the source to `txt`. -/
def SlicesTo (s : Str) (g : SpanKey → Option Span) (key : SpanKey) (txt : Str) : Prop :=
  ∃ sp, g key = some sp ∧ sliceBytes s sp.start sp.stop = some txt

/-- An attribute child `(n, v)` of the element at `q`. -/
def AttrSliced (s : Str) (ts : List Token) (g : SpanKey → Option Span) (env : Env) (scope : NsStack) (q : Path)
    (n : Nat) (v : Str) : Prop :=
  ∃ pfx loc val wsp, Token.attribute pfx loc val wsp ∈ ts ∧
    SlicesTo s g ⟨q, .attributeName n⟩ (tokQName pfx.text loc.text) ∧
    (∃ sp, g ⟨q, .attributeValue n⟩ = some sp ∧ sliceBytes s sp.start sp.stop = some val.text ∧
      ∃ a b qc, (qc = '"' ∨ qc = '\'') ∧ s = a ++ qc :: (val.text ++ qc :: b) ∧ sp.start = strLen a + 1) ∧
    (∃ raw, parseAttribute val.text = .ok raw ∧
      v = if n == Env.xmlIdName then normalizeXmlId raw else raw) ∧
    pfx.text ∈ env.prefixes ∧
    ∃ ns, env.names[n]? = some (loc.text, ns) ∧
      if env.prefixes.idxOf pfx.text = Env.emptyPrefix then ns = Env.noNamespace
      else lookupPrefix scope (env.prefixes.idxOf pfx.text) = some ns

/-- The element `id` at `q`. -/
def ElementSliced (s : Str) (ts : List Token) (g : SpanKey → Option Span) (env : Env) (scope : NsStack) (q : Path)
    (id : Nat) : Prop :=
  (∃ pfx loc wsp, Token.elementStart pfx loc wsp ∈ ts ∧
    SlicesTo s g ⟨q, .elementStart⟩ (tokQName pfx.text loc.text) ∧
    pfx.text ∈ env.prefixes ∧
    ∃ ns, env.names[id]? = some (loc.text, ns) ∧
      lookupPrefix scope (env.prefixes.idxOf pfx.text) = some ns) ∧
  ∃ e esp, Token.elementEnd e esp ∈ ts ∧ e ≠ .open ∧ SlicesTo s g ⟨q, .elementEnd⟩ esp.text ∧
    (esp.text = ['/', '>'] ∨ ∃ mid, esp.text = '<' :: '/' :: (mid ++ ['>']))

/-- The text node with value `v` at `q`. -/
def TextSliced (s : Str) (ts : List Token) (g : SpanKey → Option Span) (q : Path) (v : Str) : Prop :=
  ∃ run, run <:+: ts ∧ run ≠ [] ∧ (∀ t ∈ run, t.isCharData = true) ∧
    SlicesTo s g ⟨q, .text⟩ (runSlice run) ∧ runValue run = some v ∧
    decodeRun (startsInCdata run) (runSlice run) = some v

def CommentSliced (s : Str) (g : SpanKey → Option Span) (q : Path) (v : Str) : Prop :=
  SlicesTo s g ⟨q, .comment⟩ v

def PiSliced (s : Str) (g : SpanKey → Option Span) (env : Env) (q : Path) (id : Nat) (d : Option Str) : Prop :=
  ∃ target, SlicesTo s g ⟨q, .piTarget⟩ target ∧ env.names[id]? = some (target, Env.noNamespace) ∧
    ∀ c, d = some c → SlicesTo s g ⟨q, .piContent⟩ c

/-- Per node kind. -/
def NodeSliced (s : Str) (ts : List Token) (g : SpanKey → Option Span) (env : Env) (scope : NsStack) (q : Path)
    (v : Value) (ks : List Tree) : Prop :=
  match v with
  | .element id => ElementSliced s ts g env scope q id ∧
      ∀ k ∈ ks, ∀ n w, k.value = .attribute n w → AttrSliced s ts g env scope q n w
  | .text w => TextSliced s ts g q w
  | .comment w => CommentSliced s g q w
  | .pi id d => PiSliced s g env q id d
  | _ => True

theorem slicesTo_span {s : Str} {g : SpanKey → Option Span} {key : SpanKey} {sp : StrSpan}
    (hg : g key = some sp.span) (hs : sp.SliceOf s) : SlicesTo s g key sp.text :=
  ⟨sp.span, hg, slice_of_span hs⟩

theorem attrFacts_sliced {s : Str} {ts : List Token} {g : SpanKey → Option Span} {env : Env} {scope : NsStack}
    {q : Path} {n : Nat} {v : Str} (hl : LexFacts s ts) (h : AttrFacts ts g env scope q n v) :
    AttrSliced s ts g env scope q n v := by
  obtain ⟨p, l, val, sp, hm, h1, h2, ⟨raw, hr, hv⟩, hpm, ns, hn, hif⟩ := h
  obtain ⟨hsp, qc, pre, hq, htext, hstart⟩ : NameSlice s p l ∧ _ := hl.spelled _ hm
  have hsl := hl.slices _ hm
  obtain ⟨a0, b0, hsrc, hst0⟩ := hsl.2.2.2
  refine ⟨p, l, val, sp, hm, ⟨_, h1, hsp.sliceBytes⟩,
    ⟨val.span, h2, slice_of_span hsl.2.2.1, a0 ++ pre, b0, qc, hq, ?_, ?_⟩,
    ⟨raw, parseContentGo_base hr, hv⟩, hpm, ns, hn, ?_⟩
  · rw [hsrc, htext]; simp
  · show val.start = strLen (a0 ++ pre) + 1
    rw [hstart, hst0, strLen_append]
  · simpa using hif

theorem nodeFacts_sliced {s : Str} {ts : List Token} {g : SpanKey → Option Span} {env : Env} {scope : NsStack}
    {q : Path} {v : Value} {ks : List Tree} (hl : LexFacts s ts) (h : NodeFacts ts g env scope q v ks) :
    NodeSliced s ts g env scope q v ks := by
  cases v with
  | element id =>
    obtain ⟨⟨⟨p, l, sp, hm, h1, hpm, ns, hn, hif⟩, hattrs⟩, e, esp, hem, hne, h2⟩ := h
    have hsp : NameSlice s p l := hl.spelled _ hm
    refine ⟨⟨⟨p, l, sp, hm, ⟨_, h1, hsp.sliceBytes⟩, hpm, ns, hn, by simpa using hif⟩, e, esp, hem, hne, ?_, ?_⟩,
      fun k hk n w hkv => attrFacts_sliced hl (hattrs k hk n w hkv)⟩
    · exact slicesTo_span h2 (Token.wholeSpan_all _ (hl.slices _ hem))
    · have := hl.spelled _ hem
      cases e with
      | «open» => exact absurd rfl hne
      | empty => exact .inl this
      | close p' l' => exact .inr this.2
  | text w =>
    obtain ⟨run, sp, hin, hne, hall, hadj, hok, hv, hg, hsl⟩ := TextFacts.slice hl h
    refine ⟨run, hin, hne, fun t ht => (hall t ht).1, ⟨sp, hg, hsl⟩, hv, ?_⟩
    rw [decodeRun_runSlice ⟨hall, hadj⟩, hv]
  | comment w =>
    obtain ⟨t, sp, hm, hg, rfl⟩ := h
    exact slicesTo_span hg (hl.slices _ hm).1
  | pi id d =>
    obtain ⟨tg, c, sp, hm, h1, h2, h3, h4⟩ := h
    have hsl := hl.slices _ hm
    refine ⟨tg.text, slicesTo_span h1 hsl.1, h2, fun c' hc' => ?_⟩
    subst h3
    cases c with
    | none => cases hc'
    | some cs =>
      simp only [Option.map_some, Option.some.injEq] at hc'
      subst hc'
      exact slicesTo_span (h4 cs rfl) (hsl.2.1 cs rfl)
  | document => trivial
  | «attribute» n w => trivial
  | «namespace» p n => trivial

/-- String level: every node of a tree accepted by `parse` / `parse_fragment`. -/
theorem parseString_sliced {m : Mode} {env : Env} {s : Str} {p : Parsed} (h : parseString m env s = .ok p)
    {q : Path} {v : Value} {ks : List Tree} (hat : p.tree.at? q = some (.node v ks)) :
    NodeSliced s (lexMode m s).1 p.spans.get p.env (scopeAt p.tree baseStack q) q v ks := by
  have hd := build_desc h
  have := desc_at q p.tree baseStack [] v ks hd hat
  rw [List.nil_append] at this
  exact nodeFacts_sliced (lexMode_facts m s) this

end XotModel
