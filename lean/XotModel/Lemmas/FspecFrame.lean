/-
  FspecFrame — the frame: an edit of one child list does not change value, parent or position
  (the handles of the siblings to the left and to the right) of any node whose parent is
  another node; lookups through the specification's list functions.
-/
import XotModel.Lemmas.FspecSamePrepend

namespace XotModel
open HTree Spec

/-- What identifies the place of a node: parent, handles of the left siblings, own value,
    handles of the right siblings. -/
def HTree.Ctx.shape (c : Ctx) : Nat × List Nat × Value × List Nat :=
  (c.parent, c.left.map (·.handle), c.self.value, c.right.map (·.handle))

theorem map_handle_kidMap {φ : HTree → HTree} (hφ : KidMap φ) (L : List HTree) :
    (L.map φ).map (·.handle) = L.map (·.handle) := by
  rw [List.map_map]
  apply List.map_congr_left
  intro k _
  exact hφ.handle k

/-- One edit: a node under another parent keeps its place and value. -/
theorem SiteAt.frame {f : Forest} {s : Nat} {vs : Value} {L : List HTree} (ss : SiteAt f s vs L)
    (g : List HTree → List HTree) (hnd : (f.editAt (some s) g).allHandles.Nodup)
    {x : Nat} {cx : Ctx} (hx : f.ctx? x = some cx) (hne : cx.parent ≠ s)
    (hlook : findList? cx.parent (g L) = findList? cx.parent L) :
    ∃ cx', (f.editAt (some s) g).ctx? x = some cx' ∧ cx'.shape = cx.shape := by
  obtain ⟨e0, vx, sx⟩ := SiteAt.of_ctx ss.nd hx
  have hget := Forest.get?_editAt_other (g := g) hne ss.nd (by
    intro v' L' e
    rw [ss.kids] at e
    have e' := Option.some.inj e
    injection e' with _ _ e3
    subst e3
    exact hlook)
  rw [sx.kids] at hget
  simp only [Option.map_some] at hget
  rw [editAt_node, if_neg hne, List.map_append, List.map_cons] at hget
  have hctx := Forest.ctx_of_kids hnd hget
  rw [editAt_handle, e0] at hctx
  refine ⟨_, hctx, ?_⟩
  have hk := kidMap_editAt s g
  simp only [HTree.Ctx.shape, map_handle_kidMap hk, hk.value]

/-- A parentless tree stays parentless under an edit of a child list. -/
theorem frame_root {f : Forest} {s : Nat} (g : List HTree → List HTree)
    (hnd : (f.editAt (some s) g).allHandles.Nodup) {x : Nat} (hx : f.isRoot x = true) :
    (f.editAt (some s) g).ctx? x = none := by
  apply Forest.ctx_none_of_root hnd
  unfold Forest.isRoot at hx ⊢
  rw [Forest.editAt_some_roots, List.any_map]
  simpa [Function.comp, editAt_handle] using hx

/-! ### Handles through `mergeRuns` -/

theorem handles_join_sublist (keep : Keep) (a b : HTree) (x y : Str) :
    (handles (join keep a b x y)).Sublist (handles a ++ handles b) := by
  unfold join
  split
  · rw [setValue_handles]; exact List.sublist_append_left _ _
  · rw [setValue_handles]; exact List.sublist_append_right _ _

theorem handlesList_mergeInto_sublist (keep : Keep) : ∀ (rest : List HTree) (cur : HTree),
    (handlesList (mergeInto keep cur rest)).Sublist (handles cur ++ handlesList rest)
  | [], cur => by rw [mergeInto_nil, handlesList_cons, handlesList_nil]; exact List.Sublist.refl _
  | b :: rest, cur => by
    by_cases h : cur.value.isText = true ∧ b.value.isText = true
    · obtain ⟨x, hx⟩ := isText_iff_textData.1 h.1
      obtain ⟨y, hy⟩ := isText_iff_textData.1 h.2
      rw [mergeInto_cons_text (textData_some hx) (textData_some hy), handlesList_cons, ← List.append_assoc]
      exact (handlesList_mergeInto_sublist keep rest _).trans
        ((handles_join_sublist keep cur b x y).append (List.Sublist.refl _))
    · rw [mergeInto_cons_other h, handlesList_cons, handlesList_cons]
      exact (List.Sublist.refl _).append (handlesList_mergeInto_sublist keep rest b)

theorem handlesList_mergeRuns_sublist (keep : Keep) (L : List HTree) :
    (handlesList (mergeRuns keep L)).Sublist (handlesList L) := by
  cases L with
  | nil => exact List.Sublist.refl _
  | cons a rest => rw [handlesList_cons]; exact handlesList_mergeInto_sublist keep rest a

/-! ### Lookups through `mergeRuns` -/

theorem find?_join {keep : Keep} {a b : HTree} {x y : Str} {z : Nat} (ha : a.kids = []) (hb : b.kids = [])
    (hza : a.handle ≠ z) (hzb : b.handle ≠ z) : find? z (join keep a b x y) = none := by
  unfold join
  split
  · cases a with
    | node h v ks =>
      simp only [HTree.kids] at ha; subst ha
      simp only [HTree.handle] at hza
      simp [HTree.setValue, find?_node, hza, findList?_nil]
  · cases b with
    | node h v ks =>
      simp only [HTree.kids] at hb; subst hb
      simp only [HTree.handle] at hzb
      simp [HTree.setValue, find?_node, hzb, findList?_nil]

theorem find?_leaf {a : HTree} {z : Nat} (ha : a.kids = []) (hza : a.handle ≠ z) : find? z a = none := by
  cases a with
  | node h v ks =>
    simp only [HTree.kids] at ha; subst ha
    simp only [HTree.handle] at hza
    rw [find?_node, if_neg hza, findList?_nil]

/-- A handle that is not a text leaf of the list is found in the merged list as before. -/
theorem findList?_mergeInto (keep : Keep) {z : Nat} : ∀ (rest : List HTree) (cur : HTree),
    (∀ k ∈ cur :: rest, k.value.isText = true → k.kids = [] ∧ k.handle ≠ z) →
    findList? z (mergeInto keep cur rest) = findList? z (cur :: rest)
  | [], cur => fun _ => rfl
  | b :: rest, cur => by
    intro h
    by_cases hb : cur.value.isText = true ∧ b.value.isText = true
    · obtain ⟨x, hx⟩ := isText_iff_textData.1 hb.1
      obtain ⟨y, hy⟩ := isText_iff_textData.1 hb.2
      obtain ⟨ca, cz⟩ := h cur List.mem_cons_self hb.1
      obtain ⟨ba, bz⟩ := h b (by simp) hb.2
      rw [mergeInto_cons_text (textData_some hx) (textData_some hy)]
      have hjk : (join keep cur b x y).kids = [] := by
        unfold join; split <;> rw [setValue_kids] <;> assumption
      have hjh : (join keep cur b x y).handle ≠ z := by
        unfold join; split <;> rw [setValue_handle] <;> assumption
      rw [findList?_mergeInto keep rest (join keep cur b x y) (by
        intro k hk hkt
        cases List.mem_cons.1 hk with
        | inl e => rw [e]; exact ⟨hjk, hjh⟩
        | inr e => exact h k (by simp [e]) hkt)]
      rw [findList?_cons, findList?_cons, findList?_cons, find?_leaf hjk hjh, find?_leaf ca cz, find?_leaf ba bz]
      rfl
    · rw [mergeInto_cons_other hb, findList?_cons, findList?_cons,
        findList?_mergeInto keep rest b (fun k hk => h k (List.mem_cons_of_mem _ hk))]

theorem findList?_mergeRuns (keep : Keep) {z : Nat} {L : List HTree}
    (h : ∀ k ∈ L, k.value.isText = true → k.kids = [] ∧ k.handle ≠ z) :
    findList? z (mergeRuns keep L) = findList? z L := by
  cases L with
  | nil => rfl
  | cons a rest => exact findList?_mergeInto keep rest a h

end XotModel

namespace XotModel
open HTree Spec

/-! ### Counting handles through an edit -/

mutual
  theorem count_editAt {p : Nat} {v : Value} {L : List HTree} {g : List HTree → List HTree} (z : Nat) :
      ∀ t : HTree, (handles t).Nodup → find? p t = some (.node p v L) →
      (handles (HTree.editAt p g t)).count z + (handlesList L).count z =
        (handles t).count z + (handlesList (g L)).count z
    | .node h v' ks => by
      intro nd e
      obtain ⟨n1, n2⟩ := nodup_handles_node nd
      rw [find?_node] at e
      rw [editAt_node]
      by_cases hh : h = p
      · rw [if_pos hh] at e
        have e' := Option.some.inj e
        injection e' with _ _ e3
        subst e3
        rw [if_pos hh, handles_node, handles_node, List.count_cons, List.count_cons]
        omega
      · rw [if_neg hh] at e
        rw [if_neg hh, handles_node, handles_node, List.count_cons, List.count_cons]
        have := count_editAt_list (g := g) z ks n2 e
        omega
  theorem count_editAt_list {p : Nat} {v : Value} {L : List HTree} {g : List HTree → List HTree} (z : Nat) :
      ∀ ks : List HTree, (handlesList ks).Nodup → findList? p ks = some (.node p v L) →
      (handlesList (ks.map (HTree.editAt p g))).count z + (handlesList L).count z =
        (handlesList ks).count z + (handlesList (g L)).count z
    | [] => by intro _ e; rw [findList?_nil] at e; cases e
    | k :: ks => by
      intro nd e
      obtain ⟨n1, n2, n3⟩ := nodup_handlesList_cons nd
      rw [List.map_cons, handlesList_cons, handlesList_cons, List.count_append, List.count_append]
      cases hk : find? p k with
      | some t =>
        rw [findList?_cons_some hk] at e
        have e' := Option.some.inj e
        subst e'
        have hpn : p ∉ handlesList ks := n3 p (mem_of_find?_some hk)
        rw [map_editAt_of_not_mem ks hpn]
        have := count_editAt (g := g) z k n1 hk
        omega
      | none =>
        rw [findList?_cons_none hk] at e
        have hpk : p ∉ handles k := by
          intro hm
          have := find?_isSome_of_mem k hm
          rw [hk] at this; cases this
        rw [editAt_of_not_mem k hpk]
        have := count_editAt_list (g := g) z ks n2 e
        omega
end

/-- Handles after one edit: the old child list's handles are exchanged for the new one's. -/
theorem SiteAt.count {f : Forest} {p : Nat} {v : Value} {L : List HTree} (s : SiteAt f p v L)
    (g : List HTree → List HTree) (z : Nat) :
    (f.editAt (some p) g).allHandles.count z + (handlesList L).count z =
      f.allHandles.count z + (handlesList (g L)).count z :=
  count_editAt_list z f.roots s.nd s.kids

/-- The edit keeps handles distinct if the new child list uses each handle at most as often as
    the forest can afford. -/
theorem SiteAt.nodup_of_count {f : Forest} {p : Nat} {v : Value} {L : List HTree} (s : SiteAt f p v L)
    (g : List HTree → List HTree)
    (h : ∀ z, f.allHandles.count z + (handlesList (g L)).count z ≤ 1 + (handlesList L).count z) :
    (f.editAt (some p) g).allHandles.Nodup := by
  rw [List.nodup_iff_count]
  intro z
  have := s.count g z
  have := h z
  omega

theorem count_handles_mid (z : Nat) (l : List HTree) (t : HTree) (r : List HTree) :
    (handlesList (l ++ t :: r)).count z = (handlesList (l ++ r)).count z + (handles t).count z := by
  simp only [fs_handlesList_append, handlesList_cons, List.count_append]
  omega

/-- An insertion adds at most the handles of `t`. -/
theorem count_insert_le (z : Nat) (dest : Dest) (t : HTree) (L : List HTree) :
    (handlesList (dest.insert t L)).count z ≤ (handlesList L).count z + (handles t).count z := by
  have hrt : ∀ (r : Nat) (F : HTree → List HTree),
      (∀ k, (handlesList (F k)).count z ≤ (handles k).count z + (handles t).count z) →
      (handlesList (replaceTop r F L)).count z ≤ (handlesList L).count z + (handles t).count z := by
    intro r F hF
    induction L with
    | nil => simp [replaceTop_nil, handlesList_nil]
    | cons k ks ih =>
      rw [replaceTop_cons]
      split
      · rw [fs_handlesList_append, handlesList_cons, List.count_append, List.count_append]
        have := hF k
        omega
      · rw [handlesList_cons, handlesList_cons, List.count_append, List.count_append]
        omega
  cases dest with
  | lastChildOf p =>
    simp only [Dest.insert, insertLast, fs_handlesList_append, handlesList_cons, handlesList_nil, List.count_append,
      List.append_nil]
    omega
  | firstNormalChildOf p =>
    simp only [Dest.insert]
    rw [insertFirstNormal_eq]
    have := List.takeWhile_append_dropWhile (p := abn) (l := L)
    conv => rhs; rw [← this]
    simp only [fs_handlesList_append, handlesList_cons, List.count_append]
    omega
  | after r =>
    simp only [Dest.insert, insertAfterTop]
    apply hrt
    intro k
    simp only [handlesList_cons, handlesList_nil, List.count_append, List.append_nil]
    omega
  | before r =>
    simp only [Dest.insert, insertBeforeTop]
    apply hrt
    intro k
    simp only [handlesList_cons, handlesList_nil, List.count_append, List.append_nil]
    omega

end XotModel

namespace XotModel
open HTree Spec

/-! ### Lookups through the specification's list functions -/

theorem findList?_replaceTop_insert {z r : Nat} {t : HTree} (hz : find? z t = none) (after : Bool) : ∀ L : List HTree,
    findList? z (replaceTop r (fun k => if after then [k, t] else [t, k]) L) = findList? z L
  | [] => rfl
  | k :: ks => by
    rw [replaceTop_cons]
    split
    · cases after
      · simp only [Bool.false_eq_true, if_false, List.cons_append, List.nil_append]
        rw [findList?_cons, hz]; rfl
      · simp only [if_true, List.cons_append, List.nil_append]
        rw [findList?_cons, findList?_cons, findList?_cons, hz]; rfl
    · rw [findList?_cons, findList?_cons, findList?_replaceTop_insert hz after ks]

theorem findList?_insert {z : Nat} {t : HTree} (hz : z ∉ handles t) (dest : Dest) (L : List HTree) :
    findList? z (dest.insert t L) = findList? z L := by
  have hzt : find? z t = none := find?_eq_none t hz
  cases dest with
  | lastChildOf p =>
    simp only [Dest.insert, insertLast]
    rw [findList?_append, findList?_cons, hzt, findList?_nil]
    cases findList? z L <;> rfl
  | firstNormalChildOf p =>
    simp only [Dest.insert]
    rw [insertFirstNormal_eq, findList?_append, findList?_cons, hzt]
    have := List.takeWhile_append_dropWhile (p := abn) (l := L)
    conv => rhs; rw [← this]
    rw [findList?_append]
    rfl
  | after r =>
    simp only [Dest.insert, insertAfterTop]
    exact findList?_replaceTop_insert hzt true L
  | before r =>
    simp only [Dest.insert, insertBeforeTop]
    exact findList?_replaceTop_insert hzt false L

/-- Optional merge (consolidation on / off). -/
def mergeOpt (b : Bool) (keep : Keep) : List HTree → List HTree := if b then mergeRuns keep else id

theorem mergeOpt_sublist (b : Bool) (keep : Keep) (L : List HTree) :
    (handlesList (mergeOpt b keep L)).Sublist (handlesList L) := by
  cases b
  · exact List.Sublist.refl _
  · exact handlesList_mergeRuns_sublist keep L

theorem findList?_mergeOpt (b : Bool) (keep : Keep) {z : Nat} {L : List HTree}
    (h : ∀ k ∈ L, k.value.isText = true → k.kids = [] ∧ k.handle ≠ z) :
    findList? z (mergeOpt b keep L) = findList? z L := by
  cases b
  · rfl
  · exact findList?_mergeRuns keep h

theorem mergeAt_eq_mergeOpt (f : Forest) (keep : Keep) (p : Nat) :
    f.mergeAt keep (some p) = f.editAt (some p) (mergeOpt f.consolidation keep) := by
  rw [mergeAt_some]
  cases hc : f.consolidation
  · simp only [Bool.false_eq_true, if_false, mergeOpt]
    exact (Forest.editAt_id f (some p)).symm
  · simp [mergeOpt]

/-- A node that has a child is not a text leaf of its sibling list. -/
theorem not_text_leaf_of_parent {f : Forest} {x : Nat} {cx : Ctx} (nd : f.allHandles.Nodup)
    (hx : f.ctx? x = some cx) {k : HTree} (hk : f.get? k.handle = some k) (hleaf : k.kids = []) :
    k.handle ≠ cx.parent := by
  intro e
  obtain ⟨_, v, e1⟩ := Forest.kids_of_ctx nd hx
  rw [← e, hk] at e1
  have := Option.some.inj e1
  rw [this] at hleaf
  simp only [HTree.kids] at hleaf
  cases hl : cx.left <;> rw [hl] at hleaf <;> cases hleaf

end XotModel

namespace XotModel
open HTree Spec

/-- Dropping a parentless tree that does not hold `x` leaves the context of `x` alone. -/
theorem ctx_dropRoot {x n : Nat} : ∀ rs : List HTree, (∀ k ∈ rs, k.handle = n → x ∉ handles k) →
    (dropTop n rs).findSome? (ctxBelow x) = rs.findSome? (ctxBelow x)
  | [] => fun _ => rfl
  | k :: ks => by
    intro h
    rw [dropTop_cons]
    have ih := ctx_dropRoot ks (fun k' hk' => h k' (List.mem_cons_of_mem _ hk'))
    by_cases hk : k.handle = n
    · rw [if_pos hk, ih, List.findSome?_cons, ctxBelow_of_not_mem k (h k List.mem_cons_self hk)]
    · rw [if_neg hk, List.findSome?_cons, List.findSome?_cons, ih]

/-- The parentless tree with handle `c` is `t`. -/
theorem root_is {f : Forest} {c : Nat} {t : HTree} (nd : f.allHandles.Nodup) (hc : f.get? c = some t) :
    ∀ k ∈ f.roots, k.handle = c → k = t := by
  intro k hk hkc
  obtain ⟨A, B, hAB⟩ := List.append_of_mem hk
  unfold Forest.allHandles at nd
  rw [hAB] at nd
  obtain ⟨m1, _⟩ := nodup_mid nd
  have : f.get? k.handle = some k := by
    rw [Forest.get?_eq, hAB]
    exact findList?_mid (m1 _ (fs_handle_mem_handles k))
  rw [hkc, hc] at this
  exact (Option.some.inj this).symm

theorem count_dropTop_root {f : Forest} {c : Nat} {t : HTree} (nd : f.allHandles.Nodup) (hc : f.get? c = some t)
    (hroot : f.isRoot c = true) (z : Nat) :
    (handlesList (dropTop c f.roots)).count z + (handles t).count z = f.allHandles.count z := by
  unfold Forest.isRoot at hroot
  obtain ⟨k, hk, hkc⟩ := List.any_eq_true.1 hroot
  have hkc' : k.handle = c := by simpa using hkc
  have hkt := root_is nd hc k hk hkc'
  subst hkt
  obtain ⟨A, B, hAB⟩ := List.append_of_mem hk
  unfold Forest.allHandles at nd ⊢
  rw [hAB] at nd ⊢
  obtain ⟨tl, tr⟩ := tops_ne_of_nodup nd
  rw [dropTop_mid hkc' (fun k' h' => hkc' ▸ tl k' h') (fun k' h' => hkc' ▸ tr k' h'), count_handles_mid]

/-- The second step of a move's frame: inserting `t` into the child list of `q` in `Y` and
    merging there. -/
theorem frame_insert_step {Y : Forest} {keep : Keep} {dest : Dest} {t : HTree} {q : Nat} {vq : Value}
    {LY : List HTree} (sY : SiteAt Y q vq LY)
    (hcount : ∀ z, Y.allHandles.count z + (handles t).count z ≤ 1)
    {x : Nat} {cx : Ctx} (hx : Y.ctx? x = some cx) (hne : cx.parent ≠ q)
    (hleaf : ∀ k ∈ LY, k.value.isText = true → k.kids = [] ∧ k.handle ≠ cx.parent)
    (hleaft : t.value.isText = true → t.kids = [] ∧ t.handle ≠ cx.parent)
    (hpt : cx.parent ∉ handles t) :
    ∃ cx', ((Y.editAt (some q) (dest.insert t)).mergeAt keep (some q)).ctx? x = some cx' ∧ cx'.shape = cx.shape := by
  rw [mergeAt_eq_mergeOpt, Forest.editAt_consolidation, Forest.editAt_editAt]
  apply sY.frame _ _ hx hne
  · simp only [Function.comp]
    rw [findList?_mergeOpt, findList?_insert hpt]
    intro k hk hkt
    cases mem_insert hk with
    | inl e => rw [e] at hkt ⊢; exact hleaft hkt
    | inr e => exact hleaf k e hkt
  · apply sY.nodup_of_count
    intro z
    simp only [Function.comp]
    have h1 := (mergeOpt_sublist Y.consolidation keep (dest.insert t LY)).count_le z
    have h2 := count_insert_le z dest t LY
    have h3 := hcount z
    omega

end XotModel

namespace XotModel
open HTree Spec

theorem specRemove_root {f : Forest} {keep : Keep} {n : Nat} (h : f.parent? n = none) :
    specRemove keep n f = f.editAt none (dropTop n) := by
  unfold specRemove; rw [h]; rfl

theorem specRemove_kid {f : Forest} {keep : Keep} {n p : Nat} (h : f.parent? n = some p) :
    specRemove keep n f = f.editAt (some p) (mergeOpt f.consolidation keep ∘ dropTop n) := by
  unfold specRemove
  rw [h, mergeAt_eq_mergeOpt, Forest.editAt_consolidation, Forest.editAt_editAt]

/-- Handles after `specRemove`: those of the removed subtree are gone (and at most one merged text node). -/
theorem count_specRemove {f : Forest} {keep : Keep} {n : Nat} {t : HTree} (nd : f.allHandles.Nodup)
    (hg : f.get? n = some t) (z : Nat) :
    (specRemove keep n f).allHandles.count z + (handles t).count z ≤ f.allHandles.count z := by
  rcases Forest.root_or_ctx hg with hroot | ⟨c, hctx⟩
  · rw [specRemove_root (Forest.parent?_of_no_ctx (Forest.ctx_none_of_root nd hroot))]
    exact Nat.le_of_eq (count_dropTop_root nd hg hroot z)
  · obtain ⟨e0, v, so⟩ := SiteAt.of_ctx nd hctx
    have hself : c.self = t := by
      have := Forest.get?_of_ctx nd hctx
      rw [hg] at this
      exact (Option.some.inj this).symm
    obtain ⟨p, l, k, r⟩ := c
    simp only at e0 so hself
    subst hself
    subst e0
    have hpar : f.parent? k.handle = some p := Forest.parent?_of_ctx hctx
    rw [specRemove_kid hpar]
    obtain ⟨ndL, _⟩ := so.nodupKids
    obtain ⟨tl, tr⟩ := tops_ne_of_nodup ndL
    have h1 := so.count (mergeOpt f.consolidation keep ∘ dropTop k.handle) z
    simp only [Function.comp] at h1
    rw [dropTop_mid rfl tl tr] at h1
    have h2 := (mergeOpt_sublist f.consolidation keep (l ++ r)).count_le z
    have h3 := count_handles_mid z l k r
    omega

/-- Frame of `specRemove` (and of the first half of a move). -/
theorem frame_specRemove {f : Forest} {keep : Keep} {n : Nat} {t : HTree} (inv : f.Inv)
    (hg : f.get? n = some t) {x : Nat} {cx : Ctx} (hx : f.ctx? x = some cx)
    (h1 : some cx.parent ≠ f.parent? n) (h3 : cx.parent ∉ handles t) (h4 : x ∉ handles t) :
    ∃ cx', (specRemove keep n f).ctx? x = some cx' ∧ cx'.shape = cx.shape := by
  have nd := inv.nodup
  rcases Forest.root_or_ctx hg with hroot | ⟨c, hctx⟩
  · rw [specRemove_root (Forest.parent?_of_no_ctx (Forest.ctx_none_of_root nd hroot))]
    refine ⟨cx, ?_, rfl⟩
    show (dropTop n f.roots).findSome? (ctxBelow x) = some cx
    rw [ctx_dropRoot f.roots (by
      intro k hk hkn
      rw [root_is nd hg k hk hkn]; exact h4)]
    exact hx
  · obtain ⟨e0, v, so⟩ := SiteAt.of_ctx nd hctx
    have hself : c.self = t := by
      have := Forest.get?_of_ctx nd hctx
      rw [hg] at this
      exact (Option.some.inj this).symm
    obtain ⟨p, l, k, r⟩ := c
    simp only at e0 so hself
    subst hself
    subst e0
    have hpar : f.parent? k.handle = some p := Forest.parent?_of_ctx hctx
    rw [hpar] at h1
    have hne : cx.parent ≠ p := fun e => h1 (by rw [e])
    rw [specRemove_kid hpar]
    obtain ⟨ndL, _⟩ := so.nodupKids
    obtain ⟨tl, tr⟩ := tops_ne_of_nodup ndL
    have hleaf := so.leaf inv.valid
    apply so.frame _ _ hx hne
    · simp only [Function.comp]
      rw [findList?_mergeOpt, findList?_dropTop]
      · intro k' hk' hkc
        have : k' = k := by
          cases List.mem_append.1 hk' with
          | inl h => exact absurd hkc (tl k' h)
          | inr h =>
            cases List.mem_cons.1 h with
            | inl h' => exact h'
            | inr h' => exact absurd hkc (tr k' h')
        rw [this]; exact h3
      · intro k' hk' hkt
        rw [dropTop_mid rfl tl tr] at hk'
        have hk'L : k' ∈ l ++ k :: r := by
          cases List.mem_append.1 hk' with
          | inl h => exact List.mem_append_left _ h
          | inr h => exact List.mem_append_right _ (List.mem_cons_of_mem _ h)
        have hkl := hleaf k' hk'L hkt
        refine ⟨hkl, ?_⟩
        obtain ⟨A, B, hAB⟩ := List.append_of_mem hk'L
        have so' : SiteAt f p v (A ++ k' :: B) := hAB ▸ so
        exact not_text_leaf_of_parent nd hx so'.getKid hkl
    · apply Forest.nodup_editAt nd
      intro L
      exact (mergeOpt_sublist _ _ _).trans (handlesList_dropTop_sublist _ _)

/-- **Frame of a move**: a node whose parent is neither the old nor the new parent of the moved
    subtree and that does not lie in the moved subtree keeps value, parent and position. -/
theorem frame_specMove {f : Forest} {keep : Keep} {dest : Dest} {c : Nat} {t : HTree} {q : Nat} {vq : Value}
    {Lq : List HTree} (inv : f.Inv) (norm : f.Normal) (hkeep : ∀ a b, a ≠ c → keep a b = true)
    (hgc : f.get? c = some t) (sq : SiteAt f q vq Lq) (hqt : q ∉ handles t) (hvq : vq.isText = false)
    (hocc : dest.occupiedBy f c = false) (hsite : dest.site f = some q)
    {x : Nat} {cx : Ctx} (hx : f.ctx? x = some cx)
    (h1 : cx.parent ≠ q) (h2 : some cx.parent ≠ f.parent? c) (h3 : cx.parent ∉ handles t) (h4 : x ∉ handles t) :
    ∃ cx', (specMove keep dest c f).ctx? x = some cx' ∧ cx'.shape = cx.shape := by
  have nd := inv.nodup
  have htc : t.handle = c := (findList?_some f.roots t hgc).1
  have hleaft : t.value.isText = true → t.kids = [] ∧ t.handle ≠ cx.parent := by
    intro ht
    exact ⟨leaf_of_text inv.valid hgc ht, fun e => h3 (e ▸ fs_handle_mem_handles t)⟩
  have hleafq : ∀ k ∈ Lq, k.value.isText = true → k.kids = [] ∧ k.handle ≠ cx.parent := by
    intro k hk hkt
    have hkl := sq.leaf inv.valid k hk hkt
    obtain ⟨A, B, hAB⟩ := List.append_of_mem hk
    have sq' : SiteAt f q vq (A ++ k :: B) := hAB ▸ sq
    exact ⟨hkl, not_text_leaf_of_parent nd hx sq'.getKid hkl⟩
  cases hpar : f.parent? c with
  | none =>
    -- the moved node is a parentless tree
    have hno : f.ctx? c = none := by
      cases h : f.ctx? c with
      | none => rfl
      | some cc => rw [Forest.parent?_of_ctx h] at hpar; cases hpar
    obtain ⟨cx1, hx1, hs1⟩ := frame_specRemove (keep := keep) inv hgc hx (by rw [hpar]; simp) h3 h4
    have F := far_root (keep := keep) hgc hno sq hqt
    rw [F.spec dest hocc hsite (fun ψ hk hψ => natFor_insert hk hψ dest), ← specRemove_root hpar]
    have sY : SiteAt (specRemove keep c f) q vq Lq := by
      rw [specRemove_root hpar]; exact sq.dropRoot hgc hqt
    have hp1 : cx1.parent = cx.parent := congrArg Prod.fst hs1
    obtain ⟨cx', h', hs'⟩ := frame_insert_step (keep := keep) (dest := dest) (t := t) sY
      (fun z => by
        have := count_specRemove (keep := keep) nd hgc z
        have := (List.nodup_iff_count.1 nd) z
        omega) hx1 (by rw [hp1]; exact h1) (by rw [hp1]; exact hleafq) (by rw [hp1]; exact hleaft)
      (by rw [hp1]; exact h3)
    exact ⟨cx', h', hs'.trans hs1⟩
  | some po =>
    rw [hpar] at h2
    have hne_po : cx.parent ≠ po := fun e => h2 (by rw [e])
    cases hctx : f.ctx? c with
    | none => rw [Forest.parent?_of_no_ctx hctx] at hpar; cases hpar
    | some cc =>
      obtain ⟨e0, vo, so⟩ := SiteAt.of_ctx nd hctx
      have hself : cc.self = t := by
        have := Forest.get?_of_ctx nd hctx
        rw [hgc] at this
        exact (Option.some.inj this).symm
      obtain ⟨po', l, k, r⟩ := cc
      simp only at e0 so hself
      subst hself
      subst e0
      have hpo' : po' = po := by
        rw [Forest.parent?_of_ctx hctx] at hpar
        exact Option.some.inj hpar
      subst hpo'
      by_cases hpq : po' = q
      · -- same child list
        subst hpq
        have F := far_same (keep := keep) so
        rw [F.spec dest hocc hsite (fun ψ hk hψ => natFor_insert hk hψ dest)]
        obtain ⟨ndL, _⟩ := so.nodupKids
        obtain ⟨tl, tr⟩ := tops_ne_of_nodup ndL
        have hdrop : dropTop k.handle (l ++ k :: r) = l ++ r := dropTop_mid rfl tl tr
        have hleafo := so.leaf inv.valid
        obtain ⟨cx1, hx1, hs1⟩ := so.frame (dropTop k.handle)
          (Forest.nodup_editAt nd (fun L => handlesList_dropTop_sublist _ L)) hx h1
          (findList?_dropTop _ (by
            intro k' hk' hkc
            have : k' = k := by
              cases List.mem_append.1 hk' with
              | inl h => exact absurd hkc (tl k' h)
              | inr h =>
                cases List.mem_cons.1 h with
                | inl h' => exact h'
                | inr h' => exact absurd hkc (tr k' h')
            rw [this]; exact h3))
        have hp1 : cx1.parent = cx.parent := congrArg Prod.fst hs1
        have sY : SiteAt (f.editAt (some po') (dropTop k.handle)) po' vo (l ++ r) := by
          have := F.ysite; rw [List.map_id] at this; exact this
        obtain ⟨cx', h', hs'⟩ := frame_insert_step (keep := keep) (dest := dest) (t := k) sY
          (fun z => by
            have h1 := so.count (dropTop k.handle) z
            rw [hdrop] at h1
            have h2 := count_handles_mid z l k r
            have := (List.nodup_iff_count.1 nd) z
            omega) hx1 (by rw [hp1]; exact h1)
          (by
            rw [hp1]
            intro k' hk' hkt
            have hk'L : k' ∈ l ++ k :: r := by
              cases List.mem_append.1 hk' with
              | inl h => exact List.mem_append_left _ h
              | inr h => exact List.mem_append_right _ (List.mem_cons_of_mem _ h)
            have hkl := hleafo k' hk'L hkt
            obtain ⟨A, B, hAB⟩ := List.append_of_mem hk'L
            have so' : SiteAt f po' vo (A ++ k' :: B) := hAB ▸ so
            exact ⟨hkl, not_text_leaf_of_parent nd hx so'.getKid hkl⟩)
          (by rw [hp1]; exact hleaft) (by rw [hp1]; exact h3)
        exact ⟨cx', h', hs'.trans hs1⟩
      · -- another child list
        obtain ⟨cx1, hx1, hs1⟩ := frame_specRemove (keep := keep) inv hgc hx (by rw [hpar]; exact h2) h3 h4
        obtain ⟨⟨φ, F⟩, _⟩ := far_kid (keep := keep) inv norm hkeep so sq hpq hqt hvq
        rw [F.spec dest hocc hsite (fun ψ hk hψ => natFor_insert hk hψ dest)]
        have hY : (f.editAt (some po') (dropTop k.handle)).mergeAt keep (some po') = specRemove keep k.handle f := by
          unfold specRemove; rw [hpar]
        rw [hY]
        have sY : SiteAt (specRemove keep k.handle f) q vq (Lq.map φ) := hY ▸ F.ysite
        have hp1 : cx1.parent = cx.parent := congrArg Prod.fst hs1
        obtain ⟨cx', h', hs'⟩ := frame_insert_step (keep := keep) (dest := dest) (t := k) sY
          (fun z => by
            have := count_specRemove (keep := keep) nd hgc z
            have := (List.nodup_iff_count.1 nd) z
            omega) hx1 (by rw [hp1]; exact h1)
          (by
            rw [hp1]
            intro k' hk' hkt
            obtain ⟨k0, hk0, e⟩ := List.mem_map.1 hk'
            subst e
            rw [F.kid.value] at hkt
            refine ⟨F.yleaf (sq.leaf inv.valid) _ hk' (by rw [F.kid.value]; exact hkt), ?_⟩
            rw [F.kid.handle]
            exact (hleafq k0 hk0 hkt).2)
          (by rw [hp1]; exact hleaft) (by rw [hp1]; exact h3)
        exact ⟨cx', h', hs'.trans hs1⟩

end XotModel

namespace XotModel
open HTree Spec

/-- Frame of a move, whether or not the destination is already occupied. -/
theorem frame_specMove' {f : Forest} {dest : Dest} {c : Nat} {t : HTree} {q : Nat} {vq : Value}
    {Lq : List HTree} (inv : f.Inv) (norm : f.Normal)
    (hgc : f.get? c = some t) (sq : SiteAt f q vq Lq) (hqt : q ∉ handles t) (hvq : vq.isText = false)
    (hsite : dest.site f = some q)
    {x : Nat} {cx : Ctx} (hx : f.ctx? x = some cx)
    (h1 : cx.parent ≠ q) (h2 : some cx.parent ≠ f.parent? c) (h3 : cx.parent ∉ handles t) (h4 : x ∉ handles t) :
    ∃ cx', (specMove (Keep.resident c) dest c f).ctx? x = some cx' ∧ cx'.shape = cx.shape := by
  cases hocc : dest.occupiedBy f c with
  | true =>
    refine ⟨cx, ?_, rfl⟩
    unfold specMove; rw [hocc]; exact hx
  | false =>
    exact frame_specMove inv norm (Keep.resident_spec c) hgc sq hqt hvq hocc hsite hx h1 h2 h3 h4

theorem append_frame {f : Forest} {p c : Nat} {t : HTree} (inv : f.Inv) (norm : f.Normal)
    (hok : (f.append p c).2 = .ok) (hgc : f.get? c = some t)
    {x : Nat} {cx : Ctx} (hx : f.ctx? x = some cx)
    (h1 : cx.parent ≠ p) (h2 : some cx.parent ≠ f.parent? c) (h3 : cx.parent ∉ handles t) (h4 : x ∉ handles t) :
    ∃ cx', (f.append p c).1.ctx? x = some cx' ∧ cx'.shape = cx.shape := by
  rw [append_spec (Keep.resident_spec c) inv norm hok]
  have nd := inv.nodup
  have hsc : f.structureCheck (some p) c = true := by
    cases h : f.structureCheck (some p) c with
    | true => rfl
    | false => rw [Forest.append_unfold] at hok; simp [h] at hok
  obtain ⟨vp, Lp, t', hgp, hgc', hpt, hnorm, hndoc, hvp⟩ := Forest.structureCheck_unpack nd hsc
  rw [hgc] at hgc'
  have := Option.some.inj hgc'
  subst this
  have hvq : vp.isText = false := by
    cases hvp with
    | inl h => cases vp <;> simp_all [Value.isElement, Value.isText]
    | inr h => cases vp <;> simp_all [Value.isDocument, Value.isText]
  exact frame_specMove' inv norm hgc ⟨nd, hgp⟩ hpt hvq (by simp [Dest.site, Forest.isLive_of_get hgp]) hx h1 h2 h3 h4

theorem prepend_frame {f : Forest} {p c : Nat} {t : HTree} (inv : f.Inv) (norm : f.Normal)
    (hok : (f.prepend p c).2 = .ok) (hgc : f.get? c = some t)
    {x : Nat} {cx : Ctx} (hx : f.ctx? x = some cx)
    (h1 : cx.parent ≠ p) (h2 : some cx.parent ≠ f.parent? c) (h3 : cx.parent ∉ handles t) (h4 : x ∉ handles t) :
    ∃ cx', (f.prepend p c).1.ctx? x = some cx' ∧ cx'.shape = cx.shape := by
  rw [prepend_spec inv norm hok]
  have nd := inv.nodup
  have hsc : f.structureCheck (some p) c = true := by
    cases h : f.structureCheck (some p) c with
    | true => rfl
    | false => rw [prepend_unfold] at hok; simp [h] at hok
  obtain ⟨vp, Lp, t', hgp, hgc', hpt, hnorm, hndoc, hvp⟩ := Forest.structureCheck_unpack nd hsc
  rw [hgc] at hgc'
  have := Option.some.inj hgc'
  subst this
  have hvq : vp.isText = false := by
    cases hvp with
    | inl h => cases vp <;> simp_all [Value.isElement, Value.isText]
    | inr h => cases vp <;> simp_all [Value.isDocument, Value.isText]
  exact frame_specMove' inv norm hgc ⟨nd, hgp⟩ hpt hvq (by simp [Dest.site, Forest.isLive_of_get hgp]) hx h1 h2 h3 h4

theorem insertAfter_frame {f : Forest} {r c q : Nat} {t : HTree} (inv : f.Inv) (norm : f.Normal)
    (hok : (f.insertAfter r c).2 = .ok) (hgc : f.get? c = some t) (hq : f.parent? r = some q)
    {x : Nat} {cx : Ctx} (hx : f.ctx? x = some cx)
    (h1 : cx.parent ≠ q) (h2 : some cx.parent ≠ f.parent? c) (h3 : cx.parent ∉ handles t) (h4 : x ∉ handles t) :
    ∃ cx', (f.insertAfter r c).1.ctx? x = some cx' ∧ cx'.shape = cx.shape := by
  rw [insertAfter_spec inv norm hok]
  have nd := inv.nodup
  have hsc : f.structureCheck (f.parent? r) c = true := by
    cases h : f.structureCheck (f.parent? r) c with
    | true => rfl
    | false => rw [insertAfter_unfold] at hok; simp [h] at hok
  have hsr : f.siblingReferenceCheck r c = true := by
    cases h : f.siblingReferenceCheck r c with
    | true => rfl
    | false => rw [insertAfter_unfold] at hok; simp [hsc, h] at hok
  obtain ⟨q', vq, A, kr, B, t', sq, ekr, hkrn, hrc, hgc', hqt, hnorm, hndoc, hvq⟩ := sibling_checks_unpack nd hsc hsr
  subst ekr
  rw [hgc] at hgc'
  have := Option.some.inj hgc'
  subst this
  have hq' : q' = q := by
    have := Forest.parent?_of_ctx sq.ctx
    rw [hq] at this
    exact (Option.some.inj this).symm
  subst hq'
  exact frame_specMove' inv norm hgc sq hqt hvq (by simp only [Dest.site]; exact hq) hx h1 h2 h3 h4

theorem insertBefore_frame {f : Forest} {r c q : Nat} {t : HTree} (inv : f.Inv) (norm : f.Normal)
    (hok : (f.insertBefore r c).2 = .ok) (hgc : f.get? c = some t) (hq : f.parent? r = some q)
    {x : Nat} {cx : Ctx} (hx : f.ctx? x = some cx)
    (h1 : cx.parent ≠ q) (h2 : some cx.parent ≠ f.parent? c) (h3 : cx.parent ∉ handles t) (h4 : x ∉ handles t) :
    ∃ cx', (f.insertBefore r c).1.ctx? x = some cx' ∧ cx'.shape = cx.shape := by
  rw [insertBefore_spec inv norm hok]
  have nd := inv.nodup
  have hsc : f.structureCheck (f.parent? r) c = true := by
    cases h : f.structureCheck (f.parent? r) c with
    | true => rfl
    | false => rw [insertBefore_unfold] at hok; simp [h] at hok
  have hsr : f.siblingReferenceCheck r c = true := by
    cases h : f.siblingReferenceCheck r c with
    | true => rfl
    | false => rw [insertBefore_unfold] at hok; simp [hsc, h] at hok
  obtain ⟨q', vq, A, kr, B, t', sq, ekr, hkrn, hrc, hgc', hqt, hnorm, hndoc, hvq⟩ := sibling_checks_unpack nd hsc hsr
  subst ekr
  rw [hgc] at hgc'
  have := Option.some.inj hgc'
  subst this
  have hq' : q' = q := by
    have := Forest.parent?_of_ctx sq.ctx
    rw [hq] at this
    exact (Option.some.inj this).symm
  subst hq'
  exact frame_specMove' inv norm hgc sq hqt hvq (by simp only [Dest.site]; exact hq) hx h1 h2 h3 h4

theorem remove_frame {f : Forest} {n : Nat} {t : HTree} (inv : f.Inv) (norm : f.Normal)
    (hg : f.get? n = some t) {x : Nat} {cx : Ctx} (hx : f.ctx? x = some cx)
    (h1 : some cx.parent ≠ f.parent? n) (h3 : cx.parent ∉ handles t) (h4 : x ∉ handles t) :
    ∃ cx', (f.remove n).1.ctx? x = some cx' ∧ cx'.shape = cx.shape := by
  rw [remove_spec (Keep.earlier_spec n) inv norm (Forest.isLive_of_get hg)]
  exact frame_specRemove inv hg hx h1 h3 h4

end XotModel
