/-
  XotModel.Lemmas.LexSliceStream — the invariant of the slice theorem and the stream primitives.

  `SWf src st`: the stream `st` lies some whole number of characters into `src`
  (`st = (ofStr src).adv k`).  Under it, `sliceBack st b` is a slice of `src` for ANY `b`
  (it is a prefix of what lies ahead of `st`), and `st.pos` is a char boundary of `src`.
  For `consume_qname`: a non-empty prefix ends one byte (the colon) before the local name.
-/
import XotModel.Model.Lex
import XotModel.Lemmas.LexSliceDefs

namespace XotModel.Lex.Slice

open XotModel.Lex.Stream

/-- The stream lies a whole number of characters into `src`. -/
def SWf (src : Str) (st : Lex.Stream) : Prop := Reach (Stream.ofStr src) st

theorem SWf.ofStr (src : Str) : SWf src (Stream.ofStr src) := Reach.refl _

theorem SWf.reach {src : Str} {a b : Lex.Stream} (h : SWf src a) (r : Reach a b) : SWf src b :=
  Reach.trans h r

theorem SWf.adv {src : Str} {a : Lex.Stream} (h : SWf src a) (k : Nat) : SWf src (a.adv k) :=
  h.reach (Reach.adv a k)

theorem SWf.boundary {src : Str} {st : Lex.Stream} (h : SWf src st) : IsBoundary src st.pos := by
  obtain ⟨k, rfl⟩ := h
  refine ⟨src.take k, src.drop k, (List.take_append_drop k src).symm, ?_⟩
  simp [Stream.adv, Stream.ofStr]

/-- KEY LEMMA: whatever `b` is, `sliceBack a b` is a slice of the source. -/
theorem SWf.sliceBack {src : Str} {a : Lex.Stream} (h : SWf src a) (b : Lex.Stream) :
    (sliceBack a b).SliceOf src := by
  obtain ⟨k, rfl⟩ := h
  refine ⟨src.take k, (src.drop k).drop ((src.drop k).length - b.rest.length), ?_, ?_⟩
  · simp only [Stream.sliceBack, Stream.adv, Stream.ofStr]
    rw [List.append_assoc, List.take_append_drop, List.take_append_drop]
  · simp [Stream.sliceBack, Stream.adv, Stream.ofStr]

theorem emptySpan_sliceOf (src : Str) : emptySpan.SliceOf src :=
  ⟨[], src, by simp [emptySpan], by simp [emptySpan, strLen]⟩

/-! ### `consume_name` -/

theorem consumeName_slice {src : Str} {s s' : Lex.Stream} {n : StrSpan} (hw : SWf src s)
    (h : s.consumeName = some (n, s')) : n.SliceOf src := by
  unfold consumeName at h
  split at h
  · simp at h
  · next s1 h1 =>
    dsimp only at h
    split at h
    · simp at h
    · simp at h; obtain ⟨rfl, _⟩ := h; exact hw.sliceBack _

/-! ### `consume_qname` -/

/-- The loop of `consume_qname`, with its accumulators: the count only grows, by at most the
    length of the text; a splitter that was set is kept; a new splitter is the index of a
    colon among the characters consumed. -/
theorem qnameLoop_spec (r : Str) : ∀ (j : Nat) (sp : Option Nat) (k : Nat) (sp' : Option Nat),
    qnameLoop r j sp = some (k, sp') →
      j ≤ k ∧ k ≤ j + r.length ∧
        (∀ i, sp = some i → sp' = some i) ∧
        (sp = none → ∀ i, sp' = some i → j ≤ i ∧ i < k ∧ r[i - j]? = some ':') := by
  induction r with
  | nil =>
    intro j sp k sp' h
    simp only [qnameLoop, Option.some.injEq, Prod.mk.injEq] at h
    obtain ⟨rfl, rfl⟩ := h
    refine ⟨Nat.le_refl _, by simp, fun i hi => hi, ?_⟩
    intro hn i hi
    rw [hn] at hi; cases hi
  | cons c cs ih =>
    intro j sp k sp' h
    simp only [qnameLoop] at h
    split at h
    · next hc =>
      have hc' : c = ':' := by simpa using hc
      cases sp with
      | some i0 => simp at h
      | none =>
        simp only at h
        obtain ⟨h1, h2, h3, _⟩ := ih (j + 1) (some j) k sp' h
        have e := h3 j rfl
        refine ⟨by omega, (by simp only [List.length_cons]; omega), (fun i hi => by cases hi), ?_⟩
        intro _ i hi
        rw [e] at hi
        simp only [Option.some.injEq] at hi
        subst hi
        refine ⟨Nat.le_refl _, by omega, ?_⟩
        simp [hc']
    · split at h
      · obtain ⟨h1, h2, h3, h4⟩ := ih (j + 1) sp k sp' h
        refine ⟨by omega, (by simp only [List.length_cons]; omega), h3, ?_⟩
        intro hn i hi
        obtain ⟨a1, a2, a3⟩ := h4 hn i hi
        refine ⟨by omega, a2, ?_⟩
        have : i - j = (i - (j + 1)) + 1 := by omega
        rw [this, List.getElem?_cons_succ]
        exact a3
      · simp only [Option.some.injEq, Prod.mk.injEq] at h
        obtain ⟨rfl, rfl⟩ := h
        refine ⟨Nat.le_refl _, by omega, fun i hi => hi, ?_⟩
        intro hn i hi
        rw [hn] at hi; cases hi

theorem qnameLoop_colon {r : Str} {k i : Nat} (h : qnameLoop r 0 none = some (k, some i)) :
    i < k ∧ k ≤ r.length ∧ r[i]? = some ':' := by
  obtain ⟨_, h2, _, h4⟩ := qnameLoop_spec r 0 none k (some i) h
  obtain ⟨_, a2, a3⟩ := h4 rfl i rfl
  exact ⟨a2, by omega, by simpa using a3⟩

theorem utf8Len_colon : utf8Len ':' = 1 := by decide

/-- The prefix `sliceBack s (s.adv i)` ends one byte before `s.adv (i + 1)` when the character
    at `i` is the colon. -/
theorem abut_of_colon {s : Lex.Stream} {i : Nat} (b : Lex.Stream) (hi : s.rest[i]? = some ':') :
    Abut (Stream.sliceBack s (s.adv i)) (Stream.sliceBack (s.adv (i + 1)) b) := by
  right
  have hlt : i < s.rest.length := by
    rcases Nat.lt_or_ge i s.rest.length with h | h
    · exact h
    · rw [List.getElem?_eq_none h] at hi; cases hi
  have e1 : s.rest.length - (s.rest.length - i) = i := by omega
  simp only [StrSpan.stop, Stream.sliceBack, Stream.adv, List.length_drop, e1]
  rw [List.take_add_one, hi]
  simp only [Option.toList_some, strLen_app, strLen, utf8Len_colon]
  omega

/-- `consume_qname`: both spans are slices of the source and abut. -/
theorem consumeQName_slice {src : Str} {s s' : Lex.Stream} {p l : StrSpan} (hw : SWf src s)
    (h : s.consumeQName = some (p, l, s')) : p.SliceOf src ∧ l.SliceOf src ∧ Abut p l := by
  unfold consumeQName at h
  split at h
  · simp at h
  · next k sp hk =>
    cases sp with
    | none =>
      dsimp only at h
      split at h
      · simp at h
      · split at h
        · simp at h
        · simp only [Option.some.injEq, Prod.mk.injEq] at h
          obtain ⟨rfl, rfl, _⟩ := h
          exact ⟨emptySpan_sliceOf src, hw.sliceBack _, .inl ⟨rfl, rfl⟩⟩
    | some i =>
      dsimp only at h
      split at h
      · simp at h
      · split at h
        · simp at h
        · simp only [Option.some.injEq, Prod.mk.injEq] at h
          obtain ⟨rfl, rfl, _⟩ := h
          exact ⟨hw.sliceBack _, (hw.adv _).sliceBack _, abut_of_colon _ (qnameLoop_colon hk).2.2⟩

end XotModel.Lex.Slice
