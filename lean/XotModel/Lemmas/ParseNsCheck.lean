/-
  C02_spelled_ns: an executable checker for the well-formedness of a spelling with namespaces
  (`wellNsDocB`), sound for `WellNsDoc` — so that closed examples are shown well formed by `decide`.
-/
import XotModel.Lemmas.ParseNsDefs

namespace XotModel

def Piece.okB : Piece → Bool
  | .lit c => c != '&' && c != '\r'
  | .named name => !name.contains ';' && name.head? != some '#' && (namedEntity name).isSome
  | .dec ds => !ds.isEmpty && ds.all (fun d => decide (d < 10)) && (xmlCharOfNat? (evalDigits 10 0 ds)).isSome
  | .hex ds => !ds.isEmpty && ds.all (fun d => decide (d.1 < 16)) &&
      (xmlCharOfNat? (evalDigits 16 0 (ds.map (·.1)))).isSome
  | .cr => true
  | .crlf => true

theorem Piece.okB_sound : ∀ (p : Piece), p.okB = true → p.ok
  | .lit c, h => by
    simp only [Piece.okB, Bool.and_eq_true, bne_iff_ne, ne_eq] at h
    exact h
  | .named name, h => by
    simp only [Piece.okB, Bool.and_eq_true, Bool.not_eq_true', bne_iff_ne, ne_eq] at h
    refine ⟨?_, ?_, h.2⟩
    · intro hm
      have : name.contains ';' = true := by simpa using hm
      rw [this] at h; exact absurd h.1.1 (by simp)
    · intro r hr
      subst hr
      exact h.1.2 rfl
  | .dec ds, h => by
    simp only [Piece.okB, Bool.and_eq_true, Bool.not_eq_true', List.all_eq_true, decide_eq_true_eq] at h
    refine ⟨?_, h.1.2, h.2⟩
    intro hn; subst hn; simp at h
  | .hex ds, h => by
    simp only [Piece.okB, Bool.and_eq_true, Bool.not_eq_true', List.all_eq_true, decide_eq_true_eq] at h
    refine ⟨?_, h.1.2, h.2⟩
    intro hn; subst hn; simp at h
  | .cr, _ => trivial
  | .crlf, _ => trivial

def wellSpelledB : List Piece → Bool
  | [] => true
  | .cr :: rest => rest.head? != some (.lit '\n') && wellSpelledB rest
  | p :: rest => p.okB && wellSpelledB rest

theorem wellSpelledB_sound : ∀ (ps : List Piece), wellSpelledB ps = true → WellSpelled ps
  | [], _ => trivial
  | .cr :: rest, h => by
    simp only [wellSpelledB, Bool.and_eq_true, bne_iff_ne, ne_eq] at h
    exact ⟨h.1, wellSpelledB_sound rest h.2⟩
  | .lit c :: rest, h => by
    simp only [wellSpelledB, Bool.and_eq_true] at h
    exact ⟨Piece.okB_sound _ h.1, wellSpelledB_sound rest h.2⟩
  | .named n :: rest, h => by
    simp only [wellSpelledB, Bool.and_eq_true] at h
    exact ⟨Piece.okB_sound _ h.1, wellSpelledB_sound rest h.2⟩
  | .dec ds :: rest, h => by
    simp only [wellSpelledB, Bool.and_eq_true] at h
    exact ⟨Piece.okB_sound _ h.1, wellSpelledB_sound rest h.2⟩
  | .hex ds :: rest, h => by
    simp only [wellSpelledB, Bool.and_eq_true] at h
    exact ⟨Piece.okB_sound _ h.1, wellSpelledB_sound rest h.2⟩
  | .crlf :: rest, h => by
    simp only [wellSpelledB, Bool.and_eq_true] at h
    exact ⟨Piece.okB_sound _ h.1, wellSpelledB_sound rest h.2⟩

def SPart.wellB : SPart → Bool
  | .txt ps _ => !ps.isEmpty && wellSpelledB ps
  | .cd _ _ => true

theorem SPart.wellB_sound : ∀ (p : SPart), p.wellB = true → p.Well
  | .txt ps _, h => by
    simp only [SPart.wellB, Bool.and_eq_true, Bool.not_eq_true'] at h
    refine ⟨?_, wellSpelledB_sound ps h.2⟩
    intro hn; subst hn; simp at h
  | .cd _ _, _ => trivial

def attrsWellNsB (scope : Scope) (attrs : List NSAttr) : Bool :=
  attrs.all (fun a => wellSpelledB a.pieces) &&
  (declsOf attrs).all (fun d => !reservedDecl d.1 d.2) &&
  decide ((declsOf attrs).map Prod.fst).Nodup &&
  decide ((attrsOf scope attrs).map Prod.fst).Nodup &&
  (ordinary attrs).all (fun a => a.pfx.text.isEmpty || (scope.lookup a.pfx.text).isSome) &&
  attrs.all (fun a => !a.pfx.bareColon)

theorem attrsWellNsB_sound (scope : Scope) (attrs : List NSAttr) (h : attrsWellNsB scope attrs = true) :
    attrsWellNs scope attrs := by
  simp only [attrsWellNsB, Bool.and_eq_true, List.all_eq_true, decide_eq_true_eq, Bool.or_eq_true,
    Bool.not_eq_true'] at h
  obtain ⟨⟨⟨⟨⟨h1, h0⟩, h2⟩, h3⟩, h4⟩, h5⟩ := h
  refine ⟨fun a ha => wellSpelledB_sound _ (h1 a ha), h0, h2, h3, ?_, h5⟩
  intro a ha hne
  rcases h4 a ha with h | h
  · exact absurd (List.isEmpty_iff.mp h) hne
  · exact h

/-- The checker for `NSNode.Well`. -/
def NSNode.wellB : Scope → NSNode → Bool
  | scope, .elem pfx loc _ attrs _ kids cpfx cloc _ =>
    attrsWellNsB (scope.push (declsOf attrs)) attrs &&
    ((scope.push (declsOf attrs)).lookup pfx.text).isSome &&
    cpfx.text == pfx.text && cloc.text == loc.text &&
    noAdjCharsNs kids && wellListB (scope.push (declsOf attrs)) kids &&
    !pfx.bareColon && !cpfx.bareColon
  | scope, .empty pfx _ _ attrs _ =>
    attrsWellNsB (scope.push (declsOf attrs)) attrs && ((scope.push (declsOf attrs)).lookup pfx.text).isSome &&
    !pfx.bareColon
  | _, .chars parts => parts.all SPart.wellB
  | _, .comment _ _ => true
  | _, .pi target _ _ => !isReservedPiTarget target.text
where
  wellListB : Scope → List NSNode → Bool
    | _, [] => true
    | scope, k :: ks => NSNode.wellB scope k && wellListB scope ks

mutual
theorem NSNode.wellB_sound : ∀ (n : NSNode) (scope : Scope), n.wellB scope = true → n.Well scope
  | .elem pfx loc _ attrs _ kids cpfx cloc _, scope, h => by
    simp only [NSNode.wellB, Bool.and_eq_true, beq_iff_eq, Bool.not_eq_true'] at h
    obtain ⟨⟨⟨⟨⟨⟨⟨h1, h2⟩, h3⟩, h4⟩, h5⟩, h6⟩, h7⟩, h8⟩ := h
    exact ⟨attrsWellNsB_sound _ _ h1, h2, h3, h4, h5, NSNode.wellListB_sound kids _ h6, h7, h8⟩
  | .empty pfx _ _ attrs _, scope, h => by
    simp only [NSNode.wellB, Bool.and_eq_true, Bool.not_eq_true'] at h
    exact ⟨attrsWellNsB_sound _ _ h.1.1, h.1.2, h.2⟩
  | .chars parts, _, h => by
    simp only [NSNode.wellB, List.all_eq_true] at h
    exact fun p hp => SPart.wellB_sound p (h p hp)
  | .comment _ _, _, _ => trivial
  | .pi _ _ _, _, h => by simpa [NSNode.wellB, NSNode.Well] using h
theorem NSNode.wellListB_sound : ∀ (ns : List NSNode) (scope : Scope),
    NSNode.wellB.wellListB scope ns = true → NSNode.Well.wellList scope ns
  | [], _, _ => trivial
  | k :: ks, scope, h => by
    simp only [NSNode.wellB.wellListB, Bool.and_eq_true] at h
    exact ⟨NSNode.wellB_sound k scope h.1, NSNode.wellListB_sound ks scope h.2⟩
end

/-- The checker for `WellNsDoc`. -/
def wellNsDocB (sns : List NSNode) : Bool :=
  NSNode.wellB.wellListB baseScope sns && noAdjCharsNs sns &&
  decide (NPNode.ids.idsList (NSNode.denote.denoteList baseScope sns)).Nodup

theorem wellNsDocB_sound (sns : List NSNode) (h : wellNsDocB sns = true) : WellNsDoc sns := by
  simp only [wellNsDocB, Bool.and_eq_true, decide_eq_true_eq] at h
  exact ⟨NSNode.wellListB_sound sns baseScope h.1.1, h.1.2, h.2⟩

end XotModel
