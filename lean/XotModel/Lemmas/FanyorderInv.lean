/-
  Lemmas for C20 (any construction order), part 6: the SPECIFICATION preserves the C04 invariant.

  `specMove_inv`: for a forest satisfying `Forest.Inv` (and `Forest.Normal`) and a move that passes
  the argument checks, `specMove` yields a forest satisfying `Forest.Inv` again: handles stay
  distinct and below `next`, every child list stays ordered with unique keys and allowed members,
  and the two touched child lists are free of adjacent text after the merge.

  (C04 proves the same of the implementation, `C04_append` …; its lemma family cannot be imported
  next to C05's, see `Props/C20.lean`.  With C05, `moveImpl = specMove`, this gives the invariant
  along every successful implementation run.)
-/
import XotModel.Lemmas.FanyorderLocal
import XotModel.Lemmas.FanyorderMove
import XotModel.Lemmas.FspecFrame

namespace XotModel
namespace Prog
open HTree Spec

/-- One edit, stated on forests. -/
theorem stage {f : Forest} {sx sx' : Nat → Bool} {p : Nat} {v : Value} {L : List HTree}
    {g : List HTree → List HTree} (s : SiteAt f p v L) (hv : validXList sx f.roots = true)
    (hother : ∀ h, h ≠ p → sx' h = true → sx h = true)
    (hloc : localOK (sx' p) v (g L) = true) (hmem : validXList sx' (g L) = true) :
    validXList sx' (f.editAt (some p) g).roots = true :=
  validXList_editAt hother hloc hmem f.roots s.nd hv s.kids

theorem localOK_mergeOpt {v : Value} {L : List HTree} (c b : Bool) (keep : Keep)
    (h : localOK false v L = true) (hb : c = false → b = false) :
    localOK b v (mergeOpt c keep L) = true := by
  cases c with
  | true => exact localOK_mono (fun _ => rfl) (localOK_mergeRuns keep h)
  | false => rw [hb rfl]; exact h

theorem validXList_mergeOpt {sx : Nat → Bool} {L : List HTree} (c : Bool) (keep : Keep)
    (h : validXList sx L = true) : validXList sx (mergeOpt c keep L) = true := by
  cases c with
  | true => exact validXList_mergeRuns keep h
  | false => exact h

/-- Edit one child list by `g0` and merge there (when consolidation is on): validity with the
    strictness `sx0`, which may be stricter than `sxY` at `q` only. -/
theorem merge_stage {Y : Forest} {sxY sx0 : Nat → Bool} {q : Nat} {vq : Value} {LY : List HTree}
    {g0 : List HTree → List HTree} (keep : Keep)
    (sY : SiteAt Y q vq LY) (hvY : validXList sxY Y.roots = true)
    (hother : ∀ h, h ≠ q → sx0 h = true → sxY h = true)
    (hstrict : Y.consolidation = false → sx0 q = false)
    (hloc0 : localOK false vq (g0 LY) = true) (hmem0 : validXList sx0 (g0 LY) = true) :
    validXList sx0 (Y.editAt (some q) (mergeOpt Y.consolidation keep ∘ g0)).roots = true := by
  apply stage sY hvY hother
  · exact localOK_mergeOpt _ _ keep hloc0 hstrict
  · exact validXList_mergeOpt _ keep hmem0

/-- The members of a located child list are valid, also under a strictness that differs at the
    parent only. -/
theorem site_members {Y : Forest} {sxY sx0 : Nat → Bool} {q : Nat} {vq : Value} {LY : List HTree}
    (sY : SiteAt Y q vq LY) (hvY : validXList sxY Y.roots = true)
    (hother : ∀ h, h ≠ q → sx0 h = true → sxY h = true) :
    localOK false vq LY = true ∧ validXList sx0 LY = true := by
  have hq := validX_findList Y.roots _ hvY sY.kids
  rw [validX_node, Bool.and_eq_true] at hq
  refine ⟨localOK_weaken hq.1, ?_⟩
  obtain ⟨_, hqL⟩ := sY.nodupKids
  exact validXList_mono LY (fun x hx => hother x (fun e => hqL (e ▸ hx))) hq.2

/-- What the argument checks of a move say, for all four destinations. -/
theorem check_unpack {f : Forest} {d : Dest} {n : Nat} (nd : f.allHandles.Nodup)
    (h : implCheck f d n = true) :
    ∃ q vq Lq t, SiteAt f q vq Lq ∧ d.site f = some q ∧ f.get? n = some t ∧ q ∉ handles t ∧
      t.value.isNormal = true ∧ t.value.isDocument = false ∧
      (vq.isElement = true ∨ vq.isDocument = true) ∧
      (∀ r, (d = .after r ∨ d = .before r) → ∀ k ∈ Lq, k.handle = r → k.value.isNormal = true) := by
  have hrefk : ∀ (q vq Lq r), SiteAt f q vq Lq → f.isNormalNode r = true →
      ∀ k ∈ Lq, k.handle = r → k.value.isNormal = true := by
    intro q vq Lq r sq hr k hk hkr
    obtain ⟨A, B, hAB⟩ := List.append_of_mem hk
    have sq' : SiteAt f q vq (A ++ k :: B) := hAB ▸ sq
    have hg := sq'.getKid
    rw [hkr] at hg
    simp only [Forest.isNormalNode, Forest.value?, hg, Option.map_some] at hr
    simpa using hr
  cases d with
  | lastChildOf p =>
    simp only [implCheck] at h
    obtain ⟨vp, Lp, t, hgp, hgc, hpt, hnorm, hndoc, hvp⟩ := Forest.structureCheck_unpack nd h
    refine ⟨p, vp, Lp, t, ⟨nd, hgp⟩, by simp [Dest.site, Forest.isLive_of_get hgp], hgc, hpt, hnorm, hndoc, hvp, ?_⟩
    intro r hr; rcases hr with e | e <;> cases e
  | firstNormalChildOf p =>
    simp only [implCheck] at h
    obtain ⟨vp, Lp, t, hgp, hgc, hpt, hnorm, hndoc, hvp⟩ := Forest.structureCheck_unpack nd h
    refine ⟨p, vp, Lp, t, ⟨nd, hgp⟩, by simp [Dest.site, Forest.isLive_of_get hgp], hgc, hpt, hnorm, hndoc, hvp, ?_⟩
    intro r hr; rcases hr with e | e <;> cases e
  | after r =>
    simp only [implCheck, Bool.and_eq_true] at h
    obtain ⟨h1, h2⟩ := h
    cases hp : f.parent? r with
    | none => rw [hp] at h1; simp [Forest.structureCheck] at h1
    | some q =>
      rw [hp] at h1
      obtain ⟨vp, Lp, t, hgp, hgc, hpt, hnorm, hndoc, hvp⟩ := Forest.structureCheck_unpack nd h1
      have hrn : f.isNormalNode r = true := by
        simp only [Forest.siblingReferenceCheck, Bool.and_eq_true] at h2; exact h2.2
      refine ⟨q, vp, Lp, t, ⟨nd, hgp⟩, by simp [Dest.site, hp], hgc, hpt, hnorm, hndoc, hvp, ?_⟩
      intro r' hr' k hk hkr
      have : r' = r := by rcases hr' with e | e <;> cases e <;> rfl
      subst this
      exact hrefk q vp Lp r' ⟨nd, hgp⟩ hrn k hk hkr
  | before r =>
    simp only [implCheck, Bool.and_eq_true] at h
    obtain ⟨h1, h2⟩ := h
    cases hp : f.parent? r with
    | none => rw [hp] at h1; simp [Forest.structureCheck] at h1
    | some q =>
      rw [hp] at h1
      obtain ⟨vp, Lp, t, hgp, hgc, hpt, hnorm, hndoc, hvp⟩ := Forest.structureCheck_unpack nd h1
      have hrn : f.isNormalNode r = true := by
        simp only [Forest.siblingReferenceCheck, Bool.and_eq_true] at h2; exact h2.2
      refine ⟨q, vp, Lp, t, ⟨nd, hgp⟩, by simp [Dest.site, hp], hgc, hpt, hnorm, hndoc, hvp, ?_⟩
      intro r' hr' k hk hkr
      have : r' = r := by rcases hr' with e | e <;> cases e <;> rfl
      subst this
      exact hrefk q vp Lp r' ⟨nd, hgp⟩ hrn k hk hkr

theorem kidAllowed_of {vq tv : Value} (hvq : vq.isElement = true ∨ vq.isDocument = true)
    (hn : tv.isNormal = true) (hd : tv.isDocument = false) : kidAllowed vq tv = true := by
  cases vq <;> simp_all [kidAllowed, Value.isElement, Value.isDocument]

/-- The last stage of a move, on the forest `Y` (the subtree `t` cut out, the old site merged):
    insert `t` at `q`, merge there.  Validity and handle counts. -/
theorem insert_stage {Y : Forest} {sxY sx0 : Nat → Bool} {q : Nat} {vq : Value} {LY : List HTree}
    (keep : Keep) (d : Dest) (t : HTree)
    (sY : SiteAt Y q vq LY) (hvY : validXList sxY Y.roots = true)
    (hother : ∀ h, h ≠ q → sx0 h = true → sxY h = true)
    (hstrict : Y.consolidation = false → sx0 q = false)
    (hal : kidAllowed vq t.value = true) (hn : t.value.isNormal = true) (ht : validX sx0 t = true)
    (href : ∀ r, (d = .after r ∨ d = .before r) → ∀ k ∈ LY, k.handle = r → k.value.isNormal = true) :
    validXList sx0 ((Y.editAt (some q) (d.insert t)).mergeAt keep (some q)).roots = true ∧
    ∀ z, ((Y.editAt (some q) (d.insert t)).mergeAt keep (some q)).allHandles.count z ≤
      Y.allHandles.count z + (handles t).count z := by
  rw [mergeAt_eq_mergeOpt, Forest.editAt_consolidation, Forest.editAt_editAt]
  obtain ⟨hl, hm⟩ := site_members sY hvY hother
  constructor
  · apply merge_stage keep sY hvY hother hstrict
    · exact localOK_insert d t hl hal hn href
    · exact validXList_insert d t hm ht
  · intro z
    have h1 := sY.count (mergeOpt Y.consolidation keep ∘ d.insert t) z
    simp only [Function.comp] at h1
    have h2 := (mergeOpt_sublist Y.consolidation keep (d.insert t LY)).count_le z
    have h3 := count_insert_le z d t LY
    omega

/-- Values of the nodes found through a value-preserving map. -/
theorem href_map {φ : HTree → HTree} (hφ : KidMap φ) {d : Dest} {Lq : List HTree}
    (href : ∀ r, (d = .after r ∨ d = .before r) → ∀ k ∈ Lq, k.handle = r → k.value.isNormal = true) :
    ∀ r, (d = .after r ∨ d = .before r) → ∀ k ∈ Lq.map φ, k.handle = r → k.value.isNormal = true := by
  intro r hr k hk hkr
  obtain ⟨k0, hk0, e⟩ := List.mem_map.1 hk
  rw [← e, hφ.value]
  rw [← e, hφ.handle] at hkr
  exact href r hr k0 hk0 hkr

theorem specMove_occupied {keep : Keep} {d : Dest} {n : Nat} {f : Forest} (h : d.occupiedBy f n = true) :
    specMove keep d n f = f := by
  unfold specMove; rw [h]; rfl

/-- **The specification's move preserves the invariant.** -/
theorem specMove_inv {f : Forest} {d : Dest} {n : Nat} (inv : f.Inv) (norm : f.Normal)
    (hck : implCheck f d n = true) : (specMove (Keep.resident n) d n f).Inv := by
  have nd := inv.nodup
  obtain ⟨fc, fe, fcor, fnext⟩ := specMove_fields (Keep.resident n) d n f
  cases hocc : d.occupiedBy f n with
  | true => rw [specMove_occupied hocc]; exact inv
  | false =>
  obtain ⟨q, vq, Lq, t, sq, hsite, hgc, hqt, hnorm, hndoc, hvq, href⟩ := check_unpack nd hck
  have htc : t.handle = n := (findList?_some f.roots t hgc).1
  have hvqt : vq.isText = false := by
    rcases hvq with h | h <;> (cases vq <;> simp_all [Value.isElement, Value.isDocument, Value.isText])
  have hal := kidAllowed_of hvq hnorm hndoc
  let sx0 : Nat → Bool := fun _ => !f.everOff
  have hv0 : validXList sx0 f.roots = true := by
    show validXList (fun _ => !f.everOff) f.roots = true
    rw [validXList_const]; exact inv.valid
  have ht0 : validX sx0 t = true := validX_findList f.roots t hv0 hgc
  have hstrict0 : f.consolidation = false → sx0 q = false := by
    intro hc
    rcases inv.consOn with h | h
    · rw [h] at hc; cases hc
    · show (!f.everOff) = false; rw [h]; rfl
  -- what remains once validity and the handle count of the result are known
  suffices hmain : validXList sx0 (specMove (Keep.resident n) d n f).roots = true ∧
      ∀ z, (specMove (Keep.resident n) d n f).allHandles.count z ≤ f.allHandles.count z by
    obtain ⟨hval, hcount⟩ := hmain
    refine ⟨by rw [fcor]; exact inv.notCorrupt, ?_, ?_, ?_, by rw [fc, fe]; exact inv.consOn⟩
    · rw [List.nodup_iff_count]
      intro z
      exact Nat.le_trans (hcount z) ((List.nodup_iff_count.1 nd) z)
    · intro z hz
      rw [fnext]
      apply inv.below
      have := hcount z
      have hpos : 0 < (specMove (Keep.resident n) d n f).allHandles.count z := List.count_pos_iff.2 hz
      exact List.count_pos_iff.1 (Nat.lt_of_lt_of_le hpos this)
    · rw [fe]
      have := hval
      show validList (!f.everOff) _ = true
      rw [← validXList_const]; exact this
  rcases Forest.root_or_ctx hgc with hroot | ⟨cx, hctx⟩
  · -- the moved node is a parentless tree
    have hno := Forest.ctx_none_of_root nd hroot
    have hpar : f.parent? n = none := Forest.parent?_of_no_ctx hno
    have F := far_root (keep := Keep.resident n) hgc hno sq hqt
    rw [F.spec d hocc hsite (fun ψ hk hψ => natFor_insert hk hψ d)]
    have sY : SiteAt (f.editAt none (dropTop n)) q vq Lq := sq.dropRoot hgc hqt
    have hvY : validXList sx0 (f.editAt none (dropTop n)).roots = true := validXList_dropTop n hv0
    obtain ⟨r1, r2⟩ := insert_stage (Keep.resident n) d t sY hvY (fun _ _ h => h)
      (by intro hc; exact hstrict0 hc) hal hnorm ht0 href
    refine ⟨r1, ?_⟩
    intro z
    have h1 := r2 z
    have h2 := count_dropTop_root nd hgc hroot z
    have h3 : (f.editAt none (dropTop n)).allHandles.count z = (handlesList (dropTop n f.roots)).count z := rfl
    omega
  · obtain ⟨e0, vo, so⟩ := SiteAt.of_ctx nd hctx
    have hself : cx.self = t := by
      have := Forest.get?_of_ctx nd hctx
      rw [hgc] at this
      exact (Option.some.inj this).symm
    obtain ⟨po, l, k, r⟩ := cx
    simp only at e0 so hself
    subst hself
    subst e0
    have hpar : f.parent? k.handle = some po := Forest.parent?_of_ctx hctx
    obtain ⟨ndL, hpoL⟩ := so.nodupKids
    obtain ⟨tl, tr⟩ := tops_ne_of_nodup ndL
    have hdrop : dropTop k.handle (l ++ k :: r) = l ++ r := dropTop_mid rfl tl tr
    obtain ⟨hlo, hmo⟩ := site_members (sx0 := sx0) so hv0 (fun _ _ h => h)
    by_cases hpq : po = q
    · -- reordering within one child list
      subst hpq
      have e : vq = vo ∧ Lq = l ++ k :: r := by
        have := sq.kids
        rw [so.kids] at this
        have := Option.some.inj this
        injection this with _ e2 e3
        exact ⟨e2.symm, e3.symm⟩
      obtain ⟨ev, eL⟩ := e
      subst ev eL
      have F := far_same (keep := Keep.resident k.handle) so
      rw [F.spec d hocc hsite (fun ψ hk hψ => natFor_insert hk hψ d)]
      have sY : SiteAt (f.editAt (some po) (dropTop k.handle)) po vq (l ++ r) := by
        have := F.ysite; rw [List.map_id] at this; exact this
      let sxY : Nat → Bool := fun h => if h = po then false else sx0 h
      have hvY : validXList sxY (f.editAt (some po) (dropTop k.handle)).roots = true := by
        apply stage so hv0
        · intro h hh hs
          simp only [sxY, if_neg hh] at hs
          exact hs
        · simp only [sxY, if_true]
          exact localOK_dropTop _ hlo
        · apply validXList_dropTop
          exact validXList_mono _ (fun x _ hs => by
            simp only [sxY] at hs
            split at hs
            · cases hs
            · exact hs) hmo
      have href' : ∀ r', (d = .after r' ∨ d = .before r') → ∀ k' ∈ l ++ r, k'.handle = r' → k'.value.isNormal = true := by
        intro r' hr' k' hk' hkr
        apply href r' hr' k' _ hkr
        rcases List.mem_append.1 hk' with e | e
        · exact List.mem_append_left _ e
        · exact List.mem_append_right _ (List.mem_cons_of_mem _ e)
      obtain ⟨r1, r2⟩ := insert_stage (sxY := sxY) (sx0 := sx0) (Keep.resident k.handle) d k sY hvY
        (by
          intro h hh hs
          simp only [sxY, if_neg hh]
          exact hs)
        (by rw [Forest.editAt_consolidation]; exact hstrict0) hal hnorm ht0 href'
      refine ⟨r1, ?_⟩
      intro z
      have := r2 z
      have h1 := so.count (dropTop k.handle) z
      rw [hdrop] at h1
      have h2 := count_handles_mid z l k r
      omega
    · -- from another child list
      obtain ⟨⟨φ, F⟩, _⟩ := far_kid (keep := Keep.resident k.handle) inv norm (Keep.resident_spec k.handle) so sq hpq hqt hvqt
      rw [F.spec d hocc hsite (fun ψ hk hψ => natFor_insert hk hψ d)]
      have hY : (f.editAt (some po) (dropTop k.handle)).mergeAt (Keep.resident k.handle) (some po) =
          f.editAt (some po) (mergeOpt f.consolidation (Keep.resident k.handle) ∘ dropTop k.handle) := by
        rw [mergeAt_eq_mergeOpt, Forest.editAt_consolidation, Forest.editAt_editAt]
      have hvY : validXList sx0 ((f.editAt (some po) (dropTop k.handle)).mergeAt (Keep.resident k.handle) (some po)).roots = true := by
        rw [hY]
        apply merge_stage (Keep.resident k.handle) so hv0 (fun _ _ h => h)
        · intro hc
          rcases inv.consOn with h | h
          · rw [h] at hc; cases hc
          · show (!f.everOff) = false; rw [h]; rfl
        · exact localOK_dropTop _ hlo
        · exact validXList_dropTop _ hmo
      obtain ⟨r1, r2⟩ := insert_stage (sxY := sx0) (sx0 := sx0) (Keep.resident k.handle) d k F.ysite hvY
        (fun _ _ h => h) (by rw [F.ycons]; exact hstrict0) hal hnorm ht0 (href_map F.kid href)
      refine ⟨r1, ?_⟩
      intro z
      have := r2 z
      have hYs : (f.editAt (some po) (dropTop k.handle)).mergeAt (Keep.resident k.handle) (some po) =
          specRemove (Keep.resident k.handle) k.handle f := by
        unfold specRemove; rw [hpar]
      have h2 := count_specRemove (keep := Keep.resident k.handle) nd hgc z
      rw [← hYs] at h2
      omega

end Prog
end XotModel
