/-
  Regression guard: ONE module importing all twenty property files.  It builds only while no two
  lemma / property files declare the same name (the FOREST half and the TEXT half of the development
  are imported together by the end-to-end theorems of Props/C01, C10, C15).  Nothing is declared here.
  Build: cd lean && lake build XotModel.AllProps
-/
import XotModel.Props.C01
import XotModel.Props.C02
import XotModel.Props.C03
import XotModel.Props.C04
import XotModel.Props.C05
import XotModel.Props.C06
import XotModel.Props.C07
import XotModel.Props.C08
import XotModel.Props.C09
import XotModel.Props.C10
import XotModel.Props.C11
import XotModel.Props.C12
import XotModel.Props.C13
import XotModel.Props.C14
import XotModel.Props.C15
import XotModel.Props.C16
import XotModel.Props.C17
import XotModel.Props.C18
import XotModel.Props.C19
import XotModel.Props.C20
