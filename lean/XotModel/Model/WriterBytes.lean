/-
  XotModel.Model.WriterBytes — the failing writer at BYTE level.

  `Model/Writer.lean` speaks of a writer in characters: `some k` = "`k` characters of the refused call got
  through".  A real `std::io::Write` receives BYTES (`w.write_all(s.as_bytes())`, the UTF-8 encoding of the
  text) and may stop anywhere, also inside a multi-byte character.  This file is the same writer one level
  down:

  * `utf8Char` / `utf8`        : the UTF-8 encoding of a character (1–4 bytes, on `Char.val`) / of a text
                                 (`str::as_bytes`).
  * `BytePolicy`               : history of accepted calls (their bytes) → the bytes offered → `none` (all of
                                 them accepted) | `some k` (refused after `k` BYTES of this call).
  * `BytePolicy.byteBudget n`  : the harness's `ByteBudgetWriter { remaining: n }` under `write_all`: bytes are
                                 accepted while the budget lasts; the call that does not fit gets the remaining
                                 budget and is answered with an `io::Error` (a call with an empty buffer never
                                 reaches `write`, so it is accepted even with nothing left).
  * `BytePolicy.chars B`       : the character-level writer seen through `B`: refuses the same calls, lets
                                 through the whole characters that fit into `B`'s bytes.
  * `writeCallsB`, `replayCallsB` : as `writeCalls`, `replayCalls`, the calls encoded with `utf8`.
  * `serializeXmlWriteB`, `serializeWriteB`, `serializeHtmlWriteB`, `serializeHtmlWriteNB` : the Write-based
    entry points in front of a byte-level writer.  The sequence of `write_all` calls of these functions does
    not depend on the writer (`Lemmas/WriterXml.lean: serializeXmlWriteW_eq_replayCalls`, for EVERY
    character-level writer the threaded function is its trace `serializeXmlCalls` replayed), so the byte-level
    function is that same trace replayed against the byte-level writer.  `Lemmas/WriterBytes.lean` ties it
    back to the threaded function: same outcome as `serializeXmlWriteW B.chars`, and the bytes held are the
    `utf8` of the characters that one holds plus at most 3 bytes of the next character.
-/
import XotModel.Model.Normalizer

namespace XotModel

/-- UTF-8 encoding of one character (`char::encode_utf8`): 1 byte below U+0080, 2 below U+0800, 3 below
    U+10000, else 4. -/
def utf8Char (c : Char) : List UInt8 :=
  let v := c.val.toNat
  if v < 0x80 then [UInt8.ofNat v]
  else if v < 0x800 then [UInt8.ofNat (0xC0 + v / 0x40), UInt8.ofNat (0x80 + v % 0x40)]
  else if v < 0x10000 then
    [UInt8.ofNat (0xE0 + v / 0x1000), UInt8.ofNat (0x80 + v / 0x40 % 0x40), UInt8.ofNat (0x80 + v % 0x40)]
  else
    [UInt8.ofNat (0xF0 + v / 0x40000), UInt8.ofNat (0x80 + v / 0x1000 % 0x40),
     UInt8.ofNat (0x80 + v / 0x40 % 0x40), UInt8.ofNat (0x80 + v % 0x40)]

/-- `str::as_bytes`: the UTF-8 encoding of a text. -/
def utf8 : Str → List UInt8
  | [] => []
  | c :: cs => utf8Char c ++ utf8 cs

/-- What the writer answers to `write_all(bytes)` after having accepted the calls `hist` (in order):
    `none` = all accepted, `some k` = an `io::Error` after `k` bytes of this call got through. -/
abbrev BytePolicy := List (List UInt8) → List UInt8 → Option Nat

/-- `Vec<u8>`, or any writer that never fails. -/
def BytePolicy.unlimited : BytePolicy := fun _ _ => none

/-- harness `ByteBudgetWriter { remaining: n }` under the default `write_all`: a call that fits into what
    remains is accepted; otherwise what remains is filled and the call is answered with an error. -/
def BytePolicy.byteBudget (n : Nat) : BytePolicy := fun hist c =>
  if hist.flatten.length + c.length ≤ n then none else some (n - hist.flatten.length)

/-- How many leading characters of `c` fit, whole, into `k` bytes. -/
def wholeChars : Str → Nat → Nat
  | [], _ => 0
  | ch :: cs, k => if (utf8Char ch).length ≤ k then wholeChars cs (k - (utf8Char ch).length) + 1 else 0

/-- The character-level writer seen through a byte-level one: the same calls are refused; of the refused
    call the characters that fit whole into the bytes let through. -/
def BytePolicy.chars (B : BytePolicy) : WriterPolicy := fun hist c =>
  match B (hist.map utf8) (utf8 c) with
  | none => none
  | some k => some (wholeChars c k)

/-- `w.write_all(c.as_bytes())?` for every `c` of `cs` in order: the history after the last call, or the
    bytes the writer holds when a call is refused. -/
def writeCallsB (B : BytePolicy) : List (List UInt8) → List Str → Except (List UInt8) (List (List UInt8))
  | hist, [] => .ok hist
  | hist, c :: cs =>
    match B hist (utf8 c) with
    | none => writeCallsB B (hist ++ [utf8 c]) cs
    | some k => .error (hist.flatten ++ (utf8 c).take k)

/-- A trace replayed against the byte-level writer `B`: `Io` at the first refused call, else the trace's
    own end. -/
def replayCallsB (B : BytePolicy) (hist : List (List UInt8)) (tr : List Str × Outcome XotError Unit) :
    List UInt8 × Outcome XotError Unit :=
  match writeCallsB B hist tr.1 with
  | .ok h => (h.flatten, tr.2)
  | .error b => (b, .err .io)

/-- `serialize_xml_write_with_normalizer(parameters, node, w, normalizer)` in front of a byte-level writer. -/
def serializeXmlWriteB (B : BytePolicy) (esc : Escapers) (env : Env) (p : XmlParams) (t : Tree)
    (start : Path) : List UInt8 × Outcome XotError Unit :=
  replayCallsB B [] (serializeXmlCalls esc env p t start)

/-- `Xot::write(node, w)` in front of a byte-level writer (default parameters). -/
def serializeWriteB (B : BytePolicy) (esc : Escapers) (env : Env) (t : Tree) (start : Path) :
    List UInt8 × Outcome XotError Unit :=
  serializeXmlWriteB B esc env {} t start

/-- `xot.html5().serialize_write(parameters, node, w)` in front of a byte-level writer. -/
def serializeHtmlWriteB (B : BytePolicy) (env : Env) (p : HtmlParams) (t : Tree) (start : Path) :
    List UInt8 × Outcome XotError Unit :=
  replayCallsB B [] (serializeHtmlCalls env p t start)

/-- `xot.html5().serialize_write_with_normalizer(parameters, node, w, normalizer)`, byte-level writer. -/
def serializeHtmlWriteNB (B : BytePolicy) (N : Str → Str) (env : Env) (p : HtmlParams) (t : Tree)
    (start : Path) : List UInt8 × Outcome XotError Unit :=
  replayCallsB B [] (serializeHtmlCallsN N env p t start)

end XotModel
