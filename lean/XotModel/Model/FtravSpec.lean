/-
  XotModel.Model.FtravSpec — the bridge between the two ways the models name a node:
  the forest model by HANDLE (`HTree`, Model/Forest.lean), the axes model by PATH of raw child
  indices inside one tree (`Tree × Path`, Model/Axes.lean).  Model/FatomSpec2.lean already has
  `HTree.pathOf` (the path of a handle), `HTree.handleAt` (the handle a path denotes) and
  `Forest.rootOf?` (the parentless tree a handle lives in); this file adds `HTree.at?` (subtree at a
  path, the mirror of `Tree.at?`), the specification vocabulary of `C04_traversals_live`.
-/
import XotModel.Model.FatomSpec2

namespace XotModel
namespace HTree

/-- Subtree at a path of raw child indices. -/
def at? : HTree → List Nat → Option HTree
  | t, [] => some t
  | node _ _ ks, i :: p =>
    match ks[i]? with
    | some k => at? k p
    | none => none

end HTree
end XotModel
