/-
  XotModel.Model.FatomSpec — specification vocabulary for C06: the calls of the mutating API as
  data, so that "every call, with every tuple of live arguments" can be quantified over.
  (Specification only: nothing here is executed by the driver.)
-/
import XotModel.Model.Manip2

namespace XotModel
namespace Forest

/-- A call of the mutating API (manipulation.rs, nodemap/core.rs, the value setters). -/
inductive Call where
  | append (parent child : Nat)
  | prepend (parent child : Nat)
  | insertAfter (ref new : Nat)
  | insertBefore (ref new : Nat)
  | detach (node : Nat)
  | remove (node : Nat)
  | replace (replaced replacing : Nat)
  | elementWrap (node name : Nat)
  | elementUnwrap (node : Nat)
  | cloneNode (node : Nat)
  | anyAppend (parent child : Nat)
  | appendEntryNode (k : MapKind) (parent child : Nat)
  | mapInsert (k : MapKind) (parent : Nat) (entry : Value)
  | mapRemove (k : MapKind) (parent key : Nat)
  | mapClear (k : MapKind) (parent : Nat)
  | setElementName (node name : Nat)
  | setText (node : Nat) (s : Str)
  | setComment (node : Nat) (s : Str)
  | setPiData (node : Nat) (d : Option Str)
  | textContentSet (node : Nat) (s : Str)

/-- State reached and outcome (`clone_node` returns a node; a missing node is its `unwrap` panic). -/
def Call.run (f : Forest) : Call → Forest × Res
  | .append p c => f.append p c
  | .prepend p c => f.prepend p c
  | .insertAfter r n => f.insertAfter r n
  | .insertBefore r n => f.insertBefore r n
  | .detach n => f.detach n
  | .remove n => f.remove n
  | .replace a b => f.replace a b
  | .elementWrap n name => ((f.elementWrap n name).1, (f.elementWrap n name).2.1)
  | .elementUnwrap n => f.elementUnwrap n
  | .cloneNode n => ((f.cloneNode n).1, if (f.cloneNode n).2.isSome then .ok else .panic)
  | .anyAppend p c => ((f.anyAppend p c).1, (f.anyAppend p c).2.1)
  | .appendEntryNode k p c => ((f.appendEntryNode k p c).1, (f.appendEntryNode k p c).2.1)
  | .mapInsert k p e => f.mapInsert k p e
  | .mapRemove k p key => f.mapRemove k p key
  | .mapClear k p => f.mapClear k p
  | .setElementName n name => f.setElementName n name
  | .setText n s => f.setText n s
  | .setComment n s => f.setComment n s
  | .setPiData n d => f.setPiData n d
  | .textContentSet n s => f.textContentSet n s

/-- The node arguments of a call. -/
def Call.args : Call → List Nat
  | .append p c | .prepend p c | .insertAfter p c | .insertBefore p c | .replace p c
  | .anyAppend p c | .appendEntryNode _ p c => [p, c]
  | .detach n | .remove n | .elementWrap n _ | .elementUnwrap n | .cloneNode n
  | .mapInsert _ n _ | .mapRemove _ n _ | .mapClear _ n | .setElementName n _ | .setText n _
  | .setComment n _ | .setPiData n _ | .textContentSet n _ => [n]

/-- All node arguments are live. -/
def Call.liveArgs (f : Forest) (c : Call) : Prop := ∀ x ∈ c.args, f.isLive x = true

/-- The documented panics: `attributes_mut` / `namespaces_mut` / `set_element_name` (and their
    wrappers) on a node that is not an element. -/
def Call.documentedPanic (f : Forest) : Call → Bool
  | .mapInsert _ n _ | .mapRemove _ n _ | .mapClear _ n | .setElementName n _ => !f.isElement n
  | _ => false

end Forest
end XotModel
