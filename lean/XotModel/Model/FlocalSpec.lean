/-
  XotModel.Model.FlocalSpec — specification vocabulary for the "every call" forms of C12 (locality)
  and C04 (a handle keeps its meaning): histories whose steps are the calls of `Forest.Call`
  (FatomSpec.lean) plus the three store operations that are not calls on nodes of that type
  (node creation, `set_text_consolidation`, `remove_insignificant_whitespace`), the node arguments
  of a step, and the handles whose value a step may overwrite.
  (Specification only: nothing here is executed by the driver.)
-/
import XotModel.Model.FatomSpec
import XotModel.Model.FinvSpec

namespace XotModel
namespace Forest

/-- One step of a history. -/
inductive HStep where
  | call (c : Call)
  | newNode (v : Value)
  | setConsolidation (b : Bool)
  | removeInsignificantWhitespace (node : Nat)

/-- The node arguments of a step. -/
def HStep.args : HStep → List Nat
  | .call c => c.args
  | .removeInsignificantWhitespace n => [n]
  | .newNode _ => []
  | .setConsolidation _ => []

/-- The state after the step, whatever the call answered (`ok`, `err`, `panic`). -/
def stepAll (f : Forest) : HStep → Forest
  | .call c => (c.run f).1
  | .newNode v => (f.newNode v).1
  | .setConsolidation b => f.setConsolidation b
  | .removeInsignificantWhitespace n => f.removeInsignificantWhitespace n

/-- A history. -/
def runAll (f : Forest) (ss : List HStep) : Forest := ss.foldl stepAll f

/-- The text node `text_content_mut(node)` hands out for writing: the only child, or — for an element
    without normal children — the empty text node it creates and appends first. -/
def textContentTarget (f : Forest) (node : Nat) : Option Nat :=
  match f.firstChild node with
  | some c => some c
  | none => ((f.newText []).1.append node (f.newText []).2).1.firstChild node

/-- The entry node an `insert_node(child)` into the map `k` of `parent` would update: the one that
    already carries `child`'s key. -/
def entryTarget (f : Forest) (k : MapKind) (parent child : Nat) : List Nat :=
  match f.value? child with
  | some v => ((f.mapGetNode k parent (entryKey v)).map (·.handle)).toList
  | none => []

/-- The handles whose value the call may overwrite (other than by text consolidation, which only
    ever extends the content of a text node): the argument of a setter, the text node of
    `text_content_mut`, the existing entry node of the key of a map insertion. -/
def Call.targets (f : Forest) : Call → List Nat
  | .setElementName n _ | .setText n _ | .setComment n _ | .setPiData n _ => [n]
  | .textContentSet n _ => (f.textContentTarget n).toList
  | .mapInsert k p e => ((f.mapGetNode k p (entryKey e)).map (·.handle)).toList
  | .appendEntryNode k p c => f.entryTarget k p c
  | .anyAppend p c =>
    (match f.value? c with
     | some (.namespace _ _) => f.entryTarget .namespaces p c
     | some (.attribute _ _) => f.entryTarget .attributes p c
     | _ => [])
  | _ => []

def HStep.targets (f : Forest) : HStep → List Nat
  | .call c => c.targets f
  | _ => []

/-- The node-returning reads of the forest (access.rs navigation, node-map views), as data. -/
inductive Read where
  | parent (n : Nat) | firstChild (n : Nat) | lastChild (n : Nat)
  | nextSibling (n : Nat) | previousSibling (n : Nat) | ancestors (n : Nat)
  | children (n : Nat) | descendants (n : Nat)
  | mapNodes (k : MapKind) (n : Nat) | mapGetNode (k : MapKind) (n key : Nat)
  | roots

/-- Every handle the read hands out. -/
def Read.result (f : Forest) : Read → List Nat
  | .parent n => (f.parent? n).toList
  | .firstChild n => (f.firstChild n).toList
  | .lastChild n => (f.lastChild n).toList
  | .nextSibling n => (f.nextSibling n).toList
  | .previousSibling n => (f.prevSibling n).toList
  | .ancestors n => f.ancestors n
  | .children n => ((f.get? n).map (fun t => t.kids.map (·.handle))).getD []
  | .descendants n => ((f.get? n).map HTree.handles).getD []
  | .mapNodes k n => ((f.get? n).map (fun t => (mapChildren k t).map (·.handle))).getD []
  | .mapGetNode k n key => ((f.mapGetNode k n key).map (·.handle)).toList
  | .roots => f.roots.map (·.handle)

end Forest

/-- The calls of the C04 history type `Op` as steps. -/
def Op.toStep : Op → Forest.HStep
  | .newDocument => .newNode .document
  | .newElement n => .newNode (.element n)
  | .newText s => .newNode (.text s)
  | .newComment s => .newNode (.comment s)
  | .newPi t d => .newNode (.pi t d)
  | .newAttributeNode n v => .newNode (.attribute n v)
  | .newNamespaceNode p n => .newNode (.namespace p n)
  | .append p c => .call (.append p c)
  | .prepend p c => .call (.prepend p c)
  | .insertAfter r n => .call (.insertAfter r n)
  | .insertBefore r n => .call (.insertBefore r n)
  | .detach n => .call (.detach n)
  | .remove n => .call (.remove n)
  | .anyAppend p c => .call (.anyAppend p c)
  | .appendAttributeNode p c => .call (.appendEntryNode .attributes p c)
  | .appendNamespaceNode p c => .call (.appendEntryNode .namespaces p c)
  | .attrInsert p n v => .call (.mapInsert .attributes p (.attribute n v))
  | .nsInsert p pf ns => .call (.mapInsert .namespaces p (.namespace pf ns))
  | .attrRemove p n => .call (.mapRemove .attributes p n)
  | .nsRemove p pf => .call (.mapRemove .namespaces p pf)
  | .attrClear p => .call (.mapClear .attributes p)
  | .nsClear p => .call (.mapClear .namespaces p)
  | .setElementName n name => .call (.setElementName n name)
  | .setText n s => .call (.setText n s)
  | .setComment n s => .call (.setComment n s)
  | .setPiData n d => .call (.setPiData n d)
  | .textContentSet n s => .call (.textContentSet n s)
  | .setConsolidation b => .setConsolidation b
  | .removeInsignificantWhitespace n => .removeInsignificantWhitespace n
  | .replace a b => .call (.replace a b)
  | .elementWrap n name => .call (.elementWrap n name)
  | .elementUnwrap n => .call (.elementUnwrap n)
  | .cloneNode n => .call (.cloneNode n)

/-- The node arguments of an `Op`, and the handles whose value it may overwrite. -/
def Op.args (o : Op) : List Nat := o.toStep.args
def Op.targets (f : Forest) (o : Op) : List Nat := o.toStep.targets f

/-- No call of the history (run from `f`) has `h` among the handles it may overwrite, each call
    judged in the state it is issued in. -/
def Forest.neverTarget (h : Nat) : Forest → List Op → Prop
  | _, [] => True
  | f, o :: os => h ∉ o.targets f ∧ Forest.neverTarget h (f.step o) os

instance Forest.decNeverTarget (h : Nat) : ∀ (f : Forest) (ops : List Op), Decidable (Forest.neverTarget h f ops)
  | _, [] => isTrue trivial
  | f, o :: os =>
    have := Forest.decNeverTarget h (f.step o) os
    inferInstanceAs (Decidable (h ∉ o.targets f ∧ Forest.neverTarget h (f.step o) os))

end XotModel
