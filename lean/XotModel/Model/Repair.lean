/-
  XotModel.Model.Repair — `create_missing_prefixes` (nameaccess.rs, as rewritten in /repo afee7b1 +
  00371b1), on static trees.

  * `insertNamespace`            : `namespaces_mut(node).insert(prefix, ns)` (nodemap/core.rs
                                   `MutableNodeMap::insert` with the `NamespaceAdapter`): the first
                                   namespace child with the key is updated in place, otherwise a new
                                   namespace node goes after the last namespace child
  * `Env.addPrefix`              : `add_prefix` = `prefix_lookup.get_id_mut`
  * `repairStep` / `repairWalk`  : the traversal of `create_missing_prefixes_for_element`
  * `freshPrefix`, `assignPrefixes` : the `n{counter}` loop
  * `applyRepair`                : the two insertion loops
  * `repairElement`, `createMissingPrefixes`

  Node identity is a path of raw child indices; the arena's handles stay valid while namespace
  nodes are inserted, paths of later siblings do not.  `applyRepair` therefore rebuilds the subtree
  once, giving every node exactly the `insert` calls the Rust issues on it, in the Rust's order for
  that node (calls on different nodes touch disjoint child lists, so their relative order is not
  observable).
-/
import XotModel.Model.Scope

namespace XotModel

/-! ### `MutableNodeMap::insert` on the namespace view -/

/-- On the child list: `get_node(key)` searches the leading run of namespace nodes
    (`take_while(category = Namespace)`); a hit is updated (`A::update`), otherwise the new node is
    inserted after the last node of that run (`insertion_point`; `checked_prepend` for an empty run). -/
def insertNsKid (p ns : Nat) : List Tree → List Tree
  | [] => [.node (.namespace p ns) []]
  | k :: ks =>
    match k.value with
    | .namespace q _ =>
      if q == p then .node (.namespace q ns) k.kids :: ks else k :: insertNsKid p ns ks
    | _ => .node (.namespace p ns) [] :: k :: ks

/-- `xot.namespaces_mut(node).insert(p, ns)`. -/
def insertNamespace (p ns : Nat) : Tree → Tree
  | .node v ks => .node v (insertNsKid p ns ks)

/-- A list of `insert` calls on one node, in order. -/
def insertNamespaces (decls : List (Nat × Nat)) (t : Tree) : Tree :=
  decls.foldl (fun t d => insertNamespace d.1 d.2 t) t

/-! ### `add_prefix` -/

/-- `add_prefix(s)` = `prefix_lookup.get_id_mut(s)`: the id of `s`, registering it first when new. -/
def Env.addPrefix (env : Env) (s : Str) : Env × Nat :=
  match env.prefixes.findIdx? (· == s) with
  | some i => (env, i)
  | none => ({ env with prefixes := env.prefixes ++ [s] }, env.prefixes.length)

/-- `format!("n{}", counter)`. -/
def generatedPrefixName (counter : Nat) : Str := 'n' :: Nat.toDigits 10 counter

/-! ### The traversal of `create_missing_prefixes_for_element` -/

/-- `if !missing_namespace_ids.contains(&ns) { missing_namespace_ids.push(ns) }`. -/
def addMissing (m : List Nat) (ns : Nat) : List Nat := if m.contains ns then m else m ++ [ns]

/-- The declarations the walk continues with below an element that will get `xmlns=""`:
    `declarations.retain(prefix != empty); declarations.push((empty, no_namespace))`. -/
def undeclaredDecls (decls : List (Nat × Nat)) : List (Nat × Nat) :=
  decls.filter (fun d => d.1 != Env.emptyPrefix) ++ [(Env.emptyPrefix, Env.noNamespace)]

/-- The two name checks of one element against the name stack: `element_fullname(name).is_err()`,
    then `attribute_fullname(a).is_err()` for every attribute, in view order. -/
def missingOfElement (env : Env) (fs : FStack) (name : Nat) (attrNames : List Nat) (m : List Nat) :
    List Nat :=
  attrNames.foldl
    (fun m a => if !exceptIsOk (fs.attributeFullname env a) then addMissing m (env.nsOfName a) else m)
    (if !exceptIsOk (fs.elementFullname env name) then addMissing m (env.nsOfName name) else m)

/-- Loop state: the name stack, `pushed`, `missing_namespace_ids`, `undeclare_nodes`,
    `used_prefix_ids` (a hash set: only membership is ever asked), and whether
    `pushed.pop().unwrap()` met an empty vector. -/
structure RepairState where
  fs : FStack
  pushed : List Bool := []
  missing : List Nat := []
  undeclare : List Path := []
  used : List Nat := []
  panicked : Bool := false
  deriving Repr

/-- `NodeEdge::Start(node)` for an element. -/
def repairStart (env : Env) (st : RepairState) (path : Path) (t : Tree) (name : Nat) : RepairState :=
  let decls := t.nsDecls
  let fs1 := st.fs.push decls
  let und := env.nsOfName name == Env.noNamespace && fs1.hasDefaultNamespace
  -- from here on down the default namespace is undeclared
  let decls' := if und then undeclaredDecls decls else decls
  let fs2 := if und then (fs1.pop (!decls.isEmpty)).push decls' else fs1
  { fs := fs2
    pushed := (!decls'.isEmpty) :: st.pushed
    missing := missingOfElement env fs2 name (t.attrs.map (·.1)) st.missing
    undeclare := if und then st.undeclare ++ [path] else st.undeclare
    used := st.used ++ decls.map (·.1)
    panicked := st.panicked }

/-- One iteration of `for edge in self.traverse(node)`. -/
def repairStep (env : Env) (st : RepairState) : ScopeEdge → RepairState
  | .start path t =>
    match t.value with
    | .element name => repairStart env st path t name
    | _ => st
  | .stop _ t =>
    if t.value.isElement then
      match st.pushed with
      | b :: rest => { st with fs := st.fs.pop b, pushed := rest }
      | [] => { st with panicked := true }
    else st

/-- The whole loop over the subtree `sub` at `path`, starting from the inherited declarations. -/
def repairWalk (env : Env) (inherited : List (Nat × Nat)) (path : Path) (sub : Tree) : RepairState :=
  (scopeTraverse path sub).foldl (repairStep env) { fs := FStack.new inherited }

/-! ### New prefixes -/

/-- `loop { let p = add_prefix("n{counter}"); counter += 1; if !used.contains(p) { break p } }`.
    Every iteration that does not break names a different member of `used`, so `used.length + 1`
    iterations suffice; `none` stands for a loop that does not end (it cannot be reached). -/
def freshPrefix (used : List Nat) : Nat → Env → Nat → Option (Env × Nat × Nat)
  | 0, _, _ => none
  | fuel + 1, env, counter =>
    let r := env.addPrefix (generatedPrefixName counter)
    if !used.contains r.2 then some (r.1, r.2, counter + 1)
    else freshPrefix used fuel r.1 (counter + 1)

/-- `for namespace_id in missing_namespace_ids { … used.insert(p); insert(p, namespace_id) }`:
    the final interning table and the `(prefix, namespace)` pairs inserted, in order. -/
def assignPrefixes : Env → List Nat → Nat → List Nat → Option (Env × List (Nat × Nat))
  | env, _, _, [] => some (env, [])
  | env, used, counter, ns :: rest =>
    match freshPrefix used (used.length + 1) env counter with
    | none => none
    | some (env1, p, counter1) =>
      match assignPrefixes env1 (p :: used) counter1 rest with
      | none => none
      | some (env2, l) => some (env2, (p, ns) :: l)

/-! ### The insertions -/

/-- The subtree below (and including) the repaired element, rebuilt: the element at `top` receives
    the new prefix declarations, then every node listed in `undeclare` receives
    `insert(empty_prefix, no_namespace)`.  `cur` is the path of the node in the tree before the
    call. -/
def applyRepair (newDecls : List (Nat × Nat)) (undeclare : List Path) (top : Path) :
    Path → Tree → Tree
  | cur, .node v ks =>
    let n1 := Tree.node v (applyKids newDecls undeclare top cur 0 ks)
    let n2 := if cur == top then insertNamespaces newDecls n1 else n1
    if undeclare.contains cur then insertNamespace Env.emptyPrefix Env.noNamespace n2 else n2
where
  applyKids (newDecls : List (Nat × Nat)) (undeclare : List Path) (top : Path) :
      Path → Nat → List Tree → List Tree
    | _, _, [] => []
    | cur, i, k :: ks =>
      applyRepair newDecls undeclare top (cur ++ [i]) k :: applyKids newDecls undeclare top cur (i + 1) ks

/-! ### `create_missing_prefixes` -/

/-- The declarations the element inherits: `namespaces_in_scope(parent)`, or `base_prefixes()` for
    a parentless element. -/
def inheritedDecls (t : Tree) (path : Path) : List (Nat × Nat) :=
  if path.isEmpty then basePrefixes else (namespacesInScope t path.dropLast).getD []

/-- `create_missing_prefixes_for_element(node)` for the element at `path` of `t`. -/
def repairElement (env : Env) (t : Tree) (path : Path) : Outcome XotError (Env × Tree) :=
  match t.at? path with
  | none => .panic
  | some sub =>
    let st := repairWalk env (inheritedDecls t path) path sub
    if st.panicked then .panic
    else
      -- prefixes in scope of the node must not be overridden either
      let used := st.used ++ ((namespacesInScope t path).getD []).map (·.1)
      match assignPrefixes env used 0 st.missing with
      | none => .panic
      | some (env', newDecls) =>
        .ok (env', scopeModifyAt (applyRepair newDecls st.undeclare path path) t path)

/-- Raw indices of the element children (`children(node).filter(is_element)`: an element is a
    normal node, so every element child is among `normal_children`). -/
def elementKidIndices (ks : List Tree) : List Nat :=
  (List.range ks.length).filter (fun i => match ks[i]? with
    | some k => k.value.isElement
    | none => false)

/-- The `for element in elements` loop of the document branch. -/
def repairElements : List Nat → Path → Env → Tree → Outcome XotError (Env × Tree)
  | [], _, env, t => .ok (env, t)
  | i :: rest, path, env, t =>
    match repairElement env t (path ++ [i]) with
    | .ok (env', t') => repairElements rest path env' t'
    | .err e => .err e
    | .panic => .panic

/-- `create_missing_prefixes(node)` for the node at `path` of `t`; the result is the interning
    tables (new prefixes registered) and the tree after the call. -/
def createMissingPrefixes (env : Env) (t : Tree) (path : Path) : Outcome XotError (Env × Tree) :=
  match t.at? path with
  | none => .panic
  | some node =>
    if node.value.isDocument then
      -- a fragment can have more than one element at the top
      let elements := elementKidIndices node.kids
      if elements.isEmpty then .err .noElementAtTopLevel
      else repairElements elements path env t
    else if !node.value.isElement then .err .notElement
    else repairElement env t path

end XotModel
