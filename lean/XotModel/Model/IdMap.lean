/-
  XotModel.Model.IdMap — the interning tables of xot (src/id/idmap.rs, name.rs, namespace.rs,
  prefix.rs), `Xot::new`'s built-in registrations (src/xotdata.rs) and the registration / lookup
  API of src/nameaccess.rs, as written.

  * `by_id : Vec<V>` is a list; `by_value : HashMap<V, K>` is a finite map represented as an
    association list: `get` = first match (`List.lookup`), `insert` = cons (a newer binding of a
    key shadows the older one, which is what `HashMap::insert` means for `get`).
  * Ids are `Nat`; `to_id` is `index as uN`, an unchecked narrowing cast: `n % 2^bits`, with
    `bits` read off the source (`Gen.nameIdBits`, `Gen.namespaceIdBits`, `Gen.prefixIdBits`).
  * `by_id[from_id(id)]` panics when out of range: `Option`, `none` = panic.
-/
import XotModel.Model.Basic
import XotModel.Generated

namespace XotModel

/-- `IdIndex::to_id`: `Id(index as uN)`. -/
def toId (bits n : Nat) : Nat := n % 2 ^ bits

/-- `struct IdMap { by_id: Vec<V>, by_value: HashMap<V, K> }`. -/
structure IdMap (α : Type) where
  byId : List α := []
  byValue : List (α × Nat) := []
  deriving Repr

namespace IdMap
variable {α : Type} [DecidableEq α]

/-- `IdMap::new`. -/
def empty : IdMap α := {}

/-- `IdMap::get_id_mut`: look the value up; if absent, the new id is `to_id(by_id.len())`, the pair
    goes into `by_value` and the value is pushed onto `by_id`. -/
def getIdMut (bits : Nat) (m : IdMap α) (v : α) : IdMap α × Nat :=
  match m.byValue.lookup v with
  | some id => (m, id)
  | none =>
    let id := toId bits m.byId.length
    ({ byId := m.byId ++ [v], byValue := (v, id) :: m.byValue }, id)

/-- `IdMap::get_id`. -/
def getId (m : IdMap α) (v : α) : Option Nat := m.byValue.lookup v

/-- `IdMap::get_value`: `&self.by_id[K::from_id(id)]` (`from_id` = `id.0 as usize`, the identity);
    `none` = index-out-of-bounds panic. -/
def getValue (m : IdMap α) (id : Nat) : Option α := m.byId[id]?

/-- A history of `get_id_mut` calls: the table reached and the ids returned, in order. -/
def registerAll (bits : Nat) (m : IdMap α) : List α → IdMap α × List Nat
  | [] => (m, [])
  | v :: vs =>
    let r := getIdMut bits m v
    let rs := registerAll bits r.1 vs
    (rs.1, r.2 :: rs.2)

/-- Closed form of `registerAll` for pairwise distinct values none of which is in the table
    (`registerAll_fresh` in `Lemmas/IdMap.lean`): linear instead of quadratic time. -/
def registerFresh (bits : Nat) (m : IdMap α) (vs : List α) : IdMap α × List Nat :=
  let ids := (List.range vs.length).map (fun i => toId bits (m.byId.length + i))
  ({ byId := m.byId ++ vs, byValue := (vs.zip ids).reverse ++ m.byValue }, ids)

/-- `registerAll` of `f 0, …, f (n-1)`; the driver's entry point for the one long history of the
    `idmap` suite.  Equal to `registerAll bits m ((List.range n).map f)` for injective `f`
    (`registerRange_eq`). -/
def registerRange (bits : Nat) (m : IdMap α) (f : Nat → α) (n : Nat) : IdMap α × List Nat :=
  let vs := (List.range n).map f
  if vs.all (fun v => (m.byValue.lookup v).isNone) then registerFresh bits m vs
  else registerAll bits m vs

end IdMap

/-- `n0`, `n1`, … : the values of the long history (`format!("{}{}", p, i)` in the harness). -/
def bulkValue (p : Str) (i : Nat) : Str := p ++ Nat.toDigits 10 i

/-! ### The three tables of a `Xot` and `Xot::new` -/

/-- `struct Name { name: String, namespace_id: NamespaceId }`. -/
abbrev NameKey := Str × Nat

/-- The interning part of `struct Xot` (src/xotdata.rs). -/
structure Interner where
  namespaceLookup : IdMap Str := {}
  prefixLookup : IdMap Str := {}
  nameLookup : IdMap NameKey := {}
  noNamespaceId : Nat := 0
  emptyPrefixId : Nat := 0
  xmlNamespaceId : Nat := 0
  xmlPrefixId : Nat := 0
  xmlSpaceId : Nat := 0
  xmlIdId : Nat := 0
  deriving Repr

namespace Interner
open Gen

/-- The local variables of `Xot::new` while it runs: the three tables and the `let`-bound ids. -/
structure NewState where
  ns : IdMap Str := {}
  pf : IdMap Str := {}
  nm : IdMap NameKey := {}
  vars : List (Str × Nat) := []

/-- One `let field = table.get_id_mut(value)` of `Xot::new`. -/
def NewState.step (s : NewState) (r : BuiltinReg) : NewState :=
  match r.table with
  | .namespace =>
    let t := s.ns.getIdMut namespaceIdBits r.value
    { s with ns := t.1, vars := (r.field, t.2) :: s.vars }
  | .prefix =>
    let t := s.pf.getIdMut prefixIdBits r.value
    { s with pf := t.1, vars := (r.field, t.2) :: s.vars }
  | .name =>
    -- `Name::new(value, ns_var)`; the extractor guarantees `ns_var` is bound earlier
    let nsId := ((r.nsField.bind fun f => s.vars.lookup f)).getD 0
    let t := s.nm.getIdMut nameIdBits (r.value, nsId)
    { s with nm := t.1, vars := (r.field, t.2) :: s.vars }

def NewState.var (s : NewState) (field : Str) : Nat := (s.vars.lookup field).getD 0

/-- `Xot::new`: the registrations `Gen.builtinRegistrations` in source order, then the struct
    literal (shorthand fields). -/
def new : Interner :=
  let s := builtinRegistrations.foldl NewState.step {}
  { namespaceLookup := s.ns
    prefixLookup := s.pf
    nameLookup := s.nm
    noNamespaceId := s.var ['n','o','_','n','a','m','e','s','p','a','c','e','_','i','d']
    emptyPrefixId := s.var ['e','m','p','t','y','_','p','r','e','f','i','x','_','i','d']
    xmlNamespaceId := s.var ['x','m','l','_','n','a','m','e','s','p','a','c','e','_','i','d']
    xmlPrefixId := s.var ['x','m','l','_','p','r','e','f','i','x','_','i','d']
    xmlSpaceId := s.var ['x','m','l','_','s','p','a','c','e','_','i','d']
    xmlIdId := s.var ['x','m','l','_','i','d','_','i','d'] }

/-! ### src/nameaccess.rs -/

/-- `Xot::name_ns`. -/
def nameNs (x : Interner) (name : Str) (nsId : Nat) : Option Nat := x.nameLookup.getId (name, nsId)

/-- `Xot::name`. -/
def name (x : Interner) (n : Str) : Option Nat := x.nameNs n x.noNamespaceId

/-- `Xot::add_name_ns`. -/
def addNameNs (x : Interner) (name : Str) (nsId : Nat) : Interner × Nat :=
  let t := x.nameLookup.getIdMut nameIdBits (name, nsId)
  ({ x with nameLookup := t.1 }, t.2)

/-- `Xot::add_name`. -/
def addName (x : Interner) (name : Str) : Interner × Nat := x.addNameNs name x.noNamespaceId

/-- `Xot::namespace`. -/
def «namespace» (x : Interner) (ns : Str) : Option Nat := x.namespaceLookup.getId ns

/-- `Xot::add_namespace`. -/
def addNamespace (x : Interner) (ns : Str) : Interner × Nat :=
  let t := x.namespaceLookup.getIdMut namespaceIdBits ns
  ({ x with namespaceLookup := t.1 }, t.2)

/-- `Xot::prefix`. -/
def «prefix» (x : Interner) (p : Str) : Option Nat := x.prefixLookup.getId p

/-- `Xot::add_prefix`. -/
def addPrefix (x : Interner) (p : Str) : Interner × Nat :=
  let t := x.prefixLookup.getIdMut prefixIdBits p
  ({ x with prefixLookup := t.1 }, t.2)

/-- `Xot::namespace_str` (`none` = panic). -/
def namespaceStr (x : Interner) (ns : Nat) : Option Str := x.namespaceLookup.getValue ns

/-- `Xot::prefix_str` (`none` = panic). -/
def prefixStr (x : Interner) (p : Nat) : Option Str := x.prefixLookup.getValue p

/-- `Xot::name_ns_str`: the name entry, then the string of its namespace id (`none` = panic). -/
def nameNsStr (x : Interner) (n : Nat) : Option (Str × Str) :=
  match x.nameLookup.getValue n with
  | none => none
  | some nm =>
    match x.namespaceLookup.getValue nm.2 with
    | none => none
    | some ns => some (nm.1, ns)

/-- `Xot::local_name_str`. -/
def localNameStr (x : Interner) (n : Nat) : Option Str := (x.nameLookup.getValue n).map (·.1)

/-- `Xot::uri_str`. -/
def uriStr (x : Interner) (n : Nat) : Option Str :=
  match x.nameLookup.getValue n with
  | none => none
  | some nm => x.namespaceStr nm.2

/-- `Xot::namespace_for_name`. -/
def namespaceForName (x : Interner) (n : Nat) : Option Nat := (x.nameLookup.getValue n).map (·.2)

/-- `#[derive(Clone)]` on `Xot`, `IdMap`, `Name` (checked by the extractor:
    `Gen.interningCloneIsDerived`): every field is cloned by `Vec::clone` / `HashMap::clone` /
    `String::clone` / `Copy`, each of which yields an equal value.  On the model, where values have
    no identity, that is the identity function. -/
def clone (x : Interner) : Interner := x

end Interner
end XotModel
