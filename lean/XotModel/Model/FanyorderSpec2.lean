/-
  XotModel.Model.FanyorderSpec2 — EXTENDED construction programs for C20: a construction order that
  also MOVES things.  Embeds the programs of `FanyorderSpec.lean` (`Step.base`) and adds

    detach n          the subtree becomes a parentless tree again (to be attached elsewhere)
    remove n          a helper node (a placeholder, a scaffold) disappears
    replace old new   a placeholder is replaced by the real node
    wrap n name       `element_wrap`: an existing node is put into a new element
    unwrap n          `element_unwrap`: a helper wrapper is dissolved, its children take its place
    setText / setElementName / setAttributeValue / setComment / setPiData
                      a value is set late (text, element name, value of an attribute node, comment,
                      PI data)
    clone n           `clone_node` of a template subtree (the copy is a new parentless tree)

  As in `FanyorderSpec.lean` a step names a node by the index of the step that CREATED it; here three
  kinds of step create a (named) node: `create`, `wrap` (the wrapper) and `clone` (the root of the
  copy).

  Two interpreters:

  * `runImpl`: the calls as xot performs them (`Model/Manip.lean`, `Manip2.lean`, `Fcreation.lean`);
  * `runSpec`: the ordered-tree SPECIFICATION of C05 — `specDetachP`, `specRemoveP`, `specUnwrapP`,
    `specReplaceP` (the pair reading of "text nodes that become adjacent are merged",
    `Model/FspecSpec3.lean` / `FspecSpec4.lean`), `specWrap`, `specSetValue`, `specClone`.  Whether
    a step makes sense at all is decided on the ordered tree too (`replaceOk`, `wrapOk`,
    `unwrapOk`, the kind of the node for the setters); an ill-formed step makes the program
    ill-formed (`none`).

  `Constructs`: the program, run on the specification, ends in a store in which a designated
  created node carries `treeOf d`.
-/
import XotModel.Model.FanyorderSpec
import XotModel.Model.FspecSpec4
import XotModel.Model.Fcreation

namespace XotModel
namespace Prog2
open Spec
open Prog (State extend holdsChildren movable isElementAt)

/-- One step of an extended construction program; `Nat` node arguments are indices of creating
    steps (`create`, `wrap`, `clone`), counted from 0 in program order. -/
inductive Step where
  | base (s : Prog.Step)
  | detach (n : Nat)
  | remove (n : Nat)
  | replace (old new : Nat)
  /-- `element_wrap(n, name)`; creates the wrapper -/
  | wrap (n name : Nat)
  | unwrap (n : Nat)
  /-- `text_mut(n).set(s)` -/
  | setText (n : Nat) (s : Str)
  /-- `set_element_name(n, name)` -/
  | setElementName (n name : Nat)
  /-- `attribute_node_mut(n).set_value(s)` -/
  | setAttributeValue (n : Nat) (s : Str)
  /-- `comment_mut(n).set(s)` -/
  | setComment (n : Nat) (s : Str)
  /-- `processing_instruction_mut(n).set_data(d)` -/
  | setPiData (n : Nat) (d : Option Str)
  /-- `clone_node(n)`; creates the root of the copy -/
  | clone (n : Nat)
  deriving Repr, DecidableEq, Inhabited

abbrev Program := List Step

/-- A step whose node indices have been resolved to node names (handles). -/
inductive Call where
  | base (c : Prog.Call)
  | detach (n : Nat)
  | remove (n : Nat)
  | replace (old new : Nat)
  | wrap (n name : Nat)
  | unwrap (n : Nat)
  | setText (n : Nat) (s : Str)
  | setElementName (n name : Nat)
  | setAttributeValue (n : Nat) (s : Str)
  | setComment (n : Nat) (s : Str)
  | setPiData (n : Nat) (d : Option Str)
  | clone (n : Nat)
  deriving Repr, DecidableEq, Inhabited

/-- Resolve one node index. -/
def at1 (env : List Nat) (n : Nat) (k : Nat → Call) : Option Call :=
  match env[n]? with
  | some h => some (k h)
  | none => none

def Step.resolve (env : List Nat) : Step → Option Call
  | .base s => (s.resolve env).map .base
  | .detach n => at1 env n .detach
  | .remove n => at1 env n .remove
  | .replace old new =>
    match env[old]?, env[new]? with
    | some a, some b => some (.replace a b)
    | _, _ => none
  | .wrap n name => at1 env n (fun h => .wrap h name)
  | .unwrap n => at1 env n .unwrap
  | .setText n s => at1 env n (fun h => .setText h s)
  | .setElementName n name => at1 env n (fun h => .setElementName h name)
  | .setAttributeValue n s => at1 env n (fun h => .setAttributeValue h s)
  | .setComment n s => at1 env n (fun h => .setComment h s)
  | .setPiData n d => at1 env n (fun h => .setPiData h d)
  | .clone n => at1 env n .clone

/-! ### The implementation side -/

/-- One call on the forest model: state reached, outcome, node created (if any). -/
def Call.impl (f : Forest) : Call → Forest × Res × Option Nat
  | .base c => c.impl f
  | .detach n => let (f', r) := f.detach n; (f', r, none)
  | .remove n => let (f', r) := f.remove n; (f', r, none)
  | .replace a b => let (f', r) := f.replace a b; (f', r, none)
  | .wrap n name => let (f', r, w) := f.elementWrap n name; (f', r, some w)
  | .unwrap n => let (f', r) := f.elementUnwrap n; (f', r, none)
  | .setText n s => let (f', r) := f.setText n s; (f', r, none)
  | .setElementName n name => let (f', r) := f.setElementName n name; (f', r, none)
  | .setAttributeValue n s => let (f', r) := f.attributeSetValue n s; (f', r, none)
  | .setComment n s => let (f', r) := f.setComment n s; (f', r, none)
  | .setPiData n d => let (f', r) := f.setPiData n d; (f', r, none)
  | .clone n =>
    match f.cloneNode n with
    | (f', some c) => (f', .ok, some c)
    | (f', none) => (f', .panic, none)

def stepImpl (s : State) (st : Step) : State × Res :=
  match st.resolve s.env with
  | none => (s, .panic)
  | some c =>
    match c.impl s.forest with
    | (f', r, o) => ({ forest := f', env := extend s.env o }, r)

/-- Run a program; stops after the first step whose outcome is not `ok`. -/
def runImpl (s : State) : Program → State × Res
  | [] => (s, .ok)
  | st :: rest =>
    match stepImpl s st with
    | (s', .ok) => runImpl s' rest
    | (s', r) => (s', r)

/-! ### The specification side -/

/-- A node that may stand in a child list as a normal child and may be moved, wrapped, replaced:
    element, text, comment, PI. -/
def isMovableAt (f : Forest) (n : Nat) : Bool := (f.value? n).map movable == some true

/-- Does "replace `old` by `new`" make sense on the ordered tree?  `old` is a normal child (element,
    text, comment, PI) of an element or document `q`; `new` exists, is an element / text / comment /
    PI, is neither `q` nor one of its ancestors, and does not lie inside the subtree `old`
    (in particular `new ≠ old`). -/
def replaceOk (f : Forest) (old new : Nat) : Bool :=
  match f.parent? old with
  | none => false
  | some q =>
    isMovableAt f old &&
    ((f.value? q).map holdsChildren == some true) &&
    !(f.ancestors q).contains new &&
    isMovableAt f new &&
    !(f.ancestors new).contains old

/-- Does "wrap `n` in a new element" make sense?  `n` is an element, text, comment or PI; a child
    of a document node only if it is the document element (a document has one element child). -/
def wrapOk (f : Forest) (n : Nat) : Bool :=
  isMovableAt f n &&
  (match f.parent? n with
   | some p => !((f.value? p).map Value.isDocument == some true) || isElementAt f n
   | none => true)

/-- Does "dissolve the wrapper `n`" make sense?  `n` is an element; if it has normal children it
    has a parent (whose children they become). -/
def unwrapOk (f : Forest) (n : Nat) : Bool :=
  isElementAt f n &&
  (((f.kidsOf n).filter (fun k => k.value.isNormal)).isEmpty || (f.parent? n).isSome)

/-- One call on the specification: `none` = ill-formed. -/
def Call.spec (f : Forest) : Call → Option (Forest × Option Nat)
  | .base c => c.spec f
  | .detach n => if f.isLive n then some (specDetachP n f, none) else none
  | .remove n => if f.isLive n then some (specRemoveP n f, none) else none
  | .replace a b => if replaceOk f a b then some (specReplaceP a b f, none) else none
  | .wrap n name => if wrapOk f n then some (specWrap n name f, some f.next) else none
  | .unwrap n => if unwrapOk f n then some (specUnwrapP n f, none) else none
  | .setText n s =>
    match f.value? n with
    | some (.text _) => some (specSetValue n (.text s) f, none)
    | _ => none
  | .setElementName n name =>
    if isElementAt f n then some (specSetValue n (.element name) f, none) else none
  | .setAttributeValue n s =>
    match f.value? n with
    | some (.attribute k _) => some (specSetValue n (.attribute k s) f, none)
    | _ => none
  | .setComment n s =>
    match f.value? n with
    | some (.comment _) => if Forest.hasDoubleDash s then none else some (specSetValue n (.comment s) f, none)
    | _ => none
  | .setPiData n d =>
    match f.value? n with
    | some (.pi t _) => some (specSetValue n (.pi t (piData d)) f, none)
    | _ => none
  | .clone n =>
    match f.get? n with
    | some src => some (specClone n f, some (copyRoot f.consolidation f.next src).1.handle)
    | none => none

def stepSpec (s : State) (st : Step) : Option State :=
  match st.resolve s.env with
  | none => none
  | some c =>
    match c.spec s.forest with
    | none => none
    | some (f', o) => some { forest := f', env := extend s.env o }

/-- Run a program on the specification; `none`: some step is ill-formed. -/
def runSpec (s : State) : Program → Option State
  | [] => some s
  | st :: rest =>
    match stepSpec s st with
    | none => none
    | some s' => runSpec s' rest

/-- The index of the first step the specification rejects. -/
def firstIllFormed (s : State) : Program → Option Nat
  | [] => none
  | st :: rest =>
    match stepSpec s st with
    | none => some 0
    | some s' => (firstIllFormed s' rest).map (· + 1)

/-- The index of the first step the implementation does not answer `ok`. -/
def firstRefused (s : State) : Program → Option Nat
  | [] => none
  | st :: rest =>
    match stepImpl s st with
    | (s', .ok) => (firstRefused s' rest).map (· + 1)
    | _ => some 0

def runImplF (f : Forest) (P : Program) : Forest × Res :=
  ((runImpl { forest := f } P).1.forest, (runImpl { forest := f } P).2)

def runSpecF (f : Forest) (P : Program) : Option Forest :=
  (runSpec { forest := f } P).map (·.forest)

/-- An old program as an extended one. -/
def ofBase (P : Prog.Program) : Program := P.map .base

/-- Calls outside the direction implementation ⇒ specification: what `Prog.Call.inScope` excludes,
    and `detach` / `remove` of a node that does not exist (any more) — the model answers `ok` and
    changes nothing; the specification calls the step ill-formed. -/
def Call.inScope (f : Forest) : Call → Bool
  | .base c => c.inScope f
  | .detach n => f.isLive n
  | .remove n => f.isLive n
  | _ => true

def inScope (s : State) : Program → Bool
  | [] => true
  | st :: rest =>
    (match st.resolve s.env with
     | none => true
     | some c => c.inScope s.forest) &&
    (match stepImpl s st with
     | (s', .ok) => inScope s' rest
     | _ => true)

/-! ### Constructions of an abstract document -/

/-- `P`, run in the store `f`, ends in the abstract document `d` at the node created by the
    `root`-th creating step: the specification accepts every step and in its final state that
    node's subtree is `treeOf d`.  Helper nodes that were removed, dissolved wrappers, replaced
    placeholders, templates and unused nodes are of no concern. -/
def Constructs (f : Forest) (P : Program) (root : Nat) (d : FDocument) : Prop :=
  ∃ s', runSpec { forest := f } P = some s' ∧
    ∃ h, s'.env[root]? = some h ∧ s'.forest.treeAt h = some (treeOf d)

end Prog2
end XotModel
