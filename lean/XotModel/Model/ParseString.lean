/-
  XotModel.Model.ParseString — `Xot::parse_with_span_info(xml)` / `parse_fragment_with_span_info(xml)`
  on a STRING: the reference tokenizer (Model/Lex.lean, xmlparser) feeding the builder
  (Model/Parse.lean), exactly as `Xot::_parse` wires them.
-/
import XotModel.Model.Parse
import XotModel.Model.Lex

namespace XotModel

/-- `Tokenizer::from(xml)` for `parse`, `Tokenizer::from_fragment(xml, 0..xml.len())` for
    `parse_fragment`: the tokens up to the first tokenizer error, and that error's position. -/
def lexMode : Mode → Str → List Token × Option Nat
  | .document, s => lexDocument s
  | .fragment, s => lexFragment s

/-- `parse_with_span_info` / `parse_fragment_with_span_info` on the text `s`. -/
def parseString (m : Mode) (env : Env) (s : Str) : BuildResult :=
  build m (strLen s) env (lexMode m s).1 (lexMode m s).2

end XotModel
