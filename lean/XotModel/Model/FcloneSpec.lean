/-
  XotModel.Model.FcloneSpec — what C12 says a clone should be (specification, not a mirror of
  the Rust): the source subtree in which every run of adjacent text nodes has been merged into
  one (`mergeAdjacentText`), and a structural copy with fresh handles (`copyInto` / `copyKids`),
  the function the edge replay of `clone_node` is proved equal to.
-/
import XotModel.Model.Manip

namespace XotModel

/-- Add `t` at the end of an already merged child list: a text node arriving after a text node is
    absorbed by it (its content is appended; the first node stays). -/
def snocMerge (A : List Tree) (t : Tree) : List Tree :=
  match t, A.getLast? with
  | .node (.text s) _, some (.node (.text ps) pk) => A.dropLast ++ [.node (.text (ps ++ s)) pk]
  | _, _ => A ++ [t]

mutual
  /-- Merge every run of adjacent text children into its first node, at every level. -/
  def mergeAdjacentText : Tree → Tree
    | .node v ks => .node v (mergeInto [] ks)
  /-- Scan the children left to right, `A` = what has been produced so far. -/
  def mergeInto (A : List Tree) : List Tree → List Tree
    | [] => A
    | k :: ks => mergeInto (snocMerge A (mergeAdjacentText k)) ks
end

/-- What `clone_node` is expected to produce from a source subtree, handles forgotten. -/
def expectedClone (consolidation : Bool) (t : Tree) : Tree :=
  if consolidation then mergeAdjacentText t else t

/-! ### Structural copy with fresh handles -/

/-- Add a copied leaf / element `new` at the end of the child list `K`; with consolidation a text
    node arriving after a text node is absorbed by it. -/
def snocClone (cons : Bool) (K : List HTree) (new : HTree) : List HTree :=
  match cons, new.value, K.getLast? with
  | true, .text s, some (.node m (.text ps) mk) => K.dropLast ++ [.node m (.text (ps ++ s)) mk]
  | _, _, _ => K ++ [new]

mutual
  /-- Copy the source subtree after the children `K` already copied, numbering the new nodes
      from `n`; returns the new child list and the next free handle. One handle is used per
      source node (also for a text node that is then absorbed); document values are skipped. -/
  def copyInto (cons : Bool) (K : List HTree) (n : Nat) : HTree → List HTree × Nat
    | .node _ v ks =>
      match v with
      | .document => copyKids cons K n ks
      | .element _ =>
        let r := copyKids cons [] (n + 1) ks
        (K ++ [.node n v r.1], r.2)
      | _ => (snocClone cons K (.node n v []), n + 1)
  def copyKids (cons : Bool) (K : List HTree) (n : Nat) : List HTree → List HTree × Nat
    | [] => (K, n)
    | k :: ks =>
      let r := copyInto cons K n k
      copyKids cons r.1 r.2 ks
end

/-- The whole clone of a source subtree in a store whose next free handle is `n`, and the next
    free handle afterwards: a document gets handle `n`; an element `n + 1` (`n` is the temporary
    top element of `clone_node`, removed at the end); any other node is copied alone. -/
def copyRoot (cons : Bool) (n : Nat) : HTree → HTree × Nat
  | .node _ v ks =>
    match v with
    | .document =>
      let r := copyKids cons [] (n + 1) ks
      (.node n .document r.1, r.2)
    | .element _ =>
      let r := copyKids cons [] (n + 2) ks
      (.node (n + 1) v r.1, r.2)
    | _ => (.node n v [], n + 1)

/-! ### Mutation histories (for the independence clause) -/

/-- A mutating call of the manipulation API, with its node arguments. -/
inductive EditOp where
  | append (parent child : Nat)
  | prepend (parent child : Nat)
  | insertAfter (ref new : Nat)
  | insertBefore (ref new : Nat)
  | detach (node : Nat)
  | remove (node : Nat)
  | setText (node : Nat) (s : Str)
  | setComment (node : Nat) (s : Str)
  | setPiData (node : Nat) (d : Option Str)
  | setElementName (node : Nat) (name : Nat)

/-- The node arguments of a call. -/
def EditOp.args : EditOp → List Nat
  | .append p c => [p, c]
  | .prepend p c => [p, c]
  | .insertAfter r n => [r, n]
  | .insertBefore r n => [r, n]
  | .detach n => [n]
  | .remove n => [n]
  | .setText n _ => [n]
  | .setComment n _ => [n]
  | .setPiData n _ => [n]
  | .setElementName n _ => [n]

/-- The state after the call (whatever it returned). -/
def Forest.edit (f : Forest) : EditOp → Forest
  | .append p c => (f.append p c).1
  | .prepend p c => (f.prepend p c).1
  | .insertAfter r n => (f.insertAfter r n).1
  | .insertBefore r n => (f.insertBefore r n).1
  | .detach n => (f.detach n).1
  | .remove n => (f.remove n).1
  | .setText n s => (f.setText n s).1
  | .setComment n s => (f.setComment n s).1
  | .setPiData n d => (f.setPiData n d).1
  | .setElementName n name => (f.setElementName n name).1

/-- A history of calls. -/
def Forest.edits (f : Forest) (ops : List EditOp) : Forest := ops.foldl Forest.edit f

end XotModel
